import NakenVerif.Cond.Impl
import NakenVerif.Cond.Prog
namespace Driver.Cond
open NakenVerif.Cond NakenVerif.Generated

def hexVal (c : Char) : Nat :=
  if '0' ≤ c ∧ c ≤ '9' then c.toNat - 48
  else if 'a' ≤ c ∧ c ≤ 'f' then c.toNat - 87
  else if 'A' ≤ c ∧ c ≤ 'F' then c.toNat - 55 else 0

def unhexAux : List Char → List Char
  | a :: b :: rest => Char.ofNat (16 * hexVal a + hexVal b) :: unhexAux rest
  | _ => []

def unhex (s : String) : String := if s == "-" then "" else String.ofList (unhexAux s.toList)

def hexDigit (n : Nat) : Char := if n < 10 then Char.ofNat (48 + n) else Char.ofNat (87 + n)
def hex2 (n : Nat) : String := String.ofList [hexDigit (n / 16 % 16), hexDigit (n % 16)]
def hexNat (n : Nat) : String := String.ofList (Nat.toDigits 16 n)

def condOpOfName : String → Option CondOp
  | "eq" => some .eq | "ge" => some .ge | "le" => some .le | "gt" => some .gt
  | "lt" => some .lt | "or" => some .or | "and" => some .and | _ => none

def isIdentStart (c : Char) : Bool := c.isAlpha || c == '_'

def tokOfString (s : String) : Tok :=
  match condOperatorTokens.find? (fun e => e.1 == s) with
  | some (_, nm, _) => (match condOpOfName nm with | some o => .op o | none => .other 0)
  | none =>
    if s == "!" then .bang
    else if s == "(" then .lparen
    else if s == ")" then .rparen
    else if s.toLower == "defined" then .defined
    else match s.toList with
      | c :: _ =>
          if s.toList.all Char.isDigit then .num (atoi s)
          else if isIdentStart c then .name s
          else .other 1
      | [] => .other 2

/-- env text: ';'-separated  d:NAME=VALUE | m:NAME | s:NAME=ADDR -/
def envOfText (text : String) : Env :=
  let entries := (text.splitOn ";").filterMap (fun e =>
    match e.toList with
    | k :: ':' :: body =>
        let b := String.ofList body
        let parts := b.splitOn "="
        let name := parts.headD ""
        let value := "=".intercalate (parts.drop 1)
        some (k, name, value)
    | _ => none)
  fun s =>
    match entries.find? (fun e => (e.1 == 'd' || e.1 == 'm') && e.2.1 == s) with
    | some (k, _, v) => if k == 'd' then identOfDefine v else .defOther
    | none =>
      match entries.find? (fun e => e.1 == 's' && e.2.1 == s) with
      | some (_, _, v) => .sym (BitVec.ofNat 32 v.toNat!)
      | none => .undef

/-- `cond <hex env> tok tok ...` -/
def handle (args : List String) : String :=
  match args with
  | e :: toks =>
      let env := envOfText (unhex e)
      let ts := toks.map tokOfString ++ [.eol]
      let (v, printed) := evalIfdefExpression env ts
      "r=" ++ toString v.toInt ++ " e=" ++ (if printed then "1" else "0")
  | [] => "bad-op"

/-- `evop <token> <a> <b>` : get_operator + eval_operation called directly -/
def handleEvop (args : List String) : String :=
  match args with
  | [tok, a, b] =>
      (match condOperatorTokens.find? (fun e => e.1 == tok) with
       | some (_, nm, pr) =>
           (match condOpOfName nm with
            | some o => "v=" ++ toString (evalOperation o (BitVec.ofInt 32 a.toInt!) (BitVec.ofInt 32 b.toInt!)).toInt ++ " p=" ++ toString pr
            | none => "none")
       | none => "none")
  | _ => "bad-op"

def kwOfString (s : String) : Kw :=
  match s.toLower with
  | "if" => .if_ | "ifdef" => .ifdef | "ifndef" => .ifndef | "else" => .else_ | "endif" => .endif
  | _ => .other

def dtokOfString (s : String) : DTok :=
  if s == "<nl>" then .eol
  else if s == "." || s == "#" then .dot
  else match s.toList with
    | c :: _ => if isIdentStart c then .word (kwOfString s) else .other
    | [] => .other

/-- `skip w w ...` -/
def handleSkip (args : List String) : String :=
  let (r, rest) := ifdefIgnore 0 (args.map dtokOfString)
  "ret=" ++ (match r with | .endif => "0" | .else_ => "2" | .eof => "-1") ++ " rest=" ++ toString rest.length

open NakenVerif.Cond.Prog in
def itemOfString (s : String) : Option (Item Stmt) :=
  match s.splitOn ":" with
  | ["db", n] => some (.stmt (.db n.toNat!))
  | ["lab", nm] => some (.stmt (.label nm))
  | ["def", nm, v] => some (.stmt (.define nm v))
  | ["bad"] => some (.stmt .bad)
  | ["if", c] => some (.ifc ((c.splitOn ",").map tokOfString ++ [.eol]))
  | ["ifdef", nm] => some (.ifdef false (if nm == "" then none else some nm))
  | ["ifndef", nm] => some (.ifdef true (if nm == "" then none else some nm))
  | ["else"] => some .else_
  | ["endif"] => some .endif
  | _ => none

/-- `blk item item ...` -/
def handleBlk (args : List String) : String :=
  match args.mapM itemOfString with
  | none => "bad-op"
  | some items =>
    match NakenVerif.Cond.Prog.run items with
    | .ok o =>
        let img (l : List Nat) := if l.isEmpty then "-" else "0:" ++ String.join (l.map hex2)
        let syms := if o.syms.isEmpty then "-" else ",".intercalate (o.syms.map (fun (n, a) => n ++ "=" ++ hexNat a ++ "@0"))
        "st=0 p1=" ++ img o.p1 ++ " p2=" ++ img o.p2 ++ " syms=" ++ syms
    | .err => "st=1"
    | .fuel => "fuel"

end Driver.Cond
