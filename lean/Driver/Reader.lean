import NakenVerif.Reader.GetImpl
namespace Driver.Reader
open NakenVerif.Reader NakenVerif.Generated

def hexVal (c : Char) : Nat :=
  if '0' ≤ c ∧ c ≤ '9' then c.toNat - 48
  else if 'a' ≤ c ∧ c ≤ 'f' then c.toNat - 87
  else if 'A' ≤ c ∧ c ≤ 'F' then c.toNat - 55 else 0

def unhexAux : List Char → List Nat
  | a :: b :: rest => (16 * hexVal a + hexVal b) :: unhexAux rest
  | _ => []

def unhex (s : String) : List Nat := if s == "-" then [] else unhexAux s.toList

def hexDigit (n : Nat) : Char := if n < 10 then Char.ofNat (48 + n) else Char.ofNat (87 + n)

def tohex (l : List Nat) : String :=
  if l.isEmpty then "-" else String.ofList (l.flatMap fun b => [hexDigit (b / 16 % 16), hexDigit (b % 16)])

def typeNum : TType → Int
  | .eof => -1 | .eol => 0 | .number => 1 | .float => 2 | .pound => 3 | .label => 4 | .string => 5
  | .symbol => 6 | .quoted => 7 | .ticked => 8 | .equality => 9 | .dollar => 10 | .unknown => 11

def stateStr (r : RState) : String :=
  s!"u={r.unget.length} sp={r.marks.length - 1} ms={r.stack.length} ac={r.arena.length - 1} ec={r.errors}"

def bigFuel : Nat := 3000000

/-- name:param_count:hexvalue;... -/
def parseDefs (s : String) : List (List Nat × List Nat × Nat) :=
  if s == "-" then []
  else (s.splitOn ";").filterMap fun one =>
    match one.splitOn ":" with
    | [name, pc, value] => some (name.toList.map Char.toNat, cstr (unhex value), pc.toNat!)
    | _ => none

def envOf (defs : List (List Nat × List Nat × Nat)) : MacroEnv := fun name =>
  match defs.find? (fun d => d.1 == name) with
  | some (_, text, pc) => some (text, pc % 256)
  | none => none

def cfgOf (flags : String) (len : Nat) : Cfg :=
  let f := flags.toList.map (· == '1')
  { len := len, canTick := f.getD 0 false, dots := f.getD 1 false, slashes := f.getD 2 false,
    dollarHex := f.getD 3 false, noDots := f.getD 4 false, noPostfix := f.getD 5 false }

/-- tokens until TOKEN_EOF, at most `limit` -/
def tkLoop (cfg : Cfg) (env : MacroEnv) : Nat → RState → List String → String
  | 0, r, acc => "t=" ++ ",".intercalate acc.reverse ++ " " ++ stateStr r
  | n + 1, r, acc =>
    match tokensGet cfg env bigFuel 1000000000 r with
    | .fault f => s!"fault {repr f}"
    | .exit => "exit"
    | .fuel => "fuel"
    | .tok tt text r' =>
      let one := s!"{typeNum tt}:" ++ (if tt == .number || tt == .eof then "-" else tohex (cstr text))
      if tt == .eof then "t=" ++ ",".intercalate (one :: acc).reverse ++ " " ++ stateStr r'
      else tkLoop cfg env n r' (one :: acc)

def handleTk (args : List String) : String :=
  match args with
  | [flags, len, defs, text] =>
    let src := unhex text
    tkLoop (cfgOf flags len.toNat!) (envOf (parseDefs defs)) (src.length * 3 + 40) (RState.init src) []
  | _ => "bad-op"

/-! macros_parse as a whole (composition of the modelled pieces) -/

/-- macros_strip on a C string -/
def macrosStrip : List Nat → List Nat
  | [] => []
  | c :: rest =>
    if c = 59 then []
    else if c = 47 ∧ rest.head? = some 47 then []
    else c :: macrosStrip rest

def stdCfg : Cfg := { len := tokenLen }

/-- the parameter-name loop of macros_parse -/
def paramLoop : Nat → RState → List Nat → Nat → Except String (RState × List Nat × Nat)
  | 0, _, _, _ => .error "fuel"
  | n + 1, r, params, count =>
    match tokensGet stdCfg (fun _ => none) bigFuel 4 r with
    | .fault f => .error s!"fault {repr f}"
    | .exit => .error "exit"
    | .fuel => .error "fuel"
    | .tok tt text r1 =>
      if tt != .string then .error ("ret=-1 undef " ++ stateStr r1)
      else
        match addParam params count (cstr text) with
        | .fault f => .error s!"fault {repr f}"
        | .error => .error ("ret=-1 undef " ++ stateStr r1)
        | .ok params' count' =>
          match tokensGet stdCfg (fun _ => none) bigFuel 4 r1 with
          | .fault f => .error s!"fault {repr f}"
          | .exit => .error "exit"
          | .fuel => .error "fuel"
          | .tok _ text2 r2 =>
            if cstr text2 == [41] then .ok (r2, params', count')
            else if cstr text2 != [44] then .error ("ret=-1 undef " ++ stateStr r2)
            else paramLoop n r2 params' count'

def handleMp (args : List String) : String :=
  match args with
  | [isDef, text] =>
    let isDefine := isDef == "1"
    let src := unhex text
    match parseName isDefine bigFuel (RState.init src) with
    | .fault f => s!"fault {repr f}"
    | .fuel => "fuel"
    | .done nres =>
      match nres.how with
      | .exit => "exit"
      | .bad => "ret=-1 undef " ++ stateStr nres.r
      | how =>
        let pl : Except String (RState × List Nat × Nat) :=
          if how == .parens then paramLoop 2000 nres.r [] 0 else .ok (nres.r, [], 0)
        match pl with
        | .error e => e
        | .ok (r1, params, count) =>
          -- a .macro line must end here
          let r2 : Except String RState :=
            if isDefine then .ok r1
            else
              match tokensGet stdCfg (fun _ => none) bigFuel 4 r1 with
              | .fault f => .error s!"fault {repr f}"
              | .exit => .error "exit"
              | .fuel => .error "fuel"
              | .tok tt _ r' => if tt != .eol then .error ("ret=-1 undef " ++ stateStr r') else .ok r'
          match r2 with
          | .error e => e
          | .ok r2 =>
            match parseBody isDefine params bigFuel r2 with
            | .fault f => s!"fault {repr f}"
            | .fuel => "fuel"
            | .done bres =>
              match bres.how with
              | .exit => "exit"
              | .error => "ret=-1 undef " ++ stateStr bres.r
              | .body =>
                match finishBody bres with
                | none => "fault macroBufOverflow"
                | some text =>
                  let value := macrosStrip (cstr text)
                  let name := cstr nres.name
                  -- macros_append: the name length is stored in an int8_t
                  if name.length + 1 > 127 then "ret=0 undef " ++ stateStr bres.r
                  else s!"ret=0 def={tohex name}:{count % 256}:{tohex value} " ++ stateStr bres.r
  | _ => "bad-op"

def mxLoop (define : List Nat) (pc : Nat) : Nat → RState → List String → String
  | 0, r, acc => ",".intercalate acc.reverse ++ " " ++ stateStr r
  | n + 1, r, acc =>
    match expArgs bigFuel r with
    | .fault f => s!"fault {repr f}"
    | .fuel => "fuel"
    | .done res =>
      match expFinish res define pc with
      | .fault f => s!"fault {repr f}"
      | .exit => "exit"
      | .error r' => mxLoop define pc n r' ("null" :: acc)
      | .ok r' frame =>
        mxLoop define pc n r' (s!"{tohex frame.text}/{r'.arena.length - 1}/{r'.arena.headD 0}" :: acc)

def handleMx (args : List String) : String :=
  match args with
  | [k, pc, define, text] =>
    mxLoop (cstr (unhex define)) pc.toNat! k.toNat! (RState.init (unhex text)) []
  | _ => "bad-op"

end Driver.Reader
