import NakenVerif.Symbols.Impl
namespace Driver.Sym
open NakenVerif.Symbols

def hex (n : Nat) : String := String.ofList (Nat.toDigits 16 n)

/-- decimal or 0x-hex, reduced to 32 bits like the `(uint32_t)strtoull(...)` of the harness -/
def parseNum (s : String) : Nat :=
  let v :=
    if s.startsWith "0x" || s.startsWith "0X" then
      (s.drop 2).toString.foldl (fun acc c =>
        let d := if c.isDigit then c.toNat - '0'.toNat
                 else if 'a' ≤ c ∧ c ≤ 'f' then c.toNat - 'a'.toNat + 10
                 else if 'A' ≤ c ∧ c ≤ 'F' then c.toNat - 'A'.toNat + 10 else 0
        acc * 16 + d) 0
    else s.toNat?.getD 0
  v % 2 ^ 32

def padName (pre : String) (i pad : Nat) : String :=
  let s := pre ++ toString i
  s.pushn '_' (pad - s.length)

def showEntry (e : Entry) : String :=
  e.name ++ "=" ++ hex e.address ++ "@" ++ toString e.scope ++ (if e.exp then "!" else "")

def showInt (i : Int) : String := toString i

partial def bulk (s : Symbols) (pre : String) (i n pad base okc : Nat) : Option (Symbols × Nat) :=
  if i ≥ n then some (s, okc)
  else match append s (padName pre i pad) ((base + i) % 2 ^ 32) with
    | .fault => none
    | .ok s' r => bulk s' pre (i + 1) n pad base (if r == 0 then okc + 1 else okc)

partial def scopes (s : Symbols) (n : Nat) : Symbols :=
  if n == 0 then s else scopes (scopeEnd (scopeStart s).1) (n - 1)

/-- one operation: new state and printed result; `none` = fault -/
def doOp (s : Symbols) (op : String) : Option (Symbols × String) :=
  match op.splitOn ":" with
  | ["a", n, a] => match append s n (parseNum a) with
      | .ok s' r => some (s', "a" ++ showInt r) | .fault => none
  | ["s", n, v] => match set s n (parseNum v) with
      | .ok s' r => some (s', "s" ++ showInt r) | .fault => none
  | ["e", n] => match exportSymbol s n with
      | .ok s' r => some (s', "e" ++ showInt r) | .fault => none
  | ["l", n] => let (r, a) := lookup s n; some (s, "l" ++ showInt r ++ ":" ++ hex a)
  | ["f", n] => match find s n with
      | none => some (s, "f-")
      | some e => some (s, "f" ++ hex e.address ++ "@" ++ toString e.scope ++ (if e.rw then "w" else "") ++
                          (if e.exp then "!" else ""))
  | ["S"] => let (s', r) := scopeStart s; some (s', "S" ++ showInt r)
  | ["E"] => some (scopeEnd s, "E")
  | ["R"] => some (scopeReset s, "R")
  | ["L"] => some (lock s, "L")
  | ["T", n] => some (scopes s (n.toNat?.getD 0), "T")
  | ["B", pre, n, pad, base] =>
      match bulk s pre 0 (n.toNat?.getD 0) (pad.toNat?.getD 0) (parseNum base) 0 with
      | some (s', okc) => some (s', "B" ++ toString okc) | none => none
  | ["I"] => match iterateAll s with
      | some (es, cnt) => some (s, "I[" ++ ",".intercalate (es.map showEntry) ++ "]#" ++ toString cnt)
      | none => none
  | ["C"] => some (s, "C" ++ toString (count s))
  | ["X"] => some (s, "X" ++ toString (exportCount s))
  | _ => some (s, "bad-op")

def runOps : Symbols → List String → List String → String
  | _, [], acc => " ".intercalate acc.reverse
  | s, o :: os, acc =>
      match doOp s o with
      | some (s', r) => runOps s' os (r :: acc)
      | none => " ".intercalate ("fault" :: acc).reverse

/-- `sym <op> <op> …` -/
def handle (args : List String) : String :=
  if args.isEmpty then "-" else runOps {} args []

end Driver.Sym
