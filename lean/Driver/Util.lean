import NakenVerif.Util.Session
import NakenVerif.Generated.CpuList
namespace Driver.Util
open NakenVerif NakenVerif.Memory NakenVerif.Util

def hexDigit (c : Char) : Option Nat :=
  if '0' ≤ c ∧ c ≤ '9' then some (c.toNat - '0'.toNat)
  else if 'a' ≤ c ∧ c ≤ 'f' then some (c.toNat - 'a'.toNat + 10)
  else if 'A' ≤ c ∧ c ≤ 'F' then some (c.toNat - 'A'.toNat + 10)
  else none

def parseHex (s : String) : Option Nat :=
  if s.isEmpty then none
  else s.toList.foldl (fun acc c => match acc, hexDigit c with
    | some a, some d => some (a * 16 + d)
    | _, _ => none) (some 0)

def toHex (n : Nat) : String := String.ofList (Nat.toDigits 16 n)
def hx (v : BitVec n) : String := toHex v.toNat

/-- hex string ("-" = empty) → characters (latin-1) -/
def unhexChars (s : String) : Option (List Char) :=
  if s == "-" then some []
  else
    let rec go : List Char → Option (List Char)
      | [] => some []
      | [_] => none
      | a :: b :: rest =>
        match hexDigit a, hexDigit b, go rest with
        | some x, some y, some r => some (Char.ofNat (x * 16 + y) :: r)
        | _, _, _ => none
    go s.toList

def splitLines (s : List Char) : List (List Char) :=
  let rec go : List Char → List Char → List (List Char)
    | [], cur => if cur.isEmpty then [] else [cur.reverse]
    | c :: t, cur => if c = '\n' then cur.reverse :: go t [] else go t (c :: cur)
  go s []

def renderEvent : Event → String
  | .illegal => "ill"
  | .badAddress => "bad"
  | .unaligned => "unal"
  | .wrote c a => "w" ++ toString c ++ "@" ++ hx a
  | .row a => "r" ++ hx a
  | .val v => "v" ++ hx v
  | .disasmRange s e => "d" ++ hx s ++ "-" ++ hx e
  | .internalError => "interr"
  | .assembling o => "asm@" ++ hx o
  | .hang => "hang"

def renderOut : Out → String
  | .ev e => renderEvent e
  | .unknown => "unk"
  | .needsArg => "need"
  | .takesNoArg => "noarg"
  | .missingEq => "noeq"
  | .regSet n => "set=" ++ hx n
  | .syntaxError => "syn"
  | .asmError => "asmerr"
  | .regs r => "regs=" ++ ",".intercalate (r.map hx)
  | .info s e => "info=" ++ hx s ++ "-" ++ hx e
  | .notModelled => "nm"

def parseSyms (s : String) : Option (List (List Char × BitVec 32)) :=
  if s == "-" then some []
  else (s.splitOn ",").mapM fun item =>
    match item.splitOn "=" with
    | [n, a] => (parseHex a).map fun v => (n.toList, BitVec.ofNat 32 v)
    | _ => none

/-- `ok:<bpa>:<low>:<high>:<hex bytes of low..high>` | `err` -/
def parseAsmResult (s : String) : Option AsmResult :=
  if s == "err" then some .err
  else match s.splitOn ":" with
    | ["ok", bpa, low, high, bytes] =>
      match bpa.toNat?, parseHex low, parseHex high, unhexChars bytes with
      | some bpa, some low, some high, some bs =>
        let m0 : Memory := Memory.init
        let (m, _) := bs.foldl (fun (acc : Memory × Nat) c =>
          (Memory.write8 acc.1 (BitVec.ofNat 32 acc.2) (BitVec.ofNat 8 c.toNat), acc.2 + 1)) (m0, low)
        -- low/high are the assembler's own (they agree with the bumps of write8 whenever bytes were given)
        some (.ok { m with lowAddress := BitVec.ofNat 32 low, highAddress := BitVec.ofNat 32 high } (BitVec.ofNat 32 bpa))
      | _, _, _, _ => none
    | _ => none

/-- `util <cpu> <syms|-> <hex script> [<asm result>]...` -/
def handle (args : List String) : String :=
  match args with
  | cpu :: syms :: script :: asms =>
    match Generated.cpuList.find? (fun c => c.name == cpu), parseSyms syms, unhexChars script, asms.mapM parseAsmResult with
    | some info, some syms, some script, some asms =>
      let m0 : Memory := { Memory.init with bigEndian := info.bigEndian }
      let cx : Ctx := { mem := m0, bpa := BitVec.ofNat 32 info.bytesPerAddress,
                        alignment := BitVec.ofNat 32 info.alignment,
                        lookup := fun name => (syms.find? (fun e => e.1 == name)).map (·.2) }
      let msp := cpu == "msp430"
      let s : Session := { cx := cx, org := 0, inCode := false, codeNonEmpty := false, wasPcSet := false,
                           msp430 := msp, regs := if msp then resetMsp430 m0 else 0, cycleCount := 0,
                           nestedCallCount := 0, asmResults := asms }
      let (_, outs) := runLines s (splitLines script)
      " | ".intercalate (outs.map fun o => if o.isEmpty then "-" else " ".intercalate (o.map renderOut))
    | _, _, _, _ => "bad-op"
  | _ => "bad-op"

/-- `unum <kind> <hex text>` -/
def handleNum (args : List String) : String :=
  match args with
  | [kind, text] =>
    match unhexChars text with
    | none => "bad-op"
    | some t =>
      let cx (bpa : Nat) : Ctx :=
        { mem := Memory.write8 Memory.init 0x12345 1, bpa := BitVec.ofNat 32 bpa, alignment := 1, lookup := fun _ => none }
      let showParsed (p : Parsed) : String :=
        match p with
        | .ok v rest => "ok " ++ hx v ++ " " ++ toString (t.length - rest.length)
        | .eol => "null"
        | .illegal => "null ill"
      match kind.toList with
      | ['n'] => showParsed (getNum t)
      | 'a' :: b => showParsed (getAddress (cx (String.ofList b).toNat!) t)
      | 'r' :: b =>
        match getRange (cx (String.ofList b).toNat!) t with
        | (some (s, e), ill) => "ok " ++ hx s ++ " " ++ hx e ++ (if ill then " ill" else "")
        | (none, ill) => "null" ++ (if ill then " ill" else "")
      | _ => "bad-op"
  | _ => "bad-op"

end Driver.Util
