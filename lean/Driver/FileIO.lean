import NakenVerif.FileIO.HexImpl
import NakenVerif.FileIO.SrecImpl
import NakenVerif.FileIO.BinImpl
import NakenVerif.FileIO.ReadImpl
import NakenVerif.FileIO.WdcImpl
import NakenVerif.FileIO.Uf2Impl
import NakenVerif.FileIO.ElfImpl
import NakenVerif.FileIO.ElfReadImpl
import NakenVerif.FileIO.Uf2ReadImpl
import NakenVerif.FileIO.TiTxtImpl
import NakenVerif.FileIO.AmigaImpl
import NakenVerif.Generated.Limits
import NakenVerif.Generated.SymbolsLayout
import Std.Data.HashMap
import NakenVerif.Generated.CpuList
namespace Driver.FileIO
open NakenVerif.FileIO NakenVerif.Generated

def hexDigitVal (c : Char) : Nat :=
  if '0' ≤ c ∧ c ≤ '9' then c.toNat - 48
  else if 'a' ≤ c ∧ c ≤ 'f' then c.toNat - 87
  else if 'A' ≤ c ∧ c ≤ 'F' then c.toNat - 55 else 0

def parseHexNat (s : List Char) : Nat := s.foldl (fun a c => a * 16 + hexDigitVal c) 0

def parseHexBytes : List Char → List UInt8
  | h :: l :: rest => UInt8.ofNat (hexDigitVal h * 16 + hexDigitVal l) :: parseHexBytes rest
  | _ => []

def lowerDigit (d : Nat) : Char := if d < 10 then Char.ofNat (48 + d) else Char.ofNat (87 + d)

def toHexString (bs : List UInt8) : String :=
  if bs.isEmpty then "-" else
  bs.foldl (fun (s : String) b => (s.push (lowerDigit (b.toNat / 16))).push (lowerDigit (b.toNat % 16))) ""

def natHex (n : Nat) : String := String.ofList (Nat.toDigits 16 n)

def charsToBytes (cs : List Char) : List UInt8 := cs.map (fun c => UInt8.ofNat c.toNat)

/-- `addr:hexbytes;addr:hexbytes` (ascending, disjoint) → (low, cells) -/
def parseCells (s : String) : Nat × List (Option UInt8) :=
  if s == "-" then (0xffffffff, []) else
  let segs := (s.splitOn ";").map (fun seg =>
    match seg.splitOn ":" with
    | [a, d] => (parseHexNat a.toList, parseHexBytes d.toList)
    | _ => (0, []))
  match segs with
  | [] => (0xffffffff, [])
  | (low, _) :: _ =>
    let (_, rev) := segs.foldl (fun (st : Nat × List (Option UInt8)) (seg : Nat × List UInt8) =>
        let (n, acc) := st
        let gap := seg.1 - n
        let acc1 := (List.replicate gap (none : Option UInt8)) ++ acc
        (seg.1 + seg.2.length, seg.2.reverse.map some ++ acc1)) (low, [])
    (low, rev.reverse)

def srecSizeOf (cpu : String) : Nat :=
  let name := if cpu == "-" then "msp430" else cpu
  match cpuList.find? (fun c => c.name == name) with
  | some c => c.srecSize
  | none => 0

/-- `Symbols::append` calls on a fresh table, in `Symbols::iterate` order: an entry goes to the first pool of
SYMBOLS_HEAP_SIZE bytes with `ptr + token_len + sizeof(Entry) < len` (so a short name can land in an earlier pool than
its predecessor); a name that is already there or longer than 254 characters is refused.
Entry = (name, address, exported). -/
def symPools (calls : List (List UInt8 × Nat × Bool)) : List (List UInt8 × Nat × Bool) :=
  let heap := NakenVerif.Generated.symbolsHeapSize
  let hdr := NakenVerif.Generated.symbolEntryHeader
  let pools : Array (Nat × Array (List UInt8 × Nat × Bool)) :=
    calls.foldl (fun (pools : Array (Nat × Array (List UInt8 × Nat × Bool))) c =>
      let tl := c.1.length + 1
      if tl > 255 ∨ pools.any (fun p => p.2.any (fun e => e.1 == c.1)) then pools else
      match pools.findIdx? (fun p => p.1 + tl + hdr < heap) with
      | some i => pools.modify i (fun p => (p.1 + tl + hdr, p.2.push c))
      | none => pools.push (tl + hdr, #[c])) #[]
  pools.toList.flatMap (fun p => p.2.toList)

/-- `name=hexaddr[!],...` → the exported symbols in `Symbols::iterate` order -/
def parseSyms (s : String) : List ElfImpl.Sym :=
  if s == "-" then [] else
  let all := (s.splitOn ",").map (fun e =>
    let ex := e.endsWith "!"
    let body := if ex then e.toList.dropLast else e.toList
    let rev := body.reverse
    let addr := (rev.takeWhile (· ≠ '=')).reverse
    let name := (rev.dropWhile (· ≠ '=')).drop 1 |>.reverse
    (charsToBytes name, parseHexNat addr, ex))
  (symPools all).filterMap (fun e => if e.2.2 then some (e.1, e.2.1) else none)

def cpuInfoOf (cpu : String) : Option CpuInfo :=
  let name := if cpu == "-" then "msp430" else cpu
  cpuList.find? (fun c => c.name == name)

/-- `memory.endian` as the harness sets it: the CPU's default, overridden by the letters b / l -/
def endianOf (cpu opts : String) : Bool :=
  if opts.contains 'l' then false else if opts.contains 'b' then true
  else match cpuInfoOf cpu with | some c => c.bigEndian | none => false

def elfConfig (cpu : String) : ElfImpl.Config :=
  match cpuInfoOf cpu with
  | some c => { cpuType := c.type, alignment := c.alignment, filename := charsToBytes "image.asm".toList }
  | none => { cpuType := 0, alignment := 1, filename := charsToBytes "image.asm".toList }

/-- `wr <fmt> <cpu|-> <opts> <cells> <entry|-> [syms]` -/
def handleWr (args : List String) : String :=
  match args with
  | fmt :: cpu :: opts :: cells :: entry :: rest =>
    let (low, cs) := parseCells cells
    let img : Image := { low := low, cells := cs,
                         entry := if entry == "-" then 0xffffffff else parseHexNat entry.toList,
                         bigEndian := opts.contains 'b' }
    let head := "ok low=" ++ natHex img.low ++ " high=" ++ natHex img.high ++ " s0=- file="
    if fmt == "hex" then head ++ toHexString (charsToBytes (HexImpl.write img))
    else if fmt == "srec" then
      -- the S0 time stamp record is compared separately (`s0` command); the body starts after it
      let full := SrecImpl.write img (srecSizeOf cpu) []
      let hdr := SrecImpl.header []
      head ++ toHexString (charsToBytes (full.drop hdr.length))
    else if fmt == "bin" then head ++ toHexString (BinImpl.write img)
    else if fmt == "wdc" then head ++ toHexString (WdcImpl.write img)
    else if fmt == "uf2" then head ++ toHexString (Uf2Impl.write img)
    else if fmt == "amiga" then head ++ toHexString (AmigaImpl.write img)
    else if fmt == "elf" then
      let syms := match rest with | s :: _ => parseSyms s | [] => []
      let img := { img with bigEndian := endianOf cpu opts }
      "ok low=" ++ natHex img.low ++ " high=" ++ natHex (ElfImpl.highAddr img) ++ " s0=- file=" ++
        toHexString (ElfImpl.write img syms (elfConfig cpu))
    else "not-modelled"
  | _ => "bad-op"

/-- `s0 <hex of the 7 time stamp bytes>` → hex of the S0 line -/
def handleS0 (args : List String) : String :=
  match args with
  | [d] => toHexString (charsToBytes (SrecImpl.header (parseHexBytes d.toList)))
  | _ => "bad-op"

end Driver.FileIO

namespace Driver.FileIO
open NakenVerif.FileIO

/-- final memory after a sequence of `write8` calls, non-zero bytes in address order, grouped in runs -/
def dumpNonZero (writes : List (Nat × UInt8)) : String :=
  let m : Std.HashMap Nat UInt8 := writes.foldl (fun m (a, b) => m.insert a b) {}
  let keys := (m.toArray.filter (fun (_, b) => b != 0)).qsort (fun x y => x.1 < y.1)
  if keys.isEmpty then "-" else
  let (out, _) := keys.foldl (fun (st : String × Option Nat) (a, b) =>
      let (s, prev) := st
      let s1 := if prev == some a then s else (if s.isEmpty then s else s.push ';') ++ natHex a ++ ":"
      ((s1.push (lowerDigit (b.toNat / 16))).push (lowerDigit (b.toNat % 16)), some (a + 1))) ("", none)
  out

def showLoaded (typ : String) (r : ReadImpl.Loaded) : String :=
  -- file_read(): a non-negative return value becomes 0 and the CPU is set (type 0 = msp430)
  let ok := r.ret ≥ 0
  "ret=" ++ toString (if ok then 0 else r.ret) ++ " type=" ++ typ ++ " low=" ++ natHex r.low ++ " high=" ++ natHex r.high ++
    " end=l cpu=" ++ (if ok then "msp430" else "-") ++ " nz=" ++ dumpNonZero r.writes ++ " syms=-"

def upperDigit (d : Nat) : Char := if d < 10 then Char.ofNat (48 + d) else Char.ofNat (55 + d)

/-- a symbol name as the harness prints it: bytes outside 0x21..0x7e and `,` `=` `%` as %XX -/
def bytesToString (bs : List UInt8) : String :=
  bs.foldl (fun (s : String) b =>
    if b.toNat < 0x21 ∨ b.toNat > 0x7e ∨ b == 44 ∨ b == 61 ∨ b == 37 then
      ((s.push '%').push (upperDigit (b.toNat / 16))).push (upperDigit (b.toNat % 16))
    else s.push (Char.ofNat b.toNat)) ""

def symTable (calls : List (List UInt8 × Nat)) : List (List UInt8 × Nat) :=
  (symPools (calls.map (fun c => (c.1, c.2, false)))).map (fun e => (e.1, e.2.1))

def showSyms (t : List (List UInt8 × Nat)) : String :=
  if t.isEmpty then "-" else ",".intercalate (t.map (fun e => bytesToString e.1 ++ "=" ++ natHex e.2))

def showElf (r : ElfReadImpl.Loaded) : String :=
  if r.ret < 0 then "ret=" ++ toString r.ret ++ " type=elf low=ffffffff high=0 end=l cpu=- nz=- syms=-" else
  -- file_read(): set_cpu_by_type(cpu_type) copies the CPU's name and default endian
  let cpu := NakenVerif.Generated.cpuList.find? (fun c => c.type == r.cpuType)
  let (name, big) := match cpu with | some c => (c.name, c.bigEndian) | none => ("-", r.big)
  "ret=0 type=elf low=" ++ natHex r.low ++ " high=" ++ natHex r.high ++ " end=" ++ (if big then "b" else "l") ++
    " cpu=" ++ name ++ " nz=" ++ dumpNonZero r.writes ++ " syms=" ++ showSyms (symTable r.syms)

/-- `rd <fmt> <ext> <file hex> [start]` for fmt = hex, srec, bin -/
def handleRd (args : List String) : String :=
  match args with
  | fmt :: _ext :: file :: rest =>
    let bytes := parseHexBytes file.toList
    let chars := bytes.map (fun b => Char.ofNat b.toNat)
    if fmt == "hex" then showLoaded "hex" (ReadImpl.readHex chars)
    else if fmt == "srec" then showLoaded "srec" (ReadImpl.readSrec chars)
    else if fmt == "bin" then
      let start := match rest with | s :: _ => parseHexNat s.toList | [] => 0
      let (w, lo, hi) := BinImpl.read bytes start
      showLoaded "bin" { ret := 0, writes := w, low := lo, high := hi }
    else if fmt == "wdc" then
      let r := WdcImpl.read bytes
      showLoaded "wdc" { ret := r.ret, writes := r.writes, low := r.low, high := r.high }
    else if fmt == "elf" then showElf (ElfReadImpl.read bytes)
    else if fmt == "uf2" then
      let r := Uf2ReadImpl.read bytes
      -- Memory::write8 keeps low_address / high_address as the minimum / maximum address written
      let lo := r.writes.foldl (fun m w => if w.1 < m then w.1 else m) 0xffffffff
      let hi := r.writes.foldl (fun m w => if w.1 > m then w.1 else m) 0
      showLoaded "uf2" { ret := r.ret, writes := r.writes, low := lo, high := hi }
    else if fmt == "ti_txt" then
      let r := TiTxtImpl.read chars
      showLoaded "ti_txt" { ret := r.ret, writes := r.writes, low := r.low, high := r.high }
    else "not-modelled"
  | _ => "bad-op"
end Driver.FileIO
