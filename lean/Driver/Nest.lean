import NakenVerif.Reader.Nest
namespace Driver.Nest
open NakenVerif.Reader.Nest

/-- event letters: T t U = conditional whose branch is taken (`.if 1`, `.ifndef UNDEFINED`, `.ifdef DEFINED`);
    E e f = false conditional entered through `.else` (`.if 0`, `.ifdef UNDEFINED`, `.ifndef DEFINED`);
    S = false conditional without `.else` (skipped); C c = `.endif` / `.else` + skipped rest + `.endif`;
    I i = include file opened / ended; R r = `.repeat` / `.endr`; O = any other statement -/
def ev? : Char → Option Ev
  | 'T' => some .ifTaken | 't' => some .ifTaken | 'U' => some .ifTaken
  | 'E' => some .ifElse | 'e' => some .ifElse | 'f' => some .ifElse
  | 'S' => some .ifSkipped
  | 'C' => some .ifClose | 'c' => some .ifClose
  | 'I' => some .incOpen | 'i' => some .incClose
  | 'R' => some .repOpen | 'r' => some .repClose
  | 'O' => some .other
  | _ => none

def kind : Ev → String
  | .ifTaken => "ifs" | .ifElse => "ifs" | .ifSkipped => "ifs" | .ifClose => "endif"
  | .incOpen => "includes" | .incClose => "endinc" | .repOpen => "repeat" | .repClose => "endr" | .other => "other"

/-- `nest <letters>` -> `ok max=<deepest assemble() recursion>` | `err=<kind> at=<event index> max=<…>` -/
def handle (args : List String) : String :=
  match args with
  | [w] =>
      match w.toList.mapM ev? with
      | some es =>
          let m := maxFrames St.init es
          (match firstError St.init es 0 with
           | none => s!"ok max={m}"
           | some (k, e) => s!"err={kind e} at={k} max={m}")
      | none => "bad-op"
  | _ => "bad-op"

end Driver.Nest
