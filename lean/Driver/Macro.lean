import NakenVerif.Macro.Asm
/-!
  Driver of the reader/macro model (property C09).

  mexp <flags> <hex source> [<hex include name> <hex include content>]...
    flags: '-' or letters  t can_tick_end_string, d strings_have_dots, s strings_have_slashes,
           h is_dollar_hex, n numbers_dont_have_dots, p ignore_number_postfix
    -> ret=<assemble()> ec=<error_count> ef=<error> ev=<capacity event|-> toks=<items> defs=<macro table>
       | exit            (the code called exit(1))
       | unmodelled      (a directive outside the model; a generator bug)
       | fuel
    items: `I:<hex word>` starts a statement, `<type>:<hex text>` one token of it, `;` ends it;
    macro table: `<hex name>:<param count>:<hex text>` in definition order.
-/
namespace Driver.Macro
open NakenVerif.Macro

def hexVal (c : Char) : Nat :=
  if '0' ≤ c ∧ c ≤ '9' then c.toNat - 48
  else if 'a' ≤ c ∧ c ≤ 'f' then c.toNat - 87
  else if 'A' ≤ c ∧ c ≤ 'F' then c.toNat - 55 else 0

def unhexAux : List Char → List Int
  | a :: b :: rest => ((16 * hexVal a + hexVal b : Nat) : Int) :: unhexAux rest
  | _ => []

def unhex (s : String) : List Int := if s == "-" then [] else unhexAux s.toList

def hexDigit (n : Nat) : Char := if n < 10 then Char.ofNat (48 + n) else Char.ofNat (87 + n)

def hexOf (l : List Int) : String :=
  if l.isEmpty then "-"
  else String.ofList (l.flatMap fun c => let b := (c % 256).toNat; [hexDigit (b / 16), hexDigit (b % 16)])

def envOfFlags (f : String) : Env :=
  { canTick := f.contains 't', dots := f.contains 'd', slashes := f.contains 's',
    dollarHex := f.contains 'h', noDots := f.contains 'n', noPostfix := f.contains 'p' }

def itemStr (i : Item) : String :=
  if i.1 = -2 then "I:" ++ hexOf i.2
  else if i.1 = -3 then ";"
  else toString i.1 ++ ":" ++ hexOf i.2

def evStr : Option Event → String
  | none => "-"
  | some .ungetOverflow => "ungetOverflow"
  | some .nested => "nested"
  | some .arenaFull => "arenaFull"
  | some .arenaUnderflow => "arenaUnderflow"
  | some .eofBelowMark => "eofBelowMark"

def pairs : List String → List (List Int × List Int)
  | a :: b :: rest => (unhex a, unhex b) :: pairs rest
  | _ => []

def fuel : Nat := 400000

def handleMexp (args : List String) : String :=
  match args with
  | flags :: src :: rest =>
    let st : AsmSt := { env := envOfFlags flags }
    let r : Reader := { file := unhex src }
    let (e, st', r') := assemble (pairs rest) fuel 0 st r
    match e with
    | .stop .fatal => "exit"
    | .stop .fuel => "fuel"
    | .unmodelled => "unmodelled"
    | .ret code =>
      let toks := ",".intercalate (st'.out.reverse.map itemStr)
      let defs := ",".intercalate (st'.env.defs.map fun d => hexOf d.name ++ ":" ++ toString d.params ++ ":" ++ hexOf d.text)
      s!"ret={code} ec={st'.errCount} ef={if st'.errFlag then 1 else 0} ev={evStr r'.ev} toks={if toks.isEmpty then "-" else toks} defs={if defs.isEmpty then "-" else defs}"
  | _ => "bad-op"

end Driver.Macro
