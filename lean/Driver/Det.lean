import NakenVerif.Determinism.Impl
/-!
Driver of the C13 model.

  det <options> <statement token>…
    options: letters l (-l) q (-q) s (-dump_symbols) m (-dump_macros), `-` = none
    statement tokens:
      L<n>            label n<n>:            C<idx>   .<cpu_list[idx].name>
      E0 | E1         .little_endian | .big_endian      S0 | S1  .code | .bss
      O<hex>          .org                   B<hex bytes>  .db
      W<opd> D<opd>   .dw / .dc32            R<hex>   .resb
      F<n>=<hex>      .define n<n> <value>   T        .list
      M<reg>,<opd>    mov.w #<opd>, r<reg>
      I<n>{ … }{ … }  .ifdef n<n> / .else / .endif        J<n>{ … }{ … }   .ifndef
      P<count>{ … }   .repeat <count> / .endr             N{ … }           .include of a file holding the block
    <opd>: #<hex, 64-bit two's complement> | @<n>
  -> st=<0|1> low=<hex> high=<hex> bpa=<n> end=<l|b> ic=<n> cnt=<data>,<code> img=<addr:hex;…> dbg=<addr:kinds;…>
     syms=<n<k>=<hex>,…> lst=<number of lines in the list file | ->
-/
namespace Driver.Det
open NakenVerif.Determinism

def hexVal (s : String) : Nat :=
  s.foldl (fun acc c =>
    let d := if c.isDigit then c.toNat - 48 else if 'a' ≤ c ∧ c ≤ 'f' then c.toNat - 87
             else if 'A' ≤ c ∧ c ≤ 'F' then c.toNat - 55 else 0
    acc * 16 + d) 0

def hexStr (n : Nat) : String := String.ofList (Nat.toDigits 16 n)

def parseOpd (s : String) : Option Operand :=
  if s.startsWith "#" then some (.lit (BitVec.ofNat 64 (hexVal (s.drop 1).toString)))
  else if s.startsWith "@" then (s.drop 1).toString.toNat?.map .sym
  else none

def hexBytes (s : String) : List (BitVec 8) :=
  let rec go : List Char → List (BitVec 8)
    | a :: b :: rest => BitVec.ofNat 8 (hexVal (String.ofList [a, b])) :: go rest
    | _ => []
  go s.toList

def parseSimple (t : String) : Option Simple :=
  let body := (t.drop 1).toString
  match t.front with
  | 'L' => body.toNat?.map .label
  | 'C' => body.toNat?.map .cpu
  | 'E' => some (.endian (body == "1"))
  | 'S' => some (.seg (body == "1"))
  | 'O' => some (.org (BitVec.ofNat 32 (hexVal body)))
  | 'B' => some (.db (hexBytes body))
  | 'W' => (parseOpd body).map .dw
  | 'D' => (parseOpd body).map .dd
  | 'R' => some (.resb (BitVec.ofNat 32 (hexVal body)))
  | 'F' =>
    match body.splitOn "=" with
    | [n, v] => n.toNat?.map (fun n => .define n (BitVec.ofNat 64 (hexVal v)))
    | _ => none
  | 'T' => some .list
  | 'M' =>
    match body.splitOn "," with
    | [r, o] => match r.toNat?, parseOpd o with
      | some r, some o => some (.movImm o r)
      | _, _ => none
    | _ => none
  | _ => none

/-- parses statements up to a closing `}` / `}{` (left in the remaining tokens) or the end -/
def parseProg : Nat → List String → Option (Prog × List String)
  | 0, _ => none
  | _, [] => some (.nil, [])
  | fuel + 1, t :: ts =>
    if t == "}" ∨ t == "}{" then some (.nil, t :: ts)
    else if t.endsWith "{" then
      let head := (t.dropEnd 1).toString
      let kind := head.front
      let arg := (head.drop 1).toString
      match parseProg fuel ts with
      | none => none
      | some (b1, rest1) =>
        if kind == 'I' ∨ kind == 'J' then
          match rest1 with
          | "}{" :: rest2 =>
            match parseProg fuel rest2 with
            | some (b2, "}" :: rest3) =>
              match parseProg fuel rest3, arg.toNat? with
              | some (r, rest4), some n => some (.ifdef (kind == 'J') n b1 b2 r, rest4)
              | _, _ => none
            | _ => none
          | "}" :: rest2 =>
            match parseProg fuel rest2, arg.toNat? with
            | some (r, rest4), some n => some (.ifdef (kind == 'J') n b1 .nil r, rest4)
            | _, _ => none
          | _ => none
        else
          match rest1 with
          | "}" :: rest2 =>
            match parseProg fuel rest2 with
            | none => none
            | some (r, rest4) =>
              if kind == 'P' then
                let cnt : Int := if arg.startsWith "-" then -(Int.ofNat ((arg.drop 1).toString.toNat?.getD 0))
                                 else Int.ofNat (arg.toNat?.getD 0)
                some (.repeat cnt b1 r, rest4)
              else if kind == 'N' then some (.include b1 r, rest4)
              else none
          | _ => none
    else
      match parseSimple t, parseProg fuel ts with
      | some s, some (r, rest) => some (.simple s r, rest)
      | _, _ => none

def kindOf (m : Int) : Char :=
  if m = NakenVerif.Generated.dlData then 'd' else if m = NakenVerif.Generated.dlNoCg then 'n' else 'c'

/-- the cells whose mark is not DL_EMPTY between low and high, in runs -/
def dumpCells (cell : Addr → Cell) (low high : Addr) (kinds : Bool) : String :=
  if low > high ∨ (high - low).toNat ≥ 1048576 then "-"
  else
    let n := (high - low).toNat + 1
    let rec go (i : Nat) (fuel : Nat) (isOpen : Bool) (acc : String) : String :=
      match fuel with
      | 0 => acc
      | fuel + 1 =>
        let a : Addr := low + BitVec.ofNat 32 i
        let c := cell a
        if c.mark = NakenVerif.Generated.dlEmpty then go (i + 1) fuel false acc
        else
          let acc := if isOpen then acc else (if acc.isEmpty then acc else acc ++ ";") ++ hexStr a.toNat ++ ":"
          let acc := if kinds then acc.push (kindOf c.mark) else acc ++ hex2 c.byte
          go (i + 1) fuel true acc
    let s := go 0 n false ""
    if s.isEmpty then "-" else s

def render (r : MainResult) : String :=
  let syms := ",".intercalate (r.k.syms.map fun e => s!"n{e.1}={hexStr e.2.toNat}")
  s!"st={r.status} low={hexStr r.k.low.toNat} high={hexStr r.k.high.toNat} bpa={r.k.bpa.toNat} " ++
  s!"end={if r.k.bigEndian then "b" else "l"} ic={r.k.instructionCount} cnt={r.k.dataCount},{r.k.codeCount} " ++
  s!"img={dumpCells r.cell r.k.low r.k.high false} dbg={dumpCells r.cell r.k.low r.k.high true} " ++
  s!"syms={if syms.isEmpty then "-" else syms} " ++
  s!"lst={match r.listing with | some l => toString l.length | none => "-"}"

def handleWith (initF : Ctx → Ctx) (args : List String) : String :=
  match args with
  | opts :: toks =>
    match parseProg (toks.length + 1) toks with
    | some (p, []) =>
      let o : Opts := { list := opts.contains 'l', quiet := opts.contains 'q', dumpSymbols := opts.contains 's',
                        dumpMacros := opts.contains 'm', optimize := false, fileType := 0, outName := "out.hex" }
      render (mainWith initF 0 o p)
    | _ => "bad-op"
  | [] => "bad-op"

def handle (args : List String) : String := handleWith init args
/-- the model of AsmContext::init() before the C13 fixes (used to replay the fixed defects) -/
def handleBefore (args : List String) : String := handleWith initBefore args

end Driver.Det
