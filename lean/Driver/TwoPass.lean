import NakenVerif.Core.TwoPass
namespace Driver.TwoPass
open NakenVerif.TwoPass

def hex (n : Nat) : String := String.ofList (Nat.toDigits 16 n)

/-- replay back end: the sizes observed on the real run -/
def replay : Backend (Nat × Nat) where
  size1 i _ _ := (i.1, none)
  size2 i _ _ _ := i.2

def parseStmt (s : String) : Option (Stmt (Nat × Nat)) :=
  match s.splitOn ":" with
  | ["l", n] => some (.label n)
  | ["f", n] => some (.func n)
  | ["e", a, b] => some (.emit (a.toNat?.getD 0, b.toNat?.getD 0))
  | ["o", a] => some (.org (a.toNat?.getD 0))
  | _ => none

/-- `twopass <start address> <stmt>…` -> `ok name=p1/p2 …` | `moved` | `err`;
    stmt = `l:name` (`name:`) | `f:name` (`.func name`) | `e:size1:size2` | `o:address` -/
def handle (args : List String) : String :=
  match args with
  | start :: rest =>
      match rest.mapM parseStmt with
      | none => "bad-op"
      | some prog =>
          let a0 := start.toNat?.getD 0
          match pass1 replay prog { addr := a0, syms := [], mem := fun _ => 0 } with
          | none => "err"
          | some s1 =>
              match pass2 replay s1.syms s1.mem prog a0 with
              | none => "moved"
              | some p2 =>
                  "ok " ++ " ".intercalate ((s1.syms.zip p2).map fun ((n, a1), (_, a2)) => n ++ "=" ++ hex a1 ++ "/" ++ hex a2)
  | [] => "bad-op"

def run {ι} (b : Backend ι) (prog : List (Stmt ι)) (a0 : Nat) : String :=
  match pass1 b prog { addr := a0, syms := [], mem := fun _ => 0 } with
  | none => "err"
  | some s1 =>
      match pass2 b s1.syms s1.mem prog a0 with
      | none => "moved"
      | some p2 =>
          "ok " ++ " ".intercalate ((s1.syms.zip p2).map fun ((n, a1), (_, a2)) => n ++ "=" ++ hex a1 ++ "/" ++ hex a2)

def hexBytes (s : String) : List Nat :=
  let rec go : List Char → List Nat
    | c1 :: c2 :: r => ((String.ofList [c1, c2]).toList.foldl (fun acc c =>
        acc * 16 + (if c.isDigit then c.toNat - 48 else (c.toLower.toNat - 87))) 0) :: go r
    | _ => []
  go s.toList

def parseStmt430 (s : String) : Option (Stmt Opd) :=
  match s.splitOn ":" with
  | ["l", n] => some (.label n)
  | ["f", n] => some (.func n)
  | ["c", v] => some (.emit (.const (v.toNat?.getD 0)))
  | ["s", n] => some (.emit (.sym n))
  | ["d", h] => some (.data (hexBytes h))
  | ["o", a] => some (.org (a.toNat?.getD 0))
  | _ => none

/-- `twopass430 <start address> <stmt>…`: the MSP430 instance `msp430Imm` (constant generator vs extension
    word behind the pass-1 flag byte, pad byte at an odd counter) computes the sizes itself;
    stmt = `l:name` | `f:name` | `c:value` (`op.w #value, Rn`) | `s:name` (`op.w #name, Rn`) | `d:hexbytes` | `o:address` -/
def handle430 (args : List String) : String :=
  match args with
  | start :: rest =>
      match rest.mapM parseStmt430 with
      | none => "bad-op"
      | some prog => run msp430Imm prog (start.toNat?.getD 0)
  | [] => "bad-op"

end Driver.TwoPass
