import NakenVerif.Core.Driver
namespace Driver.Flow
open NakenVerif.Core.Driver

def int? (s : String) : Option Int := s.toInt?

/-- step syntax: `ec:eol` `ec:eof` `ec:label:r` `ec:dir:n` `ec:word:r` `ec:word:r:i` `ec:word:r:equ` `ec:other` -/
def step? (s : String) : Option Step :=
  match s.splitOn ":" with
  | [ec, "eol"] => ec.toNat?.map (fun e => ⟨e, .eol⟩)
  | [ec, "eof"] => ec.toNat?.map (fun e => ⟨e, .eof⟩)
  | [ec, "other"] => ec.toNat?.map (fun e => ⟨e, .other⟩)
  | [ec, "label", r] => do let e ← ec.toNat?; let r ← int? r; pure ⟨e, .label r⟩
  | [ec, "dir", n] => do let e ← ec.toNat?; let n ← int? n; pure ⟨e, .dir n⟩
  | [ec, "word", r] => do let e ← ec.toNat?; let r ← int? r; pure ⟨e, .word r none⟩
  | [ec, "word", r, "equ"] => do let e ← ec.toNat?; let r ← int? r; pure ⟨e, .word r none⟩
  | [ec, "word", r, i] => do let e ← ec.toNat?; let r ← int? r; let i ← int? i; pure ⟨e, .word r (some i)⟩
  | _ => none

/-- `asmret <errflag> step…` -/
def handleAsmRet (args : List String) : String :=
  match args with
  | flag :: steps =>
      match steps.mapM step? with
      | some ss =>
          (match assembleRet ss (flag == "1") with
           | some r => "ret " ++ toString r
           | none => "none")
      | none => "bad-op"
  | [] => "bad-op"

/-- `mainflow pass1 link1ok pass2 link2ok write stale` -/
def handleMain (args : List String) : String :=
  match args with
  | [p1, l1, p2, l2, w, stale] =>
      match int? p1, int? p2, int? w with
      | some p1, some p2, some w =>
          let r := mainFlow ⟨p1, l1 == "1", p2, l2 == "1", w⟩
          s!"status={r.status} ran2={if r.ranPass2 then 1 else 0} wrote={if r.wroteFile then 1 else 0} unlinked={if r.unlinked then 1 else 0} present={if outputPresent (stale == "1") r then 1 else 0}"
      | _, _, _ => "bad-op"
  | _ => "bad-op"

end Driver.Flow
