import Driver.Expr
import Driver.Flow
import Driver.Riscv
import Driver.Msp430
import Driver.M6502
import Driver.Cond
import Driver.Sym
import Driver.TwoPass
import Driver.Sim
import Driver.SimX
import Driver.Mem
import Driver.FileIO
import Driver.Safe
import Driver.Det
import Driver.Util
import Driver.Listing
import Driver.Macro
import Driver.Link
import Driver.Reader
import Driver.Nest

/-- instruction-level commands: dispatch on the CPU name (first argument) -/
def isa (cmd : String) (args : List String) : String :=
  match args with
  | "msp430" :: _ => Driver.Msp430.handle cmd args
  | "6502" :: _ => Driver.M6502.handle cmd args
  | _ => Driver.Riscv.handle cmd args

def dispatch (line : String) : String :=
  match (line.trimAscii.toString.splitOn " ").filter (· ≠ "") with
  | "expr" :: args => Driver.Expr.handle args
  | "lit" :: args => Driver.Expr.handleLit args
  | "expr32" :: args => Driver.Expr.handle32 args
  | "asmret" :: args => Driver.Flow.handleAsmRet args
  | "mainflow" :: args => Driver.Flow.handleMain args
  | "asm1" :: args => isa "asm1" args
  | "dis" :: args => isa "dis" args
  | "walk" :: args => isa "walk" args
  | "rt" :: args => isa "rt" args
  | "cond" :: args => Driver.Cond.handle args
  | "skip" :: args => Driver.Cond.handleSkip args
  | "evop" :: args => Driver.Cond.handleEvop args
  | "blk" :: args => Driver.Cond.handleBlk args
  | "sym" :: args => Driver.Sym.handle args
  | "twopass" :: args => Driver.TwoPass.handle args
  | "twopass430" :: args => Driver.TwoPass.handle430 args
  | "sim" :: args => Driver.Sim.handle args
  | "simx" :: args => Driver.SimX.handle args
  | "simrun" :: args => Driver.Sim.handleRun args
  | "arch" :: args => Driver.Sim.handleArch args
  | "dislen" :: args => Driver.Sim.handleDisLen args
  | "mem" :: args => Driver.Mem.handleMem args
  | "dir" :: args => Driver.Mem.handleDir args
  | "wr" :: args => Driver.FileIO.handleWr args
  | "s0" :: args => Driver.FileIO.handleS0 args
  | "rd" :: args => Driver.FileIO.handleRd args
  | "srd" :: args => Driver.Safe.handleSrd args
  | "snum" :: args => Driver.Safe.handleSnum args
  | "saddr" :: args => Driver.Safe.handleSaddr args
  | "srange" :: args => Driver.Safe.handleSrange args
  | "swrite" :: args => Driver.Safe.handleSwrite args
  | "sprint" :: args => Driver.Safe.handleSprint args
  | "swalk" :: args => Driver.Safe.handleSwalk args
  | "svalid" :: args => Driver.Safe.handleSvalid args
  | "det" :: args => Driver.Det.handle args
  | "detold" :: args => Driver.Det.handleBefore args
  | "util" :: args => Driver.Util.handle args
  | "unum" :: args => Driver.Util.handleNum args
  | "lst" :: args => Driver.Listing.handle args
  | "mexp" :: args => Driver.Macro.handleMexp args
  | "link" :: args => Driver.Link.handle args
  | "tk" :: args => Driver.Reader.handleTk args
  | "mp" :: args => Driver.Reader.handleMp args
  | "mx" :: args => Driver.Reader.handleMx args
  | "nest" :: args => Driver.Nest.handle args
  | _ => "bad-op"

partial def loop (h : IO.FS.Stream) (out : IO.FS.Stream) : IO Unit := do
  let line ← h.getLine
  if line.isEmpty then return ()
  out.putStrLn (dispatch line)
  loop h out

def main : IO Unit := do
  let out ← IO.getStdout
  loop (← IO.getStdin) out
  out.flush
