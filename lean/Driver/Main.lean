import Driver.Expr
import Driver.Flow

def dispatch (line : String) : String :=
  match (line.trimAscii.toString.splitOn " ").filter (· ≠ "") with
  | "expr" :: args => Driver.Expr.handle args
  | "lit" :: args => Driver.Expr.handleLit args
  | "expr32" :: args => Driver.Expr.handle32 args
  | "asmret" :: args => Driver.Flow.handleAsmRet args
  | "mainflow" :: args => Driver.Flow.handleMain args
  | _ => "bad-op"

partial def loop (h : IO.FS.Stream) (out : IO.FS.Stream) : IO Unit := do
  let line ← h.getLine
  if line.isEmpty then return ()
  out.putStrLn (dispatch line)
  loop h out

def main : IO Unit := do
  let out ← IO.getStdout
  loop (← IO.getStdin) out
  out.flush
