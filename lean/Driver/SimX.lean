/-
  `simx <cpu> <state> <cells>`: one step of the Lean model of a simulator from a complete state
  (same line protocol as harness/cmd_simx.h).
-/
import Driver.Sim
import NakenVerif.Sim.Tms1000Impl
import NakenVerif.Sim.I8008Impl
import NakenVerif.Sim.Lc3Impl
import NakenVerif.Sim.M6502Impl
import NakenVerif.Sim.StubsImpl
import NakenVerif.Sim.C1802Impl
namespace Driver.SimX
open Driver.Sim NakenVerif.Sim

abbrev KV := List (String × String)

def parseKV (s : String) : KV :=
  (s.splitOn ",").filterMap fun item =>
    match item.splitOn "=" with
    | [k, v] => some (k, v)
    | _ => none

def getU (kv : KV) (k : String) : Nat :=
  match kv.lookup k with
  | some v => (parseHex v).getD 0
  | none => 0

/-- element `n` of an array written as a hex string with `digits` hex digits per element -/
def getEl (kv : KV) (k : String) (n digits : Nat) : Nat :=
  match kv.lookup k with
  | some v =>
    let cs := (v.toList.drop (n * digits)).take digits
    if cs.length < digits then 0 else (parseHex (String.ofList cs)).getD 0
  | none => 0

def hexPad (digits n : Nat) : String :=
  let s := toHex n
  String.ofList (List.replicate (digits - s.length) '0') ++ s

def kvOut (l : List (String × Nat)) : String :=
  ",".intercalate (l.map fun (k, v) => k ++ "=" ++ toHex v)

def arrOut {w n : Nat} (k : String) (digits : Nat) (a : Vector (BitVec w) n) : String :=
  k ++ "=" ++ String.join (a.toList.map fun v => hexPad digits v.toNat)

def bit (kv : KV) (k : String) : Bool := getU kv k != 0
def b2n (b : Bool) : Nat := if b then 1 else 0

def finish {σ : Type} (r : Chk (StepOut σ)) (m : Mem) (given : List (BitVec 32)) (render : σ → String)
    (memAfter : σ → Mem := fun _ => m) : String :=
  match r with
  | .fault w => "fault " ++ w
  | .ok o => "ret=" ++ toString o.ret ++ " " ++ render o.state ++ " mem=" ++
      renderMem (memAfter o.state) given (o.writes.map (·.1))

def tms1000 (kv : KV) (cells : List (BitVec 32 × BitVec 8)) : String :=
  let s : Tms1000.State := {
    pc := .ofNat 8 (getU kv "pc"), pa := .ofNat 8 (getU kv "pa"), pb := .ofNat 8 (getU kv "pb"),
    cl := .ofNat 8 (getU kv "cl"), sr := .ofNat 8 (getU kv "sr"), sFlag := .ofNat 8 (getU kv "s"),
    a := .ofNat 8 (getU kv "a"), x := .ofNat 8 (getU kv "x"), y := .ofNat 8 (getU kv "y"),
    rPins := .ofNat 16 (getU kv "r"), oPins := .ofNat 8 (getU kv "o"), kPins := .ofNat 8 (getU kv "k"),
    ram := Vector.ofFn fun i : Fin 64 => .ofNat 8 (getEl kv "ram" i.val 2),
    cycleCount := .ofNat 32 (getU kv "cyc"), stopRunning := bit kv "stop", showOn := bit kv "show" }
  let m := memOf cells
  finish (Tms1000.step m s) m (cells.map (·.1)) fun s =>
    kvOut [("pc", s.pc.toNat), ("pa", s.pa.toNat), ("pb", s.pb.toNat), ("cl", s.cl.toNat), ("sr", s.sr.toNat),
      ("s", s.sFlag.toNat), ("a", s.a.toNat), ("x", s.x.toNat), ("y", s.y.toNat), ("r", s.rPins.toNat),
      ("o", s.oPins.toNat), ("k", s.kPins.toNat), ("cyc", s.cycleCount.toNat), ("stop", b2n s.stopRunning),
      ("show", b2n s.showOn)] ++ "," ++ arrOut "ram" 2 s.ram

def finish2 {σ : Type} (r : Chk (StepOut σ × Mem)) (given : List (BitVec 32)) (render : σ → String) : String :=
  match r with
  | .fault w => "fault " ++ w
  | .ok (o, m) => "ret=" ++ toString o.ret ++ " " ++ render o.state ++ " mem=" ++ renderMem m given (o.writes.map (·.1))

def i8008 (kv : KV) (cells : List (BitVec 32 × BitVec 8)) : String :=
  let s : I8008.State := {
    pc := .ofNat 16 (getU kv "pc"), sp := .ofNat 16 (getU kv "sp"),
    fp := bit kv "fp", fs := bit kv "fs", fc := bit kv "fc", fz := bit kv "fz",
    reg := Vector.ofFn fun i : Fin 8 => .ofNat 8 (getEl kv "reg" i.val 2),
    stack := Vector.ofFn fun i : Fin 8 => .ofNat 16 (getEl kv "stack" i.val 4),
    stopRunning := bit kv "stop", showOn := bit kv "show" }
  finish2 (I8008.step (memOf cells) s) (cells.map (·.1)) fun s =>
    kvOut [("pc", s.pc.toNat), ("sp", s.sp.toNat), ("fp", b2n s.fp), ("fs", b2n s.fs), ("fc", b2n s.fc), ("fz", b2n s.fz),
      ("cyc", getU kv "cyc"), ("stop", b2n s.stopRunning), ("show", b2n s.showOn)] ++ "," ++
      arrOut "reg" 2 s.reg ++ "," ++ arrOut "stack" 4 s.stack

def lc3 (kv : KV) (cells : List (BitVec 32 × BitVec 8)) : String :=
  let s : Lc3.State := {
    pc := .ofNat 16 (getU kv "pc"), psr := .ofNat 16 (getU kv "psr"),
    reg := Vector.ofFn fun i : Fin 8 => .ofNat 16 (getEl kv "reg" i.val 4),
    stopRunning := bit kv "stop", showOn := bit kv "show" }
  finish2 (Lc3.step (memOf cells) s) (cells.map (·.1)) fun s =>
    kvOut [("pc", s.pc.toNat), ("psr", s.psr.toNat), ("cyc", getU kv "cyc"), ("stop", b2n s.stopRunning),
      ("show", b2n s.showOn)] ++ "," ++ arrOut "reg" 4 s.reg

def m6502 (kv : KV) (cells : List (BitVec 32 × BitVec 8)) : String :=
  let s : M6502.State := {
    a := .ofNat 32 (getU kv "a"), x := .ofNat 32 (getU kv "x"), y := .ofNat 32 (getU kv "y"),
    sr := .ofNat 32 (getU kv "sr"), pc := .ofNat 32 (getU kv "pc"), sp := .ofNat 32 (getU kv "sp"),
    cycleCount := .ofNat 32 (getU kv "cyc"),
    breakIo := if (kv.lookup "bio").isSome then .ofNat 32 (getU kv "bio") else 0xfffffff0,
    stopRunning := bit kv "stop", showOn := bit kv "show" }
  match M6502.step (memOf cells) s with
  | .fault w => "fault " ++ w
  | .ok (_, _, some st) => "exit=" ++ toString st.toNat
  | .ok (o, m, none) =>
    let s := o.state
    "ret=" ++ toString o.ret ++ " " ++
      kvOut [("a", s.a.toNat), ("x", s.x.toNat), ("y", s.y.toNat), ("sr", s.sr.toNat), ("pc", s.pc.toNat), ("sp", s.sp.toNat),
        ("cyc", s.cycleCount.toNat), ("stop", b2n s.stopRunning), ("show", b2n s.showOn)] ++
      " mem=" ++ renderMem m (cells.map (·.1)) (o.writes.map (·.1))

def tms9900 (kv : KV) (cells : List (BitVec 32 × BitVec 8)) : String :=
  let s : Tms9900.State := {
    pc := .ofNat 16 (getU kv "pc"), wp := .ofNat 16 (getU kv "wp"), st := .ofNat 16 (getU kv "st"),
    stopRunning := bit kv "stop", showOn := bit kv "show" }
  let m := memOf cells
  finish (.ok (Tms9900.step m s)) m (cells.map (·.1)) fun s =>
    kvOut [("pc", s.pc.toNat), ("wp", s.wp.toNat), ("st", s.st.toNat), ("cyc", getU kv "cyc"), ("stop", b2n s.stopRunning),
      ("show", b2n s.showOn)]

def ebpf (kv : KV) (cells : List (BitVec 32 × BitVec 8)) : String :=
  let s : Ebpf.State := {
    pc := .ofNat 32 (getU kv "pc"), reg := Vector.ofFn (fun i : Fin 16 => .ofNat 64 (getEl kv "reg" i.val 8)),
    stopRunning := bit kv "stop", showOn := bit kv "show" }
  let m := memOf cells
  finish (.ok (Ebpf.step m s)) m (cells.map (·.1)) fun s =>
    kvOut [("pc", s.pc.toNat), ("cyc", getU kv "cyc"), ("stop", b2n s.stopRunning), ("show", b2n s.showOn)] ++ "," ++
      arrOut "reg" 8 (s.reg.map fun v => v.truncate 32)

def c1802 (kv : KV) (cells : List (BitVec 32 × BitVec 8)) : String :=
  let g (k : String) : BitVec 8 := .ofNat 8 (getU kv k)
  let s : C1802.State := {
    d := g "d", p := g "p", x := g "x", t := g "t", n := g "n", i := g "i", b := g "b", cntr := g "cntr", cn := g "cn",
    df := g "df", q := g "q", mie := g "mie", cie := g "cie", xie := g "xie", cil := g "cil", etq := g "etq",
    r := Vector.ofFn (fun i : Fin 16 => .ofNat 16 (getEl kv "r" i.val 4)),
    cycleCount := .ofNat 32 (getU kv "cyc"),
    breakIo := if (kv.lookup "bio").isSome then .ofNat 32 (getU kv "bio") else 0xfffffff0,
    stopRunning := bit kv "stop", showOn := bit kv "show" }
  match C1802.step (memOf cells) s with
  | .fault w => "fault " ++ w
  | .ok (_, _, some st) => "exit=" ++ toString st.toNat
  | .ok (o, m, none) =>
    let s := o.state
    "ret=" ++ toString o.ret ++ " " ++
      kvOut [("d", s.d.toNat), ("p", s.p.toNat), ("x", s.x.toNat), ("t", s.t.toNat), ("n", s.n.toNat), ("i", s.i.toNat),
        ("b", s.b.toNat), ("cntr", s.cntr.toNat), ("cn", s.cn.toNat), ("df", s.df.toNat), ("q", s.q.toNat), ("mie", s.mie.toNat),
        ("cie", s.cie.toNat), ("xie", s.xie.toNat), ("cil", s.cil.toNat), ("etq", s.etq.toNat),
        ("cyc", s.cycleCount.toNat), ("stop", b2n s.stopRunning), ("show", b2n s.showOn)] ++ "," ++ arrOut "r" 4 s.r ++
      " mem=" ++ renderMem m (cells.map (·.1)) (o.writes.map (·.1))

def handle (args : List String) : String :=
  match args with
  | [cpu, st, cells] =>
    match parseCells cells with
    | some cells =>
      let kv := parseKV st
      if cpu == "tms1000" then tms1000 kv cells
      else if cpu == "8008" then i8008 kv cells
      else if cpu == "lc3" then lc3 kv cells
      else if cpu == "6502" then m6502 kv cells
      else if cpu == "tms9900" then tms9900 kv cells
      else if cpu == "ebpf" then ebpf kv cells
      else if cpu == "1802" then c1802 kv cells
      else "not-modelled"
    | none => "bad-op"
  | _ => "bad-op"

end Driver.SimX
