import NakenVerif.M6502.Asm
import NakenVerif.M6502.Disasm
import Driver.Riscv
/-! Line protocol for the 6502 model:  asm1 / dis / walk / rt  (see harness/cmd_isa.h). -/
namespace Driver.M6502
open NakenVerif.M6502 NakenVerif.M6502.Asm
open Driver.Riscv (hexVal parseHexNat unhexBytes hex2 tohex)

/-! ### the fragment of the lexer + token loop the correspondence streams use -/
inductive Tok where
  | ident (s : String) | num (v : Nat) | comma | lpar | rpar | minus | dot | pound | lt | gt | bang | bad
  deriving Repr, DecidableEq, Inhabited

def isIdStart (c : Char) : Bool := c.isAlpha || c == '_'
def isIdChar (c : Char) : Bool := c.isAlphanum || c == '_'

partial def lexGo : List Char → List Tok → List Tok
  | [], acc => acc.reverse
  | c :: cs, acc =>
    if c == ' ' || c == '\t' then lexGo cs acc
    else if c == ',' then lexGo cs (.comma :: acc)
    else if c == '(' then lexGo cs (.lpar :: acc)
    else if c == ')' then lexGo cs (.rpar :: acc)
    else if c == '-' then lexGo cs (.minus :: acc)
    else if c == '.' then lexGo cs (.dot :: acc)
    else if c == '#' then lexGo cs (.pound :: acc)
    else if c == '<' then
      (match cs with
       | '<' :: _ => lexGo cs (.bad :: acc)
       | '=' :: _ => lexGo cs (.bad :: acc)
       | _ => lexGo cs (.lt :: acc))
    else if c == '>' then
      (match cs with
       | '>' :: _ => lexGo cs (.bad :: acc)
       | '=' :: _ => lexGo cs (.bad :: acc)
       | _ => lexGo cs (.gt :: acc))
    else if c == '!' then
      (match cs with
       | '=' :: _ => lexGo cs (.bad :: acc)
       | _ => lexGo cs (.bang :: acc))
    else if c == '$' then
      -- `is_dollar_hex`: $ff
      let w := cs.takeWhile isIdChar
      let rest := cs.drop w.length
      (match parseHexNat (String.ofList w) with
       | some v => lexGo rest (.num v :: acc)
       | none => lexGo rest (.bad :: acc))
    else if isIdStart c then
      let w := (c :: cs).takeWhile isIdChar
      lexGo ((c :: cs).drop w.length) (.ident (String.ofList w) :: acc)
    else if c.isDigit then
      let w := (c :: cs).takeWhile isIdChar
      let rest := (c :: cs).drop w.length
      let s := String.ofList w
      -- decimal without leading zero, or 0x hexadecimal; every other spelling is outside the fragment
      if s.startsWith "0x" then
        match parseHexNat (s.drop 2).toString with
        | some v => lexGo rest (.num v :: acc)
        | none => lexGo rest (.bad :: acc)
      else if w.all Char.isDigit && (w.length == 1 || c != '0') then lexGo rest (.num s.toNat! :: acc)
      else lexGo rest (.bad :: acc)
    else lexGo cs (.bad :: acc)

def lex (s : String) : List Tok := lexGo s.toList []

inductive PResult where
  | stmt (s : Stmt)
  | err
  | outside       -- syntax outside the modelled fragment
  deriving Repr, Inhabited

/-- `eval_expression(asm_context, &num)`: 64-bit value, error unless in -2^31 .. 2^32-1, then the low 32 bits -/
def narrow (neg : Bool) (v : Nat) : Option (BitVec 32) :=
  let v64 : BitVec 64 := if neg then - BitVec.ofNat 64 v else BitVec.ofNat 64 v
  if v64.toInt < -2147483648 || v64.toInt > 4294967295 then none else some (v64.truncate 32)

/-- expression fragment: `[-] number`, followed by a token that ends an expression.
    none = outside; some none = error; some (some (v, rest)) -/
def expr (toks : List Tok) : Option (Option (BitVec 32 × List Tok)) :=
  let fin (neg : Bool) (v : Nat) (rest : List Tok) : Option (Option (BitVec 32 × List Tok)) :=
    let ok : Bool := match rest with
      | [] => true | .comma :: _ => true | .rpar :: _ => true
      | _ => false
    if !ok || v ≥ 2 ^ 63 then none
    else match narrow neg v with
      | none => some none
      | some n => some (some (n, rest))
  match toks with
  | .num v :: rest => fin false v rest
  | .minus :: .num v :: rest => fin true v rest
  | _ => none

/-- optional modifier token -/
def modifier (toks : List Tok) : Mod × List Tok :=
  match toks with
  | .lt :: rest => (.lt, rest)
  | .gt :: rest => (.gt, rest)
  | .bang :: rest => (.bang, rest)
  | _ => (.none, toks)

def isX (t : Tok) : Bool := t == .ident "x" || t == .ident "X"
def isY (t : Tok) : Bool := t == .ident "y" || t == .ident "Y"

/-- one operand (or none), then end of line -/
def parseOperand (toks : List Tok) : Option (Option Operand) :=
  match toks with
  | [] => some (some .none)
  | .pound :: rest =>
    let (m, rest) := modifier rest
    (match expr rest with
     | none => none
     | some none => some none
     | some (some (v, [])) => some (some (.imm m v))
     | _ => none)
  | .lpar :: rest =>
    let (m, rest) := modifier rest
    (match expr rest with
     | none => none
     | some none => some none
     | some (some (v, [.rpar])) => some (some (.ind m v))
     | some (some (v, [.comma, x, .rpar])) => if isX x then some (some (.indX m v)) else none
     | some (some (v, [.rpar, .comma, y])) => if isY y then some (some (.indY m v)) else none
     | _ => none)
  | _ =>
    let (m, rest) := modifier toks
    (match expr rest with
     | none => none
     | some none => some none
     | some (some (v, [])) => some (some (.addr m v))
     | some (some (v, [.comma, r])) =>
       if isX r then some (some (.addrX m v)) else if isY r then some (some (.addrY m v))
       else (match expr [r] with
             | some (some (t, [])) => some (some (.addrRel m v t))
             | some none => some none
             | _ => none)
     | some (some (v, .comma :: rest')) =>
       (match expr rest' with
        | some (some (t, [])) => some (some (.addrRel m v t))
        | some none => some none
        | _ => none)
     | _ => none)

def parseStmt (text : String) : PResult :=
  match lex text with
  | .ident m :: rest =>
    let (size, rest) : Option Size × List Tok :=
      match rest with
      | .dot :: .ident x :: rest' =>
        if x == "b" || x == "B" then (some .s8, rest') else if x == "w" || x == "W" then (some .s16, rest') else (none, rest')
      | _ => (some .s0, rest)
    match size with
    | none => .outside
    | some size =>
    if rest.any (· == .dot) || rest.any (· == .bad) then .outside
    else
      (match parseOperand rest with
       | none => .outside
       | some none => .err
       | some (some o) => .stmt { mnemonic := m.toLower, size := size, op := o })
  | _ => .outside

def bytesHex (bs : List (BitVec 8)) : String := String.join (bs.map (fun b => hex2 b.toNat))

def showAsm (r : Result) : String :=
  match r with
  | .ok bs => "ok " ++ bytesHex bs
  | .err => "err"
  | .unmodelled => "unmodelled"

/-- `asm1 6502 <addr> <opts> <hex text>` -/
def handleAsm1 (args : List String) : String :=
  match args with
  | [_, addr, _, text] =>
    (match parseHexNat addr with
     | some a =>
       let t := String.ofList ((unhexBytes text).map (fun b => Char.ofNat b))
       (match parseStmt t with
        | .outside => "unmodelled"
        | .err => "err"
        | .stmt s => showAsm (assemble (BitVec.ofNat 32 a) s))
     | none => "bad-op")
  | _ => "bad-op"

def byteAt (bytes : List Nat) (off : Nat) : BitVec 8 := BitVec.ofNat 8 (bytes.getD off 0)

/-- `dis 6502 <addr> <hex bytes>` -> `<len> <hex text>` -/
def handleDis (args : List String) : String :=
  match args with
  | [_, addr, bytes] =>
    (match parseHexNat addr with
     | some a =>
       let bs := unhexBytes bytes
       let d := Disasm.disasm (BitVec.ofNat 32 a) (byteAt bs 0) (byteAt bs 1) (byteAt bs 2)
       toString d.len ++ " " ++ tohex (String.ofList d.text)
     | none => "bad-op")
  | _ => "bad-op"

/-- `walk 6502 <start> <end> <hex bytes>` -/
def handleWalk (args : List String) : String :=
  match args with
  | [_, start, stop, bytes] =>
    (match parseHexNat start, parseHexNat stop with
     | some s, some e =>
       let bs := unhexBytes bytes
       let lenAt (a : Nat) : Nat := Disasm.len (if a < s then 0 else byteAt bs (a - s))
       let ls := Disasm.rangeLines lenAt s e
       if ls.isEmpty then "-"
       else ",".intercalate (ls.map (fun l => String.ofList (Nat.toDigits 16 l.1) ++ (if l.2 then "+" else "")))
     | _, _ => "bad-op")
  | _ => "bad-op"

/-- `rt 6502 <addr> <opts> <hex bytes>` : re-assembly of the decoder's own reading (`toStmt`) at the address -/
def handleRt (args : List String) : String :=
  match args with
  | [_, addr, _, bytes] =>
    (match parseHexNat addr with
     | some a =>
       let bs := unhexBytes bytes
       (match Disasm.toStmt (byteAt bs 0) (byteAt bs 1) (byteAt bs 2) with
        | none => "err"
        | some s => showAsm (assemble (BitVec.ofNat 32 a) s))
     | none => "bad-op")
  | _ => "bad-op"

def handle (cmd : String) (args : List String) : String :=
  if cmd == "asm1" then handleAsm1 args
  else if cmd == "dis" then handleDis args
  else if cmd == "walk" then handleWalk args
  else if cmd == "rt" then handleRt args
  else "bad-op"

end Driver.M6502
