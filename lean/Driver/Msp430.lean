import NakenVerif.Msp430.Asm
import NakenVerif.Msp430.Disasm
import Driver.Riscv
/-! Line protocol for the MSP430 model:  asm1 / dis / walk / rt  (see harness/cmd_isa.h). -/
namespace Driver.Msp430
open NakenVerif.Msp430 NakenVerif.Msp430.Asm
open Driver.Riscv (hexVal parseHexNat unhexBytes hex2 tohex)

/-! ### the fragment of the lexer + operand loop the correspondence streams use -/
inductive Tok where
  | ident (s : String) | num (v : Nat) | comma | lpar | rpar | minus | plus | dot | pound | at | amp | colon | bad
  deriving Repr, DecidableEq, Inhabited

def isIdStart (c : Char) : Bool := c.isAlpha || c == '_'
def isIdChar (c : Char) : Bool := c.isAlphanum || c == '_'

partial def lexGo : List Char → List Tok → List Tok
  | [], acc => acc.reverse
  | c :: cs, acc =>
    if c == ' ' || c == '\t' then lexGo cs acc
    else if c == ',' then lexGo cs (.comma :: acc)
    else if c == '(' then lexGo cs (.lpar :: acc)
    else if c == ')' then lexGo cs (.rpar :: acc)
    else if c == '-' then lexGo cs (.minus :: acc)
    else if c == '+' then lexGo cs (.plus :: acc)
    else if c == '.' then lexGo cs (.dot :: acc)
    else if c == '#' then lexGo cs (.pound :: acc)
    else if c == '@' then lexGo cs (.at :: acc)
    else if c == '&' then
      (match cs with
       | '&' :: _ => lexGo cs (.bad :: acc)
       | _ => lexGo cs (.amp :: acc))
    else if c == ':' then lexGo cs (.colon :: acc)
    else if isIdStart c then
      let w := (c :: cs).takeWhile isIdChar
      lexGo ((c :: cs).drop w.length) (.ident (String.ofList w) :: acc)
    else if c.isDigit then
      let w := (c :: cs).takeWhile isIdChar
      let rest := (c :: cs).drop w.length
      let s := String.ofList w
      -- decimal without leading zero, or 0x hexadecimal; every other spelling is outside the fragment
      if s.startsWith "0x" then
        match parseHexNat (s.drop 2).toString with
        | some v => lexGo rest (.num v :: acc)
        | none => lexGo rest (.bad :: acc)
      else if w.all Char.isDigit && (w.length == 1 || c != '0') then lexGo rest (.num s.toNat! :: acc)
      else lexGo rest (.bad :: acc)
    else lexGo cs (.bad :: acc)

def lex (s : String) : List Tok := lexGo s.toList []

/-- `get_register_msp430` -/
def register (t : String) : Option Nat :=
  let l := t.toLower
  match t.toList with
  | [r, d] =>
    if (r == 'r' || r == 'R') && d.isDigit then some (d.toNat - '0'.toNat)
    else if l == "pc" then some 0 else if l == "sp" then some 1 else if l == "sr" then some 2
    else if l == "cg" then some 3 else none
  | [r, '1', d] =>
    if (r == 'r' || r == 'R') && '0' ≤ d && d ≤ '5' then some (10 + (d.toNat - '0'.toNat)) else none
  | _ => none

inductive PResult where
  | stmt (s : Stmt)
  | err
  | outside       -- syntax outside the modelled fragment
  deriving Repr, Inhabited

/-- `eval_expression(asm_context, &num)`: 64-bit value, error unless in -2^31 .. 2^32-1, then the low 32 bits -/
def narrow (neg : Bool) (v : Nat) : Option (BitVec 32) :=
  let v64 : BitVec 64 := if neg then - BitVec.ofNat 64 v else BitVec.ofNat 64 v
  if v64.toInt < -2147483648 || v64.toInt > 4294967295 then none else some (v64.truncate 32)

/-- expression fragment: `[-] number`, followed by a token that ends an expression.
    none = outside; some none = error; some (some (v, rest)) -/
def expr (toks : List Tok) : Option (Option (BitVec 32 × List Tok)) :=
  let fin (neg : Bool) (v : Nat) (rest : List Tok) : Option (Option (BitVec 32 × List Tok)) :=
    let ok : Bool := match rest with
      | [] => true | .comma :: _ => true | .lpar :: _ => true | .rpar :: _ => true | .dot :: _ => true
      | _ => false
    if !ok || v ≥ 2 ^ 63 then none
    else match narrow neg v with
      | none => some none
      | some n => some (some (n, rest))
  match toks with
  | .num v :: rest => fin false v rest
  | .minus :: .num v :: rest => fin true v rest
  | _ => none

partial def parseOps (toks : List Tok) (ops : List Operand) (size : Nat) : PResult :=
  let r4 (k : Nat) : BitVec 4 := BitVec.ofNat 4 k
  let after (op : Operand) (rest : List Tok) : PResult :=
    match rest with
    | [] => .stmt { mnemonic := "", size := size, ops := (op :: ops).reverse }
    | .comma :: rest' => parseOps rest' (op :: ops) size
    | _ => .err
  match toks with
  | [] => .stmt { mnemonic := "", size := size, ops := ops.reverse }
  | t :: rest =>
    if ops.length == 3 then .err
    else if ops.length == 0 && t == .dot then
      match rest with
      | .ident x :: rest' =>
        if x == "b" || x == "B" then parseOps rest' ops 8
        else if x == "w" || x == "W" then parseOps rest' ops 16
        else if x == "a" || x == "A" then parseOps rest' ops 20
        else .err
      | [] => .err
      | _ => .err
    else
    match t with
    | .pound =>
      (match expr rest with
       | none => .outside
       | some none => .err
       | some (some (v, rest')) => after (.imm v) rest')
    | .amp =>
      (match expr rest with
       | none => .outside
       | some none => .err
       | some (some (v, rest')) => after (.abs v) rest')
    | .at =>
      (match rest with
       | .ident r :: rest' =>
         (match register r with
          | some k =>
            (match rest' with
             | .plus :: rest'' => after (.indirectInc (r4 k)) rest''
             | _ => after (.indirect (r4 k)) rest')
          | none => .err)
       | _ => .err)
    | .ident name =>
      (match register name with
       | some k => after (.reg (r4 k)) rest
       | none => .outside)
    | _ =>
      (match expr toks with
       | none => .outside
       | some none => .err
       | some (some (v, rest')) =>
         (match rest' with
          | .lpar :: .ident r :: rest'' =>
            (match register r with
             | some k =>
               (match rest'' with
                | .rpar :: rest3 => after (.indexed v (r4 k)) rest3
                | _ => .err)
             | none => .err)
          | .lpar :: _ => .err
          | _ => after (.symbolic v) rest'))

def parseStmt (text : String) : PResult :=
  match lex text with
  | .ident m :: rest =>
    (match parseOps rest [] 0 with
     | .stmt s => .stmt { s with mnemonic := m.toLower }
     | r => r)
  | _ => .outside

def le16 (w : BitVec 16) : String := hex2 w.toNat ++ hex2 (w.toNat / 256)

def showAsm (r : Option (Bool × List (BitVec 16))) : String :=
  match r with
  | none => "err"
  | some (pad, ws) => "ok " ++ (if pad then "00" else "") ++ String.join (ws.map le16)

/-- `asm1 msp430 <addr> <opts> <hex text>` -/
def handleAsm1 (args : List String) : String :=
  match args with
  | [_, addr, opts, text] =>
    (match parseHexNat addr with
     | some a =>
       let t := String.ofList ((unhexBytes text).map (fun b => Char.ofNat b))
       (match parseStmt t with
        | .outside => "unmodelled"
        | .err => "err"
        | .stmt s => showAsm (assemble (BitVec.ofNat 32 a) (opts.contains 'o') s))
     | none => "bad-op")
  | _ => "bad-op"

def word16 (bytes : List Nat) (off : Nat) : BitVec 16 :=
  BitVec.ofNat 16 (bytes.getD off 0 + bytes.getD (off + 1) 0 * 256)

/-- `dis msp430 <addr> <hex bytes>` -> `<len> <hex text>` -/
def handleDis (args : List String) : String :=
  match args with
  | [_, addr, bytes] =>
    (match parseHexNat addr with
     | some a =>
       let bs := unhexBytes bytes
       let d := Disasm.disasm (BitVec.ofNat 32 a) (word16 bs 0) (word16 bs 2) (word16 bs 4) (word16 bs 6)
       toString d.len ++ " " ++ tohex (String.ofList d.text)
     | none => "bad-op")
  | _ => "bad-op"

/-- `walk msp430 <start> <end> <hex bytes>` -/
def handleWalk (args : List String) : String :=
  match args with
  | [_, start, stop, bytes] =>
    (match parseHexNat start, parseHexNat stop with
     | some s, some e =>
       let bs := unhexBytes bytes
       let w (a : Nat) (k : Nat) : BitVec 16 := if a + k < s then 0 else word16 bs (a + k - s)
       let lenAt (a : Nat) : Nat := Disasm.len (w a 0) (w a 2)
       let ls := Disasm.rangeLines lenAt s e
       if ls.isEmpty then "-"
       else ",".intercalate (ls.map (fun l => String.ofList (Nat.toDigits 16 l.1) ++ (if l.2 then "+" else "")))
     | _, _ => "bad-op")
  | _ => "bad-op"

/-- `rt msp430 <addr> <opts> <hex bytes>` : re-assembly of the decoder's own reading (`toStmt`) at the address -/
def handleRt (args : List String) : String :=
  match args with
  | [_, addr, opts, bytes] =>
    (match parseHexNat addr with
     | some a =>
       let bs := unhexBytes bytes
       (match Disasm.toStmt (BitVec.ofNat 32 a) (word16 bs 0) (word16 bs 2) (word16 bs 4) with
        | none => "err"
        | some s => showAsm (assemble (BitVec.ofNat 32 a) (opts.contains 'o') s))
     | none => "bad-op")
  | _ => "bad-op"

def handle (cmd : String) (args : List String) : String :=
  if cmd == "asm1" then handleAsm1 args
  else if cmd == "dis" then handleDis args
  else if cmd == "walk" then handleWalk args
  else if cmd == "rt" then handleRt args
  else "bad-op"

end Driver.Msp430
