import NakenVerif.Listing.Impl
import NakenVerif.Generated.CpuList
import Driver.Mem
/-
  lst <cpu> <token>...      the listing model on a statement sequence
     tokens: the directive tokens of `dir` (org:…, db:…, lab:… …),
             ins:<line hex>:<emit,emit,…>    (inq: = inside an include file: not listed)   emit = s<n hex> (skip) | d<hh> (data byte) | c<hh> (code byte carrying the
                                             source line) | n<hh> (code byte marked DL_NO_CG)
             rep:<line hex>:<count hex> … endr
  -> st=0 low= high= ulow= uhigh= lines=<addr>/<len>/<word,word>/<cycles>/<hex of text or ->;…
        dump=<unit>:<cols as hh or __>;…  syms=…  img=…  dbg=…  exact=<per call 0|1>  nodup=<0|1>  nowrap=<0|1>
-/
namespace Driver.Listing
open NakenVerif NakenVerif.Memory NakenVerif.Listing
open Driver.Mem (parseHex toHex hex2 unhexBytes parseDirective cellsOf renderRuns)

inductive Tok where
  | skip (n : Nat) | data (b : BitVec 8) | code (b : BitVec 8) (op : Bool)

def parseEmit (s : String) : Option Tok :=
  match s.toList with
  | 's' :: rest => (parseHex (String.ofList rest)).map .skip
  | 'd' :: rest => (parseHex (String.ofList rest)).map fun v => .data (BitVec.ofNat 8 v)
  | 'c' :: rest => (parseHex (String.ofList rest)).map fun v => .code (BitVec.ofNat 8 v) true
  | 'n' :: rest => (parseHex (String.ofList rest)).map fun v => .code (BitVec.ofNat 8 v) false
  | _ => none

/-- skips, then pad bytes, then code bytes; anything else is outside the model -/
def toEmits (ts : List Tok) : Option Emits :=
  let skips := ts.takeWhile fun t => match t with | .skip _ => true | _ => false
  let r1 := ts.dropWhile fun t => match t with | .skip _ => true | _ => false
  let pads := r1.takeWhile fun t => match t with | .data _ => true | _ => false
  let r2 := r1.dropWhile fun t => match t with | .data _ => true | _ => false
  if r2.all fun t => match t with | .code _ _ => true | _ => false then
    some { skip := (skips.map fun t => match t with | .skip n => n | _ => 0).sum,
           pad := pads.filterMap fun t => match t with | .data b => some b | _ => none,
           code := r2.filterMap fun t => match t with | .code b op => some (b, op) | _ => none }
  else none

def parseEmits (es : String) : Option Emits :=
  if es == "-" then some { code := [] } else ((es.splitOn ",").mapM parseEmit).bind toEmits

def parseSimple (tok : String) : Option Simple :=
  match tok.splitOn ":" with
  | ["ins", line, es] =>
    match parseHex line, parseEmits es with
    | some l, some es => some (.instr (BitVec.ofNat 32 l) true es)
    | _, _ => none
  | ["inq", line, es] =>
    match parseHex line, parseEmits es with
    | some l, some es => some (.instr (BitVec.ofNat 32 l) false es)
    | _, _ => none
  | _ => (parseDirective tok).map .dir

/-- tokens → statements; `rep:` … `endr` brackets one level (`fuel` ≥ number of tokens) -/
def parseStmtsF : Nat → List String → Option (List Stmt)
  | _, [] => some []
  | 0, _ => none
  | fuel + 1, tok :: rest =>
    match tok.splitOn ":" with
    | [rp, line, count] =>
     if rp ≠ "rep" ∧ rp ≠ "req" then
      match parseSimple tok, parseStmtsF fuel rest with
      | some s, some more => some (.simple s :: more)
      | _, _ => none
     else
      let body := rest.takeWhile (· ≠ "endr")
      let after := (rest.dropWhile (· ≠ "endr")).drop 1
      match parseHex line, parseHex count, body.mapM parseSimple, parseStmtsF fuel after with
      | some l, some c, some b, some more => some (.rep (BitVec.ofNat 32 l) (rp == "rep") c b :: more)
      | _, _, _, _ => none
    | _ =>
      match parseSimple tok, parseStmtsF fuel rest with
      | some s, some more => some (.simple s :: more)
      | _, _ => none

def parseStmts (toks : List String) : Option (List Stmt) := parseStmtsF toks.length toks

def textHex (s : String) : String :=
  String.join (s.toUTF8.toList.map fun b => hex2 b.toNat)

def renderLine (l : ILine) : String :=
  toHex l.addr.toNat ++ "/" ++ toString l.len ++ "/" ++ ",".intercalate (l.words.map toHex) ++ "/" ++ toString l.cycles ++
    "/" ++ (match l.text with | some t => textHex t | none => "-")

def renderDLine (l : DLine) : String :=
  toHex l.unit ++ ":" ++ String.join (l.cols.map fun c => match c with | some b => hex2 b.toNat | none => "__")

def callAddrs (c : Call) : List (BitVec 32) := c.lines.flatMap fun l => l.cells.map (·.addr)

def callExact (c : Call) : Bool :=
  callAddrs c == addrRange c.first (if c.first ≤ c.stop then c.stop.toNat - c.first.toNat else 0)

def nodup (l : List (BitVec 32)) : Bool :=
  let s := l.foldl (fun (acc : Std.HashSet (BitVec 32)) a => acc.insert a) {}
  s.size == l.length

def formatterOf (cpu : String) : Formatter :=
  if cpu == "msp430" then msp430 else if cpu == "riscv" then riscv else bytesFormatter (fun _ _ => 1)

def handle (args : List String) : String :=
  match args with
  | [] => "bad-op"
  | cpu :: toks =>
    match Generated.cpuList.find? (fun c => c.name == cpu), parseStmts toks with
    | some c, some prog =>
      let dcfg : Core.Directives.Cfg := { bigEndian := c.bigEndian, bpa := BitVec.ofNat 32 c.bytesPerAddress }
      let cfg : Cfg := { fmt := formatterOf cpu, p1wd := c.pass1WriteDisable, listing := true }
      match run cfg dcfg prog with
      | .error .error => "st=1"
      | .error .hang => "hang"
      | .error .unmodelled => "unmodelled"
      | .ok (ls, L) =>
        let st := ls.st
        let cells := cellsOf st.memory
        let syms := if L.symbols.isEmpty then "-" else
          ",".intercalate (L.symbols.map fun (n, a) => n ++ "=" ++ toHex a.toNat ++ "@0")
        let lines := L.calls.flatMap (·.lines)
        "st=0 low=" ++ toHex st.memory.lowAddress.toNat ++ " high=" ++ toHex st.memory.highAddress.toNat ++
          " ulow=" ++ toHex L.low ++ " uhigh=" ++ toHex L.high ++
          " bpa=" ++ toString st.bpa.toNat ++ " end=" ++ (if st.memory.bigEndian then "b" else "l") ++
          " lines=" ++ (if lines.isEmpty then "-" else ";".intercalate (lines.map renderLine)) ++
          " dump=" ++ (if L.dump.isEmpty then "-" else ";".intercalate (L.dump.map renderDLine)) ++
          " syms=" ++ syms ++
          " img=" ++ renderRuns cells (fun c => hex2 c.2.1) ++
          " dbg=" ++ renderRuns cells (fun c => if c.2.2 = dlData then "d" else if c.2.2 = Listing.dlNoCg then "n" else "c") ++
          " exact=" ++ (if L.calls.isEmpty then "-" else String.join (L.calls.map fun c => if callExact c then "1" else "0")) ++
          " nodup=" ++ (if nodup ls.writes then "1" else "0") ++ " nowrap=" ++ (if ls.nowrap then "1" else "0")
    | _, _ => "bad-op"

end Driver.Listing
