import NakenVerif.Expr.Impl
import NakenVerif.Expr.Literal
namespace Driver.Expr
open NakenVerif.Expr NakenVerif.Generated

def hex64 (v : BitVec 64) : String :=
  let s := String.ofList (Nat.toDigits 16 v.toNat)
  "".pushn '0' (16 - s.length) ++ s

def binOpOfName : String → Option BinOp
  | "mul" => some .mul | "div" => some .div | "mod" => some .mod | "add" => some .add
  | "sub" => some .sub | "shl" => some .shl | "shr" => some .shr | "and" => some .and
  | "xor" => some .xor | "or" => some .or | _ => none

def tokOfString (noPostfix : Bool) (s : String) : Tok :=
  match operatorTokens.find? (fun e => e.1 == s) with
  | some (_, name, _) => match binOpOfName name with | some o => .op o | none => .other 0
  | none =>
    if s == "~" then .tilde
    else if s == "(" then .lparen
    else if s == ")" then .rparen
    else if s == "," then .sep 0
    else if s == "]" then .sep 1
    else if s == "[" then .sep 2
    else if s == "." then .sep 3
    else match s.toList with
      | c :: _ =>
          if Literal.isDigit c then
            match Literal.convert noPostfix s.toList with
            | .number v => .num v
            | .word => .other 1
          else .other 2
      | [] => .other 3

def renderTok : Tok → String
  | .num v => "n" ++ hex64 v
  | .op o => tokenOf o
  | .tilde => "~"
  | .lparen => "("
  | .rparen => ")"
  | .sep 0 => "," | .sep 1 => "]" | .sep 2 => "[" | .sep _ => "."
  | .eol => "<eol>"
  | .other _ => "<other>"

/-- `expr <noPostfix 0/1> tok tok ...` -/
def handle (args : List String) : String :=
  match args with
  | flag :: toks =>
      let ts := toks.map (tokOfString (flag == "1"))
      match eval ts with
      | .ok (v, rest) =>
          -- the harness reports the remaining tokens up to the first non-expression token
          "ok " ++ hex64 v ++ " " ++ toString rest.length ++ " " ++
            (match rest with | [] => "<eol>" | t :: _ => renderTok t)
      | .err => "err"
      | .fault => "fault"
      | .fuel => "fuel"
  | [] => "bad-op"

def hex32 (v : BitVec 32) : String :=
  let s := String.ofList (Nat.toDigits 16 v.toNat)
  "".pushn '0' (8 - s.length) ++ s

/-- `expr32 <noPostfix 0/1> tok tok ...` : the int overload -/
def handle32 (args : List String) : String :=
  match args with
  | flag :: toks =>
      match eval32 (toks.map (tokOfString (flag == "1"))) with
      | .ok (v, _) => "ok " ++ hex32 v
      | .err => "err"
      | .fault => "fault"
      | .fuel => "fuel"
  | [] => "bad-op"

/-- `lit <noPostfix 0/1> <word>` : literal conversion alone -/
def handleLit (args : List String) : String :=
  match args with
  | [flag, w] =>
      (match w.toList with
       | c :: _ => if Literal.isDigit c then
            (match Literal.convert (flag == "1") w.toList with
             | .number v => "num " ++ hex64 v
             | .word => "word")
           else "bad-op"
       | [] => "bad-op")
  | _ => "bad-op"

end Driver.Expr
