import NakenVerif.Riscv.Asm
import NakenVerif.Riscv.Disasm
import NakenVerif.Common.Walk
/-! Line protocol for the RISC-V model:  asm1 / dis / walk / rt  (see harness/cmd_isa.h). -/
namespace Driver.Riscv
open NakenVerif.Riscv NakenVerif.Riscv.Asm

def hexVal (c : Char) : Option Nat :=
  if '0' ≤ c ∧ c ≤ '9' then some (c.toNat - '0'.toNat)
  else if 'a' ≤ c ∧ c ≤ 'f' then some (c.toNat - 'a'.toNat + 10)
  else if 'A' ≤ c ∧ c ≤ 'F' then some (c.toNat - 'A'.toNat + 10)
  else none

def parseHexNat (s : String) : Option Nat :=
  if s.isEmpty then none else s.toList.foldlM (fun acc c => (hexVal c).map (acc * 16 + ·)) 0

def unhexBytes (s : String) : List Nat :=
  if s == "-" then [] else
  let rec go : List Char → List Nat
    | a :: b :: rest => ((hexVal a).getD 0 * 16 + (hexVal b).getD 0) :: go rest
    | _ => []
  go s.toList

def hex2 (n : Nat) : String := let s := String.ofList (Nat.toDigits 16 (n % 256)); if s.length < 2 then "0" ++ s else s
def tohex (s : String) : String :=
  if s.isEmpty then "-" else String.join (s.toUTF8.toList.map (fun b => hex2 b.toNat))
def le32 (w : BitVec 32) : String :=
  hex2 w.toNat ++ hex2 (w.toNat / 256) ++ hex2 (w.toNat / 65536) ++ hex2 (w.toNat / 16777216)

/-! ### the fragment of the lexer + `get_operands` the correspondence stream uses -/
inductive Tok where
  | ident (s : String) | num (v : Nat) | comma | lpar | rpar | minus | dot | bad
  deriving Repr, DecidableEq, Inhabited

def isIdStart (c : Char) : Bool := c.isAlpha || c == '_'
def isIdChar (c : Char) : Bool := c.isAlphanum || c == '_'

partial def lexGo : List Char → List Tok → List Tok
  | [], acc => acc.reverse
  | c :: cs, acc =>
    if c == ' ' || c == '\t' then lexGo cs acc
    else if c == ',' then lexGo cs (.comma :: acc)
    else if c == '(' then lexGo cs (.lpar :: acc)
    else if c == ')' then lexGo cs (.rpar :: acc)
    else if c == '-' then lexGo cs (.minus :: acc)
    else if c == '.' then lexGo cs (.dot :: acc)
    else if isIdStart c then
      let w := (c :: cs).takeWhile isIdChar
      lexGo ((c :: cs).drop w.length) (.ident (String.ofList w) :: acc)
    else if c.isDigit then
      let w := (c :: cs).takeWhile isIdChar
      let rest := (c :: cs).drop w.length
      let s := String.ofList w
      -- decimal without leading zero, or 0x hexadecimal; every other spelling is outside the fragment
      if s.startsWith "0x" then
        match parseHexNat (s.drop 2).toString with
        | some v => lexGo rest (.num v :: acc)
        | none => lexGo rest (.bad :: acc)
      else if w.all Char.isDigit && (w.length == 1 || c != '0') then lexGo rest (.num s.toNat! :: acc)
      else lexGo rest (.bad :: acc)
    else lexGo cs (.bad :: acc)

def lex (s : String) : List Tok := lexGo s.toList []

/-- `get_register_number` -/
def regNumber (cs : List Char) : Option Nat :=
  cs.foldlM (fun acc c => if c.isDigit then
      let n := acc * 10 + (c.toNat - '0'.toNat)
      if n > 31 then none else some n
    else none) 0

/-- `get_x_register_riscv` -/
def xRegister (t : String) : Option Nat :=
  match t.toList with
  | [] => none
  | c0 :: rest =>
    if c0 == 'x' || c0 == 'X' then regNumber rest
    else
      let l := t.toLower
      if l == "zero" then some 0 else if l == "ra" then some 1 else if l == "sp" then some 2
      else if l == "gp" then some 3 else if l == "tp" then some 4 else if l == "fp" then some 8
      else
        let two : Option Nat :=
          match rest with
          | [c1] =>
            if c0 == 't' && '0' ≤ c1 && c1 ≤ '2' then some (c1.toNat - '0'.toNat + 5)
            else if c0 == 't' && '3' ≤ c1 && c1 ≤ '6' then some (c1.toNat - '0'.toNat - 3 + 28)
            else if c0 == 't' then none
            else if c0 == 'a' && '0' ≤ c1 && c1 ≤ '7' then some (c1.toNat - '0'.toNat + 10)
            else if c0 == 's' && '0' ≤ c1 && c1 ≤ '1' then some (c1.toNat - '0'.toNat + 8)
            else none
          | _ => none
        match two with
        | some n => some n
        | none =>
          if c0 == 's' then
            match regNumber rest with
            | some n => if 2 ≤ n && n ≤ 11 then some (n - 2 + 18) else none
            | none => none
          else none

def fenceFlag (t : String) : Option Nat :=
  ["sw", "sr", "so", "si", "pw", "pr", "po", "pi"].findIdx? (· == t.toLower)

inductive PResult where
  | stmt (s : Stmt)
  | err
  | outside       -- syntax outside the modelled fragment
  deriving Repr

/-- `eval_expression(asm_context, &n)`: the 64-bit value must lie in -2^31 .. 2^32-1 ("Constant does not fit in
    32 bits" otherwise); the operand is its low 32 bits (`get_int32`) -/
def narrow (neg : Bool) (v : Nat) : Option (BitVec 32) :=
  let v64 : BitVec 64 := if neg then - BitVec.ofNat 64 v else BitVec.ofNat 64 v
  if v64.toInt < -2147483648 || v64.toInt > 4294967295 then none else some (v64.truncate 32)

partial def parseOps (toks : List Tok) (ops : List Operand) (fence : Nat) (count : Nat) :
    Option (Option (List Operand × Nat)) :=   -- none = outside; some none = err
  match toks with
  | [] => some (some (ops.reverse, fence))
  | t :: rest =>
    let after (op : Option Operand) (fence : Nat) (rest : List Tok) : Option (Option (List Operand × Nat)) :=
      let ops' := match op with | some o => o :: ops | none => ops
      let count' := match op with | some _ => count + 1 | none => count
      match rest with
      | [] => some (some (ops'.reverse, fence))
      | .comma :: rest' => if count' == 6 then some none else parseOps rest' ops' fence count'
      | _ => some none
    let number (neg : Bool) (v : Nat) (rest : List Tok) : Option (Option (List Operand × Nat)) :=
      match narrow neg v with
      | none => some none
      | some n =>
      match rest with
      | .lpar :: rest' =>
        if n.slt (-32768) || (32767 : BitVec 32).slt n then some none
        else match rest' with
          | .ident r :: .rpar :: rest'' =>
            (match xRegister r with
             | some k => after (some (.regOff (n.truncate 16) (BitVec.ofNat 5 k))) fence rest''
             | none => some none)
          | _ => some none
      | .comma :: _ => after (some (.num n)) fence rest
      | [] => after (some (.num n)) fence rest
      | _ => none      -- an operator follows: general expressions are outside the fragment
    match t with
    | .ident name =>
      (match xRegister name with
       | some k => after (some (.xreg (BitVec.ofNat 5 k))) fence rest
       | none =>
         match fenceFlag name with
         | some i => after none (fence ||| (1 <<< i)) rest
         | none => after (some .other) fence rest)
    | .lpar =>
      (match rest with
       | .ident r :: rest' =>
         (match xRegister r with
          | some k =>
            (match rest' with
             | .rpar :: rest'' => after (some (.regOff 0 (BitVec.ofNat 5 k))) fence rest''
             | _ => some none)
          | none => none)
       | _ => none)
    | .num v => number false v rest
    | .minus => (match rest with | .num v :: rest' => number true v rest' | _ => none)
    | _ => none

def parseStmt (text : String) : PResult :=
  match lex text with
  | .ident m :: rest =>
    let m := m.toLower
    -- "fence.i", "sext.w": the mnemonic continues after a dot
    let (m, rest) : String × List Tok :=
      match rest with
      | .dot :: .ident x :: rest' => (m ++ "." ++ x.toLower, rest')
      | _ => (m, rest)
    if m.endsWith ".aq" || m.endsWith ".rl" || m == "c" || m.startsWith "c." then .outside
    else match parseOps rest [] 0 0 with
      | none => .outside
      | some none => .err
      | some (some (ops, fence)) => .stmt { mnemonic := m, operands := ops, fence := BitVec.ofNat 8 fence }
  | _ => .outside

def showResult : Result → String
  | .ok w => "ok " ++ le32 w
  | .err => "err"
  | .fault => "fault"
  | .unmodelled => "unmodelled"

/-- `asm1 riscv <addr> <opts> <hex text>` -/
def handleAsm1 (args : List String) : String :=
  match args with
  | [_, addr, _, text] =>
    (match parseHexNat addr with
     | some a =>
       let t := String.ofList ((unhexBytes text).map (fun b => Char.ofNat b))
       (match parseStmt t with
        | .outside => "unmodelled"
        | .err => "err"
        | .stmt s => showResult (encode { address := BitVec.ofNat 32 a } s))
     | none => "bad-op")
  | _ => "bad-op"

def wordAt (bytes : List Nat) (off : Nat) : BitVec 32 :=
  let b (i : Nat) := (bytes.getD (off + i) 0)
  BitVec.ofNat 32 (b 0 + b 1 * 256 + b 2 * 65536 + b 3 * 16777216)

/-- `dis riscv <addr> <hex bytes>` -> `<len> <hex text>` or `<len> ?` -/
def handleDis (args : List String) : String :=
  match args with
  | [_, addr, bytes] =>
    (match parseHexNat addr with
     | some a =>
       let w := wordAt (unhexBytes bytes) 0
       let (n, t) := Disasm.disasm (BitVec.ofNat 32 a) w
       toString n ++ " " ++ (match t with | some s => tohex s | none => "?")
     | none => "bad-op")
  | _ => "bad-op"

/-- `walk riscv <start> <end> <hex bytes>` : Common.Walk over the model's length function -/
def handleWalk (args : List String) : String :=
  match args with
  | [_, start, stop, bytes] =>
    (match parseHexNat start, parseHexNat stop with
     | some s, some e =>
       let bs := unhexBytes bytes
       let len (a : Nat) : Nat := Disasm.len (wordAt bs (a - s))
       let ps := NakenVerif.Walk.walk len s e
       if ps.isEmpty then "-" else ",".intercalate (ps.map (fun a => String.ofList (Nat.toDigits 16 a)))
     | _, _ => "bad-op")
  | _ => "bad-op"

/-- `rt riscv <addr> <hex word bytes>` : re-assembly of the decoder's own reading (`toStmt`) -/
def handleRt (args : List String) : String :=
  match args with
  | [_, addr, bytes] =>
    (match parseHexNat addr with
     | some a =>
       let w := wordAt (unhexBytes bytes) 0
       if w &&& 3 ≠ 3 then "unmodelled"
       else match Disasm.firstMatch w with
         | none => "none"
         | some r =>
           if Disasm.textRejected r.type then "err"
           else match Disasm.toStmt w with
             | some s => showResult (encode { address := BitVec.ofNat 32 a } s)
             | none => "unmodelled"
     | none => "bad-op")
  | _ => "bad-op"

def handle (cmd : String) (args : List String) : String :=
  match args with
  | "riscv" :: _ =>
    if cmd == "asm1" then handleAsm1 args
    else if cmd == "dis" then handleDis args
    else if cmd == "walk" then handleWalk args
    else if cmd == "rt" then handleRt args
    else "bad-op"
  | _ => "bad-op"

end Driver.Riscv
