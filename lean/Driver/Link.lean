import NakenVerif.Link.LinkImpl
import NakenVerif.Generated.LinkCpus
/-
`link <opts> <view> <hex source> [<hex file name> <hex file content>]...`   (see harness/cmd_link.h)

The source text is not read here: what the link protocol takes from the rest of the assembler is the
program view computed by the generator,
  cpu=<name|->;en=<l|b|->;e1=<hex>;e2=<hex>;ids=<hexname,...|->;syms=<hexname:hexaddr,...|->;refs=<hexname,...|->
and the harness reports the same facts from the real assembler.
-/
namespace Driver.Link
open NakenVerif.Link

def hexVal (c : Char) : Nat :=
  if '0' ≤ c ∧ c ≤ '9' then c.toNat - 48
  else if 'a' ≤ c ∧ c ≤ 'f' then c.toNat - 87
  else if 'A' ≤ c ∧ c ≤ 'F' then c.toNat - 55
  else 0

def unhexList : List Char → List UInt8
  | a :: b :: rest => UInt8.ofNat (hexVal a * 16 + hexVal b) :: unhexList rest
  | _ => []

def unhex (s : String) : List UInt8 := if s == "-" then [] else unhexList s.toList

def unhexArray (s : String) : Array UInt8 :=
  if s == "-" then #[] else
    let cs := s.toList.toArray
    Id.run do
      let mut out : Array UInt8 := Array.mkEmpty (cs.size / 2)
      let mut i := 0
      while i + 1 < cs.size do
        out := out.push (UInt8.ofNat (hexVal cs[i]! * 16 + hexVal cs[i + 1]!))
        i := i + 2
      return out

/-- a name inside a list: "00" stands for the empty name -/
def unhexName (s : String) : Name := if s == "00" then [] else unhex s

def hexDigit (n : Nat) : Char := if n < 10 then Char.ofNat (48 + n) else Char.ofNat (87 + n)

def hexByte (b : UInt8) : String := String.ofList [hexDigit (b.toNat / 16), hexDigit (b.toNat % 16)]

def hexName (n : Name) : String := if n.isEmpty then "00" else String.join (n.map hexByte)

def hexNat (n : Nat) : String := String.ofList (Nat.toDigits 16 n)

def parseHexNat (s : String) : Nat := s.toList.foldl (fun acc c => acc * 16 + hexVal c) 0

def names (s : String) : List Name := if s == "-" then [] else (s.splitOn ",").map unhexName

def field (kvs : List (String × String)) (k : String) : String :=
  match kvs.find? (fun e => e.1 == k) with
  | some e => e.2
  | none => "-"

def parseView (s : String) : Cfg × Prog :=
  let kvs := (s.splitOn ";").map (fun kv => match kv.splitOn "=" with | [k, v] => (k, v) | _ => (kv, "-"))
  let cpu := field kvs "cpu"
  let row := NakenVerif.Generated.Link.linkCpus.find? (fun r => r.1 == cpu)
  let linkFn : LinkFn :=
    if cpu == "-" then .null else
    match row with
    | some (_, true, _, _) => .mips
    | _ => .unsupported
  let defaultBig := match row with | some (_, _, big, _) => big | none => false
  let en := field kvs "en"
  let bigEndian := if en == "b" then true else if en == "l" then false else defaultBig
  let syms : Syms := if field kvs "syms" == "-" then [] else
    ((field kvs "syms").splitOn ",").map (fun e => match e.splitOn ":" with
      | [n, a] => (unhexName n, BitVec.ofNat 32 (parseHexNat a))
      | _ => ([], 0))
  ({ linkFn, bigEndian },
   { idents := names (field kvs "ids"), syms, end1 := BitVec.ofNat 32 (parseHexNat (field kvs "e1")),
     end2 := BitVec.ofNat 32 (parseHexNat (field kvs "e2")), refs := names (field kvs "refs") })

def parseFiles : List String → List (Name × Bytes)
  | n :: c :: rest => (unhex n, unhexArray c) :: parseFiles rest
  | _ => []

def joinNames (l : List Name) : String := if l.isEmpty then "-" else ",".intercalate (l.map hexName)

def renderSyms (s : Syms) : String :=
  if s.isEmpty then "-" else ",".intercalate (s.map (fun e => hexName e.1 ++ ":" ++ hexNat e.2.toNat))

/-- the appended region: from the first imported symbol's address to the end address; gaps read as 00 -/
def renderApp (o : Out) : String :=
  match o.list with
  | [] => "-"
  | first :: _ =>
    match o.syms.lookup first with
    | none => "-"
    | some start =>
      let bytes := (o.runs.map (·.2)).flatten
      hexNat start.toNat ++ ":" ++ (if bytes.isEmpty then "-" else String.join (bytes.map hexByte))

def fuelFor (files : List (Name × Bytes)) (p : Prog) : Nat :=
  (files.map (fun f => f.2.size)).sum + p.idents.length + 2

def handle (args : List String) : String :=
  match args with
  | _opts :: view :: _src :: rest =>
    let (cfg, p) := parseView view
    let files := parseFiles rest
    match addFiles files [] with
    | .notImport => "st=1 stage=notimport"
    | .unsupported => "st=1 stage=addfile"
    | .fault => "fault addfile"
    | .ok imports =>
      match linkAll (envOf imports) cfg p (fuelFor files p) with
      | .fault => "fault"
      | .fuel => "fuel"
      | .error .link1 => "st=1 stage=link1"
      | .error .pass2 => "st=1 stage=pass2"
      | .error .link2 => "st=1 stage=link2"
      | .ok o =>
        "st=0 p1end=" ++ hexNat p.end1.toNat ++ " en=" ++ (if cfg.bigEndian then "b" else "l") ++
        " p1list=" ++ joinNames o.p1list ++ " list=" ++ joinNames o.list ++ " syms=" ++ renderSyms o.syms ++
        " app=" ++ renderApp o
  | _ => "bad-op"

end Driver.Link
