import NakenVerif.Memory.Impl
import NakenVerif.Core.DirectivesImpl
import NakenVerif.Generated.CpuList
namespace Driver.Mem
open NakenVerif NakenVerif.Memory NakenVerif.Core.Directives

def hexDigit (c : Char) : Option Nat :=
  if '0' ≤ c ∧ c ≤ '9' then some (c.toNat - '0'.toNat)
  else if 'a' ≤ c ∧ c ≤ 'f' then some (c.toNat - 'a'.toNat + 10)
  else if 'A' ≤ c ∧ c ≤ 'F' then some (c.toNat - 'A'.toNat + 10)
  else none

def parseHex (s : String) : Option Nat :=
  if s.isEmpty then none
  else s.toList.foldl (fun acc c => match acc, hexDigit c with
    | some n, some d => some (n * 16 + d)
    | _, _ => none) (some 0)

def toHex (n : Nat) : String := String.ofList (Nat.toDigits 16 n)

def hex2 (n : Nat) : String :=
  let s := toHex n
  if s.length < 2 then "0" ++ s else s

/-- hex string of bytes ("-" = empty) → bytes -/
def unhexBytes (s : String) : Option (List (BitVec 8)) :=
  if s == "-" then some []
  else
    let rec go : List Char → Option (List (BitVec 8))
      | [] => some []
      | [_] => none
      | a :: b :: rest =>
        match hexDigit a, hexDigit b, go rest with
        | some x, some y, some r => some (BitVec.ofNat 8 (x * 16 + y) :: r)
        | _, _, _ => none
    go s.toList

/-! ### `mem` -/

structure MemRun where
  m : Memory
  reads : List String

def memOp (r : MemRun) (op : String) : Option MemRun :=
  let f := op.splitOn ":"
  let nums := (f.drop 1).map parseHex
  match f.head?, nums with
  | some "w8", [some a, some v] => some { r with m := write8 r.m (BitVec.ofNat 32 a) (BitVec.ofNat 8 v) }
  | some "w16", [some a, some v] => some { r with m := write16 r.m (BitVec.ofNat 32 a) (BitVec.ofNat 16 v) }
  | some "w32", [some a, some v] => some { r with m := write32 r.m (BitVec.ofNat 32 a) (BitVec.ofNat 32 v) }
  | some "wd", [some a, some v, some l] =>
      some { r with m := write r.m (BitVec.ofNat 32 a) (BitVec.ofNat 8 v) (BitVec.ofNat 32 l) }
  | some "wg", [some a, some l] => some { r with m := writeDebug r.m (BitVec.ofNat 32 a) (BitVec.ofNat 32 l) }
  | some "r8", [some a] => some { r with reads := toHex (read8 r.m (BitVec.ofNat 32 a)).toNat :: r.reads }
  | some "r16", [some a] => some { r with reads := toHex (read16 r.m (BitVec.ofNat 32 a)).toNat :: r.reads }
  | some "r32", [some a] => some { r with reads := toHex (read32 r.m (BitVec.ofNat 32 a)).toNat :: r.reads }
  | some "rd", [some a] => some { r with reads := toHex (readDebug r.m (BitVec.ofNat 32 a)).toNat :: r.reads }
  | some "e", _ => match f with
      | [_, "b"] => some { r with m := { r.m with bigEndian := true } }
      | [_, "l"] => some { r with m := { r.m with bigEndian := false } }
      | _ => none
  | _, _ => none

def handleMem (args : List String) : String :=
  match args with
  | [] => "bad-op"
  | e :: ops =>
    let m0 : Memory := { Memory.init with bigEndian := e == "b" }
    match ops.foldl (fun acc op => acc.bind (memOp · op)) (some { m := m0, reads := [] : MemRun }) with
    | none => "bad-op"
    | some r =>
      let reads := if r.reads.isEmpty then "-" else ",".intercalate r.reads.reverse
      let pg := if r.m.pages.isEmpty then "-" else
        ";".intercalate (r.m.pages.map fun p =>
          toHex p.address.toNat ++ ":" ++ toHex p.offsetMin.toNat ++ ":" ++ toHex p.offsetMax.toNat)
      "r=" ++ reads ++ " low=" ++ toHex r.m.lowAddress.toNat ++ " high=" ++ toHex r.m.highAddress.toNat ++
        " pages=" ++ toString r.m.pages.length ++ " pg=" ++ pg

/-! ### `dir` -/

def parseOperand (s : String) : Option Operand :=
  if s == "$" then some .dollar
  else match s.toList with
    | '@' :: rest => some (.sym (String.ofList rest))
    | 'n' :: rest => (parseHex (String.ofList rest)).map fun v => .lit (BitVec.ofNat 64 v)
    | _ => none

def parseOperands (s : String) : Option (List Operand) :=
  if s == "-" then some [] else (s.splitOn ",").mapM parseOperand

def parseItem (s : String) : Option Item :=
  match s.toList with
  | 's' :: rest => (unhexBytes (String.ofList rest)).map .str
  | _ => (parseOperand s).map .num

def parseDirective (tok : String) : Option Directive :=
  match tok.splitOn ":" with
  | ["org", o] => (parseOperand o).map .org
  | ["db", z, items] =>
      (if items == "-" then some [] else (items.splitOn ",").mapM parseItem).map (.db (z == "1"))
  | ["dc16", os] => (parseOperands os).map .dc16
  | ["dc32", os] => (parseOperands os).map .dc32
  | ["dc64", os] => (parseOperands os).map .dc64
  | ["resb", o] => (parseOperand o).map .resb
  | ["resw", o] => (parseOperand o).map .resw
  | ["alignbits", o] => (parseOperand o).map .alignBits
  | ["alignbytes", o] => (parseOperand o).map .alignBytes
  | ["fill", v, n] => match parseOperand v, parseOperand n with
      | some a, some b => some (.dataFill a b)
      | _, _ => none
  | ["bin", h] => (unhexBytes h).map .binfile
  | ["be"] => some .bigEndian
  | ["le"] => some .littleEndian
  | ["lab", name] => some (.label name)
  | _ => none

/-- every cell whose debug marker is not DL_EMPTY, as (address, byte, marker), sorted by address -/
def cellsOf (m : Memory) : Array (Nat × Nat × BitVec 32) :=
  let all := m.pages.foldl (fun (acc : Array (Nat × Nat × BitVec 32)) p =>
    p.debugLine.fold (fun acc off line =>
      if line = dlEmpty then acc
      else acc.push (p.address.toNat + off.toNat, (p.bin.getD off 0).toNat, line)) acc) #[]
  all.qsort (fun a b => a.1 < b.1)

def renderRuns (cells : Array (Nat × Nat × BitVec 32)) (f : Nat × Nat × BitVec 32 → String) : String :=
  if cells.isEmpty then "-" else
  let (out, _) := cells.foldl (fun (acc : String × Option Nat) c =>
    let (s, next) := acc
    let s := if next == some c.1 then s else (if s.isEmpty then s else s ++ ";") ++ toHex c.1 ++ ":"
    (s ++ f c, some (c.1 + 1))) ("", none)
  out

def handleDir (args : List String) : String :=
  match args with
  | [] => "bad-op"
  | cpu :: toks =>
    match Generated.cpuList.find? (fun c => c.name == cpu), toks.mapM parseDirective with
    | some c, some ds =>
      let cfg : Cfg := { bigEndian := c.bigEndian, bpa := BitVec.ofNat 32 c.bytesPerAddress }
      match run cfg ds with
      | .error .error => "st=1"
      | .error .hang => "hang"
      | .error .unmodelled => "unmodelled"
      | .ok st =>
        let cells := cellsOf st.memory
        let syms := if st.symbols.isEmpty then "-" else
          ",".intercalate (st.symbols.map fun (n, a) => n ++ "=" ++ toHex a.toNat ++ "@0")
        "st=0 low=" ++ toHex st.memory.lowAddress.toNat ++ " high=" ++ toHex st.memory.highAddress.toNat ++
          " bpa=" ++ toString st.bpa.toNat ++ " end=" ++ (if st.memory.bigEndian then "b" else "l") ++
          " img=" ++ renderRuns cells (fun c => hex2 c.2.1) ++
          " dbg=" ++ renderRuns cells (fun c => if c.2.2 = dlData then "d" else if c.2.2 = BitVec.ofInt 32 Generated.dlNoCg then "n" else "c") ++
          " syms=" ++ syms
    | _, _ => "bad-op"

end Driver.Mem
