import NakenVerif.Msp430.SimImpl
import NakenVerif.Msp430.SimDisLen
import NakenVerif.Msp430.SimArch
import Std.Data.HashMap
namespace Driver.Sim
open NakenVerif.Msp430.Sim

def hexDigit (c : Char) : Option Nat :=
  if '0' ≤ c ∧ c ≤ '9' then some (c.toNat - '0'.toNat)
  else if 'a' ≤ c ∧ c ≤ 'f' then some (c.toNat - 'a'.toNat + 10)
  else if 'A' ≤ c ∧ c ≤ 'F' then some (c.toNat - 'A'.toNat + 10)
  else none

def parseHex (s : String) : Option Nat :=
  if s.isEmpty then none
  else s.toList.foldl (fun acc c => match acc, hexDigit c with
    | some a, some d => some (a * 16 + d)
    | _, _ => none) (some 0)

def toHex (n : Nat) : String := String.ofList (Nat.toDigits 16 n)

def toHex2 (n : Nat) : String :=
  let s := toHex n
  if s.length < 2 then "0" ++ s else s

def parseRegs (s : String) : Option (BitVec 256) :=
  let parts := s.splitOn ","
  if parts.length ≠ 16 then none
  else
    let rec go (ps : List String) (i : Nat) (acc : BitVec 256) : Option (BitVec 256) :=
      match ps with
      | [] => some acc
      | p :: rest => match parseHex p with
        | some v => go rest (i + 1) (setReg acc (BitVec.ofNat 4 i) (BitVec.ofNat 16 v))
        | none => none
    go parts 0 0

def parseCells (s : String) : Option (List (BitVec 32 × BitVec 8)) :=
  if s == "-" then some []
  else (s.splitOn ",").foldr (fun item acc =>
    match acc, item.splitOn ":" with
    | some l, [a, b] => match parseHex a, parseHex b with
      | some a, some b => some ((BitVec.ofNat 32 a, BitVec.ofNat 8 b) :: l)
      | _, _ => none
    | _, _ => none) (some [])

def memOf (cells : List (BitVec 32 × BitVec 8)) : Mem :=
  let hm : Std.HashMap (BitVec 32) (BitVec 8) := cells.foldl (fun h (a, v) => h.insert a v) {}
  fun a => (hm.get? a).getD 0

def renderRegs (r : BitVec 256) : String :=
  ",".intercalate ((List.range 16).map fun i => toHex (getReg r (BitVec.ofNat 4 i)).toNat)

/-- cells that are non-zero afterwards or were given, sorted by address -/
def renderMem (m : Mem) (given : List (BitVec 32)) (written : List (BitVec 32)) : String :=
  let addrs := (given ++ written).map (·.toNat)
  let addrs := (addrs.toArray.qsort (· < ·)).toList.eraseDups
  let keep := addrs.filter fun a =>
    (m (BitVec.ofNat 32 a)) ≠ 0 ∨ given.any (fun g => g.toNat == a)
  if keep.isEmpty then "-"
  else ",".intercalate (keep.map fun a => toHex a ++ ":" ++ toHex2 (m (BitVec.ofNat 32 a)).toNat)

def parseBio (s : String) : Option (BitVec 32) :=
  if s == "-" then some 0x20000 else (parseHex s).map (BitVec.ofNat 32)

def renderState (s : SimState) (given written : List (BitVec 32)) : String :=
  "regs=" ++ renderRegs s.regs ++ " cyc=" ++ toString s.cycleCount ++ " mem=" ++ renderMem s.mem given written

/-- `sim msp430 <break_io> <regs> <cells>` -/
def handle (args : List String) : String :=
  match args with
  | ["msp430", bio, regs, cells] =>
    match parseBio bio, parseRegs regs, parseCells cells with
    | some bio, some regs, some cells =>
      let s : SimState := { regs := regs, mem := memOf cells, cycleCount := 0, nestedCallCount := 0, breakIo := bio }
      match step s with
      | .fault => "fault"
      | .exit st => "exit=" ++ toString st.toNat
      | .ok o =>
        "ret=" ++ (if o.illegal then "-1" else "0") ++ " " ++
          renderState o.state (cells.map (·.1)) (o.writes.map (·.1))
    | _, _, _ => "bad-op"
  | _ => "bad-op"

/-- `simrun msp430 <break_io> <max_cycles> <regs> <cells>`: the auto-run loop; the set of written
    cells is not tracked across steps, so memory is reported for the given cells and the stack area
    the harness line names (all cells of the line). -/
def handleRun (args : List String) : String :=
  match args with
  | ["msp430", bio, maxc, regs, cells] =>
    match parseBio bio, maxc.toInt?, parseRegs regs, parseCells cells with
    | some bio, some maxc, some regs, some cells =>
      let s : SimState := { regs := regs, mem := memOf cells, cycleCount := 0, nestedCallCount := 0, breakIo := bio }
      let (e, s') := run 100000 (if maxc == -1 then none else some maxc) s
      let tail := renderState s' (cells.map (·.1)) []
      match e with
      | .finalRet => "ret=0 end=ret " ++ tail
      | .illegal => "ret=-1 end=illegal " ++ tail
      | .stopped => "ret=0 end=stopped " ++ tail
      | .pcFFFF => "ret=0 end=ffff " ++ tail
      | .exit st => "exit=" ++ toString st.toNat
      | .fault => "fault"
      | .fuel => "fuel"
    | _, _, _, _ => "bad-op"
  | _ => "bad-op"

/-- `arch msp430 <regs> <cells> <extra addresses|->` : the architecture's step (the specification,
    run only by the check's self-test of the specification against the Python reference) -/
def handleArch (args : List String) : String :=
  match args with
  | ["msp430", regs, cells, extra] =>
    match parseRegs regs, parseCells cells with
    | some regs, some cells =>
      let m := memOf cells
      if ¬ NakenVerif.Msp430.SimArch.defined regs m then "undefined"
      else
        let a := NakenVerif.Msp430.SimArch.step regs m
        let ex := if extra == "-" then [] else (extra.splitOn ",").filterMap fun x => (parseHex x).map (BitVec.ofNat 32)
        "regs=" ++ renderRegs a.regs ++ " mem=" ++ renderMem a.mem (cells.map (·.1)) ex
    | _, _ => "bad-op"
  | _ => "bad-op"

/-- `dislen msp430 <addr> <bytes hex>` : length / cycles of the disassembler model -/
def handleDisLen (args : List String) : String :=
  match args with
  | ["msp430", _, bytes] =>
    let bs := bytes.toList
    let byteAt (i : Nat) : Nat :=
      match bs[2 * i]?, bs[2 * i + 1]? with
      | some a, some b => (match hexDigit a, hexDigit b with | some x, some y => x * 16 + y | _, _ => 0)
      | _, _ => 0
    let w0 : BitVec 16 := BitVec.ofNat 16 (byteAt 0 + 256 * byteAt 1)
    let w1 : BitVec 16 := BitVec.ofNat 16 (byteAt 2 + 256 * byteAt 3)
    "len=" ++ toString (disLen w0 w1) ++ " cyc=" ++ toString (disCycles w0 w1)
  | _ => "bad-op"

end Driver.Sim
