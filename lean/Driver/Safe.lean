import NakenVerif.Safe.CFile
import NakenVerif.Safe.Uf2
import NakenVerif.Safe.TiTxt
import NakenVerif.Safe.Amiga
import NakenVerif.Safe.Elf
import NakenVerif.Safe.Macho
import NakenVerif.Safe.Sniff
import Driver.FileIO
/-
C17 driver: `srd <fmt|auto> <ext|-> <file hex> <start hex> <maxoff hex>`
  -> `ret=<n> type=<name> low=<hex> high=<hex> nz=<addr:hexbytes;...> syms=<hexname=value,...>` | `fault <kind>`
-/
namespace Driver.Safe
open NakenVerif.Safe NakenVerif.FileIO Driver.FileIO

def parseBytesArr (s : String) : Array UInt8 :=
  if s == "-" then #[] else (parseHexBytes s.toList).toArray

/-- `Symbols::append` keeps the first definition of a name -/
def dedupe (syms : List (List UInt8 × Nat)) : List (List UInt8 × Nat) :=
  syms.foldl (fun acc s => if acc.any (fun t => t.1 == s.1) then acc else acc ++ [s]) []

def showSyms (syms : List (List UInt8 × Nat)) : String :=
  let l := dedupe syms.reverse
  if l.isEmpty then "-" else
  ",".intercalate (l.map (fun (n, v) => toHexString n ++ "=" ++ natHex v))

def showOut (typ : String) (ret : Int) (writes : List (Nat × UInt8)) (low high : Nat) (syms : List (List UInt8 × Nat)) : String :=
  "ret=" ++ toString (if ret ≥ 0 then 0 else ret) ++ " type=" ++ typ ++ " low=" ++ natHex low ++ " high=" ++ natHex high ++
    " nz=" ++ dumpNonZero writes ++ " syms=" ++ showSyms syms

def showSafe (typ : String) (r : Except Fault Loaded) : String :=
  match r with
  | .error e => "fault " ++ e.name
  | .ok l => showOut typ l.ret l.mem.writes.reverse l.mem.low l.mem.high l.syms

def handleSrd (args : List String) : String :=
  match args with
  | fmt :: ext :: file :: start :: maxoff :: _ =>
    let f := parseBytesArr file
    let maxOff := parseHexNat maxoff.toList
    let typ := if fmt == "auto" then (Sniff.getFileType (if ext == "-" then "dat" else ext) f).name else fmt
    let chars := f.toList.map (fun b => Char.ofNat b.toNat)
    if typ == "hex" then
      let r := ReadImpl.readHex chars
      showOut typ r.ret r.writes r.low r.high []
    else if typ == "srec" then
      let r := ReadImpl.readSrec chars
      showOut typ r.ret r.writes r.low r.high []
    else if typ == "bin" then
      let (w, lo, hi) := BinImpl.read f.toList (parseHexNat start.toList)
      showOut typ 0 w lo hi []
    else if typ == "wdc" then
      let r := WdcImpl.read f.toList
      showOut typ r.ret r.writes r.low r.high []
    else if typ == "uf2" then showSafe typ (Uf2.read f)
    else if typ == "ti_txt" then showSafe typ (TiTxt.read f)
    else if typ == "amiga" then showSafe typ (Amiga.read f)
    else if typ == "elf" then showSafe typ (Elf.read maxOff f)
    else if typ == "macho" then showSafe typ (Macho.read maxOff f)
    else "bad-fmt"
  | _ => "bad-op"

end Driver.Safe
