import NakenVerif.Safe.CFile
import NakenVerif.Safe.Uf2
import NakenVerif.Safe.TiTxt
import NakenVerif.Safe.Amiga
import NakenVerif.Safe.Elf
import NakenVerif.Safe.Macho
import NakenVerif.Safe.Sniff
import NakenVerif.Safe.Cmd
import NakenVerif.Generated.UtilTable
import NakenVerif.Generated.UtilCommands
import NakenVerif.Generated.Limits
import Driver.FileIO
/-
C17 driver: `srd <fmt|auto> <ext|-> <file hex> <start hex> <maxoff hex>`
  -> `ret=<n> type=<name> low=<hex> high=<hex> nz=<addr:hexbytes;...> syms=<hexname=value,...>` | `fault <kind>`
-/
namespace Driver.Safe
open NakenVerif.Safe NakenVerif.FileIO Driver.FileIO

def parseBytesArr (s : String) : Array UInt8 :=
  if s == "-" then #[] else (parseHexBytes s.toList).toArray

/-- `Symbols::append` keeps the first definition of a name -/
def dedupe (syms : List (List UInt8 × Nat)) : List (List UInt8 × Nat) :=
  -- Symbols::append refuses a name that is already there and (reachable since read_elf's name[256], fix C03-14) one of
  -- more than 254 characters
  syms.foldl (fun acc s => if s.1.length + 1 > 255 ∨ acc.any (fun t => t.1 == s.1) then acc else acc ++ [s]) []

def showSyms (syms : List (List UInt8 × Nat)) : String :=
  let l := dedupe syms.reverse
  if l.isEmpty then "-" else
  ",".intercalate (l.map (fun (n, v) => toHexString n ++ "=" ++ natHex v))

def showOut (typ : String) (ret : Int) (writes : List (Nat × UInt8)) (low high : Nat) (syms : List (List UInt8 × Nat)) : String :=
  "ret=" ++ toString (if ret ≥ 0 then 0 else ret) ++ " type=" ++ typ ++ " low=" ++ natHex low ++ " high=" ++ natHex high ++
    " nz=" ++ dumpNonZero writes ++ " syms=" ++ showSyms syms

def showSafe (typ : String) (r : Except Fault Loaded) : String :=
  match r with
  | .error e => "fault " ++ e.name
  | .ok l => showOut typ l.ret l.mem.writes.reverse l.mem.low l.mem.high l.syms

def handleSrd (args : List String) : String :=
  match args with
  | fmt :: ext :: file :: start :: maxoff :: _ =>
    let f := parseBytesArr file
    let maxOff := parseHexNat maxoff.toList
    let typ := if fmt == "auto" then (Sniff.getFileType (if ext == "-" then "dat" else ext) f).name else fmt
    let chars := f.toList.map (fun b => Char.ofNat b.toNat)
    if typ == "hex" then
      let r := ReadImpl.readHex chars
      showOut typ r.ret r.writes r.low r.high []
    else if typ == "srec" then
      let r := ReadImpl.readSrec chars
      showOut typ r.ret r.writes r.low r.high []
    else if typ == "bin" then
      let (w, lo, hi) := BinImpl.read f.toList (parseHexNat start.toList)
      showOut typ 0 w lo hi []
    else if typ == "wdc" then
      let r := WdcImpl.read f.toList
      showOut typ r.ret r.writes r.low r.high []
    else if typ == "uf2" then showSafe typ (Uf2.read f)
    else if typ == "ti_txt" then showSafe typ (TiTxt.read f)
    else if typ == "amiga" then showSafe typ (Amiga.read f)
    else if typ == "elf" then showSafe typ (Elf.read maxOff f)
    else if typ == "macho" then showSafe typ (Macho.read maxOff f)
    else "bad-fmt"
  | _ => "bad-op"

end Driver.Safe

/-! ### command layer

`snum <hex>`                                   -> `null` | `off=<k> num=<hex>`
`saddr <cpu> <syms> <hex>`                     -> `null addr=<hex>` | `off=<k> addr=<hex>`
`srange <cpu> <syms> <high hex> <hex>`         -> `ret=-1` | `ret=0 start=<hex> end=<hex>`
`swrite <8|16|32> <cpu> <syms> <hex>`          -> `bad-address` | `not-aligned` | `count=<n> first=<hex> nz=<dump>`
`sprint <8|16|32> <cpu> <syms> <high hex> <hex>` -> `none` | `items=<n> lines=<n> first=<hex> last=<hex>`
`swalk <cpu> <cells> <start hex> <end hex>`    -> `r=<min>-<max>,...`
`svalid <command hex> <arg hex>`               -> `ok` | `no-arg` | `need-arg` | `unknown`
syms: `<hexname>=<hexvalue>,...` or `-`.
-/
namespace Driver.Safe
open NakenVerif.Safe NakenVerif.Safe.Cmd NakenVerif.Generated Driver.FileIO

def noCpu : CpuInfo :=
  { name := "", type := 0, bigEndian := false, bytesPerAddress := 1, alignment := 1,
    isDollarHex := false, canTickEndString := false, pass1WriteDisable := false, stringsHaveDots := false,
    stringsHaveSlashes := false, ignoreNumberPostfix := false, numbersDontHaveDots := false, srecSize := 0,
    hasSimulator := false, hasLinker := false, flags := 0 }

def cpuInfo (name : String) : CpuInfo :=
  match cpuList.find? (fun c => c.name == name) with
  | some c => c
  | none => cpuList.headD noCpu

def parseSyms (s : String) : List (List UInt8 × Nat) :=
  if s == "-" then [] else
  (s.splitOn ",").filterMap (fun kv =>
    match kv.splitOn "=" with
    | [k, v] => some (parseHexBytes k.toList, parseHexNat v.toList)
    | _ => none)

def lookupOf (syms : List (List UInt8 × Nat)) (name : List UInt8) : Option Nat :=
  (syms.find? (fun kv => kv.1 == name)).map (·.2)

def cstr (s : String) : Array UInt8 := ((parseBytesArr s).toList.takeWhile (· != 0)).toArray

def fault (e : Fault) : String := "fault " ++ e.name

def handleSnum (args : List String) : String :=
  match args with
  | [h] =>
    match getNum true (cstr h) 0 with
    | .error e => fault e
    | .ok none => "null"
    | .ok (some (i, n)) => "off=" ++ toString i ++ " num=" ++ natHex n
  | _ => "bad-op"

def handleSaddr (args : List String) : String :=
  match args with
  | [cpu, syms, h] =>
    match getAddress true (lookupOf (parseSyms syms)) (cpuInfo cpu).bytesPerAddress (cstr h) 0 with
    | .error e => fault e
    | .ok (none, a) => "null addr=" ++ natHex a
    | .ok (some i, a) => "off=" ++ toString i ++ " addr=" ++ natHex a
  | _ => "bad-op"

def handleSrange (args : List String) : String :=
  match args with
  | [cpu, syms, high, h] =>
    match getRange true (lookupOf (parseSyms syms)) (cpuInfo cpu).bytesPerAddress (parseHexNat high.toList) (cstr h) with
    | .error e => fault e
    | .ok (r, a, b) => if r ≠ 0 then "ret=-1" else "ret=0 start=" ++ natHex a ++ " end=" ++ natHex b
  | _ => "bad-op"

/-- bytes `Memory::write8/16/32` stores for one value -/
def bytesOf (big : Bool) (step : Nat) (a v : Nat) : List (Nat × UInt8) :=
  let le := (List.range step).map (fun k => UInt8.ofNat (v / 256 ^ k % 256))
  let bs := if big then le.reverse else le
  (List.range step).zip bs |>.map (fun (k, b) => ((a + k) % 4294967296, b))

/-- `uint32_t n = address; printf("0x%04x", n / bytes_per_address)` -/
def printedAddr (a bpa : Nat) : Nat := a / bpa

def handleSwrite (args : List String) : String :=
  match args with
  | [w, cpu, syms, h] =>
    let c := cpuInfo cpu
    let step := if w == "8" then 1 else if w == "16" then 2 else 4
    let mask := if w == "8" then 0 else if w == "16" then (c.alignment - 1) &&& 1 else (c.alignment - 1) &&& 3
    match Cmd.write true (lookupOf (parseSyms syms)) c.bytesPerAddress mask step (cstr h) with
    | .error e => fault e
    | .ok .badAddress => "bad-address"
    | .ok .notAligned => "not-aligned"
    | .ok (.wrote count first ws) =>
      "count=" ++ toString count ++ " first=" ++ natHex (printedAddr first c.bytesPerAddress) ++ " nz=" ++
        dumpNonZero (ws.reverse.flatMap (fun (a, v) => bytesOf c.bigEndian step a v))
  | _ => "bad-op"

def handleSprint (args : List String) : String :=
  match args with
  | [w, cpu, syms, high, h] =>
    let c := cpuInfo cpu
    match getRange true (lookupOf (parseSyms syms)) c.bytesPerAddress (parseHexNat high.toList) (cstr h) with
    | .error e => fault e
    | .ok (r, a, b) =>
      if r ≠ 0 then "none" else
      let res :=
        if w == "8" then Cmd.print 20 1 1 15 0 c.bytesPerAddress false a b
        else if w == "16" then Cmd.print 20 2 2 15 ((c.alignment - 1) &&& 1) c.bytesPerAddress true a b
        else Cmd.print 20 4 2 7 ((c.alignment - 1) &&& 3) c.bytesPerAddress true a b
      match res with
      | .error e => fault e
      | .ok none => "none"
      | .ok (some o) =>
        if o.items = 0 then "none" else      -- nothing printed: the harness sees no line
        let ls := o.labels.reverse.map (· / c.bytesPerAddress)
        "items=" ++ toString o.items ++ " lines=" ++ toString ls.length ++ " first=" ++
          (match ls.head? with | some x => natHex x | none => "-") ++ " last=" ++
          (match ls.getLast? with | some x => natHex x | none => "-")
  | _ => "bad-op"

def handleSwalk (args : List String) : String :=
  match args with
  | [cpu, cells, start, stop] =>
    let segs : List (Nat × List UInt8) :=
      if cells == "-" then [] else (cells.splitOn ";").filterMap (fun seg =>
        match seg.splitOn ":" with
        | [a, d] => some (parseHexNat a.toList, parseHexBytes d.toList)
        | _ => none)
    let addrs : List Nat := segs.flatMap (fun (a, d) => (List.range d.length).map (fun k => (a + k) % 4294967296))
    let ps := pageSize
    let pages : List Nat := (addrs.map (· / ps)).eraseDups
    let inUse (n : Nat) : Bool := pages.contains (n / ps)
    let pageMin (a : Nat) : Nat := (addrs.filter (fun x => x / ps == a / ps)).foldl Nat.min (if pages.contains (a / ps) then a / ps * ps + ps else 0)
    let pageMax (a : Nat) : Nat := (addrs.filter (fun x => x / ps == a / ps)).foldl Nat.max 0
    let s0 := parseHexNat start.toList
    let e0 := parseHexNat stop.toList
    match Cmd.walk inUse ps true s0 e0 with
    | .error e => fault e
    | .ok rs =>
      let out := rs.reverse.map (fun (a, b) => natHex (pageMin (a % 4294967296)) ++ "-" ++ natHex (pageMax (b % 4294967296)))
      "r=" ++ (if out.isEmpty then "-" else ",".intercalate out)
  | _ => "bad-op"

def commandTable : List CommandInfo := utilCommands.map (fun (n, a, o) => { name := n, hasArg := a, isOptional := o })

def handleSvalid (args : List String) : String :=
  match args with
  | [cmd, arg] =>
    let c := String.ofList ((cstr cmd).toList.map (fun b => Char.ofNat b.toNat))
    match isCommandValid commandTable c ((cstr arg).size ≠ 0) with
    | .ok => "ok" | .noArgAllowed => "no-arg" | .argRequired => "need-arg" | .unknown => "unknown"
  | _ => "bad-op"

end Driver.Safe
