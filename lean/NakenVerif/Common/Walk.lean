/-
  CPU-independent model of the range loops of `disasm/*.cpp`

      while (start <= end) { count = disasm_<cpu>(memory, start, ...); print start ...; start = start + count; }

  (`disasm_range_riscv` and most `disasm_range_*`), of the MSP430 shape with continuation lines
  (`disasm_range_msp430_both`), and of the run decomposition done by `UtilContext::disasm(start, end)`.

  `walk` is the loop over natural-number addresses, defined by well-founded recursion (no fuel).  `Machine` is
  the same loop over `uint32_t` addresses, one iteration per `step`, exactly as the C code computes
  (`start + count` wraps modulo 2^32; `count` is a C `int`, so a negative length walks backwards).
-/
namespace NakenVerif.Walk

/-! ## the loop over `Nat` addresses -/

/-- Address column of the loop.  A zero length is where the C loop stops making progress; the model then
    yields the address once and stops (`stuck` tells the two cases apart). -/
def walk (len : Nat → Nat) (start stop : Nat) : List Nat :=
  if start ≤ stop then
    if 0 < len start then start :: walk len (start + len start) stop
    else [start]
  else []
termination_by stop + 1 - start
decreasing_by omega

/-- The printed addresses tile `[start, stop]`: inductive description of what the loop produces. -/
inductive Tiles (len : Nat → Nat) (stop : Nat) : Nat → List Nat → Prop
  | done {s : Nat} : stop < s → Tiles len stop s []
  | step {s : Nat} {ps : List Nat} : s ≤ stop → 0 < len s → Tiles len stop (s + len s) ps → Tiles len stop s (s :: ps)

theorem walk_isTiles (len : Nat → Nat) (hlen : ∀ a, 1 ≤ len a) (stop : Nat) :
    ∀ (n start : Nat), stop + 1 - start = n → Tiles len stop start (walk len start stop) := by
  intro n
  induction n using Nat.strongRecOn with
  | _ n ih =>
    intro start hn
    unfold walk
    by_cases h : start ≤ stop
    · have hl := hlen start
      simp only [h, if_true, show 0 < len start from hl]
      exact Tiles.step h hl (ih (stop + 1 - (start + len start)) (by omega) _ rfl)
    · simp only [h, if_false]
      exact Tiles.done (by omega)

theorem Tiles.ge {len stop s ps} (t : Tiles len stop s ps) : ∀ a ∈ ps, s ≤ a := by
  induction t with
  | done _ => intro a h; cases h
  | step _ hl _ ih =>
    intro a h
    cases h with
    | head => exact Nat.le_refl _
    | tail _ h => have := ih a h; omega

theorem Tiles.le_stop {len stop s ps} (t : Tiles len stop s ps) : ∀ a ∈ ps, a ≤ stop := by
  induction t with
  | done _ => intro a h; cases h
  | step hs _ _ ih =>
    intro a h
    cases h with
    | head => exact hs
    | tail _ h => exact ih a h

theorem Tiles.head {len stop s ps} (t : Tiles len stop s ps) (h : s ≤ stop) : ps.head? = some s := by
  cases t with
  | done h' => omega
  | step _ _ _ => rfl

/-- consecutive printed addresses differ by the length of the earlier instruction -/
theorem Tiles.consecutive {len stop s ps} (t : Tiles len stop s ps) :
    ∀ i (h : i + 1 < ps.length), ps[i + 1] = ps[i] + len ps[i] := by
  induction t with
  | done _ => intro i h; simp at h
  | @step s ps hs hl t' ih =>
    intro i h
    cases i with
    | zero =>
      cases t' with
      | done _ => simp at h
      | step _ _ _ => simp
    | succ j =>
      have := ih j (by simpa using h)
      simpa using this

theorem Tiles.increasing {len stop s ps} (t : Tiles len stop s ps) : ps.Pairwise (· < ·) := by
  induction t with
  | done _ => exact List.Pairwise.nil
  | @step s ps hs hl t' ih =>
    refine List.Pairwise.cons ?_ ih
    intro a ha
    have := t'.ge a ha
    omega

/-- every unit of `[s, stop]` lies in exactly one printed instruction -/
theorem Tiles.covers {len stop s ps} (t : Tiles len stop s ps) :
    ∀ u, s ≤ u → u ≤ stop → ∃ a, (a ∈ ps ∧ a ≤ u ∧ u < a + len a) ∧
      ∀ b, (b ∈ ps ∧ b ≤ u ∧ u < b + len b) → b = a := by
  induction t with
  | done h => intro u h1 h2; omega
  | @step s ps hs hl t' ih =>
    intro u h1 h2
    by_cases hu : u < s + len s
    · refine ⟨s, ⟨List.mem_cons_self, h1, hu⟩, ?_⟩
      intro b ⟨hb, hb1, hb2⟩
      cases hb with
      | head => rfl
      | tail _ hb => have := t'.ge b hb; omega
    · obtain ⟨a, ⟨ha, ha1, ha2⟩, huniq⟩ := ih u (by omega) h2
      refine ⟨a, ⟨List.mem_cons_of_mem _ ha, ha1, ha2⟩, ?_⟩
      intro b ⟨hb, hb1, hb2⟩
      cases hb with
      | head => omega
      | tail _ hb => exact huniq b ⟨hb, hb1, hb2⟩

/-- the last printed instruction contains `stop`: the walk reaches the end of the range -/
theorem Tiles.last {len stop s ps} (t : Tiles len stop s ps) (h : s ≤ stop) :
    ∃ l, ps.getLast? = some l ∧ l ≤ stop ∧ stop < l + len l := by
  induction t with
  | done h' => omega
  | @step s ps hs hl t' ih =>
    by_cases hn : s + len s ≤ stop
    · obtain ⟨l, h1, h2, h3⟩ := ih hn
      refine ⟨l, ?_, h2, h3⟩
      cases ps with
      | nil => simp at h1
      | cons p ps => simpa [List.getLast?_cons_cons] using h1
    · cases t' with
      | done _ => exact ⟨s, rfl, hs, by omega⟩
      | step h' _ _ => omega

theorem Tiles.length_le {len stop s ps} (t : Tiles len stop s ps) : ps.length ≤ stop + 1 - s := by
  induction t with
  | done _ => simp
  | @step s ps hs hl t' ih => simp only [List.length_cons]; omega

/-- **Tiling theorem** for the common loop shape.  If every length is at least one unit then, for any range,
    the printed address column starts at `start`, is strictly increasing, consecutive entries differ by the
    length of the earlier instruction, no printed address lies after `stop`, the last instruction contains
    `stop`, every unit of the range lies in exactly one printed instruction, and at most `stop - start + 1`
    lines are printed (the well-founded definition of `walk` is the termination argument).
    The upper bound `L` and `stop + L < 2^32` are what makes the `uint32_t` loop equal to this one
    (`machine_eq_walk`). -/
theorem walk_tiles (len : Nat → Nat) (hlen : ∀ a, 1 ≤ len a) (start stop : Nat) (h : start ≤ stop) :
    let ps := walk len start stop
    ps.head? = some start ∧
    ps.Pairwise (· < ·) ∧
    (∀ i (hi : i + 1 < ps.length), ps[i + 1] = ps[i] + len ps[i]) ∧
    (∀ a ∈ ps, start ≤ a ∧ a ≤ stop) ∧
    (∃ l, ps.getLast? = some l ∧ l ≤ stop ∧ stop < l + len l) ∧
    (∀ u, start ≤ u → u ≤ stop → ∃ a, (a ∈ ps ∧ a ≤ u ∧ u < a + len a) ∧
        ∀ b, (b ∈ ps ∧ b ≤ u ∧ u < b + len b) → b = a) ∧
    ps.length ≤ stop - start + 1 := by
  have t := walk_isTiles len hlen stop _ start rfl
  refine ⟨t.head h, t.increasing, t.consecutive, fun a ha => ⟨t.ge a ha, t.le_stop a ha⟩, t.last h, t.covers, ?_⟩
  have := t.length_le
  omega

/-- an empty range prints nothing -/
theorem walk_empty (len : Nat → Nat) (start stop : Nat) (h : stop < start) : walk len start stop = [] := by
  unfold walk
  simp [show ¬ start ≤ stop by omega]

/-! ## the loop as the C code runs it: `uint32_t start, end; int count` -/

structure Machine where
  start : BitVec 32
  printed : List (BitVec 32)     -- address column so far, oldest first
  deriving Repr, DecidableEq

/-- one iteration of `while (start <= end) { count = len(start); print start; start = start + count; }`;
    `none` when the loop condition is false.  `count` is a C `int` converted to `uint32_t` by the addition. -/
def step (len : BitVec 32 → BitVec 32) (stop : BitVec 32) (m : Machine) : Option Machine :=
  if m.start ≤ stop then some { start := m.start + len m.start, printed := m.printed ++ [m.start] } else none

/-- at most `fuel` iterations; `(state, true)` when the loop ended by itself -/
def run (len : BitVec 32 → BitVec 32) (stop : BitVec 32) : Nat → Machine → Machine × Bool
  | 0, m => (m, (step len stop m).isNone)
  | fuel + 1, m =>
    match step len stop m with
    | none => (m, true)
    | some m' => run len stop fuel m'

/-- The `uint32_t` loop equals the `Nat` loop when no address can wrap: every length is between 1 and `L`
    units and `stop + L < 2^32`.  It ends by itself within `stop - start + 1` iterations. -/
theorem machine_eq_walk (len : BitVec 32 → BitVec 32) (L : Nat)
    (hlen : ∀ a, 1 ≤ (len a).toNat ∧ (len a).toNat ≤ L) (stop : BitVec 32) (hL : stop.toNat + L < 2 ^ 32) :
    ∀ (n : Nat) (m : Machine), stop.toNat + 1 - m.start.toNat ≤ n → m.start.toNat ≤ stop.toNat + L →
      ∃ m', run len stop n m = (m', true) ∧
        m'.printed.map BitVec.toNat =
          m.printed.map BitVec.toNat ++
            walk (fun a => (len (BitVec.ofNat 32 a)).toNat) m.start.toNat stop.toNat := by
  intro n
  induction n with
  | zero =>
    intro m h1 _
    have hgt : ¬ m.start ≤ stop := by rw [BitVec.le_def]; omega
    refine ⟨m, ?_, ?_⟩
    · simp [run, step, hgt]
    · rw [walk_empty _ _ _ (by omega)]; simp
  | succ n ih =>
    intro m h1 h2
    by_cases hle : m.start ≤ stop
    · have hle' : m.start.toNat ≤ stop.toNat := by rwa [BitVec.le_def] at hle
      have hl := hlen m.start
      have hadd : (m.start + len m.start).toNat = m.start.toNat + (len m.start).toNat := by
        rw [BitVec.toNat_add]; omega
      obtain ⟨m', hr, hp⟩ := ih { start := m.start + len m.start, printed := m.printed ++ [m.start] }
        (by simp only [hadd]; omega) (by simp only [hadd]; omega)
      refine ⟨m', ?_, ?_⟩
      · simp only [run, step, hle, if_true]; exact hr
      · rw [hp]
        conv => rhs; rw [walk]
        have hof : BitVec.ofNat 32 m.start.toNat = m.start := by simp
        simp only [hle', if_true, hof, show 0 < (len m.start).toNat from hl.1, hadd, List.map_append,
          List.map_cons, List.map_nil, List.append_assoc, List.cons_append, List.nil_append]
    · have hgt : stop.toNat < m.start.toNat := by rw [BitVec.le_def] at hle; omega
      refine ⟨m, ?_, ?_⟩
      · simp [run, step, hle]
      · rw [walk_empty _ _ _ hgt]; simp

/-- Termination with a bound: under the hypotheses of `machine_eq_walk` the C loop started at `start ≤ stop`
    ends by itself after at most `stop - start + 1` iterations and prints that many lines at most. -/
theorem walk_terminates_bound (len : BitVec 32 → BitVec 32) (L : Nat)
    (hlen : ∀ a, 1 ≤ (len a).toNat ∧ (len a).toNat ≤ L) (start stop : BitVec 32) (hL : stop.toNat + L < 2 ^ 32)
    (h : start ≤ stop) :
    ∃ m', run len stop (stop.toNat - start.toNat + 1) { start := start, printed := [] } = (m', true) ∧
      m'.printed.map BitVec.toNat = walk (fun a => (len (BitVec.ofNat 32 a)).toNat) start.toNat stop.toNat ∧
      m'.printed.length ≤ stop.toNat - start.toNat + 1 := by
  have hle : start.toNat ≤ stop.toNat := by rwa [BitVec.le_def] at h
  obtain ⟨m', h1, h2⟩ := machine_eq_walk len L hlen stop hL (stop.toNat - start.toNat + 1)
    { start := start, printed := [] } (by simp only; omega) (by simp only; omega)
  refine ⟨m', h1, by simpa using h2, ?_⟩
  have hlen' : ∀ a, 1 ≤ (fun a => (len (BitVec.ofNat 32 a)).toNat) a := fun a => (hlen _).1
  have := (walk_tiles _ hlen' start.toNat stop.toNat hle).2.2.2.2.2.2
  have e : m'.printed.length = (m'.printed.map BitVec.toNat).length := by simp
  rw [e, h2]
  simpa using this

/-! ## why a length of 0 or -1 breaks the tiling (the defect fixed in `disasm_riscv`: `return -1` for an
    unknown word) -/

/-- length 0: the loop prints the same address for ever — after any number of iterations it still is at
    `start` and has not ended. -/
theorem walk_zero_len_counterexample (k : Nat) :
    run (fun _ => 0#32) 0x100f#32 k { start := 0x1004#32, printed := [] } =
      ({ start := 0x1004#32, printed := List.replicate k 0x1004#32 }, false) := by
  have : ∀ k pre, run (fun _ => 0#32) 0x100f#32 k { start := 0x1004#32, printed := pre } =
      ({ start := 0x1004#32, printed := pre ++ List.replicate k 0x1004#32 }, false) := by
    intro k
    induction k with
    | zero => intro pre; simp [run, step]
    | succ k ih =>
      intro pre
      simp only [run, step]
      rw [if_pos (by decide)]
      simp only [BitVec.add_zero]
      rw [ih]
      simp [List.replicate_succ, List.append_assoc]
  simpa using this k []

/-- length -1 (what `disasm_riscv` returned for an unknown 32-bit word before the fix): the walk moves
    backwards; the range 0x1004..0x100f is left after printing addresses *below* it, its units 0x1005.. are
    never printed.  (Three iterations shown; it goes on down to address 0.) -/
theorem walk_neg_len_counterexample :
    (run (fun _ => 0xffffffff#32) 0x100f#32 3 { start := 0x1004#32, printed := [] }).1 =
      { start := 0x1001#32, printed := [0x1004#32, 0x1003#32, 0x1002#32] } := by
  decide

/-- a range that ends at the top of the address space never fails the loop test: after the last instruction
    of 0xfffffff8..0xffffffff the `uint32_t` address wraps to 0 and the loop goes on outside the range
    (this is why `walk_tiles` is transferred to the C loop only under `stop + L < 2^32`). -/
theorem walk_wrap_counterexample :
    run (fun _ => 4#32) 0xffffffff#32 3 { start := 0xfffffff8#32, printed := [] } =
      ({ start := 0x4#32, printed := [0xfffffff8#32, 0xfffffffc#32, 0x0#32] }, false) := by
  decide

/-! ## MSP430 shape: one line for the instruction, one continuation line per further word -/

/-- `disasm_range_msp430_both` without its vector-table special case: lines are (address, isContinuation).
    `count -= 2; while (count > 0) { start += 2; print; count -= 2; } start += 2;` -/
def contLines (a : Nat) : Nat → List (Nat × Bool)
  | 0 => []
  | k + 1 => (a, true) :: contLines (a + 2) k

def walkCont (words : Nat → Nat) (start stop : Nat) : List (Nat × Bool) :=
  if start ≤ stop then
    if 0 < words start then
      (start, false) :: contLines (start + 2) (words start - 1) ++ walkCont words (start + 2 * words start) stop
    else [(start, false)]
  else []
termination_by stop + 1 - start
decreasing_by omega

/-- addresses `a, a+2, …` (n of them) -/
def evens (a : Nat) : Nat → List Nat
  | 0 => []
  | n + 1 => a :: evens (a + 2) n

theorem contLines_addrs (a k : Nat) : (contLines a k).map Prod.fst = evens a k := by
  induction k generalizing a with
  | zero => rfl
  | succ k ih => simp [contLines, evens, ih]

theorem contLines_heads (a k : Nat) : (contLines a k).filter (fun l => !l.2) = [] := by
  induction k generalizing a with
  | zero => rfl
  | succ k ih => simp [contLines, ih]

theorem evens_append (a m n : Nat) : evens a m ++ evens (a + 2 * m) n = evens a (m + n) := by
  induction m generalizing a with
  | zero => simp [evens]
  | succ m ih =>
    have : a + 2 * (m + 1) = a + 2 + 2 * m := by omega
    simp only [evens, List.cons_append, this, ih, show m + 1 + n = (m + n) + 1 by omega]

/-- **MSP430 shape**: when every instruction is `words a ≥ 1` two-byte words long, the instruction lines are
    exactly the addresses of the plain loop with `len a = 2 * words a`, and all lines together list every
    word address `start, start+2, start+4, …` once, in order, without gap, up to the end of the last
    instruction. -/
theorem walkCont_tiles (words : Nat → Nat) (hw : ∀ a, 1 ≤ words a) (stop : Nat) :
    ∀ (n start : Nat), stop + 1 - start = n →
      ((walkCont words start stop).filter (fun l => !l.2)).map Prod.fst = walk (fun a => 2 * words a) start stop ∧
      ∃ k, (walkCont words start stop).map Prod.fst = evens start k ∧
        (start ≤ stop → stop < start + 2 * k) := by
  intro n
  induction n using Nat.strongRecOn with
  | _ n ih =>
    intro start hn
    unfold walkCont walk
    by_cases h : start ≤ stop
    · have h1 := hw start
      obtain ⟨e1, k, e2, e3⟩ := ih (stop + 1 - (start + 2 * words start)) (by omega) (start + 2 * words start) rfl
      simp only [h, if_true, show 0 < words start from h1, show 0 < 2 * words start by omega]
      constructor
      · simp [List.filter_append, contLines_heads, e1]
      · refine ⟨1 + (words start - 1) + k, ?_, ?_⟩
        · simp only [List.map_cons, List.map_append, contLines_addrs, e2, List.cons_append]
          have : start + 2 * words start = start + 2 + 2 * (words start - 1) := by omega
          rw [this, evens_append]
          have : 1 + (words start - 1) + k = (words start - 1 + k) + 1 := by omega
          rw [this]; rfl
        · intro _
          by_cases h2 : start + 2 * words start ≤ stop
          · have := e3 h2; omega
          · omega
    · simp only [h, if_false]
      refine ⟨by simp, 0, by simp [evens], ?_⟩
      intro h'
      first | exact absurd h' h | exact h'.elim

end NakenVerif.Walk
