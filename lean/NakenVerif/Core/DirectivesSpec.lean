/-
Documented meaning of the data / location directives (docs/directives.md, docs/literals.md and the statement of C05),
independent of the code: a location counter in bytes (a natural number), values as integers.

* `.org a`          the counter becomes `a * bytes_per_address`
* `.db` ...         each value in -128..255 gives one byte (value mod 256), anything else is an error; a string gives its
                    characters with the escapes \n \r \t \" \\ \' \0 replaced; `.asciiz` adds a 0 byte
* `.dw`             each value in -32768..65535 gives two bytes in the selected byte order, anything else is an error
* `.dl` / `.dq`     the value modulo 2^32 / 2^64 in the selected byte order
* `.resb n`/`.resw n`  the counter advances by n / 2n, nothing is stored
* `.align_bytes n`, `.align 8n`  the counter advances to the next multiple of n, nothing is stored
* `.data_fill v, n` n copies of the byte v
* `.binfile`        the bytes of the file
* `.big_endian`/`.little_endian` select the byte order
* `name:` and `$`   the counter divided by bytes_per_address

Bytes go to the counter's address, one after the other ("nothing else is written").
Whatever the documents leave open (counter beyond the address space, negative reservations, alignments that are not
powers of two, escapes outside the list) is `unspecified`: no claim is made about it.
-/
import NakenVerif.Core.DirectivesImpl

namespace NakenVerif.Core.Directives.Spec
open NakenVerif.Core.Directives

abbrev Byte := BitVec 8

structure State where
  /-- byte address of the next byte to be placed -/
  loc : Nat
  big : Bool
  cells : Nat → Option Byte
  syms : List (String × Nat)

inductive Outcome (α : Type) where
  | ok (s : α)
  /-- the documents demand an error -/
  | reject
  /-- the documents do not say -/
  | unspecified

/-- place bytes at the counter -/
def emit (s : State) (bs : List Byte) : State :=
  { s with
    cells := fun x => if s.loc ≤ x ∧ x < s.loc + bs.length then bs[x - s.loc]? else s.cells x
    loc := s.loc + bs.length }

/-- value of `$` and of a label defined here -/
def here (bpa : Nat) (s : State) : Nat := s.loc / bpa

def find (syms : List (String × Nat)) (n : String) : Option Nat :=
  (syms.find? (fun e => e.1 == n)).map (·.2)

/-- value of an operand: an integer; an unknown name is an error; `$` has a value while the counter is an address -/
def value (bpa : Nat) (s : State) : Operand → Outcome Int
  | .lit v => .ok v.toInt
  | .dollar => if s.loc < 4294967296 then .ok (here bpa s) else .unspecified
  | .sym n => match find s.syms n with
    | some a => .ok a
    | none => .reject

/-- continue with the value of an operand -/
def withValue (bpa : Nat) (s : State) (o : Operand) (f : Int → Outcome State) : Outcome State :=
  match value bpa s o with
  | .ok v => f v
  | .reject => .reject
  | .unspecified => .unspecified

/-- little- or big-endian bytes of the low `n` bytes of an integer -/
def word (big : Bool) (n : Nat) (v : Int) : List Byte :=
  let w := BitVec.ofInt (8 * n) v          -- the value modulo 2^(8n)
  let le := (List.range n).map fun i => w.extractLsb' (8 * i) 8
  if big then le.reverse else le

/-- conventional meaning of the text between the quotes; `none`: an escape outside the documented list -/
def unescape : List Byte → Option (List Byte)
  | [] => some []
  | [c] => if c = 0x5c then none else some [c]
  | c :: e :: rest =>
    if c = 0x5c then
      let x : Option Byte :=
        if e = 0x6e then some 0x0a else if e = 0x72 then some 0x0d else if e = 0x74 then some 0x09
        else if e = 0x22 then some 0x22 else if e = 0x5c then some 0x5c else if e = 0x27 then some 0x27
        else if e = 0x30 then some 0x00 else none
      match x, unescape rest with
      | some b, some r => some (b :: r)
      | _, _ => none
    else (unescape (e :: rest)).map (c :: ·)
termination_by l => l.length

def isPow2 (n : Nat) : Bool := n ≠ 0 && (n &&& (n - 1)) == 0

/-- one `.db` item -/
def dbItem (bpa : Nat) (asciiz : Bool) (s : State) : Item → Outcome State
  | .num o => withValue bpa s o fun v =>
      if -128 ≤ v ∧ v ≤ 255 then .ok (emit s [BitVec.ofInt 8 v]) else .reject
  | .str raw =>
    match unescape raw with
    | none => .unspecified
    | some bs => .ok (emit s (if asciiz then bs ++ [0] else bs))

def dc16Item (bpa : Nat) (s : State) (o : Operand) : Outcome State :=
  withValue bpa s o fun v =>
    if -32768 ≤ v ∧ v ≤ 65535 then .ok (emit s (word s.big 2 v)) else .reject

def dcWide (n : Nat) (bpa : Nat) (s : State) (o : Operand) : Outcome State :=
  withValue bpa s o fun v => .ok (emit s (word s.big n v))

def foldOutcome {α : Type} (f : State → α → Outcome State) (s : State) : List α → Outcome State
  | [] => .ok s
  | x :: xs => match f s x with
    | .ok s' => foldOutcome f s' xs
    | .reject => .reject
    | .unspecified => .unspecified

/-- the next multiple of `n` (a power of two up to 1024; anything else is not specified) -/
def align (s : State) (n : Int) : Outcome State :=
  if 1 ≤ n ∧ n ≤ 1024 ∧ isPow2 n.toNat then .ok { s with loc := (s.loc + n.toNat - 1) / n.toNat * n.toNat }
  else .unspecified

/-- `define`: first reading of the source (labels get their value); otherwise the labels are already known -/
def step (bpa : Nat) (define : Bool) (s : State) : Directive → Outcome State
  | .org o => withValue bpa s o fun v =>
      if 0 ≤ v ∧ v * bpa < 4294967296 then .ok { s with loc := v.toNat * bpa } else .unspecified
  | .db z items => foldOutcome (dbItem bpa z) s items
  | .dc16 os => foldOutcome (dc16Item bpa) s os
  | .dc32 os => foldOutcome (dcWide 4 bpa) s os
  | .dc64 os => foldOutcome (dcWide 8 bpa) s os
  | .resb o => withValue bpa s o fun v =>
      if 0 ≤ v ∧ v ≤ 4294967295 then .ok { s with loc := s.loc + v.toNat } else .unspecified
  | .resw o => withValue bpa s o fun v =>
      if 0 ≤ v ∧ v ≤ 4294967295 then .ok { s with loc := s.loc + 2 * v.toNat } else .unspecified
  | .alignBits o => withValue bpa s o fun v => if v % 8 = 0 then align s (v / 8) else .unspecified
  | .alignBytes o => withValue bpa s o fun v => align s v
  | .dataFill vo no => withValue bpa s vo fun v => withValue bpa s no fun n =>
      if -128 ≤ v ∧ v ≤ 255 ∧ 1 ≤ n ∧ n ≤ 2147483647 then .ok (emit s (List.replicate n.toNat (BitVec.ofInt 8 v)))
      else .unspecified
  | .binfile content => .ok (emit s content)
  | .bigEndian => .ok { s with big := true }
  | .littleEndian => .ok { s with big := false }
  | .label name =>
    if define then
      if (find s.syms name).isSome then .reject
      else if s.loc < 4294967296 then .ok { s with syms := s.syms ++ [(name, here bpa s)] }
      else .unspecified
    else .ok s

/-- the whole program; the image is defined as long as the counter stays inside the 32-bit address space
(it may end exactly at 2^32) -/
def place (bpa : Nat) (define : Bool) (s : State) : List Directive → Outcome State
  | [] => .ok s
  | d :: ds =>
    match step bpa define s d with
    | .ok s' => if s'.loc ≤ 4294967296 then place bpa define s' ds else .unspecified
    | .reject => .reject
    | .unspecified => .unspecified

end NakenVerif.Core.Directives.Spec
