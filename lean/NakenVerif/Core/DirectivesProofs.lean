/-
Lemmas about the directive model.
-/
import NakenVerif.Memory.Proofs
import NakenVerif.Core.DirectivesImpl
import NakenVerif.Core.DirectivesSpec

namespace NakenVerif.Core.Directives
open NakenVerif.Memory

/-! ### the alignment loop -/

theorem alignLoop_some (mask : BitVec 32) : ∀ (fuel : Nat) (a : BitVec 32),
    (4294967296 - a.toNat) % 4294967296 < fuel → ∃ r, alignLoop fuel a mask = some r := by
  intro fuel
  induction fuel with
  | zero => intro a h; omega
  | succ n ih =>
    intro a h
    unfold alignLoop
    by_cases hz : a &&& mask = 0
    · exact ⟨a, by simp [hz]⟩
    · simp only [hz, if_false]
      apply ih
      have ha : a ≠ 0 := by intro e; subst e; simp at hz
      have : a.toNat ≠ 0 := by intro e; apply ha; exact BitVec.eq_of_toNat_eq (by simpa using e)
      have hlt := a.isLt
      rw [BitVec.toNat_add]
      simp
      omega

theorem alignLoop_aligned (mask : BitVec 32) : ∀ (fuel : Nat) (a r : BitVec 32), alignLoop fuel a mask = some r →
    r &&& mask = 0 := by
  intro fuel
  induction fuel with
  | zero => intro a r h; simp [alignLoop] at h
  | succ n ih =>
    intro a r h
    unfold alignLoop at h
    by_cases hz : a &&& mask = 0
    · simp only [hz, if_true, Option.some.injEq] at h; subst h; exact hz
    · simp only [hz, if_false] at h; exact ih _ _ h

/-- the loop of `parse_align` ends for every start address and every mask (within 2^32 iterations) -/
theorem alignLoop_terminates (a mask : BitVec 32) : ∃ r, alignLoop alignFuel a mask = some r := by
  apply alignLoop_some
  have := a.isLt
  unfold alignFuel
  omega

/-! ### writeBytes -/

@[simp] theorem writeInc_address (st : St) (d : Byte) : (writeInc st d).address = st.address + 1 := rfl
@[simp] theorem writeInc_bpa (st : St) (d : Byte) : (writeInc st d).bpa = st.bpa := rfl
@[simp] theorem writeInc_pass (st : St) (d : Byte) : (writeInc st d).pass = st.pass := rfl
@[simp] theorem writeInc_symbols (st : St) (d : Byte) : (writeInc st d).symbols = st.symbols := rfl
@[simp] theorem writeInc_memory (st : St) (d : Byte) :
    (writeInc st d).memory = write st.memory st.address d dlData := rfl

theorem writeBytes_nil (st : St) : writeBytes st [] = st := rfl
theorem writeBytes_cons (st : St) (b : Byte) (bs : List Byte) :
    writeBytes st (b :: bs) = writeBytes (writeInc st b) bs := rfl

theorem writeBytes_address (bs : List Byte) : ∀ st : St,
    (writeBytes st bs).address = st.address + BitVec.ofNat 32 bs.length := by
  induction bs with
  | nil => intro st; simp [writeBytes_nil]
  | cons b bs ih =>
    intro st
    rw [writeBytes_cons, ih, writeInc_address]
    simp only [List.length_cons]
    apply BitVec.eq_of_toNat_eq
    have h1 : (1 : BitVec 32).toNat = 1 := rfl
    simp only [BitVec.toNat_add, BitVec.toNat_ofNat, h1]
    omega

theorem writeBytes_keeps (bs : List Byte) : ∀ st : St,
    (writeBytes st bs).bpa = st.bpa ∧ (writeBytes st bs).pass = st.pass ∧ (writeBytes st bs).symbols = st.symbols ∧
    (writeBytes st bs).memory.bigEndian = st.memory.bigEndian := by
  induction bs with
  | nil => intro st; exact ⟨rfl, rfl, rfl, rfl⟩
  | cons b bs ih =>
    intro st
    rw [writeBytes_cons]
    obtain ⟨h1, h2, h3, h4⟩ := ih (writeInc st b)
    exact ⟨h1, h2, h3, by rw [h4]; simp⟩

theorem emit_cons_cells (s : Spec.State) (b : Byte) (bs : List Byte) (x : Nat) :
    (Spec.emit (Spec.emit s [b]) bs).cells x = (Spec.emit s (b :: bs)).cells x := by
  simp only [Spec.emit, List.length_cons, List.length_nil, Nat.zero_add]
  by_cases c1 : s.loc + 1 ≤ x ∧ x < s.loc + 1 + bs.length
  · have c2 : s.loc ≤ x ∧ x < s.loc + (bs.length + 1) := by omega
    simp only [c1, c2, and_self, if_true]
    have : x - s.loc = (x - (s.loc + 1)) + 1 := by omega
    rw [this, List.getElem?_cons_succ]
  · by_cases c3 : s.loc ≤ x ∧ x < s.loc + 1
    · have c2 : s.loc ≤ x ∧ x < s.loc + (bs.length + 1) := by omega
      simp only [c1, c3, c2, and_self, if_true, if_false]
      have : x - s.loc = 0 := by omega
      rw [this]; rfl
    · have c2 : ¬ (s.loc ≤ x ∧ x < s.loc + (bs.length + 1)) := by omega
      simp only [c1, c3, c2, if_false]

/-- the refinement relation between the model state and the documented state: same counter, same image -/
structure Rel (st : St) (s : Spec.State) : Prop where
  addr : st.address.toNat = s.loc % 4294967296
  cells : ∀ a : BitVec 32, abs st.memory a = s.cells a.toNat

/-- **placing bytes**: `memory_write_inc` over a byte list stores exactly those bytes at the counter's addresses, one
after the other, and nothing else, as long as the bytes end inside the address space -/
theorem writeBytes_refines (bs : List Byte) : ∀ (st : St) (s : Spec.State), Rel st s →
    s.loc + bs.length ≤ 4294967296 → Rel (writeBytes st bs) (Spec.emit s bs) := by
  induction bs with
  | nil =>
    intro st s h _
    refine ⟨?_, fun a => ?_⟩
    · simpa [writeBytes_nil, Spec.emit] using h.addr
    · have := h.cells a
      simp only [writeBytes_nil, Spec.emit, List.length_nil, Nat.add_zero]
      rw [this]
      split
      · omega
      · rfl
  | cons b bs ih =>
    intro st s h hlen
    simp only [List.length_cons] at hlen
    have hloc : s.loc < 4294967296 := by omega
    have haddr : st.address.toNat = s.loc := by rw [h.addr]; omega
    have h1 : Rel (writeInc st b) (Spec.emit s [b]) := by
      refine ⟨?_, fun a => ?_⟩
      · simp only [writeInc_address, BitVec.toNat_add, Spec.emit, List.length_cons, List.length_nil]
        rw [haddr]; simp
      · simp only [writeInc_memory, abs_write, Spec.emit, List.length_cons, List.length_nil]
        by_cases e : a = st.address
        · subst e
          simp [haddr]
        · have : a.toNat ≠ s.loc := by
            intro c; apply e; apply BitVec.eq_of_toNat_eq; rw [c, haddr]
          rw [if_neg e, h.cells a]
          split
          · omega
          · rfl
    have h2 := ih (writeInc st b) (Spec.emit s [b]) h1 (by simp [Spec.emit]; omega)
    rw [writeBytes_cons]
    refine ⟨?_, fun a => ?_⟩
    · rw [h2.addr]; simp [Spec.emit]; omega
    · rw [h2.cells a, emit_cons_cells]

/-! ### values -/

theorem narrow_toInt (v : BitVec 64) (h1 : -2147483648 ≤ v.toInt) (h2 : v.toInt < 2147483648) :
    (narrow v).toInt = v.toInt := by
  unfold narrow
  rw [BitVec.toInt_eq_toNat_cond, BitVec.toInt_eq_toNat_cond] at *
  simp only [BitVec.toNat_setWidth]
  have := v.isLt
  split at h1 <;> split <;> omega

theorem evalInt_lit (st : St) (v : BitVec 64) (h1 : -2147483648 ≤ v.toInt) (h2 : v.toInt ≤ 4294967295) :
    evalInt st (.lit v) = some (narrow v) := by
  simp only [evalInt, evalOperand]
  rw [if_neg]; omega

theorem ofInt_toInt_setWidth32 (v : BitVec 64) : BitVec.ofInt 32 v.toInt = v.setWidth 32 := by
  apply BitVec.eq_of_toNat_eq
  rw [BitVec.toNat_ofInt, BitVec.toNat_setWidth, BitVec.toInt_eq_toNat_cond]
  have := v.isLt
  split <;> omega

theorem bytes32_word (big : Bool) (v : BitVec 64) : bytes32 big (v.setWidth 32) = Spec.word big 4 v.toInt := by
  have e : BitVec.ofInt (8 * 4) v.toInt = v.setWidth 32 := ofInt_toInt_setWidth32 v
  unfold Spec.word
  simp only [e, List.range, List.range.loop, List.map, bytes32]
  cases big <;> simp <;> refine ⟨?_, ?_, ?_, ?_⟩ <;> bv_decide

theorem bytes64_word (big : Bool) (v : BitVec 64) : bytes64 big v = Spec.word big 8 v.toInt := by
  have e : BitVec.ofInt (8 * 8) v.toInt = v := BitVec.ofInt_toInt
  unfold Spec.word
  simp only [e, List.range, List.range.loop, List.map, bytes64]
  cases big <;> simp <;> refine ⟨?_, ?_, ?_, ?_, ?_, ?_, ?_, ?_⟩ <;> bv_decide

end NakenVerif.Core.Directives
