/-
  Implementation model of the control flow that decides naken_asm's exit status
  and whether an output file exists (property C12):

  * `assembleRet`   — the `while (true)` loop of AsmContext::assemble()
                      (core/AsmContext.cpp) as a function of what each statement
                      handler reported;
  * `ifdefIgnoreRet`, `parseIfRet`, `repeatRet`, `includeRet`
                    — how the directives that re-enter assemble() turn its
                      result into their own (core/directives_if.cpp,
                      core/directives.cpp, core/directives_include.cpp);
  * `mainFlow`      — main() of main/naken_asm.cpp from the first pass to exit().

  The handlers themselves (68 instruction parsers, the directive parsers) are
  parameters: an `Ev` is what the real code reported, as logged by the guarded
  NAKEN_ASM_VERIF trace hook.  The correspondence check replays real traces
  through these functions and compares every `assemble()` return value, the
  unlink decisions and the exit status.
-/
namespace NakenVerif.Core.Driver

/-- What one pass of the statement loop observed. -/
inductive Ev where
  | eol                                   -- TOKEN_EOL
  | eof                                   -- TOKEN_EOF
  | label (ret : Int)                     -- macro-name clash / symbols.append : 0 or -1
  | dir (n : Int)                         -- parse_directives()
  | word (ret : Int) (instr : Option Int) -- directive(token); then parse_instruction() (none: `equ`, or not reached)
  | other                                 -- any other token: "Unexpected token"
  deriving Repr, DecidableEq

/-- one pass of the loop: `error_count` at the loop head and the event -/
structure Step where
  ec : Nat
  ev : Ev
  deriving Repr, DecidableEq

/-- AsmContext::assemble(): result for a list of loop passes; `errFlag` is
    `asm_context->error` when the loop is left by EOF or `end`.
    `none` = the trace ended without the loop having returned (ill-formed trace). -/
def assembleRet : List Step → Bool → Option Int
  | [], _ => none
  | s :: rest, errFlag =>
    if s.ec > 0 then some (-1)
    else match s.ev with
      | .eol => assembleRet rest errFlag
      | .eof => some (if errFlag then -1 else 0)
      | .label r => if r = -1 then some (-1) else assembleRet rest errFlag
      | .dir n =>
          if n = 3 then some 3
          else if n = 4 then some 2
          else if n = 5 then some 5                            -- `.endif` of the branch being assembled
          else if n ≠ 0 then some (-1)
          else assembleRet rest errFlag
      | .word r instr =>
          if r = 2 then some (if errFlag then -1 else 0)      -- `end`
          else if r = -1 then some (-1)
          else if r ≠ 1 then
            match instr with
            | none => assembleRet rest errFlag                -- NAME equ VALUE
            | some i => if i < 0 then some (-1) else assembleRet rest errFlag
          else assembleRet rest errFlag
      | .other => some (-1)

/-! ### The same loop with its three exits made explicit

  `assemble()` can be left in three ways: `return` from inside the loop (a handler failed, `.endr`/`.else`/`.endif`
  closed the block being assembled), `break` at `TOKEN_EOF`, and `break` at the no-dot `end` directive
  (`directive()` returns 2).  Both `break`s reach the code BEHIND the loop, `if (error == true) { return -1; }
  return 0;`, which is the only place where the sticky flag `asm_context->error` is tested.  Handlers that report an
  error without failing their statement rely on it: asm/dspic.cpp ("Unknown instruction" / "Unknown operands combo":
  `error = 1; return 4`) and core/Macros.cpp (a failed macro expansion sets `error = 1` and the lexer hands the
  caller TOKEN_EOF, which a data directive takes for the end of its operand list). -/

/-- what `directive(token)` reported for a word at statement position -/
inductive StmtResult where
  | endDirective          -- 2: the `end` directive
  | failed                -- -1
  | handled               -- 1: a data/org/... directive without a dot, done
  | notDirective          -- anything else: `NAME equ VALUE` or an instruction
  deriving Repr, DecidableEq

def stmtResult (r : Int) : StmtResult :=
  if r = 2 then .endDirective else if r = -1 then .failed else if r ≠ 1 then .notDirective else .handled

/-- what a loop pass does with the loop -/
inductive Act where
  | next                  -- go on with the next statement
  | leave                 -- `break`: the code behind the loop decides
  | ret (n : Int)         -- `return n` from inside the loop
  deriving Repr, DecidableEq

def Step.act (s : Step) : Act :=
  if s.ec > 0 then .ret (-1)
  else match s.ev with
    | .eol => .next
    | .eof => .leave
    | .label r => if r = -1 then .ret (-1) else .next
    | .dir n => if n = 3 then .ret 3 else if n = 4 then .ret 2 else if n = 5 then .ret 5
                else if n ≠ 0 then .ret (-1) else .next
    | .word r instr =>
        match stmtResult r with
        | .endDirective => .leave
        | .failed => .ret (-1)
        | .handled => .next
        | .notDirective =>
            match instr with
            | none => .next
            | some i => if i < 0 then .ret (-1) else .next
    | .other => .ret (-1)

/-- the code behind the loop: `if (error == true) { return -1; } return 0;` -/
def afterLoop (errFlag : Bool) : Int := if errFlag then -1 else 0

/-- AsmContext::assemble() with the exits explicit; equal to `assembleRet` (`assembleRet_eq_loop`) -/
def assembleLoop : List Step → Bool → Option Int
  | [], _ => none
  | s :: rest, errFlag =>
    match s.act with
    | .next => assembleLoop rest errFlag
    | .leave => some (afterLoop errFlag)
    | .ret n => some n

theorem assembleRet_eq_loop (steps : List Step) (e : Bool) : assembleRet steps e = assembleLoop steps e := by
  induction steps with
  | nil => rfl
  | cons s rest ih =>
      obtain ⟨ec, ev⟩ := s
      unfold assembleRet assembleLoop Step.act
      by_cases hec : ec > 0
      · simp only [hec, ↓reduceIte]
      · simp only [hec, ↓reduceIte]
        cases ev with
        | eol => exact ih
        | eof => rfl
        | label r => by_cases h : r = -1 <;> simp [h, ih]
        | dir n =>
            by_cases h3 : n = 3
            · subst h3; rfl
            · by_cases h4 : n = 4
              · subst h4; rfl
              · by_cases h5 : n = 5
                · subst h5; rfl
                · by_cases h0 : n = 0
                  · subst h0; simpa using ih
                  · simp [h3, h4, h5, h0]
        | word r instr =>
            unfold stmtResult
            by_cases h2 : r = 2
            · subst h2; rfl
            · by_cases hm : r = -1
              · subst hm; rfl
              · by_cases h1 : r = 1
                · subst h1; simpa using ih
                · cases instr with
                  | none => simpa [h2, hm, h1] using ih
                  | some i => by_cases hi : i < 0 <;> simp [h2, hm, h1, hi, ih]
        | other => rfl

/-- a loop pass on which nothing was reported -/
def Step.clean (s : Step) : Bool :=
  s.ec = 0 && match s.ev with
    | .eol => true
    | .eof => true
    | .label r => r ≠ -1
    | .dir n => n = 0
    | .word r instr => r = 2 || r = 1 || (r ≠ -1 && match instr with | none => true | some i => 0 ≤ i)
    | .other => false

/-- assemble_branch() of directives_if.cpp: assemble the lines of a taken branch.
    0: closed by `.endif`; 2: ended by `.else`; -1: error (EOF = missing endif, `.endr`, failure). -/
def assembleBranch (nested : Int) : Int :=
  if nested = 5 then 0 else if nested = 2 then 2 else -1

/-- parse_ifdef_ignore(): `skip1`/`skip2` are results of the skip loop ifdef_ignore()
    (-1 missing endif, 0 endif, 2 else), `nested` the result of the nested assemble(). -/
def ifdefIgnoreRet (ignoreSection : Bool) (skip1 : Int) (nested : Int) (skip2 : Int) : Int :=
  if ignoreSection then
    if skip1 ≠ 2 then skip1
    else
      let n := assembleBranch nested
      if n = 2 then -1 else n                       -- a second `.else`
  else
    let n := assembleBranch nested
    if n ≠ 2 then n
    else if skip2 = 2 then -1 else skip2            -- a second `.else`

/-- parse_if(): condition value -1 is an error -/
def parseIfRet (cond : Int) (skip1 nested skip2 : Int) : Int :=
  if cond = -1 then -1
  else if ifdefIgnoreRet (cond = 0) skip1 nested skip2 ≠ 0 then -1 else 0

/-- parse_repeat(): the nested assemble() must end with `.endr` (3) -/
def repeatRet (countOk : Bool) (nested : Int) : Int :=
  if !countOk then -1 else if nested ≠ 3 then -1 else 0

/-- include_parse() followed by the test in parse_directives -/
def includeDirRet (opened : Bool) (nested : Int) : Int :=
  if !opened then -1 else if nested ≠ 0 then -1 else 0

/-- what main() saw -/
structure MainObs where
  pass1 : Int          -- assemble() of pass 1
  link1ok : Bool       -- link() == 0 after pass 1 (true when nothing is linked)
  pass2 : Int
  link2ok : Bool
  write : Int          -- file_write(): -1 = the output file could not be opened
  deriving Repr, DecidableEq

structure Outcome where
  status : Nat               -- exit status
  ranPass2 : Bool
  wroteFile : Bool           -- file_write() was reached and opened the output file
  unlinked : Bool            -- unlink(outfile) was called after the last write attempt
  deriving Repr, DecidableEq

/-- main() of naken_asm.cpp from `error_flag = asm_context.assemble()` to the end -/
def mainFlow (o : MainObs) : Outcome :=
  let ef1 : Int := if o.pass1 = 0 ∧ !o.link1ok then 1 else o.pass1
  if ef1 ≠ 0 then
    { status := 1, ranPass2 := false, wroteFile := false, unlinked := true }
  else if o.pass2 ≠ 0 then
    { status := 1, ranPass2 := true, wroteFile := false, unlinked := true }
  else if !o.link2ok then
    { status := 1, ranPass2 := true, wroteFile := false, unlinked := true }
  else if o.write = -1 then
    { status := 1, ranPass2 := true, wroteFile := false, unlinked := false }   -- exit(1) right away
  else
    { status := 0, ranPass2 := true, wroteFile := true, unlinked := false }

/-- is there a file at the output path afterwards (`stale`: one existed before the run) -/
def outputPresent (stale : Bool) (r : Outcome) : Bool :=
  if r.unlinked then false else (r.wroteFile || stale)

end NakenVerif.Core.Driver
