/-
  Generic model of the two-pass driver (main() of naken_asm + AsmContext::assemble):
  pass 1 binds every label to the location counter and lets each statement reserve a
  size; pass 2 runs over the same statements with the symbol table locked
  (Symbols::append enters nothing; it compares the label's recorded address with the
  location counter and fails on a difference) and emits.  The memory image persists between the passes: a back end may leave a flag
  byte at the statement's address in pass 1 (`memory_write(address, 1, …)`) and read
  it back in pass 2 (`memory_read(address)`) to decide between encodings — the
  idiom of asm/msp430.cpp, 6502.cpp, mips.cpp ….  Data directives also write their
  bytes in pass 1, so they can clobber such a flag.

  Names are bound by `name:` (AsmContext::assemble, TOKEN_LABEL) and by `.func name`
  (core/directives.cpp); both call Symbols::append, which carries the pass-2 check.  The scope a
  `.func` opens is not modelled (flat table; scoping is C11).

  A back end may write alignment bytes in front of an instruction (`pad`): asm/msp430.cpp writes a
  zero byte when the location counter is odd, asm/avr8.cpp skips one — in parse_instruction, i.e.
  AFTER assemble() bound the name in front of the instruction, and identically in both passes.
-/
namespace NakenVerif.TwoPass

/-- symbol table: association list, first binding wins (names are unique: a second
    definition is an error) -/
abbrev Syms := List (String × Nat)

def lookup (t : Syms) (n : String) : Option Nat := (t.find? (·.1 == n)).map (·.2)

/-- memory of flag bytes; untouched cells read 0 -/
abbrev Mem := Nat → Nat

def Mem.write (m : Mem) (a v : Nat) : Mem := fun x => if x = a then v else m x

def Mem.writeBytes (m : Mem) : Nat → List Nat → Mem
  | _, [] => m
  | a, b :: bs => Mem.writeBytes (m.write a b) (a + 1) bs

/-- a back end: what an instruction reserves in pass 1 (and the flag byte it leaves at its own
    address, if any) and what it emits in pass 2 after reading the byte at its address -/
structure Backend (ι : Type) where
  size1 : ι → (known : String → Option Nat) → (addr : Nat) → Nat × Option Nat
  size2 : ι → (final : String → Option Nat) → (addr : Nat) → (flag : Nat) → Nat
  /-- bytes the back end writes/skips in front of an instruction that would start at `addr`
      (the same in both passes); `addr` in `size1`/`size2` is the address behind the pad -/
  pad : (addr : Nat) → Nat := fun _ => 0

inductive Stmt (ι : Type) where
  | label (name : String)
  | func (name : String)
  | emit (i : ι)
  | data (bytes : List Nat)
  | org (addr : Nat)

structure St1 where
  addr : Nat
  syms : Syms
  mem : Mem

/-- pass 1; `none` = error (duplicate name) -/
def pass1 {ι} (b : Backend ι) : List (Stmt ι) → St1 → Option St1
  | [], s => some s
  | .label n :: r, s =>
      if (lookup s.syms n).isSome then none
      else pass1 b r { s with syms := s.syms ++ [(n, s.addr)] }
  | .func n :: r, s =>
      if (lookup s.syms n).isSome then none
      else pass1 b r { s with syms := s.syms ++ [(n, s.addr)] }
  | .emit i :: r, s =>
      let a := s.addr + b.pad s.addr
      let (sz, fl) := b.size1 i (lookup s.syms) a
      pass1 b r { s with addr := a + sz,
                         mem := match fl with | some f => s.mem.write a f | none => s.mem }
  | .data bs :: r, s => pass1 b r { s with addr := s.addr + bs.length, mem := s.mem.writeBytes s.addr bs }
  | .org a :: r, s => pass1 b r { s with addr := a }

/-- Symbols::append on the locked table (pass 2): nothing is entered; the location counter is compared
    with the recorded address and a moved name is an error (`false`) — since dd028e1 -/
def appendLocked (t : Syms) (n : String) (a : Nat) : Bool :=
  match lookup t n with
  | some a1 => a1 == a
  | none => true

/-- pass 2 with the table and memory pass 1 left.  `name:` and `.func name` both go through
    `appendLocked`.  Result: `none` = "Label moved between passes", else the list of (name, location
    counter at which pass 2 met the name). -/
def pass2 {ι} (b : Backend ι) (t : Syms) (m : Mem) : List (Stmt ι) → Nat → Option (List (String × Nat))
  | [], _ => some []
  | .label n :: r, a =>
      if appendLocked t n a then (pass2 b t m r a).map ((n, a) :: ·) else none
  | .func n :: r, a =>
      if appendLocked t n a then (pass2 b t m r a).map ((n, a) :: ·) else none
  | .emit i :: r, a =>
      let a' := a + b.pad a
      pass2 b t m r (a' + b.size2 i (lookup t) a' (m a'))
  | .data bs :: r, a => pass2 b t m r (a + bs.length)
  | .org x :: r, _ => pass2 b t m r x

/-- the same walk without the check: the location counter at which pass 2 meets each name (what the
    code before dd028e1 did; used to state what the check prevents) -/
def met2 {ι} (b : Backend ι) (t : Syms) (m : Mem) : List (Stmt ι) → Nat → List (String × Nat)
  | [], _ => []
  | .label n :: r, a => (n, a) :: met2 b t m r a
  | .func n :: r, a => (n, a) :: met2 b t m r a
  | .emit i :: r, a =>
      let a' := a + b.pad a
      met2 b t m r (a' + b.size2 i (lookup t) a' (m a'))
  | .data bs :: r, a => met2 b t m r (a + bs.length)
  | .org x :: r, _ => met2 b t m r x

/-- where the first byte of the code or data that follows a name met at location counter `a` is placed:
    further names bind the same counter; data starts at the counter; an instruction starts behind its pad -/
def codeAt {ι} (b : Backend ι) : List (Stmt ι) → Nat → Nat
  | .label _ :: r, a => codeAt b r a
  | .func _ :: r, a => codeAt b r a
  | .emit _ :: _, a => a + b.pad a
  | _, a => a

/-- where the bytes following each name really go in pass 2 (no check) -/
def place2 {ι} (b : Backend ι) (t : Syms) (m : Mem) : List (Stmt ι) → Nat → List (String × Nat)
  | [], _ => []
  | .label n :: r, a => (n, codeAt b r a) :: place2 b t m r a
  | .func n :: r, a => (n, codeAt b r a) :: place2 b t m r a
  | .emit i :: r, a =>
      let a' := a + b.pad a
      place2 b t m r (a' + b.size2 i (lookup t) a' (m a'))
  | .data bs :: r, a => place2 b t m r (a + bs.length)
  | .org x :: r, _ => place2 b t m r x

/-- "no pad at a name": at every name of the pass-2 walk the code or data that follows starts at the
    location counter itself (the back end pads nothing in front of an instruction that follows a name) -/
def PadFreeAtNames {ι} (b : Backend ι) (t : Syms) (m : Mem) : List (Stmt ι) → Nat → Prop
  | [], _ => True
  | .label _ :: r, a => codeAt b r a = a ∧ PadFreeAtNames b t m r a
  | .func _ :: r, a => codeAt b r a = a ∧ PadFreeAtNames b t m r a
  | .emit i :: r, a =>
      let a' := a + b.pad a
      PadFreeAtNames b t m r (a' + b.size2 i (lookup t) a' (m a'))
  | .data bs :: r, a => PadFreeAtNames b t m r (a + bs.length)
  | .org x :: r, _ => PadFreeAtNames b t m r x

/-- everything `known` knows, `final` knows with the same value -/
def Sub (known final : String → Option Nat) : Prop := ∀ n v, known n = some v → final n = some v

/-- the size emitted in pass 2 is the size reserved in pass 1, provided pass 2 reads the flag
    byte pass 1 left and no symbol changed its value in between -/
def SizeStable {ι} (b : Backend ι) (i : ι) : Prop :=
  ∀ known final addr, Sub known final →
    b.size2 i final addr (((b.size1 i known addr).2).getD 0) = (b.size1 i known addr).1

/-- side condition "no overlap of flag bytes": at the end of pass 1 the byte at the address of
    every instruction is still what that instruction left there (its flag, or 0) -/
def Intact {ι} (b : Backend ι) (m : Mem) : List (Stmt ι) → Nat → Syms → Prop
  | [], _, _ => True
  | .label n :: r, a, t => Intact b m r a (t ++ [(n, a)])
  | .func n :: r, a, t => Intact b m r a (t ++ [(n, a)])
  | .emit i :: r, a, t =>
      let a' := a + b.pad a
      m a' = ((b.size1 i (lookup t) a').2).getD 0 ∧ Intact b m r (a' + (b.size1 i (lookup t) a').1) t
  | .data bs :: r, a, t => Intact b m r (a + bs.length) t
  | .org x :: r, _, t => Intact b m r x t

/-! ### instances -/

/-- operand of an instruction: a constant or a symbol -/
inductive Opd where
  | const (v : Nat)
  | sym (name : String)
  deriving DecidableEq, Repr

def Opd.eval (env : String → Option Nat) : Opd → Option Nat
  | .const v => some v
  | .sym n => env n

/-- The pass-1 flag idiom in general: an operand that has a `short` encoding when its value
    satisfies `fits`.  Pass 1: value unknown → reserve `long` and leave flag 1; known →
    choose by value, leave nothing.  Pass 2: flag 1 → `long`, else choose by value. -/
def flagIdiom (fits : Nat → Bool) (short long : Nat) : Backend Opd where
  size1 o known _ :=
    match o.eval known with
    | none => (long, some 1)
    | some v => (if fits v then short else long, none)
  size2 o final _ flag :=
    if flag = 1 then long
    else match o.eval final with
      | some v => if fits v then short else long
      | none => long

/-- operand_to_cg of asm/msp430.cpp for word instructions: -1 (also written 0xffff), 0, 1, 2, 4, 8
    come from the constant generator registers -/
def msp430Cg (v : Nat) : Bool := v == 0xffff || v == 0 || v == 1 || v == 2 || v == 4 || v == 8

/-- `op.w #imm, Rn`: 2 bytes with the constant generator, 4 with an extension word; at an odd location
    counter parse_instruction_msp430 first writes a zero byte ("Padding with a 0") -/
def msp430Imm : Backend Opd := { flagIdiom msp430Cg 2 4 with pad := fun a => a % 2 }

/-- asm/avr8.cpp: every instruction is one word here; at an odd byte counter the instruction is moved to
    the next word (`address++`, nothing written) -/
def avr8Word : Backend Unit where
  size1 _ _ _ := (2, none)
  size2 _ _ _ _ := 2
  pad a := a % 2

/-- a back end that ignores the flag: it re-decides in pass 2 from the final value alone
    (what a forward reference to a small value would do without the idiom) -/
def naive (fits : Nat → Bool) (short long : Nat) : Backend Opd where
  size1 o known _ :=
    match o.eval known with
    | none => (long, none)
    | some v => (if fits v then short else long, none)
  size2 o final _ _ :=
    match o.eval final with
    | some v => if fits v then short else long
    | none => long

end NakenVerif.TwoPass
