/-
Implementation model of the data / location directives:
  core/directives.cpp       parse_org, .big_endian / .little_endian
  core/directives_data.cpp  parse_db, parse_dc16, parse_dc32, parse_dc64, parse_data_fill, parse_resb,
                            parse_align_bits / parse_align_bytes / parse_align
  core/directives_include.cpp binfile_parse (file content given)
  core/AsmContext.cpp       assemble(): labels; AsmContext.h set_org, memory_write_inc
  core/tokens.cpp           `$` substitution, quoted-string lexing (process_escape)
  core/eval_expression.cpp  eval_expression(int*): low 32 bits of a 64-bit value in -2^31 .. 2^32-1, else failure
on operands that are a literal value (as `eval_expression` delivers it: `BitVec 64`), `$`, or one symbol.

C types: `AsmContext::address` is an `int` (`BitVec 32`, signed where the code divides or compares),
`bytes_per_address` a `uint8_t` promoted to `int`.  Signed overflow (`address++` at 0x7fffffff, `num * size`)
is modelled as two's-complement wrap-around (see ASSUMPTIONS of the check).
-/
import NakenVerif.Memory.Impl

namespace NakenVerif.Core.Directives
open NakenVerif.Memory

inductive Operand where
  /-- an expression without symbols, already evaluated to its 64-bit value (C04) -/
  | lit (v : BitVec 64)
  /-- `$` -/
  | dollar
  /-- a label name -/
  | sym (name : String)
  deriving Repr, DecidableEq

inductive Item where
  | num (o : Operand)
  /-- a quoted string: the source characters between the quotes -/
  | str (raw : List (BitVec 8))
  deriving Repr, DecidableEq

inductive Directive where
  | org (o : Operand)
  | db (asciiz : Bool) (items : List Item)
  | dc16 (os : List Operand)
  | dc32 (os : List Operand)
  | dc64 (os : List Operand)
  | resb (o : Operand)
  | resw (o : Operand)
  | alignBits (o : Operand)
  | alignBytes (o : Operand)
  | dataFill (v n : Operand)
  | binfile (content : List (BitVec 8))
  | bigEndian
  | littleEndian
  | label (name : String)
  deriving Repr, DecidableEq

/-- what `set_cpu` takes from `cpu_list` for these directives -/
structure Cfg where
  bigEndian : Bool
  bpa : BitVec 32
  deriving Repr

structure St where
  /-- `int address` -/
  address : BitVec 32
  /-- `uint8_t bytes_per_address`, promoted -/
  bpa : BitVec 32
  pass : Nat
  memory : Memory
  /-- `Symbols`, in insertion order (global scope only) -/
  symbols : List (String × BitVec 32)

inductive Err where
  /-- the directive returned -1 -/
  | error
  /-- a loop of the C code would not end (never happens: `alignLoop_terminates`) -/
  | hang
  /-- input outside what the model describes (string ending in a lone backslash) -/
  | unmodelled
  deriving Repr, DecidableEq

/-! ### operands -/

def lookup (syms : List (String × BitVec 32)) (name : String) : Option (BitVec 32) :=
  match syms.find? (fun e => e.1 == name) with
  | some e => some e.2
  | none => none

/-- `$`: `snprintf(token, "%u", (uint32_t)asm_context->address / asm_context->bytes_per_address)` (710fec2), then
`Var::set_int(token)`: the unsigned 32-bit quotient -/
def dollar (st : St) : BitVec 64 := (st.address / st.bpa).zeroExtend 64

/-- what `eval_expression(asm_context, var)` leaves in `var` (`none`: it returned -1).
A label is replaced by `snprintf("%u", address)` (21f30ba; the symbols of this model are all labels, `.set` symbols
would be printed with `%d`). -/
def evalOperand (st : St) : Operand → Option (BitVec 64)
  | .lit v => some v
  | .dollar => some (dollar st)
  | .sym name => (lookup st.symbols name).map (·.zeroExtend 64)

/-- `Var::get_int32()` : `(int32_t)value_int` -/
def narrow (v : BitVec 64) : BitVec 32 := v.setWidth 32

/-- `eval_expression(asm_context, &num)`: the `int` overload.  `none` = it returned -1: the expression failed, or its
64-bit value is below -2^31 or above 2^32-1 ("Constant does not fit in 32 bits"); otherwise the low 32 bits. -/
def evalInt (st : St) (o : Operand) : Option (BitVec 32) :=
  match evalOperand st o with
  | none => none
  | some v => if v.toInt < -2147483648 ∨ v.toInt > 4294967295 then none else some (narrow v)

/-! ### emitting -/

/-- `memory_write_inc(data, DL_DATA)` : `memory.write(address++, data, line)` -/
def writeInc (st : St) (d : Byte) : St :=
  match st with
  | { address, bpa, pass, memory, symbols } =>
    { address := address + 1, bpa, pass, memory := write memory address d dlData, symbols }

def writeBytes (st : St) (bs : List Byte) : St := bs.foldl writeInc st

/-- bytes of a `w`-bit value in the current byte order, as the per-width emit sequences produce them -/
def bytes16 (big : Bool) (v : BitVec 16) : List Byte :=
  if !big then [(v &&& 255).setWidth 8, (v >>> 8).setWidth 8] else [(v >>> 8).setWidth 8, (v &&& 255).setWidth 8]

def bytes32 (big : Bool) (v : BitVec 32) : List Byte :=
  let b (k : Nat) : Byte := ((v >>> k) &&& 0xff).setWidth 8
  if !big then [b 0, b 8, b 16, b 24] else [b 24, b 16, b 8, b 0]

def bytes64 (big : Bool) (v : BitVec 64) : List Byte :=
  let b (k : Nat) : Byte := ((v >>> k) &&& 0xff).setWidth 8
  if !big then [b 0, b 8, b 16, b 24, b 32, b 40, b 48, b 56] else [b 56, b 48, b 40, b 32, b 24, b 16, b 8, b 0]

/-! ### strings -/

/-- `process_escape(asm_context, 0)`: the character an escape letter stands for, `none` = not an escape
(then the backslash is kept and the letter is read again) -/
def escapeOf (c : Byte) : Option Byte :=
  if c = 0x6e then some 0x0a        -- \n
  else if c = 0x72 then some 0x0d   -- \r
  else if c = 0x74 then some 0x09   -- \t
  else if c = 0x22 then some 0x22   -- \"
  else if c = 0x5c then some 0x5c   -- \\
  else if c = 0x27 then some 0x27   -- \'
  else none                         -- incl. '0' (process_zero == 0)

/-- the quoted-string loop of `tokens_get`: source characters between the quotes → token characters.
`none`: the text ends in a lone backslash (the closing quote would be swallowed; outside the model). -/
def lexQuoted : List Byte → Option (List Byte)
  | [] => some []
  | [c] => if c = 0x5c then none else some [c]
  | c :: e :: rest =>
    if c = 0x5c then
      match escapeOf e with
      | some x => (lexQuoted rest).map (x :: ·)
      | none => (lexQuoted (e :: rest)).map (0x5c :: ·)
    else (lexQuoted (e :: rest)).map (c :: ·)
termination_by l => l.length

/-- the string loop of `parse_db`: a backslash followed by `0` in the *token* becomes one NUL byte -/
def dbString : List Byte → List Byte
  | [] => []
  | [c] => [c]
  | c :: d :: rest => if c = 0x5c ∧ d = 0x30 then 0 :: dbString rest else c :: dbString (d :: rest)
termination_by l => l.length

/-! ### alignment loop -/

/-- `while ((address & mask) != 0) address++;` -/
def alignLoop : Nat → BitVec 32 → BitVec 32 → Option (BitVec 32)
  | 0, _, _ => none
  | fuel + 1, a, mask => if a &&& mask = 0 then some a else alignLoop fuel (a + 1) mask

/-- enough for every start address: the counter reaches 0 after at most 2^32 - 1 increments -/
def alignFuel : Nat := 4294967296

/-- `parse_align(asm_context, num)` -/
def parseAlign (st : St) (num : BitVec 32) : Except Err St :=
  if num.toInt > 1024 then .error .error
  else if num.toInt < 1 ∨ num &&& (num - 1) ≠ 0 then .error .error      -- not a power of two (f230eda)
  else
    match alignLoop alignFuel st.address (num - 1) with
    | some a => .ok { st with address := a }
    | none => .error .hang

/-! ### the directives -/

/-- `eval_data` of directives_data.cpp (50c0890): the `Var` overload, `get_int64()`; with the pass-1 placeholder 0 of
`parse_db` / `parse_dc16` when the expression fails.  `none`: the directive returns -1 (pass 2). -/
def evalData (st : St) (o : Operand) : Option (BitVec 64) :=
  match evalOperand st o with
  | some v => some v
  | none => if st.pass = 2 then none else some 0

/-- one numeric item of `parse_db`: the range check sees all 64 bits -/
def dbNum (st : St) (o : Operand) : Except Err St :=
  match evalData st o with
  | none => .error .error
  | some data =>
    if data.toInt < -128 ∨ data.toInt > 0xff then .error .error
    else .ok (writeInc st (data.setWidth 8))

def dbItem (asciiz : Bool) (st : St) : Item → Except Err St
  | .num o => dbNum st o
  | .str raw =>
    match lexQuoted raw with
    | none => .error .unmodelled
    | some tok =>
      if tok.length ≥ Generated.tokenLen - 1 then .error .error     -- "Unterminated quote"
      else
        let st := writeBytes st (dbString tok)
        .ok (if asciiz then writeInc st 0 else st)

def dc16Item (st : St) (o : Operand) : Except Err St :=
  match evalData st o with
  | none => .error .error
  | some data =>
    if data.toInt < -32768 ∨ data.toInt > 0xffff then .error .error
    else .ok (writeBytes st (bytes16 st.memory.bigEndian (data.setWidth 16)))

def dc32Item (st : St) (o : Operand) : Except Err St :=
  match (match evalOperand st o with
         | some v => some v
         | none => if st.pass = 2 then none else some 0) with
  | none => .error .error
  | some v => .ok (writeBytes st (bytes32 st.memory.bigEndian (v.setWidth 32)))

def dc64Item (st : St) (o : Operand) : Except Err St :=
  match (match evalOperand st o with
         | some v => some v
         | none => if st.pass = 2 then none else some 0) with
  | none => .error .error
  | some v => .ok (writeBytes st (bytes64 st.memory.bigEndian v))

def foldItems {α : Type} (f : St → α → Except Err St) (st : St) : List α → Except Err St
  | [] => .ok st
  | x :: xs => match f st x with
    | .ok st' => foldItems f st' xs
    | .error e => .error e

/-- `AsmContext::assemble()` on a label: `symbols.append(token, (uint32_t)address / bytes_per_address)` -/
def defineLabel (st : St) (name : String) : Except Err St :=
  if st.pass = 2 then .ok st                       -- symbols are locked: append returns 0
  else if (lookup st.symbols name).isSome then .error .error    -- "already defined"
  else .ok { st with symbols := st.symbols ++ [(name, st.address / st.bpa)] }

def step (st : St) : Directive → Except Err St
  | .org o =>
    match evalInt st o with
    | none => .error .error
    | some num => .ok { st with address := num * st.bpa }       -- set_org(uint32_t value)
  | .db z items => foldItems (dbItem z) st items
  | .dc16 os => foldItems dc16Item st os
  | .dc32 os => foldItems dc32Item st os
  | .dc64 os => foldItems dc64Item st os
  | .resb o =>
    match evalInt st o with
    | none => .error .error
    | some num => .ok { st with address := st.address + num * 1 }
  | .resw o =>
    match evalInt st o with
    | none => .error .error
    | some num => .ok { st with address := st.address + num * 2 }
  | .alignBits o =>
    match evalInt st o with
    | none => .error .error
    | some num =>
      if num.srem 8 ≠ 0 then .error .error
      else parseAlign st (num.sdiv 8)
  | .alignBytes o =>
    match evalInt st o with
    | none => .error .error
    | some num => parseAlign st num
  | .dataFill vo no =>
    match (match evalInt st vo with
           | some v => some v
           | none => if st.pass = 1 then some 0 else none) with
    | none => .error .error
    | some value =>
      if value.toInt < -128 ∨ value.toInt > 255 then .error .error
      else
        match evalInt st no with
        | none => .error .error
        | some count =>
          if count.toInt < 1 then .error .error
          else .ok (writeBytes st (List.replicate count.toNat ((value &&& 0xff).setWidth 8)))
  | .binfile content => .ok (writeBytes st content)
  | .bigEndian => .ok { st with memory := { st.memory with bigEndian := true } }
  | .littleEndian => .ok { st with memory := { st.memory with bigEndian := false } }
  | .label name => defineLabel st name

def runPass (st : St) : List Directive → Except Err St
  | [] => .ok st
  | d :: ds => match step st d with
    | .ok st' => runPass st' ds
    | .error e => .error e

/-- state at the first directive after the `.<cpu>` line of pass 1 -/
def St.init (cfg : Cfg) : St :=
  { address := 0, bpa := cfg.bpa, pass := 1, memory := { Memory.init with bigEndian := cfg.bigEndian }, symbols := [] }

/-- `main()`: pass 1; `symbols.lock(); pass = 2; init();` (address = 0; the `.<cpu>` line sets byte order and
bytes per address again; the memory image of pass 1 stays); pass 2 -/
def run (cfg : Cfg) (ds : List Directive) : Except Err St :=
  match runPass (St.init cfg) ds with
  | .error e => .error e
  | .ok st1 =>
    runPass { st1 with pass := 2, address := 0, bpa := cfg.bpa,
                       memory := { st1.memory with bigEndian := cfg.bigEndian } } ds

end NakenVerif.Core.Directives
