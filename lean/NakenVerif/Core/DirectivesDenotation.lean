/-
The directive model realises the documented meaning: one step and whole directive lists (one pass).
-/
import NakenVerif.Core.DirectivesProofs

namespace NakenVerif.Core.Directives
open NakenVerif.Memory

/-- every label value is a 32-bit address (invariant of the documented run inside the address space) -/
def Good (s : Spec.State) : Prop := ∀ e ∈ s.syms, e.2 < 4294967296

/-- full refinement relation: counter, image, byte order, bytes per address, symbols -/
structure RelFull (bpa : Nat) (st : St) (s : Spec.State) : Prop extends Rel st s where
  big : st.memory.bigEndian = s.big
  bpaEq : st.bpa.toNat = bpa
  bpaPos : 0 < bpa
  syms : ∀ n, lookup st.symbols n = (Spec.find s.syms n).map (BitVec.ofNat 32)
  good : Good s
  pass : st.pass = 1 ∨ st.pass = 2

theorem find_lt {s : Spec.State} (h : Good s) {n : String} {a : Nat} (hf : Spec.find s.syms n = some a) :
    a < 4294967296 := by
  unfold Spec.find at hf
  cases hx : List.find? (fun e => e.1 == n) s.syms with
  | none => simp [hx] at hf
  | some e =>
    simp [hx] at hf
    subst hf
    exact h e (List.mem_of_find?_eq_some hx)

/-- an operand with a documented value evaluates to that value -/
theorem value_ok {bpa : Nat} {st : St} {s : Spec.State} (h : RelFull bpa st s) (o : Operand) (i : Int)
    (hv : Spec.value bpa s o = .ok i) : ∃ v, evalOperand st o = some v ∧ v.toInt = i := by
  cases o with
  | lit v =>
    simp only [Spec.value, Spec.Outcome.ok.injEq] at hv
    exact ⟨v, rfl, hv⟩
  | dollar =>
    simp only [Spec.value] at hv
    split at hv
    · rename_i hl
      simp only [Spec.Outcome.ok.injEq] at hv
      refine ⟨dollar st, rfl, ?_⟩
      have ha : st.address.toNat = s.loc := by rw [h.addr]; omega
      have hq : (st.address / st.bpa).toNat = s.loc / bpa := by
        rw [BitVec.toNat_udiv, ha, h.bpaEq]
      have hlt := (st.address / st.bpa).isLt
      unfold dollar
      rw [BitVec.toInt_eq_toNat_cond]
      simp only [BitVec.toNat_setWidth]
      rw [← hv, Spec.here, ← hq]
      rw [Nat.mod_eq_of_lt (by omega)]
      rw [if_pos (by omega)]
    · simp at hv
  | sym n =>
    simp only [Spec.value] at hv
    split at hv
    · rename_i a hf
      simp only [Spec.Outcome.ok.injEq] at hv
      have hl := find_lt h.good hf
      refine ⟨(BitVec.ofNat 32 a).zeroExtend 64, ?_, ?_⟩
      · simp only [evalOperand, h.syms n, hf, Option.map_some]
      · rw [← hv]
        have h1 : (BitVec.ofNat 32 a).toNat = a := by
          rw [BitVec.toNat_ofNat]; omega
        rw [BitVec.toInt_eq_toNat_cond]
        simp only [BitVec.toNat_setWidth, h1]
        rw [Nat.mod_eq_of_lt (by omega), if_pos (by omega)]
    · simp at hv

theorem evalInt_ok {st : St} {o : Operand} {v : BitVec 64} (he : evalOperand st o = some v)
    (h1 : -2147483648 ≤ v.toInt) (h2 : v.toInt ≤ 4294967295) : evalInt st o = some (narrow v) := by
  simp only [evalInt, he]
  rw [if_neg]; omega

theorem narrow_toNat (v : BitVec 64) (h1 : 0 ≤ v.toInt) (h2 : v.toInt ≤ 4294967295) :
    ((narrow v).toNat : Int) = v.toInt := by
  unfold narrow
  rw [BitVec.toInt_eq_toNat_cond] at *
  simp only [BitVec.toNat_setWidth]
  have := v.isLt
  split at h1 <;> split at h2 <;> omega

/-! ### bytes -/

theorem ofInt8_toInt (v : BitVec 64) : BitVec.ofInt 8 v.toInt = v.setWidth 8 := by
  apply BitVec.eq_of_toNat_eq
  rw [BitVec.toNat_ofInt, BitVec.toNat_setWidth, BitVec.toInt_eq_toNat_cond]
  have := v.isLt
  split <;> omega

theorem ofInt16_toInt (v : BitVec 64) : BitVec.ofInt 16 v.toInt = v.setWidth 16 := by
  apply BitVec.eq_of_toNat_eq
  rw [BitVec.toNat_ofInt, BitVec.toNat_setWidth, BitVec.toInt_eq_toNat_cond]
  have := v.isLt
  split <;> omega

theorem bytes16_word (big : Bool) (v : BitVec 64) : bytes16 big (v.setWidth 16) = Spec.word big 2 v.toInt := by
  have e : BitVec.ofInt (8 * 2) v.toInt = v.setWidth 16 := ofInt16_toInt v
  unfold Spec.word
  simp only [e, List.range, List.range.loop, List.map, bytes16]
  cases big <;> simp <;> refine ⟨?_, ?_⟩ <;> bv_decide

theorem word_length (big : Bool) (n : Nat) (i : Int) : (Spec.word big n i).length = n := by
  unfold Spec.word; cases big <;> simp

theorem writeBytes_append (st : St) (xs ys : List Byte) :
    writeBytes st (xs ++ ys) = writeBytes (writeBytes st xs) ys := by
  simp [writeBytes, List.foldl_append]

theorem writeInc_eq (st : St) (b : Byte) : writeInc st b = writeBytes st [b] := rfl

/-- placing bytes keeps the whole relation -/
theorem emit_full {bpa : Nat} {st : St} {s : Spec.State} (h : RelFull bpa st s) (bs : List Byte)
    (hfit : s.loc + bs.length ≤ 4294967296) : RelFull bpa (writeBytes st bs) (Spec.emit s bs) := by
  obtain ⟨k1, k2, k3, k4⟩ := writeBytes_keeps bs st
  exact { toRel := writeBytes_refines bs st s h.toRel hfit
          big := by rw [k4]; exact h.big
          bpaEq := by rw [k1]; exact h.bpaEq
          bpaPos := h.bpaPos
          syms := by rw [k3]; exact h.syms
          good := h.good
          pass := by rw [k2]; exact h.pass }

@[simp] theorem emit_loc (s : Spec.State) (bs : List Byte) : (Spec.emit s bs).loc = s.loc + bs.length := rfl
@[simp] theorem emit_big (s : Spec.State) (bs : List Byte) : (Spec.emit s bs).big = s.big := rfl
@[simp] theorem emit_syms (s : Spec.State) (bs : List Byte) : (Spec.emit s bs).syms = s.syms := rfl

/-- **frame**: placing bytes changes no cell outside `[loc, loc + length)` -/
theorem emit_frame (s : Spec.State) (bs : List Byte) (x : Nat) (h : x < s.loc ∨ s.loc + bs.length ≤ x) :
    (Spec.emit s bs).cells x = s.cells x := by
  simp only [Spec.emit]
  rw [if_neg (by omega)]

/-! ### items -/

theorem withValue_ok {bpa : Nat} {s s1 : Spec.State} {o : Operand} {f : Int → Spec.Outcome Spec.State}
    (h : Spec.withValue bpa s o f = .ok s1) : ∃ i, Spec.value bpa s o = .ok i ∧ f i = .ok s1 := by
  unfold Spec.withValue at h
  split at h
  · rename_i v hv; exact ⟨v, hv, h⟩
  · simp at h
  · simp at h

/-- the text between the quotes is lexed and re-read by `parse_db` to exactly its documented meaning, and fits a token
(true e.g. for every text without a backslash, see `cleanString_of_plain`) -/
def CleanString (raw : List Byte) : Prop :=
  ∃ tok, lexQuoted raw = some tok ∧ tok.length < Generated.tokenLen - 1 ∧ Spec.unescape raw = some (dbString tok)

def CleanItem : Item → Prop
  | .num _ => True
  | .str raw => CleanString raw

theorem evalData_of_eval {st : St} {o : Operand} {v : BitVec 64} (he : evalOperand st o = some v) :
    evalData st o = some v := by simp [evalData, he]

theorem dbItem_ok {bpa : Nat} (z : Bool) (st : St) (s : Spec.State) (x : Item) (s1 : Spec.State)
    (hc : CleanItem x) (h : RelFull bpa st s) (hs : Spec.dbItem bpa z s x = .ok s1) (hfit : s1.loc ≤ 4294967296) :
    ∃ st1, dbItem z st x = .ok st1 ∧ RelFull bpa st1 s1 := by
  cases x with
  | num o =>
    simp only [Spec.dbItem] at hs
    obtain ⟨i, hv, hf⟩ := withValue_ok hs
    obtain ⟨v, he, hi⟩ := value_ok h o i hv
    split at hf
    · rename_i hr
      simp only [Spec.Outcome.ok.injEq] at hf
      subst hf
      refine ⟨writeBytes st [v.setWidth 8], ?_, ?_⟩
      · simp only [dbItem, dbNum, evalData_of_eval he]
        rw [if_neg (by omega)]; rfl
      · rw [← hi, ofInt8_toInt]
        exact emit_full h _ (by simpa using hfit)
    · simp at hf
  | str raw =>
    obtain ⟨tok, hl, hlen, hu⟩ := hc
    simp only [Spec.dbItem, hu] at hs
    simp only [Spec.Outcome.ok.injEq] at hs
    subst hs
    cases z with
    | false =>
      refine ⟨writeBytes st (dbString tok), ?_, ?_⟩
      · simp only [dbItem, hl]
        rw [if_neg (by omega)]; simp
      · exact emit_full h _ (by simpa using hfit)
    | true =>
      refine ⟨writeBytes st (dbString tok ++ [0]), ?_, ?_⟩
      · simp only [dbItem, hl]
        rw [if_neg (by omega)]
        simp [writeBytes_append, writeInc_eq]
      · exact emit_full h _ (by simpa using hfit)

theorem dc16Item_ok {bpa : Nat} (st : St) (s : Spec.State) (o : Operand) (s1 : Spec.State)
    (h : RelFull bpa st s) (hs : Spec.dc16Item bpa s o = .ok s1) (hfit : s1.loc ≤ 4294967296) :
    ∃ st1, dc16Item st o = .ok st1 ∧ RelFull bpa st1 s1 := by
  obtain ⟨i, hv, hf⟩ := withValue_ok hs
  obtain ⟨v, he, hi⟩ := value_ok h o i hv
  split at hf
  · simp only [Spec.Outcome.ok.injEq] at hf
    subst hf
    refine ⟨writeBytes st (bytes16 st.memory.bigEndian (v.setWidth 16)), ?_, ?_⟩
    · simp only [dc16Item, evalData_of_eval he]
      rw [if_neg (by omega)]
    · rw [bytes16_word, h.big, hi]
      exact emit_full h _ (by simpa using hfit)
  · simp at hf

theorem dc32Item_ok {bpa : Nat} (st : St) (s : Spec.State) (o : Operand) (s1 : Spec.State)
    (h : RelFull bpa st s) (hs : Spec.dcWide 4 bpa s o = .ok s1) (hfit : s1.loc ≤ 4294967296) :
    ∃ st1, dc32Item st o = .ok st1 ∧ RelFull bpa st1 s1 := by
  obtain ⟨i, hv, hf⟩ := withValue_ok hs
  obtain ⟨v, he, hi⟩ := value_ok h o i hv
  simp only [Spec.Outcome.ok.injEq] at hf
  subst hf
  refine ⟨writeBytes st (bytes32 st.memory.bigEndian (v.setWidth 32)), by simp only [dc32Item, he], ?_⟩
  rw [bytes32_word, h.big, hi]
  exact emit_full h _ (by simpa using hfit)

theorem dc64Item_ok {bpa : Nat} (st : St) (s : Spec.State) (o : Operand) (s1 : Spec.State)
    (h : RelFull bpa st s) (hs : Spec.dcWide 8 bpa s o = .ok s1) (hfit : s1.loc ≤ 4294967296) :
    ∃ st1, dc64Item st o = .ok st1 ∧ RelFull bpa st1 s1 := by
  obtain ⟨i, hv, hf⟩ := withValue_ok hs
  obtain ⟨v, he, hi⟩ := value_ok h o i hv
  simp only [Spec.Outcome.ok.injEq] at hf
  subst hf
  refine ⟨writeBytes st (bytes64 st.memory.bigEndian v), by simp only [dc64Item, he], ?_⟩
  rw [bytes64_word, h.big, hi]
  exact emit_full h _ (by simpa using hfit)

/-! ### folds -/

theorem fold_mono {α : Type} (fs : Spec.State → α → Spec.Outcome Spec.State)
    (hmono : ∀ s x s1, fs s x = .ok s1 → s.loc ≤ s1.loc) :
    ∀ (xs : List α) (s s' : Spec.State), Spec.foldOutcome fs s xs = .ok s' → s.loc ≤ s'.loc := by
  intro xs
  induction xs with
  | nil => intro s s' h; simp only [Spec.foldOutcome, Spec.Outcome.ok.injEq] at h; subst h; exact Nat.le_refl _
  | cons x xs ih =>
    intro s s' h
    simp only [Spec.foldOutcome] at h
    split at h
    · rename_i s1 h1
      exact Nat.le_trans (hmono _ _ _ h1) (ih _ _ h)
    · simp at h
    · simp at h

theorem fold_ok {α : Type} {bpa : Nat} (fi : St → α → Except Err St) (fs : Spec.State → α → Spec.Outcome Spec.State)
    (P : α → Prop)
    (hitem : ∀ st s x s1, P x → RelFull bpa st s → fs s x = .ok s1 → s1.loc ≤ 4294967296 →
      ∃ st1, fi st x = .ok st1 ∧ RelFull bpa st1 s1)
    (hmono : ∀ s x s1, fs s x = .ok s1 → s.loc ≤ s1.loc) :
    ∀ (xs : List α) (st : St) (s s' : Spec.State), (∀ x ∈ xs, P x) → RelFull bpa st s →
      Spec.foldOutcome fs s xs = .ok s' → s'.loc ≤ 4294967296 →
      ∃ st', foldItems fi st xs = .ok st' ∧ RelFull bpa st' s' := by
  intro xs
  induction xs with
  | nil =>
    intro st s s' _ h hs _
    simp only [Spec.foldOutcome, Spec.Outcome.ok.injEq] at hs
    subst hs
    exact ⟨st, rfl, h⟩
  | cons x xs ih =>
    intro st s s' hp h hs hfit
    simp only [Spec.foldOutcome] at hs
    split at hs
    · rename_i s1 h1
      have hm := fold_mono fs hmono xs s1 s' hs
      obtain ⟨st1, e1, r1⟩ := hitem st s x s1 (hp x (by simp)) h h1 (by omega)
      obtain ⟨st', e2, r2⟩ := ih st1 s1 s' (fun y hy => hp y (by simp [hy])) r1 hs hfit
      exact ⟨st', by simp only [foldItems, e1, e2], r2⟩
    · simp at hs
    · simp at hs

theorem withValue_mono {bpa : Nat} {s s1 : Spec.State} {o : Operand} {f : Int → Spec.Outcome Spec.State}
    (hf : ∀ i s1, f i = .ok s1 → s.loc ≤ s1.loc) (h : Spec.withValue bpa s o f = .ok s1) : s.loc ≤ s1.loc := by
  obtain ⟨i, _, h2⟩ := withValue_ok h
  exact hf i s1 h2

theorem dbItem_mono (bpa : Nat) (z : Bool) (s : Spec.State) (x : Item) (s1 : Spec.State)
    (h : Spec.dbItem bpa z s x = .ok s1) : s.loc ≤ s1.loc := by
  cases x with
  | num o =>
    refine withValue_mono (fun i s1 hf => ?_) h
    split at hf
    · simp only [Spec.Outcome.ok.injEq] at hf; subst hf; simp
    · simp at hf
  | str raw =>
    simp only [Spec.dbItem] at h
    split at h
    · simp at h
    · simp only [Spec.Outcome.ok.injEq] at h; subst h; simp

theorem dc16Item_mono (bpa : Nat) (s : Spec.State) (o : Operand) (s1 : Spec.State)
    (h : Spec.dc16Item bpa s o = .ok s1) : s.loc ≤ s1.loc := by
  refine withValue_mono (fun i s1 hf => ?_) h
  split at hf
  · simp only [Spec.Outcome.ok.injEq] at hf; subst hf; simp
  · simp at hf

theorem dcWide_mono (n bpa : Nat) (s : Spec.State) (o : Operand) (s1 : Spec.State)
    (h : Spec.dcWide n bpa s o = .ok s1) : s.loc ≤ s1.loc := by
  refine withValue_mono (fun i s1 hf => ?_) h
  simp only [Spec.Outcome.ok.injEq] at hf; subst hf; simp

/-! ### alignment: the loop computes the next multiple of a power of two -/

def closed (a num : BitVec 32) : BitVec 32 := (a + (num - 1)) &&& ~~~(num - 1)

theorem closed_aligned (a num : BitVec 32) (hp : num &&& (num - 1) = 0) (hn : num ≠ 0) (h : a &&& (num - 1) = 0) :
    closed a num = a := by
  unfold closed; bv_decide

theorem closed_step (a num : BitVec 32) (hp : num &&& (num - 1) = 0) (hn : num ≠ 0) (h : ¬ a &&& (num - 1) = 0) :
    closed (a + 1) num = closed a num := by
  unfold closed; bv_decide

theorem alignLoop_closed (num : BitVec 32) (hp : num &&& (num - 1) = 0) (hn : num ≠ 0) :
    ∀ (fuel : Nat) (a r : BitVec 32), alignLoop fuel a (num - 1) = some r → r = closed a num := by
  intro fuel
  induction fuel with
  | zero => intro a r h; simp [alignLoop] at h
  | succ n ih =>
    intro a r h
    unfold alignLoop at h
    by_cases hz : a &&& (num - 1) = 0
    · simp only [hz, if_true, Option.some.injEq] at h; subst h; exact (closed_aligned _ _ hp hn hz).symm
    · simp only [hz, if_false] at h
      rw [ih _ _ h, closed_step _ _ hp hn hz]

theorem isPow2_cases : ∀ n, n ≤ 1024 → Spec.isPow2 n = true →
    n ∈ [1, 2, 4, 8, 16, 32, 64, 128, 256, 512, 1024] := by decide +kernel

theorem closed_toNat (a : BitVec 32) (n : Nat) (hn : n ∈ [1, 2, 4, 8, 16, 32, 64, 128, 256, 512, 1024]) :
    (closed a (BitVec.ofNat 32 n)).toNat = ((a.toNat + n - 1) / n * n) % 4294967296 := by
  have e : closed a (BitVec.ofNat 32 n) = (a + (BitVec.ofNat 32 n - 1)) / BitVec.ofNat 32 n * BitVec.ofNat 32 n := by
    simp only [List.mem_cons, List.mem_nil_iff, or_false] at hn
    unfold closed
    rcases hn with h|h|h|h|h|h|h|h|h|h|h <;> subst h <;> bv_decide
  rw [e]
  have := a.isLt
  simp only [List.mem_cons, List.mem_nil_iff, or_false] at hn
  have h1 : (1 : BitVec 32).toNat = 1 := rfl
  rcases hn with h|h|h|h|h|h|h|h|h|h|h <;> subst h <;>
    simp only [BitVec.toNat_mul, BitVec.toNat_udiv, BitVec.toNat_add, BitVec.toNat_sub, BitVec.toNat_ofNat, h1,
      Nat.reducePow, Nat.reduceMod, Nat.reduceSub, Nat.reduceAdd] <;> omega

theorem parseAlign_ok {bpa : Nat} {st : St} {s : Spec.State} (h : RelFull bpa st s) (n : Nat)
    (hn : n ∈ [1, 2, 4, 8, 16, 32, 64, 128, 256, 512, 1024]) :
    ∃ st', parseAlign st (BitVec.ofNat 32 n) = .ok st' ∧
      RelFull bpa st' { s with loc := (s.loc + n - 1) / n * n } := by
  have hfacts : (BitVec.ofNat 32 n).toInt ≤ 1024 ∧ 1 ≤ (BitVec.ofNat 32 n).toInt ∧
      BitVec.ofNat 32 n &&& (BitVec.ofNat 32 n - 1) = 0 ∧ BitVec.ofNat 32 n ≠ 0 := by
    simp only [List.mem_cons, List.mem_nil_iff, or_false] at hn
    rcases hn with e|e|e|e|e|e|e|e|e|e|e <;> subst e <;> decide
  obtain ⟨f1, f2, hp, hz⟩ := hfacts
  obtain ⟨r, hr⟩ := alignLoop_terminates st.address (BitVec.ofNat 32 n - 1)
  have hc := alignLoop_closed _ hp hz _ _ _ hr
  refine ⟨{ st with address := r }, ?_, ?_⟩
  · unfold parseAlign
    have hnot : ¬ ((BitVec.ofNat 32 n).toInt < 1 ∨ BitVec.ofNat 32 n &&& (BitVec.ofNat 32 n - 1) ≠ 0) := by
      intro c
      cases c with
      | inl c => omega
      | inr c => exact c hp
    rw [if_neg (by omega), if_neg hnot, hr]
  · have hnat := closed_toNat st.address n hn
    exact { addr := by
              show r.toNat = ((s.loc + n - 1) / n * n) % 4294967296
              rw [hc, hnat, h.addr]
              simp only [List.mem_cons, List.mem_nil_iff, or_false] at hn
              rcases hn with e|e|e|e|e|e|e|e|e|e|e <;> subst e <;> omega
            cells := h.cells, big := h.big, bpaEq := h.bpaEq, bpaPos := h.bpaPos, syms := h.syms, good := h.good, pass := h.pass }

theorem align_ok {bpa : Nat} {st : St} {s s' : Spec.State} (h : RelFull bpa st s) (i : Int)
    (hs : Spec.align s i = .ok s') :
    1 ≤ i ∧ i ≤ 1024 ∧ ∃ st', parseAlign st (BitVec.ofNat 32 i.toNat) = .ok st' ∧ RelFull bpa st' s' ∧
      st'.pass = st.pass := by
  unfold Spec.align at hs
  split at hs
  · rename_i hc
    obtain ⟨c1, c2, c3⟩ := hc
    simp only [Spec.Outcome.ok.injEq] at hs
    subst hs
    have hm := isPow2_cases i.toNat (by omega) c3
    obtain ⟨st', e, r⟩ := parseAlign_ok h _ hm
    refine ⟨c1, c2, st', e, r, ?_⟩
    unfold parseAlign at e
    split at e
    · simp at e
    · split at e
      · simp at e
      · split at e
        · simp only [Except.ok.injEq] at e; subst e; rfl
        · simp at e
  · simp at hs

theorem narrow_eq_ofNat (v : BitVec 64) (h1 : 0 ≤ v.toInt) (h2 : v.toInt ≤ 4294967295) :
    narrow v = BitVec.ofNat 32 v.toInt.toNat := by
  apply BitVec.eq_of_toNat_eq
  have := narrow_toNat v h1 h2
  have hlt := (narrow v).isLt
  rw [BitVec.toNat_ofNat]
  omega

/-! ### symbols -/

theorem lookup_append (l : List (String × BitVec 32)) (n n' : String) (a : BitVec 32) :
    lookup (l ++ [(n, a)]) n' =
      match lookup l n' with
      | some x => some x
      | none => if n == n' then some a else none := by
  unfold lookup
  rw [List.find?_append]
  cases hf : List.find? (fun e => e.1 == n') l with
  | some e => simp
  | none =>
    simp only [Option.none_or, List.find?_cons, List.find?_nil]
    cases hb : (n == n') <;> simp

theorem find_append (l : List (String × Nat)) (n n' : String) (a : Nat) :
    Spec.find (l ++ [(n, a)]) n' =
      match Spec.find l n' with
      | some x => some x
      | none => if n == n' then some a else none := by
  unfold Spec.find
  rw [List.find?_append]
  cases hf : List.find? (fun e => e.1 == n') l with
  | some e => simp
  | none =>
    simp only [Option.none_or, List.find?_cons, List.find?_nil]
    cases hb : (n == n') <;> simp

/-! ### one directive -/

def CleanDirective : Directive → Prop
  | .db _ items => ∀ x ∈ items, CleanItem x
  | _ => True

theorem foldItems_pass {α : Type} (f : St → α → Except Err St) (hf : ∀ st x st1, f st x = .ok st1 → st1.pass = st.pass) :
    ∀ (xs : List α) (st st' : St), foldItems f st xs = .ok st' → st'.pass = st.pass := by
  intro xs
  induction xs with
  | nil => intro st st' h; simp only [foldItems, Except.ok.injEq] at h; subst h; rfl
  | cons x xs ih =>
    intro st st' h
    simp only [foldItems] at h
    split at h
    · rename_i st1 h1
      rw [ih _ _ h, hf _ _ _ h1]
    · simp at h

theorem writeBytes_pass (st : St) (bs : List Byte) : (writeBytes st bs).pass = st.pass := (writeBytes_keeps bs st).2.1

theorem dbItem_pass (z : Bool) (st : St) (x : Item) (st1 : St) (h : dbItem z st x = .ok st1) : st1.pass = st.pass := by
  cases x with
  | num o =>
    simp only [dbItem, dbNum] at h
    split at h
    · simp at h
    · split at h
      · simp at h
      · simp only [Except.ok.injEq] at h; subst h; rfl
  | str raw =>
    simp only [dbItem] at h
    split at h
    · simp at h
    · split at h
      · simp at h
      · simp only [Except.ok.injEq] at h; subst h
        split
        · simp [writeBytes_pass]
        · simp [writeBytes_pass]

theorem dc16Item_pass (st : St) (o : Operand) (st1 : St) (h : dc16Item st o = .ok st1) : st1.pass = st.pass := by
  simp only [dc16Item] at h
  split at h
  · simp at h
  · split at h
    · simp at h
    · simp only [Except.ok.injEq] at h; subst h; exact writeBytes_pass _ _

theorem dc32Item_pass (st : St) (o : Operand) (st1 : St) (h : dc32Item st o = .ok st1) : st1.pass = st.pass := by
  simp only [dc32Item] at h
  split at h
  · simp at h
  · simp only [Except.ok.injEq] at h; subst h; exact writeBytes_pass _ _

theorem dc64Item_pass (st : St) (o : Operand) (st1 : St) (h : dc64Item st o = .ok st1) : st1.pass = st.pass := by
  simp only [dc64Item] at h
  split at h
  · simp at h
  · simp only [Except.ok.injEq] at h; subst h; exact writeBytes_pass _ _

theorem abs_setEndian (m : Memory) (b : Bool) (a : BitVec 32) : abs { m with bigEndian := b } a = abs m a := rfl

theorem nat_le_mul (k b : Nat) (hb : 0 < b) : k ≤ k * b := Nat.le_mul_of_pos_right k hb

/-- **one directive.**  If the documents give the directive a meaning `s'` from `s` (counter still inside the address
space, strings clean), the model's step succeeds and its state refines `s'`. -/
theorem step_ok {bpa : Nat} (st : St) (s : Spec.State) (d : Directive) (s' : Spec.State)
    (hc : CleanDirective d) (h : RelFull bpa st s)
    (hs : Spec.step bpa (decide (st.pass = 1)) s d = .ok s') (hfit : s'.loc ≤ 4294967296) :
    ∃ st', step st d = .ok st' ∧ RelFull bpa st' s' ∧ st'.pass = st.pass := by
  cases d with
  | org o =>
    simp only [Spec.step] at hs
    obtain ⟨i, hv, hf⟩ := withValue_ok hs
    obtain ⟨v, he, hi⟩ := value_ok h o i hv
    split at hf
    · rename_i hr
      obtain ⟨h0, hlt⟩ := hr
      simp only [Spec.Outcome.ok.injEq] at hf
      subst hf
      have hk : (i.toNat : Int) = i := Int.toNat_of_nonneg h0
      have hmul : i * (bpa : Int) = ((i.toNat * bpa : Nat) : Int) := by rw [Int.natCast_mul, hk]
      have hle := nat_le_mul i.toNat bpa h.bpaPos
      rw [hmul] at hlt
      have hn := narrow_toNat v (by omega) (by omega)
      refine ⟨{ st with address := narrow v * st.bpa }, ?_, ?_, rfl⟩
      · simp only [step, evalInt_ok he (by omega) (by omega)]
      · exact { addr := by
                  show (narrow v * st.bpa).toNat = (i.toNat * bpa) % 4294967296
                  rw [BitVec.toNat_mul, h.bpaEq]
                  have : (narrow v).toNat = i.toNat := by omega
                  rw [this]
                cells := h.cells, big := h.big, bpaEq := h.bpaEq, bpaPos := h.bpaPos, syms := h.syms, good := h.good,
                pass := h.pass }
    · simp at hf
  | db z items =>
    obtain ⟨st', e, r⟩ := fold_ok (dbItem z) (Spec.dbItem bpa z) CleanItem
      (fun st s x s1 hx hr hs1 hf1 => dbItem_ok z st s x s1 hx hr hs1 hf1) (dbItem_mono bpa z) items st s s' hc h hs hfit
    exact ⟨st', e, r, foldItems_pass _ (dbItem_pass z) _ _ _ e⟩
  | dc16 os =>
    obtain ⟨st', e, r⟩ := fold_ok dc16Item (Spec.dc16Item bpa) (fun _ => True)
      (fun st s x s1 _ hr hs1 hf1 => dc16Item_ok st s x s1 hr hs1 hf1) (dc16Item_mono bpa) os st s s'
      (fun _ _ => trivial) h hs hfit
    exact ⟨st', e, r, foldItems_pass _ dc16Item_pass _ _ _ e⟩
  | dc32 os =>
    obtain ⟨st', e, r⟩ := fold_ok dc32Item (Spec.dcWide 4 bpa) (fun _ => True)
      (fun st s x s1 _ hr hs1 hf1 => dc32Item_ok st s x s1 hr hs1 hf1) (dcWide_mono 4 bpa) os st s s'
      (fun _ _ => trivial) h hs hfit
    exact ⟨st', e, r, foldItems_pass _ dc32Item_pass _ _ _ e⟩
  | dc64 os =>
    obtain ⟨st', e, r⟩ := fold_ok dc64Item (Spec.dcWide 8 bpa) (fun _ => True)
      (fun st s x s1 _ hr hs1 hf1 => dc64Item_ok st s x s1 hr hs1 hf1) (dcWide_mono 8 bpa) os st s s'
      (fun _ _ => trivial) h hs hfit
    exact ⟨st', e, r, foldItems_pass _ dc64Item_pass _ _ _ e⟩
  | resb o =>
    simp only [Spec.step] at hs
    obtain ⟨i, hv, hf⟩ := withValue_ok hs
    obtain ⟨v, he, hi⟩ := value_ok h o i hv
    split at hf
    · rename_i hr
      simp only [Spec.Outcome.ok.injEq] at hf
      subst hf
      have hn := narrow_toNat v (by omega) (by omega)
      refine ⟨{ st with address := st.address + narrow v * 1 }, ?_, ?_, rfl⟩
      · simp only [step, evalInt_ok he (by omega) (by omega)]
      · exact { addr := by
                  show (st.address + narrow v * 1).toNat = (s.loc + i.toNat) % 4294967296
                  have h1 : (1 : BitVec 32).toNat = 1 := rfl
                  rw [BitVec.toNat_add, BitVec.toNat_mul, h.addr, h1]
                  have hlt := (narrow v).isLt
                  omega
                cells := h.cells, big := h.big, bpaEq := h.bpaEq, bpaPos := h.bpaPos, syms := h.syms, good := h.good,
                pass := h.pass }
    · simp at hf
  | resw o =>
    simp only [Spec.step] at hs
    obtain ⟨i, hv, hf⟩ := withValue_ok hs
    obtain ⟨v, he, hi⟩ := value_ok h o i hv
    split at hf
    · rename_i hr
      simp only [Spec.Outcome.ok.injEq] at hf
      subst hf
      have hn := narrow_toNat v (by omega) (by omega)
      refine ⟨{ st with address := st.address + narrow v * 2 }, ?_, ?_, rfl⟩
      · simp only [step, evalInt_ok he (by omega) (by omega)]
      · exact { addr := by
                  show (st.address + narrow v * 2).toNat = (s.loc + 2 * i.toNat) % 4294967296
                  have h2 : (2 : BitVec 32).toNat = 2 := rfl
                  rw [BitVec.toNat_add, BitVec.toNat_mul, h.addr, h2]
                  have hlt := (narrow v).isLt
                  omega
                cells := h.cells, big := h.big, bpaEq := h.bpaEq, bpaPos := h.bpaPos, syms := h.syms, good := h.good,
                pass := h.pass }
    · simp at hf
  | alignBits o =>
    simp only [Spec.step] at hs
    obtain ⟨i, hv, hf⟩ := withValue_ok hs
    obtain ⟨v, he, hi⟩ := value_ok h o i hv
    split at hf
    · rename_i h8
      obtain ⟨c1, c2, st', e, r, hp⟩ := align_ok h (i / 8) hf
      have hnv := narrow_eq_ofNat v (by omega) (by omega)
      have hk : i.toNat = 8 * (i / 8).toNat := by omega
      have hmem : (i / 8).toNat ≤ 1024 := by omega
      -- the argument in bits, as a 32-bit int: divisible by 8, quotient = the byte count
      have hbits : ∀ k, k ≤ 1024 → (BitVec.ofNat 32 (8 * k)).srem 8 = 0 ∧
          (BitVec.ofNat 32 (8 * k)).sdiv 8 = BitVec.ofNat 32 k := by decide +kernel
      obtain ⟨b1, b2⟩ := hbits _ hmem
      refine ⟨st', ?_, r, hp⟩
      simp only [step, evalInt_ok he (by omega) (by omega), hnv, hi, hk, b1, b2]
      simpa using e
    · simp at hf
  | alignBytes o =>
    simp only [Spec.step] at hs
    obtain ⟨i, hv, hf⟩ := withValue_ok hs
    obtain ⟨v, he, hi⟩ := value_ok h o i hv
    obtain ⟨c1, c2, st', e, r, hp⟩ := align_ok h i hf
    have hnv := narrow_eq_ofNat v (by omega) (by omega)
    refine ⟨st', ?_, r, hp⟩
    simp only [step, evalInt_ok he (by omega) (by omega), hnv, hi]
    exact e
  | dataFill vo no =>
    simp only [Spec.step] at hs
    obtain ⟨i, hv, hf⟩ := withValue_ok hs
    obtain ⟨n, hvn, hf2⟩ := withValue_ok hf
    obtain ⟨v, he, hi⟩ := value_ok h vo i hv
    obtain ⟨c, hec, hci⟩ := value_ok h no n hvn
    split at hf2
    · rename_i hr
      obtain ⟨r1, r2, r3, r4⟩ := hr
      simp only [Spec.Outcome.ok.injEq] at hf2
      subst hf2
      have hvi := narrow_toInt v (by omega) (by omega)
      have hcn := narrow_toInt c (by omega) (by omega)
      have hcnat := narrow_toNat c (by omega) (by omega)
      have hbyte : ((narrow v &&& 0xff).setWidth 8 : BitVec 8) = BitVec.ofInt 8 i := by
        rw [← hi, ofInt8_toInt]; unfold narrow; bv_decide
      have hcount : (narrow c).toNat = n.toNat := by omega
      refine ⟨writeBytes st (List.replicate n.toNat (BitVec.ofInt 8 i)), ?_, ?_, writeBytes_pass _ _⟩
      · simp only [step, evalInt_ok he (by omega) (by omega), evalInt_ok hec (by omega) (by omega), hvi, hcn]
        rw [if_neg (by omega), if_neg (by omega), hbyte, hcount]
      · exact emit_full h _ (by simpa using hfit)
    · simp at hf2
  | binfile content =>
    simp only [Spec.step, Spec.Outcome.ok.injEq] at hs
    subst hs
    exact ⟨writeBytes st content, rfl, emit_full h _ (by simpa using hfit), writeBytes_pass _ _⟩
  | bigEndian =>
    simp only [Spec.step, Spec.Outcome.ok.injEq] at hs
    subst hs
    exact ⟨_, rfl, { addr := h.addr, cells := fun a => h.cells a, big := rfl, bpaEq := h.bpaEq, bpaPos := h.bpaPos,
                     syms := h.syms, good := h.good, pass := h.pass }, rfl⟩
  | littleEndian =>
    simp only [Spec.step, Spec.Outcome.ok.injEq] at hs
    subst hs
    exact ⟨_, rfl, { addr := h.addr, cells := fun a => h.cells a, big := rfl, bpaEq := h.bpaEq, bpaPos := h.bpaPos,
                     syms := h.syms, good := h.good, pass := h.pass }, rfl⟩
  | label name =>
    simp only [Spec.step] at hs
    rcases h.pass with hp | hp
    · -- first reading: the label is defined
      simp only [hp, decide_true, if_true] at hs
      split at hs
      · simp at hs
      · rename_i hnew
        split at hs
        · rename_i hl
          simp only [Spec.Outcome.ok.injEq] at hs
          subst hs
          have hnone : Spec.find s.syms name = none := by
            cases hx : Spec.find s.syms name with
            | none => rfl
            | some a => simp [hx] at hnew
          have hlk : lookup st.symbols name = none := by rw [h.syms name, hnone]; rfl
          have ha : st.address.toNat = s.loc := by rw [h.addr]; omega
          have hval : st.address / st.bpa = BitVec.ofNat 32 (Spec.here bpa s) := by
            apply BitVec.eq_of_toNat_eq
            rw [BitVec.toNat_udiv, ha, h.bpaEq, BitVec.toNat_ofNat, Spec.here]
            exact (Nat.mod_eq_of_lt (Nat.lt_of_le_of_lt (Nat.div_le_self _ _) hl)).symm
          refine ⟨{ st with symbols := st.symbols ++ [(name, st.address / st.bpa)] }, ?_, ?_, rfl⟩
          · simp only [step, defineLabel, hlk]
            rw [if_neg (by omega)]
            simp
          · exact { addr := h.addr, cells := h.cells, big := h.big, bpaEq := h.bpaEq, bpaPos := h.bpaPos
                    syms := by
                      intro n'
                      show lookup (st.symbols ++ [(name, st.address / st.bpa)]) n' =
                        (Spec.find (s.syms ++ [(name, Spec.here bpa s)]) n').map (BitVec.ofNat 32)
                      rw [lookup_append, find_append, h.syms n', hval]
                      cases Spec.find s.syms n' with
                      | some x => rfl
                      | none => cases (name == n') <;> rfl
                    good := by
                      intro e he
                      rcases List.mem_append.mp he with c | c
                      · exact h.good e c
                      · simp only [List.mem_singleton] at c
                        subst c
                        exact Nat.lt_of_le_of_lt (Nat.div_le_self _ _) hl
                    pass := h.pass }
        · simp at hs
    · -- second reading: labels are known
      have hne : ¬ st.pass = 1 := by omega
      simp only [hne, decide_false, Bool.false_eq_true, if_false, Spec.Outcome.ok.injEq] at hs
      subst hs
      exact ⟨st, by simp only [step, defineLabel, hp, if_true], h, rfl⟩

/-- **whole directive lists, one pass.** -/
theorem place_ok {bpa : Nat} (ds : List Directive) : ∀ (st : St) (s s' : Spec.State),
    (∀ d ∈ ds, CleanDirective d) → RelFull bpa st s →
    Spec.place bpa (decide (st.pass = 1)) s ds = .ok s' →
    ∃ st', runPass st ds = .ok st' ∧ RelFull bpa st' s' ∧ st'.pass = st.pass := by
  induction ds with
  | nil =>
    intro st s s' _ h hs
    simp only [Spec.place, Spec.Outcome.ok.injEq] at hs
    subst hs
    exact ⟨st, rfl, h, rfl⟩
  | cons d ds ih =>
    intro st s s' hc h hs
    simp only [Spec.place] at hs
    split at hs
    · rename_i s1 h1
      split at hs
      · rename_i hfit
        obtain ⟨st1, e1, r1, p1⟩ := step_ok st s d s1 (hc d (by simp)) h h1 hfit
        rw [← p1] at hs
        obtain ⟨st', e2, r2, p2⟩ := ih st1 s1 s' (fun x hx => hc x (by simp [hx])) r1 hs
        exact ⟨st', by simp only [runPass, e1, e2], r2, by rw [p2, p1]⟩
      · simp at hs
    · simp at hs
    · simp at hs

/-! ### strings without a backslash are clean -/

theorem lexQuoted_plain : ∀ (raw : List Byte), (∀ c ∈ raw, c ≠ 0x5c#8) → lexQuoted raw = some raw
  | [], _ => by simp [lexQuoted]
  | [c], h => by
    have : c ≠ 0x5c#8 := h c (by simp)
    simp [lexQuoted, this]
  | c :: e :: rest, h => by
    have hc : c ≠ 0x5c#8 := h c (by simp)
    have ih := lexQuoted_plain (e :: rest) (fun x hx => h x (by simp [hx]))
    rw [lexQuoted]
    simp [hc, ih]

theorem dbString_plain : ∀ (raw : List Byte), (∀ c ∈ raw, c ≠ 0x5c#8) → dbString raw = raw
  | [], _ => by simp [dbString]
  | [c], _ => by simp [dbString]
  | c :: e :: rest, h => by
    have hc : c ≠ 0x5c#8 := h c (by simp)
    have ih := dbString_plain (e :: rest) (fun x hx => h x (by simp [hx]))
    rw [dbString]
    simp [hc, ih]

theorem unescape_plain : ∀ (raw : List Byte), (∀ c ∈ raw, c ≠ 0x5c#8) → Spec.unescape raw = some raw
  | [], _ => by simp [Spec.unescape]
  | [c], h => by
    have : c ≠ 0x5c#8 := h c (by simp)
    simp [Spec.unescape, this]
  | c :: e :: rest, h => by
    have hc : c ≠ 0x5c#8 := h c (by simp)
    have ih := unescape_plain (e :: rest) (fun x hx => h x (by simp [hx]))
    rw [Spec.unescape]
    simp [hc, ih]

theorem cleanString_of_plain (raw : List Byte) (h : ∀ c ∈ raw, c ≠ 0x5c#8) (hl : raw.length < Generated.tokenLen - 1) :
    CleanString raw :=
  ⟨raw, lexQuoted_plain raw h, hl, by rw [dbString_plain raw h]; exact unescape_plain raw h⟩

end NakenVerif.Core.Directives
