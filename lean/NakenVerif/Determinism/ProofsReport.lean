/-
Reporting non-interference (instance `R := Eq` of ProofsSim) and main(): what the assembler leaves (image cells,
low / high, byte order, symbols, counters, exit status) is the same whatever -l, -q, -dump_symbols, -dump_macros,
the output type and the output name are.
-/
import NakenVerif.Determinism.ProofsSim

namespace NakenVerif.Determinism

theorem cellRel_eq : CellRel (fun m1 m2 : Cells => m1 = m2) :=
  { write := by intro m1 m2 a v h; rw [h]
    flag := by intro m1 m2 h a; rw [h] }

theorem full_eq : Full (fun m1 m2 : Cells => m1 = m2) := fun _ _ h => h

/-- the assembler part of a context: everything except `Rep` -/
abbrev CoreEq (c1 c2 : Ctx) : Prop := Sim (fun m1 m2 : Cells => m1 = m2) c1 c2

theorem exec_coreEq (p : Prog) {c1 c2 : Ctx} (h : CoreEq c1 c2) :
    (exec p c1).ok = (exec p c2).ok ∧ CoreEq (exec p c1).ctx (exec p c2).ctx :=
  exec_sim cellRel_eq p (Or.inl full_eq) h

/-! ### main() -/

@[simp] theorem printInfo_k (c : Ctx) (b : Bool) : (printInfo c b).k = c.k := by
  unfold printInfo; split
  · rfl
  · simp only; split <;> simp
@[simp] theorem printInfo_cell (c : Ctx) (b : Bool) : (printInfo c b).cell = c.cell := by
  unfold printInfo; split
  · rfl
  · simp only; split <;> simp
@[simp] theorem dataSections_k (c : Ctx) : (dataSections c).k = c.k := by unfold dataSections; simp
@[simp] theorem dataSections_cell (c : Ctx) : (dataSections c).cell = c.cell := by unfold dataSections; simp

theorem finish_k (c : Ctx) (ok : Bool) (f : Option (String × Nat)) : (finish c ok f).k = c.k := by
  unfold finish; simp only; split <;> split <;> simp
theorem finish_cell (c : Ctx) (ok : Bool) (f : Option (String × Nat)) : (finish c ok f).cell = c.cell := by
  unfold finish; simp only; split <;> split <;> simp
theorem finish_status (c : Ctx) (ok : Bool) (f : Option (String × Nat)) :
    (finish c ok f).status = if ok then 0 else 1 := rfl
theorem finish_file (c : Ctx) (ok : Bool) (f : Option (String × Nat)) : (finish c ok f).file = f := rfl

/-- options that are not reporting options, output type or output name -/
def SameAssembly (o1 o2 : Opts) : Prop := o1.optimize = o2.optimize

theorem applyOpts_coreEq (depth : Nat) {o1 o2 : Opts} (h : SameAssembly o1 o2) :
    CoreEq (applyOpts o1 (construct depth)) (applyOpts o2 (construct depth)) := by
  unfold SameAssembly at h
  exact ⟨by simp [applyOpts, h], rfl⟩

theorem CoreEq.init {c1 c2 : Ctx} (h : CoreEq c1 c2) : CoreEq (init c1) (init c2) := Sim.mapK h initK

/-- what main() leaves of the assembly proper: exit status, cells, `K`; and whether a file was written -/
structure Outcome where
  status : Nat
  cell : Cells
  k : K
  wrote : Bool

def MainResult.outcome (r : MainResult) : Outcome :=
  { status := r.status, cell := r.cell, k := r.k, wrote := r.file.isSome }

theorem pass1Start_coreEq (initF : Ctx → Ctx) (hinit : ∀ c1 c2, CoreEq c1 c2 → CoreEq (initF c1) (initF c2))
    (depth : Nat) {o1 o2 : Opts} (h : SameAssembly o1 o2) :
    CoreEq (pass1Start initF depth o1) (pass1Start initF depth o2) :=
  hinit _ _ (Sim.say (applyOpts_coreEq depth h) _ _)

theorem pass2Start_coreEq (initF : Ctx → Ctx) (hinit : ∀ c1 c2, CoreEq c1 c2 → CoreEq (initF c1) (initF c2))
    (b1 b2 : Bool) {c1 c2 : Ctx} (h : CoreEq c1 c2) :
    CoreEq (pass2Start initF b1 c1) (pass2Start initF b2 c2) := by
  unfold pass2Start
  have h2 : CoreEq ({ c1 with k := { c1.k with symsLocked := true, pass := 2 } }.say "Pass 2...")
                   ({ c2 with k := { c2.k with symsLocked := true, pass := 2 } }.say "Pass 2...") :=
    (Sim.mapK h (fun k => { k with symsLocked := true, pass := 2 })).say _ _
  have h3 := hinit _ _ h2
  cases b1 <;> cases b2 <;> exact h3

theorem outcome_finish (c1 c2 : Ctx) (h : CoreEq c1 c2) (ok : Bool) (f1 f2 : Option (String × Nat))
    (hf : f1.isSome = f2.isSome) : (finish c1 ok f1).outcome = (finish c2 ok f2).outcome := by
  simp only [MainResult.outcome, finish_status, finish_k, finish_cell, finish_file, h.1, h.2, hf]

theorem mainWith_outcome_indep (initF : Ctx → Ctx)
    (hinit : ∀ c1 c2, CoreEq c1 c2 → CoreEq (initF c1) (initF c2))
    (depth : Nat) (o1 o2 : Opts) (h : SameAssembly o1 o2) (p : Prog) :
    (mainWith initF depth o1 p).outcome = (mainWith initF depth o2 p).outcome := by
  unfold mainWith
  have h1 := exec_coreEq p (pass1Start_coreEq initF hinit depth h)
  revert h1
  generalize exec p (pass1Start initF depth o1) = r1
  generalize exec p (pass1Start initF depth o2) = r2
  intro h1
  simp only
  rw [h1.1]
  split
  · exact outcome_finish _ _ (Sim.say h1.2 _ _) _ _ _ rfl
  · have h5 := exec_coreEq p (pass2Start_coreEq initF hinit o1.list o2.list h1.2)
    revert h5
    generalize exec p (pass2Start initF o1.list r1.ctx) = s1
    generalize exec p (pass2Start initF o2.list r2.ctx) = s2
    intro h5
    rw [h5.1]
    split
    · exact outcome_finish _ _ h5.2 _ _ _ rfl
    · exact outcome_finish _ _ h5.2 _ _ _ rfl

theorem mainRun_outcome_indep (depth : Nat) (o1 o2 : Opts) (h : SameAssembly o1 o2) (p : Prog) :
    (mainRun depth o1 p).outcome = (mainRun depth o2 p).outcome :=
  mainWith_outcome_indep init (fun _ _ h => CoreEq.init h) depth o1 o2 h p

end NakenVerif.Determinism
