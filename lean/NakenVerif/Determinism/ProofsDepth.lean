/-
`static int depth` of include_parse() — the one piece of assembler state that outlives an AsmContext — is restored
by every run of the statement loop (`exec_depth`), successful or not; hence by main() (`mainWith_depth`), hence a
process that has performed any number of assemblies starts the next one exactly like a fresh process
(`history_irrelevant`).
-/
import NakenVerif.Determinism.ProofsReport

namespace NakenVerif.Determinism

abbrev D (c : Ctx) : Nat := c.k.includeDepth

@[simp] theorem write_D (c : Ctx) (a : Addr) (d : BitVec 8) (l : Int) : D (c.write a d l) = D c := rfl
@[simp] theorem writeInc_D (c : Ctx) (d : BitVec 8) (l : Int) : D (c.writeInc d l) = D c := rfl

@[simp] theorem writeBytes_D (l : Int) (bs : List (BitVec 8)) : ∀ c : Ctx, D (c.writeBytes l bs) = D c := by
  induction bs with
  | nil => intro c; rfl
  | cons b bs ih => intro c; unfold Ctx.writeBytes; rw [ih]; rfl

@[simp] theorem addBin8_D (c : Ctx) (b : BitVec 8) : D (c.addBin8 b) = D c := by
  unfold Ctx.addBin8; split <;> rfl

@[simp] theorem addBin16_D (c : Ctx) (w : BitVec 16) : D (c.addBin16 w) = D c := by
  unfold Ctx.addBin16; simp only; split
  · rfl
  · split <;> rfl

@[simp] theorem listAppend_D (c : Ctx) (ls : List String) : D (c.listAppend ls) = D c := by
  show (c.listAppend ls).k.includeDepth = _; rw [listAppend_k]
@[simp] theorem echo_D (c : Ctx) (t : String) : D (c.echo t) = D c := by
  show (c.echo t).k.includeDepth = _; rw [echo_k]
@[simp] theorem say_D (c : Ctx) (t : String) : D (c.say t) = D c := by
  show (c.say t).k.includeDepth = _; rw [say_k]

@[simp] theorem movPad_D (c : Ctx) : D (movPad c) = D c := by unfold movPad; split <;> rfl

theorem movEval_D (c : Ctx) (o : Operand) (d : Ctx) (v : BitVec 32) (h : movEval c o = some (d, v)) : D d = D c := by
  unfold movEval at h
  split at h
  · cases h; rfl
  · split at h
    · cases h; rfl
    · cases h

theorem movEmit_D (c : Ctx) (v : BitVec 32) (reg : Nat) (d : Ctx) (h : movEmit c v reg = some d) : D d = D c := by
  unfold movEmit at h
  simp only at h
  split at h
  · cases h; simp
  · split at h
    · cases h
    · cases h; simp

@[simp] theorem movFinish_D (c : Ctx) (start : Addr) : D (movFinish c start) = D c := by
  show (movFinish c start).k.includeDepth = _; rw [movFinish_k]

theorem movImm_D (c : Ctx) (o : Operand) (reg : Nat) : D (movImm c o reg).ctx = D c := by
  unfold movImm
  split
  · rfl
  · cases h1 : movEval (movPad c) o with
    | none => simp
    | some dv =>
      obtain ⟨d, v⟩ := dv
      have hd := movEval_D _ _ _ _ h1
      simp only
      cases h2 : movEmit d v reg with
      | none => simp only; rw [hd]; simp
      | some e => simp only [movFinish_D]; rw [movEmit_D _ _ _ _ h2, hd]; simp

theorem symAppend_depth (k k' : K) (n : Nat) (a : BitVec 32) (h : symAppend k n a = some k') :
    k'.includeDepth = k.includeDepth := by
  unfold symAppend at h
  split at h
  · split at h
    · split at h
      · cases h
      · cases h; rfl
    · cases h
  · split at h
    · cases h; rfl
    · cases h; rfl

theorem stepCore_D (s : Simple) (c : Ctx) : D (stepCore s c).ctx = D c := by
  cases s with
  | movImm o reg => exact movImm_D c o reg
  | label n =>
    unfold stepCore; simp only
    split
    · rfl
    · cases h : symAppend c.k n (c.k.address / c.k.bpa) with
      | none => rfl
      | some k' => exact symAppend_depth _ _ _ _ h
  | cpu idx =>
    unfold stepCore; simp only
    cases Generated.cpuList[idx]? with
    | none => rfl
    | some i => rfl
  | endian big => rfl
  | seg bss => rfl
  | org a => rfl
  | resb n => rfl
  | db bs =>
    unfold stepCore; simp only
    split
    · rfl
    · show D (c.writeBytes _ bs) = _; simp
  | dw o =>
    unfold stepCore; simp only
    split
    · rfl
    · cases evalData c.k o with
      | none => rfl
      | some v =>
        simp only
        split
        · rfl
        · show D (c.writeBytes _ _) = _; simp
  | dd o =>
    unfold stepCore; simp only
    split
    · rfl
    · cases evalData c.k o with
      | none => rfl
      | some v => show D (c.writeBytes _ _) = _; simp
  | define n v =>
    unfold stepCore; simp only
    split <;> rfl
  | list =>
    unfold stepCore; simp only
    split
    · simp
    · rfl

theorem step_D (s : Simple) (c : Ctx) : D (step s c).ctx = D c := by
  unfold step; rw [stepCore_D]; simp

theorem copyRange_D (n : Nat) : ∀ (c : Ctx) (src : Addr), D (copyRange c src n) = D c := by
  induction n with
  | zero => intro c src; rfl
  | succ n ih =>
    intro c src
    unfold copyRange
    simp only
    rw [ih]
    split <;> simp

theorem copies_D (src : Addr) (len : Nat) (n : Nat) : ∀ c : Ctx, D (copies c src len n) = D c := by
  induction n with
  | zero => intro c; rfl
  | succ n ih => intro c; unfold copies; rw [ih, copyRange_D]

@[simp] theorem ifdefEnter_D (c : Ctx) : D (ifdefEnter c) = D c := by unfold ifdefEnter; simp
@[simp] theorem ifdefLeave_D (c : Ctx) : D (ifdefLeave c) = D c := rfl
@[simp] theorem repeatEnter_D (c : Ctx) : D (repeatEnter c) = D c := by unfold repeatEnter; simp
@[simp] theorem repeatFinish_D (c : Ctx) (start : Addr) (count : Int) : D (repeatFinish c start count) = D c := by
  show (repeatFinish c start count).k.includeDepth = _
  rw [repeatFinish_k]
  exact copies_D _ _ _ _
@[simp] theorem includeEnter_D (c : Ctx) : D (includeEnter c) = D c + 1 := rfl
@[simp] theorem includeLeave_D (b : Bool) (c : Ctx) : D (includeLeave b c) = D c - 1 := rfl

theorem exec_depth (p : Prog) : ∀ c : Ctx, D (exec p c).ctx = D c := by
  induction p with
  | nil => intro c; rfl
  | simple s rest ih =>
    intro c
    unfold exec
    simp only
    split
    · rw [ih, step_D]
    · exact step_D s c
  | ifdef neg name t e rest iht ihe ihr =>
    intro c
    unfold exec
    have hb : D (if ifdefIgnore neg name (ifdefEnter c) then exec e (ifdefEnter c) else exec t (ifdefEnter c)).ctx = D c := by
      split
      · rw [ihe]; simp
      · rw [iht]; simp
    revert hb
    generalize (if ifdefIgnore neg name (ifdefEnter c) then exec e (ifdefEnter c) else exec t (ifdefEnter c)) = r
    intro hb
    simp only
    split
    · rw [ihr]; simpa using hb
    · exact hb
  | «repeat» count body rest ihb ihr =>
    intro c
    unfold exec
    simp only
    split
    · rfl
    · split
      · rw [ihr, repeatFinish_D, ihb]; simp
      · rw [ihb]; simp
  | «include» body rest ihb ihr =>
    intro c
    unfold exec
    simp only
    split
    · rfl
    · split
      · rw [ihr, includeLeave_D, ihb]; simp
      · show D (includeLeave _ _) = _
        rw [includeLeave_D, ihb]; simp

/-! ### main() and histories -/

theorem finish_depth (c : Ctx) (ok : Bool) (f : Option (String × Nat)) : (finish c ok f).k.includeDepth = D c := by
  rw [finish_k]

theorem mainRun_depth (depth : Nat) (o : Opts) (p : Prog) : (mainRun depth o p).k.includeDepth = depth := by
  unfold mainRun mainWith
  simp only
  have h1 : D (pass1Start init depth o) = depth := by
    unfold pass1Start; show (initK _).includeDepth = _; simp [initK, applyOpts, construct]
  split
  · rw [finish_depth, say_D, exec_depth, h1]
  · have h2 : D (pass2Start init o.list (exec p (pass1Start init depth o)).ctx) = depth := by
      unfold pass2Start
      simp only
      split
      · show (initK _).includeDepth = _
        simp only [initK, say_k]
        exact (exec_depth p _).trans h1
      · show (initK _).includeDepth = _
        simp only [initK, say_k]
        exact (exec_depth p _).trans h1
    split
    · rw [finish_depth, exec_depth, h2]
    · rw [finish_depth, exec_depth, h2]

/-- a process: the assemblies it has been asked to perform, in order; the include depth is threaded through -/
def runHistory (depth : Nat) : List (Opts × Prog) → Nat
  | [] => depth
  | (o, p) :: rest => runHistory (mainRun depth o p).k.includeDepth rest

theorem runHistory_depth (depth : Nat) (hist : List (Opts × Prog)) : runHistory depth hist = depth := by
  induction hist generalizing depth with
  | nil => rfl
  | cons op rest ih => obtain ⟨o, p⟩ := op; unfold runHistory; rw [mainRun_depth, ih]

/-- the assembly performed after an arbitrary history of earlier assemblies in the same process is the assembly a
fresh process performs -/
theorem history_irrelevant (hist : List (Opts × Prog)) (o : Opts) (p : Prog) :
    mainRun (runHistory 0 hist) o p = mainRun 0 o p := by rw [runHistory_depth]

end NakenVerif.Determinism
