/-
The reset points.

* `initK_overwrites`: AsmContext::init() (as fixed) leaves of the previous pass only the image bounds, the symbol
  table and its lock, `pass`, the error flag / count, -optimize and the process-wide include depth: two contexts
  that agree on those are equal after init().  So the start of pass 2 does not depend on the byte order, CPU
  selection, lexer flags, segment, location counter, counters, macro table, reader state … that pass 1 ended with.
* `init_matches_code`, `construct_matches_code`: the model's `initK` / `construct` map the translator's probe
  (harness/nv_dump_det.cpp: a context with every member set to a foreign value, printed before and after the real
  init()) exactly like the code.
* `exec_depth`: the only state that survives an assembly in the process — `static int depth` of include_parse() —
  is back at its old value when the statement loop returns, whatever the program and whether it failed.
-/
import NakenVerif.Determinism.ProofsSim
import NakenVerif.Generated.DetProbe

namespace NakenVerif.Determinism
open Generated

/-- the members AsmContext::init() does not assign -/
structure Kept where
  low : Addr
  high : Addr
  syms : List (Nat × BitVec 32)
  symsLocked : Bool
  pass : Nat
  errorCount : Nat
  error : Bool
  optimize : Bool
  includeDepth : Nat
  deriving DecidableEq

def K.kept (k : K) : Kept :=
  { low := k.low, high := k.high, syms := k.syms, symsLocked := k.symsLocked, pass := k.pass,
    errorCount := k.errorCount, error := k.error, optimize := k.optimize, includeDepth := k.includeDepth }

theorem initK_overwrites (k1 k2 : K) (h : k1.kept = k2.kept) : initK k1 = initK k2 := by
  cases k1; cases k2
  simp only [K.kept, Kept.mk.injEq] at h
  obtain ⟨h1, h2, h3, h4, h5, h6, h7, h8, h9⟩ := h
  subst h1 h2 h3 h4 h5 h6 h7 h8 h9
  rfl

theorem initK_kept (k : K) : (initK k).kept = k.kept := rfl

/-! ### the probe of the real constructor and the real init() -/

def probeOf (k : K) (r : Rep) : Probe :=
  { low := k.low.toNat, high := k.high.toNat, bigEndian := k.bigEndian, symCount := k.syms.length,
    symsLocked := k.symsLocked, macrosPool := !k.defines.isEmpty, macroStackPtr := k.macroStackPtr, line := k.line,
    pending := k.pending, address := k.address.toNat, segmentBss := k.segmentBss, pass := k.pass,
    instructionCount := k.instructionCount, dataCount := k.dataCount, codeCount := k.codeCount,
    errorCount := k.errorCount, ifdefCount := k.ifdefCount, parsingIfdef := k.parsingIfdef,
    defParamStackCount := k.defParamStackCount, cpuListIndex := k.cpuListIndex, cpuType := k.cpuType,
    bpa := k.bpa.toNat, isDollarHex := k.lex.isDollarHex, stringsHaveDots := k.lex.stringsHaveDots,
    stringsHaveSlashes := k.lex.stringsHaveSlashes, canTickEndString := k.lex.canTickEndString,
    numbersDontHaveDots := k.lex.numbersDontHaveDots, ignoreNumberPostfix := k.lex.ignoreNumberPostfix,
    pass1WriteDisable := k.pass1WriteDisable,
    instrSet := match k.instrSet with | some i => Int.ofNat i | none => -1,
    listSet := match k.instrSet with | some i => Int.ofNat i | none => -1,
    directiveHook := k.directiveHook, linkFn := match k.linkFn with | some i => Int.ofNat i | none => -1,
    flags := k.flags, error := k.error, optimize := k.optimize, inRepeat := k.inRepeat,
    quiet := r.quiet, dumpSymbols := r.dumpSymbols, dumpMacros := r.dumpMacros, listOpen := r.list.isSome,
    writeListFile := r.writeListFile }

/-- a model state that shows the probe's values (tables: that many placeholder entries) -/
def ofProbe (p : Probe) (depth : Nat) : K × Rep :=
  ({ low := BitVec.ofNat 32 p.low, high := BitVec.ofNat 32 p.high, bigEndian := p.bigEndian,
     syms := List.replicate p.symCount (0, 0), symsLocked := p.symsLocked,
     defines := if p.macrosPool then [(0, 0)] else [], macroStackPtr := p.macroStackPtr, line := p.line,
     pending := p.pending, address := BitVec.ofNat 32 p.address, segmentBss := p.segmentBss, pass := p.pass,
     instructionCount := p.instructionCount, dataCount := p.dataCount, codeCount := p.codeCount,
     errorCount := p.errorCount, ifdefCount := p.ifdefCount, parsingIfdef := p.parsingIfdef,
     defParamStackCount := p.defParamStackCount, cpuListIndex := p.cpuListIndex, cpuType := p.cpuType,
     bpa := BitVec.ofNat 32 p.bpa,
     lex := { isDollarHex := p.isDollarHex, stringsHaveDots := p.stringsHaveDots,
              stringsHaveSlashes := p.stringsHaveSlashes, canTickEndString := p.canTickEndString,
              numbersDontHaveDots := p.numbersDontHaveDots, ignoreNumberPostfix := p.ignoreNumberPostfix },
     pass1WriteDisable := p.pass1WriteDisable,
     instrSet := if p.instrSet < 0 then none else some p.instrSet.toNat, directiveHook := p.directiveHook,
     linkFn := if p.linkFn < 0 then none else some p.linkFn.toNat, flags := p.flags, error := p.error,
     optimize := p.optimize, inRepeat := p.inRepeat, includeDepth := depth },
   { quiet := p.quiet, dumpSymbols := p.dumpSymbols, dumpMacros := p.dumpMacros,
     list := if p.listOpen then some [] else none, writeListFile := p.writeListFile, out := [] })

/-- the dirty probe is represented faithfully -/
theorem probe_roundtrip : probeOf (ofProbe probeDirty 0).1 (ofProbe probeDirty 0).2 = probeDirty := by decide

/-- AsmContext::init() of the working tree = `initK` on the probe -/
theorem init_matches_code :
    probeOf (initK (ofProbe probeDirty 0).1) (ofProbe probeDirty 0).2 = probeAfterInit := by decide

/-- AsmContext::AsmContext() of the working tree = `construct` -/
theorem construct_matches_code : probeOf (construct 0).k (construct 0).rep = probeCtor := by decide

/-- the function before the fixes does not reproduce the probe: it is not the code any more -/
theorem initBefore_differs_from_code :
    probeOf (initKBefore (ofProbe probeDirty 0).1) (ofProbe probeDirty 0).2 ≠ probeAfterInit := by decide

end NakenVerif.Determinism
