/-
What a pass sees of the image the previous pass (or anything else) left behind.

`MemRel b1 b2 m1 m2`: the two images agree on where a byte has the value 1 (the only thing a handler reads from
the image: the MSP430 "no constant generator" flag at the instruction's own address), and at every address they
either hold the same cell or both still hold what they started with (`b1`, `b2`).  It is respected by every handler
except the `.repeat` copy loop (which reads whole cells), so for programs without `.repeat`:

* `exec_mem_frame`: two runs of the same statements from the same scalars over two different prior images give the
  same verdict, the same scalars (addresses, symbols, low / high, counters) and, cell by cell, either the same
  content (the pass wrote it, or it was equal before) or the respective prior content (the pass did not touch it).
* `image_overlay`: the real pass 2 (over the image pass 1 left) against the same pass over that image with every
  mark removed: every cell is equal, or was not written by pass 2 and is a leftover of pass 1 (still marked).
  So the final image is the image pass 2 writes, overlaid on what pass 1 left.
* `no_leftover_image_eq` (the `_partial` theorem of Props): if every cell pass 1 marked is marked again by the
  mark-free run (pass 2 writes at least where pass 1 wrote), the two images are equal everywhere.
-/
import NakenVerif.Determinism.ProofsSim

namespace NakenVerif.Determinism

def FlagEq (m1 m2 : Cells) : Prop := ∀ a, ((m1 a).byte = 1 ↔ (m2 a).byte = 1)

def Frame (b1 b2 m1 m2 : Cells) : Prop := ∀ a, m1 a = m2 a ∨ (m1 a = b1 a ∧ m2 a = b2 a)

def MemRel (b1 b2 : Cells) (m1 m2 : Cells) : Prop := FlagEq m1 m2 ∧ Frame b1 b2 m1 m2

theorem cellRel_mem (b1 b2 : Cells) : CellRel (MemRel b1 b2) :=
  { write := by
      intro m1 m2 a v ⟨hf, hfr⟩
      refine ⟨?_, ?_⟩
      · intro x; unfold upd; by_cases hx : x = a
        · simp [hx]
        · simp [hx]; exact hf x
      · intro x; unfold upd; by_cases hx : x = a
        · left; simp [hx]
        · simp [hx]; exact hfr x
    flag := fun _ _ h => h.1 }

theorem memRel_start (m1 m2 : Cells) (hf : FlagEq m1 m2) : MemRel m1 m2 m1 m2 :=
  ⟨hf, fun _ => Or.inr ⟨rfl, rfl⟩⟩

theorem exec_mem_frame (p : Prog) (hp : NoRepeat p) (c1 c2 : Ctx) (hk : c1.k = c2.k)
    (hf : FlagEq c1.cell c2.cell) :
    (exec p c1).ok = (exec p c2).ok ∧ (exec p c1).ctx.k = (exec p c2).ctx.k ∧
    ∀ a, (exec p c1).ctx.cell a = (exec p c2).ctx.cell a ∨
         ((exec p c1).ctx.cell a = c1.cell a ∧ (exec p c2).ctx.cell a = c2.cell a) := by
  have h := exec_sim (cellRel_mem c1.cell c2.cell) p (Or.inr hp) (c1 := c1) (c2 := c2) ⟨hk, memRel_start _ _ hf⟩
  exact ⟨h.1, h.2.1, h.2.2.2⟩

/-- the image with every mark removed: the bytes (and with them the pass-1 flags) stay -/
def stripMarks (m : Cells) : Cells := fun a => ⟨(m a).byte, Generated.dlEmpty⟩

theorem flagEq_strip (m : Cells) : FlagEq m (stripMarks m) := fun _ => Iff.rfl

/-- the pass over the image `c.cell` against the same pass over that image without marks -/
theorem image_overlay (p : Prog) (hp : NoRepeat p) (c : Ctx) :
    let real := exec p c
    let ideal := exec p { c with cell := stripMarks c.cell }
    real.ok = ideal.ok ∧ real.ctx.k = ideal.ctx.k ∧
    ∀ a, real.ctx.cell a = ideal.ctx.cell a ∨
         (real.ctx.cell a = c.cell a ∧ ideal.ctx.cell a = ⟨(c.cell a).byte, Generated.dlEmpty⟩) :=
  exec_mem_frame p hp c { c with cell := stripMarks c.cell } rfl (flagEq_strip c.cell)

/-- every cell marked before the pass is marked by the mark-free run: the pass writes wherever something was left -/
def Covers (p : Prog) (c : Ctx) : Prop :=
  ∀ a, (c.cell a).mark ≠ Generated.dlEmpty →
    ((exec p { c with cell := stripMarks c.cell }).ctx.cell a).mark ≠ Generated.dlEmpty

theorem no_leftover_image_eq (p : Prog) (hp : NoRepeat p) (c : Ctx) (hc : Covers p c) (a : Addr) :
    image (exec p c).ctx.cell a = image (exec p { c with cell := stripMarks c.cell }).ctx.cell a := by
  obtain ⟨_, _, h⟩ := image_overlay p hp c
  rcases h a with he | ⟨h1, h2⟩
  · unfold image; rw [he]
  · -- the cell was not written: then it carried no mark before
    have hm : (c.cell a).mark = Generated.dlEmpty := by
      by_cases hx : (c.cell a).mark = Generated.dlEmpty
      · exact hx
      · have := hc a hx; rw [h2] at this; exact absurd rfl this
    unfold image; rw [h1, h2]; simp [hm]

end NakenVerif.Determinism
