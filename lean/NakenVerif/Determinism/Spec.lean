/-
Property C13, written from its statement (not from the code):

  "Assembling the same source always yields byte-identical output …, and the image does not depend on options that
   only affect reporting (-l, -q, -dump_symbols, -dump_macros), on the output type, on the output file name, on
   earlier assemblies performed in the same process, or on the contents of memory left by a previous pass.  The
   listing, when requested, is produced without altering what is assembled."

A run is observed through what a user can get out of it: exit status, the image (address ↦ byte, for the bytes
that were assembled), its bounds, the byte order and the symbols.  The definitions are over an arbitrary `run`
so that they say nothing about how an assembler is built.
-/
import NakenVerif.Determinism.Impl

namespace NakenVerif.Determinism.Spec
open NakenVerif.Determinism

/-- what a run leaves of the assembly proper -/
structure Observation where
  status : Nat
  image : Addr → Option (BitVec 8)
  low : Addr
  high : Addr
  bigEndian : Bool
  symbols : List (Nat × BitVec 32)

/-- two configurations that differ at most in what the statement lists: -l, -q, -dump_symbols, -dump_macros, the
output type, the output file name (every other option — here -optimize — is the same) -/
def ReportingVariant (o1 o2 : Opts) : Prop := o1.optimize = o2.optimize

/-- "the image does not depend on options that only affect reporting, on the output type, on the output file name" -/
def OptionIndependent (run : Opts → Prog → Observation) : Prop :=
  ∀ o1 o2 p, ReportingVariant o1 o2 → run o1 p = run o2 p

/-- "… on earlier assemblies performed in the same process": `run s` is an assembly performed by a process whose
surviving state is `s`, `after s o p` the surviving state it leaves; whatever was assembled before, the result is that
of a fresh process (`s0`) -/
def HistoryIndependent {σ : Type} (s0 : σ) (after : σ → Opts → Prog → σ) (run : σ → Opts → Prog → Observation) : Prop :=
  ∀ (hist : List (Opts × Prog)) o p, run (hist.foldl (fun s op => after s op.1 op.2) s0) o p = run s0 o p

/-- "… or on the contents of memory left by a previous pass": a pass over `prior` image content and the same pass
over other prior content `prior'` end with the same image wherever the pass assembled something -/
def PriorContentIndependent {μ : Type} (pass : μ → Prog → μ) (assembled : μ → Prog → Addr → Prop)
    (view : μ → Addr → Option (BitVec 8)) : Prop :=
  ∀ prior prior' p a, assembled prior p a → view (pass prior p) a = view (pass prior' p) a

end NakenVerif.Determinism.Spec
