/-
Implementation model for property C13: one run of the assembler as a state machine whose state contains
everything that persists between two statements, between the two passes and between two assemblies in one
process:

  * the image: one `Cell` (byte + debug_line mark) per address (core/Memory.cpp, core/MemoryPage.h: `bin[]`,
    `debug_line[]`), `low_address` / `high_address`, the byte order;
  * the symbol table and its `locked` flag (core/Symbols.cpp), the macro table and its stack pointer
    (core/Macros.cpp), the reader's line counter and pushback / unget content (core/tokens.cpp);
  * every scalar member of `AsmContext` (core/AsmContext.h) that a statement handler reads or writes;
  * the option record (-l, -q, -dump_symbols, -dump_macros live in `Rep`; -optimize and the rest in `K`);
  * the one mutable static of the assembler proper: `static int depth` of include_parse()
    (core/directives_include.cpp), here `K.includeDepth`; it lives outside the AsmContext and survives from one
    assembly to the next.

with the real reset points: `construct` (AsmContext::AsmContext() with Memory(), Symbols(), Macros()), `init`
(AsmContext::init(), as fixed by 258559a / 66c8e37 / 44d7f59; `initBefore` is the function before those fixes),
the pass switch of main() (symbols.lock(), pass = 2, init(), write_list_file).

Statements (`Simple`, `Prog`): labels, `.<cpu>`, `.big_endian` / `.little_endian`, `.bss` / `.code`, `.org`,
`.db`, `.dw` / `.dc32` of a literal or a name, `.resb`, `.define`, `.list`, the MSP430 instruction
`mov.w #<operand>, r<n>` with its pass-1 flag byte (asm/msp430.cpp), `.ifdef` / `.ifndef` with `.else`,
`.repeat` (assembles its body once and then COPIES THE IMAGE BYTES count-1 times, core/directives.cpp) and
`.include`.  Names are numbers (the driver renders `n<k>`).  Addresses and values are the C types (`uint32_t`,
`int`, 64-bit expression values) as bit vectors.

The listing (-l) is threaded through as in the code: the reader echoes the statement (tokens_get_char ->
putc(list)), `list_output` renders image cells of the statement just assembled, `.list` switches the echo on,
`.include` saves / clears / restores `write_list_file`; all of them append to `Rep.list` only.
-/
import NakenVerif.Generated.CpuList
import NakenVerif.Generated.MemoryConsts

namespace NakenVerif.Determinism

abbrev Addr := BitVec 32

/-- one byte of a MemoryPage: `bin[offset]` and `debug_line[offset]` -/
structure Cell where
  byte : BitVec 8
  mark : Int
  deriving DecidableEq, Repr

/-- `MemoryPage::MemoryPage`: bin 0, debug_line -1; also what `read8` / `read_debug` answer without a page -/
def Cell.empty : Cell := ⟨0, Generated.dlEmpty⟩

/-- the lexer switches `set_cpu` copies from `cpu_list` -/
structure LexFlags where
  isDollarHex : Bool := false
  stringsHaveDots : Bool := false
  stringsHaveSlashes : Bool := false
  canTickEndString : Bool := false
  numbersDontHaveDots : Bool := false
  ignoreNumberPostfix : Bool := false
  deriving DecidableEq, Repr

/-- everything of the assembler context except the cells and the reporting part -/
structure K where
  -- Memory
  low : Addr
  high : Addr
  bigEndian : Bool
  -- Symbols (insertion order), `locked`
  syms : List (Nat × BitVec 32)
  symsLocked : Bool
  -- Macros: `.define`s (memory pool), `stack_ptr`
  defines : List (Nat × BitVec 64)
  macroStackPtr : Nat
  -- Tokens: `line`; `pending` stands for pushback[] / pushback2[] / unget[] content (0 = empty)
  line : Nat
  pending : Nat
  -- AsmContext
  address : Addr
  segmentBss : Bool
  pass : Nat
  instructionCount : Nat
  dataCount : Nat
  codeCount : Nat
  errorCount : Nat
  ifdefCount : Nat
  parsingIfdef : Bool
  defParamStackCount : Nat
  cpuListIndex : Int
  cpuType : Nat
  bpa : BitVec 32
  lex : LexFlags
  pass1WriteDisable : Bool
  /-- which `parse_instruction` / `list_output` pair is selected (index into cpu_list), `none` = nullptr -/
  instrSet : Option Nat
  /-- `parse_directive != nullptr` -/
  directiveHook : Bool
  /-- `link_function`: index into cpu_list, `none` = nullptr -/
  linkFn : Option Nat
  flags : Nat
  error : Bool
  optimize : Bool
  inRepeat : Bool
  /-- `static int depth` of include_parse(): process state, not a member of AsmContext -/
  includeDepth : Nat
  deriving DecidableEq, Repr

/-- the part of the state that only reporting reads: -q, -dump_symbols, -dump_macros, `FILE *list` (-l; `none` =
NULL, `some lines` = what has been written), `write_list_file`, and what went to stdout -/
structure Rep where
  quiet : Bool
  dumpSymbols : Bool
  dumpMacros : Bool
  list : Option (List String)
  writeListFile : Bool
  out : List String
  deriving DecidableEq, Repr

structure Ctx where
  cell : Addr → Cell
  k : K
  rep : Rep

/-- result of a handler: the state it leaves and whether it reported success (`false`: -1 travels up) -/
structure Res where
  ctx : Ctx
  ok : Bool

/-! ### programs -/

inductive Operand where
  | lit (v : BitVec 64)
  | sym (name : Nat)
  deriving DecidableEq, Repr

inductive Simple where
  | label (n : Nat)
  | cpu (idx : Nat)
  | endian (big : Bool)
  | seg (bss : Bool)
  | org (a : BitVec 32)
  | db (bs : List (BitVec 8))
  | dw (o : Operand)
  | dd (o : Operand)
  | resb (n : BitVec 32)
  | define (n : Nat) (v : BitVec 64)
  | list
  | movImm (o : Operand) (reg : Nat)
  deriving DecidableEq, Repr

/-- a statement list with its block structure (`rest` = the statements after the block) -/
inductive Prog where
  | nil
  | simple (s : Simple) (rest : Prog)
  | ifdef (neg : Bool) (name : Nat) (thenB elseB : Prog) (rest : Prog)
  | repeat (count : Int) (body : Prog) (rest : Prog)
  | include (body : Prog) (rest : Prog)
  deriving Repr

/-! ### memory -/

/-- `Memory::write(address, data, line)`: byte, mark, low / high -/
def Ctx.write (c : Ctx) (a : Addr) (d : BitVec 8) (line : Int) : Ctx :=
  { c with
    cell := fun x => if x = a then ⟨d, line⟩ else c.cell x
    k := { c.k with low := if c.k.low > a then a else c.k.low
                    high := if c.k.high < a then a else c.k.high } }

/-- `memory_write_inc(data, line)`: `memory.write(address++, data, line)` -/
def Ctx.writeInc (c : Ctx) (d : BitVec 8) (line : Int) : Ctx :=
  let c' := c.write c.k.address d line
  { c' with k := { c'.k with address := c'.k.address + 1 } }

def Ctx.writeBytes (c : Ctx) (line : Int) : List (BitVec 8) → Ctx
  | [] => c
  | b :: bs => Ctx.writeBytes (c.writeInc b line) line bs

/-- the mark of an opcode byte: `tokens.line` in pass 2, DL_NO_CG in pass 1 (core/add_bin.cpp) -/
def opLine (k : K) : Int := if k.pass = 2 then Int.ofNat k.line else Generated.dlNoCg

/-- `add_bin8(asm_context, b, IS_OPCODE)` -/
def Ctx.addBin8 (c : Ctx) (b : BitVec 8) : Ctx :=
  if c.k.pass = 1 ∧ c.k.pass1WriteDisable then { c with k := { c.k with address := c.k.address + 1 } }
  else c.writeInc b (opLine c.k)

/-- `add_bin16(asm_context, w, IS_OPCODE)` -/
def Ctx.addBin16 (c : Ctx) (w : BitVec 16) : Ctx :=
  let lo : BitVec 8 := (w &&& 0xff).setWidth 8
  let hi : BitVec 8 := (w >>> 8).setWidth 8
  if c.k.pass = 1 ∧ c.k.pass1WriteDisable then { c with k := { c.k with address := c.k.address + 2 } }
  else if !c.k.bigEndian then (c.writeInc lo (opLine c.k)).writeInc hi Generated.dlNoCg
  else (c.writeInc hi Generated.dlNoCg).writeInc lo (opLine c.k)

/-! ### symbols, defines, operands -/

def lookup {β : Type} (t : List (Nat × β)) (n : Nat) : Option β :=
  match t.find? (fun e => e.1 == n) with
  | some e => some e.2
  | none => none

/-- `Symbols::append(name, address)`: pass 1 enters the name (a second definition is an error); when locked nothing is
entered and a label that is not where pass 1 put it is an error (dd028e1).  `none` = -1. -/
def symAppend (k : K) (n : Nat) (a : BitVec 32) : Option K :=
  match lookup k.syms n with
  | some a1 => if k.symsLocked then (if a1 ≠ a then none else some k) else none
  | none => if k.symsLocked then some k else some { k with syms := k.syms ++ [(n, a)] }

/-- what `eval_expression` delivers for a one-token operand: a `.define` wins over a symbol (the reader substitutes
it); `none` = failure (unknown name) -/
def evalOpd (k : K) : Operand → Option (BitVec 64)
  | .lit v => some v
  | .sym n =>
    match lookup k.defines n with
    | some v => some v
    | none => (lookup k.syms n).map (·.zeroExtend 64)

/-- `eval_expression(asm_context, &num)`: additionally fails outside -2^31 .. 2^32-1 -/
def evalInt (k : K) (o : Operand) : Option (BitVec 32) :=
  match evalOpd k o with
  | none => none
  | some v => if v.toInt < -2147483648 ∨ v.toInt > 4294967295 then none else some (v.setWidth 32)

/-- `eval_data` of directives_data.cpp: an unknown name is 0 in pass 1 and an error in pass 2 -/
def evalData (k : K) (o : Operand) : Option (BitVec 64) :=
  match evalOpd k o with
  | some v => some v
  | none => if k.pass = 2 then none else some 0

/-! ### CPU selection -/

def msp430Idx : Nat := 0

def lexOf (i : Generated.CpuInfo) : LexFlags :=
  { isDollarHex := i.isDollarHex, stringsHaveDots := i.stringsHaveDots, stringsHaveSlashes := i.stringsHaveSlashes,
    canTickEndString := i.canTickEndString, numbersDontHaveDots := i.numbersDontHaveDots,
    ignoreNumberPostfix := i.ignoreNumberPostfix }

/-- `AsmContext::set_cpu(index)` followed by `parse_directive = NULL` (parse_directives) -/
def setCpu (k : K) (idx : Nat) (i : Generated.CpuInfo) : K :=
  { k with cpuType := i.type, bigEndian := i.bigEndian, bpa := BitVec.ofNat 32 i.bytesPerAddress, lex := lexOf i,
           pass1WriteDisable := i.pass1WriteDisable, instrSet := some idx, directiveHook := false,
           linkFn := if i.hasLinker then some idx else none, flags := i.flags, cpuListIndex := Int.ofNat idx }

/-! ### the listing: reads, never writes the assembler's state -/

def hexDigit (n : Nat) : Char := if n < 10 then Char.ofNat (48 + n) else Char.ofNat (87 + n)
def hex2 (b : BitVec 8) : String := String.ofList [hexDigit (b.toNat / 16), hexDigit (b.toNat % 16)]

/-- `list_output(asm_context, start, end)`: a rendering of the image cells in [start, end) -/
def listOutput (cell : Addr → Cell) (start : Addr) : Nat → List String
  | 0 => []
  | n + 1 => hex2 (cell start).byte :: listOutput cell (start + 1) n

def span (s e : Addr) : Nat := if s < e then (e - s).toNat else 0

def Ctx.listing (c : Ctx) : Bool := c.rep.list.isSome && c.rep.writeListFile

/-- fprintf(list, ...) -/
def Ctx.listAppend (c : Ctx) (ls : List String) : Ctx :=
  match c.rep.list with
  | some l => { c with rep := { c.rep with list := some (l ++ ls) } }
  | none => c

/-- what reaches the list file while the reader walks over a statement (tokens_get_char) -/
def Ctx.echo (c : Ctx) (text : String) : Ctx := if c.listing then c.listAppend [text] else c

/-- printf(...) unless -q -/
def Ctx.say (c : Ctx) (text : String) : Ctx :=
  if c.rep.quiet then c else { c with rep := { c.rep with out := c.rep.out ++ [text] } }

/-! ### the MSP430 instruction `mov.w #value, rN` -/

/-- `operand_to_cg`: (As, source register) of the constant generator for a word immediate -/
def cgOf (v : BitVec 32) : Option (BitVec 16 × BitVec 16) :=
  let v := if v = 0xffff then (-1 : BitVec 32) else v
  if v = -1 then some (3, 3) else if v = 0 then some (0, 3) else if v = 1 then some (1, 3)
  else if v = 2 then some (2, 3) else if v = 4 then some (2, 2) else if v = 8 then some (3, 2) else none

/-- an instruction at an odd address is preceded by a pad byte 0, marked as data (both passes) -/
def movPad (c : Ctx) : Ctx := if c.k.address &&& 1 ≠ 0 then c.writeInc 0 Generated.dlData else c

/-- '#': eval_expression; failure in pass 1 leaves the flag 1 at the instruction's address, marked with the line,
and the value 0; failure in pass 2 is an error (`none`) -/
def movEval (c : Ctx) (o : Operand) : Option (Ctx × BitVec 32) :=
  match evalInt c.k o with
  | some v => some (c, v)
  | none => if c.k.pass = 1 then some (c.write c.k.address 1 (Int.ofNat c.k.line), 0) else none

/-- operand_to_cg (`memory_read(address) == 1` keeps the extension word), process_operand, the add_bin16 calls.
`none`: "Immediate out of range". -/
def movEmit (c : Ctx) (v : BitVec 32) (reg : Nat) : Option Ctx :=
  let flag := (c.cell c.k.address).byte
  let dst : BitVec 16 := BitVec.ofNat 16 reg
  match (if flag = 1 then none else cgOf v) with
  | some (mode, sreg) => some (c.addBin16 (0x4000 ||| (mode <<< 4) ||| (sreg <<< 8) ||| dst))
  | none =>
    if v.toInt < -32768 ∨ v.toInt > 65535 then none
    else some ((c.addBin16 (0x4030 ||| dst)).addBin16 (v.setWidth 16))

/-- back in assemble(): list_output of the bytes just assembled, line and counters -/
def movFinish (c : Ctx) (start : Addr) : Ctx :=
  let c' := if c.listing then c.listAppend (listOutput c.cell start (span start c.k.address) ++ ["\n"]) else c
  { c' with k := { c'.k with line := c'.k.line + 1, instructionCount := c'.k.instructionCount + 1,
                             codeCount := c'.k.codeCount + span start c'.k.address } }

def movImm (c : Ctx) (o : Operand) (reg : Nat) : Res :=
  if c.k.instrSet ≠ some msp430Idx ∨ reg < 4 ∨ reg > 15 then ⟨c, false⟩       -- other back ends / registers: not modelled
  else
    match movEval (movPad c) o with
    | none => ⟨movPad c, false⟩
    | some (c1, v) =>
      match movEmit c1 v reg with
      | none => ⟨c1, false⟩
      | some c2 => ⟨movFinish c2 c.k.address, true⟩

/-! ### one statement -/

def bytes16 (big : Bool) (v : BitVec 16) : List (BitVec 8) :=
  if !big then [(v &&& 255).setWidth 8, (v >>> 8).setWidth 8] else [(v >>> 8).setWidth 8, (v &&& 255).setWidth 8]

def bytes32 (big : Bool) (v : BitVec 32) : List (BitVec 8) :=
  let b (k : Nat) : BitVec 8 := ((v >>> k) &&& 0xff).setWidth 8
  if !big then [b 0, b 8, b 16, b 24] else [b 24, b 16, b 8, b 0]

def echoText : Simple → String
  | .label _ => "label" | .cpu _ => ".cpu" | .endian _ => ".endian" | .seg _ => ".seg" | .org _ => ".org"
  | .db _ => ".db" | .dw _ => ".dw" | .dd _ => ".dc32" | .resb _ => ".resb" | .define _ _ => ".define"
  | .list => ".list" | .movImm _ _ => "mov.w"

def bumpLine (c : Ctx) : Ctx := { c with k := { c.k with line := c.k.line + 1 } }

def stepCore (s : Simple) (c : Ctx) : Res :=
  match s with
  | .label n =>
    if (lookup c.k.defines n).isSome then ⟨c, false⟩                        -- print_already_defined
    else match symAppend c.k n (c.k.address / c.k.bpa) with
      | some k' => ⟨{ c with k := k' }, true⟩
      | none => ⟨c, false⟩
  | .cpu idx =>
    match Generated.cpuList[idx]? with
    | some i => ⟨{ c with k := setCpu c.k idx i }, true⟩
    | none => ⟨c, false⟩
  | .endian big => ⟨{ c with k := { c.k with bigEndian := big } }, true⟩
  | .seg bss => ⟨{ c with k := { c.k with segmentBss := bss } }, true⟩
  | .org a => ⟨bumpLine { c with k := { c.k with address := a * c.k.bpa } }, true⟩          -- set_org
  | .db bs =>
    if c.k.segmentBss then ⟨c, false⟩
    else
      let c' := c.writeBytes Generated.dlData bs
      ⟨bumpLine { c' with k := { c'.k with dataCount := c'.k.dataCount + bs.length } }, true⟩
  | .dw o =>
    if c.k.segmentBss then ⟨c, false⟩
    else match evalData c.k o with
      | none => ⟨c, false⟩
      | some v =>
        if v.toInt < -32768 ∨ v.toInt > 0xffff then ⟨c, false⟩
        else
          let c' := c.writeBytes Generated.dlData (bytes16 c.k.bigEndian (v.setWidth 16))
          ⟨bumpLine { c' with k := { c'.k with dataCount := c'.k.dataCount + 2 } }, true⟩
  | .dd o =>
    if c.k.segmentBss then ⟨c, false⟩
    else match evalData c.k o with
      | none => ⟨c, false⟩
      | some v =>
        let c' := c.writeBytes Generated.dlData (bytes32 c.k.bigEndian (v.setWidth 32))
        ⟨bumpLine { c' with k := { c'.k with dataCount := c'.k.dataCount + 4 } }, true⟩
  | .resb n => ⟨bumpLine { c with k := { c.k with address := c.k.address + n } }, true⟩
  | .define n v =>
    if (lookup c.k.defines n).isSome ∨ (lookup c.k.syms n).isSome then ⟨c, false⟩   -- "Macro already defined"
    else ⟨{ c with k := { c.k with defines := c.k.defines ++ [(n, v)] } }, true⟩
  | .list =>
    if c.k.pass = 2 ∧ c.rep.list.isSome then
      ⟨({ c with rep := { c.rep with writeListFile := true } }).listAppend ["\n"], true⟩
    else ⟨c, true⟩
  | .movImm o reg => movImm c o reg

/-- a statement as the loop of assemble() sees it: the reader echoes it into the listing, the handler runs -/
def step (s : Simple) (c : Ctx) : Res := stepCore s (c.echo (echoText s))

/-! ### `.repeat`: the copies are made from the image -/

/-- one copy of [from, from + n): a data cell is copied as data, anything else through add_bin8 -/
def copyRange (c : Ctx) (src : Addr) : Nat → Ctx
  | 0 => c
  | n + 1 =>
    let cell := c.cell src
    let c' := if cell.mark = Generated.dlData then c.writeInc cell.byte Generated.dlData else c.addBin8 cell.byte
    copyRange c' (src + 1) n

def copies (c : Ctx) (src : Addr) (len : Nat) : Nat → Ctx
  | 0 => c
  | n + 1 => copies (copyRange c src len) src len n

/-! ### the statement loop -/

def includeLimit : Nat := 32

/-- parse_ifdef(): ifdef_count++, the reader walks over the directive -/
def ifdefEnter (c : Ctx) : Ctx := { c with k := { c.k with ifdefCount := c.k.ifdefCount + 1 } }.echo ".ifdef"

/-- `ignore_section`: the name is looked up among the macros and the symbols -/
def ifdefIgnore (neg : Bool) (name : Nat) (c : Ctx) : Bool :=
  let defined := (lookup c.k.defines name).isSome || (lookup c.k.syms name).isSome
  if neg then defined else !defined

def ifdefLeave (c : Ctx) : Ctx := { c with k := { c.k with ifdefCount := c.k.ifdefCount - 1 } }

def repeatEnter (c : Ctx) : Ctx := { c with k := { c.k with inRepeat := true } }.echo ".repeat"

/-- parse_repeat() after the body: in_repeat = 0, count-1 copies of [start, address) made from the image, the copies
of code listed -/
def repeatFinish (c : Ctx) (start : Addr) (count : Int) : Ctx :=
  let c2 := { c with k := { c.k with inRepeat := false } }
  let stop := c2.k.address
  let c3 := copies c2 start (span start stop) (count.toNat - 1)
  if c3.listing then c3.listAppend (listOutput c3.cell stop (span stop c3.k.address) ++ ["\n"]) else c3

/-- include_parse(): write_list_file cleared, depth++ -/
def includeEnter (c : Ctx) : Ctx :=
  { c with rep := { c.rep with writeListFile := false }, k := { c.k with includeDepth := c.k.includeDepth + 1 } }

/-- … depth--, write_list_file restored (whether or not the nested assemble() failed) -/
def includeLeave (saved : Bool) (c : Ctx) : Ctx :=
  { c with rep := { c.rep with writeListFile := saved }, k := { c.k with includeDepth := c.k.includeDepth - 1 } }

def exec : Prog → Ctx → Res
  | .nil, c => ⟨c, true⟩
  | .simple s rest, c =>
    let r := step s c
    if r.ok then exec rest r.ctx else r
  | .ifdef neg name t e rest, c =>
    let r := if ifdefIgnore neg name (ifdefEnter c) then exec e (ifdefEnter c) else exec t (ifdefEnter c)
    if r.ok then exec rest (ifdefLeave r.ctx) else r
  | .repeat count body rest, c =>
    if c.k.inRepeat ∨ count ≤ 0 then ⟨c, false⟩                             -- a nested .repeat is an error
    else
      let r := exec body (repeatEnter c)
      if r.ok then exec rest (repeatFinish r.ctx c.k.address count) else r
  | .include body rest, c =>
    if c.k.includeDepth ≥ includeLimit then ⟨c, false⟩                      -- "Includes nested too deep"
    else
      let r := exec body (includeEnter c)
      if r.ok then exec rest (includeLeave c.rep.writeListFile r.ctx)
      else ⟨includeLeave c.rep.writeListFile r.ctx, false⟩

/-! ### reset points -/

/-- `AsmContext::AsmContext()` with `Memory()`, `Symbols()`, `Macros()`, `memset(&tokens, 0, …)`.  `depth` is the
process-wide static of include_parse(), which no constructor touches. -/
def construct (depth : Nat) : Ctx :=
  { cell := fun _ => Cell.empty
    k := { low := BitVec.ofNat 32 Generated.memoryInitLow, high := BitVec.ofNat 32 Generated.memoryInitHigh,
           bigEndian := Generated.memoryInitEndian == Generated.endianBig,
           syms := [], symsLocked := false, defines := [], macroStackPtr := 0, line := 0, pending := 0,
           address := 0, segmentBss := false, pass := 1, instructionCount := 0, dataCount := 0, codeCount := 0,
           errorCount := 0, ifdefCount := 0, parsingIfdef := false, defParamStackCount := 0, cpuListIndex := 0,
           cpuType := 0, bpa := 1, lex := {}, pass1WriteDisable := false, instrSet := none,
           directiveHook := false, linkFn := none, flags := 0, error := false, optimize := false, inRepeat := false,
           includeDepth := depth }
    rep := { quiet := false, dumpSymbols := false, dumpMacros := false, list := none, writeListFile := false, out := [] } }

/-- `AsmContext::init()` (with `tokens_reset`, `macros.reset()`) -/
def initK (k : K) : K :=
  { k with line := 1, pending := 0, instrSet := some msp430Idx, cpuListIndex := -1, address := 0, segmentBss := false,
           instructionCount := 0, codeCount := 0, dataCount := 0, ifdefCount := 0, parsingIfdef := false, bpa := 1,
           inRepeat := false, cpuType := 0, bigEndian := false, lex := {}, pass1WriteDisable := true,
           directiveHook := false, linkFn := none, flags := 0, defines := [], macroStackPtr := 0,
           defParamStackCount := 0 }

def init (c : Ctx) : Ctx := { c with k := initK c.k }

/-- `AsmContext::init()` before 258559a / 66c8e37 / 44d7f59: byte order, CPU type, lexer flags, pass_1_write_disable,
directive hook, link function, flags and the segment stayed as the previous pass left them -/
def initKBefore (k : K) : K :=
  { k with line := 1, pending := 0, instrSet := some msp430Idx, cpuListIndex := -1, address := 0,
           instructionCount := 0, codeCount := 0, dataCount := 0, ifdefCount := 0, parsingIfdef := false, bpa := 1,
           inRepeat := false, defines := [], macroStackPtr := 0, defParamStackCount := 0 }

def initBefore (c : Ctx) : Ctx := { c with k := initKBefore c.k }

/-! ### main() -/

structure Opts where
  list : Bool
  quiet : Bool
  dumpSymbols : Bool
  dumpMacros : Bool
  optimize : Bool
  /-- FILE_TYPE_* -/
  fileType : Nat
  outName : String
  deriving DecidableEq, Repr

/-- option parsing of main(); -l opens the list file -/
def applyOpts (o : Opts) (c : Ctx) : Ctx :=
  { c with k := { c.k with optimize := o.optimize }
           rep := { c.rep with quiet := o.quiet, dumpSymbols := o.dumpSymbols, dumpMacros := o.dumpMacros,
                               list := if o.list then some [] else none } }

def symLine (e : Nat × BitVec 32) : String := s!"n{e.1} {e.2.toNat}"

/-- `AsmContext::print_info(out)`: `toList` = the list file is the target (symbols are always printed there) -/
def printInfo (c : Ctx) (toList : Bool) : Ctx :=
  if c.rep.quiet then c
  else
    let body : List String :=
      ["Program Info:"] ++ (if c.rep.dumpSymbols || toList then c.k.syms.map symLine else []) ++
      (if c.rep.dumpMacros then c.k.defines.map (fun e => s!"n{e.1}") else []) ++
      [s!"{c.k.instructionCount} {c.k.codeCount} {c.k.dataCount} {(c.k.low / c.k.bpa).toNat} {(c.k.high / c.k.bpa).toNat}"]
    if toList then c.listAppend body else { c with rep := { c.rep with out := c.rep.out ++ body } }

/-- the "data sections:" dump at the end of the list file: reads the cells between low and high -/
def dataSections (c : Ctx) : Ctx :=
  c.listAppend ("data sections:" :: listOutput c.cell c.k.low (if c.k.low ≤ c.k.high then (c.k.high - c.k.low).toNat + 1 else 0))

structure MainResult where
  status : Nat
  cell : Addr → Cell
  k : K
  /-- the list file, if -l -/
  listing : Option (List String)
  out : List String
  /-- file_write(outfile, &asm_context, file_type) was reached: name and type of the file that carries the image -/
  file : Option (String × Nat)

/-- the tail of main(): listing dump, print_info, exit status -/
def finish (c : Ctx) (ok : Bool) (file : Option (String × Nat)) : MainResult :=
  let c1 := if c.rep.list.isSome then printInfo (dataSections c) true else c
  let c2 := printInfo c1 false
  let c3 := if ok then c2 else c2.say "*** Failed ***"
  { status := if ok then 0 else 1, cell := c3.cell, k := c3.k, listing := c3.rep.list, out := c3.rep.out, file := file }

/-- the context at the head of pass 1: constructor, option parsing, "Pass 1...", init() -/
def pass1Start (initF : Ctx → Ctx) (depth : Nat) (o : Opts) : Ctx :=
  initF ((applyOpts o (construct depth)).say "Pass 1...")

/-- the pass switch of main(): symbols.lock(), "Pass 2...", pass = 2, init(), write_list_file = 1 if -l -/
def pass2Start (initF : Ctx → Ctx) (listOpt : Bool) (c : Ctx) : Ctx :=
  let c3 := initF ({ c with k := { c.k with symsLocked := true, pass := 2 } }.say "Pass 2...")
  if listOpt then { c3 with rep := { c3.rep with writeListFile := true } } else c3

/-- main() of naken_asm.cpp from the constructor on; `initF` is AsmContext::init() -/
def mainWith (initF : Ctx → Ctx) (depth : Nat) (o : Opts) (p : Prog) : MainResult :=
  let r1 := exec p (pass1Start initF depth o)
  if !r1.ok then finish (r1.ctx.say "** Errors... bailing out") false none
  else
    let r2 := exec p (pass2Start initF o.list r1.ctx)
    if r2.ok then finish r2.ctx true (some (o.outName, o.fileType)) else finish r2.ctx false none

def mainRun := mainWith init

/-- the image a file writer sees: the bytes whose mark is not DL_EMPTY -/
def image (cell : Addr → Cell) (a : Addr) : Option (BitVec 8) :=
  if (cell a).mark = Generated.dlEmpty then none else some (cell a).byte

end NakenVerif.Determinism
