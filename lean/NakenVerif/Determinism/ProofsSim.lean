/-
The unwinding argument behind C13, once for every relation on images that the statement handlers respect.

`Sim R c1 c2`: the two contexts agree on every scalar / table of the assembler (`K`) and their cells are related by
`R`; the reporting part (`Rep`: -q, -dump_*, the list file, write_list_file, stdout) is unconstrained.
`CellRel R` says what the handlers need of `R`: it survives the same write on both sides, and related images agree
on where the MSP430 "no constant generator" flag value 1 stands.  `.repeat` copies image bytes, so it needs either
equal images (`Full R`) or is excluded (`NoRepeat`).

`exec_sim`: running the same program from related contexts ends in related contexts with the same verdict.
Instances: `R := Eq` (reporting non-interference, ProofsReport) and `R := flags agree ∧ frame` (what pass 2
sees of the image pass 1 left, ProofsMem).
-/
import NakenVerif.Determinism.Impl

namespace NakenVerif.Determinism

abbrev Cells := Addr → Cell

def upd (m : Cells) (a : Addr) (v : Cell) : Cells := fun x => if x = a then v else m x

structure CellRel (R : Cells → Cells → Prop) : Prop where
  write : ∀ m1 m2 a v, R m1 m2 → R (upd m1 a v) (upd m2 a v)
  flag : ∀ m1 m2, R m1 m2 → ∀ a, ((m1 a).byte = 1 ↔ (m2 a).byte = 1)

def Full (R : Cells → Cells → Prop) : Prop := ∀ m1 m2, R m1 m2 → m1 = m2

def Sim (R : Cells → Cells → Prop) (c1 c2 : Ctx) : Prop := c1.k = c2.k ∧ R c1.cell c2.cell

def SimRes (R : Cells → Cells → Prop) (r1 r2 : Res) : Prop := r1.ok = r2.ok ∧ Sim R r1.ctx r2.ctx

def NoRepeat : Prog → Prop
  | .nil => True
  | .simple _ rest => NoRepeat rest
  | .ifdef _ _ t e rest => NoRepeat t ∧ NoRepeat e ∧ NoRepeat rest
  | .repeat _ _ _ => False
  | .include body rest => NoRepeat body ∧ NoRepeat rest

variable {R : Cells → Cells → Prop}

theorem write_cell (c : Ctx) (a : Addr) (d : BitVec 8) (l : Int) : (c.write a d l).cell = upd c.cell a ⟨d, l⟩ := rfl

/-! ### reporting-only operations leave `k` and the cells alone -/

@[simp] theorem listAppend_k (c : Ctx) (ls : List String) : (c.listAppend ls).k = c.k := by
  unfold Ctx.listAppend; split <;> rfl
@[simp] theorem listAppend_cell (c : Ctx) (ls : List String) : (c.listAppend ls).cell = c.cell := by
  unfold Ctx.listAppend; split <;> rfl
@[simp] theorem echo_k (c : Ctx) (t : String) : (c.echo t).k = c.k := by
  unfold Ctx.echo; split <;> simp
@[simp] theorem echo_cell (c : Ctx) (t : String) : (c.echo t).cell = c.cell := by
  unfold Ctx.echo; split <;> simp
@[simp] theorem say_k (c : Ctx) (t : String) : (c.say t).k = c.k := by
  unfold Ctx.say; split <;> rfl
@[simp] theorem say_cell (c : Ctx) (t : String) : (c.say t).cell = c.cell := by
  unfold Ctx.say; split <;> rfl

theorem Sim.of_eq {c1 c2 d1 d2 : Ctx} (h : Sim R c1 c2) (hk1 : d1.k = c1.k) (hk2 : d2.k = c2.k)
    (hc1 : d1.cell = c1.cell) (hc2 : d2.cell = c2.cell) : Sim R d1 d2 := by
  unfold Sim at *; rw [hk1, hk2, hc1, hc2]; exact h

theorem Sim.listAppend {c1 c2 : Ctx} (h : Sim R c1 c2) (l1 l2 : List String) :
    Sim R (c1.listAppend l1) (c2.listAppend l2) := h.of_eq (by simp) (by simp) (by simp) (by simp)

theorem Sim.echo {c1 c2 : Ctx} (h : Sim R c1 c2) (t1 t2 : String) : Sim R (c1.echo t1) (c2.echo t2) :=
  h.of_eq (by simp) (by simp) (by simp) (by simp)

theorem Sim.say {c1 c2 : Ctx} (h : Sim R c1 c2) (t1 t2 : String) : Sim R (c1.say t1) (c2.say t2) :=
  h.of_eq (by simp) (by simp) (by simp) (by simp)

/-- replacing `k` by the same function of `k` on both sides -/
theorem Sim.mapK {c1 c2 : Ctx} (h : Sim R c1 c2) (f : K → K) :
    Sim R { c1 with k := f c1.k } { c2 with k := f c2.k } := by
  obtain ⟨hk, hr⟩ := h; exact ⟨by simp only [hk], hr⟩

/-- replacing the reporting part leaves the relation alone -/
theorem Sim.setRep {c1 c2 : Ctx} (h : Sim R c1 c2) (r1 r2 : Rep) :
    Sim R { c1 with rep := r1 } { c2 with rep := r2 } := h

/-- both contexts taken apart, the common `k` substituted -/
theorem Sim.elim {c1 c2 : Ctx} (h : Sim R c1 c2) :
    ∃ m1 m2 k r1 r2, c1 = ⟨m1, k, r1⟩ ∧ c2 = ⟨m2, k, r2⟩ ∧ R m1 m2 := by
  obtain ⟨m1, k1, r1⟩ := c1; obtain ⟨m2, k2, r2⟩ := c2
  obtain ⟨hk, hr⟩ := h; simp only at hk; subst hk
  exact ⟨m1, m2, k1, r1, r2, rfl, rfl, hr⟩

/-! ### image writes -/

theorem Sim.write (hR : CellRel R) {c1 c2 : Ctx} (h : Sim R c1 c2) (a : Addr) (d : BitVec 8) (l : Int) :
    Sim R (c1.write a d l) (c2.write a d l) := by
  obtain ⟨m1, m2, k, r1, r2, rfl, rfl, hr⟩ := h.elim
  have hs : Sim R ⟨m1, k, r1⟩ ⟨m2, k, r2⟩ := ⟨rfl, hr⟩
  exact ⟨rfl, hR.write _ _ _ _ hr⟩

theorem Sim.writeInc (hR : CellRel R) {c1 c2 : Ctx} (h : Sim R c1 c2) (d : BitVec 8) (l : Int) :
    Sim R (c1.writeInc d l) (c2.writeInc d l) := by
  obtain ⟨m1, m2, k, r1, r2, rfl, rfl, hr⟩ := h.elim
  have hs : Sim R ⟨m1, k, r1⟩ ⟨m2, k, r2⟩ := ⟨rfl, hr⟩
  exact ⟨rfl, hR.write _ _ _ _ hr⟩

theorem Sim.writeBytes (hR : CellRel R) (l : Int) (bs : List (BitVec 8)) :
    ∀ {c1 c2 : Ctx}, Sim R c1 c2 → Sim R (c1.writeBytes l bs) (c2.writeBytes l bs) := by
  induction bs with
  | nil => intro c1 c2 h; exact h
  | cons b bs ih => intro c1 c2 h; exact ih (h.writeInc hR b l)

theorem Sim.addBin8 (hR : CellRel R) {c1 c2 : Ctx} (h : Sim R c1 c2) (b : BitVec 8) :
    Sim R (c1.addBin8 b) (c2.addBin8 b) := by
  obtain ⟨m1, m2, k, r1, r2, rfl, rfl, hr⟩ := h.elim
  have hs : Sim R ⟨m1, k, r1⟩ ⟨m2, k, r2⟩ := ⟨rfl, hr⟩
  unfold Ctx.addBin8
  split
  · exact ⟨rfl, hr⟩
  · exact hs.writeInc hR _ _

theorem Sim.addBin16 (hR : CellRel R) {c1 c2 : Ctx} (h : Sim R c1 c2) (w : BitVec 16) :
    Sim R (c1.addBin16 w) (c2.addBin16 w) := by
  obtain ⟨m1, m2, k, r1, r2, rfl, rfl, hr⟩ := h.elim
  have hs : Sim R ⟨m1, k, r1⟩ ⟨m2, k, r2⟩ := ⟨rfl, hr⟩
  unfold Ctx.addBin16
  simp only
  split
  · exact ⟨rfl, hr⟩
  · split
    · exact (hs.writeInc hR _ _).writeInc hR _ _
    · exact (hs.writeInc hR _ _).writeInc hR _ _

/-! ### one statement -/

theorem Sim.movPad (hR : CellRel R) {c1 c2 : Ctx} (h : Sim R c1 c2) : Sim R (movPad c1) (movPad c2) := by
  obtain ⟨m1, m2, k, r1, r2, rfl, rfl, hr⟩ := h.elim
  have hs : Sim R ⟨m1, k, r1⟩ ⟨m2, k, r2⟩ := ⟨rfl, hr⟩
  unfold Determinism.movPad
  split
  · exact hs.writeInc hR _ _
  · exact ⟨rfl, hr⟩

/-- related results of the operand evaluation: both fail, or both deliver the same value in related contexts -/
theorem movEval_sim (hR : CellRel R) {c1 c2 : Ctx} (h : Sim R c1 c2) (o : Operand) :
    (movEval c1 o = none ∧ movEval c2 o = none) ∨
    ∃ d1 d2 v, movEval c1 o = some (d1, v) ∧ movEval c2 o = some (d2, v) ∧ Sim R d1 d2 := by
  obtain ⟨m1, m2, k, r1, r2, rfl, rfl, hr⟩ := h.elim
  have hs : Sim R ⟨m1, k, r1⟩ ⟨m2, k, r2⟩ := ⟨rfl, hr⟩
  unfold movEval
  simp only
  cases evalInt k o with
  | some v => exact Or.inr ⟨_, _, v, rfl, rfl, hs⟩
  | none =>
    by_cases hp : k.pass = 1
    · simp only [hp, if_true]
      exact Or.inr ⟨_, _, 0, rfl, rfl, hs.write hR _ _ _⟩
    · simp only [hp, if_false]; exact Or.inl ⟨trivial, trivial⟩

theorem movEmit_sim (hR : CellRel R) {c1 c2 : Ctx} (h : Sim R c1 c2) (v : BitVec 32) (reg : Nat) :
    (movEmit c1 v reg = none ∧ movEmit c2 v reg = none) ∨
    ∃ d1 d2, movEmit c1 v reg = some d1 ∧ movEmit c2 v reg = some d2 ∧ Sim R d1 d2 := by
  obtain ⟨m1, m2, k, r1, r2, rfl, rfl, hr⟩ := h.elim
  have hs : Sim R ⟨m1, k, r1⟩ ⟨m2, k, r2⟩ := ⟨rfl, hr⟩
  unfold movEmit
  simp only
  have hflag : ((m1 k.address).byte = 1) ↔ ((m2 k.address).byte = 1) := hR.flag _ _ hr _
  have hs : Sim R ⟨m1, k, r1⟩ ⟨m2, k, r2⟩ := ⟨rfl, hr⟩
  by_cases hf : (m2 k.address).byte = 1
  · have hf1 := hflag.mpr hf
    simp only [hf, hf1, if_true]
    split
    · exact Or.inl ⟨rfl, rfl⟩
    · exact Or.inr ⟨_, _, rfl, rfl, (hs.addBin16 hR _).addBin16 hR _⟩
  · have hf1 : ¬ (m1 k.address).byte = 1 := fun x => hf (hflag.mp x)
    simp only [hf, hf1, if_false]
    cases cgOf v with
    | some ms => exact Or.inr ⟨_, _, rfl, rfl, hs.addBin16 hR _⟩
    | none =>
      simp only []
      split
      · exact Or.inl ⟨rfl, rfl⟩
      · exact Or.inr ⟨_, _, rfl, rfl, (hs.addBin16 hR _).addBin16 hR _⟩

theorem movFinish_k (c : Ctx) (start : Addr) :
    (movFinish c start).k = { c.k with line := c.k.line + 1, instructionCount := c.k.instructionCount + 1,
                                       codeCount := c.k.codeCount + span start c.k.address } := by
  unfold movFinish; split <;> simp

theorem movFinish_cell (c : Ctx) (start : Addr) : (movFinish c start).cell = c.cell := by
  unfold movFinish; split <;> simp

theorem Sim.movFinish {c1 c2 : Ctx} (h : Sim R c1 c2) (start : Addr) :
    Sim R (movFinish c1 start) (movFinish c2 start) := by
  refine ⟨?_, ?_⟩
  · rw [movFinish_k, movFinish_k, h.1]
  · rw [movFinish_cell, movFinish_cell]; exact h.2

theorem movImm_sim (hR : CellRel R) {c1 c2 : Ctx} (h : Sim R c1 c2) (o : Operand) (reg : Nat) :
    SimRes R (movImm c1 o reg) (movImm c2 o reg) := by
  unfold movImm
  have hk := h.1
  rw [hk]
  split
  · exact ⟨rfl, h⟩
  · rcases movEval_sim hR (h.movPad hR) o with ⟨e1, e2⟩ | ⟨d1, d2, v, e1, e2, hd⟩
    · rw [e1, e2]; exact ⟨rfl, h.movPad hR⟩
    · rw [e1, e2]
      simp only []
      rcases movEmit_sim hR hd v reg with ⟨f1, f2⟩ | ⟨g1, g2, f1, f2, hg⟩
      · rw [f1, f2]; exact ⟨rfl, hd⟩
      · rw [f1, f2]; exact ⟨rfl, hg.movFinish _⟩

theorem Sim.fail {c1 c2 : Ctx} (h : Sim R c1 c2) : SimRes R ⟨c1, false⟩ ⟨c2, false⟩ := ⟨rfl, h⟩
theorem Sim.good {c1 c2 : Ctx} (h : Sim R c1 c2) : SimRes R ⟨c1, true⟩ ⟨c2, true⟩ := ⟨rfl, h⟩

theorem Sim.bumpLine {c1 c2 : Ctx} (h : Sim R c1 c2) : Sim R (bumpLine c1) (bumpLine c2) :=
  h.mapK (fun k => { k with line := k.line + 1 })

theorem stepCore_sim (hR : CellRel R) {c1 c2 : Ctx} (h : Sim R c1 c2) (s : Simple) :
    SimRes R (stepCore s c1) (stepCore s c2) := by
  cases s with
  | movImm o reg => exact movImm_sim hR h o reg
  | label n =>
    obtain ⟨m1, m2, k, r1, r2, rfl, rfl, hr⟩ := h.elim
    have hs : Sim R ⟨m1, k, r1⟩ ⟨m2, k, r2⟩ := ⟨rfl, hr⟩
    unfold stepCore; simp only
    split
    · exact hs.fail
    · cases symAppend k n (k.address / k.bpa) with
      | some k' => exact Sim.good (show Sim R ⟨m1, _, r1⟩ ⟨m2, _, r2⟩ from ⟨rfl, hr⟩)
      | none => exact hs.fail
  | cpu idx =>
    obtain ⟨m1, m2, k, r1, r2, rfl, rfl, hr⟩ := h.elim
    have hs : Sim R ⟨m1, k, r1⟩ ⟨m2, k, r2⟩ := ⟨rfl, hr⟩
    unfold stepCore; simp only
    cases Generated.cpuList[idx]? with
    | some i => exact Sim.good (show Sim R ⟨m1, _, r1⟩ ⟨m2, _, r2⟩ from ⟨rfl, hr⟩)
    | none => exact hs.fail
  | endian big => exact Sim.good (h.mapK (fun k => { k with bigEndian := big }))
  | seg bss => exact Sim.good (h.mapK (fun k => { k with segmentBss := bss }))
  | org a =>
    exact Sim.good (h.mapK (fun k => { k with address := a * k.bpa })).bumpLine
  | resb n =>
    exact Sim.good (h.mapK (fun k => { k with address := k.address + n })).bumpLine
  | db bs =>
    unfold stepCore; simp only; rw [h.1]
    split
    · exact h.fail
    · exact Sim.good ((h.writeBytes hR _ bs).mapK (fun k => { k with dataCount := k.dataCount + bs.length })).bumpLine
  | dw o =>
    unfold stepCore; simp only; rw [h.1]
    split
    · exact h.fail
    · cases evalData c2.k o with
      | none => exact h.fail
      | some v =>
        simp only
        split
        · exact h.fail
        · exact Sim.good ((h.writeBytes hR _ _).mapK (fun k => { k with dataCount := k.dataCount + 2 })).bumpLine
  | dd o =>
    unfold stepCore; simp only; rw [h.1]
    split
    · exact h.fail
    · cases evalData c2.k o with
      | none => exact h.fail
      | some v =>
        exact Sim.good ((h.writeBytes hR _ _).mapK (fun k => { k with dataCount := k.dataCount + 4 })).bumpLine
  | define n v =>
    obtain ⟨m1, m2, k, r1, r2, rfl, rfl, hr⟩ := h.elim
    have hs : Sim R ⟨m1, k, r1⟩ ⟨m2, k, r2⟩ := ⟨rfl, hr⟩
    unfold stepCore; simp only
    split
    · exact hs.fail
    · exact Sim.good (show Sim R ⟨m1, _, r1⟩ ⟨m2, _, r2⟩ from ⟨rfl, hr⟩)
  | list =>
    obtain ⟨m1, m2, k, r1, r2, rfl, rfl, hr⟩ := h.elim
    have hs : Sim R ⟨m1, k, r1⟩ ⟨m2, k, r2⟩ := ⟨rfl, hr⟩
    have key : ∀ (m : Cells) (r : Rep), (stepCore .list ⟨m, k, r⟩).ok = true ∧ (stepCore .list ⟨m, k, r⟩).ctx.k = k ∧
        (stepCore .list ⟨m, k, r⟩).ctx.cell = m := by
      intro m r; unfold stepCore; simp only; split <;> simp
    obtain ⟨o1, k1, c1'⟩ := key m1 r1
    obtain ⟨o2, k2, c2'⟩ := key m2 r2
    exact ⟨by rw [o1, o2], by rw [k1, k2], by rw [c1', c2']; exact hr⟩

theorem step_sim (hR : CellRel R) {c1 c2 : Ctx} (h : Sim R c1 c2) (s : Simple) :
    SimRes R (step s c1) (step s c2) := stepCore_sim hR (h.echo _ _) s

/-! ### `.repeat`: the copies read whole cells -/

theorem copyRange_sim (hR : CellRel R) (hF : Full R) (n : Nat) :
    ∀ {c1 c2 : Ctx} (src : Addr), Sim R c1 c2 → Sim R (copyRange c1 src n) (copyRange c2 src n) := by
  induction n with
  | zero => intro c1 c2 src h; exact h
  | succ n ih =>
    intro c1 c2 src h
    unfold copyRange
    have hc : c1.cell = c2.cell := hF _ _ h.2
    simp only [hc]
    apply ih
    split
    · exact h.writeInc hR _ _
    · exact h.addBin8 hR _

theorem copies_sim (hR : CellRel R) (hF : Full R) (src : Addr) (len : Nat) (n : Nat) :
    ∀ {c1 c2 : Ctx}, Sim R c1 c2 → Sim R (copies c1 src len n) (copies c2 src len n) := by
  induction n with
  | zero => intro c1 c2 h; exact h
  | succ n ih => intro c1 c2 h; exact ih (copyRange_sim hR hF len src h)

/-! ### the statement loop -/

theorem Sim.ifdefEnter {c1 c2 : Ctx} (h : Sim R c1 c2) : Sim R (ifdefEnter c1) (ifdefEnter c2) :=
  (h.mapK (fun k => { k with ifdefCount := k.ifdefCount + 1 })).echo _ _

theorem ifdefIgnore_eq {c1 c2 : Ctx} (h : Sim R c1 c2) (neg : Bool) (name : Nat) :
    ifdefIgnore neg name c1 = ifdefIgnore neg name c2 := by
  unfold ifdefIgnore; rw [h.1]

theorem Sim.ifdefLeave {c1 c2 : Ctx} (h : Sim R c1 c2) : Sim R (ifdefLeave c1) (ifdefLeave c2) :=
  h.mapK (fun k => { k with ifdefCount := k.ifdefCount - 1 })

theorem Sim.repeatEnter {c1 c2 : Ctx} (h : Sim R c1 c2) : Sim R (repeatEnter c1) (repeatEnter c2) :=
  (h.mapK (fun k => { k with inRepeat := true })).echo _ _

theorem repeatFinish_k (c : Ctx) (start : Addr) (count : Int) :
    (repeatFinish c start count).k =
      (copies { c with k := { c.k with inRepeat := false } } start (span start c.k.address) (count.toNat - 1)).k := by
  unfold repeatFinish; simp only; split <;> simp

theorem repeatFinish_cell (c : Ctx) (start : Addr) (count : Int) :
    (repeatFinish c start count).cell =
      (copies { c with k := { c.k with inRepeat := false } } start (span start c.k.address) (count.toNat - 1)).cell := by
  unfold repeatFinish; simp only; split <;> simp

theorem Sim.repeatFinish (hR : CellRel R) (hF : Full R) {c1 c2 : Ctx} (h : Sim R c1 c2) (start : Addr) (count : Int) :
    Sim R (repeatFinish c1 start count) (repeatFinish c2 start count) := by
  obtain ⟨m1, m2, k, r1, r2, rfl, rfl, hr⟩ := h.elim
  have hs : Sim R ⟨m1, k, r1⟩ ⟨m2, k, r2⟩ := ⟨rfl, hr⟩
  have h3 := copies_sim hR hF start (span start k.address) (count.toNat - 1)
    (hs.mapK (fun k => { k with inRepeat := false }))
  refine ⟨?_, ?_⟩
  · rw [repeatFinish_k, repeatFinish_k]; exact h3.1
  · rw [repeatFinish_cell, repeatFinish_cell]; exact h3.2

theorem Sim.includeEnter {c1 c2 : Ctx} (h : Sim R c1 c2) : Sim R (includeEnter c1) (includeEnter c2) :=
  (h.mapK (fun k => { k with includeDepth := k.includeDepth + 1 })).setRep _ _

theorem Sim.includeLeave {c1 c2 : Ctx} (h : Sim R c1 c2) (s1 s2 : Bool) :
    Sim R (includeLeave s1 c1) (includeLeave s2 c2) :=
  (h.mapK (fun k => { k with includeDepth := k.includeDepth - 1 })).setRep _ _

theorem exec_sim (hR : CellRel R) (p : Prog) (hp : Full R ∨ NoRepeat p) :
    ∀ {c1 c2 : Ctx}, Sim R c1 c2 → SimRes R (exec p c1) (exec p c2) := by
  induction p with
  | nil => intro c1 c2 h; exact h.good
  | simple s rest ih =>
    intro c1 c2 h
    unfold exec
    obtain ⟨hok, hs⟩ := step_sim hR h s
    simp only [hok]
    split
    · exact ih (hp.imp id (fun x => x)) hs
    · exact ⟨hok, hs⟩
  | ifdef neg name t e rest iht ihe ihr =>
    intro c1 c2 h
    unfold exec
    have h1 := h.ifdefEnter
    rw [ifdefIgnore_eq h1 neg name]
    have hb : SimRes R (if ifdefIgnore neg name (ifdefEnter c2) then exec e (ifdefEnter c1) else exec t (ifdefEnter c1))
                       (if ifdefIgnore neg name (ifdefEnter c2) then exec e (ifdefEnter c2) else exec t (ifdefEnter c2)) := by
      cases ifdefIgnore neg name (ifdefEnter c2)
      · simpa using iht (hp.imp id (fun x => x.1)) h1
      · simpa using ihe (hp.imp id (fun x => x.2.1)) h1
    revert hb
    generalize (if ifdefIgnore neg name (ifdefEnter c2) then exec e (ifdefEnter c1) else exec t (ifdefEnter c1)) = r1
    generalize (if ifdefIgnore neg name (ifdefEnter c2) then exec e (ifdefEnter c2) else exec t (ifdefEnter c2)) = r2
    intro hb
    obtain ⟨hok, hs⟩ := hb
    simp only [hok]
    split
    · exact ihr (hp.imp id (fun x => x.2.2)) hs.ifdefLeave
    · exact ⟨hok, hs⟩
  | «repeat» count body rest ihb ihr =>
    intro c1 c2 h
    rcases hp with hF | hn
    · unfold exec
      simp only [h.1]
      split
      · exact h.fail
      · obtain ⟨hok, hs⟩ := ihb (Or.inl hF) h.repeatEnter
        simp only [hok]
        split
        · exact ihr (Or.inl hF) (hs.repeatFinish hR hF _ _)
        · exact ⟨hok, hs⟩
    · exact absurd hn (by simp [NoRepeat])
  | «include» body rest ihb ihr =>
    intro c1 c2 h
    unfold exec
    simp only [h.1]
    split
    · exact h.fail
    · obtain ⟨hok, hs⟩ := ihb (hp.imp id (fun x => x.1)) h.includeEnter
      simp only [hok]
      split
      · exact ihr (hp.imp id (fun x => x.2)) (hs.includeLeave _ _)
      · exact ⟨rfl, hs.includeLeave _ _⟩

end NakenVerif.Determinism
