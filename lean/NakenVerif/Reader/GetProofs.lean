/-
  tokens_get as a whole never faults and leaves the reader in a state from which it can be called
  again (property C16).
-/
import NakenVerif.Reader.GetImpl
import NakenVerif.Reader.TokProofs
import NakenVerif.Reader.MacroProofs

namespace NakenVerif.Reader

open NakenVerif.Generated

/-- the reader state between two calls of the API: at most two ungot characters are visible -/
structure Rest (r : RState) : Prop where
  rinv : RInv r
  ab : above r ≤ 2

theorem Rest_init (src : List Nat) : Rest (RState.init src) :=
  ⟨RInv_init src, by simp [above, RState.init]⟩

def GOk (cfg : Cfg) : GetOne → Prop
  | .tok _ text r => Rest r ∧ text.length < cfg.len
  | .entered r => Rest r
  | .stop r => Rest r
  | .exit => True
  | .fuel => True
  | .fault _ => False

theorem expFinish_ok_state (res : ERes) (define : List Nat) (pc : Nat) (r' : RState) (frame : Frame)
    (h : expFinish res define pc = .ok r' frame) : ∃ a, r' = { res.r with arena := a } := by
  unfold expFinish at h
  simp only at h
  repeat' (split at h)
  all_goals (cases h <;> exact ⟨_, rfl⟩)

theorem expFinish_error_state (res : ERes) (define : List Nat) (pc : Nat) (r' : RState)
    (h : expFinish res define pc = .error r') : r' = res.r := by
  unfold expFinish at h
  simp only at h
  repeat' (split at h)
  all_goals (cases h <;> rfl)

theorem enterMacro_gok (cfg : Cfg) (r : RState) (f : Frame) (hr : RInv r) (ha : above r ≤ 1) :
    GOk cfg (match enterMacro r f with
      | .ok (true, r') => .entered r'
      | .ok (false, r') => .stop r'
      | .fault f => .fault f
      | .exit1 => .exit) := by
  obtain ⟨b, r', he, hi, _, _, hf, ht⟩ := enterMacro_spec hr f ha
  simp only [he]
  cases b with
  | true =>
    have := (ht rfl).2.2.1
    exact ⟨hi, by omega⟩
  | false =>
    have hh := hf rfl
    refine ⟨hi, ?_⟩
    have : above r' = above r := by simp only [above, hh.2.2.1, hh.2.2.2]
    omega

theorem postProcess_ok (cfg : Cfg) (env : MacroEnv) (fuel : Nat) (raw : TokRaw) (h : TPost cfg raw) :
    GOk cfg (postProcess cfg env fuel raw) := by
  unfold postProcess
  split
  · trivial
  · rename_i hex
    have hex' : raw.exited = false := by simpa using hex
    have hlen := h.ptr hex'
    split
    · exact ⟨⟨h.rinv, h.above2⟩, hlen⟩
    · simp only [if_true]
      -- the trailing dot of a float
      have hfix : ∀ (tt : TType) (tok : List Nat) (r : RState),
          (if raw.tt = .float then
            match raw.tok.getLast? with
            | none => R.fault .tokenUnderflow
            | some l =>
              if l = 46 then
                match ungetChar raw.r 46 with
                | .ok r => .ok (TType.number, raw.tok.dropLast, r)
                | .fault f => .fault f
                | .exit1 => .exit1
              else .ok (raw.tt, raw.tok, raw.r)
          else .ok (raw.tt, raw.tok, raw.r)) = .ok (tt, tok, r) →
          Rest r ∧ tok.length < cfg.len ∧ (tt = .string → above r ≤ 1) := by
        intro tt tok r heq
        split at heq
        · rename_i hfl
          have hne := h.float hfl
          cases hl : raw.tok.getLast? with
          | none =>
            have : raw.tok = [] := List.getLast?_eq_none_iff.mp hl
            simp [this] at hne
          | some l =>
            simp only [hl] at heq
            split at heq
            · obtain ⟨r', hu, hi, hab, _⟩ := ungetChar_ok h.rinv 46 (by have := h.above1 (Or.inl hfl); omega)
              simp only [hu, R.ok.injEq, Prod.mk.injEq] at heq
              obtain ⟨h1, h2, h3⟩ := heq
              subst h1 h2 h3
              refine ⟨⟨hi, by have := h.above1 (Or.inl hfl); omega⟩, ?_, fun h' => by cases h'⟩
              simp only [List.length_dropLast]; omega
            · simp only [R.ok.injEq, Prod.mk.injEq] at heq
              obtain ⟨h1, h2, h3⟩ := heq
              subst h1 h2 h3
              exact ⟨⟨h.rinv, h.above2⟩, hlen, fun h' => h.above1 (Or.inr h')⟩
        · simp only [R.ok.injEq, Prod.mk.injEq] at heq
          obtain ⟨h1, h2, h3⟩ := heq
          subst h1 h2 h3
          exact ⟨⟨h.rinv, h.above2⟩, hlen, fun h' => h.above1 (Or.inr h')⟩
      split
      · rename_i f heq
        -- a fault of the fix-up is impossible
        split at heq
        · rename_i hfl
          have hne := h.float hfl
          cases hl : raw.tok.getLast? with
          | none =>
            have : raw.tok = [] := List.getLast?_eq_none_iff.mp hl
            simp [this] at hne
          | some l =>
            simp only [hl] at heq
            split at heq
            · obtain ⟨r', hu, _⟩ := ungetChar_ok h.rinv 46 (by have := h.above1 (Or.inl hfl); omega)
              simp only [hu] at heq
              cases heq
            · cases heq
        · cases heq
      · trivial
      · rename_i tt tok r heq
        obtain ⟨hrest, htl, hstr⟩ := hfix tt tok r heq
        split
        · exact ⟨hrest, by simp; omega⟩
        · split
          · exact ⟨hrest, by simp; omega⟩
          · split
            · rename_i hs
              have ha1 := hstr hs
              split
              · rename_i text pc _
                split
                · exact enterMacro_gok cfg r _ hrest.rinv ha1
                · -- a macro with parameters
                  have hrun := run_post (expStep_ok (above r)) fuel (EState.start r) (einv_start r hrest.rinv)
                  unfold expArgs
                  cases hr : run expStep fuel (EState.start r) with
                  | fuel => trivial
                  | fault f => simp only [hr] at hrun
                  | done res =>
                    simp only [hr] at hrun
                    simp only
                    have hnf := expFinish_no_fault (above r) res text pc hrun
                    cases hf : expFinish res text pc with
                    | fault f => exact absurd hf (hnf f)
                    | exit => trivial
                    | error r' =>
                      have := expFinish_error_state res text pc r' hf
                      subst this
                      exact ⟨hrun.rinv, by have := hrun.ab; omega⟩
                    | ok r' frame =>
                      obtain ⟨a, ha⟩ := expFinish_ok_state res text pc r' frame hf
                      subst ha
                      exact enterMacro_gok cfg _ frame
                        ⟨hrun.rinv.marks_ok, hrun.rinv.marks_len, hrun.rinv.stack_len⟩
                        (by show above res.r ≤ 1; have := hrun.ab; omega)
              · split
                · exact ⟨hrest, by simp; omega⟩
                · exact ⟨hrest, htl⟩
            · exact ⟨hrest, htl⟩

/-- tokens_get_one: no fault; a token fits its buffer; the reader is at rest afterwards -/
theorem tokensGetOne_ok (cfg : Cfg) (env : MacroEnv) (fuel : Nat) (r : RState) (h : Rest r)
    (hl : 1 ≤ cfg.len) : GOk cfg (tokensGetOne cfg env fuel r) := by
  unfold tokensGetOne tokLoop
  have hrun := run_post (tokStep_ok cfg) fuel (TState.start r) (tinv_start cfg r h.rinv h.ab hl)
  cases hr : run (tokStep cfg) fuel (TState.start r) with
  | fuel => trivial
  | fault f => simp only [hr] at hrun
  | done raw =>
    simp only [hr] at hrun
    exact postProcess_ok cfg env fuel raw hrun

def GotOk (cfg : Cfg) : Got → Prop
  | .tok _ text r => Rest r ∧ text.length < cfg.len
  | .exit => True
  | .fuel => True
  | .fault _ => False

theorem rest_expand {r : RState} (h : Rest r) (e n : Nat) : Rest { r with expand := e, errors := n } :=
  ⟨⟨h.rinv.marks_ok, h.rinv.marks_len, h.rinv.stack_len⟩, h.ab⟩

/-- tokens_get: no fault for any source text, any macro table, any number of macro entries -/
theorem tokensGet_ok (cfg : Cfg) (env : MacroEnv) (fuel : Nat) (hl : 1 ≤ cfg.len) :
    ∀ (n : Nat) (r : RState), Rest r → GotOk cfg (tokensGet cfg env fuel n r) := by
  intro n
  induction n with
  | zero => intro r _; trivial
  | succ n ih =>
    intro r hr
    unfold tokensGet
    have h1 := tokensGetOne_ok cfg env fuel r hr hl
    cases hg : tokensGetOne cfg env fuel r with
    | tok tt text r' => simp only [hg, GOk] at h1; exact h1
    | stop r' => simp only [hg, GOk] at h1; exact ⟨h1, by simp; omega⟩
    | exit => trivial
    | fault f => simp only [hg, GOk] at h1
    | fuel => trivial
    | entered r' =>
      simp only [hg, GOk] at h1
      simp only
      split
      · exact ⟨rest_expand h1 _ _, by simp; omega⟩
      · exact ih _ ⟨⟨h1.rinv.marks_ok, h1.rinv.marks_len, h1.rinv.stack_len⟩, h1.ab⟩

/-- a token delivered by tokens_get (buffer length at most that of pushback[]) can be pushed back -/
theorem tokensPush_ok (cfg : Cfg) (text : List Nat) (h : text.length < cfg.len)
    (hc : cfg.len ≤ pushbackLen) : tokensPush text = none := by
  unfold tokensPush cstr
  have hle : ∀ (p : Nat → Bool) (l : List Nat), (l.takeWhile p).length ≤ l.length := by
    intro p l
    induction l with
    | nil => simp
    | cons x xs ih => simp only [List.takeWhile]; split <;> simp <;> omega
  have := hle (fun x => decide (x ≠ 0)) text
  have hlt : (List.takeWhile (fun x => decide (x ≠ 0)) text).length < pushbackLen := by omega
  simp only [hlt, if_true]

end NakenVerif.Reader
