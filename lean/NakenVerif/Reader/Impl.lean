/-
  Implementation model of the character reader (property C16):

  * core/tokens.cpp : tokens_reset, tokens_get_char, tokens_unget_char, tokens_push
  * core/Macros.cpp : macros_get_char, macros_push_define
  * the macro-entry bookkeeping of tokens_get (`unget_stack[++unget_stack_ptr] = unget_ptr`)

  Every C array is a bounded buffer: `unget[]` is the list of the characters below `unget_ptr`,
  `unget_stack[]` the list of the marks up to `unget_stack_ptr`, `macros.stack[]` the list of the
  active macro texts; an index outside the array is an explicit `fault`.  Capacities are the
  regenerated constants of `Generated.Limits` (sizeof of the real arrays).

  Characters are C `int`s: 0..255 from getc(), -1 = EOF = CHAR_EOF, and -128..-1 for bytes read
  back from the `char` array `unget[]`.
-/
import NakenVerif.Reader.Machine
import NakenVerif.Generated.Limits

namespace NakenVerif.Reader

open NakenVerif.Generated

abbrev Ch := Int

def EOFc : Ch := -1

/-- value of a C `int` after a round trip through a (signed) `char` -/
def toSChar (c : Ch) : Ch := (c + 128) % 256 - 128

/-- the byte stored when a C `int` is assigned to a `char` -/
def toByte (c : Ch) : Nat := (c % 256).toNat

/-- Result of an operation of the real code: normal, `exit(1)` after an "Internal Error"
    diagnostic, or undefined behaviour. -/
inductive R (α : Type) where
  | ok (a : α)
  | exit1
  | fault (f : Fault)
  deriving Repr

/-- One entry of `macros.stack[]`: the rest of a macro text. -/
structure Frame where
  text : List Nat            -- remaining characters (each 1..255); the terminating NUL follows
  arenaEnd : Option Nat      -- text inside def_param_stack_data[]: index of the byte after its NUL
  deriving Repr, DecidableEq

structure RState where
  src : List Nat             -- bytes of the source not yet read (getc)
  unget : List Ch            -- unget[0 .. unget_ptr), last pushed first
  marks : List Nat           -- unget_stack[0 .. unget_stack_ptr], top first
  stack : List Frame         -- macros.stack[0 .. stack_ptr), top first
  arena : List Nat           -- def_param_stack_ptr[0 .. def_param_stack_count], top first
  expand : Nat               -- tokens.expand_count
  errors : Nat               -- error_count (diagnosed errors)
  deriving Repr

/-- tokens_reset + AsmContext::init on a fresh source -/
def RState.init (src : List Nat) : RState :=
  { src := src, unget := [], marks := [0], stack := [], arena := [0], expand := 0, errors := 0 }

/-- `return unget[--unget_ptr]` -/
def popUnget (st : RState) : R (Ch × RState) :=
  match st.unget with
  | [] => .fault .ungetUnderflow
  | c :: u => .ok (c, { st with unget := u })

/-- `do { ch = getc(in); } while (ch == '\r');` -/
def readFile : List Nat → Ch × List Nat
  | [] => (EOFc, [])
  | c :: t => if c = 13 then readFile t else ((c : Int), t)

/-- the arena slice of a text that has been read to its end is released -/
def releaseArena (f : Frame) (st : RState) : R RState :=
  match f.arenaEnd with
  | none => .ok st
  | some e =>
    -- `stack[sp] > def_param_stack_data && stack[sp] <= def_param_stack_data + PARAM_STACK_LEN`
    -- (the pointer is already one past the NUL)
    if 0 < e ∧ e ≤ paramStackLen then
      match st.arena with
      | _ :: a :: as => .ok { st with arena := a :: as }      -- def_param_stack_count--
      | _ => .exit1                                           -- count < 0: print_error_internal; exit(1)
    else .ok st

/-- macros_get_char: next character of the innermost macro text; at its NUL the level is popped
    and an ungot character above the outer mark is delivered first.  -1 = CHAR_EOF. -/
def macrosGetCharGo : List Frame → RState → R (Ch × RState)
  | [], st => .ok (EOFc, { st with stack := [] })
  | f :: rest, st =>
    match f.text with
    | c :: t => .ok ((c : Int), { st with stack := { f with text := t } :: rest })
    | [] =>
      match releaseArena f st with
      | .exit1 => .exit1
      | .fault e => .fault e
      | .ok st1 =>
        -- macros->stack_ptr--; tokens.unget_stack_ptr--;
        match st1.marks with
        | _ :: m :: ms =>
          let st2 := { st1 with marks := m :: ms, stack := rest }
          if st2.unget.length > m then popUnget st2
          else macrosGetCharGo rest st2
        | _ => .fault .markUnderflow

def macrosGetChar (st : RState) : R (Ch × RState) := macrosGetCharGo st.stack st

/-- tokens_get_char -/
def getChar (st : RState) : R (Ch × RState) :=
  match st.marks with
  | [] => .fault .markUnderflow
  | m :: _ =>
    if st.unget.length > m then popUnget st
    else
      match macrosGetChar st with
      | .exit1 => .exit1
      | .fault e => .fault e
      | .ok (ch, st1) =>
        if ch = EOFc then
          match st1.marks with
          | [] => .fault .markUnderflow
          | m1 :: _ =>
            if st1.unget.length > m1 then popUnget st1
            else
              let (c, rest) := readFile st1.src
              .ok (c, { st1 with src := rest, expand := if c = EOFc then st1.expand else 0 })
        else .ok (ch, st1)

/-- tokens_unget_char: `unget[unget_ptr++] = ch` -/
def ungetChar (st : RState) (c : Ch) : R RState :=
  if st.unget.length < ungetLen then .ok { st with unget := toSChar c :: st.unget }
  else .fault .ungetOverflow

/-- macros_push_define: `false` = "defines heap stack exhausted" -/
def pushDefine (st : RState) (f : Frame) : R (Bool × RState) :=
  if st.stack.length ≥ maxNestedMacros then .ok (false, st)
  else if st.stack.length < macroStackLen then .ok (true, { st with stack := f :: st.stack })
  else .fault .macroStackOverflow

/-- `unget_stack[++unget_stack_ptr] = unget_ptr` -/
def pushMark (st : RState) : R RState :=
  if st.marks.length < ungetStackLen then .ok { st with marks := st.unget.length :: st.marks }
  else .fault .markOverflow

/-- the macro-entry sequence of tokens_get for a text that is already in place:
    macros_push_define, error_count++ when it fails, else the new mark -/
def enterMacro (st : RState) (f : Frame) : R (Bool × RState) :=
  match pushDefine st f with
  | .exit1 => .exit1
  | .fault e => .fault e
  | .ok (false, st1) => .ok (false, { st1 with errors := st1.errors + 1 })
  | .ok (true, st1) =>
    match pushMark st1 with
    | .ok st2 => .ok (true, st2)
    | .exit1 => .exit1
    | .fault e => .fault e

/-! ### Quantities used by the theorems -/

/-- characters the reader can still deliver: source, ungot characters, active macro texts
    (one extra per level for the pop) -/
def framesSize : List Frame → Nat
  | [] => 0
  | f :: rest => f.text.length + 1 + framesSize rest

/-- ungot characters that do not read back as EOF (an ungot EOF, or byte 0xff, reads back as -1
    and ends whatever loop receives it) -/
def ungetSize : List Ch → Nat
  | [] => 0
  | c :: u => (if c = EOFc then 0 else 1) + ungetSize u

def avail (st : RState) : Nat := st.src.length + ungetSize st.unget + framesSize st.stack

/-- the innermost mark `unget_stack[unget_stack_ptr]` -/
def topMark : List Nat → Nat
  | [] => 0
  | m :: _ => m

@[simp] theorem topMark_nil : topMark [] = 0 := rfl
@[simp] theorem topMark_cons (m : Nat) (ms : List Nat) : topMark (m :: ms) = m := rfl

/-- ungot characters above the innermost mark (the ones tokens_get_char delivers next) -/
def above (st : RState) : Nat := st.unget.length - topMark st.marks

end NakenVerif.Reader
