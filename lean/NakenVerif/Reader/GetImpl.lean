/-
  Implementation model of tokens_get (property C16): post-processing of the accumulated token,
  macro entry, the loop over macro entries with its expansion budget, and tokens_push.

  core/tokens.cpp: the part of tokens_get_one after the accumulation loop, tokens_get, tokens_push.

  Not modelled: the symbol table (a name that is a label is replaced by its address; the model is
  of a reader without symbols), the numeric value of converted literals (C04) — a converted token
  is reported with its type only.
-/
import NakenVerif.Reader.TokImpl
import NakenVerif.Reader.MacroImpl

namespace NakenVerif.Reader

open NakenVerif.Generated

/-- macros_lookup: text and parameter count of a macro -/
abbrev MacroEnv := List Nat → Option (List Nat × Nat)

/-- tokens_hex_string_to_int accepts the digits (`prefixed`: after "0x") -/
def hexOk : List Nat → Bool → Bool
  | [], _ => true
  | c :: rest, pre =>
    if c = 104 ∨ c = 72 then ! pre
    else if (48 ≤ c ∧ c ≤ 57) ∨ (97 ≤ c ∧ c ≤ 102) ∨ (65 ≤ c ∧ c ≤ 70) ∨ c = 95 then hexOk rest pre
    else false

def binOk : List Nat → Bool → Bool
  | [], _ => true
  | c :: rest, pre =>
    if c = 98 ∨ c = 66 then ! pre
    else if c = 48 ∨ c = 49 ∨ c = 95 then binOk rest pre
    else false

def octOk : List Nat → Bool
  | [] => true
  | c :: rest =>
    if c = 113 ∨ c = 81 then true
    else if (48 ≤ c ∧ c ≤ 55) ∨ c = 95 then octOk rest
    else false

def lowerB (b : Nat) : Nat := if 65 ≤ b ∧ b ≤ 90 then b + 32 else b

/-- a byte buffer read as a C string -/
def cstr (tok : List Nat) : List Nat := tok.takeWhile (· ≠ 0)

/-- does the string token turn into a number?  `last` = token[ptr - 1] -/
def stringIsNumber (cfg : Cfg) (tok0 : List Nat) (last : Nat) : Bool :=
  if (cstr tok0).headD 0 = 48 ∧ ((cstr tok0).drop 1).headD 0 = 120 then hexOk ((cstr tok0).drop 2) true
  else if (cstr tok0).headD 0 = 48 ∧ ((cstr tok0).drop 1).headD 0 = 98 then binOk ((cstr tok0).drop 2) true
  else if (48 ≤ (cstr tok0).headD 0 ∧ (cstr tok0).headD 0 ≤ 57) ∧ lowerB last = 104 ∧ ¬ cfg.noPostfix then
    hexOk (cstr tok0) false
  else if (48 ≤ (cstr tok0).headD 0 ∧ (cstr tok0).headD 0 ≤ 55) ∧ lowerB last = 113 ∧ ¬ cfg.noPostfix then
    octOk (cstr tok0)
  else if ((cstr tok0).headD 0 = 48 ∨ (cstr tok0).headD 0 = 49) ∧ lowerB last = 98 then binOk (cstr tok0) false
  else false

inductive GetOne where
  | tok (tt : TType) (text : List Nat) (r : RState)   -- a token (text empty for converted numbers)
  | entered (r : RState)                               -- a macro was entered: read again
  | stop (r : RState)                                  -- TOKEN_EOF after a diagnosed error
  | exit                                               -- exit(1)
  | fault (f : Fault)
  | fuel
  deriving Repr

/-- the part of tokens_get_one after the accumulation loop -/
def postProcess (cfg : Cfg) (env : MacroEnv) (fuel : Nat) (raw : TokRaw) : GetOne :=
  if raw.exited then .exit
  else if raw.kind = .ret then .tok raw.tt raw.tok raw.r
  else
    -- `token[ptr] = 0`
    if raw.tok.length < cfg.len then
      -- a float that ends in '.': the dot goes back, the rest is a number
      let fix : R (TType × List Nat × RState) :=
        if raw.tt = .float then
          match raw.tok.getLast? with
          | none => .fault .tokenUnderflow
          | some l =>
            if l = 46 then
              match ungetChar raw.r 46 with
              | .ok r => .ok (.number, raw.tok.dropLast, r)
              | .fault f => .fault f
              | .exit1 => .exit1
            else .ok (raw.tt, raw.tok, raw.r)
        else .ok (raw.tt, raw.tok, raw.r)
      match fix with
      | .fault f => .fault f
      | .exit1 => .exit
      | .ok (tt, tok, r) =>
        if tt = .ticked ∧ tok.length = 1 then .tok .number [] r
        else if tt ≠ .quoted ∧ cstr tok = [36] then .tok .number [] r
        else if tt = .string then
          match env (cstr tok) with
          | some (text, pc) =>
            if pc = 0 then
              match enterMacro r { text := text, arenaEnd := none } with
              | .ok (true, r') => .entered r'
              | .ok (false, r') => .stop r'
              | .fault f => .fault f
              | .exit1 => .exit
            else
              match expArgs fuel r with
              | .fuel => .fuel
              | .fault f => .fault f
              | .done res =>
                match expFinish res text pc with
                | .fault f => .fault f
                | .exit => .exit
                | .error r' => .stop r'
                | .ok r' frame =>
                  match enterMacro r' frame with
                  | .ok (true, r'') => .entered r''
                  | .ok (false, r'') => .stop r''
                  | .fault f => .fault f
                  | .exit1 => .exit
          | none =>
            if stringIsNumber cfg tok (tok.getLast?.getD 0) then .tok .number [] r else .tok .string tok r
        else .tok tt tok r
    else .fault .tokenOverflow

/-- tokens_get_one -/
def tokensGetOne (cfg : Cfg) (env : MacroEnv) (fuel : Nat) (r : RState) : GetOne :=
  match tokLoop cfg fuel r with
  | .fuel => .fuel
  | .fault f => .fault f
  | .done raw => postProcess cfg env fuel raw

inductive Got where
  | tok (tt : TType) (text : List Nat) (r : RState)
  | exit
  | fault (f : Fault)
  | fuel
  deriving Repr

/-- tokens_get: the loop over macro entries (`n` bounds the number of entries followed) -/
def tokensGet (cfg : Cfg) (env : MacroEnv) (fuel : Nat) : Nat → RState → Got
  | 0, _ => .fuel
  | n + 1, r =>
    match tokensGetOne cfg env fuel r with
    | .tok tt text r' => .tok tt text r'
    | .stop r' => .tok .eof [] r'
    | .exit => .exit
    | .fault f => .fault f
    | .fuel => .fuel
    | .entered r' =>
      -- `if (++expand_count > MAX_MACRO_EXPANSIONS) { error; return TOKEN_EOF; }`
      if r'.expand + 1 > maxMacroExpansions then
        .tok .eof [] { r' with expand := r'.expand + 1, errors := r'.errors + 1 }
      else tokensGet cfg env fuel n { r' with expand := r'.expand + 1 }

/-- tokens_push: strcpy into pushback[] (or pushback2[]) -/
def tokensPush (text : List Nat) : Option Fault :=
  if (cstr text).length < pushbackLen then none else some .pushbackOverflow

end NakenVerif.Reader
