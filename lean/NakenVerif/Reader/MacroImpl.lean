/-
  Implementation model of the buf buffers (property C16): core/Macros.cpp

  * macros_parse_token   – `name[]`
  * macros_parse         – one parameter name into `params[]`, the body loop into `macro[]`
  * macros_expand_params – `params[]`, `params_ptr[]`, the parameter arena
                           `def_param_stack_data[]` / `def_param_stack_ptr[]`

  Buffers are lists of the bytes below the write index; a write byteAt an index outside the array
  (extent from `Generated.ReaderLimits`, read from the source text) is a fault.  The bound tests
  of the C code use the regenerated literals (`exParamsSlack`, `mpMacroSlack` ...), so an array
  that shrinks while its test keeps the old literal breaks the theorems.
-/
import NakenVerif.Reader.Impl
import NakenVerif.Generated.ReaderLimits

namespace NakenVerif.Reader

open NakenVerif.Generated

def isLetter (c : Ch) : Bool := decide ((97 ≤ c ∧ c ≤ 122) ∨ (65 ≤ c ∧ c ≤ 90))
def isDig (c : Ch) : Bool := decide (48 ≤ c ∧ c ≤ 57)

/-! ### macros_expand_params: collecting the arguments -/

inductive EPc where
  | blanks      -- before the opening parenthesis
  | args        -- inside the argument list
  | esc         -- after a backslash inside a string or ticks
  deriving DecidableEq, Repr

structure EState where
  r : RState
  pc : EPc
  params : List Nat         -- params[0 .. ptr)
  ptrs : List Nat           -- params_ptr[0 .. count], last first
  inString : Bool
  inTicks : Bool
  parens : Nat              -- uint8_t open_parens
  deriving Repr

inductive EEnd where
  | args                    -- the closing parenthesis was found
  | error                   -- a diagnosed error (asm_context->error = 1, return nullptr)
  | exit                    -- exit(1)
  deriving DecidableEq, Repr

structure ERes where
  r : RState
  params : List Nat
  ptrs : List Nat
  how : EEnd
  deriving Repr

def EState.fin (s : EState) (how : EEnd) : Step EState ERes :=
  .done { r := s.r, params := s.params, ptrs := s.ptrs, how := how }

/-- `params[ptr++] = c` -/
def eput (s : EState) (c : Ch) : Option EState :=
  if s.params.length < exParamsLen then some { s with params := s.params ++ [toByte c] } else none

def tabToSpace (c : Ch) : Ch := if c = 9 then 32 else c

def newInString (s : EState) (ch : Ch) : Bool :=
  if ch = 34 ∧ ¬ s.inTicks then ! s.inString else s.inString

def newInTicks (s : EState) (ch : Ch) : Bool :=
  if ch = 39 ∧ ¬ newInString s ch then ! s.inTicks else s.inTicks

/-- `open_parens++` / `open_parens--` on a uint8_t -/
def newParens (s : EState) (ch : Ch) : Nat :=
  if ch = 40 ∧ ¬ newInString s ch ∧ ¬ newInTicks s ch then (s.parens + 1) % 256
  else if ch = 41 ∧ ¬ newInString s ch ∧ ¬ newInTicks s ch then (s.parens + 255) % 256
  else s.parens

/-- the argument loop from the quote bookkeeping on -/
def argsTail (s : EState) (ch : Ch) : Step EState ERes :=
  if ch = 41 ∧ ¬ newInString s ch ∧ ¬ newInTicks s ch ∧ s.parens = 0 then
    { s with inString := newInString s ch, inTicks := newInTicks s ch }.fin .args
  else if ch = 10 ∨ ch = EOFc then s.fin .error            -- "Macro expects ')'"
  else if ch = 44 ∧ ¬ newInString s ch ∧ ¬ newInTicks s ch ∧ s.parens = 0 then
    -- `params[ptr++] = 0; params_ptr[++count] = ptr;`
    match eput { s with inString := newInString s ch, inTicks := newInTicks s ch } 0 with
    | none => .fault .paramsOverflow
    | some s' =>
      if s'.ptrs.length < exParamsPtrLen then .next { s' with ptrs := s'.params.length :: s'.ptrs }
      else .fault .paramsPtrOverflow
  else
    match eput { s with inString := newInString s ch, inTicks := newInTicks s ch,
                        parens := newParens s ch } ch with
    | none => .fault .paramsOverflow
    | some s' => .next s'

def argsBody (s : EState) (ch : Ch) : Step EState ERes :=
  if ch = 13 then .next s
  else if s.params.length + exParamsSlack ≥ exParamsLen ∨ s.ptrs.length - 1 ≥ exCountMax then
    s.fin .error                                             -- "Macro parameters too long"
  else if ch = 32 ∧ (s.params.length = 0 ∨ s.params.getLast? = some 0) then .next s
  else if ch = 92 ∧ (s.inString ∨ s.inTicks) then
    match eput s ch with
    | none => .fault .paramsOverflow
    | some s' => .next { s' with pc := .esc }
  else argsTail s ch

def expBody (s : EState) (ch0 : Ch) : Step EState ERes :=
  match s.pc with
  | .blanks =>
    if tabToSpace ch0 = 32 then .next s
    else if tabToSpace ch0 ≠ 40 then s.fin .error            -- "Macro expects params"
    else .next { s with pc := .args, params := [], ptrs := [0] }
  | .esc =>
    -- `ch = tokens_get_char(); params[ptr++] = ch; continue;`
    match eput s ch0 with
    | none => .fault .paramsOverflow
    | some s' => .next { s' with pc := .args }
  | .args => argsBody s (tabToSpace ch0)

def expStep (s : EState) : Step EState ERes :=
  match getChar s.r with
  | .fault f => .fault f
  | .exit1 => s.fin .exit
  | .ok (ch, r) => expBody { s with r := r } ch

def EState.start (r : RState) : EState :=
  { r := r, pc := .blanks, params := [], ptrs := [], inString := false, inTicks := false, parens := 0 }

/-- the two loops of macros_expand_params that read the invocation's arguments -/
def expArgs (fuel : Nat) (r : RState) : Out ERes := run expStep fuel (EState.start r)

/-! ### macros_expand_params: substitution into the parameter arena -/

/-- `params + params_ptr[index]` as a C string -/
def argAt (params : List Nat) (start : Nat) : List Nat := (params.drop start).takeWhile (· ≠ 0)

inductive SubRes where
  | ok (text : List Nat) (ptr : Nat)   -- the expanded text and the index after it (before the NUL)
  | error                              -- "Bad parameter reference in macro"
  | exit                               -- print_error_internal; exit(1)
  | fault (f : Fault)
  deriving Repr, DecidableEq

/-- the argument a marker byte stands for -/
def argOf (params ptrs : List Nat) (idx : Nat) : List Nat :=
  argAt params ((ptrs.reverse).getD (idx - 1) 0)

/-- the loop `while (*define != 0)`: `ptr` is the write index into def_param_stack_data[],
    `acc` the text written so far (reversed) -/
def substGo (params : List Nat) (ptrs : List Nat) (count : Nat) : List Nat → Nat → List Nat → SubRes
  | [], ptr, acc => .ok acc.reverse ptr
  | c :: rest, ptr, acc =>
    if c = 1 then
      match rest with
      | [] => .error                                        -- the byte after the marker is the NUL: index -1
      | idx :: rest' =>
        if idx = 0 ∨ idx - 1 ≥ count then .error
        else if ptr + (argOf params ptrs idx).length ≥ paramStackLen then .exit
        else if ptr + (argOf params ptrs idx).length < defParamStackDataLen then   -- strcpy writes ptr .. ptr + len
          if ptr + (argOf params ptrs idx).length ≥ paramStackLen then .exit
          else substGo params ptrs count rest' (ptr + (argOf params ptrs idx).length)
                 ((argOf params ptrs idx).reverse ++ acc)
        else .fault .arenaOverflow
    else
      if ptr < defParamStackDataLen then
        if ptr + 1 ≥ paramStackLen then .exit else substGo params ptrs count rest (ptr + 1) (c :: acc)
      else .fault .arenaOverflow

inductive ExpandRes where
  | ok (r : RState) (f : Frame)
  | error (r : RState)
  | exit
  | fault (f : Fault)
  deriving Repr

/-- the rest of macros_expand_params after the arguments have been read -/
def expFinish (res : ERes) (define : List Nat) (paramCount : Nat) : ExpandRes :=
  match res.how with
  | .exit => .exit
  | .error => .error res.r
  | .args =>
    -- `params[ptr++] = 0; count++;`
    if res.params.length < exParamsLen then
      let params := res.params ++ [0]
      let count := res.ptrs.length
      if count ≠ paramCount then .error res.r
      else
        -- def_param_stack_ptr[def_param_stack_count]
        let arenaCount := res.r.arena.length - 1
        if arenaCount ≥ maxNestedMacros then .error res.r          -- "Macros nested too deep"
        else if arenaCount < defParamStackPtrLen then
          let ptr := res.r.arena.headD 0
          if ptr ≥ paramStackLen then .exit
          else
            match substGo params res.ptrs count define ptr [] with
            | .error => .error res.r
            | .exit => .exit
            | .fault f => .fault f
            | .ok text ptr' =>
              -- `def_param_stack_data[ptr++] = 0; def_param_stack_ptr[++count] = ptr;`
              if ptr' < defParamStackDataLen then
                if arenaCount + 1 < defParamStackPtrLen then
                  .ok { res.r with arena := (ptr' + 1) :: res.r.arena }
                      { text := text, arenaEnd := some (ptr' + 1) }
                else .fault .arenaPtrOverflow
              else .fault .arenaOverflow
        else .fault .arenaPtrOverflow
    else .fault .paramsOverflow

/-! ### macros_parse -/

/-- macros_parse_token: the name loop.  `len` is the length passed by the caller (`mpNameArg`),
    the array is `name[mpNameLen]`. -/
inductive NPc where
  | name        -- outer loop
  | paren       -- the "Check for (" loop of a .macro
  deriving DecidableEq, Repr

structure NState where
  r : RState
  pc : NPc
  name : List Nat
  deriving Repr

inductive NEnd where
  | plain       -- return 0
  | parens      -- return 1
  | bad         -- return -1 ("Bad macro name")
  | exit
  deriving DecidableEq, Repr

structure NRes where
  r : RState
  name : List Nat
  how : NEnd
  deriving Repr

/-- the value of `char ch = tokens_get_char()` -/
def asChar (c : Ch) : Ch := toSChar c

def nameBody (isDefine : Bool) (s : NState) (ch0 : Ch) : Step NState NRes :=
  let fin (r : RState) (how : NEnd) : Step NState NRes :=
    -- `token[ptr] = 0`
    if s.name.length < mpNameLen then .done { r := r, name := s.name, how := how } else .fault .nameOverflow
  let ch := tabToSpace (asChar ch0)
  match s.pc with
  | .paren =>
    if ch = 32 then .next s
    else if ch = 40 then fin s.r .parens
    else
      match ungetChar s.r ch with
      | .ok r => fin r .plain
      | .fault f => .fault f
      | .exit1 => .done { r := s.r, name := s.name, how := .exit }
  | .name =>
    if ch = 32 then
      if s.name.length = 0 then .next s
      else if isDefine then fin s.r .plain
      else .next { s with pc := .paren }
    else if isLetter ch ∨ ch = 95 ∨ (isDig ch ∧ s.name.length ≠ 0) then
      -- `token[ptr++] = ch; if (ptr == len - 1) break;`
      if s.name.length < mpNameLen then
        let s' := { s with name := s.name ++ [toByte ch] }
        if s'.name.length + 1 = mpNameArg then
          (if s'.name.length < mpNameLen then .done { r := s.r, name := s'.name, how := .plain }
           else .fault .nameOverflow)
        else .next s'
      else .fault .nameOverflow
    else if isDig ch then .done { r := s.r, name := s.name, how := .bad }
    else if ch = 40 then fin s.r .parens
    else
      match ungetChar s.r ch with
      | .ok r => fin r .plain
      | .fault f => .fault f
      | .exit1 => .done { r := s.r, name := s.name, how := .exit }

def nameStep (isDefine : Bool) (s : NState) : Step NState NRes :=
  match getChar s.r with
  | .fault f => .fault f
  | .exit1 => .done { r := s.r, name := s.name, how := .exit }
  | .ok (ch, r) => nameBody isDefine { s with r := r } ch

def parseName (isDefine : Bool) (fuel : Nat) (r : RState) : Out NRes :=
  run (nameStep isDefine) fuel { r := r, pc := .name, name := [] }

/-- one pass of the parameter-name loop of macros_parse, after tokens_get delivered a name of
    `len` characters: `if (ptr + len + 2 > 1024) error; strcpy(params + ptr, token); ptr += len + 1` -/
inductive AddParam where
  | ok (params : List Nat) (count : Nat)
  | error
  | fault (f : Fault)
  deriving Repr, DecidableEq

def addParam (params : List Nat) (count : Nat) (tok : List Nat) : AddParam :=
  let count := count + 1
  if count > mpParamCountMax then .error
  else if params.length + tok.length + 2 > mpParamsCheck then .error
  else if params.length + tok.length < mpParamsLen then .ok (params ++ tok ++ [0]) count
  else .fault .paramsOverflow

/-- get_param_index -/
def paramIndexGo : List Nat → List Nat → Nat → Nat
  | [], _, _ => 0
  | p :: ps, name, n =>
    let cur := (p :: ps).takeWhile (· ≠ 0)
    if cur = [] then 0
    else if cur = name then n + 1
    else paramIndexGo ((p :: ps).drop (cur.length + 1)) name (n + 1)
termination_by l => l.length
decreasing_by simp; omega

/-! #### the body loop -/

inductive BPc where
  | body                       -- top of the loop
  | comment (bare : Bool)      -- skipping the rest of a line after ';' or "//"
  | cont                       -- after a backslash of a .define: skip '\r', expect '\n'
  | block (last : Ch)          -- macros_strip_comment: inside /* */
  deriving DecidableEq, Repr

structure BState where
  r : RState
  pc : BPc
  buf : List Nat             -- macro[0 .. ptr)
  nameTest : Option Nat        -- name_test - macro
  inWord : Bool                -- in_word: the previous character was a letter, a digit or '_'
  deriving Repr

inductive BEnd where
  | body                       -- the loop was left: the text is complete
  | error                      -- return -1 with a diagnostic
  | exit
  deriving DecidableEq, Repr

structure BRes where
  r : RState
  buf : List Nat             -- the text as a C string
  wptr : Nat                   -- the value of `ptr` when the loop is left
  how : BEnd
  deriving Repr

def BState.fin (s : BState) (how : BEnd) : Step BState BRes :=
  .done { r := s.r, buf := s.buf, wptr := s.buf.length, how := how }

def lowerByte (b : Nat) : Nat := if 65 ≤ b ∧ b ≤ 90 then b + 32 else b

/-- check_endm(macro, ptr) on the bytes below `ptr` (macro[ptr] = 0 has been written):
    `none` = not the end, `some k` = ".endm" starts byteAt index k (the text is cut there) -/
def checkEndm (buf : List Nat) : Option Nat :=
  let arr := buf.toArray
  let byteAt (i : Nat) : Nat := arr.getD i 0
  -- ptr--; skip white space; skip the word; ptr++
  let rec back1 (fuel : Nat) (p : Int) : Int :=
    match fuel with
    | 0 => p
    | f + 1 => if p > 0 ∧ (byteAt p.toNat = 32 ∨ byteAt p.toNat = 9) then back1 f (p - 1) else p
  let rec back2 (fuel : Nat) (p : Int) : Int :=
    match fuel with
    | 0 => p
    | f + 1 => if p > 0 ∧ ¬ (byteAt p.toNat = 10 ∨ byteAt p.toNat = 32 ∨ byteAt p.toNat = 9) then back2 f (p - 1) else p
  let p0 : Int := (buf.length : Int) - 1
  let p1 := back1 (buf.length + 1) p0
  let p2 := back2 (buf.length + 1) p1
  -- step over the white space in front of the word, if there is any
  let k := if p2 < 0 ∨ byteAt p2.toNat = 10 ∨ byteAt p2.toNat = 32 ∨ byteAt p2.toNat = 9 then (p2 + 1).toNat else p2.toNat
  let word := (buf.drop k).take 5
  if word.map lowerByte = [46, 101, 110, 100, 109] then some k else none

/-- `macro[ptr++] = c` -/
def bput (s : BState) (c : Nat) : Option BState :=
  if s.buf.length < mpMacroLen then some { s with buf := s.buf ++ [c] } else none

/-- the end of a pass: a block comment starts, or the character is stored -/
def bodyPut (s : BState) (ch : Ch) : Step BState BRes :=
  if ch = 42 ∧ s.buf.length > 0 ∧ s.buf.getLast? = some 47 then .next { s with pc := .block 0 }
  else
    match bput s (toByte ch) with
    | none => .fault .macroBufOverflow
    | some s' =>
      if s'.buf.length + mpMacroSlack ≥ maxMacroLen then s'.fin .error   -- "macro longer than"
      else .next s'

/-- the part of the body loop from `if (ch == '\r')` on -/
def bodyTail (isDefine : Bool) (s : BState) (ch : Ch) : Step BState BRes :=
  if ch = 13 then .next s
  else if ch = 32 ∧ s.buf.length = 0 then .next s
  else if ch = 92 ∧ isDefine then .next { s with pc := .cont }
  else if ch = 10 ∨ ch = EOFc then
    if isDefine then s.fin .body
    else
      -- `macro[ptr] = 0; if (check_endm(macro, ptr) == 1) break;`
      if s.buf.length < mpMacroLen then
        match checkEndm s.buf with
        | some k => .done { r := s.r, buf := s.buf.take k, wptr := s.buf.length, how := .body }
        | none => bodyPut s ch
      else .fault .macroBufOverflow
  else bodyPut s ch

def stripSpaces : List Nat → List Nat
  | l => (l.reverse.dropWhile (· = 32)).reverse

def isWordChar (ch : Ch) : Bool := isLetter ch || isDig ch || decide (ch = 95)

/-- the parameter-name bookkeeping at the top of a pass; `none` = a write outside macro[].
    A name starts at the start of a word only (`in_word`). -/
def nameUpdate (params : List Nat) (s : BState) (ch : Ch) : Option BState :=
  match s.nameTest with
  | none =>
    if (isLetter ch ∨ ch = 95) ∧ ¬ s.inWord then
      some { s with nameTest := some s.buf.length, inWord := isWordChar ch }
    else some { s with inWord := isWordChar ch }
  | some nt =>
    if ¬ (isLetter ch ∨ isDig ch ∨ ch = 95) then
      -- `macro[ptr] = 0; index = get_param_index(params, name_test);`
      if s.buf.length < mpMacroLen then
        if paramIndexGo params (s.buf.drop nt) 0 ≠ 0 then
          -- `ptr = name_test - macro; macro[ptr++] = 1; macro[ptr++] = index;`
          if nt + 1 < mpMacroLen then
            some { s with buf := s.buf.take nt ++ [1, paramIndexGo params (s.buf.drop nt) 0 % 256],
                          nameTest := none, inWord := isWordChar ch }
          else none
        else some { s with nameTest := none, inWord := isWordChar ch }
      else none
    else some { s with inWord := isWordChar ch }

/-- a comment starts (the rest of the line is skipped), or the pass goes on -/
def bodyAfterName (isDefine : Bool) (s : BState) (ch : Ch) : Step BState BRes :=
  if ch = 59 ∨ (s.buf.length > 0 ∧ ch = 47 ∧ s.buf.getLast? = some 47) then
    .next { s with pc := .comment true,
                   buf := if s.buf.length > 0 ∧ s.buf.getLast? = some 47 then s.buf.dropLast else s.buf }
  else bodyTail isDefine s ch

/-- one pass of the body loop after `ch = tokens_get_char()` -/
def bodyBody (isDefine : Bool) (params : List Nat) (s : BState) (ch0 : Ch) : Step BState BRes :=
  match s.pc with
  | .comment _ =>
    if tabToSpace ch0 = 10 ∨ tabToSpace ch0 = EOFc then
      -- the trailing blanks are dropped, then the line end is handled by the rest of the pass
      bodyTail isDefine { s with pc := .body, buf := stripSpaces s.buf } (tabToSpace ch0)
    else .next s
  | .cont =>
    if ch0 = 13 then .next s
    else if ch0 ≠ 10 then s.fin .error                      -- "Expected end-of_line"
    else .next { s with pc := .body }
  | .block last =>
    if tabToSpace ch0 = EOFc ∨ (tabToSpace ch0 = 47 ∧ last = 42) then
      -- back in macros_parse: `ptr--; continue;`
      match s.buf with
      | [] => .fault .macroBufUnderflow
      | _ => .next { s with pc := .body, buf := s.buf.dropLast }
    else .next { s with pc := .block (tabToSpace ch0) }
  | .body =>
    match nameUpdate params s (tabToSpace ch0) with
    | none => .fault .macroBufOverflow
    | some s1 => bodyAfterName isDefine s1 (tabToSpace ch0)

def bodyStep (isDefine : Bool) (params : List Nat) (s : BState) : Step BState BRes :=
  match getChar s.r with
  | .fault f => .fault f
  | .exit1 => s.fin .exit
  | .ok (ch, r) => bodyBody isDefine params { s with r := r } ch

/-- the body loop of macros_parse -/
def parseBody (isDefine : Bool) (params : List Nat) (fuel : Nat) (r : RState) : Out BRes :=
  run (bodyStep isDefine params) fuel { r := r, pc := .body, buf := [], nameTest := none, inWord := false }

/-- after the loop: `macro[ptr++] = ' '; macro[ptr++] = 0;` with the loop's `ptr`; `none` = overflow.
    (After `.endm` the text was cut in front of it, the blank lands behind the cut.) -/
def finishBody (res : BRes) : Option (List Nat) :=
  if res.wptr + 1 < mpMacroLen then
    some (if res.buf.length = res.wptr then res.buf ++ [32] else res.buf)
  else none

end NakenVerif.Reader
