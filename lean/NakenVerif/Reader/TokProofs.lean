/-
  The token machine never faults, keeps `unget[]` within two characters above the innermost mark,
  and every pass decreases a measure (property C16).
-/
import NakenVerif.Reader.TokImpl
import NakenVerif.Reader.Proofs

namespace NakenVerif.Reader

open NakenVerif.Generated

/-- what `ptr` may be in each loop so that the next store is inside `token[len]` -/
def ptrBound (cfg : Cfg) (s : TState) : Prop :=
  match s.pc with
  | .main => s.tok.length < cfg.len
  | .quoted | .quotedEsc | .cmp2 _ | .amp2 _ => s.tok.length + 1 < cfg.len ∧ 2 < cfg.len
  | .slash2 => s.tok.length = 1 ∧ 2 < cfg.len
  | .tickedEsc => s.tok.length ≤ 1 ∧ 2 < cfg.len
  | _ => s.tok.length < cfg.len ∧ 2 < cfg.len

/-- the loops that are only entered with a symbol token -/
def symPc : Pc → Bool
  | .slash2 | .blockCom | .blockStar | .cmp2 _ | .amp2 _ => true
  | _ => false

structure TInv (cfg : Cfg) (s : TState) : Prop where
  rinv : RInv s.r
  ptr : ptrBound cfg s
  dollar : s.tt = .dollar → s.tok.length = 1 ∧ s.pc = .main
  number : s.tt = .number → s.tok.length ≠ 0
  float : s.tt = .float → s.tok.length ≠ 0
  string : s.tt = .string → s.tok.length ≠ 0
  sym : symPc s.pc = true → s.tt = .symbol
  reads1 : s.tok.length ≠ 0 → 1 ≤ s.reads
  unget : if s.pc = .main then above s.r + min s.reads 2 ≤ 2 else above s.r ≤ 1

/-- what a finished accumulation guarantees (unless the real code called exit(1)) -/
structure TPost (cfg : Cfg) (raw : TokRaw) : Prop where
  rinv : RInv raw.r
  ptr : raw.exited = false → raw.tok.length < cfg.len
  above2 : above raw.r ≤ 2
  above1 : raw.tt = .float ∨ raw.tt = .string → above raw.r ≤ 1
  float : raw.tt = .float → raw.tok.length ≠ 0

def pcWeight : Pc → Nat
  | .slash2 => 2
  | .blockCom => 1
  | .blockStar => 2
  | _ => 0

def tokMeasure (cfg : Cfg) (s : TState) : Nat :=
  3 * avail s.r + 3 * (cfg.len - s.tok.length) + pcWeight s.pc

@[simp] theorem pcWeight_main : pcWeight .main = 0 := rfl
@[simp] theorem pcWeight_semi : pcWeight .semi = 0 := rfl
@[simp] theorem pcWeight_quoted : pcWeight .quoted = 0 := rfl
@[simp] theorem pcWeight_quotedEsc : pcWeight .quotedEsc = 0 := rfl
@[simp] theorem pcWeight_ticked : pcWeight .ticked = 0 := rfl
@[simp] theorem pcWeight_tickedEsc : pcWeight .tickedEsc = 0 := rfl
@[simp] theorem pcWeight_slash2 : pcWeight .slash2 = 2 := rfl
@[simp] theorem pcWeight_blockCom : pcWeight .blockCom = 1 := rfl
@[simp] theorem pcWeight_blockStar : pcWeight .blockStar = 2 := rfl
@[simp] theorem pcWeight_lineCom : pcWeight .lineCom = 0 := rfl
@[simp] theorem pcWeight_cmp2 (c : Ch) : pcWeight (.cmp2 c) = 0 := rfl
@[simp] theorem pcWeight_amp2 (c : Ch) : pcWeight (.amp2 c) = 0 := rfl

def credit (ch : Ch) : Nat := if ch = EOFc then 0 else 3

/-- outcome of the body after a character has been read into state `s1` -/
def BodyGood (cfg : Cfg) (s1 : TState) (ch : Ch) (res : Step TState TokRaw) : Prop :=
  match res with
  | .next s' => TInv cfg s' ∧ tokMeasure cfg s' < tokMeasure cfg s1 + credit ch
  | .done r => TPost cfg r
  | .fault _ => False

theorem brk_good {cfg : Cfg} {s1 s : TState} {ch : Ch} (hr : RInv s.r) (hp : s.tok.length < cfg.len)
    (ha : above s.r ≤ 1) (hf : s.tt = .float → s.tok.length ≠ 0) : BodyGood cfg s1 ch s.brk :=
  ⟨hr, fun _ => hp, by show above s.r ≤ 2; omega, fun _ => ha, hf⟩

theorem exit_good {cfg : Cfg} {s1 s : TState} {ch : Ch} (hr : RInv s.r) (ha : above s.r ≤ 1)
    (hf : s.tt = .float → s.tok.length ≠ 0) : BodyGood cfg s1 ch s.exit :=
  ⟨hr, fun h => by simp [TState.exit] at h, by show above s.r ≤ 2; omega, fun _ => ha, hf⟩

theorem ungetBrk_good {cfg : Cfg} {s1 s : TState} {ch c : Ch} (hr : RInv s.r)
    (hp : s.tok.length < cfg.len) (ha : above s.r = 0) (hf : s.tt = .float → s.tok.length ≠ 0) :
    BodyGood cfg s1 ch (ungetBrk s c) := by
  obtain ⟨r', hu, hi, hab, _⟩ := ungetChar_ok hr c (by omega)
  unfold ungetBrk
  simp only [hu]
  exact brk_good (s := { s with r := r' }) hi hp (by show above r' ≤ 1; omega) hf

theorem toByte_len (cfg : Cfg) (s : TState) (c : Ch) (h : s.tok.length < cfg.len) :
    put cfg s c = some { s with tok := s.tok ++ [toByte c] } := by
  simp [put, h]

/-- the state of the outer loop after the length test and a tokens_get_char -/
structure MainAfter (cfg : Cfg) (s : TState) : Prop where
  rinv : RInv s.r
  pc : s.pc = .main
  room : s.tok.length + 1 < cfg.len
  len3 : 2 < cfg.len
  number : s.tt = .number → s.tok.length ≠ 0
  float : s.tt = .float → s.tok.length ≠ 0
  string : s.tt = .string → s.tok.length ≠ 0
  reads : 1 ≤ s.reads
  q : above s.r + min s.reads 2 ≤ 2
  a0 : s.tok.length ≠ 0 → above s.r = 0

theorem MainAfter.a1 {cfg : Cfg} {s : TState} (h : MainAfter cfg s) : above s.r ≤ 1 := by
  have := h.q; have := h.reads; omega

/-- `token[ptr++] = c; continue;` in the outer loop, possibly with a new token type -/
theorem putNext_main {cfg : Cfg} {s1 s : TState} {ch c : Ch} (t : TType) (h : MainAfter cfg s)
    (hμ : tokMeasure cfg s ≤ tokMeasure cfg s1) (hd : t = .dollar → s.tok.length = 0) :
    BodyGood cfg s1 ch (putNext cfg { s with tt := t } c) := by
  have hroom := h.room
  have hlt : s.tok.length < cfg.len := by omega
  unfold putNext put
  simp only [hlt, if_true]
  refine ⟨⟨h.rinv, ?_, ?_, ?_, ?_, ?_, ?_, ?_, ?_⟩, ?_⟩
  · simp only [ptrBound, h.pc, List.length_append, List.length_cons, List.length_nil]; omega
  · intro ht; have := hd ht; exact ⟨by simp [this], h.pc⟩
  · intro _; simp
  · intro _; simp
  · intro _; simp
  · intro h'; simp [h.pc, symPc] at h'
  · intro _; exact h.reads
  · simp only [h.pc, if_true]; exact h.q
  · simp only [tokMeasure, List.length_append, List.length_cons, List.length_nil] at hμ ⊢
    omega

theorem brk_main {cfg : Cfg} {s1 s : TState} {ch : Ch} (t : TType) (h : MainAfter cfg s)
    (hf : t = .float → s.tok.length ≠ 0) : BodyGood cfg s1 ch ({ s with tt := t }.brk) :=
  brk_good (s := { s with tt := t }) h.rinv (by have := h.room; show s.tok.length < cfg.len; omega) h.a1 hf

theorem ungetBrk_main {cfg : Cfg} {s1 s : TState} {ch c : Ch} (t : TType) (h : MainAfter cfg s)
    (hne : s.tok.length ≠ 0) : BodyGood cfg s1 ch (ungetBrk { s with tt := t } c) :=
  ungetBrk_good (s := { s with tt := t }) h.rinv (by have := h.room; show s.tok.length < cfg.len; omega)
    (h.a0 hne) (fun _ => hne)

/-- leave the outer loop for an inner one without storing anything -/
theorem next_pc_main {cfg : Cfg} {s1 s : TState} {ch : Ch} (t : TType) (p : Pc) (h : MainAfter cfg s)
    (hμ : tokMeasure cfg s ≤ tokMeasure cfg s1) (hch : ch ≠ EOFc)
    (hp : p = .quoted ∨ p = .ticked ∨ p = .semi) (ht : t ≠ .dollar)
    (hn : t = .number → s.tok.length ≠ 0) (hfl : t = .float → s.tok.length ≠ 0)
    (hst : t = .string → s.tok.length ≠ 0) :
    BodyGood cfg s1 ch (.next { s with tt := t, pc := p }) := by
  have hroom := h.room
  have hl3 := h.len3
  have ha1 := h.a1
  refine ⟨⟨h.rinv, ?_, ?_, hn, hfl, hst, ?_, ?_, ?_⟩, ?_⟩
  · rcases hp with hp | hp | hp <;> subst hp <;> simp only [ptrBound] <;> omega
  · intro h'; exact absurd h' ht
  · intro h'; rcases hp with hp | hp | hp <;> subst hp <;> simp [symPc] at h'
  · intro _; exact h.reads
  · rcases hp with hp | hp | hp <;> subst hp <;> simp <;> exact ha1
  · have : pcWeight p = 0 := by rcases hp with hp | hp | hp <;> subst hp <;> rfl
    simp only [tokMeasure, credit, hch, if_false, this] at hμ ⊢
    omega

theorem next_same_main {cfg : Cfg} {s1 s : TState} {ch : Ch} (h : MainAfter cfg s)
    (hμ : tokMeasure cfg s ≤ tokMeasure cfg s1) (hch : ch ≠ EOFc) (hd : s.tt = .dollar → s.tok.length = 1) :
    BodyGood cfg s1 ch (.next s) := by
  have hroom := h.room
  refine ⟨⟨h.rinv, ?_, fun h' => ⟨hd h', h.pc⟩, h.number, h.float, h.string, ?_, ?_, ?_⟩, ?_⟩
  · simp only [ptrBound, h.pc]; omega
  · intro h'; simp [h.pc, symPc] at h'
  · intro _; exact h.reads
  · simp only [h.pc, if_true]; exact h.q
  · simp only [credit, hch, if_false]; omega

theorem symbolStart_good {cfg : Cfg} {s1 s : TState} {ch : Ch} (h : MainAfter cfg s)
    (hμ : tokMeasure cfg s ≤ tokMeasure cfg s1) (hch : ch ≠ EOFc) (h0 : s.tok.length = 0) :
    BodyGood cfg s1 ch (symbolStart cfg s ch) := by
  have hroom := h.room
  have hl3 := h.len3
  have ha1 := h.a1
  have hlt : s.tok.length < cfg.len := by omega
  unfold symbolStart put
  simp only [hlt, if_true]
  have hinv : ∀ p : Pc, (p = .slash2 ∨ (∃ c, p = .cmp2 c) ∨ (∃ c, p = .amp2 c)) →
      BodyGood cfg s1 ch (.next { r := s.r, tok := s.tok ++ [toByte ch], tt := .symbol, pc := p, reads := s.reads }) := by
    intro p hp
    refine ⟨⟨h.rinv, ?_, ?_, ?_, ?_, ?_, ?_, ?_, ?_⟩, ?_⟩
    · rcases hp with hp | ⟨c, hp⟩ | ⟨c, hp⟩ <;> subst hp <;>
        simp only [ptrBound, List.length_append, List.length_cons, List.length_nil] <;> omega
    · intro h'; cases h'
    · intro h'; cases h'
    · intro h'; cases h'
    · intro h'; cases h'
    · intro _; rfl
    · intro _; exact h.reads
    · rcases hp with hp | ⟨c, hp⟩ | ⟨c, hp⟩ <;> subst hp <;> simp <;> exact ha1
    · have hw : pcWeight p ≤ 2 := by
        rcases hp with hp | ⟨c, hp⟩ | ⟨c, hp⟩ <;> subst hp <;> simp [pcWeight]
      simp only [tokMeasure, credit, hch, if_false, List.length_append, List.length_cons,
        List.length_nil] at hμ ⊢
      omega
  split
  · exact hinv _ (Or.inl rfl)
  · split
    · exact hinv _ (Or.inr (Or.inl ⟨ch, rfl⟩))
    · split
      · exact hinv _ (Or.inr (Or.inr ⟨ch, rfl⟩))
      · exact brk_good (s := { r := s.r, tok := s.tok ++ [toByte ch], tt := .symbol, pc := s.pc, reads := s.reads })
          h.rinv (by simp; omega) ha1 (fun h' => by cases h')

theorem mainOther_good {cfg : Cfg} {s1 s : TState} {ch : Ch} (h : MainAfter cfg s)
    (hμ : tokMeasure cfg s ≤ tokMeasure cfg s1) (hch : ch ≠ EOFc) (hnd : s.tt ≠ .dollar) :
    BodyGood cfg s1 ch (mainOther cfg s ch) := by
  have hroom := h.room
  have hvac : s.tt = .dollar → s.tok.length = 0 := fun h' => absurd h' hnd
  unfold mainOther
  split
  · -- '#'
    have hlt : s.tok.length < cfg.len := by omega
    unfold putBrk put
    simp only [hlt, if_true]
    exact brk_good (s := { r := s.r, tok := s.tok ++ [toByte ch], tt := .pound, pc := s.pc, reads := s.reads })
      h.rinv (by simp; omega) h.a1 (fun h' => by cases h')
  · split
    · -- '$' at the start
      rename_i _ hc
      exact putNext_main _ h hμ (fun _ => hc.1)
    · split
      · exact brk_main .label h (fun h' => by cases h')
      · split
        · exact next_same_main h hμ hch (fun h' => absurd h' hnd)
        · split
          · split
            · exact putNext_main .string h hμ (fun h' => by cases h')
            · split
              · exact putNext_main .string h hμ (fun h' => by cases h')
              · split
                · rename_i hne _ _
                  exact ungetBrk_main s.tt h hne
                · exact putNext_main s.tt h hμ hvac
          · split
            · split
              · exact putNext_main .number h hμ (fun h' => by cases h')
              · exact putNext_main s.tt h hμ hvac
            · split
              · split
                · rename_i hc _
                  exact ungetBrk_main s.tt h (h.number hc.2)
                · exact putNext_main .float h hμ (fun h' => by cases h')
              · split
                · rename_i h0
                  exact symbolStart_good h hμ hch h0
                · rename_i hne
                  exact ungetBrk_main s.tt h hne

theorem retEOL_good {cfg : Cfg} {s1 s : TState} {ch : Ch} (hr : RInv s.r) (hl : 2 < cfg.len)
    (ha : above s.r ≤ 1) : BodyGood cfg s1 ch (retEOL cfg s) := by
  unfold retEOL
  have : ¬ cfg.len < 2 := by omega
  simp only [this, if_false]
  exact ⟨hr, fun _ => by simp; omega, by show above s.r ≤ 2; omega, fun _ => ha, fun h' => by cases h'⟩

theorem mainWhite_good {cfg : Cfg} {s1 s : TState} {ch : Ch} (h : MainAfter cfg s)
    (hμ : tokMeasure cfg s ≤ tokMeasure cfg s1) (hnd : s.tt ≠ .dollar) :
    BodyGood cfg s1 ch (mainWhite cfg s ch) := by
  have hroom := h.room
  have hl3 := h.len3
  unfold mainWhite
  split
  · split
    · exact retEOL_good h.rinv (by omega) h.a1
    · rename_i hne
      obtain ⟨r', hu, hi, hab, _⟩ := ungetChar_ok h.rinv ch (by have := h.a1; omega)
      simp only [hu]
      split
      · omega
      · exact brk_good (s := { s with r := r' }) hi (by show s.tok.length < cfg.len; omega)
          (by show above r' ≤ 1; have := h.a0 hne; omega) h.float
  · split
    · split
      · exact brk_main s.tt h h.float
      · rename_i hce
        exact next_same_main h hμ hce (fun h' => absurd h' hnd)
    · split
      · omega
      · exact brk_main s.tt h h.float

theorem mainRest_good {cfg : Cfg} {s1 s : TState} {ch : Ch} (h : MainAfter cfg s)
    (hμ : tokMeasure cfg s ≤ tokMeasure cfg s1) (hnd : s.tt ≠ .dollar) :
    BodyGood cfg s1 ch (mainRest cfg s ch) := by
  have hroom := h.room
  have hlt : s.tok.length < cfg.len := by omega
  have hvac : s.tt = .dollar → s.tok.length = 0 := fun h' => absurd h' hnd
  have hne : ∀ k : Int, k ≠ -1 → ch = k → ch ≠ EOFc := by
    intro k hk hc; rw [hc]; exact hk
  unfold mainRest
  split
  · rename_i hc
    split
    · rename_i hn
      exact ungetBrk_main s.tt h hn
    · exact next_pc_main s.tt .semi h hμ (hne 59 (by decide) hc) (Or.inr (Or.inr rfl)) hnd h.number h.float h.string
  · split
    · unfold putBrk put
      simp only [hlt, if_true]
      exact brk_good (s := { s with tok := s.tok ++ [toByte ch] }) h.rinv (by simp; omega) h.a1 (fun _ => by simp)
    · split
      · exact putNext_main s.tt h hμ hvac
      · split
        · exact putNext_main s.tt h hμ hvac
        · split
          · rename_i hc
            exact next_pc_main .quoted .quoted h hμ (hne 34 (by decide) hc) (Or.inl rfl) (by decide)
              (fun h' => by cases h') (fun h' => by cases h') (fun h' => by cases h')
          · split
            · rename_i hc
              exact next_pc_main .ticked .ticked h hμ (hne 39 (by decide) hc) (Or.inr (Or.inl rfl)) (by decide)
                (fun h' => by cases h') (fun h' => by cases h') (fun h' => by cases h')
            · split
              · exact mainWhite_good h hμ hnd
              · rename_i hw
                have hce : ch ≠ EOFc := fun h' => hw (Or.inr (Or.inr (Or.inr h')))
                exact mainOther_good h hμ hce hnd

theorem mainBody_good {cfg : Cfg} {s : TState} {ch : Ch} (h : MainAfter cfg s)
    (hroom2 : s.tok.length + 2 < cfg.len)
    (hd : s.tt = .dollar → s.tok.length = 1) : BodyGood cfg s ch (mainBody cfg s ch) := by
  have hroom := h.room
  unfold mainBody
  split
  · rename_i hdol
    have h1 := hd hdol
    split
    · have : ¬ cfg.len < 2 := by omega
      simp only [this, if_false]
      apply mainRest_good (s := { s with tok := [48, 120], tt := .string })
      · exact ⟨h.rinv, h.pc, by simp; omega, h.len3, (fun h' => by cases h'), (fun h' => by cases h'),
          (fun _ => by simp), h.reads, h.q, fun _ => h.a0 (by omega)⟩
      · simp only [tokMeasure, List.length_cons, List.length_nil]; omega
      · intro h'; cases h'
    · split
      · exact ungetBrk_main s.tt h (by omega)
      · apply mainRest_good (s := { s with tt := .string })
        · exact ⟨h.rinv, h.pc, h.room, h.len3, (fun h' => by cases h'), (fun h' => by cases h'),
            (fun _ => by show s.tok.length ≠ 0; omega), h.reads, h.q, h.a0⟩
        · exact Nat.le_refl _
        · intro h'; cases h'
  · rename_i hnd
    exact mainRest_good h (Nat.le_refl _) hnd

/-- the state of an inner loop after a tokens_get_char -/
structure InnerAfter (cfg : Cfg) (s : TState) : Prop where
  rinv : RInv s.r
  pc : s.pc ≠ .main
  ptr : ptrBound cfg s
  nd : s.tt ≠ .dollar
  number : s.tt = .number → s.tok.length ≠ 0
  float : s.tt = .float → s.tok.length ≠ 0
  string : s.tt = .string → s.tok.length ≠ 0
  sym : symPc s.pc = true → s.tt = .symbol
  reads : 1 ≤ s.reads
  a0 : above s.r = 0

theorem toSChar_EOF : toSChar EOFc = EOFc := by decide

/-- a state of an inner loop that satisfies the invariant -/
theorem tinv_inner {cfg : Cfg} {s : TState} (hr : RInv s.r) (hpc : s.pc ≠ .main) (hp : ptrBound cfg s)
    (hnd : s.tt ≠ .dollar) (hn : s.tt = .number → s.tok.length ≠ 0)
    (hf : s.tt = .float → s.tok.length ≠ 0) (hs : s.tt = .string → s.tok.length ≠ 0)
    (hsy : symPc s.pc = true → s.tt = .symbol)
    (hreads : 1 ≤ s.reads) (ha : above s.r ≤ 1) : TInv cfg s :=
  ⟨hr, hp, fun h => absurd h hnd, hn, hf, hs, hsy, fun _ => hreads, by simp only [hpc, if_false]; exact ha⟩

/-- `token[ptr++] = c; if (ptr >= len - 1) { error; break; }` of the quoted-string loop -/
theorem quotedPut_good {cfg : Cfg} {s1 s : TState} {ch c : Ch} (hr : RInv s.r)
    (hp : s.tok.length + 1 < cfg.len) (ha : above s.r ≤ 1) (hnd : s.tt ≠ .dollar) (hreads : 1 ≤ s.reads)
    (hμ : 3 * avail s.r + 3 * (cfg.len - s.tok.length) ≤ tokMeasure cfg s1 + credit ch) :
    BodyGood cfg s1 ch (quotedPut cfg s c) := by
  have hlt : s.tok.length < cfg.len := by omega
  unfold quotedPut put
  simp only [hlt, if_true]
  split
  · exact brk_good (s := { r := { s.r with errors := s.r.errors + 1 }, tok := s.tok ++ [toByte c], tt := s.tt, pc := s.pc, reads := s.reads })
      ⟨hr.marks_ok, hr.marks_len, hr.stack_len⟩ (by simp; omega) ha (fun _ => by simp)
  · rename_i hlen
    simp only [List.length_append, List.length_cons, List.length_nil] at hlen
    refine ⟨tinv_inner hr (by simp) ?_ hnd (fun _ => by simp) (fun _ => by simp) (fun _ => by simp)
      (fun h' => by simp [symPc] at h') hreads ha, ?_⟩
    · simp only [ptrBound, List.length_append, List.length_cons, List.length_nil]; omega
    · simp only [tokMeasure, pcWeight_quoted, List.length_append, List.length_cons, List.length_nil,
        Nat.zero_add] at hμ ⊢
      omega

/-- put in the ticks loop (`ptr <= 1` has been tested) -/
theorem tickedPut_good {cfg : Cfg} {s1 s : TState} {ch c : Ch} (hr : RInv s.r)
    (hp : s.tok.length ≤ 1) (hl : 2 < cfg.len) (ha : above s.r ≤ 1) (hnd : s.tt ≠ .dollar)
    (hreads : 1 ≤ s.reads)
    (hμ : 3 * avail s.r + 3 * (cfg.len - s.tok.length) ≤ tokMeasure cfg s1 + credit ch) :
    BodyGood cfg s1 ch (putNext cfg { s with pc := .ticked } c) := by
  have hlt : s.tok.length < cfg.len := by omega
  unfold putNext put
  simp only [hlt, if_true]
  refine ⟨tinv_inner hr (by simp) ?_ hnd (fun _ => by simp) (fun _ => by simp) (fun _ => by simp)
    (fun h' => by simp [symPc] at h') hreads ha, ?_⟩
  · simp only [ptrBound, List.length_append, List.length_cons, List.length_nil]; omega
  · simp only [tokMeasure, pcWeight_ticked, List.length_append, List.length_cons, List.length_nil,
      Nat.zero_add] at hμ ⊢
    omega

theorem errors_rinv {r : RState} (h : RInv r) (n : Nat) : RInv { r with errors := n } :=
  ⟨h.marks_ok, h.marks_len, h.stack_len⟩

theorem inner_good {cfg : Cfg} {s : TState} {ch : Ch} (h : InnerAfter cfg s) :
    BodyGood cfg s ch (tokBody cfg s ch) := by
  have hr := h.rinv
  have ha0 := h.a0
  have hpb := h.ptr
  have hnd := h.nd
  have hreads := h.reads
  have hcred : ch ≠ EOFc → credit ch = 3 := fun hc => by simp [credit, hc]
  have hne : ∀ k : Int, k ≠ -1 → ch = k → ch ≠ EOFc := by
    intro k hk hc; rw [hc]; exact hk
  -- next state in an inner loop with the same token
  have hnext : ∀ (p : Pc) (r : RState), RInv r → above r ≤ 1 → p ≠ .main →
      ptrBound cfg { s with r := r, pc := p } → (symPc p = true → s.tt = .symbol) →
      3 * avail r + pcWeight p < 3 * avail s.r + pcWeight s.pc + credit ch →
      BodyGood cfg s ch (.next { s with r := r, pc := p }) := by
    intro p r hr' ha' hp' hb' hsy' hμ'
    refine ⟨tinv_inner hr' hp' hb' hnd h.number h.float h.string hsy' hreads ha', ?_⟩
    simp only [tokMeasure]; omega
  unfold tokBody
  cases hpc : s.pc with
  | main => exact absurd hpc h.pc
  | semi =>
    simp only [ptrBound, hpc] at hpb
    simp only
    split
    · exact retEOL_good hr hpb.2 (by omega)
    · rename_i hc
      have hce : ch ≠ EOFc := fun h' => hc (Or.inr h')
      have := hnext .semi s.r hr (by omega) (by simp) (by simp only [ptrBound]; exact hpb)
        (fun h' => by simp [symPc] at h') (by rw [hpc, hcred hce]; simp <;> omega)
      rw [← hpc] at this
      exact this
  | lineCom =>
    simp only [ptrBound, hpc] at hpb
    simp only
    split
    · exact retEOL_good hr hpb.2 (by omega)
    · rename_i hc
      have hce : ch ≠ EOFc := fun h' => hc (Or.inr h')
      have := hnext .lineCom s.r hr (by omega) (by simp) (by simp only [ptrBound]; exact hpb)
        (fun h' => by simp [symPc] at h') (by rw [hpc, hcred hce]; simp <;> omega)
      rw [← hpc] at this
      exact this
  | quoted =>
    simp only [ptrBound, hpc] at hpb
    simp only
    split
    · exact brk_good hr (by omega) (by omega) h.float
    · split
      · rename_i _ hc
        exact hnext .quotedEsc s.r hr (by omega) (by simp) (by simp only [ptrBound]; exact hpb)
          (fun h' => by simp [symPc] at h') (by rw [hpc, hcred (hne 92 (by decide) hc)]; simp <;> omega)
      · exact quotedPut_good hr hpb.1 (by omega) hnd hreads (by simp only [tokMeasure]; omega)
  | quotedEsc =>
    simp only [ptrBound, hpc] at hpb
    simp only
    split
    · exact quotedPut_good hr hpb.1 (by omega) hnd hreads (by simp only [tokMeasure]; omega)
    · obtain ⟨r', hu, hi, hab, hav, _⟩ := ungetChar_ok hr ch (by omega)
      simp only [hu]
      apply quotedPut_good (s := { r := r', tok := s.tok, tt := s.tt, pc := .quotedEsc, reads := s.reads })
        hi hpb.1 (by show above r' ≤ 1; omega) hnd hreads
      show 3 * avail r' + 3 * (cfg.len - s.tok.length) ≤ tokMeasure cfg s + credit ch
      simp only [tokMeasure]
      by_cases hce : ch = EOFc
      · rw [hce, toSChar_EOF] at hav; simp at hav; omega
      · rw [hcred hce]; split at hav <;> omega
  | ticked =>
    simp only [ptrBound, hpc] at hpb
    simp only
    split
    · exact brk_good (s := { s with r := { s.r with errors := s.r.errors + 1 } }) (errors_rinv hr _)
        (by show s.tok.length < cfg.len; omega) (by show above s.r ≤ 1; omega) h.float
    · split
      · exact brk_good hr (by omega) (by omega) h.float
      · split
        · rename_i hle _ hc
          exact hnext .tickedEsc s.r hr (by omega) (by simp) (by simp only [ptrBound]; omega)
            (fun h' => by simp [symPc] at h') (by rw [hpc, hcred (hne 92 (by decide) hc)]; simp <;> omega)
        · rename_i hle _ _
          have := tickedPut_good (s1 := s) (ch := ch) (c := ch) (s := s) hr (by omega) hpb.2 (by omega) hnd hreads
            (by simp only [tokMeasure]; omega)
          have hs : ({ s with pc := .ticked } : TState) = s := by
            cases s; simp only at hpc; subst hpc; rfl
          rw [hs] at this
          exact this
  | tickedEsc =>
    simp only [ptrBound, hpc] at hpb
    simp only
    split
    · exact tickedPut_good (s1 := s) (ch := ch) (s := s) hr hpb.1 hpb.2 (by omega) hnd hreads
        (by simp only [tokMeasure]; omega)
    · obtain ⟨r', hu, hi, hab, hav, _⟩ := ungetChar_ok hr ch (by omega)
      simp only [hu]
      apply tickedPut_good (s1 := s) (ch := ch)
        (s := { r := r', tok := s.tok, tt := s.tt, pc := .tickedEsc, reads := s.reads })
        hi hpb.1 hpb.2 (by show above r' ≤ 1; omega) hnd hreads
      show 3 * avail r' + 3 * (cfg.len - s.tok.length) ≤ tokMeasure cfg s + credit ch
      simp only [tokMeasure]
      by_cases hce : ch = EOFc
      · rw [hce, toSChar_EOF] at hav; simp at hav; omega
      · rw [hcred hce]; split at hav <;> omega
  | slash2 =>
    simp only [ptrBound, hpc] at hpb
    have hsym : s.tt = .symbol := h.sym (by simp [hpc, symPc])
    simp only
    split
    · rename_i hc
      have hl1 : ¬ cfg.len < 1 := by omega
      simp only [hl1, if_false]
      refine ⟨tinv_inner (s := { s with tok := [], pc := .blockCom }) hr (by simp)
        (by simp only [ptrBound]; simp; omega) hnd (fun h' => by rw [hsym] at h'; cases h')
        (fun h' => by rw [hsym] at h'; cases h') (fun h' => by rw [hsym] at h'; cases h')
        (fun _ => hsym) hreads (by show above s.r ≤ 1; omega), ?_⟩
      simp only [tokMeasure, hpc, pcWeight_slash2, pcWeight_blockCom, List.length_nil,
        hcred (hne 42 (by decide) hc)]
      omega
    · split
      · rename_i _ hc
        exact hnext .lineCom s.r hr (by omega) (by simp) (by simp only [ptrBound]; omega)
          (fun h' => by simp [symPc] at h') (by rw [hpc, hcred (hne 47 (by decide) hc)]; simp <;> omega)
      · exact ungetBrk_good hr (by omega) ha0 h.float
  | blockCom =>
    simp only [ptrBound, hpc] at hpb
    have hsym : s.tt = .symbol := h.sym (by simp [hpc, symPc])
    simp only
    split
    · exact ⟨errors_rinv hr _, fun _ => hpb.1, by show above s.r ≤ 2; omega,
        fun _ => by show above s.r ≤ 1; omega, fun h' => by cases h'⟩
    · rename_i hce
      split
      · exact hnext .blockStar s.r hr (by omega) (by simp) (by simp only [ptrBound]; exact hpb)
          (fun _ => hsym) (by rw [hpc, hcred hce]; simp <;> omega)
      · have := hnext .blockCom s.r hr (by omega) (by simp) (by simp only [ptrBound]; exact hpb)
          (fun _ => hsym) (by rw [hpc, hcred hce]; simp <;> omega)
        rw [← hpc] at this
        exact this
  | blockStar =>
    simp only [ptrBound, hpc] at hpb
    have hsym : s.tt = .symbol := h.sym (by simp [hpc, symPc])
    simp only
    split
    · rename_i hc
      -- back to the outer loop
      refine ⟨⟨hr, by simp only [ptrBound]; exact hpb.1, fun h' => absurd h' hnd,
        h.number, h.float, h.string, fun h' => by simp [symPc] at h', fun _ => hreads, ?_⟩, ?_⟩
      · simp only [if_true]; omega
      · simp only [tokMeasure, hpc, pcWeight_main, pcWeight_blockStar]; omega
    · obtain ⟨r', hu, hi, hab, hav, _⟩ := ungetChar_ok hr ch (by omega)
      simp only [hu]
      refine hnext .blockCom r' hi (by omega) (by simp) (by simp only [ptrBound]; exact hpb)
        (fun _ => hsym) ?_
      rw [hpc]
      simp only [pcWeight_blockCom, pcWeight_blockStar]
      by_cases hce : ch = EOFc
      · rw [hce, toSChar_EOF] at hav; simp at hav; omega
      · rw [hcred hce]; split at hav <;> omega
  | cmp2 c =>
    simp only [ptrBound, hpc] at hpb
    simp only
    have hlt : s.tok.length < cfg.len := by omega
    split
    · unfold putBrk put
      simp only [hlt, if_true]
      exact brk_good (s := { r := s.r, tok := s.tok ++ [toByte c], tt := _, pc := _, reads := s.reads })
        hr (by simp; omega) (by show above s.r ≤ 1; omega) (fun _ => by simp)
    · split
      · unfold putBrk put
        simp only [hlt, if_true]
        exact brk_good (s := { r := s.r, tok := s.tok ++ [toByte ch], tt := _, pc := _, reads := s.reads })
          hr (by simp; omega) (by show above s.r ≤ 1; omega) (fun _ => by simp)
      · have hsym : s.tt = .symbol := h.sym (by simp [hpc, symPc])
        exact ungetBrk_good (s := { s with tt := _ }) hr (by show s.tok.length < cfg.len; omega) ha0
          (fun h' => by
            simp only at h'
            split at h'
            · cases h'
            · rw [hsym] at h'; cases h')
  | amp2 c =>
    simp only [ptrBound, hpc] at hpb
    simp only
    have hlt : s.tok.length < cfg.len := by omega
    split
    · unfold putBrk put
      simp only [hlt, if_true]
      exact brk_good (s := { r := s.r, tok := s.tok ++ [toByte c], tt := _, pc := _, reads := s.reads })
        hr (by simp; omega) (by show above s.r ≤ 1; omega) (fun _ => by simp)
    · exact ungetBrk_good hr (by omega) ha0 h.float

/-- outcome of one pass started in state `s` -/
def StepGood (cfg : Cfg) (s : TState) (res : Step TState TokRaw) : Prop :=
  match res with
  | .next s' => TInv cfg s' ∧ tokMeasure cfg s' < tokMeasure cfg s
  | .done r => TPost cfg r
  | .fault _ => False

theorem body_to_step {cfg : Cfg} {s s1 : TState} {ch : Ch} {res : Step TState TokRaw}
    (hμ : tokMeasure cfg s1 + credit ch ≤ tokMeasure cfg s) (h : BodyGood cfg s1 ch res) :
    StepGood cfg s res := by
  cases res with
  | next s' => exact ⟨h.1, by have := h.2; omega⟩
  | done r => exact h
  | fault f => exact h

/-- One pass of the token machine: no fault, invariant kept, measure decreased. -/
theorem tokStep_good (cfg : Cfg) (s : TState) (h : TInv cfg s) : StepGood cfg s (tokStep cfg s) := by
  have hr := h.rinv
  have hun := h.unget
  have hpb := h.ptr
  -- at most one ungot character when a string or a number is being built
  have hab1 : s.tok.length ≠ 0 → s.pc = .main → above s.r ≤ 1 := by
    intro hne hm
    have := h.reads1 hne
    simp only [hm, if_true] at hun
    omega
  have hab2 : above s.r ≤ 2 := by
    by_cases hm : s.pc = .main
    · simp only [hm, if_true] at hun; omega
    · simp only [hm, if_false] at hun; omega
  have hab1' : s.tt = .float ∨ s.tt = .string → above s.r ≤ 1 := by
    intro ht
    by_cases hm : s.pc = .main
    · exact hab1 (by rcases ht with ht | ht; exact h.float ht; exact h.string ht) hm
    · simp only [hm, if_false] at hun; exact hun
  have hlt : s.tok.length < cfg.len := by
    unfold ptrBound at hpb
    split at hpb <;> omega
  unfold tokStep
  split
  · -- "Token too long"
    exact ⟨errors_rinv hr _, fun _ => hlt, hab2, hab1', h.float⟩
  · rename_i hlong
    rcases getChar_spec hr with he | ⟨ch, r1, hg, hpost⟩
    · simp only [he]
      exact ⟨hr, fun h' => by simp [TState.exit] at h', hab2, hab1', h.float⟩
    · simp only [hg]
      have hav := hpost.avail_le
      have havlt := hpost.avail_lt
      have habv := hpost.above_le
      -- relate the measure of the state after the read to the one before
      have hμ : tokMeasure cfg { s with r := r1, reads := min (s.reads + 1) 3 } + credit ch ≤ tokMeasure cfg s := by
        simp only [tokMeasure, credit]
        by_cases hce : ch = EOFc
        · simp only [hce, if_true]; omega
        · simp only [hce, if_false]; have := havlt hce; omega
      by_cases hm : s.pc = .main
      · have hroom2 : s.tok.length + 2 < cfg.len := by
          have : ¬ (s.tok.length + 2 ≥ cfg.len) := fun h' => hlong ⟨hm, h'⟩
          omega
        simp only [hm, if_true] at hun
        have hma : MainAfter cfg { s with r := r1, reads := min (s.reads + 1) 3 } := by
          refine ⟨hpost.inv, hm, by show s.tok.length + 1 < cfg.len; omega, by omega, h.number, h.float,
            h.string, by show 1 ≤ min (s.reads + 1) 3; omega, ?_, ?_⟩
          · show above r1 + min (min (s.reads + 1) 3) 2 ≤ 2; omega
          · intro hne
            have := h.reads1 hne
            show above r1 = 0; omega
        have hgood := mainBody_good (ch := ch) hma hroom2 (fun h' => (h.dollar h').1)
        have hbody : tokBody cfg { s with r := r1, reads := min (s.reads + 1) 3 } ch =
            mainBody cfg { s with r := r1, reads := min (s.reads + 1) 3 } ch := by
          unfold tokBody; simp only [hm]
        rw [hbody]
        exact body_to_step hμ hgood
      · simp only [hm, if_false] at hun
        have hia : InnerAfter cfg { s with r := r1, reads := min (s.reads + 1) 3 } := by
          refine ⟨hpost.inv, hm, ?_, fun h' => hm (h.dollar h').2, h.number, h.float, h.string, h.sym,
            by show 1 ≤ min (s.reads + 1) 3; omega, by show above r1 = 0; omega⟩
          unfold ptrBound at hpb ⊢
          exact hpb
        exact body_to_step hμ (inner_good (ch := ch) hia)

theorem tokStep_ok (cfg : Cfg) : StepOk (TInv cfg) (TPost cfg) (tokStep cfg) := by
  intro s hs
  have := tokStep_good cfg s hs
  unfold StepGood at this
  split at this
  · rename_i s' heq; simp only [heq]; exact this.1
  · rename_i r heq; simp only [heq]; exact this
  · exact this.elim

theorem tokStep_decreases (cfg : Cfg) : Decreases (ρ := TokRaw) (TInv cfg) (tokMeasure cfg) (tokStep cfg) := by
  intro s s' hs heq
  have := tokStep_good cfg s hs
  simp only [heq, StepGood] at this
  exact this.2

theorem tinv_start (cfg : Cfg) (r : RState) (hr : RInv r) (ha : above r ≤ 2) (hl : 1 ≤ cfg.len) :
    TInv cfg (TState.start r) := by
  refine ⟨hr, by simp only [ptrBound, TState.start, List.length_nil]; omega, ?_, ?_, ?_, ?_, ?_, ?_, ?_⟩ <;>
    simp [TState.start, symPc]
  exact ha

end NakenVerif.Reader
