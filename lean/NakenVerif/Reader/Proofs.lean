/-
  Invariant of the reader state and what each primitive guarantees under it (property C16).
-/
import NakenVerif.Reader.Impl

namespace NakenVerif.Reader

open NakenVerif.Generated

/-- The marks `unget_stack[0..sp]` (top first) below an upper bound `u` (= unget_ptr for the
    top mark): the bottom mark is 0, marks do not decrease towards the top, and a macro entry
    hides at most one ungot character. -/
def MarksOK : List Nat → Nat → Prop
  | [], _ => False
  | [m], _ => m = 0
  | m :: m' :: rest, u => m ≤ u ∧ m' ≤ m ∧ m ≤ m' + 1 ∧ MarksOK (m' :: rest) m

theorem MarksOK_head_le : ∀ (ms : List Nat) (u : Nat), MarksOK ms u → topMark ms ≤ u
  | [], _, h => by simp [MarksOK] at h
  | [m], u, h => by simp [MarksOK] at h; simp [h]
  | m :: m' :: rest, u, h => by simp [MarksOK] at h; simp; exact h.1

theorem MarksOK_head_lt_len : ∀ (ms : List Nat) (u : Nat), MarksOK ms u → topMark ms + 1 ≤ ms.length
  | [], _, h => by simp [MarksOK] at h
  | [m], u, h => by simp [MarksOK] at h; simp [h]
  | m :: m' :: rest, u, h => by
    simp [MarksOK] at h
    have ih := MarksOK_head_lt_len (m' :: rest) m h.2.2.2
    simp at ih ⊢
    omega

theorem MarksOK_weaken : ∀ (ms : List Nat) (u u' : Nat), MarksOK ms u → topMark ms ≤ u' → MarksOK ms u'
  | [], _, _, h, _ => by simp [MarksOK] at h
  | [m], _, _, h, _ => by simpa [MarksOK] using h
  | m :: m' :: rest, u, u', h, h' => by
    simp [MarksOK] at h ⊢
    simp at h'
    exact ⟨h', h.2⟩

structure RInv (st : RState) : Prop where
  marks_ok : MarksOK st.marks st.unget.length
  marks_len : st.marks.length = st.stack.length + 1
  stack_len : st.stack.length ≤ maxNestedMacros

theorem RInv_init (src : List Nat) : RInv (RState.init src) := by
  constructor <;> simp [RState.init, MarksOK]

/-- The capacities fit: checked against the regenerated constants. -/
theorem caps_fit :
    maxNestedMacros ≤ macroStackLen ∧ maxNestedMacros + 1 ≤ ungetStackLen ∧
    maxNestedMacros + 3 < ungetLen := by decide

theorem RInv.head_le {st : RState} (h : RInv st) : topMark st.marks ≤ st.unget.length :=
  MarksOK_head_le _ _ h.marks_ok

theorem RInv.unget_le {st : RState} (h : RInv st) : st.unget.length ≤ maxNestedMacros + above st := by
  have h1 := MarksOK_head_lt_len _ _ h.marks_ok
  have h2 := h.marks_len
  have h3 := h.stack_len
  have h4 := h.head_le
  unfold above
  omega

/-! ### tokens_unget_char -/

theorem ungetChar_ok {st : RState} (h : RInv st) (c : Ch) (hab : above st ≤ 2) :
    ∃ st', ungetChar st c = .ok st' ∧ RInv st' ∧ above st' = above st + 1 ∧
      avail st' = avail st + (if toSChar c = EOFc then 0 else 1) ∧
      st'.src = st.src ∧ st'.stack = st.stack ∧ st'.marks = st.marks ∧
      st'.expand = st.expand ∧ st'.errors = st.errors ∧ st'.arena = st.arena := by
  have hle := h.unget_le
  have hc := caps_fit
  have hlt : st.unget.length < ungetLen := by omega
  refine ⟨{ st with unget := toSChar c :: st.unget }, ?_, ?_, ?_, ?_, rfl, rfl, rfl, rfl, rfl, rfl⟩
  · simp [ungetChar, hlt]
  · constructor
    · exact MarksOK_weaken _ _ _ h.marks_ok (by have := h.head_le; simp; omega)
    · exact h.marks_len
    · exact h.stack_len
  · have := h.head_le
    simp [above]; omega
  · simp [avail, ungetSize]; omega

/-! ### macros_get_char -/

/-- What a delivered character guarantees. -/
structure GetPost (st : RState) (c : Ch) (st' : RState) : Prop where
  inv : RInv st'
  avail_le : avail st' ≤ avail st
  avail_lt : c ≠ EOFc → avail st' < avail st
  above_le : above st' ≤ above st - 1
  src_prog : st'.src.length < st.src.length ∨ (st'.src = st.src ∧ st'.expand = st.expand)
  src_le : st'.src.length ≤ st.src.length
  stack_le : st'.stack.length ≤ st.stack.length
  errors_eq : st'.errors = st.errors

theorem releaseArena_spec (f : Frame) (st : RState) :
    releaseArena f st = .exit1 ∨
    ∃ st', releaseArena f st = .ok st' ∧ st'.src = st.src ∧ st'.unget = st.unget ∧
      st'.marks = st.marks ∧ st'.stack = st.stack ∧ st'.expand = st.expand ∧ st'.errors = st.errors := by
  unfold releaseArena
  split
  · exact Or.inr ⟨st, rfl, rfl, rfl, rfl, rfl, rfl, rfl⟩
  · split
    · split
      · exact Or.inr ⟨_, rfl, rfl, rfl, rfl, rfl, rfl, rfl⟩
      · exact Or.inl rfl
    · exact Or.inr ⟨st, rfl, rfl, rfl, rfl, rfl, rfl, rfl⟩

theorem popUnget_spec {st : RState} (h : RInv st) (hab : 0 < above st) :
    ∃ c st', popUnget st = .ok (c, st') ∧ RInv st' ∧ above st' + 1 = above st ∧
      avail st' + (if c = EOFc then 0 else 1) = avail st ∧
      st'.src = st.src ∧ st'.stack = st.stack ∧ st'.marks = st.marks ∧
      st'.expand = st.expand ∧ st'.errors = st.errors := by
  have hhd := h.head_le
  cases hu : st.unget with
  | nil => simp [above, hu] at hab
  | cons c u =>
    refine ⟨c, { st with unget := u }, ?_, ?_, ?_, ?_, rfl, rfl, rfl, rfl, rfl⟩
    · simp [popUnget, hu]
    · constructor
      · apply MarksOK_weaken _ _ _ h.marks_ok
        simp [above, hu] at hab ⊢
        omega
      · exact h.marks_len
      · exact h.stack_len
    · simp [above, hu] at hab ⊢; omega
    · simp [avail, hu, ungetSize]; omega

/-- the loop of macros_get_char, entered with nothing ungot above the innermost mark -/
theorem macrosGetCharGo_spec :
    ∀ (frames : List Frame) (st : RState),
      MarksOK st.marks st.unget.length → st.marks.length = frames.length + 1 →
      frames.length ≤ maxNestedMacros → st.unget.length ≤ topMark st.marks →
      macrosGetCharGo frames st = .exit1 ∨
      ∃ c st', macrosGetCharGo frames st = .ok (c, st') ∧ RInv st' ∧ above st' = 0 ∧
        st'.src = st.src ∧ st'.expand = st.expand ∧ st'.errors = st.errors ∧
        ungetSize st'.unget + framesSize st'.stack ≤ ungetSize st.unget + framesSize frames ∧
        (c ≠ EOFc → ungetSize st'.unget + framesSize st'.stack < ungetSize st.unget + framesSize frames) ∧
        st'.stack.length ≤ frames.length := by
  intro frames
  induction frames with
  | nil =>
    intro st hm hl _ hab
    right
    refine ⟨EOFc, { st with stack := [] }, rfl, ?_, ?_, rfl, rfl, rfl, ?_, ?_, ?_⟩
    · exact ⟨hm, by simpa using hl, by simp⟩
    · simp [above]; omega
    · simp [framesSize]
    · intro h; exact absurd rfl h
    · simp
  | cons f rest ih =>
    intro st hm hl hs hab
    unfold macrosGetCharGo
    cases ht : f.text with
    | cons c t =>
      right
      refine ⟨(c : Int), { st with stack := { f with text := t } :: rest }, rfl, ?_, ?_, rfl, rfl, rfl, ?_, ?_, ?_⟩
      · exact ⟨hm, by simpa using hl, by simpa using hs⟩
      · simp [above]; omega
      · simp [framesSize, ht]
      · intro _; simp [framesSize, ht]
      · simp
    | nil =>
      simp only
      rcases releaseArena_spec f st with he | ⟨st1, he, h1, h2, h3, h4, h5, h6⟩
      · left; simp [he]
      · simp only [he]
        cases hmk : st1.marks with
        | nil => rw [h3] at hmk; simp [hmk, MarksOK] at hm
        | cons m0 tl =>
          cases tl with
          | nil => rw [h3] at hmk; simp [hmk] at hl
          | cons m ms =>
            simp only
            rw [h3] at hmk
            have hm' := hm
            rw [hmk] at hm'
            simp only [MarksOK] at hm'
            obtain ⟨hm0u, hmm0, hm0m, hrest⟩ := hm'
            have hab' : st.unget.length ≤ m0 := by simpa [hmk] using hab
            by_cases hgt : st1.unget.length > m
            · -- an ungot character hidden under the popped level is delivered
              simp only [hgt, if_true]
              have hinv2 : RInv { st1 with marks := m :: ms, stack := rest } := by
                constructor
                · simp only [h2]
                  exact MarksOK_weaken _ _ _ hrest (by simp; omega)
                · simp [hmk] at hl ⊢; omega
                · simp at hs ⊢; omega
              have habv : 0 < above { st1 with marks := m :: ms, stack := rest } := by
                simp [above]; omega
              obtain ⟨c, st', hp, hi, ha, hav, e1, e2, e3, e4, e5⟩ := popUnget_spec hinv2 habv
              simp only [above, avail, topMark_cons] at ha hav
              dsimp only at e1 e2 e3 e4 e5
              rw [h1, h2] at hav
              rw [h2] at ha
              rw [e1, h1, e2] at hav
              right
              refine ⟨c, st', hp, hi, ?_, ?_, ?_, ?_, ?_, ?_, ?_⟩
              · have : above st' = st'.unget.length - topMark st'.marks := rfl
                omega
              · rw [e1]; exact h1
              · rw [e4]; exact h5
              · rw [e5]; exact h6
              · rw [e2]; simp [framesSize, ht]; omega
              · intro _
                rw [e2]; simp [framesSize, ht]; omega
              · rw [e2]; simp
            · simp only [hgt, if_false]
              have hrec := ih { st1 with marks := m :: ms, stack := rest }
                (by simp only [h2]; exact MarksOK_weaken _ _ _ hrest (by simp; omega))
                (by simp [hmk] at hl ⊢; omega)
                (by simp at hs; omega)
                (by simp [h2] at hgt ⊢; omega)
              rcases hrec with he' | ⟨c, st', hp, hi, ha, e1, e2, e3, hle, hlt, hsl⟩
              · left; exact he'
              · right
                refine ⟨c, st', hp, hi, ha, ?_, ?_, ?_, ?_, ?_, ?_⟩
                · rw [e1]; exact h1
                · rw [e2]; exact h5
                · rw [e3]; exact h6
                · simp [h2] at hle; simp [framesSize, ht]; omega
                · intro hc; have := hlt hc; simp [h2] at this; simp [framesSize, ht]; omega
                · simp; omega

/-! ### tokens_get_char -/

theorem readFile_spec : ∀ (l : List Nat) (c : Ch) (rest : List Nat), readFile l = (c, rest) →
    rest.length ≤ l.length ∧ (c ≠ EOFc → rest.length < l.length) ∧ (c = EOFc → rest = []) ∧ -1 ≤ c
  | [], c, rest, h => by
    simp [readFile] at h
    obtain ⟨h1, h2⟩ := h
    subst h1 h2
    simp [EOFc]
  | x :: t, c, rest, h => by
    unfold readFile at h
    split at h
    · have ih := readFile_spec t c rest h
      refine ⟨by simp; omega, fun hc => by have := ih.2.1 hc; simp; omega, ih.2.2.1, ih.2.2.2⟩
    · simp at h
      obtain ⟨h1, h2⟩ := h
      subst h1 h2
      refine ⟨?_, ?_, ?_, ?_⟩
      · simp
      · intro _; simp
      · intro hc
        have hx : (0 : Int) ≤ (x : Int) := Int.natCast_nonneg x
        have hc' : (x : Int) = -1 := hc
        omega
      · have hx : (0 : Int) ≤ (x : Int) := Int.natCast_nonneg x
        show (-1 : Int) ≤ (x : Int)
        omega

theorem getChar_spec {st : RState} (h : RInv st) :
    getChar st = .exit1 ∨ ∃ c st', getChar st = .ok (c, st') ∧ GetPost st c st' := by
  unfold getChar
  cases hmk : st.marks with
  | nil => have := h.marks_ok; simp [hmk, MarksOK] at this
  | cons m ms =>
    simp only
    by_cases hgt : st.unget.length > m
    · simp only [hgt, if_true]
      have hab : 0 < above st := by simp [above, hmk]; omega
      obtain ⟨c, st', hp, hi, ha, hav, e1, e2, e3, e4, e5⟩ := popUnget_spec h hab
      right
      exact ⟨c, st', hp, ⟨hi, by omega, fun hc => by simp only [hc, if_false] at hav; omega, by omega, Or.inr ⟨e1, e4⟩,
        by rw [e1]; exact Nat.le_refl _, by rw [e2]; exact Nat.le_refl _, e5⟩⟩
    · simp only [hgt, if_false]
      have hgo := macrosGetCharGo_spec st.stack st h.marks_ok h.marks_len h.stack_len
        (by simp [hmk]; omega)
      unfold macrosGetChar
      rcases hgo with he | ⟨ch, st1, hp, hi, ha, e1, e2, e3, hle, hlt, hsl⟩
      · left; simp [he]
      · simp only [hp]
        have habove0 : above st = 0 := by simp [above, hmk]; omega
        by_cases hc : ch = EOFc
        · simp only [hc, if_true]
          cases hmk1 : st1.marks with
          | nil => have := hi.marks_ok; simp [hmk1, MarksOK] at this
          | cons m1 ms1 =>
            simp only
            have hng : ¬ st1.unget.length > m1 := by
              simp [above, hmk1] at ha; omega
            simp only [hng, if_false]
            cases hrf : readFile st1.src with
            | mk c rest =>
              obtain ⟨r1, r2, r3, r4⟩ := readFile_spec _ _ _ hrf
              right
              refine ⟨c, _, rfl, ?_⟩
              constructor
              · have hm1 := hi.marks_ok
                have hl1 := hi.marks_len
                rw [hmk1] at hm1 hl1
                exact ⟨hm1, hl1, hi.stack_len⟩
              · simp only [avail]; rw [e1] at r1; omega
              · intro hcc; have := r2 hcc; simp only [avail]; rw [e1] at this; omega
              · simp [above, hmk1] at ha ⊢; omega
              · by_cases hcc : c = EOFc
                · by_cases hl : rest.length < st.src.length
                  · left; exact hl
                  · right
                    have hr := r3 hcc
                    subst hr
                    rw [e1] at r1
                    simp at hl
                    refine ⟨?_, ?_⟩
                    · simp [hl]
                    · simp [hcc]; exact e2
                · left; have := r2 hcc; rw [e1] at this; exact this
              · simp only; rw [e1] at r1; exact r1
              · exact hsl
              · exact e3
        · simp only [hc, if_false]
          right
          refine ⟨ch, st1, rfl, ?_⟩
          constructor
          · exact hi
          · simp only [avail]; rw [e1]; omega
          · intro _; have := hlt hc; simp only [avail]; rw [e1]; omega
          · omega
          · right; exact ⟨e1, e2⟩
          · rw [e1]; exact Nat.le_refl _
          · exact hsl
          · exact e3

/-! ### macro entry -/

theorem enterMacro_spec {st : RState} (h : RInv st) (f : Frame) (hab : above st ≤ 1) :
    ∃ b st', enterMacro st f = .ok (b, st') ∧ RInv st' ∧ st'.src = st.src ∧ st'.expand = st.expand ∧
      (b = false → st'.errors = st.errors + 1 ∧ st'.stack = st.stack ∧ st'.unget = st.unget ∧
        st'.marks = st.marks) ∧
      (b = true → st'.errors = st.errors ∧ st'.stack = f :: st.stack ∧ above st' = 0 ∧
        st'.unget = st.unget ∧ st.stack.length < maxNestedMacros) := by
  have hc := caps_fit
  unfold enterMacro pushDefine
  by_cases hfull : st.stack.length ≥ maxNestedMacros
  · simp only [hfull, if_true]
    refine ⟨false, _, rfl, ⟨h.marks_ok, h.marks_len, h.stack_len⟩, rfl, rfl, fun _ => ⟨rfl, rfl, rfl, rfl⟩, fun hb => absurd hb (by decide)⟩
  · simp only [hfull, if_false]
    have h1 : st.stack.length < macroStackLen := by omega
    simp only [h1, if_true]
    unfold pushMark
    have h2 : st.marks.length < ungetStackLen := by have := h.marks_len; omega
    simp only [h2, if_true]
    refine ⟨true, _, rfl, ?_, rfl, rfl, fun hb => absurd hb (by decide), fun _ => ⟨rfl, rfl, by simp [above], rfl, by omega⟩⟩
    constructor
    · have hm := h.marks_ok
      have hhd := h.head_le
      cases hmk : st.marks with
      | nil => simp [hmk, MarksOK] at hm
      | cons m ms =>
        simp only [MarksOK]
        simp [above, hmk] at hab hhd
        refine ⟨Nat.le_refl _, hhd, by omega, ?_⟩
        rw [hmk] at hm
        exact hm
    · simp; exact h.marks_len
    · simp; omega

end NakenVerif.Reader
