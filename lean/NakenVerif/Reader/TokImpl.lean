/-
  Implementation model of token accumulation (property C16): core/tokens.cpp, `tokens_get_one`
  (the body of tokens_get) up to the point where the token has been built, statement by statement.

  The C loop `while (true) { ... ch = tokens_get_char(); ... }` and its inner loops (comments,
  quoted strings, ticks, the second character of `//`, `/*`, `<<`, `<=`, `&&` ...) form one machine:
  a program counter says which loop is running, every step performs exactly one tokens_get_char.
  `token[]` is the list of bytes below `ptr` with the capacity `len` passed by the caller; a store
  at `ptr >= len` is a fault.

  `reads` is a ghost counter (it does not influence any result): the number of tokens_get_char
  calls made so far in this call of tokens_get, capped at 3.  The theorem about `unget[]` needs it.
-/
import NakenVerif.Reader.Impl

namespace NakenVerif.Reader

inductive TType where
  | eof | eol | number | float | pound | label | string | symbol | quoted | ticked | equality
  | dollar | unknown
  deriving DecidableEq, Repr, Inhabited

inductive Pc where
  | main                 -- top of the outer loop
  | semi                 -- after ';' at the start of a token: skip to the end of the line
  | quoted | quotedEsc   -- inside "...", after a backslash inside "..."
  | ticked | tickedEsc   -- inside '...', after a backslash inside '...'
  | slash2               -- after a '/' that starts a token
  | blockCom | blockStar -- inside /* */, after a '*' inside /* */
  | lineCom              -- after //
  | cmp2 (c : Ch)        -- after '<', '>' or '=' that starts a token
  | amp2 (c : Ch)        -- after '&' or '|' that starts a token
  deriving DecidableEq, Repr, Inhabited

/-- The lexer switches of the CPU (cpu_list) and the buffer length given by the caller. -/
structure Cfg where
  len : Nat
  canTick : Bool := false
  dots : Bool := false
  slashes : Bool := false
  dollarHex : Bool := false
  noDots : Bool := false
  noPostfix : Bool := false
  deriving Repr, DecidableEq

structure TState where
  r : RState
  tok : List Nat          -- token[0 .. ptr)
  tt : TType
  pc : Pc
  reads : Nat             -- ghost
  deriving Repr

inductive TokEnd where
  | brk                   -- left the loop with `break`: post-processing follows
  | ret                   -- `return` from inside the loop (end of line, unterminated comment)
  deriving DecidableEq, Repr

structure TokRaw where
  r : RState
  tok : List Nat
  tt : TType
  kind : TokEnd
  exited : Bool           -- exit(1) after "Internal Error"
  reads : Nat             -- ghost
  deriving Repr

def isDigit (c : Ch) : Bool := decide (48 ≤ c ∧ c ≤ 57)
def isAlpha (c : Ch) : Bool := decide ((97 ≤ c ∧ c ≤ 122) ∨ (65 ≤ c ∧ c ≤ 90))
def isHexDigit (c : Ch) : Bool := decide ((48 ≤ c ∧ c ≤ 57) ∨ (97 ≤ c ∧ c ≤ 102) ∨ (65 ≤ c ∧ c ≤ 70))

/-- token_is_not_number -/
def tokenIsNotNumber (tok : List Nat) : Bool :=
  match tok with
  | a :: b :: _ => if a ≠ 48 then true else if b = 120 ∨ b = 98 ∨ b = 113 then false else true
  | _ => true

def TState.brk (s : TState) : Step TState TokRaw :=
  .done { r := s.r, tok := s.tok, tt := s.tt, kind := .brk, exited := false, reads := s.reads }

def TState.exit (s : TState) : Step TState TokRaw :=
  .done { r := s.r, tok := s.tok, tt := s.tt, kind := .ret, exited := true, reads := s.reads }

/-- `token[0] = '\n'; token[1] = 0; return TOKEN_EOL;` -/
def retEOL (cfg : Cfg) (s : TState) : Step TState TokRaw :=
  if cfg.len < 2 then .fault .tokenOverflow
  else .done { r := s.r, tok := [10], tt := .eol, kind := .ret, exited := false, reads := s.reads }

/-- `token[ptr++] = ch` -/
def put (cfg : Cfg) (s : TState) (ch : Ch) : Option TState :=
  if s.tok.length < cfg.len then some { s with tok := s.tok ++ [toByte ch] } else none

def putNext (cfg : Cfg) (s : TState) (ch : Ch) : Step TState TokRaw :=
  match put cfg s ch with
  | some s' => .next s'
  | none => .fault .tokenOverflow

def putBrk (cfg : Cfg) (s : TState) (ch : Ch) : Step TState TokRaw :=
  match put cfg s ch with
  | some s' => s'.brk
  | none => .fault .tokenOverflow

/-- `tokens_unget_char(ch); break;` -/
def ungetBrk (s : TState) (ch : Ch) : Step TState TokRaw :=
  match ungetChar s.r ch with
  | .ok r => { s with r := r }.brk
  | .fault f => .fault f
  | .exit1 => s.exit

/-- the first character of a token that is none of the above -/
def symbolStart (cfg : Cfg) (s : TState) (ch : Ch) : Step TState TokRaw :=
  match put cfg { s with tt := .symbol } ch with
  | none => .fault .tokenOverflow
  | some s' =>
    if ch = 47 then .next { s' with pc := .slash2 }
    else if ch = 62 ∨ ch = 60 ∨ ch = 61 then .next { s' with pc := .cmp2 ch }
    else if ch = 38 ∨ ch = 124 then .next { s' with pc := .amp2 ch }
    else s'.brk

def mainOther (cfg : Cfg) (s : TState) (ch : Ch) : Step TState TokRaw :=
  if ch = 35 then putBrk cfg { s with tt := .pound } ch
  else if s.tok.length = 0 ∧ ch = 36 then
    putNext cfg { s with tt := if cfg.dollarHex then .dollar else .string } ch
  else if ch = 58 ∧ s.tt = .string then { s with tt := .label }.brk
  else if s.tt = .number ∧ ch = 95 then .next s
  else if isAlpha ch ∨ ch = 95 then
    if s.tok.length = 0 then putNext cfg { s with tt := .string } ch
    else if s.tt = .number then putNext cfg { s with tt := .string } ch
    else if s.tt = .float then ungetBrk s ch
    else putNext cfg s ch
  else if isDigit ch then
    if s.tok.length = 0 then putNext cfg { s with tt := .number } ch else putNext cfg s ch
  else if ch = 46 ∧ s.tt = .number then
    if cfg.noDots then ungetBrk s ch else putNext cfg { s with tt := .float } ch
  else if s.tok.length = 0 then symbolStart cfg s ch
  else ungetBrk s ch

def mainWhite (cfg : Cfg) (s : TState) (ch : Ch) : Step TState TokRaw :=
  if ch = 10 then
    if s.tok.length = 0 then retEOL cfg s
    else
      match ungetChar s.r ch with
      | .ok r => if s.tok.length ≥ cfg.len then { s with r := r }.exit else { s with r := r }.brk
      | .fault f => .fault f
      | .exit1 => s.exit
  else if s.tok.length = 0 then (if ch = EOFc then s.brk else .next s)
  else if s.tok.length ≥ cfg.len then s.exit
  else s.brk

def mainRest (cfg : Cfg) (s : TState) (ch : Ch) : Step TState TokRaw :=
  if ch = 59 then
    if s.tok.length ≠ 0 then ungetBrk s ch else .next { s with pc := .semi }
  else if ch = 39 ∧ cfg.canTick ∧ s.tt = .string then putBrk cfg s ch
  else if ch = 46 ∧ s.tok.length ≠ 0 ∧ s.tt = .string ∧ cfg.dots ∧ tokenIsNotNumber s.tok then
    putNext cfg s ch
  else if ch = 47 ∧ s.tok.length ≠ 0 ∧ s.tt = .string ∧ cfg.slashes then putNext cfg s ch
  else if ch = 34 then .next { s with tt := .quoted, pc := .quoted }
  else if ch = 39 then .next { s with tt := .ticked, pc := .ticked }
  else if ch = 10 ∨ ch = 32 ∨ ch = 9 ∨ ch = EOFc then mainWhite cfg s ch
  else mainOther cfg s ch

def mainBody (cfg : Cfg) (s : TState) (ch : Ch) : Step TState TokRaw :=
  if s.tt = .dollar then
    if isHexDigit ch then
      -- token[0] = '0'; token[1] = 'x'; ptr = 2;
      if cfg.len < 2 then .fault .tokenOverflow
      else mainRest cfg { s with tok := [48, 120], tt := .string } ch
    else if ¬ isAlpha ch then ungetBrk s ch
    else mainRest cfg { s with tt := .string } ch
  else mainRest cfg s ch

/-- process_escape: the value for a known escape -/
def escapeOf (ch : Ch) (processZero : Bool) : Option Ch :=
  if ch = 110 then some 10
  else if ch = 114 then some 13
  else if ch = 116 then some 9
  else if ch = 34 then some 34
  else if ch = 92 then some 92
  else if ch = 39 then some 39
  else if ch = 48 ∧ processZero then some 0
  else none

/-- `token[ptr++] = ch; if (ptr >= len - 1) { "Unterminated quote"; break; }` -/
def quotedPut (cfg : Cfg) (s : TState) (ch : Ch) : Step TState TokRaw :=
  match put cfg s ch with
  | none => .fault .tokenOverflow
  | some s' =>
    if s'.tok.length + 1 ≥ cfg.len then
      { s' with r := { s'.r with errors := s'.r.errors + 1 } }.brk
    else .next { s' with pc := .quoted }

/-- one pass of the machine, after tokens_get_char delivered `ch` -/
def tokBody (cfg : Cfg) (s : TState) (ch : Ch) : Step TState TokRaw :=
  match s.pc with
  | .main => mainBody cfg s ch
  | .semi => if ch = 10 ∨ ch = EOFc then retEOL cfg s else .next s
  | .lineCom => if ch = 10 ∨ ch = EOFc then retEOL cfg s else .next s
  | .quoted =>
    if ch = 34 then s.brk
    else if ch = 92 then .next { s with pc := .quotedEsc }
    else quotedPut cfg s ch
  | .quotedEsc =>
    match escapeOf ch false with
    | some v => quotedPut cfg s v
    | none =>
      match ungetChar s.r ch with
      | .ok r => quotedPut cfg { s with r := r } 92
      | .fault f => .fault f
      | .exit1 => s.exit
  | .ticked =>
    if s.tok.length > 1 then { s with r := { s.r with errors := s.r.errors + 1 } }.brk
    else if ch = 39 then s.brk
    else if ch = 92 then .next { s with pc := .tickedEsc }
    else putNext cfg s ch
  | .tickedEsc =>
    match escapeOf ch true with
    | some v => putNext cfg { s with pc := .ticked } v
    | none =>
      match ungetChar s.r ch with
      | .ok r => putNext cfg { s with r := r, pc := .ticked } 92
      | .fault f => .fault f
      | .exit1 => s.exit
  | .slash2 =>
    if ch = 42 then
      -- ptr = 0; token[0] = 0;
      if cfg.len < 1 then .fault .tokenOverflow else .next { s with tok := [], pc := .blockCom }
    else if ch = 47 then .next { s with pc := .lineCom }
    else ungetBrk s ch
  | .blockCom =>
    if ch = EOFc then
      .done { r := { s.r with errors := s.r.errors + 1 }, tok := s.tok, tt := .eof, kind := .ret,
              exited := false, reads := s.reads }
    else if ch = 42 then .next { s with pc := .blockStar }
    else .next s
  | .blockStar =>
    if ch = 47 then .next { s with pc := .main }
    else
      match ungetChar s.r ch with
      | .ok r => .next { s with r := r, pc := .blockCom }
      | .fault f => .fault f
      | .exit1 => s.exit
  | .cmp2 c =>
    if ch = c then putBrk cfg { s with tt := if c = 61 then .equality else s.tt } c
    else if ch = 61 then putBrk cfg { s with tt := .equality } ch
    else ungetBrk { s with tt := if c ≠ 61 then .equality else s.tt } ch
  | .amp2 c =>
    if ch = c then putBrk cfg s c else ungetBrk s ch

/-- One pass: the length test at the top of the outer loop, tokens_get_char, the body. -/
def tokStep (cfg : Cfg) (s : TState) : Step TState TokRaw :=
  if s.pc = .main ∧ s.tok.length + 2 ≥ cfg.len then
    -- "Token too long"
    { s with r := { s.r with errors := s.r.errors + 1 } }.brk
  else
    match getChar s.r with
    | .fault f => .fault f
    | .exit1 => s.exit
    | .ok (ch, r) => tokBody cfg { s with r := r, reads := min (s.reads + 1) 3 } ch

def TState.start (r : RState) : TState :=
  { r := r, tok := [], tt := .eof, pc := .main, reads := 0 }

/-- the accumulation loop of tokens_get -/
def tokLoop (cfg : Cfg) (fuel : Nat) (r : RState) : Out TokRaw :=
  run (tokStep cfg) fuel (TState.start r)

end NakenVerif.Reader
