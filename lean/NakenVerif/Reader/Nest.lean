/-
  Nesting counters of the driver (property C16): how deep the C recursion can get.

  * AsmContext::assemble() is re-entered by parse_if / parse_ifdef (directives_if.cpp: one call per
    open conditional, `ifdef_count`, limit MAX_NESTED_IFS), by include_parse
    (directives_include.cpp: `depth`, limit 32) and by parse_repeat (directives.cpp: `in_repeat`);
  * EvalExpression::run / parse_unary_new count their own frames (`expression_depth`,
    MAX_EXPRESSION_DEPTH); parse_ifdef_expression carries `paren_count` (MAX_IFDEF_PARENS);
  * tokens_get follows macro entries in a loop with the budget MAX_MACRO_EXPANSIONS.

  The statements of a source are abstracted to the events that change a counter; the theorems hold
  for EVERY event sequence, i.e. for every source text.  Limits are the regenerated constants.
-/
import NakenVerif.Generated.ReaderLimits
import NakenVerif.Generated.Limits

namespace NakenVerif.Reader.Nest

open NakenVerif.Generated

/-- The limits exist and are small enough for the stack: assemble() + parse_directives + parse_if
    + include_parse use about 10 KB per level (filename[8192] in include_parse), the expression
    evaluators below 1 KB per level; 2 + 128 + 32 levels of the former and 512 + 512 of the latter
    stay far below an 8 MB stack.  A limit that disappears from the source is regenerated as
    1000000007 and breaks this obligation. -/
theorem limits_sane :
    nestingTestsPresent = true ∧ includeDepthMax ≤ 64 ∧ maxNestedIfs ≤ 256 ∧ maxExpressionDepth ≤ 2048 ∧
    maxIfdefParens ≤ 2048 ∧ maxMacroExpansions ≤ 10000000 ∧ mpParamCountMax ≤ 255 ∧ exCountMax ≤ 255 := by decide

/-- what a statement can do to the nesting of assemble() -/
inductive Ev where
  | ifTaken     -- .if / .ifdef / .ifndef whose condition holds: parse_ifdef_ignore(…, 0) assembles the branch
                --   (FIRST recursion site: assemble_branch() in the "not ignored" arm)
  | ifElse      -- condition false, the text up to `.else` is skipped by ifdef_ignore() (a loop, no recursion), then the
                --   `.else` part is assembled (SECOND recursion site: assemble_branch() behind `n == 2`)
  | ifSkipped   -- condition false and no `.else`: ifdef_ignore() reads up to the matching `.endif`; no frame, but the
                --   conditional is counted and tested like the others while it is open
  | ifClose     -- `.endif` of the branch being assembled (assemble() returns 5), or `.else` of a taken branch
                --   (assemble() returns 2) followed by the skipped rest up to its `.endif`
  | incOpen     -- .include of a file that can be opened
  | incClose    -- end of an included file
  | repOpen     -- .repeat
  | repClose    -- .endr
  | other       -- any other statement
  deriving DecidableEq, Repr

structure St where
  ifs : Nat         -- asm_context->ifdef_count
  incs : Nat        -- `depth` of include_parse
  rep : Bool        -- asm_context->in_repeat
  frames : Nat      -- active calls of AsmContext::assemble()
  deriving DecidableEq, Repr

def St.init : St := { ifs := 0, incs := 0, rep := false, frames := 1 }

/-- `none` = the statement is reported as an error (assembly stops) -/
def step (s : St) : Ev → Option St
  | .ifTaken =>
    -- parse_if / parse_ifdef: ifdef_count++; if (ifdef_count > MAX_NESTED_IFS) error;  -- BEFORE the condition is looked at
    -- parse_ifdef_ignore(…, 0): assemble_branch() -> assemble()
    if s.ifs + 1 > maxNestedIfs then none else some { s with ifs := s.ifs + 1, frames := s.frames + 1 }
  | .ifElse =>
    -- the same test, then parse_ifdef_ignore(…, 1): ifdef_ignore() = 2, assemble_branch() -> assemble()
    if s.ifs + 1 > maxNestedIfs then none else some { s with ifs := s.ifs + 1, frames := s.frames + 1 }
  | .ifSkipped =>
    -- the same test, then ifdef_ignore() = 0 and ifdef_count-- : the state is unchanged
    if s.ifs + 1 > maxNestedIfs then none else some s
  | .ifClose =>
    -- "unmatched .endif" when ifdef_count < 1
    if s.ifs < 1 then none else some { s with ifs := s.ifs - 1, frames := s.frames - 1 }
  | .incOpen =>
    -- if (depth >= 32) error; depth++; assemble(); depth--
    if s.incs ≥ includeDepthMax then none else some { s with incs := s.incs + 1, frames := s.frames + 1 }
  | .incClose =>
    if s.incs < 1 then none else some { s with incs := s.incs - 1, frames := s.frames - 1 }
  | .repOpen =>
    if s.rep then none else some { s with rep := true, frames := s.frames + 1 }
  | .repClose =>
    if s.rep then some { s with rep := false, frames := s.frames - 1 } else none
  | .other => some s

/-- the states reached while a source is assembled (until the first error) -/
def runEvents : St → List Ev → List St
  | s, [] => [s]
  | s, e :: es =>
    match step s e with
    | none => [s]
    | some s' => s :: runEvents s' es

def Inv (s : St) : Prop :=
  s.ifs ≤ maxNestedIfs ∧ s.incs ≤ includeDepthMax ∧
  s.frames = 1 + s.ifs + s.incs + (if s.rep then 1 else 0)

theorem inv_init : Inv St.init := by simp [Inv, St.init]

theorem step_inv (s s' : St) (e : Ev) (h : Inv s) (hs : step s e = some s') : Inv s' := by
  obtain ⟨h1, h2, h3⟩ := h
  cases e <;> simp only [step] at hs
  · split at hs
    · cases hs
    · cases hs; refine ⟨by simp; omega, h2, by simp; omega⟩
  · split at hs
    · cases hs
    · cases hs; refine ⟨by simp; omega, h2, by simp; omega⟩
  · split at hs
    · cases hs
    · cases hs; exact ⟨h1, h2, h3⟩
  · split at hs
    · cases hs
    · cases hs; refine ⟨by simp; omega, h2, by simp; omega⟩
  · split at hs
    · cases hs
    · cases hs; refine ⟨h1, by simp; omega, by simp; omega⟩
  · split at hs
    · cases hs
    · cases hs; refine ⟨h1, by simp; omega, by simp; omega⟩
  · split at hs
    · cases hs
    · rename_i hr
      cases hs
      refine ⟨h1, h2, ?_⟩
      simp only [Bool.not_eq_true] at hr
      simp [hr] at h3 ⊢
      omega
  · split at hs
    · rename_i hr
      cases hs
      refine ⟨h1, h2, ?_⟩
      simp [hr] at h3 ⊢
      omega
    · cases hs
  · cases hs; exact ⟨h1, h2, h3⟩

theorem runEvents_inv : ∀ (es : List Ev) (s : St), Inv s → ∀ t ∈ runEvents s es, Inv t
  | [], s, h, t, ht => by simp [runEvents] at ht; subst ht; exact h
  | e :: es, s, h, t, ht => by
    simp only [runEvents] at ht
    cases hs : step s e with
    | none => simp [hs] at ht; subst ht; exact h
    | some s' =>
      simp only [hs, List.mem_cons] at ht
      rcases ht with ht | ht
      · subst ht; exact h
      · exact runEvents_inv es s' (step_inv s s' e h hs) t ht

/-- the recursion of assemble() is never deeper than the three limits allow -/
theorem frames_bounded (es : List Ev) :
    ∀ t ∈ runEvents St.init es, t.frames ≤ 2 + maxNestedIfs + includeDepthMax := by
  intro t ht
  obtain ⟨h1, h2, h3⟩ := runEvents_inv es St.init inv_init t ht
  rw [h3]
  split <;> omega

/-- a conditional that would be the (MAX_NESTED_IFS + 1)-th open one is an error, not a frame -- through the taken
    branch, through the `.else` branch of a false one, and for a false one without `.else` alike -/
theorem too_many_ifs_is_error (s : St) (h : s.ifs = maxNestedIfs) :
    step s .ifTaken = none ∧ step s .ifElse = none ∧ step s .ifSkipped = none := by
  simp [step, h]

/-- both recursion sites cost exactly one frame and one unit of `ifdef_count` -/
theorem if_sites_cost_one_frame (s s' : St) (e : Ev) (he : e = .ifTaken ∨ e = .ifElse) (hs : step s e = some s') :
    s'.frames = s.frames + 1 ∧ s'.ifs = s.ifs + 1 ∧ s.ifs < maxNestedIfs := by
  rcases he with he | he <;> subst he <;> simp only [step] at hs <;> split at hs
  · cases hs
  · cases hs; exact ⟨rfl, rfl, by omega⟩
  · cases hs
  · cases hs; exact ⟨rfl, rfl, by omega⟩

/-- the deepest recursion of assemble() while the events are processed (what the trace hook's `enter <depth>` shows) -/
def maxFrames (s : St) (es : List Ev) : Nat := (runEvents s es).foldl (fun m t => max m t.frames) 0

/-- index of the event that is refused, if any -/
def firstError : St → List Ev → Nat → Option (Nat × Ev)
  | _, [], _ => none
  | s, e :: es, k =>
    match step s e with
    | none => some (k, e)
    | some s' => firstError s' es (k + 1)

theorem too_many_includes_is_error (s : St) (h : s.incs = includeDepthMax) : step s .incOpen = none := by
  simp [step, h]

/-! ### The frame counter of the expression evaluators -/

/-- `ExpressionDepth depth; if (depth.too_deep()) return -1;` on entry, the destructor on exit -/
inductive XEv where
  | enter     -- run() or parse_unary_new() is called
  | leave     -- it returns
  deriving DecidableEq, Repr

/-- the depth counter; `none` = "Expression nested too deep" (the call returns at once, counted
    as not entered) -/
def xstep (d : Nat) : XEv → Option Nat
  | .enter => if d + 1 > maxExpressionDepth then none else some (d + 1)
  | .leave => some (d - 1)

def xrun : Nat → List XEv → List Nat
  | d, [] => [d]
  | d, e :: es =>
    match xstep d e with
    | none => d :: xrun d es          -- the error is returned to the caller, which unwinds
    | some d' => d :: xrun d' es

theorem xrun_bounded : ∀ (es : List XEv) (d : Nat), d ≤ maxExpressionDepth →
    ∀ t ∈ xrun d es, t ≤ maxExpressionDepth
  | [], d, h, t, ht => by simp [xrun] at ht; omega
  | e :: es, d, h, t, ht => by
    simp only [xrun] at ht
    cases hs : xstep d e with
    | none =>
      simp only [hs, List.mem_cons] at ht
      rcases ht with ht | ht
      · omega
      · exact xrun_bounded es d h t ht
    | some d' =>
      simp only [hs, List.mem_cons] at ht
      rcases ht with ht | ht
      · omega
      · have hd' : d' ≤ maxExpressionDepth := by
          cases e <;> simp only [xstep] at hs
          · split at hs
            · cases hs
            · cases hs; omega
          · cases hs; omega
        exact xrun_bounded es d' hd' t ht

/-- `.if` conditions: `if (paren_count >= MAX_IFDEF_PARENS) error` before every recursion -/
def pstep (p : Nat) : Option Nat := if p ≥ maxIfdefParens then none else some (p + 1)

theorem pstep_bounded (p p' : Nat) (h : p ≤ maxIfdefParens) (hs : pstep p = some p') :
    p' ≤ maxIfdefParens := by
  unfold pstep at hs
  split at hs
  · cases hs
  · cases hs; omega

/-! ### The expansion budget of tokens_get -/

/-- What one pass of the loop of tokens_get can do to (characters of the source left,
    expand_count): every tokens_get_char either takes characters from the source (then the
    counter is reset or kept) or leaves both alone (`GetPost.src_prog`); the loop then
    increments the counter. -/
def PassOk (src expand src' expand' : Nat) : Prop :=
  (src' < src ∧ (expand' = 0 ∨ expand' = expand)) ∨ (src' = src ∧ expand' = expand)

def budget (src expand : Nat) : Nat := src * (maxMacroExpansions + 2) + (maxMacroExpansions + 1 - expand)

/-- a pass that is followed by another one (the counter did not exceed the limit) decreases the
    budget: at most (length of the source + 1) * (MAX_MACRO_EXPANSIONS + 2) macro entries can
    follow each other without a token being delivered -/
theorem budget_decreases (src expand src' expand' : Nat) (he : expand ≤ maxMacroExpansions)
    (hp : PassOk src expand src' expand') (hgo : ¬ (expand' + 1 > maxMacroExpansions)) :
    budget src' (expand' + 1) < budget src expand := by
  unfold budget
  rcases hp with ⟨hlt, _⟩ | ⟨heq, hee⟩
  · have : src' + 1 ≤ src := hlt
    have h2 : (src' + 1) * (maxMacroExpansions + 2) ≤ src * (maxMacroExpansions + 2) :=
      Nat.mul_le_mul_right _ this
    rw [Nat.add_mul] at h2
    omega
  · subst heq hee
    omega

theorem over_budget_is_error (expand' : Nat) (h : expand' ≥ maxMacroExpansions) :
    expand' + 1 > maxMacroExpansions := by omega

/-! ### Exit status -/

/-- `return error_flag == 0 ? EXIT_SUCCESS : EXIT_FAILURE;` and the `exit(0)` / `exit(1)` calls -/
def mainStatus (errorFlag : Int) : Nat := if errorFlag = 0 then 0 else 1

theorem mainStatus_01 (errorFlag : Int) : mainStatus errorFlag = 0 ∨ mainStatus errorFlag = 1 := by
  unfold mainStatus; split <;> simp

end NakenVerif.Reader.Nest
