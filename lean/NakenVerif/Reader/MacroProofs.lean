/-
  The macro buffers are never overrun (property C16): invariants of the loops of
  macros_expand_params and macros_parse.
-/
import NakenVerif.Reader.MacroImpl
import NakenVerif.Reader.Proofs

namespace NakenVerif.Reader

open NakenVerif.Generated

/-- The literals of the bound tests fit the extents of the arrays they protect
    (all regenerated from the source). -/
theorem macro_caps_fit :
    3 ≤ exParamsSlack ∧ exParamsSlack ≤ exParamsLen ∧ exCountMax + 1 ≤ exParamsPtrLen ∧
    2 ≤ mpNameArg ∧ mpNameArg ≤ mpNameLen ∧
    mpParamsCheck ≤ mpParamsLen ∧
    2 ≤ mpMacroSlack ∧ mpMacroSlack ≤ maxMacroLen ∧ maxMacroLen ≤ mpMacroLen ∧
    paramStackLen ≤ defParamStackDataLen ∧ maxNestedMacros + 1 ≤ defParamStackPtrLen := by decide

/-! ### macros_expand_params: the argument loops -/

structure EInv (a0 : Nat) (s : EState) : Prop where
  rinv : RInv s.r
  ab : above s.r ≤ a0
  room : match s.pc with
    | .blanks => True
    | .args => s.params.length + 2 ≤ exParamsLen
    | .esc => s.params.length + 3 ≤ exParamsLen
  count : s.pc ≠ .blanks → 1 ≤ s.ptrs.length ∧ s.ptrs.length ≤ exCountMax + 1

structure EPost (a0 : Nat) (res : ERes) : Prop where
  rinv : RInv res.r
  ab : above res.r ≤ a0
  room : res.how = .args → res.params.length < exParamsLen
  count : res.how = .args → 1 ≤ res.ptrs.length ∧ res.ptrs.length ≤ exCountMax + 1

theorem expStep_good (a0 : Nat) (s : EState) (h : EInv a0 s) : Good (EInv a0) (EPost a0) (expStep s) := by
  have hc := macro_caps_fit
  unfold expStep
  rcases getChar_spec h.rinv with he | ⟨ch0, r1, hg, hpost⟩
  · simp only [he]
    exact ⟨h.rinv, h.ab, (fun h' => by cases h'), (fun h' => by cases h')⟩
  · simp only [hg]
    have hr1 := hpost.inv
    have hab1 : above r1 ≤ a0 := by have := hpost.above_le; have := h.ab; omega
    have hroom := h.room
    have hcount := h.count
    have hfinE : ∀ (s' : EState) (e : EEnd), s'.r = r1 → e ≠ .args → Good (EInv a0) (EPost a0) (s'.fin e) := by
      intro s' e hs he
      exact ⟨by rw [hs]; exact hr1, by rw [hs]; exact hab1, fun h' => absurd h' he, fun h' => absurd h' he⟩
    unfold expBody
    cases hpc : s.pc with
    | blanks =>
      simp only
      split
      · exact ⟨hr1, hab1, trivial, fun h' => absurd rfl h'⟩
      · split
        · exact hfinE _ _ rfl (by decide)
        · exact ⟨hr1, hab1, by simp only [List.length_nil]; omega,
            fun _ => by simp only [List.length_cons, List.length_nil]; omega⟩
    | esc =>
      simp only [hpc] at hroom
      have hcnt := hcount (by simp [hpc])
      simp only
      have hlt : s.params.length < exParamsLen := by omega
      unfold eput
      simp only [hlt, if_true]
      exact ⟨hr1, hab1, by simp only [List.length_append, List.length_cons, List.length_nil]; omega,
        fun _ => hcnt⟩
    | args =>
      simp only [hpc] at hroom
      have hcnt := hcount (by simp [hpc])
      simp only
      unfold argsBody
      split
      · exact ⟨hr1, hab1, hroom, fun _ => hcnt⟩
      · split
        · exact hfinE _ _ rfl (by decide)
        · rename_i hchk
          have hchk' : s.params.length + exParamsSlack < exParamsLen ∧ s.ptrs.length - 1 < exCountMax := by
            dsimp only at hchk; constructor <;> omega
          have hlt : s.params.length < exParamsLen := by omega
          split
          · exact ⟨hr1, hab1, hroom, fun _ => hcnt⟩
          · split
            · unfold eput
              simp only [hlt, if_true]
              exact ⟨hr1, hab1, by simp only [List.length_append, List.length_cons, List.length_nil]; omega,
                fun _ => hcnt⟩
            · unfold argsTail
              split
              · exact ⟨hr1, hab1, fun _ => hlt, fun _ => hcnt⟩
              · split
                · exact hfinE _ _ rfl (by decide)
                · split
                  · unfold eput
                    simp only [hlt, if_true]
                    have hpl : s.ptrs.length < exParamsPtrLen := by omega
                    simp only [hpl, if_true]
                    exact ⟨hr1, hab1,
                      by simp only [List.length_append, List.length_cons, List.length_nil]; omega,
                      fun _ => by simp only [List.length_cons]; omega⟩
                  · unfold eput
                    simp only [hlt, if_true]
                    exact ⟨hr1, hab1,
                      by simp only [List.length_append, List.length_cons, List.length_nil]; omega,
                      fun _ => hcnt⟩

theorem expStep_ok (a0 : Nat) : StepOk (EInv a0) (EPost a0) expStep :=
  stepOk_of_good (expStep_good a0)

theorem einv_start (r : RState) (hr : RInv r) : EInv (above r) (EState.start r) :=
  ⟨hr, Nat.le_refl _, by simp [EState.start], fun h => by simp [EState.start] at h⟩

/-! ### macros_expand_params: substitution into the arena -/

/-- what the substitution loop guarantees: no index outside def_param_stack_data[], and the
    final write index is inside it (room for the terminating NUL) -/
def SubOK (res : SubRes) : Prop :=
  (∀ f, res ≠ .fault f) ∧ (∀ text ptr', res = .ok text ptr' → ptr' < paramStackLen)

theorem substGo_ok (params ptrs : List Nat) (count : Nat) :
    ∀ (n : Nat) (define : List Nat), define.length ≤ n → ∀ (ptr : Nat) (acc : List Nat),
      ptr < paramStackLen → SubOK (substGo params ptrs count define ptr acc) := by
  have hc := macro_caps_fit
  intro n
  induction n with
  | zero =>
    intro define hl ptr acc hp
    have : define = [] := List.eq_nil_of_length_eq_zero (by omega)
    subst this
    exact ⟨fun f => by simp [substGo], fun text ptr' h => by simp [substGo] at h; omega⟩
  | succ n ih =>
    intro define hl ptr acc hp
    cases define with
    | nil => exact ⟨fun f => by simp [substGo], fun text ptr' h => by simp [substGo] at h; omega⟩
    | cons c rest =>
      unfold substGo
      split
      · -- parameter marker
        cases rest with
        | nil => exact ⟨fun f => by simp, fun text ptr' h => by simp at h⟩
        | cons idx rest' =>
          simp only
          split
          · exact ⟨fun f => by simp, fun text ptr' h => by simp at h⟩
          · split
            · exact ⟨fun f => by simp, fun text ptr' h => by simp at h⟩
            · split
              · exact ih rest' (by simp at hl; omega) _ _ (by omega)
              · rename_i hbig hnf
                omega
      · split
        · split
          · exact ⟨fun f => by simp, fun text ptr' h => by simp at h⟩
          · exact ih rest (by simp at hl; omega) _ _ (by omega)
        · omega

/-- macros_expand_params after the arguments: no fault, and the new arena top is recorded -/
theorem expFinish_no_fault (a0 : Nat) (res : ERes) (define : List Nat) (paramCount : Nat)
    (h : EPost a0 res) : ∀ f, expFinish res define paramCount ≠ .fault f := by
  have hc := macro_caps_fit
  intro f
  unfold expFinish
  cases hh : res.how with
  | exit => simp
  | error => simp
  | args =>
    simp only
    have hroom := h.room hh
    simp only [hroom, if_true]
    split
    · simp
    · split
      · simp
      · rename_i hnest
        have hlt : res.r.arena.length - 1 < defParamStackPtrLen := by omega
        simp only [hlt, if_true]
        split
        · simp
        · rename_i hp
          have hsub := substGo_ok (res.params ++ [0]) res.ptrs res.ptrs.length define.length define
            (Nat.le_refl _) (res.r.arena.headD 0) [] (by omega)
          cases hs : substGo (res.params ++ [0]) res.ptrs res.ptrs.length define (res.r.arena.headD 0) [] with
          | error => simp
          | exit => simp
          | fault g => exact absurd hs (hsub.1 g)
          | ok text ptr' =>
            simp only
            have := hsub.2 text ptr' hs
            have h1 : ptr' < defParamStackDataLen := by omega
            have h2 : res.r.arena.length - 1 + 1 < defParamStackPtrLen := by omega
            simp only [h1, h2, if_true]
            simp

/-! ### macros_parse: one parameter name -/

theorem addParam_no_fault (params : List Nat) (count : Nat) (tok : List Nat) :
    ∀ f, addParam params count tok ≠ .fault f := by
  have hc := macro_caps_fit
  intro f
  unfold addParam
  simp only
  split
  · simp
  · split
    · simp
    · rename_i hchk
      have : params.length + tok.length < mpParamsLen := by omega
      simp [this]

/-- over-long parameter lists are an error -/
theorem addParam_too_long (params : List Nat) (count : Nat) (tok : List Nat)
    (h : params.length + tok.length + 2 > mpParamsCheck) : addParam params count tok = .error := by
  unfold addParam
  simp only
  split
  · rfl
  · simp [h]

/-- the list stays short enough for the closing `params[ptr] = 0` -/
theorem addParam_room (params : List Nat) (count : Nat) (tok : List Nat) (p' : List Nat) (c' : Nat)
    (h : addParam params count tok = .ok p' c') : p'.length < mpParamsLen ∧ c' ≤ mpParamCountMax := by
  have hc := macro_caps_fit
  unfold addParam at h
  simp only at h
  split at h
  · cases h
  · split at h
    · cases h
    · split at h
      · simp only [AddParam.ok.injEq] at h
        obtain ⟨h1, h2⟩ := h
        subst h1 h2
        simp only [List.length_append, List.length_cons, List.length_nil]
        omega
      · cases h

/-! ### macros_parse_token: `name[]` -/

structure NInv (s : NState) : Prop where
  rinv : RInv s.r
  ab : above s.r ≤ 2
  room : s.name.length + 1 < mpNameArg

structure NPost (res : NRes) : Prop where
  rinv : RInv res.r
  ab : above res.r ≤ 2
  room : res.name.length < mpNameLen

theorem nameStep_good (isDefine : Bool) (s : NState) (h : NInv s) :
    Good NInv NPost (nameStep isDefine s) := by
  have hc := macro_caps_fit
  have hroom := h.room
  unfold nameStep
  rcases getChar_spec h.rinv with he | ⟨ch0, r1, hg, hpost⟩
  · simp only [he]
    exact ⟨h.rinv, h.ab, by show s.name.length < mpNameLen; omega⟩
  · simp only [hg]
    have hr1 := hpost.inv
    have hab1 : above r1 ≤ 1 := by have := hpost.above_le; have := h.ab; omega
    have hlt : s.name.length < mpNameLen := by omega
    -- the common exits
    have hfin : ∀ (r : RState) (how : NEnd), RInv r → above r ≤ 2 →
        Good NInv NPost (Step.done (σ := NState) { r := r, name := s.name, how := how }) := by
      intro r how hr ha
      exact ⟨hr, ha, hlt⟩
    have hunget : ∀ (c : Ch), Good NInv NPost (match ungetChar r1 c with
        | .ok r => Step.done (σ := NState) { r := r, name := s.name, how := NEnd.plain }
        | .fault f => .fault f
        | .exit1 => .done { r := r1, name := s.name, how := .exit }) := by
      intro c
      obtain ⟨r', hu, hi, hab, _⟩ := ungetChar_ok hr1 c (by omega)
      simp only [hu]
      exact hfin r' _ hi (by omega)
    unfold nameBody
    cases hpc : s.pc with
    | paren =>
      simp only
      split
      · exact ⟨hr1, by show above r1 ≤ 2; omega, hroom⟩
      · split
        · exact hfin r1 _ hr1 (by omega)
        · exact hunget _
    | name =>
      simp only
      split
      · split
        · exact ⟨hr1, by show above r1 ≤ 2; omega, hroom⟩
        · split
          · exact hfin r1 _ hr1 (by omega)
          · exact ⟨hr1, by show above r1 ≤ 2; omega, hroom⟩
      · split
        · simp only [hlt, if_true, List.length_append, List.length_cons, List.length_nil]
          split
          · have : s.name.length + 1 < mpNameLen := by omega
            simp only [this, if_true]
            exact ⟨hr1, by show above r1 ≤ 2; omega,
              by simp only [List.length_append, List.length_cons, List.length_nil]; omega⟩
          · exact ⟨hr1, by show above r1 ≤ 2; omega,
              by simp only [List.length_append, List.length_cons, List.length_nil]; omega⟩
        · split
          · exact ⟨hr1, by show above r1 ≤ 2; omega, hlt⟩
          · split
            · exact hfin r1 _ hr1 (by omega)
            · exact hunget _

theorem nameStep_ok (isDefine : Bool) : StepOk NInv NPost (nameStep isDefine) :=
  stepOk_of_good (nameStep_good isDefine)

/-! ### macros_parse: the body loop, `macro[]` -/

def isIdent (ch : Ch) : Prop := isLetter ch = true ∨ isDig ch = true ∨ ch = 95

structure BInv (s : BState) : Prop where
  rinv : RInv s.r
  size : s.buf.length + mpMacroSlack ≤ maxMacroLen
  name : ∀ nt, s.nameTest = some nt → nt < s.buf.length ∧ s.buf.length + mpMacroSlack < maxMacroLen
  pcnone : s.pc ≠ .body → s.nameTest = none
  blockne : ∀ l, s.pc = .block l → s.buf.length > 0

structure BPost (res : BRes) : Prop where
  rinv : RInv res.r
  room : res.how = .body → res.wptr + 1 < mpMacroLen

theorem dropWhile_length_le (p : Nat → Bool) : ∀ l : List Nat, (l.dropWhile p).length ≤ l.length
  | [] => by simp
  | x :: xs => by
    simp only [List.dropWhile]
    split
    · have := dropWhile_length_le p xs; simp; omega
    · simp

theorem stripSpaces_length (l : List Nat) : (stripSpaces l).length ≤ l.length := by
  unfold stripSpaces
  simp only [List.length_reverse]
  have := dropWhile_length_le (fun x => decide (x = 32)) l.reverse
  simpa using this

theorem bfin_good {s : BState} (how : BEnd) (hr : RInv s.r) (hsz : s.buf.length + mpMacroSlack ≤ maxMacroLen) :
    Good BInv BPost (s.fin how) := by
  have hc := macro_caps_fit
  exact ⟨hr, fun _ => by show s.buf.length + 1 < mpMacroLen; omega⟩

/-- a state of the body loop in which no name is being collected -/
theorem binv_none {s : BState} (hr : RInv s.r) (hsz : s.buf.length + mpMacroSlack ≤ maxMacroLen)
    (hn : s.nameTest = none) (hb : ∀ l, s.pc = .block l → s.buf.length > 0) : BInv s :=
  ⟨hr, hsz, (fun nt h' => by rw [hn] at h'; cases h'), (fun _ => hn), hb⟩

theorem not_ident_of_eq {ch : Ch} (k : Int) (hk : ch = k)
    (hf : isLetter k = false ∧ isDig k = false ∧ k ≠ 95) : ¬ isIdent ch := by
  intro hid
  rw [hk] at hid
  rcases hid with h1 | h1 | h1
  · rw [hf.1] at h1; cases h1
  · rw [hf.2.1] at h1; cases h1
  · exact hf.2.2 h1

/-- the last part of a pass: start of a block comment, or the store with its length test -/
theorem bodyPut_good (t : BState) (ch : Ch) (hr : RInv t.r) (hpc : t.pc = .body)
    (hsz : t.buf.length + mpMacroSlack ≤ maxMacroLen)
    (hnt : ∀ nt, t.nameTest = some nt → nt ≤ t.buf.length ∧ isIdent ch) :
    Good BInv BPost (bodyPut t ch) := by
  have hc := macro_caps_fit
  have hlt : t.buf.length < mpMacroLen := by omega
  unfold bodyPut
  split
  · rename_i h42
    have hn : t.nameTest = none := by
      cases hn : t.nameTest with
      | none => rfl
      | some nt => exact absurd (hnt nt hn).2 (not_ident_of_eq 42 h42.1 (by decide))
    exact binv_none hr hsz hn (fun l _ => h42.2.1)
  · unfold bput
    simp only [hlt, if_true]
    split
    · exact ⟨hr, fun h' => by cases h'⟩
    · rename_i hok
      simp only [List.length_append, List.length_cons, List.length_nil] at hok
      refine ⟨hr, by simp only [List.length_append, List.length_cons, List.length_nil]; omega, ?_, ?_, ?_⟩
      · intro nt h'
        have := (hnt nt h').1
        simp only [List.length_append, List.length_cons, List.length_nil]
        omega
      · intro h'; exact absurd hpc h'
      · intro l h'; rw [hpc] at h'; cases h'

/-- the part of a pass from `if (ch == '\r')` on -/
theorem bodyTail_good (isDefine : Bool) (t : BState) (ch : Ch) (hr : RInv t.r) (hpc : t.pc = .body)
    (hsz : t.buf.length + mpMacroSlack ≤ maxMacroLen)
    (hnt : ∀ nt, t.nameTest = some nt → nt ≤ t.buf.length ∧ isIdent ch) :
    Good BInv BPost (bodyTail isDefine t ch) := by
  have hc := macro_caps_fit
  have hlt : t.buf.length < mpMacroLen := by omega
  have hnone : ¬ isIdent ch → t.nameTest = none := by
    intro hni
    cases hn : t.nameTest with
    | none => rfl
    | some nt => exact absurd (hnt nt hn).2 hni
  have hnb : ∀ l, t.pc = .block l → t.buf.length > 0 := by
    intro l h'; rw [hpc] at h'; cases h'
  unfold bodyTail
  split
  · rename_i h13
    exact binv_none hr hsz (hnone (not_ident_of_eq 13 h13 (by decide))) hnb
  · split
    · rename_i h32
      exact binv_none hr hsz (hnone (not_ident_of_eq 32 h32.1 (by decide))) hnb
    · split
      · rename_i h92
        exact binv_none (s := { t with pc := .cont }) hr hsz (hnone (not_ident_of_eq 92 h92.1 (by decide)))
          (fun l h' => by cases h')
      · split
        · split
          · exact bfin_good _ hr hsz
          · split
            · exact ⟨hr, fun _ => by show t.buf.length + 1 < mpMacroLen; omega⟩
            · exact bodyPut_good t ch hr hpc hsz hnt
        · exact bodyPut_good t ch hr hpc hsz hnt

theorem take_length_le (l : List Nat) (n : Nat) : (l.take n).length ≤ n := by
  simp [List.length_take]; omega

/-- the parameter-name bookkeeping keeps the text short enough -/
theorem nameUpdate_good (params : List Nat) (s : BState) (ch : Ch) (h : BInv s) (hpc : s.pc = .body) :
    ∃ s1, nameUpdate params s ch = some s1 ∧ s1.r = s.r ∧ s1.pc = .body ∧
      s1.buf.length + mpMacroSlack ≤ maxMacroLen ∧
      (∀ nt, s1.nameTest = some nt → nt ≤ s1.buf.length ∧ isIdent ch) ∧
      (∀ nt, s1.nameTest = some nt → s1.buf.length + mpMacroSlack < maxMacroLen ∨ nt = s1.buf.length) := by
  have hc := macro_caps_fit
  have hsz := h.size
  unfold nameUpdate
  cases hn : s.nameTest with
  | none =>
    simp only
    split
    · rename_i hl
      exact ⟨_, rfl, rfl, hpc, hsz, (fun nt h' => by
        simp only [Option.some.injEq] at h'; subst h'
        refine ⟨Nat.le_refl _, ?_⟩
        rcases hl.1 with h1 | h1
        · exact Or.inl h1
        · exact Or.inr (Or.inr h1)),
        (fun nt h' => by simp only [Option.some.injEq] at h'; exact Or.inr h'.symm)⟩
    · exact ⟨_, rfl, rfl, hpc, hsz, (fun nt h' => by simp only [hn] at h'; cases h'),
        (fun nt h' => by simp only [hn] at h'; cases h')⟩
  | some nt0 =>
    have hnm := h.name nt0 hn
    simp only
    split
    · have hlt : s.buf.length < mpMacroLen := by omega
      simp only [hlt, if_true]
      split
      · have h1 : nt0 + 1 < mpMacroLen := by omega
        simp only [h1, if_true]
        refine ⟨_, rfl, rfl, hpc, ?_, (fun nt h' => by cases h'), (fun nt h' => by cases h')⟩
        have := take_length_le s.buf nt0
        simp only [List.length_append, List.length_cons, List.length_nil]
        omega
      · exact ⟨_, rfl, rfl, hpc, hsz, (fun nt h' => by cases h'), (fun nt h' => by cases h')⟩
    · rename_i hid
      refine ⟨_, rfl, rfl, hpc, hsz, (fun nt h' => ?_), (fun nt h' => ?_)⟩
      · simp only [hn, Option.some.injEq] at h'
        subst h'
        refine ⟨by show nt0 ≤ s.buf.length; omega, ?_⟩
        unfold isIdent
        simp only [Decidable.not_not] at hid
        rcases hid with h1 | h1 | h1
        · exact Or.inl h1
        · exact Or.inr (Or.inl h1)
        · exact Or.inr (Or.inr h1)
      · simp only [hn, Option.some.injEq] at h'
        subst h'
        exact Or.inl hnm.2

theorem bodyStep_good (isDefine : Bool) (params : List Nat) (s : BState) (h : BInv s) :
    Good BInv BPost (bodyStep isDefine params s) := by
  have hc := macro_caps_fit
  have hsz := h.size
  unfold bodyStep
  rcases getChar_spec h.rinv with he | ⟨ch0, r1, hg, hpost⟩
  · simp only [he]
    exact ⟨h.rinv, fun h' => by cases h'⟩
  · simp only [hg]
    have hr1 := hpost.inv
    unfold bodyBody
    cases hpc : s.pc with
    | comment b =>
      have hn := h.pcnone (by simp [hpc])
      simp only
      split
      · apply bodyTail_good
        · exact hr1
        · rfl
        · have := stripSpaces_length s.buf
          show (stripSpaces s.buf).length + mpMacroSlack ≤ maxMacroLen
          omega
        · intro nt h'; simp only [hn] at h'; cases h'
      · exact binv_none hr1 hsz hn (fun l h' => by cases h')
    | cont =>
      have hn := h.pcnone (by simp [hpc])
      simp only
      split
      · exact binv_none hr1 hsz hn (fun l h' => by cases h')
      · split
        · exact ⟨hr1, fun h' => by cases h'⟩
        · exact binv_none (s := { s with r := r1, pc := .body }) hr1 hsz hn (fun l h' => by cases h')
    | block last =>
      have hn := h.pcnone (by simp [hpc])
      have hne := h.blockne last hpc
      simp only
      split
      · cases hb : s.buf with
        | nil => rw [hb] at hne; simp at hne
        | cons b bs =>
          simp only
          apply binv_none (s := { r := r1, pc := .body, buf := (b :: bs).dropLast, nameTest := s.nameTest, inWord := s.inWord }) hr1 _ hn
            (fun l h' => by cases h')
          show (b :: bs).dropLast.length + mpMacroSlack ≤ maxMacroLen
          rw [hb] at hsz
          simp only [List.length_dropLast, List.length_cons] at hsz ⊢
          omega
      · exact binv_none (s := { s with r := r1, pc := .block (tabToSpace ch0) }) hr1 hsz hn
          (fun l _ => hne)
    | body =>
      simp only
      have hinv1 : BInv { s with r := r1 } := ⟨hr1, h.size, h.name, h.pcnone, h.blockne⟩
      obtain ⟨s1, hs1, e1, e2, e3, e4, e5⟩ := nameUpdate_good params { s with r := r1 } (tabToSpace ch0) hinv1 hpc
      rw [← hpc]
      simp only [hs1]
      have hr1' : RInv s1.r := by rw [e1]; exact hr1
      unfold bodyAfterName
      split
      · rename_i hcom
        -- ';' or the second '/': not part of a name, so no name is being collected
        have hni : ¬ isIdent (tabToSpace ch0) := by
          rcases hcom with h59 | h47
          · exact not_ident_of_eq 59 h59 (by decide)
          · exact not_ident_of_eq 47 h47.2.1 (by decide)
        have hn : s1.nameTest = none := by
          cases hn : s1.nameTest with
          | none => rfl
          | some nt => exact absurd (e4 nt hn).2 hni
        apply binv_none (s := { s1 with pc := .comment true, buf := _ }) hr1' _ hn (fun l h' => by cases h')
        show (if s1.buf.length > 0 ∧ s1.buf.getLast? = some 47 then s1.buf.dropLast else s1.buf).length
          + mpMacroSlack ≤ maxMacroLen
        split
        · simp only [List.length_dropLast]; omega
        · exact e3
      · exact bodyTail_good isDefine s1 _ hr1' e2 e3 e4

theorem bodyStep_ok (isDefine : Bool) (params : List Nat) : StepOk BInv BPost (bodyStep isDefine params) :=
  stepOk_of_good (bodyStep_good isDefine params)

end NakenVerif.Reader
