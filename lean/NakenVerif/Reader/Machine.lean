/-
  Small-step machines with an explicit `fault` outcome (property C16).

  Every loop of the reader / macro code is modelled as a `step` function that performs one pass
  of the C loop (at most one tokens_get_char).  `run` iterates it with fuel.  Two generic facts are
  proved once and instantiated for every loop:

  * `run_no_fault`   – an invariant that every step preserves and under which no step faults
                       keeps the whole run (any fuel, hence any input length) free of faults;
  * `run_terminates` – a natural-number measure that every step decreases bounds the number of
                       passes: with more fuel than the measure the run never runs out of fuel.
-/
namespace NakenVerif.Reader

/-- An index outside a C array (what the sanitizers report). -/
inductive Fault where
  | ungetOverflow        -- tokens.unget[unget_ptr++] with unget_ptr = sizeof(unget)
  | ungetUnderflow       -- tokens.unget[--unget_ptr] with unget_ptr = 0
  | markOverflow         -- tokens.unget_stack[++unget_stack_ptr] past the array
  | markUnderflow        -- tokens.unget_stack[unget_stack_ptr] with unget_stack_ptr < 0
  | macroStackOverflow   -- macros.stack[stack_ptr++] past the array
  | tokenOverflow        -- token[ptr] with ptr >= len
  | tokenUnderflow       -- token[ptr - 1] with ptr = 0
  | nameOverflow         -- name[] in macros_parse
  | paramsOverflow       -- params[] (macros_parse, macros_expand_params)
  | paramsPtrOverflow    -- params_ptr[] in macros_expand_params
  | macroBufOverflow     -- macro[] in macros_parse
  | macroBufUnderflow    -- macro[ptr - 1] with ptr = 0
  | arenaOverflow        -- def_param_stack_data[]
  | arenaPtrOverflow     -- def_param_stack_ptr[]
  | pushbackOverflow     -- strcpy into pushback[] / pushback2[]
  deriving DecidableEq, Repr, Inhabited

/-- Outcome of one pass of a loop. -/
inductive Step (σ ρ : Type) where
  | next (s : σ)         -- go round again
  | done (r : ρ)         -- the loop is left (normally or with a diagnosed error)
  | fault (f : Fault)    -- undefined behaviour in C
  deriving Repr

/-- Outcome of a whole run. -/
inductive Out (ρ : Type) where
  | done (r : ρ)
  | fault (f : Fault)
  | fuel                 -- the model ran out of fuel (never happens with enough fuel, see `run_terminates`)
  deriving Repr, DecidableEq

def run {σ ρ : Type} (step : σ → Step σ ρ) : Nat → σ → Out ρ
  | 0, _ => .fuel
  | n + 1, s =>
    match step s with
    | .next s' => run step n s'
    | .done r => .done r
    | .fault f => .fault f

/-- What a step may do under an invariant: never fault, keep the invariant, and deliver results
    that satisfy `Post`. -/
def StepOk {σ ρ : Type} (Inv : σ → Prop) (Post : ρ → Prop) (step : σ → Step σ ρ) : Prop :=
  ∀ s, Inv s →
    match step s with
    | .next s' => Inv s'
    | .done r => Post r
    | .fault _ => False

/-- the same, as a predicate on the outcome of one step (convenient for case analysis) -/
def Good {σ ρ : Type} (Inv : σ → Prop) (Post : ρ → Prop) : Step σ ρ → Prop
  | .next s' => Inv s'
  | .done r => Post r
  | .fault _ => False

theorem stepOk_of_good {σ ρ : Type} {Inv : σ → Prop} {Post : ρ → Prop} {step : σ → Step σ ρ}
    (h : ∀ s, Inv s → Good Inv Post (step s)) : StepOk Inv Post step := by
  intro s hs
  have := h s hs
  cases hst : step s with
  | next s' => simp only [hst, Good] at this; exact this
  | done r => simp only [hst, Good] at this; exact this
  | fault f => simp only [hst, Good] at this

theorem run_post {σ ρ : Type} {Inv : σ → Prop} {Post : ρ → Prop} {step : σ → Step σ ρ}
    (h : StepOk Inv Post step) :
    ∀ (fuel : Nat) (s : σ), Inv s →
      match run step fuel s with
      | .done r => Post r
      | .fault _ => False
      | .fuel => True := by
  intro fuel
  induction fuel with
  | zero => intro s _; simp [run]
  | succ n ih =>
    intro s hs
    have hstep := h s hs
    simp only [run]
    cases hst : step s with
    | next s' => simp only [hst] at hstep; exact ih s' hstep
    | done r => simp only [hst] at hstep; exact hstep
    | fault f => simp only [hst] at hstep

theorem run_no_fault {σ ρ : Type} {Inv : σ → Prop} {Post : ρ → Prop} {step : σ → Step σ ρ}
    (h : StepOk Inv Post step) (fuel : Nat) (s : σ) (hs : Inv s) (f : Fault) :
    run step fuel s ≠ .fault f := by
  have := run_post h fuel s hs
  intro hf
  simp only [hf] at this

theorem run_done_post {σ ρ : Type} {Inv : σ → Prop} {Post : ρ → Prop} {step : σ → Step σ ρ}
    (h : StepOk Inv Post step) (fuel : Nat) (s : σ) (hs : Inv s) (r : ρ)
    (hr : run step fuel s = .done r) : Post r := by
  have := run_post h fuel s hs
  simp only [hr] at this
  exact this

/-- Every pass that goes round again decreases the measure. -/
def Decreases {σ ρ : Type} (Inv : σ → Prop) (μ : σ → Nat) (step : σ → Step σ ρ) : Prop :=
  ∀ s s', Inv s → step s = .next s' → μ s' < μ s

theorem run_terminates {σ ρ : Type} {Inv : σ → Prop} {Post : ρ → Prop} {step : σ → Step σ ρ}
    {μ : σ → Nat} (hok : StepOk Inv Post step) (hdec : Decreases Inv μ step) :
    ∀ (fuel : Nat) (s : σ), Inv s → μ s < fuel → run step fuel s ≠ .fuel := by
  intro fuel
  induction fuel with
  | zero => intro s _ h; omega
  | succ n ih =>
    intro s hs hlt
    have hstep := hok s hs
    simp only [run]
    cases hst : step s with
    | next s' =>
      simp only [hst] at hstep
      have := hdec s s' hs hst
      exact ih s' hstep (by omega)
    | done r => simp
    | fault f => simp

/-- More fuel never changes a finished run. -/
theorem run_mono {σ ρ : Type} (step : σ → Step σ ρ) :
    ∀ (fuel : Nat) (s : σ) (o : Out ρ), run step fuel s = o → o ≠ .fuel →
      ∀ extra, run step (fuel + extra) s = o := by
  intro fuel
  induction fuel with
  | zero => intro s o h hne; simp [run] at h; exact absurd h.symm hne
  | succ n ih =>
    intro s o h hne extra
    have : n + 1 + extra = (n + extra) + 1 := by omega
    rw [this]
    simp only [run] at h ⊢
    cases hst : step s with
    | next s' => simp only [hst] at h ⊢; exact ih s' o h hne extra
    | done r => simp only [hst] at h ⊢; exact h
    | fault f => simp only [hst] at h ⊢; exact h

end NakenVerif.Reader
