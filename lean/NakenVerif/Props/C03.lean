import NakenVerif.FileIO.ProofsHex
import NakenVerif.FileIO.ProofsSrec
import NakenVerif.FileIO.BinImpl
import NakenVerif.FileIO.ProofsWdc
import NakenVerif.FileIO.ProofsReadHex
import NakenVerif.FileIO.ProofsReadSrec
import NakenVerif.FileIO.ProofsUf2
/-
C03 — every output format carries exactly the assembled memory image.

Property theorems for the formats whose writers are modelled (Intel HEX, Motorola S-record, raw
binary).  `Image.WF` is the only hypothesis on the image: `low + cells.length < 2^32` (and the entry point is 32-bit), i.e. the
addresses are 32-bit and `high_address ≠ 0xffffffff` (with that value the C loops never end — a
known finding, not a bound chosen here).  No bound on the number of segments, gaps or lengths.
-/
namespace NakenVerif.C03
open NakenVerif.FileIO

/-! ### Intel HEX -/

/-- Decoding the written file per the Intel HEX specification (which rejects any bad checksum,
record length, record type or missing EOF record) yields exactly the assembled bytes at exactly
their addresses, in ascending order — for every image. -/
theorem hex_roundtrip (img : Image) (h : img.WF) :
    HexSpec.decode (HexImpl.write img) = some img.writtenCells := by
  unfold HexSpec.decode HexImpl.write
  rw [HexSpec.decode_render _ (chunks_good img h), chunks_flat]

/-- per-record round trip: `write_hex_line`'s data record parses back (length and checksum valid)
for every 16-bit offset and every data of length < 256 -/
theorem hex_record_roundtrip (off : Nat) (d : List Byte) (ho : off < 65536) (hl : d.length < 256) :
    HexSpec.parseRecord (HexSpec.recLine 0 off (d.map (·.toNat))) =
      some ⟨d.length, off, 0, d.map (·.toNat)⟩ := by
  have := HexSpec.parseRecord_recLine 0 off (d.map (·.toNat)) (by omega) ho (by simpa using hl)
    (SrecSpec.bytes_lt d)
  simpa using this

/-! ### S-record -/

/-- Decoding the written file per the S-record description (count and checksum of every record
checked) yields exactly the assembled bytes at their addresses and the entry point — for every
image, every `srec_size` of cpu_list (SREC_16 / SREC_24 / SREC_32), every entry point and every
time stamp.  (Before the fixes 2daa5a8 and ed69657 this needed two exclusions.) -/
theorem srec_roundtrip (img : Image) (h : img.WF) (srecSize : Nat) (stamp : List Byte)
    (hst : stamp.length = 7) :
    SrecSpec.decode (SrecImpl.write img srecSize stamp) =
      some (img.writtenCells, if img.entry = 0xffffffff then none else some img.entry) :=
  SrecSpec.decode_write img h srecSize stamp (by omega)

/-- any 32-bit entry point round-trips through the S9 / S8 / S7 termination record -/
theorem srec_entry_roundtrip (e : Nat) (he : e < 2 ^ 32) (hne : e ≠ 0xffffffff) :
    SrecSpec.decode (SrecImpl.entryRecord e) = some ([], some e) := by
  unfold SrecSpec.decode
  rw [SrecSpec.decode_entry e he 0]
  simp [hne]

/-- with `srec_size = SREC_24` (S2 records forced) a line at an address ≥ 2^24 is written as an S3
record, below it as S2 -/
theorem srec_24_uses_s3 (a : Nat) :
    SrecImpl.lineType (SrecImpl.typeOfSrecSize 1) a = if a > 0xffffff then 3 else 2 := by
  simp [SrecImpl.lineType, SrecImpl.typeOfSrecSize]

/-- the former witnesses: a byte at 0x1000000 on an SREC_24 CPU, an entry point 0x12345 -/
example : SrecSpec.decode (SrecImpl.write { low := 0x1000000, cells := [some 7] } 1 []) = some ([(0x1000000, 7)], none) := by
  decide +kernel
example : SrecSpec.decode (SrecImpl.write { low := 0x12345, cells := [some 1], entry := 0x12345 } 0 []) =
    some ([(0x12345, 1)], some 0x12345) := by
  decide +kernel

/-! ### raw binary -/

/-- what a raw binary at start address `n` is expected to carry: the written bytes, gaps as zero -/
def filled : Nat → List (Option Byte) → List (Nat × Byte)
  | _, [] => []
  | n, none :: cs => (n, 0) :: filled (n + 1) cs
  | n, some b :: cs => (n, b) :: filled (n + 1) cs

theorem cellsAt_write (n : Nat) (cs : List (Option Byte)) :
    cellsAt n (cs.map (fun c => c.getD 0)) = filled n cs := by
  induction cs generalizing n with
  | nil => rfl
  | cons c cs ih => cases c <;> simp [cellsAt, filled, ih]

/-- The raw binary is the bytes from the lowest to the highest address with unwritten gaps as
zero: placing its bytes from `low` on gives `filled`, it has `high - low + 1` bytes. -/
theorem bin_roundtrip (img : Image) :
    cellsAt img.low (BinImpl.write img) = filled img.low img.cells ∧
    (BinImpl.write img).length = img.cells.length := by
  exact ⟨cellsAt_write _ _, by simp [BinImpl.write]⟩

/-- every assembled byte is in `filled`, and everything else in it is a zero inside `[low, high]` -/
theorem filled_frame (n : Nat) (cs : List (Option Byte)) :
    (∀ p ∈ cellsFrom n cs, p ∈ filled n cs) ∧
    (∀ p ∈ filled n cs, (p ∈ cellsFrom n cs ∨ p.2 = 0) ∧ n ≤ p.1 ∧ p.1 < n + cs.length) := by
  induction cs generalizing n with
  | nil => simp [cellsFrom, filled]
  | cons c cs ih =>
    obtain ⟨ih1, ih2⟩ := ih (n + 1)
    cases c with
    | none =>
      constructor
      · intro p hp; simp only [cellsFrom] at hp; simp only [filled, List.mem_cons]; exact Or.inr (ih1 p hp)
      · intro p hp
        simp only [filled, List.mem_cons] at hp
        rcases hp with rfl | hp
        · simp
        · obtain ⟨h1, h2, h3⟩ := ih2 p hp
          simp only [cellsFrom, List.length_cons]
          exact ⟨h1, by omega, by omega⟩
    | some b =>
      constructor
      · intro p hp
        simp only [cellsFrom, List.mem_cons] at hp
        simp only [filled, List.mem_cons]
        rcases hp with rfl | hp
        · exact Or.inl rfl
        · exact Or.inr (ih1 p hp)
      · intro p hp
        simp only [filled, List.mem_cons] at hp
        rcases hp with rfl | hp
        · simp [cellsFrom]
        · obtain ⟨h1, h2, h3⟩ := ih2 p hp
          simp only [cellsFrom, List.length_cons, List.mem_cons]
          refine ⟨?_, by omega, by omega⟩
          rcases h1 with h1 | h1
          · exact Or.inl (Or.inr h1)
          · exact Or.inr h1

/-- `read_bin` of the written file at `-address low` performs exactly the writes of `filled`,
and sets low/high to the image's range -/
theorem bin_read_write (img : Image) (h : img.WF) (hne : img.cells ≠ []) :
    BinImpl.read (BinImpl.write img) img.low = (filled img.low img.cells, img.low, img.high) := by
  unfold BinImpl.read
  have hlen : (BinImpl.write img).length = img.cells.length := by simp [BinImpl.write]
  have hpos : 0 < img.cells.length := List.length_pos_iff.mpr hne
  unfold Image.WF at h
  rw [hlen, (bin_roundtrip img).1]
  have hmap : (filled img.low img.cells).map (fun (p : Nat × Byte) => (p.1 % 2 ^ 32, p.2)) = filled img.low img.cells := by
    have := (filled_frame img.low img.cells).2
    calc (filled img.low img.cells).map (fun (p : Nat × Byte) => (p.1 % 2 ^ 32, p.2))
        = (filled img.low img.cells).map id := by
          apply List.map_congr_left
          intro p hp
          obtain ⟨_, h2, h3⟩ := this p hp
          show (p.1 % 2 ^ 32, p.2) = p
          rw [Nat.mod_eq_of_lt (by omega)]
      _ = filled img.low img.cells := List.map_id _
  have hhigh : (img.low + img.cells.length + (2 ^ 32 - 1)) % 2 ^ 32 = img.high := by
    unfold Image.high; omega
  simp only [hhigh]
  congr 1

/-! ### the repo's own loaders reproduce the image -/

/-- `read_hex` (the loader of naken_util) applied to the file `write_hex` wrote: return value 0,
the bytes stored by `write8` are exactly the written cells at their addresses, `low_address` and
`high_address` are the image's.  `img.Tight` = first and last cell of [low, high] are written (what
`Memory::write` guarantees).  (An Intel HEX file written by naken_asm carries no entry point.) -/
theorem hex_read_write (img : Image) (h : img.WF) (ht : img.Tight) :
    ReadImpl.readHex (HexImpl.write img) =
      { ret := 0, writes := img.writtenCells, low := img.low, high := img.high } :=
  NakenVerif.FileIO.hex_read_write img h ht

/-- `read_srec` applied to the file `write_srec` wrote, for every `srec_size`, entry point and
time stamp (the loader skips the S0 and S9/S8/S7 records, so the entry point is not loaded back). -/
theorem srec_read_write (img : Image) (h : img.WF) (ht : img.Tight) (srecSize : Nat) (stamp : List Byte)
    (hst : stamp.length = 7) :
    ReadImpl.readSrec (SrecImpl.write img srecSize stamp) =
      { ret := 0, writes := img.writtenCells, low := img.low, high := img.high } :=
  NakenVerif.FileIO.srec_read_write img h ht srecSize stamp hst

/-! ### WDC binary -/

/-- Decoding the written file per the WDC "Z" format description (signature, `<addr24><len24><data>`
blocks, lengths checked against the file) yields exactly the assembled bytes at their addresses, for
every image the format's 24-bit addresses can carry (any run length: blocks are split at 65536 bytes). -/
theorem wdc_roundtrip (img : Image) (_h : img.WF) (h24 : img.low + img.cells.length ≤ 2 ^ 24) :
    WdcSpec.decode (WdcImpl.write img) = some img.writtenCells :=
  WdcSpec.decode_write img h24

/-- `read_wdc` (naken_util) applied to the file `write_wdc` wrote: the bytes stored are exactly the
written cells, low/high are the image's, the return value is non-negative. -/
theorem wdc_read_write (img : Image) (_h : img.WF) (ht : img.Tight) (h24 : img.low + img.cells.length ≤ 2 ^ 24) :
    WdcImpl.read (WdcImpl.write img) =
      { ret := (img.low : Int), writes := img.writtenCells, low := img.low, high := img.high } :=
  WdcImpl.read_write img ht h24

/-! ### UF2 -/

/-- Exact content of the written file per the UF2 description (every block's magic numbers, payload
size ≤ 476, blockNo < numBlocks checked): the extra 0xEF block, then the bytes of [low, high] (gaps
as zero) and the zero padding of the last 256-byte payload, at consecutive addresses from `low`
(modulo 2^32), for every image. -/
theorem uf2_roundtrip (img : Image) (h : img.WF) :
    Uf2Spec.decode (Uf2Impl.write img) =
      some (cellsAt 0x10ffff00 (List.replicate 256 0xef) ++
            Uf2Spec.cellsMod img.low 0 (Uf2Spec.uf2Padded (img.cells.map (fun c => c.getD 0)))) :=
  Uf2Spec.uf2_decode_write img h

/-- filler reading of DESIGN.md: every address of [low, high] is carried with its assembled byte (0 in a gap) -/
theorem uf2_carries_image (img : Image) (h : img.WF) (i : Nat) (hi : i < img.cells.length) :
    ∃ cs, Uf2Spec.decode (Uf2Impl.write img) = some cs ∧ (img.low + i, (img.cells[i]'hi).getD 0) ∈ cs :=
  Uf2Spec.uf2_carries_image img h i hi

/-- the extra block is "other program bytes" (known finding uf2-ef-block): whatever was assembled,
the file also places 0xEF at 0x10ffff00 — e.g. for a one-byte program at 0x10 -/
theorem uf2_ef_block_counterexample :
    ∃ cs, Uf2Spec.decode (Uf2Impl.write { low := 0x10, cells := [some 1] }) = some cs ∧
      (0x10ffff00, (0xef : Byte)) ∈ cs ∧ ¬ (0x10 ≤ 0x10ffff00 ∧ 0x10ffff00 ≤ 0x10) := by
  obtain ⟨cs, h1, h2⟩ := Uf2Spec.uf2_ef_block_present { low := 0x10, cells := [some 1] } (by decide)
  exact ⟨cs, h1, h2, by omega⟩

/-- ... and the last block is padded: a zero byte is placed above `high` (known finding uf2-last-block-padded) -/
theorem uf2_padding_counterexample :
    ∃ cs, Uf2Spec.decode (Uf2Impl.write { low := 0x10, cells := [some 1] }) = some cs ∧ (0x11, (0 : Byte)) ∈ cs := by
  refine ⟨_, Uf2Spec.uf2_decode_write { low := 0x10, cells := [some 1] } (by decide), ?_⟩
  decide +kernel

/-! ### "no other program bytes" -/

theorem mem_cellsFrom (n : Nat) (cs : List (Option Byte)) (a : Nat) (b : Byte) :
    (a, b) ∈ cellsFrom n cs ↔ n ≤ a ∧ cs[a - n]? = some (some b) := by
  induction cs generalizing n with
  | nil => simp [cellsFrom]
  | cons c cs ih =>
    cases c with
    | none =>
      simp only [cellsFrom, ih]
      constructor
      · rintro ⟨h1, h2⟩
        refine ⟨by omega, ?_⟩
        rw [show a - n = (a - (n + 1)) + 1 by omega]; simpa using h2
      · rintro ⟨h1, h2⟩
        by_cases e : a = n
        · subst e; simp at h2
        · refine ⟨by omega, ?_⟩
          rw [show a - n = (a - (n + 1)) + 1 by omega] at h2; simpa using h2
    | some x =>
      simp only [cellsFrom, List.mem_cons, Prod.mk.injEq, ih]
      constructor
      · rintro (⟨rfl, rfl⟩ | ⟨h1, h2⟩)
        · simp
        · refine ⟨by omega, ?_⟩
          rw [show a - n = (a - (n + 1)) + 1 by omega]; simpa using h2
      · rintro ⟨h1, h2⟩
        by_cases e : a = n
        · subst e; simp at h2; exact Or.inl ⟨rfl, h2.symm⟩
        · right
          refine ⟨by omega, ?_⟩
          rw [show a - n = (a - (n + 1)) + 1 by omega] at h2; simpa using h2

/-- Frame property: an (address, byte) pair is carried by the HEX file iff that cell of the
image was written with that byte — no other program bytes. -/
theorem hex_no_other_bytes (img : Image) (h : img.WF) (a : Nat) (b : Byte) :
    (∃ cs, HexSpec.decode (HexImpl.write img) = some cs ∧ (a, b) ∈ cs) ↔
      (img.low ≤ a ∧ img.cells[a - img.low]? = some (some b)) := by
  rw [hex_roundtrip img h]
  simp only [Option.some.injEq, exists_eq_left']
  exact mem_cellsFrom img.low img.cells a b

/-! ### non-vacuity -/

def demo : Image :=
  { low := 0xfff8,
    cells := (List.range 12).map (fun i => some (UInt8.ofNat (i + 1))) ++ [none, none, none] ++
             [some 0xaa, some 0xbb],
    entry := 0xfff8 }

example : demo.WF := by decide
example : demo.Tight := ⟨⟨1, _, rfl⟩, ⟨0xbb, by decide⟩⟩
example : HexImpl.write demo =
    ":08FFF8000102030405060708DD\n:020000040001F9\n:04000000090A0B0CD2\n:02000700AABB92\n:00000001FF\n".toList := by
  decide +kernel
example : HexSpec.decode (HexImpl.write demo) = some demo.writtenCells := hex_roundtrip demo (by decide)
example : demo.writtenCells.length = 14 := by decide +kernel
example : (SrecSpec.decode (SrecImpl.write demo 0 [0x20, 0x26, 8, 0x29, 0x14, 0x18, 0x57])).isSome = true := by
  rw [srec_roundtrip demo (by decide) 0 _ rfl]; rfl
example : SrecImpl.body none demo.chunks ++ SrecImpl.entryRecord demo.entry =
    "S10BFFF80102030405060708D9\nS208010000090A0B0CCC\nS206010007AABB8C\nS903fff805\n".toList := by
  decide +kernel
example : WdcImpl.write { low := 0x10, cells := [some 1, some 2, none, some 0xff] } =
    [0x5a, 0x10, 0, 0, 2, 0, 0, 1, 2, 0x13, 0, 0, 1, 0, 0, 0xff] := by decide
example : BinImpl.write { low := 0x10, cells := [some 1, some 2, none, none, none, some 0xff] } = [1, 2, 0, 0, 0, 0xff] := by
  decide

end NakenVerif.C03
