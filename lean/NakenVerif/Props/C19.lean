/-
C19 — naken_util memory commands address the same bytes as loader and simulator.

Property theorems only (lemmas: `Util/Proofs*.lean`, `Memory/Proofs.lean`).  The model (`Util/Impl.lean`,
`Util/Session.lean`) mirrors core/UtilContext.cpp and the command loop of main/naken_util.cpp as of the `fix:`
commits C19-1 … C19-9; the specification side (`Util/Spec.lean`) is written from the property text: numerals and
their values, the byte sequence of a datum in the CPU's byte order, the listing of a range.

No theorem bounds the number of digits of a numeral, the number of data of a write, an address or a value.  The
hypotheses that do occur are the ones the statement itself needs: "the written range fits into the 32-bit address
space" (otherwise later data overwrite earlier ones) and "no symbol is spelled like the number".
-/
import NakenVerif.Util.ProofsSession
import NakenVerif.Generated.UtilCommands
import NakenVerif.Generated.CpuList

namespace NakenVerif.Util.C19
open NakenVerif.Memory NakenVerif.Util NakenVerif.Util.Spec

/-! ## numbers -/

/-- Every numeral of every length — decimal, negative decimal, `0x…`, `…h`, upper or lower case digits — that is
followed by the end of the line or a blank parses to the value it denotes (mod 2^32), after any number of blanks;
the pointer returned is the separator (behind it for `0x…`). -/
theorem get_num_parses (k : Nat) (n : Numeral) (hwf : n.wellFormed) (rest : CStr) (hrest : Sep rest) :
    getNum (List.replicate k ' ' ++ (n.text ++ rest)) =
      .ok n.value32 (if n.swallowsBlank then rest.drop 1 else rest) :=
  getNum_numeral k n hwf rest hrest

example : getNum "  0x1f 7".toList = .ok 31#32 ['7'] := by decide
example : getNum "30h 7".toList = .ok 48#32 " 7".toList := by decide
example : getNum "-2".toList = .ok 0xfffffffe#32 [] := by decide
example : (Numeral.hexh [⟨1, false⟩, ⟨15, true⟩]).text = "1Fh".toList ∧
    (Numeral.hexh [⟨1, false⟩, ⟨15, true⟩]).value32 = 31#32 := by decide

/-- The value of a numeral is positional: appending a digit multiplies by the base and adds the digit. -/
theorem numeral_value_positional (ds : List (Fin 10)) (d : Fin 10) :
    (Numeral.dec (ds ++ [d])).value = (Numeral.dec ds).value * 10 + d.val := by
  simp [Numeral.value, positional, List.foldl_append]

/-- Decimal digits followed by junk are rejected with "Illegal number" … -/
theorem get_num_rejects_decimal_junk (ds : List (Fin 10)) (hne : ds ≠ []) (c : Char) (tail : CStr)
    (hc : decDigit c = none) (h1 : c ≠ ' ') (h2 : c ≠ '-') (hx : c ≠ 'x')
    (hh : lastOfWord (ds.map decChar ++ c :: tail) ≠ some 'h') :
    getNum (ds.map decChar ++ c :: tail) = .illegal :=
  getNum_dec_junk ds hne c tail hc h1 h2 hh hx

example : getNum "12z".toList = .illegal := by decide

/-- … and so are `0x` digits followed by junk. -/
theorem get_num_rejects_hex_junk (ds : List HexDig) (c : Char) (tail : CStr)
    (hc : hexDigit c = none) (h1 : c ≠ ' ') (h2 : c ≠ '-') (h3 : c ≠ 'h') :
    getNum ('0' :: 'x' :: (ds.map HexDig.char ++ c :: tail)) = .illegal :=
  getNum_hex_junk ds c tail hc h1 h2 h3

example : getNum "0x1g".toList = .illegal := by decide

/-- Every number that is accepted consumes at least one character, so the loop of `write*` ends on every line. -/
theorem write_never_hangs (w : Width) (m : Memory) (a : BitVec 32) (c : Nat) (token : CStr) :
    (writeLoop w m a c token).2.2.2 = false :=
  writeLoop_never_hangs w m a c token

example : getNum "-h".toList = .illegal := by decide

/-! ## addresses and ranges -/

/-- A typed address is its value times bytes_per_address; a symbol is looked up by the first word and scaled the
same way. -/
theorem get_address_scales (cx : Ctx) (rest : CStr) (hrest : Sep rest) :
    (∀ (n : Numeral), n.wellFormed → cx.lookup n.text = none →
      getAddress cx (n.text ++ rest) = .ok (n.value32 * cx.bpa) (if n.swallowsBlank then rest.drop 1 else rest)) ∧
    (∀ (name : CStr) (v : BitVec 32), name ≠ [] → (∀ c ∈ name, c ≠ ' ') → cx.lookup name = some v →
      getAddress cx (name ++ rest) = .ok (v * cx.bpa) rest) :=
  ⟨fun n hwf hs => getAddress_numeral cx n hwf rest hrest hs,
   fun name v hne hn hs => getAddress_symbol cx name hne hn rest hrest v hs⟩

/-- Scaling is undone by the label that is printed: an address in units comes back as typed. -/
theorem address_units_roundtrip (a bpa : BitVec 32) (hb : 0 < bpa.toNat) (hfit : a.toNat * bpa.toNat < 4294967296) :
    a * bpa / bpa = a := by
  apply BitVec.eq_of_toNat_eq
  have : (a * bpa).toNat = a.toNat * bpa.toNat := by
    simp only [BitVec.toNat_mul]; omega
  rw [BitVec.toNat_udiv, this, Nat.mul_div_cancel _ hb]

/-- `a`, `a-` and `a-b` (words: non-negative numerals or symbol names) select start and end:
a single address is start = end, an open end is the last byte of the image, `a-b` is the pair. -/
theorem range_selects (cx : Ctx) (w1 w2 : CStr) (hw1 : IsWord w1) (hw2 : IsWord w2) (A B : BitVec 32)
    (r1 r2 : CStr) (h1 : getAddress cx w1 = .ok A r1) (h2 : getAddress cx w2 = .ok B r2) :
    getRange cx w1 = (some (A, A), false) ∧
    getRange cx (w1 ++ ['-']) = (some (A, cx.mem.highAddress), false) ∧
    getRange cx (w1 ++ '-' :: w2) = (some (A, B), false) :=
  ⟨getRange_single cx w1 hw1 A r1 h1, getRange_open cx w1 hw1 A r1 h1,
   getRange_pair cx w1 w2 hw1 hw2 A B r1 r2 h1 h2⟩

def cxDemo : Ctx := { mem := Memory.init, bpa := 2, alignment := 2, lookup := fun n => if n = "tab".toList then some 0x12 else none }

example : getRange cxDemo "0x10-tab".toList = (some (0x20#32, 0x24#32), false) := by decide
example : getRange cxDemo "10h-".toList = (some (0x20#32, 0#32), false) := by decide

/-- `disasm a-b` hands exactly these two byte addresses to the disassembler. -/
theorem disasm_range_selects (cx : Ctx) (w1 w2 : CStr) (hw1 : IsWord w1) (hw2 : IsWord w2) (A B : BitVec 32)
    (r1 r2 : CStr) (h1 : getAddress cx w1 = .ok A r1) (h2 : getAddress cx w2 = .ok B r2) :
    cmdDisasm cx (w1 ++ '-' :: w2) = [.disasmRange A B] :=
  cmdDisasm_pair cx w1 w2 hw1 hw2 A B r1 r2 h1 h2

example : cmdDisasm cxDemo "0x10-tab".toList = [.disasmRange 0x20#32 0x24#32] := by decide

/-! ## write -/

/-- `write/write16/write32 <address> <data>..` typed as numerals of any spelling and length: the image afterwards
is the image with the values stored one after the other from address × bytes_per_address on, the count is
reported and nothing else is printed.  The same with a symbol as the address. -/
theorem write_stores_values (w : Width) (cx : Ctx) (ns : List Numeral) (hwf : ∀ n ∈ ns, n.wellFormed) :
    (∀ (a : Numeral), a.wellFormed → cx.lookup a.text = none →
      misaligned w cx.alignment (a.value32 * cx.bpa) = false →
      cmdWrite w cx (a.text ++ renderArgs ns) =
        ({ cx with mem := writeVals w cx.mem (a.value32 * cx.bpa) (ns.map Numeral.value32) },
         [.wrote ns.length (a.value32 * cx.bpa / cx.bpa)])) ∧
    (∀ (name : CStr) (v : BitVec 32), name ≠ [] → (∀ c ∈ name, c ≠ ' ') → cx.lookup name = some v →
      misaligned w cx.alignment (v * cx.bpa) = false →
      cmdWrite w cx (name ++ renderArgs ns) =
        ({ cx with mem := writeVals w cx.mem (v * cx.bpa) (ns.map Numeral.value32) },
         [.wrote ns.length (v * cx.bpa / cx.bpa)])) :=
  ⟨fun a ha hs hal => cmdWrite_numerals w cx a ha ns hwf hs hal,
   fun name v hne hn hs hal => cmdWrite_symbol w cx name hne hn v hs ns hwf hal⟩

/-- 8/16/32-bit writes are the store of the byte sequence of the data in the CPU's byte order: least significant
byte first on a little endian CPU, most significant first on a big endian one. -/
theorem write_is_byte_sequence (w : Width) (m : Memory) (a : BitVec 32) (vs : List (BitVec 32)) :
    writeVals w m a vs = loadBin m a (flatBytes m.bigEndian w vs) :=
  writeVals_eq_loadBin w m a vs

example : flatBytes true .w16 [0x1234#32, 0xabcd#32] = [0x12#8, 0x34#8, 0xab#8, 0xcd#8] := by decide
example : flatBytes false .w32 [0x12345678#32] = [0x78#8, 0x56#8, 0x34#8, 0x12#8] := by decide

/-- Byte `i` of the sequence is at address `a + i` (for a sequence that fits into the address space) … -/
theorem written_bytes_at (m : Memory) (a : BitVec 32) (bs : List (BitVec 8)) (i : Nat) (hi : i < bs.length)
    (hfit : bs.length ≤ 4294967296) : read8 (loadBin m a bs) (a + BitVec.ofNat 32 i) = bs[i] :=
  read8_loadBin_at m a bs i hi hfit

/-- … and every other address keeps its byte (frame). -/
theorem write_frame (w : Width) (m : Memory) (a : BitVec 32) (vs : List (BitVec 32)) (x : BitVec 32)
    (h : ∀ i, i < nbytes w * vs.length → x ≠ a + BitVec.ofNat 32 i) :
    read8 (writeVals w m a vs) x = read8 m x :=
  read8_writeVals_frame w m a vs x h

example : read8 (writeVals .w16 Memory.init 0xffff#32 [0x1234#32]) 0x10001#32 = read8 Memory.init 0x10001#32 :=
  write_frame _ _ _ _ _ (by
    intro i hi
    simp only [nbytes, List.length_cons, List.length_nil] at hi
    have : i = 0 ∨ i = 1 := by omega
    rcases this with h | h <;> subst h <;> decide)

/-! ## write, then print -/

/-- The loop of `print/print16/print32` prints the listing of the specification for every range: the values at
`start`, `start + n`, … below the bound, a row label (byte address / bytes_per_address) every 16 bytes. -/
theorem print_loop_is_listing (w : Width) (m : Memory) (bpa s e : BitVec 32) (hle : s ≤ e) :
    printLoop w m bpa s e 0 = listing w m bpa s ((e.toNat - s.toNat + nbytes w - 1) / nbytes w) 0 :=
  printLoop_listing w m bpa _ s e 0 0 rfl hle (by simp)

/-- Round trip: after `write* <address> <data>..` the listing of the written range shows exactly the data that were
typed (reduced to the width of the command), for every address, width, byte order, bytes_per_address and every
list of data that fits below 2^32. -/
theorem write_then_print (w : Width) (cx : Ctx) (a : Numeral) (ha : a.wellFormed) (ns : List Numeral)
    (hwf : ∀ n ∈ ns, n.wellFormed) (hsym : cx.lookup a.text = none)
    (hal : misaligned w cx.alignment (a.value32 * cx.bpa) = false)
    (hfit : (a.value32 * cx.bpa).toNat + nbytes w * ns.length < 4294967296) :
    let A := a.value32 * cx.bpa
    let cx' := (cmdWrite w cx (a.text ++ renderArgs ns)).1
    vals (printLoop w cx'.mem cx'.bpa A (A + BitVec.ofNat 32 (nbytes w * ns.length)) 0) =
      ns.map (fun n => datum w n.value32) := by
  intro A cx'
  have hw := cmdWrite_numerals w cx a ha ns hwf hsym hal
  have hmem : cx'.mem = writeVals w cx.mem A (ns.map Numeral.value32) := by
    show (cmdWrite w cx (a.text ++ renderArgs ns)).1.mem = _
    rw [hw]
  have hA := A.isLt
  have hnb := nbytes_pos w
  have hfit' : A.toNat + nbytes w * ns.length < 4294967296 := hfit
  have hend : (A + BitVec.ofNat 32 (nbytes w * ns.length)).toNat = A.toNat + nbytes w * ns.length := by
    simp only [BitVec.toNat_add, BitVec.toNat_ofNat]; omega
  have hle : A ≤ A + BitVec.ofNat 32 (nbytes w * ns.length) := by
    simp only [BitVec.le_def, hend]; omega
  rw [print_loop_is_listing w _ _ _ _ hle, hend, hmem]
  have hcnt : (A.toNat + nbytes w * ns.length - A.toNat + nbytes w - 1) / nbytes w = (ns.map Numeral.value32).length := by
    rw [List.length_map]
    have : A.toNat + nbytes w * ns.length - A.toNat + nbytes w - 1 = nbytes w - 1 + nbytes w * ns.length := by omega
    rw [this, Nat.add_mul_div_left _ _ (by omega), Nat.div_eq_of_lt (by omega)]
    omega
  rw [hcnt, vals_listing_writeVals w _ (ns.map Numeral.value32) cx.mem A 0 (by rw [List.length_map]; omega)]
  simp [List.map_map]

/-- pointwise form: value `k` of the command is the datum at `address + k * n` afterwards -/
theorem written_value_at (w : Width) (m : Memory) (a : BitVec 32) (vs : List (BitVec 32)) (k : Nat)
    (hk : k < vs.length) (hfit : a.toNat + nbytes w * vs.length ≤ 4294967296) :
    loadVal w (writeVals w m a vs) (a + BitVec.ofNat 32 (k * nbytes w)) = datum w vs[k] :=
  loadVal_writeVals w vs m a k hk hfit

/-! ## print of a range -/

/-- `print a-b` with `a < b` lists from the first byte of address `a` to the last byte of address `b`
(inclusive, like `disasm`), in rows labelled in address units. -/
theorem print_range_inclusive (w : Width) (cx : Ctx) (w1 w2 : CStr) (hw1 : IsWord w1) (hw2 : IsWord w2)
    (A B : BitVec 32) (r1 r2 : CStr) (h1 : getAddress cx w1 = .ok A r1) (h2 : getAddress cx w2 = .ok B r2)
    (hal : misaligned w cx.alignment A = false) (hlt : A < B) (hbpa : 0 < cx.bpa.toNat)
    (hmul : B.toNat % cx.bpa.toNat = 0) (hfit : B.toNat + cx.bpa.toNat < 4294967296) :
    cmdPrint w cx (w1 ++ '-' :: w2) =
      listing w cx.mem cx.bpa A ((B.toNat + cx.bpa.toNat - A.toNat + nbytes w - 1) / nbytes w) 0 := by
  rw [cmdPrint_pair w cx w1 w2 hw1 hw2 A B r1 r2 h1 h2, printBound_range cx.bpa A B hlt hbpa hmul hfit]
  simp only [hal, Bool.false_eq_true, if_false]
  have hB := B.isLt
  have hend : (B + cx.bpa).toNat = B.toNat + cx.bpa.toNat := by
    simp only [BitVec.toNat_add]; omega
  have hle : A ≤ B + cx.bpa := by
    simp only [BitVec.le_def, BitVec.lt_def, hend] at *; omega
  rw [print_loop_is_listing w _ _ _ _ hle, hend]

/-- `print a` and `print a-b` with `b ≤ a` (a reversed range) list 128 bytes from `a`. -/
theorem print_default_length (w : Width) (cx : Ctx) (w1 w2 : CStr) (hw1 : IsWord w1) (hw2 : IsWord w2)
    (A B : BitVec 32) (r1 r2 : CStr) (h1 : getAddress cx w1 = .ok A r1) (h2 : getAddress cx w2 = .ok B r2)
    (hal : misaligned w cx.alignment A = false) (hfit : A.toNat + 128 < 4294967296) :
    cmdPrint w cx w1 = listing w cx.mem cx.bpa A ((128 + nbytes w - 1) / nbytes w) 0 ∧
    (B ≤ A → cmdPrint w cx (w1 ++ '-' :: w2) = listing w cx.mem cx.bpa A ((128 + nbytes w - 1) / nbytes w) 0) := by
  have hA := A.isLt
  have hend : (A + 128).toNat = A.toNat + 128 := by
    simp only [BitVec.toNat_add]; simp; omega
  have hle : A ≤ A + 128 := by simp only [BitVec.le_def, hend]; omega
  have hd : (A + 128).toNat - A.toNat = 128 := by omega
  constructor
  · unfold cmdPrint
    rw [getRange_single cx w1 hw1 A r1 h1]
    simp only [hal, Bool.false_eq_true, if_false]
    rw [printBound_default cx.bpa A A (by simp only [ge_iff_le, BitVec.le_def]; omega)]
    rw [print_loop_is_listing w _ _ _ _ hle, hd]
  · intro hBA
    rw [cmdPrint_pair w cx w1 w2 hw1 hw2 A B r1 r2 h1 h2, printBound_default cx.bpa A B hBA]
    simp only [hal, Bool.false_eq_true, if_false]
    rw [print_loop_is_listing w _ _ _ _ hle, hd]

example : cmdPrint .w16 cxDemo "0x10-0x11".toList =
    [.row 0x10#32, .val 0#32, .val 0#32] := by
  have := print_range_inclusive .w16 cxDemo "0x10".toList "0x11".toList (by unfold IsWord; decide)
    (by unfold IsWord; decide) 0x20#32 0x22#32 [] []
    (by decide) (by decide) (by decide) (by decide) (by decide) (by decide) (by decide)
  have e : "0x10-0x11".toList = "0x10".toList ++ '-' :: "0x11".toList := by decide
  rw [e, this]
  simp [listing, nbytes, perRow, loadVal, cxDemo, read16, read8_init]

/-! ## the simulator and `asm` share the image -/

/-- MSP430: what the simulator fetches at PC = the address of the `k`-th datum of a `write16` is that datum. -/
theorem sim_fetch_agrees (m : Memory) (hle : m.bigEndian = false) (A : BitVec 32) (vs : List (BitVec 32))
    (k : Nat) (hk : k < vs.length) (hfit : A.toNat + 2 * vs.length ≤ 4294967296)
    (s : Msp430.Sim.SimState) (hmem : s.mem = simView (writeVals .w16 m A vs))
    (hpc : (Msp430.Sim.getReg s.regs 0).zeroExtend 32 = A + BitVec.ofNat 32 (k * 2)) :
    Msp430.Sim.fetch s = (vs[k]).setWidth 16 :=
  sim_fetch_writeVals m hle A vs k hk hfit s hmem hpc

def simDemo : Msp430.Sim.SimState :=
  ⟨Msp430.Sim.setReg 0 0 0x202#16, simView (writeVals .w16 Memory.init 0x200#32 [0x4035#32, 0x1234#32]), 0, 0,
    0xffffffff#32⟩

example : Msp430.Sim.fetch simDemo = 0x1234#16 :=
  sim_fetch_agrees Memory.init rfl 0x200#32 _ 1 (by decide) (by decide) simDemo rfl (by decide)

/-- After an `asm` block the shared image holds the assembler's bytes on `low..high` of the assembled image and
is unchanged outside. -/
theorem asm_copies_image (cx : Ctx) (src : Memory) (asmBpa org x : BitVec 32)
    (hle : src.lowAddress ≤ src.highAddress) :
    read8 (afterAssemble cx src asmBpa org).1.mem x =
      if src.lowAddress ≤ x ∧ x ≤ src.highAddress then read8 src x else read8 cx.mem x :=
  afterAssemble_spec cx src asmBpa org x hle

/-- The next `asm` block starts behind this one, in address units. -/
theorem asm_next_org (cx : Ctx) (src : Memory) (asmBpa org : BitVec 32) :
    (afterAssemble cx src asmBpa org).2 =
      if src.lowAddress ≤ src.highAddress then (src.highAddress + 1) / asmBpa else org := rfl

/-- `-bin -address a`: byte `i` of the file lands at byte address `a + i`. -/
theorem bin_load_places (m : Memory) (a : BitVec 32) (bs : List (BitVec 8)) (i : Nat) (hi : i < bs.length)
    (hfit : bs.length ≤ 4294967296) : read8 (readBin m a bs) (a + BitVec.ofNat 32 i) = bs[i] :=
  readBin_places m a bs i hi hfit

/-! ## regenerated data the statements above rest on -/

/-- The command table of the session model is `command_names[]` of main/naken_util.cpp as regenerated on this run. -/
theorem command_table_matches : commandTable = Generated.utilCommands := by decide

/-- Every CPU of the regenerated cpu_list has a positive bytes_per_address (the hypothesis of
`print_range_inclusive` and `address_units_roundtrip`), and the MSP430 is little endian with one byte per address
(the hypothesis of `sim_fetch_agrees`). -/
theorem cpu_list_units : (∀ c ∈ Generated.cpuList, 0 < c.bytesPerAddress ∧ c.bytesPerAddress ≤ 8) ∧
    (∀ c ∈ Generated.cpuList, c.name = "msp430" → c.bigEndian = false ∧ c.bytesPerAddress = 1) := by
  decide

/-! ## findings left in the code (known_findings.json), on concrete witnesses -/

/-- FINDING asm-gap-zero-filled: `assemble_code` copies every address between the lowest and the highest byte of
the block, so a gap between two `.org` sections of one block overwrites the shared image with 0. -/
theorem asm_gap_zero_filled_counterexample :
    let dst := write8 Memory.init 0x11#32 0x55#8
    let src := write8 (write8 Memory.init 0x10#32 1#8) 0x12#32 2#8
    let cx : Ctx := { mem := dst, bpa := 1, alignment := 1, lookup := fun _ => none }
    read8 cx.mem 0x11#32 = 0x55#8 ∧ read8 (afterAssemble cx src 1 0).1.mem 0x11#32 = 0#8 := by
  intro dst src cx
  constructor
  · simp [cx, dst, read8_write8]
  · have hl : src.lowAddress = 0x10#32 := by
      simp [src, write8_low, Memory.init, Generated.memoryInitLow]
    have hh : src.highAddress = 0x12#32 := by
      simp [src, write8_high, Memory.init, Generated.memoryInitHigh]
    rw [asm_copies_image cx src 1 0 0x11#32 (by rw [hl, hh]; decide), hl, hh, if_pos (by decide)]
    simp only [src, read8_write8, read8_init]
    decide

/-- FINDING bin-address-in-bytes: `-address` is a byte address while every command counts in address units, so on
a CPU with 2 bytes per address the file is not at the address that was given. -/
theorem bin_address_in_bytes_counterexample :
    let m := readBin Memory.init 0x100#32 [0xaa#8]
    let cx : Ctx := { mem := m, bpa := 2, alignment := 2, lookup := fun _ => none }
    read8 m 0x100#32 = 0xaa#8 ∧
    getAddress cx "0x100".toList = .ok 0x200#32 [] ∧ read8 m 0x200#32 = 0#8 := by
  intro m cx
  refine ⟨?_, by decide, ?_⟩
  · have := bin_load_places Memory.init 0x100#32 [0xaa#8] 0 (by decide) (by decide)
    simpa using this
  · have : read8 m 0x200#32 = read8 (loadBin Memory.init 0x100#32 [0xaa#8]) 0x200#32 := rfl
    rw [this, read8_loadBin_frame _ _ _ _ (by intro i hi; simp at hi; subst hi; decide)]
    exact read8_init _

/-- FINDING print-top-of-memory: the bound of the print loop is a 32-bit address, so the byte at 0xffffffff is never
listed: `print 0xfffffffe-0xffffffff` shows one byte. -/
theorem print_top_byte_counterexample (m : Memory) :
    vals (printLoop .w8 m 1 0xfffffffe#32 (printBound 1 0xfffffffe#32 0xffffffff#32) 0) =
      [(read8 m 0xfffffffe#32).setWidth 32] := by
  have hb : printBound 1 0xfffffffe#32 0xffffffff#32 = 0xffffffff#32 := by decide
  rw [hb, print_loop_is_listing .w8 m 1 _ _ (by decide)]
  simp [listing, nbytes, perRow, vals, loadVal]

/-- FINDING low-address-sentinel: `low_address == 0xffffffff` means "nothing loaded", so an image whose only byte is
at 0xffffffff is not disassembled by `disasm` without a range. -/
theorem disasm_all_top_sentinel_counterexample (v : BitVec 8) :
    let cx : Ctx := { mem := write8 Memory.init 0xffffffff#32 v, bpa := 1, alignment := 1, lookup := fun _ => none }
    read8 cx.mem 0xffffffff#32 = v ∧ cmdDisasmAll cx = [] := by
  intro cx
  constructor
  · simp [cx, read8_write8]
  · have hl : cx.mem.lowAddress = 0xffffffff#32 := by
      simp [cx, write8_low, Memory.init, Generated.memoryInitLow]
    simp [cmdDisasmAll, hl]

/-- an int32 needs 4 byte alignment at most, whatever the CPU's instruction alignment is (fix C19-9) -/
theorem write32_alignment_at_most_4 (alignment address : BitVec 32) (h : address &&& 3 = 0) :
    misaligned .w32 alignment address = false := by
  have : address &&& ((alignment - 1) &&& 3) = 0 := by bv_decide
  simp only [misaligned, this, ne_eq, not_true_eq_false, decide_false]

end NakenVerif.Util.C19
