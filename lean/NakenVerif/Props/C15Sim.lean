/-
  C15, further simulators (tms1000, 8008, lc3): one step is total and fault-free on the model whose
  every C array access is checked, re-establishes the invariant the simulator itself maintains (so no run of any
  length faults), writes only inside the simulated address space, and reads nothing outside the modelled state.
  Proofs live in NakenVerif/Sim/*Proofs.lean; this file only states the property theorems.
-/
import NakenVerif.Sim.Tms1000Pc
import NakenVerif.Sim.I8008Proofs
import NakenVerif.Sim.Lc3Proofs
import NakenVerif.Sim.M6502Proofs
import NakenVerif.Sim.StubsImpl
import NakenVerif.Sim.C1802Proofs

namespace NakenVerif.C15
open NakenVerif.Sim

/-! ### tms1000 -/

/-- **tms1000: one step is total and fault-free and keeps the invariant.**  For every state inside `Tms1000.Inv`
    (PC 6 bits, PA/PB/A/Y and all 64 RAM cells one nibble, X two bits: the ranges `reset`, `set_reg`, `set_pc` and the
    step keep) and every memory content, the step returns 0 or -1 — never the model's `fault`, i.e. no access outside
    `ram[64]`, `tms1000_reverse_constant[16]`, `tms1000_reverse_bit_address[4]`, `tms1000_lsfr_to_address[64]` (sizes and
    contents of the regenerated tables) and no shift by ≥ 32 — and the new state is inside the invariant. -/
theorem tms1000_step_total_no_fault (m : Mem) (s : Tms1000.State) (h : Tms1000.Inv s) :
    ∃ o, Tms1000.step m s = .ok o ∧ Tms1000.Inv o.state ∧ (o.ret = 0 ∨ o.ret = -1) :=
  Tms1000.step_ok m s h

/-- the invariant holds after `reset()` and is kept by `set_reg` / `set_pc` with arbitrary arguments -/
theorem tms1000_invariant_established (s : Tms1000.State) (name : String) (v : BitVec 32) :
    Tms1000.Inv (Tms1000.reset s) ∧ (Tms1000.Inv s → Tms1000.Inv (Tms1000.setReg s name v)) ∧
      (Tms1000.Inv s → Tms1000.Inv (Tms1000.setPc s v)) :=
  ⟨Tms1000.reset_inv s, Tms1000.setReg_inv s name v, Tms1000.setPc_inv s v⟩

/-- no run of any length faults (memory may even change arbitrarily between the steps) -/
theorem tms1000_run_no_fault (m : Nat → Mem) (n : Nat) (s : Tms1000.State) (h : Tms1000.Inv s) :
    ∃ s', Tms1000.runN m n s = .ok s' ∧ Tms1000.Inv s' :=
  Tms1000.runN_ok m n s h

/-- The step is a function of (memory, state); the state contains the static `stop_running`, `cycle_count` and the
    `show` flag, and the step does not even depend on the old `stop_running` (`run` clears it first). -/
theorem tms1000_no_hidden_input (m : Mem) (s : Tms1000.State) (b : Bool) :
    Tms1000.step m { s with stopRunning := b } = Tms1000.step m s :=
  Tms1000.step_ignores_stop_running m s b

/-- the tms1000 step writes no simulated memory at all (its RAM is the private `ram[64]`) -/
theorem tms1000_no_memory_write (m : Mem) (s : Tms1000.State) (o : StepOut Tms1000.State)
    (h : Tms1000.step m s = .ok o) : o.writes = [] := by
  unfold Tms1000.step at h
  dsimp only at h
  cases he : Tms1000.execute { s with stopRunning := false, pc := Tms1000.t8 (Tms1000.incrementPc (Tms1000.z s.pc)) }
      (m ((Tms1000.z s.pa <<< 6) ||| Tms1000.z s.pc)) 1 with
  | fault w => rw [he] at h; exact absurd h (by simp)
  | ok e =>
    rw [he] at h
    simp only [Chk.bind_ok] at h
    split at h
    · cases hs : Tms1000.showLoop 10 (Tms1000.z s.pc) with
      | fault w => rw [hs] at h; exact absurd h (by simp)
      | ok u => rw [hs] at h; simp only [Chk.bind_ok, Chk.pure_eq] at h; injection h with h; subst h; rfl
    · simp only [Chk.bind_ok, Chk.pure_eq] at h; injection h with h; subst h; rfl

/-- **tms1000: PC after a non-branching instruction = address of the next disassembled instruction.**
    (a) every opcode except br / call / retn leaves `pc = increment_pc(old pc)` (all states);
    (b) over the regenerated tables, the linear (disassembler) address of `increment_pc(pc)` is the linear address of
        `pc` plus `disasm_tms1000`'s length 1, modulo the 64-byte page;
    (c) the disassembler reads, at that linear address, the very byte the simulator fetched. -/
theorem tms1000_pc_after_non_branching :
    (∀ (m : Mem) (s : Tms1000.State) (o : StepOut Tms1000.State),
      Tms1000.branching (m ((Tms1000.z s.pa <<< 6) ||| Tms1000.z s.pc)) = false → Tms1000.step m s = .ok o →
        o.state.pc = Tms1000.t8 (Tms1000.incrementPc (Tms1000.z s.pc))) ∧
    (∀ pc : Fin 64,
      Generated.SimTables.tms1000LsfrToAddress[(Tms1000.incrementPc (BitVec.ofNat 32 pc.val)).toNat]? =
        (Generated.SimTables.tms1000LsfrToAddress[pc.val]?).map (fun a => (a + 1) &&& 0x3f)) ∧
    (∀ pc : Fin 64,
      (Generated.SimTables.tms1000LsfrToAddress[pc.val]?).bind (fun a => Generated.SimTables.tms1000AddressToLsfr[a.toNat]?) =
        some (BitVec.ofNat 8 pc.val)) :=
  ⟨Tms1000.step_pc_non_branching, Tms1000.pc_advance_linear, Tms1000.lsfr_roundtrip⟩

/-- non-vacuity: the reset state is inside the invariant, and `tamiy` (0x20) at X=3, Y=15 writes ram[63] and wraps Y -/
example : Tms1000.Inv (Tms1000.reset
    { pc := 0, pa := 0, pb := 0, cl := 0, sr := 0, sFlag := 0, a := 0, x := 0, y := 0, ram := Vector.replicate 64 0,
      rPins := 0, oPins := 0, kPins := 0, cycleCount := 0, stopRunning := true, showOn := true }) :=
  Tms1000.reset_inv _

def tms1000Edge : Tms1000.State :=
  { pc := 0x3f, pa := 0xf, pb := 0, cl := 0, sr := 0, sFlag := 1, a := 9, x := 3, y := 15, ram := Vector.replicate 64 0,
    rPins := 0, oPins := 0, kPins := 0, cycleCount := 0, stopRunning := true, showOn := true }

example : (match Tms1000.step (fun a => if a = 0x3ff then 0x20 else 0) tms1000Edge with
    | .ok o => some (o.ret, o.state.pc, o.state.y, o.state.ram[63], o.state.stopRunning)
    | .fault _ => none) = some (0, 0x3e, 0, 9, false) := by decide

/-! ### 8008 -/

/-- **8008: one step is total, fault-free, keeps `sp < 8` and writes only below 2^16.**  For every state with `sp < 8`
    (what `reset`, `set_reg("sp")`, both `push`es and `pop` keep) and every memory content: the step returns 0 or -1, never
    `fault` (no access outside `reg[8]` / `stack[8]`), `sp < 8` holds again, and every `Memory::write8` it makes has an address
    below 0x10000. -/
theorem i8008_step_total_no_fault (mem : Mem) (s : I8008.State) (h : I8008.Inv s) :
    ∃ o m', I8008.step mem s = .ok (o, m') ∧ I8008.Inv o.state ∧ (o.ret = 0 ∨ o.ret = -1) ∧
      ∀ w ∈ o.writes, w.1 < 0x10000 :=
  I8008.step_ok mem s h

theorem i8008_invariant_established (s : I8008.State) (name : String) (v org : BitVec 32) :
    I8008.Inv (I8008.reset s org) ∧ (I8008.Inv s → I8008.Inv (I8008.setReg s name v)) ∧
      (I8008.Inv s → I8008.Inv (I8008.setPc s v)) ∧
      (I8008.Inv s → ∃ s', I8008.pushApi s v = .ok s' ∧ I8008.Inv s') :=
  ⟨I8008.reset_inv s org, I8008.setReg_inv s name v, I8008.setPc_inv s v, I8008.pushApi_ok s v⟩

theorem i8008_run_no_fault (n : Nat) (m : Mem) (s : I8008.State) (h : I8008.Inv s) :
    ∃ r, I8008.runN m n s = .ok r ∧ I8008.Inv r.1 :=
  I8008.runN_ok n m s h

/-- the static `stop_running` is cleared by `run` before the loop: not an input of the step (HLT sets it: an output) -/
theorem i8008_no_hidden_input (mem : Mem) (s : I8008.State) (b : Bool) :
    I8008.step mem { s with stopRunning := b } = I8008.step mem s :=
  I8008.step_ignores_stop_running mem s b

def i8008Edge (sp : BitVec 16) : I8008.State :=
  { pc := 0xffff, sp := sp, fp := false, fs := false, fc := false, fz := false,
    reg := Vector.replicate 8 0xff, stack := Vector.ofFn fun i => BitVec.ofNat 16 (0x1110 + i.val),
    stopRunning := true, showOn := false }

/-- non-vacuity: RET (0x07) at `sp = 0` pops `stack[7]` (the eight-level stack wraps), CALL (0x46) at `sp = 7` pushes into
    `stack[7]` and wraps `sp` to 0; HLT sets `stop_running` -/
example : (match I8008.step (fun a => if a = 0xffff then 0x07 else 0) (i8008Edge 0) with
    | .ok (o, _) => some (o.ret, o.state.pc, o.state.sp) | .fault _ => none) = some (0, 0x1117, 7) := by decide
example : (match I8008.step (fun a => if a = 0xffff then 0x46 else if a = 0 then 0x34 else if a = 1 then 0x12 else 0)
      (i8008Edge 7) with
    | .ok (o, _) => some (o.ret, o.state.pc, o.state.sp, o.state.stack[7]) | .fault _ => none) =
    some (0, 0x1234, 0, 0x0002) := by decide
example : (match I8008.step (fun _ => 0xff) (i8008Edge 3) with
    | .ok (o, _) => some (o.ret, o.state.stopRunning) | .fault _ => none) = some (0, true) := by decide

/-! ### lc3 -/

/-- **lc3: one step is total and fault-free from EVERY state, and writes only below 2^17.**  No invariant is needed (register
    indices are 3-bit opcode fields); byte addresses are `2 * word address (+ 1)` with a 16-bit word address. -/
theorem lc3_step_total_no_fault (mem : Mem) (s : Lc3.State) :
    ∃ o m', Lc3.step mem s = .ok (o, m') ∧ (o.ret = 0 ∨ o.ret = -1) ∧ ∀ w ∈ o.writes, w.1 < 0x20000 :=
  Lc3.step_ok mem s

theorem lc3_run_no_fault (n : Nat) (m : Mem) (s : Lc3.State) : ∃ r, Lc3.runN m n s = .ok r :=
  Lc3.runN_ok n m s

/-- `set_reg` (after the fix of `get_reg_index`) stays inside `reg[8]` for every register name -/
theorem lc3_set_reg_no_fault (s : Lc3.State) (name : List Char) (v : BitVec 32) : ∃ s', Lc3.setReg s name v = .ok s' :=
  Lc3.setReg_ok s name v

/-- `SimulateLc3::run` does not clear the static `stop_running`; it is an explicit input of the model: when set, the step
    does nothing.  (The model has no other input than memory and `State`.) -/
theorem lc3_stop_running_is_an_input (mem : Mem) (s : Lc3.State) (h : s.stopRunning = true) :
    Lc3.step mem s = .ok ({ ret := 0, state := s, writes := [] }, mem) :=
  Lc3.step_stopped mem s h

/-- non-vacuity: `st r7, #-1` at PC = 0 stores to word 0 (bytes 0, 1); with PC = 0xffff `str` reaches bytes 0x1fffe/0x1ffff -/
example : (match Lc3.step (fun a => if a = 0 then 0x3f else if a = 1 then 0xff else 0)
      { reg := Vector.replicate 8 0xabcd, pc := 0, psr := 0, stopRunning := false, showOn := false } with
    | .ok (o, _) => some (o.ret, o.state.pc, o.writes) | .fault _ => none) =
    some (0, 1, [(0, 0xab), (1, 0xcd)]) := by decide
example : (match Lc3.step (fun a => if a = 0 then 0x70 else 0)
      { reg := Vector.replicate 8 0xffff, pc := 0, psr := 0, stopRunning := false, showOn := false } with
    | .ok (o, _) => some (o.ret, o.writes) | .fault _ => none) =
    some (0, [(0x1fffe, 0xff), (0x1ffff, 0xff)]) := by decide

/-! ### 6502 -/

/-- **6502: one step is total, fault-free, keeps A, X, Y, SP in 0..255 and writes only below 2^16.**  For every such state, every
    PC (any `int`), SR, `break_io` and memory content: the step returns 0 (BRK and undefined opcodes leave the loop and return 0
    too), both regenerated 256-entry tables (`table_6502_opcodes`, the lengths `disasm_6502` returns) are indexed inside, the ranges hold
    again, and every `ram_write8` address is below 0x10000 (the stack page 0x100 + SP, and effective addresses: over the regenerated
    table every storing opcode uses a mode that `calc_address` masks to 16 bits). -/
theorem m6502_step_total_no_fault (mem : Mem) (s : M6502.State) (h : M6502.Inv s) :
    ∃ o m' b, M6502.step mem s = .ok (o, m', b) ∧ M6502.Inv o.state ∧ o.ret = 0 ∧ ∀ w ∈ o.writes, w.1 < 0x10000 :=
  M6502.step_ok mem s h

theorem m6502_invariant_established (s : M6502.State) (name : String) (v org : BitVec 32) (mb : M6502.MemB) :
    M6502.Inv (M6502.reset s org) ∧ (M6502.Inv s → M6502.Inv (M6502.setReg s name v)) ∧
      (M6502.Inv s → M6502.Inv (M6502.setPc s v)) ∧
      (M6502.Inv s → M6502.Inv (M6502.pushApi s mb v).1 ∧ WOK 0x10000 mb.writes (M6502.pushApi s mb v).2.writes) :=
  ⟨M6502.reset_inv s org, M6502.setReg_inv s name v, M6502.setPc_inv s v, M6502.pushApi_inv s mb v⟩

theorem m6502_run_no_fault (n : Nat) (m : Mem) (s : M6502.State) (h : M6502.Inv s) :
    ∃ r, M6502.runN m n s = .ok r ∧ M6502.Inv r.1 :=
  M6502.runN_ok n m s h

/-- **6502 (the simulator takes the instruction length from the disassembler): PC after a non-branching instruction = PC +
    `disasm_6502` length.**  When `operand_exe` returns 0, the new PC is the PC it left (unchanged by non-branching instructions)
    plus the regenerated disassembler length of the byte at the old PC in the memory after the instruction; and that length is at
    most 3 for every first byte (the display loop's `bytes[16]`). -/
theorem m6502_pc_after_non_branching (mem : Mem) (s : M6502.State) (e : M6502.Exe) (o : StepOut M6502.State) (m' : Mem)
    (b : Option (BitVec 8)) (hrun : s.stopRunning = false)
    (he : M6502.operandExe s { mem := mem, writes := [], brk := none } (mem s.pc) = .ok e) (hret : e.ret = 0)
    (h : M6502.step mem s = .ok (o, m', b)) :
    (∃ l, M6502.disLen m' s.pc = .ok l ∧ o.state.pc = e.state.pc + l ∧ m' = e.mem.mem) ∧
      (∀ i : Fin 256, (Generated.SimTables.disasm6502Len[i.val]?).all (· ≤ 3) = true) :=
  ⟨M6502.step_pc_non_branching mem s e o m' b hrun he hret h, M6502.disLen_le_3⟩

/-- `Simulate6502::run` does not clear the static `stop_running`: an explicit input of the model (when set, nothing is executed) -/
theorem m6502_stop_running_is_an_input (mem : Mem) (s : M6502.State) (h : s.stopRunning = true) :
    M6502.step mem s = .ok ({ ret := 0, state := s, writes := [] }, mem, none) :=
  M6502.step_stopped mem s h

def m6502Edge : M6502.State :=
  { a := 0xff, x := 0xff, y := 0xff, sr := 0, pc := 0xffff, sp := 0, cycleCount := 0, breakIo := 0xfffffff0,
    stopRunning := false, showOn := false }

/-- non-vacuity: JSR at PC = 0xffff with SP = 0 pushes to 0x100 and (wrapping) 0x1ff (the high byte of 0x10001 / 256 is narrowed to 0); `sta 0xffff,x`-style stores stay below 2^16;
    LDA #imm at 0xffff leaves PC = 0x10001 (the simulator does not wrap the PC: as in the C++) -/
example : (match M6502.step (fun a => if a = 0xffff then 0x20 else 0) m6502Edge with
    | .ok (o, _, _) => some (o.state.pc, o.state.sp, o.writes) | .fault _ => none) =
    some (0, 0xfe, [(0x100, 0x00), (0x1ff, 0x01)]) := by decide +kernel
example : (match M6502.step (fun a => if a = 0xffff then 0xa9 else 0) m6502Edge with
    | .ok (o, _, _) => some (o.state.pc, o.state.a) | .fault _ => none) = some (0x10001, 0) := by decide +kernel

/-! ### 1802 -/

/-- **1802: one step is total, fault-free, keeps `reg_p < 16`, `reg_x < 16` and writes only below 2^16.**  For every such state —
    every value of D, T, the 16 registers, the flags (which are bytes: DF can be 0x80), the counter, `flag_etq`, `break_io` — and every
    memory content: the step returns 0 or -1, no `reg_r[]` access (index REG_N, the extended instruction's N, REG_X, REG_P or 2) leaves
    the 16 registers, the two ranges hold again (RET / DIS / MARK / SEP / SEX assign nibbles), and every `WRITE_RAM` address is a
    16-bit register value. -/
theorem c1802_step_total_no_fault (mem : Mem) (s : C1802.State) (h : C1802.Inv s) :
    ∃ o m' b, C1802.step mem s = .ok (o, m', b) ∧ C1802.Inv o.state ∧ (o.ret = 0 ∨ o.ret = -1) ∧
      ∀ w ∈ o.writes, w.1 < 0x10000 :=
  C1802.step_ok mem s h

theorem c1802_invariant_established (s : C1802.State) (name : String) (v : BitVec 32) :
    C1802.Inv (C1802.reset s) ∧ (C1802.Inv s → C1802.Inv (C1802.setReg s name v)) :=
  ⟨C1802.reset_inv s, C1802.setReg_inv s name v⟩

theorem c1802_run_no_fault (n : Nat) (m : Mem) (s : C1802.State) (h : C1802.Inv s) :
    ∃ r, C1802.runN m n s = .ok r ∧ C1802.Inv r.1 :=
  C1802.runN_ok n m s h

/-- `Simulate1802::run` does not clear the static `stop_running`: an explicit input (when set, nothing is executed).  `flag_etq`,
    the data member no constructor initialised before fix C15-14, is an ordinary field of the model's state. -/
theorem c1802_stop_running_is_an_input (mem : Mem) (s : C1802.State) (h : s.stopRunning = true) :
    C1802.step mem s = .ok ({ ret := 0, state := s, writes := [] }, mem, none) :=
  C1802.step_stopped mem s h

/-! ### tms9900 and ebpf: simulators that execute no instruction -/

/-- **tms9900**: the step indexes no array and writes nothing; it returns 0 (stopped, or opcode byte 0: "Stopped") or -1 ("Illegal
    instruction": every other opcode, nothing is decoded), and advances `pc` by 2 unless `stop_running` was set. -/
theorem tms9900_step_total (mem : Mem) (s : Tms9900.State) :
    ((Tms9900.step mem s).ret = 0 ∨ (Tms9900.step mem s).ret = -1) ∧ (Tms9900.step mem s).writes = [] ∧
      (s.stopRunning = false → (Tms9900.step mem s).state.pc = s.pc + 2) ∧
      (s.stopRunning = true → (Tms9900.step mem s).state = s) := by
  unfold Tms9900.step
  refine ⟨?_, ?_, ?_, ?_⟩
  · split
    · exact Or.inl rfl
    · dsimp only; split
      · exact Or.inl rfl
      · exact Or.inr rfl
  · split
    · rfl
    · dsimp only; split <;> rfl
  · intro h
    rw [if_neg (by rw [h]; decide)]
    dsimp only; split <;> rfl
  · intro h
    rw [if_pos h]

/-- **ebpf**: `run` prints "CPU not supported." and returns 0; nothing but the static `stop_running` (cleared) changes -/
theorem ebpf_step_total (mem : Mem) (s : Ebpf.State) :
    (Ebpf.step mem s).ret = 0 ∧ (Ebpf.step mem s).writes = [] ∧ (Ebpf.step mem s).state = { s with stopRunning := false } :=
  ⟨rfl, rfl, rfl⟩

theorem ebpf_getRegister_lt (name : List Char) (i : BitVec 32) (h : Ebpf.getRegister name = some i) : i < 16 := by
  unfold Ebpf.getRegister at h
  split at h
  · rename_i r d _
    split at h
    · rename_i hc
      injection h with h
      subst h
      have h48 : '0'.toNat = 48 := rfl
      have h57 : '9'.toNat = 57 := rfl
      rw [h48, h57] at hc
      rw [BitVec.lt_def, h48]
      have h16 : (16 : BitVec 32).toNat = 16 := rfl
      rw [h16, BitVec.toNat_ofNat]
      omega
    · exact absurd h (by simp)
  · split at h
    · injection h with h; subst h; decide
    · exact absurd h (by simp)
  · exact absurd h (by simp)

/-- ebpf `set_reg` stays inside `int64_t reg[16]` for every register name -/
theorem ebpf_set_reg_no_fault (s : Ebpf.State) (name : List Char) (v : BitVec 32) : ∃ s', Ebpf.setReg s name v = .ok s' := by
  unfold Ebpf.setReg
  split
  · exact ⟨s, rfl⟩
  · rename_i i hi
    have hlt := ebpf_getRegister_lt name i hi
    rw [arrSet_ok _ _ _ _ (toNat_lt_of_lt i 16 hlt)]
    exact ⟨_, rfl⟩

example : (Tms9900.step (fun _ => 0x12) { pc := 0xffff, wp := 0, st := 0, stopRunning := false, showOn := false }).ret = -1 ∧
    (Tms9900.step (fun _ => 0x12) { pc := 0xffff, wp := 0, st := 0, stopRunning := false, showOn := false }).state.pc = 1 := by decide

end NakenVerif.C15
