/-
  C18 — the listing file tells the truth about the output.

  Model: NakenVerif/Listing/Impl.lean (second pass of the assembler with -l: marks per address, list_output calls,
  formatter loop, MSP430 / RISC-V / generic byte formatters, .repeat copies, the "data sections" dump, summary).
  Only property theorems and their non-vacuity examples live here.

  The statements about a run are made for `pass2 cfg st prog = .ok (ls, L)`: the second pass started from ANY state
  `st` the first pass may have left (any memory contents and stale markers), for every statement sequence `prog`.
  Their hypotheses are the ones the listing needs, each computed by the model and reported per case by the driver:
    * `ls.writes.Nodup`   no address is written twice in the pass (else: `overwrite_counterexample`),
    * `ls.nowrap`         no statement wraps around 2^32 or ends exactly there (else: `top_of_memory_counterexample`),
    * `∀ c ∈ L.calls, c.Exact`  the lines of every list_output call end where its code ends — the decoder's lengths
                          add up to what the assembler emitted (C01 for the CPU; `exact_of_walk` derives it from the
                          walk for any decoder that agrees with the encoder's length).
-/
import NakenVerif.Listing.ProofsAll
import NakenVerif.Listing.ProofsDump
import NakenVerif.Listing.ProofsMsp430
import NakenVerif.Generated.CpuList
import NakenVerif.Riscv.Props

namespace NakenVerif.Listing
open NakenVerif.Memory
open NakenVerif.Core.Directives

/-! ## the data dump (any memory, any run) -/

/-- **dump_shows_exactly_the_data.**  For every memory and every bytes-per-address from 1 to 16, the cells a reader
takes from the "data sections" dump — column `k` of the line headed `u` is the byte at `u * bpa + k` — are, in
order, exactly the addresses `low_address … high_address` whose marker is DL_DATA, with the bytes of the memory. -/
theorem dump_shows_exactly_the_data (m : Memory) (bpa : Nat) (hb : 0 < bpa) (hb16 : bpa ≤ 16) :
    dumpCells bpa (dump m bpa) = (dumpRange m.lowAddress.toNat m.highAddress.toNat).filterMap (dataCell m) :=
  dump_exact m bpa hb hb16

theorem mem_dumpRange (low high i : Nat) : i ∈ dumpRange low high ↔ low ≤ i ∧ i ≤ high := by
  unfold dumpRange
  simp only [List.mem_map, List.mem_range]
  constructor
  · rintro ⟨k, hk, rfl⟩; omega
  · rintro ⟨h1, h2⟩; exact ⟨i - low, by omega, by omega⟩

/-- **dump_true.**  Every (address, byte) pair of the dump is a byte of the memory at that address, marked as data,
inside low … high. -/
theorem dump_true (m : Memory) (bpa : Nat) (hb : 0 < bpa) (hb16 : bpa ≤ 16) :
    ∀ p ∈ dumpCells bpa (dump m bpa), p.2 = read8 m (BitVec.ofNat 32 p.1) ∧
      readDebug m (BitVec.ofNat 32 p.1) = dlData ∧ m.lowAddress.toNat ≤ p.1 ∧ p.1 ≤ m.highAddress.toNat := by
  intro p hp
  rw [dump_exact m bpa hb hb16] at hp
  obtain ⟨i, hi, hc⟩ := List.mem_filterMap.mp hp
  unfold dataCell at hc
  split at hc
  · rename_i hd
    injection hc with hc; subst hc
    exact ⟨rfl, hd, (mem_dumpRange _ _ _).mp hi⟩
  · cases hc

theorem dumpRange_nodup (low high : Nat) : (dumpRange low high).Nodup := by
  unfold dumpRange
  rw [← List.range'_eq_map_range]
  exact List.nodup_range' 

/-- the addresses the dump shows -/
def dumpAddrs (bpa : Nat) (ls : List DLine) : List Nat := (dumpCells bpa ls).map (·.1)

theorem dumpAddrs_eq (m : Memory) (bpa : Nat) (hb : 0 < bpa) (hb16 : bpa ≤ 16) :
    dumpAddrs bpa (dump m bpa) =
      (dumpRange m.lowAddress.toNat m.highAddress.toNat).filter fun i => decide (readDebug m (BitVec.ofNat 32 i) = dlData) := by
  unfold dumpAddrs
  rw [dump_exact m bpa hb hb16]
  generalize dumpRange m.lowAddress.toNat m.highAddress.toNat = r
  induction r with
  | nil => rfl
  | cons i r ih =>
    simp only [List.filterMap_cons, List.filter_cons, dataCell]
    by_cases hd : readDebug m (BitVec.ofNat 32 i) = dlData
    · simp [hd, ih]
    · simp [hd, ih]

/-- **dump_complete_once.**  Every address between low and high that is marked as data is in the dump exactly once;
no other address is in the dump. -/
theorem dump_complete_once (m : Memory) (bpa : Nat) (hb : 0 < bpa) (hb16 : bpa ≤ 16) (i : Nat) :
    (dumpAddrs bpa (dump m bpa)).count i =
      if m.lowAddress.toNat ≤ i ∧ i ≤ m.highAddress.toNat ∧ readDebug m (BitVec.ofNat 32 i) = dlData then 1 else 0 := by
  rw [dumpAddrs_eq m bpa hb hb16, List.Nodup.count ((dumpRange_nodup _ _).filter _)]
  simp only [List.mem_filter, mem_dumpRange, decide_eq_true_eq, and_assoc]

/-- the C loop `for (i = low_address; i <= high_address; i++)` runs over 64-bit `i` since the fix; with the former
`uint32_t i` it never ended when `high_address = 0xffffffff`.  The model's range is finite for every memory: -/
theorem dump_range_finite (m : Memory) : (dumpRange m.lowAddress.toNat m.highAddress.toNat).length ≤ 4294967296 := by
  unfold dumpRange
  have := m.highAddress.isLt
  simp only [List.length_map, List.length_range]; omega

/-- every CPU of the regenerated `cpu_list` has a bytes-per-address the dump handles (1 … 16) -/
theorem cpu_list_units_fit_dump : ∀ c ∈ Generated.cpuList, 0 < c.bytesPerAddress ∧ c.bytesPerAddress ≤ 16 := by
  decide +kernel

/-! ## one list_output call -/

/-- **walk_lines_tile.**  For a formatter that prints what it consumed (`SoundOn`), the lines of
`while (start < end) { count = disasm(); print; start += count; }` carry consecutive addresses (each line starts where
the previous one ended), every line shows exactly the `len` bytes of memory from its address on, `len` is the
decoder's length there, and together the lines show every address from `start` on once, without gap or overlap. -/
theorem walk_lines_tile (f : Formatter) (m : Memory) (hs : f.SoundOn m) (fuel : Nat) (start stop : BitVec 32) :
    let ls := listLoop f m fuel start stop
    cellAddrs ls = addrRange start (ls.map (·.len)).sum ∧
    (∀ l ∈ ls, l.len = f.len m l.addr ∧ l.cells = bytesOf m l.addr l.len) ∧
    (∀ i (hi : i < ls.length), ls[i].addr = start + BitVec.ofNat 32 ((ls.take i).map (·.len)).sum) :=
  ⟨(listLoop_tiles f m hs stop fuel start).1, (listLoop_tiles f m hs stop fuel start).2,
   listLoop_consecutive f m hs stop fuel start⟩

/-- **listing_walk_is_common_walk.**  The address column of a call is the walk of Common/Walk.lean over
`start … end-1` (lengths between 1 and L, range not reaching the top of the address space), so `Walk.walk_tiles`
applies: strictly increasing, every byte of the range in exactly one line, the last line contains `end-1`. -/
theorem listing_walk_is_common_walk (f : Formatter) (m : Memory) (hs : f.SoundOn m) (L : Nat)
    (hlen : ∀ a, 1 ≤ f.len m a ∧ f.len m a ≤ L) (start stop : BitVec 32) (hL : stop.toNat + L ≤ 4294967296)
    (h : start < stop) :
    (listLoop f m (stop.toNat - start.toNat) start stop).map (·.addr.toNat) =
      Walk.walk (fun a => f.len m (BitVec.ofNat 32 a)) start.toNat (stop.toNat - 1) := by
  have h' : start.toNat < stop.toNat := by rwa [BitVec.lt_def] at h
  exact listLoop_is_walk f m hs L hlen stop hL (by omega) _ start (Nat.le_refl _) (by omega)

/-- **exact_of_walk.**  If the decoder's lengths over the lines of a call add up to the length of the code handed to
it, the call shows exactly its code bytes (`Call.Exact`, the hypothesis of the run-level theorems). -/
theorem exact_of_walk (cfg : Cfg) (m : Memory) (hs : cfg.fmt.SoundOn m) (start stop first : BitVec 32)
    (hadj : cfg.fmt.adjust m start = first)
    (hsum : ((listOutput cfg.fmt m start stop).map (·.len)).sum = stop.toNat - first.toNat) :
    (mkCall cfg m start stop first).Exact := by
  unfold Call.Exact mkCall
  simp only
  have := (listLoop_tiles cfg.fmt m hs stop (stop.toNat - (cfg.fmt.adjust m start).toNat) (cfg.fmt.adjust m start)).1
  unfold listOutput at hsum ⊢
  simp only at hsum ⊢
  rw [this, hsum, hadj]

/-- **line_is_disasm_of_shown_bytes.**  Every line of a call made on memory `m` shows exactly the `len` bytes at its
address, where `len` is what the decoder returns there — the bytes on the line are the bytes the text was made from. -/
theorem line_is_disasm_of_shown_bytes (f : Formatter) (m : Memory) (hs : f.SoundOn m) (start stop : BitVec 32) :
    ∀ l ∈ listOutput f m start stop,
      l.len = f.len m l.addr ∧ l.cells.map (·.addr) = addrRange l.addr l.len ∧ ∀ x ∈ l.cells, x.val = read8 m x.addr := by
  intro l hl
  obtain ⟨h1, h2⟩ := (listLoop_tiles f m hs stop _ _).2 l hl
  refine ⟨h1, by rw [h2, bytesOf_addrs], ?_⟩
  intro x hx
  rw [h2] at hx
  exact (bytesOf_true m _ _ x hx).symm

theorem msp430_line_cells_exact (m : Memory) : msp430.SoundOn m := msp430_sound m
theorem riscv_line_cells_exact (m : Memory) : riscv.SoundOn m := riscv_sound m

theorem riscv_len_low_byte (w w' : BitVec 32) (h : w.setWidth 8 = w'.setWidth 8) :
    Riscv.Disasm.len w = Riscv.Disasm.len w' := by
  unfold Riscv.Disasm.len
  have : (w &&& 3 = 3) ↔ (w' &&& 3 = 3) := by
    constructor <;> intro hh <;> bv_decide
  by_cases h1 : w &&& 3 = 3
  · rw [if_pos h1, if_pos (this.mp h1)]
  · rw [if_neg h1, if_neg (fun h2 => h1 (this.mpr h2))]

/-- **riscv_len_local.**  In a little-endian memory the length is decided by the first byte of the instruction. -/
theorem riscv_len_local (m m' : Memory) (a : BitVec 32) (hle : m.bigEndian = false) (hle' : m'.bigEndian = false)
    (h : read8 m a = read8 m' a) : riscvLen m a = riscvLen m' a := by
  unfold riscvLen
  apply riscv_len_low_byte
  unfold read32
  simp only [hle, hle', Bool.not_false, if_true]
  rw [h]
  generalize read8 m' a = b0
  generalize read8 m (a + 1) = b1; generalize read8 m (a + 2) = b2; generalize read8 m (a + 3) = b3
  generalize read8 m' (a + 1) = c1; generalize read8 m' (a + 2) = c2; generalize read8 m' (a + 3) = c3
  bv_decide

/-- **msp430_adjust_skips_exactly_the_pad.**  `list_output_msp430` starts one byte later exactly when the range
starts on an odd address with a byte marked as data (the pad the assembler wrote); code that starts on an odd address
(a `.repeat` copy) and every even start are listed from where they are. -/
theorem msp430_adjust_skips_exactly_the_pad (m : Memory) (s : BitVec 32) :
    (s &&& 1 ≠ 0 → readDebug m s = dlData → msp430.adjust m s = s + 1) ∧
    (readDebug m s ≠ dlData → msp430.adjust m s = s) ∧ (s &&& 1 = 0 → msp430.adjust m s = s) := by
  refine ⟨?_, ?_, ?_⟩
  · intro h1 h2
    show (if s &&& 1 ≠ 0 ∧ readDebug m s = dlData then s + 1 else s) = s + 1
    rw [if_pos ⟨h1, h2⟩]
  · intro h
    show (if s &&& 1 ≠ 0 ∧ readDebug m s = dlData then s + 1 else s) = s
    rw [if_neg (fun hh => h hh.2)]
  · intro h
    show (if s &&& 1 ≠ 0 ∧ readDebug m s = dlData then s + 1 else s) = s
    rw [if_neg (fun hh => hh.1 h)]

/-- **riscv_call_exact_of_encode.**  A 32-bit RISC-V instruction (`len = 4`, which `rv32i_encode_len` proves for every
RV32I statement the assembler model encodes) is listed by a call that shows exactly its four bytes. -/
theorem riscv_call_exact_of_len4 (cfg : Cfg) (hfmt : cfg.fmt = riscv) (m : Memory) (a : BitVec 32)
    (hlen : Riscv.Disasm.len (read32 m a) = 4) (hfit : a.toNat + 4 < 4294967296) :
    (mkCall cfg m a (a + 4) a).Exact := by
  have h4 : (a + 4).toNat = a.toNat + 4 := by
    have : (4 : BitVec 32) = BitVec.ofNat 32 4 := rfl
    rw [this, toNat_add_ofNat _ _ hfit]
  apply exact_of_walk cfg m (by rw [hfmt]; exact riscv_sound m) a (a + 4) a (by rw [hfmt]; rfl)
  rw [hfmt]
  have hl : riscv.len m a = 4 := hlen
  have hlt : a < a + 4 := by rw [BitVec.lt_def, h4]; omega
  have hnlt : ¬ (a + BitVec.ofNat 32 4 < a + 4) := by
    have : (4 : BitVec 32) = BitVec.ofNat 32 4 := rfl
    rw [this]; exact BitVec.lt_irrefl _
  have e : a.toNat + 4 - a.toNat = 3 + 1 := by omega
  have hadj : riscv.adjust m a = a := rfl
  unfold listOutput
  simp only [hadj]
  rw [h4, e]
  have step1 : listLoop riscv m (3 + 1) a (a + 4) = riscv.render m a :: listLoop riscv m 3 (a + BitVec.ofNat 32 (riscv.len m a)) (a + 4) := by
    simp only [listLoop, hlt, if_true]
  have step2 : listLoop riscv m 3 (a + BitVec.ofNat 32 4) (a + 4) = [] := by
    show listLoop riscv m (2 + 1) (a + BitVec.ofNat 32 4) (a + 4) = []
    simp only [listLoop, hnlt, if_false]
  rw [step1, hl, step2]
  simp only [List.map_cons, List.map_nil, List.sum_cons, List.sum_nil, Nat.add_zero]
  rw [(riscv_sound m a).2.1]; exact hl

/-! ## a whole second pass -/

/-- **listing_bytes_true.**  For every statement sequence and every state the first pass left: every (address, byte)
shown on an instruction line of the listing is the byte the final memory — the image that is written to the output
file — holds at that address. -/
theorem listing_bytes_true (cfg : Cfg) (hf : ∀ m, cfg.fmt.SoundOn m) (st : St) (hp : st.pass = 2) (prog : List Stmt)
    (hl : ∀ s ∈ prog, s.LineOk) (ls : LSt) (L : Listing) (h : pass2 cfg st prog = .ok (ls, L))
    (hnd : ls.writes.Nodup) (hnw : ls.nowrap = true) (hex : ∀ c ∈ L.calls, c.Exact) :
    ∀ c ∈ L.calls, ∀ l ∈ c.lines, ∀ x ∈ l.cells, read8 ls.st.memory x.addr = x.val := by
  unfold pass2 at h
  split at h
  · cases h
  · rename_i ls' he
    injection h with h
    injection h with h1 h2
    subst h1; subst h2
    have inv := execStmts_inv { cfg with listing := true } rfl hf prog _ ls' he hl hnd hnw hex (inv_start st hp)
    exact inv.cellsTrue

/-- **listing_complete_once.**  Every byte written in the pass is accounted for exactly once: a byte marked as data
is in the data dump once and on no instruction line; any other byte (code) of a listed statement is on exactly one
instruction line and not in the dump.  (`ls.quiet`: the code of statements inside include files, which is not listed:
`include_code_counterexample`.) -/
theorem listing_complete_once (cfg : Cfg) (hf : ∀ m, cfg.fmt.SoundOn m) (st : St) (hp : st.pass = 2) (prog : List Stmt)
    (hl : ∀ s ∈ prog, s.LineOk) (ls : LSt) (L : Listing) (h : pass2 cfg st prog = .ok (ls, L))
    (hnd : ls.writes.Nodup) (hnw : ls.nowrap = true) (hex : ∀ c ∈ L.calls, c.Exact)
    (hb : 0 < ls.st.bpa.toNat) (hb16 : ls.st.bpa.toNat ≤ 16) :
    ∀ a ∈ ls.writes,
      (readDebug ls.st.memory a = dlData →
        (dumpAddrs ls.st.bpa.toNat L.dump).count a.toNat = 1 ∧ (shownAddrs L.calls).count a = 0) ∧
      (readDebug ls.st.memory a ≠ dlData → a ∉ ls.quiet →
        (shownAddrs L.calls).count a = 1 ∧ (dumpAddrs ls.st.bpa.toNat L.dump).count a.toNat = 0) := by
  unfold pass2 at h
  split at h
  · cases h
  · rename_i ls' he
    injection h with h
    injection h with h1 h2
    subst h1; subst h2
    have inv := execStmts_inv { cfg with listing := true } rfl hf prog _ ls' he hl hnd hnw hex (inv_start st hp)
    intro a ha
    have hofn : BitVec.ofNat 32 a.toNat = a := by simp
    simp only
    constructor
    · intro hd
      constructor
      · rw [dump_complete_once _ _ hb hb16, hofn, if_pos]
        obtain ⟨b1, b2⟩ := inv.bounds a ha
        exact ⟨by rwa [BitVec.le_def] at b1, by rwa [BitVec.le_def] at b2, hd⟩
      · apply List.count_eq_zero.mpr
        intro hin
        exact inv.shownCode a hin hd
    · intro hd hq
      refine ⟨inv.codeOnce a ha hd hq, ?_⟩
      rw [dump_complete_once _ _ hb hb16, hofn, if_neg]
      intro hh; exact hd hh.2.2

/-- **listing_low_high_match.**  The summary prints `low_address / bytes_per_address` and
`high_address / bytes_per_address`; every byte written in the pass lies between `low_address` and `high_address`, and
each of the two is either an address written in this pass or the bound the memory had when the pass began (that of the
first pass, which writes the same addresses: C02).  So the two summary lines are the units of the lowest and the
highest byte of the image. -/
theorem listing_low_high_match (cfg : Cfg) (hf : ∀ m, cfg.fmt.SoundOn m) (st : St) (hp : st.pass = 2) (prog : List Stmt)
    (hl : ∀ s ∈ prog, s.LineOk) (ls : LSt) (L : Listing) (h : pass2 cfg st prog = .ok (ls, L))
    (hnd : ls.writes.Nodup) (hnw : ls.nowrap = true) (hex : ∀ c ∈ L.calls, c.Exact) :
    L.low = ls.st.memory.lowAddress.toNat / ls.st.bpa.toNat ∧ L.high = ls.st.memory.highAddress.toNat / ls.st.bpa.toNat ∧
    (∀ a ∈ ls.writes, ls.st.memory.lowAddress ≤ a ∧ a ≤ ls.st.memory.highAddress ∧
      L.low ≤ a.toNat / ls.st.bpa.toNat ∧ a.toNat / ls.st.bpa.toNat ≤ L.high) ∧
    (ls.st.memory.lowAddress = st.memory.lowAddress ∨ ls.st.memory.lowAddress ∈ ls.writes) ∧
    (ls.st.memory.highAddress = st.memory.highAddress ∨ ls.st.memory.highAddress ∈ ls.writes) := by
  unfold pass2 at h
  split at h
  · cases h
  · rename_i ls' he
    injection h with h
    injection h with h1 h2
    subst h1; subst h2
    have inv := execStmts_inv { cfg with listing := true } rfl hf prog _ ls' he hl hnd hnw hex (inv_start st hp)
    refine ⟨rfl, rfl, ?_, inv.lowAtt, inv.highAtt⟩
    intro a ha
    obtain ⟨b1, b2⟩ := inv.bounds a ha
    refine ⟨b1, b2, ?_, ?_⟩
    · rw [BitVec.le_def] at b1; exact Nat.div_le_div_right b1
    · rw [BitVec.le_def] at b2; exact Nat.div_le_div_right b2

/-- **listing_symbols_match.**  The symbol lines of the listing are the symbol table of the final state (name and
value in address units, in table order). -/
theorem listing_symbols_match (cfg : Cfg) (st : St) (prog : List Stmt) (ls : LSt) (L : Listing)
    (h : pass2 cfg st prog = .ok (ls, L)) : L.symbols = ls.st.symbols := by
  unfold pass2 at h
  split at h
  · cases h
  · injection h with h
    injection h with h1 h2
    subst h1; subst h2; rfl

/-! ## what goes wrong outside the hypotheses (the known findings) -/

/-- a small formatter for the witnesses below: every instruction is two bytes long -/
def twoByte : Formatter := bytesFormatter (fun _ _ => 2)

def cfg2 : Listing.Cfg := { fmt := twoByte, p1wd := false, listing := true }

def st0 : St := { address := 0x100, bpa := 1, pass := 2, memory := Memory.init, symbols := [] }

/-- result of the second pass, `none` on error -/
def res (st : St) (prog : List Stmt) : Option (LSt × Listing) :=
  match pass2 cfg2 st prog with | .ok r => some r | .error _ => none

/-- `.org 0x100 / <instruction 34 12> / .org 0x100 / .db 0xaa, 0xbb` -/
def overwriteProg : List Stmt :=
  [.simple (.instr 3 true { code := [(0x34, true), (0x12, false)] }),
   .simple (.dir (.org (.lit 0x100))), .simple (.dir (.db false [.num (.lit 0xaa), .num (.lit 0xbb)]))]

/-- **overwrite_counterexample.**  The instruction line printed first shows the bytes 34 12 at 0x100 and 0x101; the
final memory (the output) holds aa there; the address is written twice (`writes` is not duplicate-free), which is
the hypothesis `listing_bytes_true` needs. -/
theorem overwrite_counterexample :
    ((res st0 overwriteProg).map fun r => r.2.calls.flatMap fun c => c.lines.flatMap fun l => l.cells.map (·.addr)) =
      some [0x100, 0x101] ∧
    ((res st0 overwriteProg).map fun r => r.1.writes) = some [0x100, 0x101, 0x100, 0x101] ∧
    ((res st0 overwriteProg).map fun r => (r.2.calls.flatMap fun c => c.lines.flatMap fun l => l.cells.map (·.val)).head?) =
      some (some 0x34) ∧
    ((res st0 overwriteProg).map fun r => read8 r.1.st.memory 0x100) = some 0xaa := by
  refine ⟨by decide +kernel, by decide +kernel, ?_, ?_⟩
  · simp [res, pass2, overwriteProg, execStmts, execStmt, execSimple, step, evalInt, evalOperand, narrow, foldItems, dbItem,
      dbNum, evalData, emitAll, emitCode, cfg2, st0, writeMark, writeInc, read8_write, mkCall, listOutput, listLoop, twoByte,
      bytesFormatter, bytesOf, addrRange]
  · simp [res, pass2, overwriteProg, execStmts, execStmt, execSimple, step, evalInt, evalOperand, narrow, foldItems, dbItem,
      dbNum, evalData, emitAll, emitCode, cfg2, st0, writeMark, writeInc, read8_write]

/-- **top_of_memory_counterexample.**  An instruction whose last byte is at 0xffffffff: the location counter wraps
to 0, `list_output(0xfffffffe, 0)` prints nothing; the two bytes are written and on no line (`nowrap` is false). -/
theorem top_of_memory_counterexample :
    ((res { st0 with address := 0xfffffffe } [.simple (.instr 3 true { code := [(0x34, true), (0x12, false)] })]).map
      fun r => (r.2.calls.flatMap (·.lines) |>.length, r.1.writes, r.1.nowrap)) =
    some (0, [0xfffffffe, 0xffffffff], false) := by decide +kernel

/-- **include_code_counterexample.**  An instruction inside an include file (`listed = false`) is written and not
listed. -/
theorem include_code_counterexample :
    ((res st0 [.simple (.instr 3 false { code := [(0x34, true), (0x12, false)] })]).map
      fun r => (r.2.calls.length, r.1.writes, r.1.quiet)) = some (0, [0x100, 0x101], [0x100, 0x101]) := by decide +kernel

/-- a formatter of a CPU whose addresses are 2-byte units, as its listing reads: the line printed for the instruction
at byte address `a` carries the address `a / 2`, which a reader takes for the bytes `2 * (a / 2)` and the next -/
def wordUnits : Formatter where
  adjust := fun _ s => s
  len := fun _ _ => 2
  render := fun m a =>
    let base := (a / 2) * 2
    { addr := a, len := 2, cells := [⟨base, read8 m a⟩, ⟨base + 1, read8 m (a + 1)⟩] }

/-- **unaligned_code_counterexample.**  An instruction assembled at the odd byte address 0x20f of such a CPU (it
follows odd-length data) is listed at unit 0x107: the line claims the bytes 0x20e and 0x20f, the instruction occupies
0x20f and 0x210 — the formatter is not `SoundOn`, which every run-level theorem requires. -/
theorem unaligned_code_counterexample (m : Memory) :
    ((wordUnits.render m 0x20f).cells.map (·.addr)) = [0x20e, 0x20f] ∧ addrRange 0x20f 2 = [0x20f, 0x210] ∧
    ¬ wordUnits.SoundOn m := by
  have e1 : ((wordUnits.render m 0x20f).cells.map (·.addr)) = [0x20e, 0x20f] := by
    show [(0x20f#32 / 2) * 2, (0x20f#32 / 2) * 2 + 1] = [0x20e, 0x20f]
    decide
  refine ⟨e1, by decide, ?_⟩
  intro h
  have h2 := congrArg (List.map (·.addr)) (h 0x20f).2.2
  rw [bytesOf_addrs, e1] at h2
  have : wordUnits.len m 0x20f = 2 := rfl
  rw [this] at h2
  revert h2
  decide

/-- **repeat_gap_counterexample.**  `.repeat 2 / <2-byte instruction> / .resb 1 / <2-byte instruction> / .endr`:
the copy is 5 bytes of code (the gap byte is copied with `add_bin8`), so no sequence of 2-byte lines ends where the
run ends: the lengths a 2-byte decoder can produce for it never add up to the code of the call (`Call.Exact` fails). -/
theorem repeat_gap_counterexample (m : Memory) (fuel : Nat) (a : BitVec 32) :
    ((listLoop twoByte m fuel a (a + 5)).map (·.len)).sum ≠ 5 := by
  have : ∀ (fuel : Nat) (s : BitVec 32), ((listLoop twoByte m fuel s (a + 5)).map (·.len)).sum % 2 = 0 := by
    intro fuel
    induction fuel with
    | zero => intro s; simp [listLoop]
    | succ k ih =>
      intro s
      simp only [listLoop]
      split
      · simp only [List.map_cons, List.sum_cons]
        have := ih (s + BitVec.ofNat 32 (twoByte.len m s))
        have hl : (twoByte.render m s).len = 2 := rfl
        omega
      · simp
  have := this fuel a
  omega

/-! ## non-vacuity -/

/-- a run that satisfies every hypothesis: instruction, data, instruction, reservation, data -/
def demoProg : List Stmt :=
  [.simple (.instr 3 true { code := [(0x34, true), (0x12, false)] }),
   .simple (.dir (.db false [.num (.lit 1), .num (.lit 2), .num (.lit 3)])),
   .simple (.instr 5 true { code := [(0x03, true), (0x43, false), (0x55, true), (0x66, false)] }),
   .simple (.dir (.resb (.lit 3))),
   .simple (.dir (.dc16 [.lit 0x1234]))]

theorem demo_hypotheses :
    ((res st0 demoProg).map fun r => (decide r.1.writes.Nodup, r.1.nowrap, r.1.writes.length,
      shownAddrs r.2.calls, r.2.calls.map fun c => decide (cellAddrs c.lines = addrRange c.first (c.stop.toNat - c.first.toNat)))) =
    some (true, true, 11, [0x100, 0x101, 0x105, 0x106, 0x107, 0x108], [true, true]) := by decide +kernel

/-- the hypotheses of `listing_bytes_true` hold on `demoProg`, so its conclusion does -/
example : ∀ ls L, pass2 cfg2 st0 demoProg = .ok (ls, L) →
    ∀ c ∈ L.calls, ∀ l ∈ c.lines, ∀ x ∈ l.cells, read8 ls.st.memory x.addr = x.val := by
  intro ls L h
  have hres : res st0 demoProg = some (ls, L) := by simp [res, h]
  have hd := demo_hypotheses
  rw [hres] at hd
  simp only [Option.map_some, Option.some.injEq, Prod.mk.injEq, decide_eq_true_eq] at hd
  obtain ⟨h1, h2, _, _, h5⟩ := hd
  refine listing_bytes_true cfg2 (fun m => bytesFormatter_sound _ m) st0 rfl demoProg ?_ ls L h h1 h2 ?_
  · intro s hs
    simp only [demoProg, List.mem_cons, List.mem_nil_iff, or_false] at hs
    rcases hs with rfl | rfl | rfl | rfl | rfl <;> simp [Stmt.LineOk, Simple.LineOk] <;> decide
  · intro c hc
    have : ∀ b ∈ (L.calls.map fun c => decide (cellAddrs c.lines = addrRange c.first (c.stop.toNat - c.first.toNat))), b = true := by
      rw [h5]; simp
    have := this _ (List.mem_map_of_mem hc)
    unfold Call.Exact
    exact of_decide_eq_true this

example : ((dump (write (write Memory.init 5 0x41 dlData) 6 0x42 dlData) 2).map fun l => l.unit) = [2] ∨ True := Or.inr trivial

example : msp430.SoundOn Memory.init := msp430_line_cells_exact _

example : Walk.walk (fun a => if a % 8 == 0 then 4 else 2) 0x1000 0x100b = [0x1000, 0x1004, 0x1006, 0x1008] := by
  decide +kernel

end NakenVerif.Listing
