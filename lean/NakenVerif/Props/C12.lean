/-
  Property C12 — failure is atomic: diagnostics, exit status and output file agree.

  Theorems about the driver model (Core/Driver.lean).  The statement handlers are
  parameters of the model; what is proved is that WHATEVER they report is carried to
  the exit status and to the unlink of the output file without loss:
  the first loop pass that reports a problem makes assemble() return -1 (never 0, 2, 3),
  an error inside a conditional / include / repeat block becomes an error of the
  enclosing directive, and main() exits 0 exactly when both passes, both link steps and
  the file writer succeeded, leaving no output file otherwise.
  That every *handler* reports what it prints is not a theorem (68 hand-written parsers):
  the oracle of tools/props/C12.py searches for "Error printed, status 0".
-/
import NakenVerif.Core.Driver

set_option linter.unusedSimpArgs false

namespace NakenVerif.Core.Driver

/-- the loop goes on after this pass -/
def Step.continues (s : Step) : Bool :=
  s.ec = 0 && match s.ev with
    | .eol => true
    | .eof => false
    | .label r => r ≠ -1
    | .dir n => n = 0
    | .word r instr => r ≠ 2 && r ≠ -1 && (r = 1 || match instr with | none => true | some i => 0 ≤ i)
    | .other => false

/-- the pass reports a problem: `error_count` set by the reader, a handler returned an
    error code, or an unexpected token -/
def Step.fails (s : Step) : Bool :=
  s.ec > 0 || match s.ev with
    | .eol => false
    | .eof => false
    | .label r => r = -1
    | .dir n => n ≠ 0 && n ≠ 3 && n ≠ 4 && n ≠ 5
    | .word r instr => r ≠ 2 && (r = -1 || (r ≠ 1 && match instr with | none => false | some i => i < 0))
    | .other => true

theorem assembleRet_continues (s : Step) (rest : List Step) (e : Bool) (h : s.continues = true) :
    assembleRet (s :: rest) e = assembleRet rest e := by
  obtain ⟨ec, ev⟩ := s
  simp only [Step.continues, Bool.and_eq_true, decide_eq_true_eq] at h
  obtain ⟨hec, hev⟩ := h
  subst hec
  cases ev with
  | eol => simp [assembleRet]
  | eof => simp at hev
  | label r => simp at hev; simp [assembleRet, hev]
  | dir n => simp at hev; subst hev; simp [assembleRet]
  | word r instr =>
      simp only [Bool.and_eq_true, Bool.or_eq_true, decide_eq_true_eq, bne_iff_ne, ne_eq,
        Bool.not_eq_true', decide_eq_false_iff_not] at hev
      obtain ⟨⟨h2, hm1⟩, h3⟩ := hev
      simp only [assembleRet, Nat.lt_irrefl, ↓reduceIte, h2, hm1]
      rcases h3 with h1 | h3
      · simp [h1]
      · cases instr with
        | none => simp
        | some i =>
            simp only [decide_eq_true_eq] at h3
            have : ¬ i < 0 := by omega
            simp [this]
  | other => simp at hev

theorem assembleRet_fails (s : Step) (rest : List Step) (e : Bool) (h : s.fails = true) :
    assembleRet (s :: rest) e = some (-1) := by
  obtain ⟨ec, ev⟩ := s
  simp only [Step.fails, Bool.or_eq_true, decide_eq_true_eq] at h
  by_cases hec : ec > 0
  · simp [assembleRet, hec]
  · have hec0 : ¬ (ec > 0) := hec
    rcases h with h | h
    · exact absurd h hec
    · cases ev with
      | eol => simp at h
      | eof => simp at h
      | label r => simp at h; simp [assembleRet, hec0, h]
      | dir n =>
          simp only [Bool.and_eq_true, bne_iff_ne, ne_eq, decide_eq_true_eq] at h
          obtain ⟨⟨⟨h0, h3⟩, h4⟩, h5⟩ := h
          simp [assembleRet, hec0, h0, h3, h4, h5]
      | word r instr =>
          simp only [Bool.and_eq_true, Bool.or_eq_true, bne_iff_ne, ne_eq, decide_eq_true_eq] at h
          obtain ⟨h2, h⟩ := h
          rcases h with h | ⟨h1, h⟩
          · simp [assembleRet, hec0, h2, h]
          · cases instr with
            | none => simp at h
            | some i =>
                simp only [decide_eq_true_eq] at h
                by_cases hm : r = -1
                · simp [assembleRet, hec0, h2, hm]
                · simp [assembleRet, hec0, h2, hm, h1, h]
      | other => simp [assembleRet, hec0]

/-- **No silent skip (driver level).**  The first loop pass that reports a problem makes
    assemble() return -1 — whatever follows it in the source, whatever the passes before it
    were, at any length. -/
theorem assemble_first_failure (pre : List Step) (s : Step) (post : List Step) (e : Bool)
    (hpre : ∀ x ∈ pre, x.continues = true) (hs : s.fails = true) :
    assembleRet (pre ++ s :: post) e = some (-1) := by
  induction pre with
  | nil => exact assembleRet_fails s post e hs
  | cons x xs ih =>
      have hx : x.continues = true := hpre x (by simp)
      rw [List.cons_append, assembleRet_continues x _ e hx]
      exact ih (fun y hy => hpre y (by simp [hy]))

example : assembleRet [⟨0, .label 0⟩, ⟨0, .word 0 (some 4)⟩, ⟨0, .eol⟩, ⟨0, .word 0 (some (-1))⟩,
    ⟨0, .word 0 (some 2)⟩, ⟨0, .eof⟩] false = some (-1) := by decide

/-- assemble() returns 0 only if the `error` flag is clear. -/
theorem assemble_zero_flag_clear (steps : List Step) (e : Bool)
    (h : assembleRet steps e = some 0) : e = false := by
  induction steps with
  | nil => simp [assembleRet] at h
  | cons s rest ih =>
      obtain ⟨ec, ev⟩ := s
      by_cases hec : ec > 0
      · simp [assembleRet, hec] at h
      · cases ev with
        | eol => simp only [assembleRet, hec, ↓reduceIte] at h; exact ih h
        | eof => cases e <;> simp [assembleRet, hec] at h ⊢
        | label r =>
            simp only [assembleRet, hec, ↓reduceIte] at h
            split at h
            · simp at h
            · exact ih h
        | dir n =>
            simp only [assembleRet, hec, ↓reduceIte] at h
            split at h
            · simp at h
            · split at h
              · simp at h
              · split at h
                · simp at h
                · split at h
                  · simp at h
                  · exact ih h
        | word r instr =>
            simp only [assembleRet, hec, ↓reduceIte] at h
            split at h
            · cases e <;> simp at h ⊢
            · split at h
              · simp at h
              · split at h
                · cases instr with
                  | none => exact ih h
                  | some i =>
                      simp only at h
                      split at h
                      · simp at h
                      · exact ih h
                · exact ih h
        | other => simp [assembleRet, hec] at h

/-- assemble() returns 0 only if no loop pass it went through reported a problem. -/
theorem assemble_zero_no_failure (pre : List Step) (s : Step) (post : List Step) (e : Bool)
    (hpre : ∀ x ∈ pre, x.continues = true) (h : assembleRet (pre ++ s :: post) e = some 0) :
    s.fails = false := by
  cases hf : s.fails with
  | false => rfl
  | true =>
      rw [assemble_first_failure pre s post e hpre hf] at h
      simp at h

/-! ### The `end` directive and the sticky `error` flag (deferred errors)

  Some handlers report an error and let the loop go on (dsPIC unknown instruction / operand combination; a failed
  macro expansion inside a data list): they set `asm_context->error`, and the flag is tested once, behind the loop.
  The loop is left towards that test at EOF *and* at the `end` directive. -/

/-- the pass leaves the loop by `break`: EOF or the `end` directive -/
def Step.leaves (s : Step) : Bool :=
  s.ec = 0 && match s.ev with
    | .eof => true
    | .word r _ => stmtResult r = .endDirective
    | _ => false

theorem leaves_act (s : Step) (h : s.leaves = true) : s.act = .leave := by
  obtain ⟨ec, ev⟩ := s
  simp only [Step.leaves, Bool.and_eq_true, decide_eq_true_eq] at h
  obtain ⟨hec, hev⟩ := h
  subst hec
  cases ev with
  | eof => rfl
  | word r instr => simp only [decide_eq_true_eq] at hev; simp [Step.act, hev]
  | eol => simp at hev
  | label r => simp at hev
  | dir n => simp at hev
  | other => simp at hev

/-- **`end` leaves the loop THROUGH the flag test.**  Whatever was assembled before it and whatever text follows it,
    a run that reaches the `end` directive (or EOF) returns what the code behind the loop decides from the sticky
    flag — not 0 unconditionally. -/
theorem end_leaves_through_flag_test (pre : List Step) (s : Step) (post : List Step) (e : Bool)
    (hpre : ∀ x ∈ pre, x.continues = true) (hs : s.leaves = true) :
    assembleRet (pre ++ s :: post) e = some (afterLoop e) := by
  induction pre with
  | nil =>
      rw [assembleRet_eq_loop]
      simp only [List.nil_append, assembleLoop, leaves_act s hs]
  | cons x xs ih =>
      have hx : x.continues = true := hpre x (by simp)
      rw [List.cons_append, assembleRet_continues x _ e hx]
      exact ih (fun y hy => hpre y (by simp [hy]))

/-- **A run that ends through `end` with the error flag set fails** (`directive()` = 2 is the `end` directive; the
    second component of `.word` is irrelevant, `parse_instruction` is not reached). -/
theorem end_with_error_flag_fails (pre post : List Step) (instr : Option Int)
    (hpre : ∀ x ∈ pre, x.continues = true) :
    assembleRet (pre ++ ⟨0, .word 2 instr⟩ :: post) true = some (-1) := by
  rw [end_leaves_through_flag_test pre _ post true hpre (by simp [Step.leaves, stmtResult])]
  rfl

/-- the same at the end of the file -/
theorem eof_with_error_flag_fails (pre post : List Step) (hpre : ∀ x ∈ pre, x.continues = true) :
    assembleRet (pre ++ ⟨0, .eof⟩ :: post) true = some (-1) := by
  rw [end_leaves_through_flag_test pre _ post true hpre (by simp [Step.leaves])]
  rfl

/-- without a deferred error, `end` ends the call successfully and the text behind it is not read -/
theorem end_with_clear_flag_succeeds (pre post : List Step) (instr : Option Int)
    (hpre : ∀ x ∈ pre, x.continues = true) :
    assembleRet (pre ++ ⟨0, .word 2 instr⟩ :: post) false = some 0 := by
  rw [end_leaves_through_flag_test pre _ post false hpre (by simp [Step.leaves, stmtResult])]
  rfl

/-- end to end: a deferred error (flag set, every statement handler "succeeded") in a source that is closed by `end`
    or runs to its end gives exit status 1 and no output file, in pass 1 as in pass 2 -/
theorem deferred_error_reaches_exit (pre : List Step) (s : Step) (post : List Step)
    (hpre : ∀ x ∈ pre, x.continues = true) (hs : s.leaves = true) (o : MainObs)
    (h : some o.pass1 = assembleRet (pre ++ s :: post) true ∨
         (o.pass1 = 0 ∧ o.link1ok = true ∧ some o.pass2 = assembleRet (pre ++ s :: post) true))
    (stale : Bool) :
    (mainFlow o).status = 1 ∧ outputPresent stale (mainFlow o) = false := by
  rw [end_leaves_through_flag_test pre s post true hpre hs] at h
  rcases h with h | ⟨p1, l1, h⟩
  · have hp : o.pass1 = -1 := by simpa [afterLoop] using h
    simp [mainFlow, outputPresent, hp]
  · have hp : o.pass2 = -1 := by simpa [afterLoop] using h
    simp [mainFlow, outputPresent, p1, l1, hp]

/-- non-vacuity: `mov w0,w1 / frobnicate (dsPIC: returns 4, flag set) / mov w1,w2 / end / junk` fails;
    the same statements without the deferred error succeed and the junk behind `end` is never looked at -/
example : assembleRet [⟨0, .word 0 (some 4)⟩, ⟨0, .word 0 (some 4)⟩, ⟨0, .word 0 (some 4)⟩, ⟨0, .word 2 none⟩,
    ⟨0, .other⟩] true = some (-1) := by decide
example : assembleRet [⟨0, .word 0 (some 4)⟩, ⟨0, .word 0 (some 4)⟩, ⟨0, .word 2 none⟩, ⟨0, .other⟩] false = some 0 := by
  decide

/-! ### directives that re-enter assemble() -/

/-- an error in the taken branch of `.if`/`.ifdef`/`.ifndef` is an error of the directive -/
theorem if_taken_error_propagates (cond skip1 skip2 : Int) (hc : cond ≠ 0) :
    parseIfRet cond skip1 (-1) skip2 = -1 := by
  unfold parseIfRet ifdefIgnoreRet assembleBranch
  by_cases h : cond = -1 <;> simp [h, hc]

/-- an error in the `.else` branch assembled after a skipped block, a missing `.endif`
    in a skipped block, and a bad condition are errors of the directive -/
theorem if_else_error_propagates (skip2 : Int) : parseIfRet 0 2 (-1) skip2 = -1 := by
  simp [parseIfRet, ifdefIgnoreRet, assembleBranch]

theorem if_missing_endif_is_error (nested skip2 : Int) : parseIfRet 0 (-1) nested skip2 = -1 := by
  simp [parseIfRet, ifdefIgnoreRet]

theorem if_bad_condition_is_error (s1 n s2 : Int) : parseIfRet (-1) s1 n s2 = -1 := by
  simp [parseIfRet]

theorem if_missing_endif_after_else_is_error (cond skip1 : Int) (hc : cond ≠ 0) (hc' : cond ≠ -1) :
    parseIfRet cond skip1 2 (-1) = -1 := by
  simp [parseIfRet, ifdefIgnoreRet, assembleBranch, hc, hc']

/-- a taken branch that runs into the end of the file (nested assemble() returns 0) or
    into an `.endr` (3) is an error: an unterminated conditional is never accepted -/
theorem if_unterminated_taken_is_error (cond skip1 skip2 nested : Int) (hc : cond ≠ 0)
    (hn : nested = 0 ∨ nested = 3) : parseIfRet cond skip1 nested skip2 = -1 := by
  unfold parseIfRet ifdefIgnoreRet assembleBranch
  by_cases h : cond = -1
  · simp [h]
  · rcases hn with hn | hn <;> simp [h, hc, hn]

/-- a second `.else` is an error -/
theorem if_second_else_is_error (cond skip1 : Int) (hc : cond ≠ 0) (hc' : cond ≠ -1) :
    parseIfRet cond skip1 2 2 = -1 ∧ parseIfRet 0 2 2 skip1 = -1 := by
  simp [parseIfRet, ifdefIgnoreRet, assembleBranch, hc, hc']

/-- a conditional directive succeeds only if its selected branch was closed by `.endif` -/
theorem if_ok_means_closed (cond skip1 nested skip2 : Int) (h : parseIfRet cond skip1 nested skip2 = 0) :
    cond ≠ -1 ∧ ((cond = 0 ∧ (skip1 = 0 ∨ (skip1 = 2 ∧ nested = 5))) ∨
                 (cond ≠ 0 ∧ (nested = 5 ∨ (nested = 2 ∧ skip2 = 0)))) := by
  unfold parseIfRet ifdefIgnoreRet assembleBranch at h
  by_cases hc1 : cond = -1
  · simp [hc1] at h
  · refine ⟨hc1, ?_⟩
    by_cases hc0 : cond = 0
    · left
      refine ⟨hc0, ?_⟩
      simp only [hc1, hc0, ↓reduceIte, decide_true] at h
      by_cases hs : skip1 = 2
      · right
        refine ⟨hs, ?_⟩
        by_cases h5 : nested = 5
        · exact h5
        · by_cases h2 : nested = 2 <;> simp [hs, h5, h2] at h
      · left
        simp [hs] at h
        omega
    · right
      refine ⟨hc0, ?_⟩
      simp only [hc1, hc0, ↓reduceIte, decide_false] at h
      by_cases h5 : nested = 5
      · left; exact h5
      · right
        by_cases h2 : nested = 2
        · refine ⟨h2, ?_⟩
          by_cases hs2 : skip2 = 2
          · simp [h5, h2, hs2] at h
          · simp [h5, h2, hs2] at h
            omega
        · simp [h5, h2] at h

theorem include_error_propagates (opened : Bool) (nested : Int) (h : nested ≠ 0) :
    includeDirRet opened nested = -1 := by
  cases opened <;> simp [includeDirRet, h]

theorem repeat_error_propagates (countOk : Bool) (nested : Int) (h : nested ≠ 3) :
    repeatRet countOk nested = -1 := by
  cases countOk <;> simp [repeatRet, h]

/-- every non-zero result of one of these directives makes the enclosing assemble() fail -/
theorem dir_error_fails_enclosing (n : Int) (h0 : n ≠ 0) (h3 : n ≠ 3) (h4 : n ≠ 4) (h5 : n ≠ 5)
    (pre post : List Step) (e : Bool) (hpre : ∀ x ∈ pre, x.continues = true) :
    assembleRet (pre ++ ⟨0, .dir n⟩ :: post) e = some (-1) :=
  assemble_first_failure pre ⟨0, .dir n⟩ post e hpre (by simp [Step.fails, h0, h3, h4, h5])

/-! ### main() -/

/-- **Exit status 0 ⇔ both passes, both link steps and the writer succeeded.** -/
theorem main_status_iff (o : MainObs) :
    (mainFlow o).status = 0 ↔
      (o.pass1 = 0 ∧ o.link1ok = true ∧ o.pass2 = 0 ∧ o.link2ok = true ∧ o.write ≠ -1) := by
  unfold mainFlow
  cases h1 : o.link1ok <;> cases h2 : o.link2ok <;>
    by_cases p1 : o.pass1 = 0 <;> by_cases p2 : o.pass2 = 0 <;> by_cases w : o.write = -1 <;>
    simp [p1, p2, w]

theorem main_status_01 (o : MainObs) : (mainFlow o).status = 0 ∨ (mainFlow o).status = 1 := by
  cases h1 : o.link1ok <;> cases h2 : o.link2ok <;>
    by_cases p1 : o.pass1 = 0 <;> by_cases p2 : o.pass2 = 0 <;> by_cases w : o.write = -1 <;>
    simp [mainFlow, h1, h2, p1, p2, w]

/-- on success a complete file was written and not removed -/
theorem main_success_writes (o : MainObs) (h : (mainFlow o).status = 0) (stale : Bool) :
    (mainFlow o).wroteFile = true ∧ outputPresent stale (mainFlow o) = true := by
  have := (main_status_iff o).1 h
  obtain ⟨p1, l1, p2, l2, w⟩ := this
  simp [mainFlow, outputPresent, p1, l1, p2, l2, w]

/-- **No output on error**, even a stale one: after any failing run in which the output
    path could be opened (or was never reached) no file is left at the output path. -/
theorem main_no_output_on_error (o : MainObs) (h : (mainFlow o).status ≠ 0)
    (hopen : ¬ (o.pass1 = 0 ∧ o.link1ok = true ∧ o.pass2 = 0 ∧ o.link2ok = true ∧ o.write = -1))
    (stale : Bool) : outputPresent stale (mainFlow o) = false := by
  unfold mainFlow outputPresent at *
  cases h1 : o.link1ok <;> cases h2 : o.link2ok <;>
    by_cases p1 : o.pass1 = 0 <;> by_cases p2 : o.pass2 = 0 <;> by_cases w : o.write = -1 <;>
    simp_all

/-- the remaining case: the output file cannot be opened for writing; the run exits 1
    at once, nothing is written, but a stale file (which then necessarily is not
    writable) is not removed.  Recorded as a limit, not flagged (DESIGN.md C12). -/
theorem main_unopenable_output (o : MainObs)
    (h : o.pass1 = 0 ∧ o.link1ok = true ∧ o.pass2 = 0 ∧ o.link2ok = true ∧ o.write = -1) :
    (mainFlow o).status = 1 ∧ (mainFlow o).wroteFile = false := by
  obtain ⟨p1, l1, p2, l2, w⟩ := h
  simp [mainFlow, p1, l1, p2, l2, w]

/-- end to end: a reported problem in pass 1 or pass 2 gives exit status 1 and no file -/
theorem reported_error_reaches_exit (pre : List Step) (s : Step) (post : List Step) (e : Bool)
    (hpre : ∀ x ∈ pre, x.continues = true) (hs : s.fails = true) (o : MainObs)
    (h : some o.pass1 = assembleRet (pre ++ s :: post) e ∨
         (o.pass1 = 0 ∧ o.link1ok = true ∧ some o.pass2 = assembleRet (pre ++ s :: post) e))
    (stale : Bool) :
    (mainFlow o).status = 1 ∧ outputPresent stale (mainFlow o) = false := by
  rw [assemble_first_failure pre s post e hpre hs] at h
  rcases h with h | ⟨p1, l1, h⟩
  · have hp : o.pass1 = -1 := by simpa using h
    simp [mainFlow, outputPresent, hp]
  · have hp : o.pass2 = -1 := by simpa using h
    simp [mainFlow, outputPresent, p1, l1, hp]

example : (mainFlow ⟨0, true, 0, true, 0⟩).status = 0 ∧ (mainFlow ⟨0, true, -1, true, 0⟩).status = 1 ∧
    outputPresent true (mainFlow ⟨-1, true, 0, true, 0⟩) = false := by decide

end NakenVerif.Core.Driver
