/-
  C01 — assembler and disassembler agree.  CPU-independent statements would go here; the per-CPU theorems are
  imported (RV32I: NakenVerif.Riscv.Props / RoundTrip, namespace NakenVerif.Riscv):
    Arch.decode_encode, Arch.encode_decode, rv32i_encode_sound, rv32i_encode_sound_defined, rv32i_encode_len,
    rv32i_fixpoint_structured, table_spec_rows, table_spec_names, table_rows_known, table_rt_rows,
    rv32i_fence_sound, fence_encode, rv32i_fixpoint_exact, encode_ne_lossy
  MSP430 16-bit core (NakenVerif.Msp430.{Arch,Asm,Disasm,Spec,AsmProofs,AsmProps,AsmSound,DisRows,DisSound,RoundTrip,Fixpoint},
  namespace NakenVerif.Msp430): msp430_encode_sound, msp430_optimize_only_rewrites_index0, msp430_encode_len,
  msp430_walk_exact, msp430_fixpoint_structured (bytewise; Fixpoint.lean), arch_len, arch_reading, table_spec_rows, table_cmd_codes,
  table_core_types, table_no_shadow, table_core_rows, table_core_names, table_dis_kinds, msp430_pcinc_counterexample
  MOS 6502 / 65C02 (NakenVerif.M6502.{Arch,Asm,Disasm,Spec,Tables,AsmProofs,AsmSound,AsmMain,Fixpoint}, namespace
  NakenVerif.M6502): m6502_encode_sound, m6502_encode_len, m6502_walk_exact, m6502_refix_bytes,
  m6502_fixpoint_structured, m6502_fixpoint_lowpage_counterexample, Arch.matrix_opcodes_nodup, Arch.matrix_forms_nodup,
  table_matches_arch, table_names_mnem, table_names_arch, table_names_index, table_names_unique, table_len_consistent,
  table_forms_unique, table_refind, search_hit
-/
import NakenVerif.Riscv.Props
import NakenVerif.Riscv.RoundTrip
import NakenVerif.Riscv.NoLossy
import NakenVerif.Msp430.Fixpoint
import NakenVerif.M6502.Fixpoint
