/-
  C01 — assembler and disassembler agree.  CPU-independent statements would go here; the per-CPU theorems are
  imported (RV32I: NakenVerif.Riscv.Props / RoundTrip, namespace NakenVerif.Riscv):
    Arch.decode_encode, Arch.encode_decode, rv32i_encode_sound, rv32i_encode_sound_defined, rv32i_encode_len,
    rv32i_fixpoint_structured, table_spec_rows, table_spec_names, table_rows_known, table_rt_rows,
    rv32i_fence_sound, fence_encode, rv32i_fixpoint_exact, encode_ne_lossy
  MSP430 16-bit core (NakenVerif.Msp430.{Arch,Asm,Disasm,Spec,AsmProofs,AsmProps,AsmSound,DisRows,DisSound,RoundTrip,Fixpoint},
  namespace NakenVerif.Msp430): msp430_encode_sound, msp430_optimize_only_rewrites_index0, msp430_encode_len,
  msp430_walk_exact, msp430_fixpoint_structured (bytewise; Fixpoint.lean), arch_len, arch_reading, table_spec_rows, table_cmd_codes,
  table_core_types, table_no_shadow, table_core_rows, table_core_names, table_dis_kinds, msp430_pcinc_counterexample
-/
import NakenVerif.Riscv.Props
import NakenVerif.Riscv.RoundTrip
import NakenVerif.Riscv.NoLossy
import NakenVerif.Msp430.Fixpoint
