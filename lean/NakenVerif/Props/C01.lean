/-
  C01 — assembler and disassembler agree.  CPU-independent statements would go here; the per-CPU theorems are
  imported (RV32I: NakenVerif.Riscv.Props / RoundTrip, namespace NakenVerif.Riscv):
    Arch.decode_encode, Arch.encode_decode, rv32i_encode_sound, rv32i_encode_sound_defined, rv32i_encode_len,
    rv32i_fixpoint_structured, table_spec_rows, table_spec_names, table_rows_known, table_rt_rows,
    rv32i_fence_sound, fence_encode, rv32i_fixpoint_exact, encode_ne_lossy
-/
import NakenVerif.Riscv.Props
import NakenVerif.Riscv.RoundTrip
import NakenVerif.Riscv.NoLossy
