/-
  Property C09 — macros, defines, equ, repeat and include are transparent text
  abstractions.

  The reader (`Reader`: unget buffer with per-macro marks, macro text stack,
  parameter arena, file rest) has a character stream (`stream`).  Everything that
  reads characters in the modelled code is a reader program (`Prog`); the theorems
  say that such a program sees the stream and nothing else, what entering a macro
  does to the stream, what is stored by a definition, and what `.include` and
  `.repeat` do.  Capacity side conditions are explicit: a theorem about the
  concrete reader assumes that no capacity event (`Reader.ev`: unget buffer full,
  128 nested texts / arena levels, arena exhausted, a byte read back as EOF below a
  mark) occurred in the run it talks about; the bounds of argument lists and texts
  are hypotheses.
-/
import NakenVerif.Macro.ProofsSubst
import NakenVerif.Macro.Repeat
import NakenVerif.Macro.Asm

namespace NakenVerif.Macro

open NakenVerif.Generated NakenVerif.Macro

/-! ### the stream invariant -/

/-- tokens_get_char() returns the head of the character stream and leaves its tail
    (at any macro nesting depth). -/
theorem get_char_is_stream_head (r : Reader) (h : WF r) (hev : (getChar r).2.ev = none) :
    WF (getChar r).2 ∧ ((getChar r).1, stream (getChar r).2) = Prog.getA (stream r) :=
  getChar_stream r h hev

/-- tokens_unget_char(c) puts (the `char` value of) c in front of the stream. -/
theorem unget_char_is_stream_cons (c : Ch) (r : Reader) (h : WF r) (hev : (ungetChar c r).ev = none) :
    WF (ungetChar c r) ∧ stream (ungetChar c r) = sext8 c :: stream r :=
  ungetChar_stream c r h hev

/-- Every reader program (tokens_get, macros_parse, macros_expand_params, the equ loop,
    a whole statement) computes, on the concrete reader, what it computes on the
    character stream alone, and leaves the rest of that stream. -/
theorem reader_refines_stream {α : Type} (p : Prog α) (r : Reader) (h : WF r)
    (hev : (p.run r).2.ev = none) :
    (p.run r).1 = (p.runA (stream r)).1 ∧ WF (p.run r).2 ∧ stream (p.run r).2 = (p.runA (stream r)).2 :=
  Prog.run_refines p r h hev

/-- second character of: macro text `b` entered after `a` was ungot, file `c` — the ungot `a` -/
example : ∃ (p : Prog Ch) (r : Reader), WF r ∧ (p.run r).2.ev = none ∧ (p.run r).1 = ch 'a' := by
  refine ⟨(Prog.getc.bind fun _ => Prog.getc),
    { unget := [ch 'a'], frames := [{ mark := 1, text := [ch 'b'], arena := false }], file := [ch 'c'] }, ?_, ?_, ?_⟩
  · exact ⟨rfl, by simp [WFF, EOFc, ch]⟩
  · decide +kernel
  · decide +kernel

/-! ### macro invocation -/

/-- **char_stream_of_invocation.**  The reader is at any nesting level, right after the
    name of macro `d` (which has parameters); its stream starts with the call
    `blanks ( l1`, where `l1` holds the arguments `args` up to the matching parenthesis
    (`Spec.scanArgs`) and then `rest`.  Then entering the macro succeeds and the stream
    becomes the definition text with every parameter reference replaced by its argument
    (`expandText`), followed by `rest`.
    Side conditions: as many arguments as parameters (at most 255), the argument text up
    to and including the closing parenthesis fits `params[]` (1021 bytes), fuel, no
    capacity event. -/
theorem char_stream_of_invocation (r : Reader) (hwf : WF r) (d : MacroDef) (hpar : d.params ≠ 0)
    (b l1 rest : List Ch) (args : List (List Ch)) (text : List Ch) (n : Nat)
    (hs : stream r = b ++ ch '(' :: l1)
    (hb : ∀ x ∈ b, isBlankCh x = true)
    (hscan : Spec.scanArgs {} l1 = some (args, rest))
    (hlen : (l1.length - rest.length) + 2 < 1024)
    (hcnt : args.length = d.params) (h255 : args.length ≤ 255)
    (hexp : expandText args d.text = (text, false))
    (hn1 : n > b.length) (hn2 : n > l1.length - rest.length)
    (hev : ((enterMacro n d).run r).2.ev = none) :
    ((enterMacro n d).run r).1 = EnterRes.entered ∧ WF ((enterMacro n d).run r).2 ∧
      stream ((enterMacro n d).run r).2 = normText text ++ rest := by
  obtain ⟨h1, h2, h3⟩ := Prog.run_refines (enterMacro n d) r hwf hev
  rw [hs, enterMacro_runA d hpar b l1 rest args text n hb hscan hlen hcnt h255 hexp hn1 hn2] at h1 h3
  exact ⟨h1, h2, h3⟩

/-- `m(r5, "a,b")` for `.macro m(x, y)` with text `mov x, y⏎`, inside an outer macro text -/
example :
    let d : MacroDef := { name := str "m", params := 2, text := str "mov " ++ [1, 1] ++ str ", " ++ [1, 2] ++ [10] }
    let r : Reader := { unget := [], frames := [{ mark := 0, text := str "(r5, \"a,b\")\n nop\n", arena := false }],
                        file := str " end\n" }
    WF r ∧ ((enterMacro 30 d).run r).2.ev = none ∧
      stream ((enterMacro 30 d).run r).2 = str "mov r5, \"a,b\"\n\n nop\n end\n" := by
  refine ⟨⟨rfl, by simp [WFF, EOFc, str]⟩, by decide +kernel, by decide +kernel⟩

/-- **define_transparent** (also `NAME equ VALUE`, `.equ`, `.macro NAME` without parameters):
    entering a macro without parameters puts its text in front of the stream. -/
theorem define_transparent (r : Reader) (hwf : WF r) (d : MacroDef) (hpar : d.params = 0) (n : Nat)
    (hev : ((enterMacro n d).run r).2.ev = none) :
    ((enterMacro n d).run r).1 = EnterRes.entered ∧ WF ((enterMacro n d).run r).2 ∧
      stream ((enterMacro n d).run r).2 = normText d.text ++ stream r := by
  obtain ⟨h1, h2, h3⟩ := Prog.run_refines (enterMacro n d) r hwf hev
  rw [enterMacro_runA_zero d hpar] at h1 h3
  exact ⟨h1, h2, h3⟩

example :
    let d : MacroDef := { name := str "A", params := 0, text := str "5 " }
    let r : Reader := { unget := [ch '+'], file := str "1\n" }
    WF r ∧ ((enterMacro 5 d).run r).2.ev = none ∧ stream ((enterMacro 5 d).run r).2 = str "5 +1\n" := by
  refine ⟨⟨rfl, by simp [WFF, EOFc, str]⟩, by decide +kernel, by decide +kernel⟩

/-- **The stored text of a `.define` is the word-wise substitution.**  See
    `define_text_subst`: for identifier parameters (fewer than 47), a plain text and
    any arguments, the loop of macros_parse stores a text that macros_strip and
    macros_append leave alone and whose expansion is the text with every whole word
    that is a parameter name replaced by the argument, plus the separating blank. -/
theorem macro_body_is_word_substitution (ps args : List (List Ch)) (hlen : args.length = ps.length)
    (hid : ∀ p ∈ ps, Spec.IsIdent p) (hps : ps.length < 47)
    (body rest : List Ch) (hplain : Spec.plain body) (hfirst : body.head? ≠ some (ch ' '))
    (hsize : 2 * body.length + 4 < maxMacroLen) (n : Nat) (hn : n > body.length) :
    ∃ enc, (bodyLoop true ps n {}).runA (body ++ 10 :: rest) = (BodyRes.ok enc, rest) ∧
      normText (macrosStrip (cstr enc)) = enc ∧
      expandText args enc = (Spec.substWords ps (args.map normText) body ++ [ch ' '], false) :=
  define_text_subst ps args hlen hid hps body rest hplain hfirst hsize n hn

/-- `#define F(b, h) 1b + 10h + b*h` with arguments `5` and `(6)`: the literals are not touched -/
example : Spec.substWords [str "b", str "h"] [str "5", str "(6)"] (str "1b + 10h + b*h") = str "1b + 10h + 5*(6)" := by
  decide +kernel

/-- **equ_transparent.**  `NAME equ VALUE` with a plain value stores `VALUE` followed by a
    blank, and leaves the line end in the stream; `define_transparent` says what a use of
    NAME then reads. -/
theorem equ_transparent (env : Env) (name : List Ch) (r : Reader) (hwf : WF r) (v rest : List Ch) (n : Nat)
    (hs : stream r = v ++ 10 :: rest) (hplain : Spec.plain v) (hsize : v.length + 1 < tokenLen)
    (hn : n > v.length) (hev : ((equLine env name n).run r).2.ev = none) :
    ((equLine env name n).run r).1.ret = 0 ∧
      ((equLine env name n).run r).1.def? = macrosAppend env name (v ++ [ch ' ']) 0 ∧
      (∀ d, macrosAppend env name (v ++ [ch ' ']) 0 = some d → d.params = 0 ∧ d.text = v ++ [ch ' ']) ∧
      stream ((equLine env name n).run r).2 = 10 :: rest := by
  obtain ⟨h1, _, h3⟩ := Prog.run_refines (equLine env name n) r hwf hev
  have hrun : (equLine env name n).runA (v ++ 10 :: rest) =
      ({ ret := 0, def? := macrosAppend env name (v ++ [ch ' ']) 0 }, 10 :: rest) := by
    unfold equLine
    rw [Prog.runA_bind, equLoop_plain rest v [] n hplain (by intro x hx; simp at hx) (by simpa using hsize) hn]
    have hok : ∀ x ∈ v, OKc x := fun x hx => OKc_of_plain (hplain x hx)
    simp only [List.nil_append, Prog.runA, cstr_id v hok, macrosStrip_id v hok]
  rw [hs, hrun] at h1 h3
  refine ⟨by rw [h1], by rw [h1], ?_, h3⟩
  intro d hd
  have hok : ∀ x ∈ v ++ [ch ' '], OKc x := by
    intro x hx
    rcases List.mem_append.mp hx with h | h
    · exact OKc_of_plain (hplain x h)
    · simp only [List.mem_singleton] at h; subst h; unfold OKc ch; decide
  unfold macrosAppend at hd
  split at hd
  · cases hd
  · split at hd
    · cases hd
    · split at hd
      · cases hd
      · simp only [Option.some.injEq] at hd
        rw [← hd]
        exact ⟨rfl, normText_id _ hok⟩

example :
    let r : Reader := { file := str "1+2\n op X*3\n" }
    ((equLine {} (str "X") 10).run r).2.ev = none ∧
      ((equLine {} (str "X") 10).run r).1.def? = some { name := str "X", params := 0, text := str "1+2 " } := by
  refine ⟨by decide +kernel, by decide +kernel⟩

/-- **macro_transparent.**  What a reader program returns depends on the character stream
    only: a reader inside a macro expansion and a reader whose file contains the expanded
    text by hand produce the same tokens, statement after statement. -/
theorem macro_transparent {α : Type} (p : Prog α) (r1 r2 : Reader) (h1 : WF r1) (h2 : WF r2)
    (hs : stream r1 = stream r2) (e1 : (p.run r1).2.ev = none) (e2 : (p.run r2).2.ev = none) :
    (p.run r1).1 = (p.run r2).1 ∧ stream (p.run r1).2 = stream (p.run r2).2 := by
  obtain ⟨a1, _, a3⟩ := Prog.run_refines p r1 h1 e1
  obtain ⟨b1, _, b3⟩ := Prog.run_refines p r2 h2 e2
  rw [hs] at a1 a3
  exact ⟨a1.trans b1.symm, a3.trans b3.symm⟩

/-- the hand-expanded file: its stream is the text itself (carriage returns aside) -/
theorem hand_expansion_stream (text : List Ch) : WF { file := text } ∧ stream { file := text } = fileStream text :=
  ⟨WF_file text, stream_file text⟩

/-- a statement read inside the expansion of `A` (`.define A 5`) and from the hand-written `5 +1` -/
example :
    let env : Env := {}
    let r1 : Reader := { unget := [ch '+'], frames := [{ mark := 1, text := str "5 ", arena := false }], file := str "1\n" }
    let r2 : Reader := { file := str "5 +1\n" }
    stream r1 = stream r2 ∧
      (((tokensGet env 20).run r1).1.text, ((tokensGet env 20).run r1).1.ty) = (str "5", TokType.number) ∧
      (((tokensGet env 20).run r2).1.text, ((tokensGet env 20).run r2).1.ty) = (str "5", TokType.number) := by
  refine ⟨by decide +kernel, by decide +kernel, by decide +kernel⟩

/-! ### include -/

/-- **include_transparent.**  `p` stands for the statements of the included file (the nested
    assemble()).  If, run on the included text alone, it consumes that text exactly without
    reading past its end (the file ends with a complete line), then run on the spliced text
    `inc ++ outer` it returns the same and leaves exactly `outer`; and the real sequence —
    read the included file to its end, then restore the outer file — leaves the same stream. -/
theorem include_transparent {α : Type} (p : Prog α) (inc outer : List Ch) (a : α)
    (h : p.runN (fileStream inc) = some (a, []))
    (e1 : (p.run { file := inc }).2.ev = none) (e2 : (p.run { file := inc ++ outer }).2.ev = none) :
    (p.run { file := inc ++ outer }).1 = a ∧ (p.run { file := inc }).1 = a ∧
      stream (p.run { file := inc ++ outer }).2 = fileStream outer ∧
      stream { (p.run { file := inc }).2 with file := outer } = fileStream outer := by
  obtain ⟨a1, _, a3⟩ := Prog.run_refines p { file := inc ++ outer } (WF_file _) e2
  obtain ⟨b1, _, b3⟩ := Prog.run_refines p { file := inc } (WF_file _) e1
  rw [stream_file, fileStream_append, Prog.runN_append p _ a [] h (fileStream outer)] at a1 a3
  have hb := Prog.runN_append p _ a [] h []
  rw [stream_file] at b1 b3
  simp only [List.append_nil, List.nil_append] at hb a1 a3
  rw [hb] at b1 b3
  exact ⟨a1, b1, a3, stream_restore_file _ b3 outer⟩

/-- two tokens of an included line, then the outer file continues -/
example :
    let p : Prog (List Ch × List Ch) := (tokensGet {} 20).bind fun t1 => (tokensGet {} 20).bind fun t2 => .ret (t1.text, t2.text)
    p.runN (fileStream (str "op\r\n")) = some ((str "op", [10]), []) ∧
      (p.run { file := str "op\r\n" ++ str " nop\n" }).2.ev = none ∧
      stream (p.run { file := str "op\r\n" ++ str " nop\n" }).2 = str " nop\n" := by
  refine ⟨by decide +kernel, by decide +kernel, by decide +kernel⟩

/-! ### repeat -/

open Repeat in
/-- **repeat_copies.**  After the body of `.repeat count` was assembled once into
    [start, start + len), the copy loop of parse_repeat leaves `count` consecutive copies of
    those bytes (with their data/code kind), advances the location counter by
    `count * len`, and changes nothing else — provided the block stays inside the 32-bit
    address space. -/
theorem repeat_copies (s : St) (start len count : Nat) (hc : count ≥ 1)
    (ha : s.address = start + len) (hfit : start + count * len < 2 ^ 32) :
    (repeatCopy s start count).address = start + count * len ∧
    (∀ k i, k < count → i < len → (repeatCopy s start count).mem (start + k * len + i) = s.mem (start + i)) ∧
    (∀ a, a < start + len ∨ a ≥ start + count * len → (repeatCopy s start count).mem a = s.mem a) := by
  have hlen : s.address - start = len := by omega
  have hnlt : ¬ s.address < start := by omega
  unfold repeatCopy
  rw [if_neg hnlt, hlen]
  have e : 0 + 1 + (count - 1) = count := by omega
  obtain ⟨r1, r2, r3⟩ := copies_spec start len s.mem (count - 1) s 0 (by simpa using ha)
    (by rw [e]; exact hfit)
    (by intro m i hm hi; have : m = 0 := by omega
        subst this; simp)
  rw [e] at r1 r3
  refine ⟨r1, ?_, ?_⟩
  · intro k i hk hi
    exact r2 k i (by omega) hi
  · intro a h
    apply r3
    rw [ha]
    exact h

open Repeat in
example :
    let s : St := { mem := fun a => if a = 0x100 then (0x33, 1) else if a = 0x101 then (0x44, 0) else (0, 2), address := 0x102 }
    (repeatCopy s 0x100 3).address = 0x106 ∧ (repeatCopy s 0x100 3).mem 0x104 = (0x33, 1) ∧
      (repeatCopy s 0x100 3).mem 0x105 = (0x44, 0) := by
  refine ⟨by decide +kernel, by decide +kernel, by decide +kernel⟩

/-! ### defects left in the code (known findings) -/

/-- macros_parse does not know about string literals: a tab inside a string literal of a macro
    text is stored as a blank (`.define S "x<TAB>y"`). -/
theorem tab_in_string_counterexample :
    (bodyLoop true [] 20 {}).runA (str "\"x\ty\"" ++ [10]) = (BodyRes.ok (str "\"x y\" "), []) := by
  decide +kernel

/-- … and a `;` inside a string literal starts a comment (`.define S "a;b"` stores `"a`). -/
theorem string_semicolon_counterexample :
    (bodyLoop true [] 20 {}).runA (str "\"a;b\"" ++ [10]) = (BodyRes.ok (str "\"a "), []) := by
  decide +kernel

/-- the index byte of parameter 59 is `;`: macros_strip cuts the stored text there, and the
    expansion then fails with "Bad parameter reference". -/
theorem param59_counterexample :
    macrosStrip [ch 'x', 1, 59, ch 'y'] = [ch 'x', 1] ∧
      (expandText (List.replicate 60 [ch '7']) [ch 'x', 1]).2 = true := by
  decide +kernel

end NakenVerif.Macro
