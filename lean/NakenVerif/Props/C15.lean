/-
  C15 (MSP430 part) -- the simulator step survives every opcode from every state, deterministically.
-/
import NakenVerif.Msp430.SimProofs
import NakenVerif.Props.C14
import NakenVerif.Props.C15Sim

namespace NakenVerif.C15
open NakenVerif.Msp430.Sim NakenVerif.Msp430.SimArch NakenVerif.Msp430.SimProofs
set_option linter.unusedSimpArgs false

/-- the dispatch always yields a result: `idx` never fails on a 4-bit field of the opcode -/
theorem exec_some (bio : BitVec 32) (c : Core) (w : BitVec 16) : ∃ e, exec bio c w = some e := by
  unfold exec oneOperandExe twoOperandExe
  simp only [idx_lo, idx_hi]
  repeat' split
  all_goals exact ⟨_, rfl⟩

/-- No `reg[]` index computed by one step leaves 0..15: the model's `fault` outcome (the only place
    where the C++ could index outside `uint16_t reg[16]`) is unreachable, for every opcode word,
    register file, memory content and `break_io` setting. -/
theorem step_no_fault (s : SimState) : Msp430.Sim.step s ≠ .fault := by
  obtain ⟨e, he⟩ := exec_some s.breakIo
    { regs := setReg s.regs 0 (getReg s.regs 0 + 2), mem := s.mem, ncc := s.nestedCallCount, writes := [], brk := none }
    (fetch s)
  unfold Msp430.Sim.step
  simp only [he]
  split <;> simp

/-- The step is a function of the simulator state (registers, memory, cycle and call counters,
    `break_io`): the model has no other input, so two executions from the same state agree.
    (That the C++ has no further hidden input is what the `sim`/`simstep` streams check.) -/
theorem step_deterministic (s : SimState) (r1 r2 : StepResult) (h1 : Msp430.Sim.step s = r1) (h2 : Msp430.Sim.step s = r2) :
    r1 = r2 := h1 ▸ h2 ▸ rfl

/-- every outcome is one of: executed, illegal instruction, or break (`exit`) -/
theorem step_returns (s : SimState) :
    (∃ o, Msp430.Sim.step s = .ok o) ∨ (∃ st, Msp430.Sim.step s = .exit st) := by
  have h := step_no_fault s
  cases hs : Msp430.Sim.step s with
  | ok o => exact Or.inl ⟨o, rfl⟩
  | exit st => exact Or.inr ⟨st, rfl⟩
  | fault => exact absurd hs h

/-! ### Every byte written lies inside the simulated 64 KiB address space -/

/-- `l` extends `base` only by writes inside the 64 KiB address space -/
def WOK (base l : List (BitVec 32 × BitVec 8)) : Prop := ∀ w ∈ l, w ∈ base ∨ w.1 < 0x10000

theorem wok_refl (b : List (BitVec 32 × BitVec 8)) : WOK b b := fun _ h => Or.inl h

theorem getData_ea_range (regs : Regs) (m : Mem) (r : BitVec 4) (as : BitVec 2) (bw dr : Bool) :
    (getData regs m r as bw dr).ea = EA_NONE ∨ (getData regs m r as bw dr).ea < 0x10000 := by
  unfold getData EA_NONE
  simp only [ea_norm, apply_ite GD.ea]
  bv_decide

theorem mask_range (a : BitVec 32) (h : a < 0x10000) : (a &&& 0xfffe) < 0x10000 ∧ (a &&& 0xfffe) + 1 < 0x10000 := by
  constructor <;> bv_decide

theorem zext_mask_range (x : BitVec 16) :
    (x.zeroExtend 32 &&& 0xfffe) < 0x10000 ∧ (x.zeroExtend 32 &&& 0xfffe) + 1 < 0x10000 := by
  constructor <;> bv_decide

theorem ramWrite16_wok (bio : BitVec 32) (c : Core) (a : BitVec 32) (v : BitVec 16)
    (h : a < 0x10000 ∧ a + 1 < 0x10000) : WOK c.writes (ramWrite16 bio c a v).writes := by
  intro w hw
  unfold ramWrite16 at hw
  simp only [List.mem_append, List.mem_cons, List.not_mem_nil, or_false] at hw
  rcases hw with hw | hw | hw
  · exact Or.inl hw
  · right; rw [hw]; exact h.1
  · right; rw [hw]; exact h.2

theorem putData_wok (bio : BitVec 32) (c : Core) (ea : BitVec 32) (ri : BitVec 4) (isReg bw : Bool) (data : BitVec 32)
    (h : ea = EA_NONE ∨ ea < 0x10000) : WOK c.writes (putData bio c ea ri isReg bw data).writes := by
  unfold putData
  split
  · exact wok_refl _
  · split
    · exact wok_refl _
    · rename_i hne
      have hlt : ea < 0x10000 := h.resolve_left hne
      split
      · intro w hw
        unfold ramWrite8 at hw
        simp only [List.mem_append, List.mem_cons, List.not_mem_nil, or_false] at hw
        rcases hw with hw | hw
        · exact Or.inl hw
        · right; rw [hw]; exact hlt
      · exact ramWrite16_wok _ _ _ _ (mask_range ea hlt)

theorem operands_ea_range (regs : Regs) (m : Mem) (sr dr : BitVec 4) (as : BitVec 2) (ad bw doRead : Bool) :
    (operands regs m sr dr as ad bw doRead).ea = EA_NONE ∨ (operands regs m sr dr as ad bw doRead).ea < 0x10000 := by
  unfold operands
  exact getData_ea_range _ _ _ _ _ _

theorem twoOp_wok (bio : BitVec 32) (c : Core) (o sr dr : BitVec 4) (as : BitVec 2) (ad bw : Bool) :
    WOK c.writes (twoOp bio c o sr dr as ad bw).core.writes := by
  have hp : ∀ (c' : Core) (doRead : Bool) data, c'.writes = c.writes →
      WOK c.writes (putData bio c' (operands c.regs c.mem sr dr as ad bw doRead).ea dr (!ad) bw data).writes := by
    intro c' doRead data hc
    rw [← hc]
    exact putData_wok _ _ _ _ _ _ _ (operands_ea_range _ _ _ _ _ _ _ _)
  have ho : o = 0 ∨ o = 1 ∨ o = 2 ∨ o = 3 ∨ o = 4 ∨ o = 5 ∨ o = 6 ∨ o = 7 ∨ o = 8 ∨ o = 9 ∨ o = 10 ∨ o = 11 ∨
      o = 12 ∨ o = 13 ∨ o = 14 ∨ o = 15 := by bv_decide
  unfold twoOp
  rcases ho with rfl | rfl | rfl | rfl | rfl | rfl | rfl | rfl | rfl | rfl | rfl | rfl | rfl | rfl | rfl | rfl <;>
    simp only [BitVec.reduceEq, BitVec.reduceLT, reduceIte, or_true, true_or, or_false, false_or] <;>
    first
      | exact wok_refl _
      | exact hp _ _ _ rfl

theorem oneOp_wok (bio : BitVec 32) (c : Core) (o : BitVec 3) (ri : BitVec 4) (as : BitVec 2) (bw : Bool) :
    WOK c.writes (oneOp bio c o ri as bw).writes := by
  have hp : ∀ (c' : Core) data, c'.writes = c.writes →
      WOK c.writes (putData bio c' (getData c.regs c.mem ri as bw true).ea ri (decide (as = 0)) bw data).writes := by
    intro c' data hc
    rw [← hc]
    exact putData_wok _ _ _ _ _ _ _ (getData_ea_range _ _ _ _ _ _)
  have hw : ∀ (c' : Core) (x v : BitVec 16), c'.writes = c.writes →
      WOK c.writes (ramWrite16 bio c' (x.zeroExtend 32 &&& 0xfffe) v).writes := by
    intro c' x v hc
    rw [← hc]
    exact ramWrite16_wok _ _ _ _ (zext_mask_range x)
  have ho : o = 0 ∨ o = 1 ∨ o = 2 ∨ o = 3 ∨ o = 4 ∨ o = 5 ∨ o = 6 ∨ o = 7 := by bv_decide
  unfold oneOp
  rcases ho with rfl | rfl | rfl | rfl | rfl | rfl | rfl | rfl <;>
    simp only [BitVec.reduceEq, reduceIte] <;>
    first
      | exact hp _ _ rfl
      | exact hw _ _ _ rfl

theorem exec_wok (bio : BitVec 32) (c : Core) (w : BitVec 16) (e : Exe) (h : exec bio c w = some e) :
    WOK c.writes e.core.writes := by
  unfold exec oneOperandExe twoOperandExe at h
  simp only [idx_lo, idx_hi] at h
  split at h
  · split at h
    · injection h with h; subst h; exact wok_refl _
    · split at h
      · injection h with h; subst h; exact wok_refl _
      · injection h with h; subst h; exact oneOp_wok _ _ _ _ _ _
  · split at h
    · injection h with h; subst h; exact wok_refl _
    · injection h with h; subst h
      exact twoOp_wok bio { c with ncc := if w = 0x4130 then c.ncc - 1 else c.ncc } _ _ _ _ _ _

/-- **C15, memory safety of the MSP430 step.**  Every byte the step writes (every `Memory::write8`
    reached through `ram_write8/16`) has an address below 2^16, for every opcode word, register
    file, memory content and `break_io`: constants and immediates as destinations are not written
    (`ea == -1`), and word writes clear bit 0 of the address, so `address + 1` stays in range. -/
theorem writes_inside_address_space (s : SimState) (o : StepOut) (h : Msp430.Sim.step s = .ok o) :
    ∀ w ∈ o.writes, w.1 < 0x10000 := by
  obtain ⟨e, he⟩ := exec_some s.breakIo
    { regs := setReg s.regs 0 (getReg s.regs 0 + 2), mem := s.mem, ncc := s.nestedCallCount, writes := [], brk := none }
    (fetch s)
  have hw := exec_wok _ _ _ _ he
  unfold Msp430.Sim.step at h
  simp only [he] at h
  split at h
  · exact absurd h (by simp)
  · injection h with h
    subst h
    intro w hin
    rcases hw w hin with hb | hlt
    · exact absurd hb (by simp)
    · exact hlt

/-! ### PC advance = length reported by the disassembler -/

theorem arch_pc_advance (regs : Regs) (m : Mem) (hd : defined regs m = true)
    (hnb : nonBranching (rd16 m (getReg regs PC)) = true) :
    getReg (NakenVerif.Msp430.SimArch.step regs m).regs 0 = getReg regs 0 + coreLen (rd16 m (getReg regs PC)) ∧
      isCore (rd16 m (getReg regs PC)) = true := by
  unfold defined at hd
  unfold NakenVerif.Msp430.SimArch.step
  simp only []
  simp only [Bool.decide_and, Bool.and_eq_true, decide_eq_true_eq] at hd
  obtain ⟨-, hd⟩ := hd
  generalize rd16 m (getReg regs PC) = w at *
  generalize hr : setReg regs PC (getReg regs PC + 2) = regs' at *
  have hpc : getReg regs' 0 = getReg regs 0 + 2 := by
    rw [← hr]; simp only [PC, getReg, setReg, lane]; bv_decide
  unfold definedW at hd
  unfold execW
  have hj : ¬ (w.extractLsb' 13 3 = (1 : BitVec 3)) := by unfold nonBranching at hnb; bv_decide
  simp only [hj, if_false] at hd ⊢
  by_cases h2 : w.extractLsb' 10 6 = (0b000100 : BitVec 6)
  · simp only [h2, if_true] at hd ⊢
    unfold formatII
    unfold definedII definedIIx at hd
    have h4 : (w.extractLsb' 7 3 : BitVec 3) ≤ 4 := by unfold nonBranching at hnb; bv_decide
    have hn : ¬ ((w.extractLsb' 7 3 : BitVec 3) ≤ 3 ∧ w.extractLsb' 4 2 = (0 : BitVec 2) ∧ w.extractLsb' 0 4 = (0 : BitVec 4)) := by
      unfold nonBranching at hnb; bv_decide
    have := execII_pc regs' m _ _ _ (decide (w.extractLsb' 6 1 = 1)) h4 hn
    rw [this, hpc]
    have hbyte : ¬ (w.extractLsb' 6 1 = (1 : BitVec 1) ∧ ((w.extractLsb' 7 3 : BitVec 3) = 1 ∨ (w.extractLsb' 7 3 : BitVec 3) = 3)) := by
      intro hb
      rcases hb with ⟨hb, h13⟩
      rcases h13 with h13 | h13 <;>
        (rw [h13] at hd; simp only [BitVec.reduceEq, reduceIte, hb, decide_true, true_and, or_true, true_or, not_true_eq_false,
          decide_false, Bool.false_and, Bool.false_eq_true, false_and] at hd)
    unfold coreLen isCore srcExt
    constructor <;> bv_decide
  · simp only [h2, if_false] at hd ⊢
    unfold formatI
    unfold definedI definedIx at hd
    simp only [Bool.decide_and, Bool.and_eq_true, decide_eq_true_eq, Bool.not_eq_true', decide_eq_false_iff_not, CG] at hd
    have hop : (w.extractLsb' 12 4 : BitVec 4) ≥ 4 := hd.1
    have hcg : ¬ (decide (w.extractLsb' 7 1 = 1) = true ∧ w.extractLsb' 0 4 = (3 : BitVec 4)) := by
      simpa only [decide_eq_true_eq] using hd.2.2.2.1
    have hn : ¬ (decide (w.extractLsb' 7 1 = 1) = false ∧ w.extractLsb' 0 4 = (0 : BitVec 4)) := by
      unfold nonBranching at hnb
      simp only [decide_eq_false_iff_not]
      bv_decide
    have := execI_pc regs' m (w.extractLsb' 12 4) (w.extractLsb' 8 4) (w.extractLsb' 0 4) (w.extractLsb' 4 2)
      (decide (w.extractLsb' 7 1 = 1)) (decide (w.extractLsb' 6 1 = 1)) hn
    rcases this with this | this
    · rw [this, hpc]
      unfold coreLen isCore srcExt
      simp only [decide_eq_true_eq] at hcg ⊢
      constructor <;> bv_decide
    · exact absurd this hcg

/-- **C15, pc_advance.**  For every defined instruction that is not a branch (no jump, CALL, RETI, and
    the PC is not the register-mode destination) the program counter after the step is the address of the
    next disassembled instruction: PC + the length `disasm_msp430` returns (model `disLen`, validated
    against the real function on all 65,536 first words on every run). -/
theorem pc_advance (s : SimState) (o : StepOut) (hd : Defined s.regs s.mem)
    (hnb : nonBranching (fetch s) = true) (h : Msp430.Sim.step s = .ok o) (w1 : BitVec 16) :
    getReg o.state.regs 0 = getReg s.regs 0 + BitVec.ofNat 16 (disLen (fetch s) w1) := by
  have hr := (C14.sim_refines_arch s hd o h).2.1
  have ha := arch_pc_advance s.regs s.mem hd hnb
  have hl := disLen_core (rd16 s.mem (getReg s.regs PC)) w1 ha.2
  rw [hr, ha.1]
  show _ = getReg s.regs 0 + BitVec.ofNat 16 (disLen (rd16 s.mem (getReg s.regs PC)) w1)
  rw [hl]

/-- non-vacuity: `add r5, r6` is defined and non-branching, its length is 2 -/
example : Defined C14.addState.regs C14.addState.mem ∧ nonBranching (fetch C14.addState) = true ∧
    disLen (fetch C14.addState) 0 = 2 := by
  refine ⟨by unfold Defined; decide, by decide, by decide⟩

/-! non-vacuity: the two former counterexamples (fixed by 1402eee and d9b06ff) -/

def rraConstState : SimState :=
  { regs := setReg 0 0 0xf000,
    mem := fun a => if a = 0xf000 then 0x22 else if a = 0xf001 then 0x11 else 0,      -- 0x1122: rra #4
    cycleCount := 0, nestedCallCount := 0, breakIo := 0xffffffff }

/-- `rra #4` (result of an instruction on a generated constant) is not stored anywhere -/
example : (match Msp430.Sim.step rraConstState with | .ok o => some o.writes | _ => none) = some [] := by decide

def pushOddState : SimState :=
  { regs := setReg (setReg (setReg 0 0 0xf000) 1 0x0001) 4 0x1234,
    mem := fun a => if a = 0xf000 then 0x04 else if a = 0xf001 then 0x12 else 0,      -- 0x1204: push r4
    cycleCount := 0, nestedCallCount := 0, breakIo := 0x20000 }

/-- `push r4` with SP = 1: the word goes to 0xfffe/0xffff, nothing to 0x10000 -/
example : (match Msp430.Sim.step pushOddState with | .ok o => some o.writes | _ => none) =
    some [(0x0000fffe, 0x34), (0x0000ffff, 0x12)] := by decide

end NakenVerif.C15
