/-
Property C13 — assembly is a deterministic function of the source alone.

The model (Determinism/Impl.lean) is a function, so "same source, same output" is free; the content is
non-interference.  What is proved, for every program of the modelled statement language (labels, `.<cpu>`,
byte order, segments, `.org`, data directives with forward references, `.resb`, `.define`, `.list`, the MSP430
immediate instruction with its pass-1 flag byte, `.ifdef`/`.ifndef`/`.else`, `.repeat`, `.include`), every option
record, every nesting:

 1. `image_indep_of_reporting` — exit status, every image cell (byte and mark), low/high, byte order, symbols,
    counters: the same for any two option records that differ in -l, -q, -dump_symbols, -dump_macros, output type,
    output name.  `listing_leaves_assembly_alone` — the statement loop run with any reporting state (list file open
    or not, write_list_file, -q …) leaves the same assembler state: the listing hooks only append to the list file.
 2. `pass_start_depends_only_on_kept` — what a pass sees of the previous pass is the image cells and the members
    AsmContext::init() keeps (bounds, symbols + lock, pass number, error flag/count, -optimize): byte order, CPU
    selection, lexer flags, segment, location counter, macro table, reader state do not reach pass 2.
    `init_matches_code`, `construct_matches_code` tie `initK` / `construct` to the working tree (translator probe).
    `initBefore_leaks_byte_order` — the same statement is false for init() as it was before commits 258559a/66c8e37.
 3. `pass_image_frame_partial` / `pass_image_overlay_partial` / `no_leftover_image_eq_partial` — of the image a
    previous pass left, a pass reads only where a byte has the value 1 (the flag); the image it ends with is, cell
    by cell, what it wrote, or the untouched prior cell.  PARTIAL: programs without `.repeat` (whose copy loop reads
    image cells) — and the conclusion is an overlay, not independence: see 4.
 4. `pass1_leftover_counterexample` — the genuine defect left in the code: a byte assembled in pass 1 only
    (`.ifndef later` … with `later` defined further down) stays in the final image.
 5. `history_irrelevant`, `include_depth_restored` — the one static of the assembler (include depth) is restored by
    every statement loop, so an assembly after any history of assemblies equals the assembly of a fresh process.

Not a theorem (runtime facts): uninitialised memory, heap reuse, the 66 other instruction parsers, the file
writers — covered by the streams of tools/props/C13.py and named there.
-/
import NakenVerif.Determinism.Spec
import NakenVerif.Determinism.ProofsReport
import NakenVerif.Determinism.ProofsMem
import NakenVerif.Determinism.ProofsInit
import NakenVerif.Determinism.ProofsDepth

namespace NakenVerif.Determinism
open Spec

/-- the observation of a run of main() -/
def observe (r : MainResult) : Observation :=
  { status := r.status, image := image r.cell, low := r.k.low, high := r.k.high, bigEndian := r.k.bigEndian,
    symbols := r.k.syms }

/-! ### 1. reporting options, output type, output name -/

/-- everything the assembly proper leaves — status, all cells with their marks, every scalar and table of the
context — is the same for option records that differ only in -l, -q, -dump_symbols, -dump_macros, type, name -/
theorem image_indep_of_reporting (depth : Nat) (o1 o2 : Opts) (p : Prog) (h : ReportingVariant o1 o2) :
    (mainRun depth o1 p).outcome = (mainRun depth o2 p).outcome :=
  mainRun_outcome_indep depth o1 o2 h p

/-- the same in the words of the specification -/
theorem option_independent (depth : Nat) : OptionIndependent (fun o p => observe (mainRun depth o p)) := by
  intro o1 o2 p h
  have e := image_indep_of_reporting depth o1 o2 p h
  have e1 : (mainRun depth o1 p).status = (mainRun depth o2 p).status := congrArg Outcome.status e
  have e2 : (mainRun depth o1 p).cell = (mainRun depth o2 p).cell := congrArg Outcome.cell e
  have e3 : (mainRun depth o1 p).k = (mainRun depth o2 p).k := congrArg Outcome.k e
  simp only [observe, e1, e2, e3]

/-- "The listing … is produced without altering what is assembled": the statement loop started with any two
reporting states (list file open or NULL, write_list_file on or off, -q, -dump_*) ends with the same verdict, cells
and context; and the listing text is a function of the cells it is shown (`listOutput` takes nothing else) -/
theorem listing_leaves_assembly_alone (p : Prog) (c : Ctx) (r' : Rep) :
    (exec p c).ok = (exec p { c with rep := r' }).ok ∧
    (exec p c).ctx.k = (exec p { c with rep := r' }).ctx.k ∧
    (exec p c).ctx.cell = (exec p { c with rep := r' }).ctx.cell := by
  have h := exec_coreEq p (c1 := c) (c2 := { c with rep := r' }) ⟨rfl, rfl⟩
  exact ⟨h.1, h.2.1, h.2.2⟩

/-- writing to the list file changes nothing but the list file -/
theorem listing_writes_only_the_list_file (c : Ctx) (ls : List String) :
    (c.listAppend ls).k = c.k ∧ (c.listAppend ls).cell = c.cell ∧
    (c.listAppend ls).rep.quiet = c.rep.quiet ∧ (c.listAppend ls).rep.writeListFile = c.rep.writeListFile := by
  unfold Ctx.listAppend; split <;> simp

/-! ### 2. what a pass sees of the previous one -/

/-- two contexts with the same cells that agree on what init() keeps start the next pass identically, whatever
byte order, CPU, lexer flags, segment, location counter, counters, macros, reader state they ended with -/
theorem pass_start_depends_only_on_kept (p : Prog) (c1 c2 : Ctx) (hc : c1.cell = c2.cell)
    (hk : c1.k.kept = c2.k.kept) :
    (exec p (init c1)).ok = (exec p (init c2)).ok ∧ (exec p (init c1)).ctx.k = (exec p (init c2)).ctx.k ∧
    (exec p (init c1)).ctx.cell = (exec p (init c2)).ctx.cell := by
  have h := exec_coreEq p (c1 := init c1) (c2 := init c2) ⟨initK_overwrites _ _ hk, hc⟩
  exact ⟨h.1, h.2.1, h.2.2⟩

/-! ### 3. the image a previous pass left (partial: programs without `.repeat`) -/

/-- PARTIAL (no `.repeat`).  Two runs of the same statements from the same scalars over different prior images that
agree on where the flag value 1 stands: same verdict, same scalars, and each cell is either equal in both (written
by the pass, or equal before) or still the respective prior cell. -/
theorem pass_image_frame_partial (p : Prog) (hp : NoRepeat p) (c1 c2 : Ctx) (hk : c1.k = c2.k)
    (hf : FlagEq c1.cell c2.cell) :
    (exec p c1).ok = (exec p c2).ok ∧ (exec p c1).ctx.k = (exec p c2).ctx.k ∧
    ∀ a, (exec p c1).ctx.cell a = (exec p c2).ctx.cell a ∨
         ((exec p c1).ctx.cell a = c1.cell a ∧ (exec p c2).ctx.cell a = c2.cell a) :=
  exec_mem_frame p hp c1 c2 hk hf

/-- PARTIAL (no `.repeat`).  The pass over what the previous pass left against the same pass over that image with all
marks removed (bytes, hence flags, kept): every cell is the same, or pass-2 did not write it and it is what pass 1
left. -/
theorem pass_image_overlay_partial (p : Prog) (hp : NoRepeat p) (c : Ctx) :
    (exec p c).ok = (exec p { c with cell := stripMarks c.cell }).ok ∧
    (exec p c).ctx.k = (exec p { c with cell := stripMarks c.cell }).ctx.k ∧
    ∀ a, (exec p c).ctx.cell a = (exec p { c with cell := stripMarks c.cell }).ctx.cell a ∨
         ((exec p c).ctx.cell a = c.cell a ∧
          (exec p { c with cell := stripMarks c.cell }).ctx.cell a = ⟨(c.cell a).byte, Generated.dlEmpty⟩) :=
  image_overlay p hp c

/-- PARTIAL (no `.repeat`, and the hypothesis the code does not guarantee): if the pass marks every cell that was
marked before it, the final image is the image of the mark-free run — nothing of the previous pass shows. -/
theorem no_leftover_image_eq_partial (p : Prog) (hp : NoRepeat p) (c : Ctx) (hc : Covers p c) (a : Addr) :
    image (exec p c).ctx.cell a = image (exec p { c with cell := stripMarks c.cell }).ctx.cell a :=
  no_leftover_image_eq p hp c hc a

/-! ### 5. earlier assemblies in the same process -/

/-- the include depth — the only assembler state outside the AsmContext — is restored by the statement loop -/
theorem include_depth_restored (p : Prog) (c : Ctx) : (exec p c).ctx.k.includeDepth = c.k.includeDepth :=
  exec_depth p c

theorem history_independent :
    HistoryIndependent (σ := Nat) 0 (fun s o p => (mainRun s o p).k.includeDepth)
      (fun s o p => observe (mainRun s o p)) := by
  intro hist o p
  have : ∀ (l : List (Opts × Prog)) (d : Nat),
      l.foldl (fun s op => (mainRun s op.1 op.2).k.includeDepth) d = d := by
    intro l
    induction l with
    | nil => intro d; rfl
    | cons x xs ih => intro d; rw [List.foldl_cons, mainRun_depth]; exact ih d
  rw [this]

/-! ### concrete programs: non-vacuity, the fixed defects, the finding -/

def optsPlain : Opts :=
  { list := false, quiet := true, dumpSymbols := false, dumpMacros := false, optimize := false, fileType := 0,
    outName := "out.hex" }
def optsLoud : Opts :=
  { list := true, quiet := false, dumpSymbols := true, dumpMacros := true, optimize := false, fileType := 3,
    outName := "a-very/odd name.elf" }

/-- `.msp430 / .org 0x100 / mov.w #n1, r5 / mov.w #2, r6 / .repeat 2 / .db 7 / .endr / .include {.dw n1} / n1: / .db 1` -/
def progA : Prog :=
  .simple (.cpu 0) <| .simple (.org 0x100) <| .simple (.movImm (.sym 1) 5) <| .simple (.movImm (.lit 2) 6) <|
  .repeat 2 (.simple (.db [7]) .nil) <| .include (.simple (.dw (.sym 1)) .nil) <|
  .simple (.label 1) <| .simple (.db [1]) .nil

/-- non-vacuity of 1: the two option records differ in every reporting option, type and name; the run succeeds,
assembles the forward reference in its long form (flag byte of pass 1) and the constant through the constant
generator, and lists -/
example : ReportingVariant optsPlain optsLoud ∧ optsPlain ≠ optsLoud ∧
    (mainRun 0 optsPlain progA).status = 0 ∧
    image (mainRun 0 optsPlain progA).cell 0x100 = some 0x35 ∧      -- mov.w #n1, r5 = 4035 010a
    image (mainRun 0 optsPlain progA).cell 0x102 = some 0x0a ∧
    image (mainRun 0 optsPlain progA).cell 0x104 = some 0x26 ∧      -- mov.w #2, r6 = 4326 (constant generator)
    image (mainRun 0 optsPlain progA).cell 0x107 = some 0x07 ∧      -- the copy made by .repeat
    (mainRun 0 optsPlain progA).k.syms = [(1, 0x10a)] ∧
    (mainRun 0 optsLoud progA).listing.isSome ∧ (mainRun 0 optsPlain progA).listing.isNone := by
  refine ⟨rfl, by decide, ?_⟩
  decide

/-- `.dw 0x1234 / .big_endian / .dw 0x5678` (no .<cpu> directive) -/
def progEndian : Prog :=
  .simple (.dw (.lit 0x1234)) <| .simple (.endian true) <| .simple (.dw (.lit 0x5678)) .nil

/-- as fixed: the first word is little-endian in both passes -/
theorem init_resets_byte_order :
    image (mainRun 0 optsPlain progEndian).cell 0 = some 0x34 ∧ image (mainRun 0 optsPlain progEndian).cell 2 = some 0x56 := by
  decide

/-- with AsmContext::init() as it was before 258559a the byte order of the end of pass 1 reached the start of pass 2:
the statement of `pass_start_depends_only_on_kept` is false for it -/
theorem initBefore_leaks_byte_order :
    image (mainWith initBefore 0 optsPlain progEndian).cell 0 = some 0x12 := by decide

/-- `.db 1 / .bss / .resb 2`: accepted (66c8e37); before, pass 2 refused the `.db` because the segment stayed -/
def progBss : Prog := .simple (.db [1]) <| .simple (.seg true) <| .simple (.resb 2) .nil

theorem init_resets_segment :
    (mainRun 0 optsPlain progBss).status = 0 ∧ (mainWith initBefore 0 optsPlain progBss).status = 1 := by decide

/-- `mov.w #0, r1`-style confusion (44d7f59) needs r1, which the model's register range excludes; the model shows the
mechanism with the flag itself: without a `.<cpu>` directive pass 1 must not write code.  `mov.w #0, r5 / mov.w #n1, r6 /
n1:` — the forward reference keeps its extension word in both passes -/
def progFlag : Prog :=
  .simple (.movImm (.lit 0) 5) <| .simple (.movImm (.sym 1) 6) <| .simple (.label 1) .nil

example : (mainRun 0 optsPlain progFlag).status = 0 ∧ (mainRun 0 optsPlain progFlag).k.syms = [(1, 6)] ∧
    image (mainRun 0 optsPlain progFlag).cell 0 = some 0x05 ∧ image (mainRun 0 optsPlain progFlag).cell 2 = some 0x36 := by
  decide

/-- `.msp430 / .ifndef n1 / .db 0xaa, 0xbb, 0xcc / .endif / .org 0x10 / n1: / .db 1` -/
def progLeftover : Prog :=
  .simple (.cpu 0) <| .ifdef true 1 (.simple (.db [0xaa, 0xbb, 0xcc]) .nil) .nil <|
  .simple (.org 0x10) <| .simple (.label 1) <| .simple (.db [1]) .nil

/-- THE FINDING (known_findings: pass1-leftover).  Pass 2 does not assemble the `.db` (n1 is defined by then), yet
its three bytes, written by pass 1, are part of the final image: the image depends on the memory pass 1 left.
The second conjunct is the same pass 2 over the pass-1 image without marks: nothing at address 0. -/
theorem pass1_leftover_counterexample :
    image (mainRun 0 optsPlain progLeftover).cell 0 = some 0xaa ∧
    (let c2 := pass2Start init false (exec progLeftover (pass1Start init 0 optsPlain)).ctx
     image (exec progLeftover { c2 with cell := stripMarks c2.cell }).ctx.cell 0 = none) ∧
    NoRepeat progLeftover := by
  refine ⟨by decide, by decide, ?_⟩
  simp [progLeftover, NoRepeat]

/-- non-vacuity of `no_leftover_image_eq_partial`: for progA without its `.repeat` pass 2 writes wherever pass 1 wrote,
cell by cell on the addresses the program touches -/
def progB : Prog :=
  .simple (.cpu 0) <| .simple (.org 0x100) <| .simple (.movImm (.sym 1) 5) <| .simple (.dw (.sym 1)) <|
  .simple (.label 1) <| .simple (.db [1]) .nil

example : NoRepeat progB ∧
    (let c2 := pass2Start init false (exec progB (pass1Start init 0 optsPlain)).ctx
     (List.range 16).all (fun i =>
        let a : Addr := 0x100 + BitVec.ofNat 32 i
        decide ((c2.cell a).mark ≠ Generated.dlEmpty →
          ((exec progB { c2 with cell := stripMarks c2.cell }).ctx.cell a).mark ≠ Generated.dlEmpty)) = true) := by
  refine ⟨by simp [progB, NoRepeat], by decide⟩

end NakenVerif.Determinism
