/-
  Property C10 — conditional assembly includes exactly the branch its condition selects.
  Property theorems only; models in NakenVerif/Cond/Impl.lean (+ Prog.lean), specification in
  NakenVerif/Cond/Spec.lean, lemmas in NakenVerif/Cond/Proofs*.lean.
-/
import NakenVerif.Cond.Proofs
import NakenVerif.Cond.ProofsSkip
import NakenVerif.Cond.ProofsEval
import NakenVerif.Cond.ProofsFuel
import NakenVerif.Cond.ProofsBlocks

namespace NakenVerif.Cond
open NakenVerif.Generated

/-! ## the regenerated operator table -/

/-- The table of get_operator (re-emitted from the working tree on every run) gives every operator
    the precedence level of the property text, and spells the operators as documented. -/
theorem cond_table_conventional :
    (∀ o : CondOp, condPrecOf o = specLevel o) ∧
    condPrecOr = 0 ∧
    (condOperatorTokens.map (fun e => (e.1, e.2.1))).Perm
      [("==", "eq"), (">=", "ge"), ("<=", "le"), (">", "gt"), ("<", "lt"), ("||", "or"), ("&&", "and")] := by
  refine ⟨level_table, rfl, ?_⟩
  decide

/-- eval_operation computes the 32-bit signed meaning of every operator. -/
theorem eval_operation_spec (o : CondOp) (a b : BitVec 32) : evalOperation o a b = specOp o a b :=
  evalOperation_spec o a b

example : evalOperation .lt (-1) 0 = 1 ∧ specOp .ge 0x80000000 0 = 0 := by decide

/-! ## the condition evaluator -/

/-- For EVERY condition tree (any depth, operators `|| && == < > <= >=`, `!` chains, redundant
    parentheses, numbers, names, `defined()`) and every environment: the model of
    parse_ifdef_expression run on the conventional rendering of the tree returns the tree's value
    and leaves the end-of-line token; it fails exactly when the tree has no value (a name that is
    neither a numeric define nor a symbol).  Chains of one level associate to the left
    (`a == b == c` is `(a == b) == c`). -/
theorem cond_eval_render (env : Env) (t : C) :
    parseTop env (t.render ++ [.eol]) =
      (match t.eval env with
       | some v => .ok (v, [.eol])
       | none => .err) :=
  parseTop_render env t

/-- the same for every fuel above the bound and every initial `*num` -/
theorem cond_eval_render_fuel (env : Env) (t : C) (n0 : BitVec 32) (f : Nat)
    (hf : 3 * (t.render.length + 1) + 3 ≤ f) :
    parse f env n0 0 condPrecOr .s0 (t.render ++ [.eol]) =
      (match t.eval env with
       | some v => .ok (v, [.eol])
       | none => .err) :=
  parse_render env t n0 f hf

/-- `defined ( A ) && ! ! ( B < 3 ) || 1 == 2 == 0`, A a macro, B = -5 -/
example :
    let env : Env := fun s => if s = "A" then .defOther else if s = "B" then .sym (-5) else .undef
    let t : C := .bin .or (.bin .and (.defined "A") (.not (.not (.bin .lt (.name "B") (.num 3)))))
                          (.bin .eq (.bin .eq (.num 1) (.num 2)) (.num 0))
    t.eval env = some 1 ∧ parseTop env (t.render ++ [.eol]) = .ok (1, [.eol]) := by
  intro env t
  have hv : t.eval env = some 1 := by decide
  exact ⟨hv, by rw [cond_eval_render env t, hv]⟩

/-- The decision of `.if` on a rendered tree: the branch is taken iff the value is non-zero
    (also for the value -1), and `.if` fails iff the tree has no value. -/
theorem if_decision (env : Env) (t : C) :
    ifDecision env (t.render ++ [.eol]) = (t.eval env).map (fun v => v != 0) :=
  ifDecision_render env t

example : ifDecision (fun _ => .undef) ((C.num (-1)).render ++ [.eol]) = some true := by
  rw [if_decision]; decide

/-- `! ! 3` is 1 and `.if -1` is taken (defects fixed by becf3a5) -/
theorem double_not_and_minus_one_fixed :
    parseTop (fun _ => .undef) [.bang, .bang, .num 3, .eol] = .ok (1, [.eol]) ∧
    ifDecision (fun _ => .undef) [.num (-1), .eol] = some true :=
  ⟨double_not_fixed, if_minus_one_fixed⟩

/-- A condition that ends inside parentheses is an error: for every tree `t`, `( t` without the
    closing parenthesis (whatever follows the end of line), also after `l o` for every tree `l` and
    operator `o` that may follow it. -/
theorem unclosed_paren_is_error (env : Env) (t : C) (tail : List Tok) :
    parseTop env (.lparen :: (t.render ++ .eol :: tail)) = .err ∧
    ∀ (l : C) (o : CondOp), specLevel o ≤ l.level →
      parseTop env (l.render ++ .op o :: .lparen :: (t.render ++ [.eol])) = .err :=
  ⟨unclosed_paren_is_error_tail env t tail, fun l o h => unclosed_paren_is_error_lemma2 env l t o h⟩

/-- An operator, a `)` or any other symbol where an operand is expected is an error: at the start,
    after `(`, after `!`, and after `t o` for every tree `t` and operator `o` that may follow it —
    whatever comes after. -/
theorem junk_operand_is_error (env : Env) (j : Tok) (hj : j.isJunk) (rest : List Tok) :
    parseTop env (j :: rest) = .err ∧
    parseTop env (.lparen :: j :: rest) = .err ∧
    parseTop env (.bang :: j :: rest) = .err ∧
    ∀ (t : C) (o : CondOp), specLevel o ≤ t.level → parseTop env (t.render ++ .op o :: j :: rest) = .err :=
  ⟨junk_operand_is_error_start env j hj rest, junk_operand_is_error_after_lparen env j hj rest,
   junk_operand_is_error_after_bang env j hj rest, fun t o h => junk_operand_is_error_lemma env t o h j hj rest⟩

example : Tok.isJunk (.op .eq) = true ∧ Tok.isJunk (.other 0) = true ∧ Tok.isJunk .rparen = true := by decide

/-- further malformed conditions that are errors, for every environment: empty, trailing operator,
    `)` without `(`, two operands in a row, `( )`, `defined` without parentheses, a lone `!`,
    `( 1`, `1 == +` -/
theorem malformed_rejected (env : Env) :
    parseTop env [.eol] = .err ∧
    parseTop env [.num 1, .op .eq, .eol] = .err ∧
    parseTop env [.num 1, .rparen, .eol] = .err ∧
    parseTop env [.num 1, .num 2, .eol] = .err ∧
    parseTop env [.lparen, .rparen, .eol] = .err ∧
    parseTop env [.defined, .name "A", .eol] = .err ∧
    parseTop env [.bang, .eol] = .err ∧
    parseTop env [.lparen, .num 1, .eol] = .err ∧
    parseTop env [.num 1, .op .eq, .other 0, .eol] = .err :=
  malformed_rejected_lemma env

/-- The model of the evaluator has no fault outcome (it indexes no array; every `tokens_push` is
    followed by a return or by a call that starts with `tokens_get`, so at most one token is ever
    pending); its only artefact is the fuel of the recursion, and that never runs out: for EVERY
    token list (well-formed or not) the evaluation finishes within `fuelFor`, and the result is the
    same for every larger fuel. -/
theorem cond_no_fault (env : Env) (ts : List Tok) :
    parseTop env ts ≠ .fuel ∧
    ∀ f, fuelFor ts ≤ f → parse f env 0 0 condPrecOr .s0 ts = parseTop env ts :=
  ⟨parseTop_no_fuel env ts, fun f h => parse_fuel_irrelevant env ts f h⟩

example : parseTop (fun _ => .undef) [.rparen, .op .eq, .lparen, .lparen, .bang] = .err :=
  (junk_operand_is_error _ .rparen rfl _).1

/-! ## the skip loop -/

/-- For every well-nested body, `ifdef_ignore` started at nesting 0 stops exactly after the
    matching `.endif`. -/
theorem skip_matches {body : List DTok} (h : WellNested body) (rest : List DTok) :
    ifdefIgnore 0 (body ++ .dot :: .word .endif :: rest) = (.endif, rest) := by
  rw [ifdefIgnore_wellNested h]; simp [ifdefIgnore]

/-- … or exactly after the `.else` of the conditional being skipped. -/
theorem skip_matches_else {body : List DTok} (h : WellNested body) (rest : List DTok) :
    ifdefIgnore 0 (body ++ .dot :: .word .else_ :: rest) = (.else_, rest) := by
  rw [ifdefIgnore_wellNested h]; simp [ifdefIgnore]

/-- At nesting n+1 the `.endif` only closes an inner conditional. -/
theorem skip_matches_nested {body : List DTok} (h : WellNested body) (n : Nat) (rest : List DTok) :
    ifdefIgnore (n + 1) (body ++ .dot :: .word .endif :: rest) = ifdefIgnore n rest := by
  rw [ifdefIgnore_wellNested h]; simp [ifdefIgnore]

/-- A skipped branch that is not terminated is an error ("Missing endif"). -/
theorem skip_unterminated {body : List DTok} (h : WellNested body) (n : Nat) :
    ifdefIgnore n body = (.eof, []) := by
  have := ifdefIgnore_wellNested h n []
  simpa [ifdefIgnore] using this

example : WellNested [.other, .eol, .dot, .word .ifndef, .word .other, .eol, .dot, .word .else_, .eol,
                      .dot, .word .endif, .eol, .dot, .word .other] :=
  .plain _ _ (by decide) (.plain _ _ (by decide)
    (.blockElse .ifndef [.word .other, .eol] [.eol] [.eol, .dot, .word .other] rfl
      (.plain _ _ (by decide) (.plain _ _ (by decide) .nil))
      (.plain _ _ (by decide) .nil)
      (.plain _ _ (by decide) (.directive _ _ rfl .nil))))

/-- the line-level skip used by the statement model is the image of the token-level skip loop:
    on the tokens of `items` ifdef_ignore stops where `skipItems` says (the end-of-line token of
    the closing directive is still in the stream) -/
theorem skip_items_tokens {σ : Type} (stoks : σ → List DTok) (hs : ∀ s, WellNested (stoks s))
    (items : List (Item σ)) (n : Nat) :
    ifdefIgnore n (itemsToks stoks items) = liftSkip stoks (skipItems n items) :=
  skipItems_tokens stoks hs items n

/-! ## statement selection -/

theorem render_correct : RenderCorrect := fun env t => ifDecision_render env t

/-- For every statement semantics `sem`, every start state and EVERY block tree (any nesting of
    `.if/.ifdef/.ifndef/.else/.endif`, any conditions, any statements in taken and untaken branches):
    one pass of the model of assemble()/parse_if/parse_ifdef/parse_ifdef_ignore/assemble_branch over
    the source lines of the tree ends in exactly the state in which the specification ends, i.e.
    exactly the statements of the selected branches are executed, in order; statements of untaken
    branches (further conditionals, labels, defines, failing statements) have no effect on the state
    and so on no later condition; and the pass fails exactly when a selected statement fails or a
    condition that is evaluated has no value. -/
theorem selected_only {σ St : Type} (sem : Sem σ St) (b : Blocks σ) (st : St) :
    runPass sem st b.flatten = (match b.run sem st with | some st' => .ok st' | none => .err) :=
  selected_only_lemma render_correct sem b st

/-- `.if 1 == 1 / .if ! ! 3 == 1 / .db 1 / .else / .bogus / .endif / .db 2 / .else / .ifdef X / L: / .else / .bogus / .endif / .endif /
     .ifndef X / .if 0 / .bogus / .endif / .db 4 / .endif` -/
example :
    let b : Blocks Prog.Stmt :=
      .ite (.cond (.bin .eq (.num 1) (.num 1)))
        (.ite (.cond (.bin .eq (.not (.not (.num 3))) (.num 1))) (.stmt (.db 1) .nil) true (.stmt .bad .nil) (.stmt (.db 2) .nil))
        true
        (.ite (.ifdef "X") (.stmt (.label "L") .nil) true (.stmt .bad .nil) .nil)
        (.ite (.ifndef "X") (.ite (.cond (.num 0)) (.stmt .bad .nil) false .nil (.stmt (.db 4) .nil)) false .nil .nil)
    outOfOpt (b.run Prog.sem init) = [1, 2, 4] ∧ outOf (runPass Prog.sem init b.flatten) = [1, 2, 4] := by
  intro b
  have h : outOfOpt (b.run Prog.sem init) = [1, 2, 4] := by decide
  refine ⟨h, ?_⟩
  rw [selected_only Prog.sem b init]
  revert h
  cases b.run Prog.sem init <;> simp [outOf, outOfOpt]

/-- the program that the code used to assemble as 2 3 4 5 (fixed by 502f25e):
    `.if 1 / .if 0 / .db 1 / .else / .db 2 / .endif / .db 3 / .else / .db 4 / .endif / .db 5` -/
theorem nested_else_selected :
    outOf (runPass Prog.sem init cexItems) = [2, 3, 5] ∧ outOfOpt (cexBlocks.run Prog.sem init) = [2, 3, 5]
    ∧ cexBlocks.flatten = cexItems := nested_else_fixed

/-- An unterminated conditional is an error: a source that ends inside one or more open
    conditionals — at any nesting depth, in then- or else-branches, whether the open branches are
    taken or skipped, after any prefix of complete blocks. -/
theorem unterminated_is_error {σ St : Type} (sem : Sem σ St) (st : St) (b : Blocks σ)
    (os : List (OpenCond σ)) (hos : os ≠ []) :
    runPass sem st (b.flatten ++ openItems os) = .err :=
  unterminated_chain_is_error_lemma sem st b os hos

example : openItems [OpenCond.els (.cond (.num 0)) (.stmt (Prog.Stmt.db 1) .nil) .nil, OpenCond.thn (.ifdef "X") .nil]
    = [.ifc [.num 0, .eol], .stmt (.db 1), .else_, .ifdef false (some "X")] := rfl

/-- A `.endif` that closes nothing is an error (after any prefix of complete blocks, whatever
    follows) — in particular an extra `.endif` after a taken conditional. -/
theorem stray_endif_is_error {σ St : Type} (sem : Sem σ St) (st : St) (b : Blocks σ) (rest : List (Item σ)) :
    runPass sem st (b.flatten ++ .endif :: rest) = .err :=
  stray_endif_is_error_lemma render_correct sem st b rest

/-- A `.else` outside every conditional is an error. -/
theorem stray_else_is_error {σ St : Type} (sem : Sem σ St) (st : St) (b : Blocks σ) (rest : List (Item σ)) :
    runPass sem st (b.flatten ++ .else_ :: rest) = .err :=
  stray_else_is_error_lemma render_correct sem st b rest

/-- A second `.else` of one conditional is an error (whichever branch is taken). -/
theorem second_else_is_error {σ St : Type} (sem : Sem σ St) (st : St) (b thn els : Blocks σ) (g : Guard)
    (rest : List (Item σ)) :
    runPass sem st (b.flatten ++ g.item :: (thn.flatten ++ .else_ :: (els.flatten ++ .else_ :: rest))) = .err :=
  second_else_is_error_lemma render_correct sem st b thn els g rest

/-- `.ifdef` / `.ifndef` without a label is an error. -/
theorem ifdef_without_label_is_error {σ St : Type} (sem : Sem σ St) (st : St) (neg : Bool) (b : Blocks σ)
    (rest : List (Item σ)) :
    runPass sem st (b.flatten ++ .ifdef neg none :: rest) = .err :=
  ifdef_without_label_is_error_lemma sem st neg b rest

/-- the two malformed programs that the code used to accept (fixed by 502f25e) -/
theorem unterminated_and_stray_endif_fixed :
    runPass Prog.sem init [.ifc [.num 1, .eol], .stmt (.db 1)] = .err ∧
    runPass Prog.sem init [.ifc [.num 1, .eol], .stmt (.db 1), .endif, .stmt (.db 2), .endif] = .err :=
  ⟨unterminated_taken_fixed, stray_endif_fixed⟩

end NakenVerif.Cond
