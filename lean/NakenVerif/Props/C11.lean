/-
  C11 — every symbol reference resolves to the definition the scoping rules select.
  Property theorems about `Symbols.Impl` (model of core/Symbols.cpp as it is now) against
  `Symbols.Spec`.  "Reachable" = state after any operation sequence from the empty table.
-/
import NakenVerif.Symbols.ProofsInv

namespace NakenVerif.Symbols

/-- every state a program can produce is well formed (pool `ptr`s are entry boundaries inside the buffer) -/
theorem reachable_wf (ops : List Op) (s : Symbols) (h : run {} ops = some s) : WF s :=
  run_wf ops {} wf_empty s h

/-- **find_scoped.**  In every reachable state `Symbols::find` returns the definition of the name
    in the open scope if there is one, otherwise the global one (`Spec.resolve` on the abstract table). -/
theorem find_scoped (ops : List Op) (s : Symbols) (h : run {} ops = some s) (name : String) :
    (find s name).map toDef = Spec.resolve (absDefs s) (vis s) name := by
  rw [find_eq_lfind s (reachable_wf ops s h) name, lfind_resolve]; rfl

example : (find { pools := [{ cells := [⟨"x", 2, false, false, 0, 5⟩, ⟨"x", 2, false, false, 1, 7⟩], ptr := 2 * (2 + hdr) }],
                  inScope := true, currentScope := 1 } "x").map (·.address) = some 7 := by decide

/-- at most one match: `find?` does not depend on the order of the list -/
theorem find?_perm_of_unique {α} (p : α → Bool) (l l' : List α) (hp : l.Perm l')
    (hu : ∀ a ∈ l, ∀ b ∈ l, p a → p b → a = b) : l.find? p = l'.find? p := by
  cases h : l.find? p with
  | none =>
      have hn : ∀ x ∈ l, ¬ p x := by simpa using h
      symm; simp only [List.find?_eq_none]
      intro x hx; exact hn x (hp.mem_iff.2 hx)
  | some d =>
      have hd : p d := List.find?_some h
      have hm : d ∈ l := List.mem_of_find?_eq_some h
      cases h' : l'.find? p with
      | none =>
          have hn : ∀ x ∈ l', ¬ p x := by simpa using h'
          exact absurd hd (hn d (hp.mem_iff.1 hm))
      | some d' =>
          have hd' : p d' := List.find?_some h'
          have hm' : d' ∈ l := hp.mem_iff.2 (List.mem_of_find?_eq_some h')
          rw [hu d hm d' hm' hd hd']

/-- **find_independent_of_order.**  With at most one definition per (name, scope) the result of the
    resolution is the same for every arrangement of the table: it does not matter whether a
    definition was entered before or after the others (forward = backward reference). -/
theorem find_independent_of_order (t t' : Spec.Table) (hp : t.Perm t') (hu : Spec.Unique t)
    (cur : Option Nat) (name : String) : Spec.resolve t' cur name = Spec.resolve t cur name := by
  have key : ∀ c, t.find? (Spec.key name c) = t'.find? (Spec.key name c) := by
    intro c
    apply find?_perm_of_unique _ t t' hp
    intro a ha b hb pa pb
    simp only [Spec.key, Bool.and_eq_true, beq_iff_eq] at pa pb
    exact hu a ha b hb (by rw [pa.2, pb.2]) (by rw [pa.1, pb.1])
  unfold Spec.resolve
  cases cur with
  | none => simp [key]
  | some c => simp [key]

example : Spec.resolve [⟨"x", 0, 5, false, false⟩, ⟨"x", 1, 7, false, false⟩] (some 1) "x" =
          Spec.resolve [⟨"x", 1, 7, false, false⟩, ⟨"x", 0, 5, false, false⟩] (some 1) "x" := by decide

theorem find_some_ref (s : Symbols) (name : String) (e : Entry) (h : find s name = some e) :
    ∃ r, findRef s name = some r ∧ getEntry s r = some e := by
  unfold find at h
  split at h
  · rename_i r hr; exact ⟨r, hr, h⟩
  · cases h

/-- **append_duplicate_rejected.**  Defining a name that `find` resolves to a definition of the
    same scope (any definition, when no scope is open) is an error and leaves the table unchanged. -/
theorem append_duplicate_rejected (s : Symbols) (name : String) (a : Nat) (e : Entry)
    (hl : s.locked = false) (hd : s.debug = false) (hf : find s name = some e)
    (hsame : s.inScope = false ∨ e.scope = s.currentScope) :
    ∃ s', append s name a = .ok s' (-1) ∧ s' = s := by
  obtain ⟨r, hr, he⟩ := find_some_ref s name e hf
  refine ⟨s, ?_, rfl⟩
  unfold append
  simp only [hl, Bool.false_eq_true, if_false, hr, he, hd]
  rcases hsame with h | h
  · simp [h]
  · simp [h]

example : ∃ s', append { pools := [{ cells := [⟨"x", 2, false, false, 0, 5⟩], ptr := 2 + hdr }] } "x" 9 = .ok s' (-1) :=
  ⟨_, rfl⟩

/-- **append_shadow_allowed.**  Inside a scope a name whose only visible definition is global gets a
    new (local) definition: the duplicate test does not fire. -/
theorem append_shadow_allowed (s : Symbols) (name : String) (a : Nat) (e : Entry)
    (hl : s.locked = false) (hd : s.debug = false) (hf : find s name = some e)
    (hin : s.inScope = true) (hne : e.scope ≠ s.currentScope) :
    append s name a = appendNew s name a := by
  obtain ⟨r, hr, he⟩ := find_some_ref s name e hf
  unfold append
  simp [hl, hr, he, hd, hin, hne]

/-- **scopes_do_not_interfere** (1): what a lookup returns was defined in the open scope or globally —
    never in another scope. -/
theorem scopes_do_not_interfere (ops : List Op) (s : Symbols) (h : run {} ops = some s)
    (name : String) (e : Entry) (hf : find s name = some e) :
    e.name = name ∧ ((s.inScope = true ∧ e.scope = s.currentScope) ∨ e.scope = 0) := by
  rw [find_eq_lfind s (reachable_wf ops s h) name] at hf
  unfold lfind at hf
  by_cases hin : s.inScope = true
  · simp only [hin, if_true] at hf
    split at hf
    · rename_i e' he'
      injection hf with hf; subst hf
      have := List.find?_some he'
      simp only [localPred, Bool.and_eq_true, beq_iff_eq] at this
      exact ⟨this.2, Or.inl ⟨hin, this.1.symm⟩⟩
    · have := List.find?_some hf
      simp only [globalPred, Bool.and_eq_true, beq_iff_eq] at this
      exact ⟨this.2, Or.inr this.1⟩
  · have hin' : s.inScope = false := by simpa using hin
    simp only [hin', Bool.false_eq_true, if_false] at hf
    have := List.find?_some hf
    simp only [globalPred, Bool.and_eq_true, beq_iff_eq] at this
    exact ⟨this.2, Or.inr this.1⟩

/-- **scopes_do_not_interfere** (2): adding a definition to scope `d.scope ≠ 0` anywhere in the table
    changes no resolution made from another scope (or from outside every scope). -/
theorem local_definition_invisible_elsewhere (l1 l2 : Spec.Table) (d : Spec.Def) (cur : Option Nat)
    (name : String) (hloc : d.scope ≠ 0) (hother : cur ≠ some d.scope) :
    Spec.resolve (l1 ++ d :: l2) cur name = Spec.resolve (l1 ++ l2) cur name := by
  have h0 : Spec.key name 0 d = false := by simp [Spec.key, hloc]
  unfold Spec.resolve
  cases cur with
  | none => simp [List.find?_append, List.find?_cons, h0]
  | some c =>
      have hc : Spec.key name c d = false := by
        have : d.scope ≠ c := fun h => hother (by rw [h])
        simp [Spec.key, this]
      simp [List.find?_append, List.find?_cons, h0, hc]

theorem scanCells_modify (pred : Entry → Bool) (f : Entry → Entry) (hp : ∀ e, pred (f e) = pred e)
    (hs : ∀ e, stride (f e) = stride e) (limit : Nat) :
    ∀ (es : List Entry) (j off : Nat), scanCells limit pred (modifyCell f es j) off = scanCells limit pred es off
  | [], _, _ => rfl
  | e :: es, 0, off => by simp [modifyCell, scanCells, hp, hs]
  | e :: es, j + 1, off => by simp [modifyCell, scanCells, scanCells_modify pred f hp hs limit es j]

theorem scanPools_modify (pred : Entry → Bool) (f : Entry → Entry) (hp : ∀ e, pred (f e) = pred e)
    (hs : ∀ e, stride (f e) = stride e) :
    ∀ (ps : List Pool) (i j : Nat), scanPools pred (modifyPool f ps i j) = scanPools pred ps
  | [], _, _ => rfl
  | p :: ps, 0, j => by simp [modifyPool, scanPools, scanCells_modify pred f hp hs]
  | p :: ps, i + 1, j => by simp [modifyPool, scanPools, scanPools_modify pred f hp hs ps i j]

theorem getCell_modify (f : Entry → Entry) :
    ∀ (es : List Entry) (j : Nat), (modifyCell f es j)[j]? = es[j]?.map f
  | [], _ => by simp [modifyCell]
  | e :: es, 0 => by simp [modifyCell]
  | e :: es, j + 1 => by simp [modifyCell, getCell_modify f es j]

theorem getRef_modify (f : Entry → Entry) :
    ∀ (ps : List Pool) (i j : Nat), getRef (modifyPool f ps i j) (i, j) = (getRef ps (i, j)).map f
  | [], _, _ => by simp [modifyPool, getRef]
  | p :: ps, 0, j => by simp [modifyPool, getRef, getCell_modify]
  | p :: ps, i + 1, j => by
      have := getRef_modify f ps i j
      simpa [modifyPool, getRef] using this

/-- re-assignment case of `set_latest` (below): `.set` of an existing `.set` symbol -/
theorem set_latest_partial (s : Symbols) (name : String) (v : Nat) (e : Entry)
    (hf : find s name = some e) (hrw : e.rw = true) :
    ∃ s', set s name v = .ok s' 0 ∧ lookup s' name = (0, v) := by
  obtain ⟨r, hr, he⟩ := find_some_ref s name e hf
  refine ⟨modifyEntry s r (fun e => { e with address := v }), ?_, ?_⟩
  · unfold set; simp [hr, he, hrw]
  · have hfr : findRef (modifyEntry s r (fun e => { e with address := v })) name = some r := by
      have hL := scanPools_modify (localPred s.currentScope name) (fun e => { e with address := v })
        (fun _ => rfl) (fun _ => rfl) s.pools r.1 r.2
      have hG := scanPools_modify (globalPred name) (fun e => { e with address := v })
        (fun _ => rfl) (fun _ => rfl) s.pools r.1 r.2
      unfold findRef modifyEntry
      simp only
      rw [hL, hG]
      exact hr
    unfold lookup find
    rw [hfr]
    have : getEntry (modifyEntry s r (fun e => { e with address := v })) r = some { e with address := v } := by
      rw [getEntry_eq] at he ⊢
      show getRef (modifyPool _ s.pools r.1 r.2) (r.1, r.2) = _
      rw [getRef_modify, he]; rfl
    simp [this]

example : ∃ s', set { pools := [{ cells := [⟨"v", 2, true, false, 0, 1⟩], ptr := 2 + hdr }] } "v" 2 = .ok s' 0 ∧
    lookup s' "v" = (0, 2) := ⟨_, rfl, by decide⟩

/-- **scope_numbering_stable.**  Pass 2 starts from `lock(); scope_reset()`.  If pass 1 ended outside
    every scope, then after every prefix of the program the scope registers (`in_scope`, `current_scope`)
    are the same in both passes: the n-th `.scope`/`.func` gets the same id. -/
theorem scope_numbering_stable (pre : List Op) (s1 a b : Symbols) (hclosed : s1.inScope = false)
    (h1 : run {} pre = some a) (h2 : run (scopeReset (lock s1)) pre = some b) :
    a.inScope = b.inScope ∧ a.currentScope = b.currentScope := by
  have : regs ({} : Symbols) = regs (scopeReset (lock s1)) := by
    simp [regs, scopeReset, lock, hclosed]
  have := run_regs pre {} (scopeReset (lock s1)) a b this h1 h2
  simp only [regs, Prod.mk.injEq] at this
  exact this

example : (scopeStart (scopeReset (lock (scopeEnd (scopeStart {}).1)))).1.currentScope = 1 := by decide

/-- **iterate_complete.**  In every reachable state, calling `Symbols::iterate` with a fresh iterator
    until it returns -1 delivers exactly the entries of all pools, pool after pool, each once, and
    `iter.count` is their number — for any number of pools. -/
theorem iterate_complete (ops : List Op) (s : Symbols) (h : run {} ops = some s) :
    iterateAll s = some (abs s, (abs s).length) := by
  have := iterateAllFrom_spec s (reachable_wf ops s h) (abs s) ((abs s).length + 1) {} [] rfl
    (Or.inr ⟨rfl, rfl⟩) (Nat.le_refl _)
  simpa [iterateAll] using this

example : (iterateAll { pools := [{ cells := [⟨"a", 2, false, false, 0, 1⟩], ptr := 2 + hdr },
                                  { cells := [⟨"b", 2, false, false, 0, 2⟩], ptr := 2 + hdr }] }).map (·.2) = some 2 := by
  decide

/-- every definition that was entered is in the enumeration: `append` adds exactly one entry to `abs` -/
theorem appendNew_abs (s : Symbols) (name : String) (a : Nat) (s' : Symbols)
    (h : appendNew s name a = .ok s' 0) :
    ∃ l1 l2 e, abs s = l1 ++ l2 ∧ abs s' = l1 ++ e :: l2 ∧ e.name = name ∧ e.address = a := by
  unfold appendNew at h
  by_cases h1 : tokenLen name > tokenLenMax
  · simp [h1] at h
  · by_cases h2 : tokenLen name + hdr < heapSize
    · simp only [h1, if_false, h2, not_true_eq_false] at h
      injection h with hs _
      obtain ⟨l1, l2, e1, e2⟩ := pushCell_abs
        { name := name, len := tokenLen name % lenMod, rw := false, exp := false, address := a,
          scope := (if s.inScope then s.currentScope else 0) % scopeMod } (tokenLen name) s.pools
        (roomIdx (tokenLen name) s.pools)
      exact ⟨l1, l2, _, e1, by rw [← hs]; exact e2, rfl, rfl⟩
    · simp [h1, h2] at h

/-- **count_eq_length.** -/
theorem count_eq_length (ops : List Op) (s : Symbols) (h : run {} ops = some s) :
    count s = (abs s).length := by
  unfold count abs
  rw [countPools_spec _ s.pools (reachable_wf ops s h)]
  simp

/-- **pool_no_overflow.**  No entry of a reachable table straddles the end of its pool buffer: it ends at or
    before `ptr`, and `ptr` is inside the `SYMBOLS_HEAP_SIZE` bytes. -/
theorem pool_no_overflow (ops : List Op) (s : Symbols) (h : run {} ops = some s) :
    ∀ p ∈ s.pools, ∀ pre e post, p.cells = pre ++ e :: post →
      sumStride pre + stride e ≤ p.ptr ∧ p.ptr < heapSize := by
  intro p hp pre e post hc
  have hw := reachable_wf ops s h p hp
  refine ⟨?_, hw.in_buf⟩
  rw [hw.ptr_eq, hc, sumStride_append]
  simp [sumStride]

/-- **locked_append_unchanged.**  In pass 2 (`lock()`) `append` never changes the table. -/
theorem locked_append_unchanged (s : Symbols) (name : String) (a : Nat) (hl : s.locked = true)
    (s' : Symbols) (r : Int) (h : append s name a = .ok s' r) : s' = s := by
  unfold append at h
  simp only [hl, if_true] at h
  exact appendLocked_state s name a s' r h

/-- **moved_label_is_error.**  In pass 2 a label (not a `.set` symbol) that `find` resolves to its own
    definition (same scope) but whose location counter differs from the recorded address makes the
    statement an error: `name:` returns -1 and AsmContext::assemble stops. -/
theorem moved_label_is_error (s : Symbols) (name : String) (a : Nat) (e : Entry)
    (hl : s.locked = true) (hf : find s name = some e) (hrw : e.rw = false)
    (hsc : e.scope = defScope s) (hne : e.address ≠ a) :
    dirLabel s name a = some (s, true) := by
  obtain ⟨r, hr, he⟩ := find_some_ref s name e hf
  unfold dirLabel append appendLocked
  simp [hl, hr, he, hrw, hsc, hne]

/-- … and a label that did not move is accepted in pass 2 -/
theorem unmoved_label_accepted (s : Symbols) (name : String) (e : Entry)
    (hl : s.locked = true) (hf : find s name = some e) :
    dirLabel s name e.address = some (s, false) := by
  obtain ⟨r, hr, he⟩ := find_some_ref s name e hf
  unfold dirLabel append appendLocked
  simp [hl, hr, he]

example : dirLabel { pools := [{ cells := [⟨"x", 2, false, false, 0, 16⟩], ptr := 2 + hdr }], locked := true } "x" 18 =
    some ({ pools := [{ cells := [⟨"x", 2, false, false, 0, 16⟩], ptr := 2 + hdr }], locked := true }, true) := by decide

/-! ### the table of a reachable state has one definition per (name, scope) -/

/-- **reachable_unique.**  In every reachable state the abstract table holds at most one definition per
    (name, scope).  (The scope field of an entry is as wide as the scope counter — `counter_le_scope`,
    from the regenerated layout — so no two scopes share a stored number below 2^32 scopes.) -/
theorem reachable_unique (ops : List Op) (s : Symbols) (h : run {} ops = some s) :
    Spec.Unique (absDefs s) := by
  have hi := run_inv ops {} inv_empty s h
  intro d1 h1 d2 h2 hn hs
  obtain ⟨e1, m1, rfl⟩ := List.mem_map.1 h1
  obtain ⟨e2, m2, rfl⟩ := List.mem_map.1 h2
  have : e1 = e2 := inj_of_nodup_map keyOf (abs s) hi.keys e1 m1 e2 m2 (by
    simp only [toDef] at hn hs; simp [keyOf, hn, hs])
  rw [this]

/-- **resolution_order_free.**  For every reachable state and every rearrangement of its table, the
    specification resolves every name exactly to what `Symbols::find` returns: forward and backward
    references resolve alike. -/
theorem resolution_order_free (ops : List Op) (s : Symbols) (h : run {} ops = some s)
    (t' : Spec.Table) (hp : (absDefs s).Perm t') (name : String) :
    Spec.resolve t' (vis s) name = (find s name).map toDef := by
  rw [find_scoped ops s h name]
  exact find_independent_of_order (absDefs s) t' hp (reachable_unique ops s h) (vis s) name

theorem lfind_middle_global (l1 l2 : List Entry) (e : Entry) (i : Bool) (c : Nat) (n : String)
    (hloc : i = true → (l1 ++ l2).find? (localPred c n) = none)
    (hglob : (l1 ++ l2).find? (globalPred n) = none) (hsc : e.scope = 0) (hn : e.name = n) :
    lfind (l1 ++ e :: l2) i c n = some e := by
  have hg : globalPred n e = true := by simp [globalPred, hsc, hn]
  have split_none : ∀ P : Entry → Bool, (l1 ++ l2).find? P = none → l1.find? P = none ∧ l2.find? P = none := by
    intro P hP
    rw [List.find?_append] at hP
    cases h1 : l1.find? P with
    | none => rw [h1] at hP; exact ⟨rfl, by simpa using hP⟩
    | some x => rw [h1] at hP; simp at hP
  obtain ⟨g1, _⟩ := split_none _ hglob
  have hG : (l1 ++ e :: l2).find? (globalPred n) = some e := by
    rw [List.find?_append, g1]; simp [List.find?_cons, hg]
  unfold lfind
  cases i with
  | false => simpa using hG
  | true =>
      obtain ⟨q1, q2⟩ := split_none _ (hloc rfl)
      simp only [if_true]
      rw [List.find?_append, q1]
      simp only [Option.none_or, List.find?_cons]
      cases hp : localPred c n e with
      | true => rfl
      | false => simp only [q2]; exact hG

/-- **set_latest.**  After every successful `.set name = v` — creating the symbol or re-assigning it, in
    either pass, inside or outside a scope — a lookup of the name from the same place yields `v`. -/
theorem set_latest (ops : List Op) (s : Symbols) (h : run {} ops = some s) (name : String) (v : Nat)
    (s' : Symbols) (hs : set s name v = .ok s' 0) : lookup s' name = (0, v) := by
  have hi := run_inv ops {} inv_empty s h
  cases hf : findRef s name with
  | some r0 =>
      obtain ⟨e, hg, _⟩ := findRef_some_lfind s hi.wf name r0 hf
      have hfind : find s name = some e := by unfold find; rw [hf]; exact hg
      cases hrw : e.rw with
      | true =>
          obtain ⟨s'', h1, h2⟩ := set_latest_partial s name v e hfind hrw
          rw [h1] at hs; injection hs with hs _; rw [← hs]; exact h2
      | false =>
          unfold set at hs
          rw [hf] at hs
          simp only [hg, hrw, Bool.false_eq_true, if_false] at hs
          injection hs with _ hs
          cases hs
  | none =>
      have hl := findRef_none_lfind s hi.wf name hf
      obtain ⟨hloc, hglob⟩ := lfind_none_preds _ _ _ _ hl
      rcases set_create s hi name v s' 0 hf hs with ⟨h0, _⟩ | ⟨_, hregs, l1, l2, e, h1, h2, hn, hsc, ha, _⟩
      · cases h0
      · have hwf' : WF s' := set_wf s name v hi.wf s' 0 hs
        have hr : s'.inScope = s.inScope ∧ s'.currentScope = s.currentScope := by
          simpa [regs] using hregs
        unfold lookup
        rw [find_eq_lfind s' hwf' name, h2, hr.1, hr.2,
          lfind_middle_global l1 l2 e s.inScope s.currentScope name (by rw [← h1]; exact hloc)
            (by rw [← h1]; exact hglob) hsc hn]
        simp [ha]

example : (match set { inScope := true, currentScope := 3 } "v" 7 with
           | .ok s' r => (r, lookup s' "v", lookup (scopeEnd s') "v")
           | .fault => (1, (1, 1), (1, 1))) = (0, (0, 7), (0, 7)) := by decide

/-! ### the callers: errors are errors (positive forms of the defects fixed by d3dcc05, f73b822) -/

/-- **set_on_label_is_error.**  `.set name = v` where the name resolves to a label: the statement is an
    error and nothing changes. -/
theorem set_on_label_is_error (s : Symbols) (name : String) (v : Nat) (e : Entry)
    (hf : find s name = some e) (hrw : e.rw = false) : dirSet s name v = some (s, true) := by
  obtain ⟨r, hr, he⟩ := find_some_ref s name e hf
  unfold dirSet set
  simp [hr, he, hrw]

example : (match append {} "x" 16 with
           | .ok s1 _ => (dirSet s1 "x" 5).map (·.2)
           | .fault => none) = some true := by decide

/-- **label_duplicate_is_error** / **func_duplicate_rejected.**  A second definition of a name in the same
    scope — by `name:` or by `.func name` — is an error (pass 1) and nothing changes. -/
theorem label_duplicate_is_error (s : Symbols) (name : String) (a : Nat) (e : Entry)
    (hl : s.locked = false) (hd : s.debug = false) (hf : find s name = some e)
    (hsame : s.inScope = false ∨ e.scope = s.currentScope) : dirLabel s name a = some (s, true) := by
  obtain ⟨s', h1, h2⟩ := append_duplicate_rejected s name a e hl hd hf hsame
  unfold dirLabel; rw [h1, h2]; rfl

theorem func_duplicate_rejected (s : Symbols) (name : String) (a : Nat) (e : Entry)
    (hl : s.locked = false) (hd : s.debug = false) (hf : find s name = some e)
    (hsame : s.inScope = false ∨ e.scope = s.currentScope) : dirFunc s name a = some (s, true) := by
  obtain ⟨s', h1, h2⟩ := append_duplicate_rejected s name a e hl hd hf hsame
  unfold dirFunc; rw [h1, h2]; rfl

example : (match append {} "f" 16 with
           | .ok s1 _ => (dirFunc s1 "f" 32).map (·.2)
           | .fault => none) = some true := by decide

/-! ### scope numbers -/

/-- the scope counter reaches every value below 2^32 by opening and closing scopes -/
def openClose : Nat → Symbols → Symbols
  | 0, s => s
  | n + 1, s => openClose n (scopeEnd (scopeStart s).1)

/-- **scope_ids_count_up.**  The n-th `.scope`/`.func` of a pass gets the id n, for n < 2^32
    (`counterMod`, the width of `current_scope`). -/
theorem scope_ids_count_up : ∀ (n : Nat) (s : Symbols), s.inScope = false →
    s.currentScope + n < counterMod → (openClose n s).currentScope = s.currentScope + n
  | 0, s, _, _ => by simp [openClose]
  | n + 1, s, hs, hb => by
      have h1 : (s.currentScope + 1) % counterMod = s.currentScope + 1 := Nat.mod_eq_of_lt (by omega)
      have := scope_ids_count_up n (scopeEnd (scopeStart s).1) (by simp [scopeEnd])
        (by simp [scopeStart, hs, scopeEnd, h1]; omega)
      simp only [openClose]
      rw [this]; simp [scopeStart, hs, scopeEnd, h1]; omega

/-- the former wrap at 65536 is gone: a label of the 65536th scope stays local -/
example : (match append (scopeStart ({ currentScope := 65535 } : Symbols)).1 "x" 1 with
           | .ok s2 _ => (lookup s2 "x", lookup (scopeEnd s2) "x")
           | .fault => ((7, 7), (7, 7))) = ((0, 1), (-1, 0)) := by decide

/-- **scope_counter_wraps_at_2_32.**  The bound of all statements about scope numbers: `current_scope`
    is a uint32; the 2^32-th scope of a pass gets the number 0, which is the global scope.  (A source
    with 2^32 `.scope` lines is > 50 GB; no failing input is given to the assembler for this.) -/
theorem scope_counter_wraps_at_2_32 :
    (scopeStart ({ currentScope := counterMod - 1 } : Symbols)).1.currentScope = 0 := by decide

/-- **unterminated_scope_rejected_in_pass2.**  `scope_reset()` between the passes clears `current_scope`
    but not `in_scope`: after a source that ends inside a `.scope`, the first `.scope` of pass 2 is
    refused ("Nested scopes are not allowed") — a malformed program is rejected, in pass 2. -/
theorem unterminated_scope_rejected_in_pass2 :
    (dirScope (scopeReset (lock (scopeStart {}).1))).2 = true := by decide

end NakenVerif.Symbols
