/-
  C02 — two-pass consistency: label addresses and sizes identical in both passes.
  Theorems about the generic two-pass driver model `Core.TwoPass`.
-/
import NakenVerif.Core.TwoPass

namespace NakenVerif.TwoPass

theorem lookup_append (t u : Syms) (n : String) (v : Nat) (h : lookup t n = some v) :
    lookup (t ++ u) n = some v := by
  unfold lookup at *
  simp only [List.find?_append]
  cases hf : t.find? (fun x => x.1 == n) with
  | none => rw [hf] at h; cases h
  | some p => rw [hf] at h; simpa using h

/-- pass 1 only ever adds bindings at the end of the table -/
theorem pass1_ext {ι} (b : Backend ι) :
    ∀ (prog : List (Stmt ι)) (s s1 : St1), pass1 b prog s = some s1 → ∃ u, s1.syms = s.syms ++ u
  | [], s, s1, h => by simp [pass1] at h; exact ⟨[], by rw [← h]; simp⟩
  | .label n :: r, s, s1, h => by
      simp only [pass1] at h
      split at h
      · cases h
      · obtain ⟨u, hu⟩ := pass1_ext b r _ s1 h
        exact ⟨(n, s.addr) :: u, by rw [hu]; simp⟩
  | .func n :: r, s, s1, h => by
      simp only [pass1] at h
      split at h
      · cases h
      · obtain ⟨u, hu⟩ := pass1_ext b r _ s1 h
        exact ⟨(n, s.addr) :: u, by rw [hu]; simp⟩
  | .emit i :: r, s, s1, h => by
      simp only [pass1] at h
      obtain ⟨u, hu⟩ := pass1_ext b r _ s1 h
      exact ⟨u, hu⟩
  | .data bs :: r, s, s1, h => by
      simp only [pass1] at h
      obtain ⟨u, hu⟩ := pass1_ext b r _ s1 h
      exact ⟨u, hu⟩
  | .org a :: r, s, s1, h => by
      simp only [pass1] at h
      obtain ⟨u, hu⟩ := pass1_ext b r _ s1 h
      exact ⟨u, hu⟩

/-- a name bound at the end of a table that did not contain it is found there, whatever follows -/
theorem lookup_bound (t u : Syms) (n : String) (a : Nat) (h : lookup t n = none) :
    lookup (t ++ [(n, a)] ++ u) n = some a := by
  unfold lookup at *
  have h1 : t.find? (fun x => x.1 == n) = none := by
    cases hf : t.find? (fun x => x.1 == n) with
    | none => rfl
    | some p => rw [hf] at h; cases h
  simp [List.find?_append, h1]

/-- the step shared by `name:` and `.func name`: pass 1 bound `n` (unknown before) to `s.addr`; if the
    locked append at counter `a'` succeeds, then `a' = s.addr` -/
theorem bind_step {ι} (b : Backend ι) (T : Syms) (r : List (Stmt ι)) (s s1 : St1) (n : String) (a' : Nat)
    (hnone : lookup s.syms n = none)
    (h : pass1 b r { s with syms := s.syms ++ [(n, s.addr)] } = some s1)
    (hT : ∀ n v, lookup s1.syms n = some v → lookup T n = some v)
    (hok : appendLocked T n a' = true) : s.addr = a' := by
  obtain ⟨u, hu⟩ := pass1_ext b r _ s1 h
  have hb : lookup s1.syms n = some s.addr := by
    rw [hu]; exact lookup_bound s.syms u n s.addr hnone
  have hTn := hT n s.addr hb
  simpa [appendLocked, hTn] using hok

theorem accepted_aux {ι} (b : Backend ι) (T : Syms) (M : Mem) :
    ∀ (prog : List (Stmt ι)) (s s1 : St1) (a' : Nat) (placed : List (String × Nat)),
      pass1 b prog s = some s1 →
      (∀ n v, lookup s1.syms n = some v → lookup T n = some v) →
      pass2 b T M prog a' = some placed →
      s1.syms = s.syms ++ placed
  | [], s, s1, a', placed, h, _, h2 => by
      simp [pass1] at h; simp [pass2] at h2; subst h; subst h2; simp
  | .label n :: r, s, s1, a', placed, h, hT, h2 => by
      simp only [pass1] at h
      split at h
      · cases h
      · rename_i hnone
        have hnone' : lookup s.syms n = none := by simpa using hnone
        simp only [pass2] at h2
        split at h2
        · rename_i hok
          have haddr := bind_step b T r s s1 n a' hnone' h hT hok
          cases hp : pass2 b T M r a' with
          | none => rw [hp] at h2; simp at h2
          | some pl =>
              rw [hp] at h2; simp at h2
              have := accepted_aux b T M r _ s1 a' pl h hT hp
              rw [this, ← h2, haddr]; simp
        · cases h2
  | .func n :: r, s, s1, a', placed, h, hT, h2 => by
      simp only [pass1] at h
      split at h
      · cases h
      · rename_i hnone
        have hnone' : lookup s.syms n = none := by simpa using hnone
        simp only [pass2] at h2
        split at h2
        · rename_i hok
          have haddr := bind_step b T r s s1 n a' hnone' h hT hok
          cases hp : pass2 b T M r a' with
          | none => rw [hp] at h2; simp at h2
          | some pl =>
              rw [hp] at h2; simp at h2
              have := accepted_aux b T M r _ s1 a' pl h hT hp
              rw [this, ← h2, haddr]; simp
        · cases h2
  | .emit i :: r, s, s1, a', placed, h, hT, h2 => by
      simp only [pass1] at h
      simp only [pass2] at h2
      have key := accepted_aux b T M r _ s1 _ placed h hT h2
      simpa using key
  | .data bs :: r, s, s1, a', placed, h, hT, h2 => by
      simp only [pass1] at h
      simp only [pass2] at h2
      have key := accepted_aux b T M r _ s1 _ placed h hT h2
      simpa using key
  | .org x :: r, s, s1, a', placed, h, hT, h2 => by
      simp only [pass1] at h
      simp only [pass2] at h2
      have key := accepted_aux b T M r _ s1 _ placed h hT h2
      simpa using key

/-- **accepted_labels_stable** (the unconditional form, since dd028e1).  For EVERY back end — no
    size-stability, no assumption about flag bytes or pads — if pass 1 and pass 2 both accept the program,
    then pass 2 met every name, whether bound by `name:` or by `.func name`, at exactly the location counter
    pass 1 bound it to: pass 2 itself checks it. -/
theorem accepted_labels_stable {ι} (b : Backend ι) (prog : List (Stmt ι)) (a0 : Nat) (m0 : Mem)
    (s1 : St1) (placed : List (String × Nat))
    (h1 : pass1 b prog { addr := a0, syms := [], mem := m0 } = some s1)
    (h2 : pass2 b s1.syms s1.mem prog a0 = some placed) : placed = s1.syms := by
  have := accepted_aux b s1.syms s1.mem prog _ s1 a0 placed h1 (fun _ _ h => h) h2
  simpa using this.symm

/-- pass 2 = the unchecked walk of the location counter whenever it accepts -/
theorem pass2_eq_met2 {ι} (b : Backend ι) (T : Syms) (M : Mem) :
    ∀ (prog : List (Stmt ι)) (a : Nat) (placed : List (String × Nat)),
      pass2 b T M prog a = some placed → met2 b T M prog a = placed
  | [], a, placed, h => by simp [pass2] at h; simp [met2, h]
  | .label n :: r, a, placed, h => by
      simp only [pass2] at h
      have key : ∀ pl, pass2 b T M r a = some pl → met2 b T M r a = pl := pass2_eq_met2 b T M r a
      split at h
      · cases hp : pass2 b T M r a with
        | none => rw [hp] at h; simp at h
        | some pl => rw [hp] at h; simp at h; simp [met2, key pl hp, h]
      · cases h
  | .func n :: r, a, placed, h => by
      simp only [pass2] at h
      have key : ∀ pl, pass2 b T M r a = some pl → met2 b T M r a = pl := pass2_eq_met2 b T M r a
      split at h
      · cases hp : pass2 b T M r a with
        | none => rw [hp] at h; simp at h
        | some pl => rw [hp] at h; simp at h; simp [met2, key pl hp, h]
      · cases h
  | .emit i :: r, a, placed, h => by
      simp only [pass2] at h; simp only [met2]; exact pass2_eq_met2 b T M r _ placed h
  | .data bs :: r, a, placed, h => by
      simp only [pass2] at h; simp only [met2]; exact pass2_eq_met2 b T M r _ placed h
  | .org x :: r, a, placed, h => by
      simp only [pass2] at h; simp only [met2]; exact pass2_eq_met2 b T M r _ placed h

/-- where nothing is padded in front of what follows a name, the bytes following each name are placed at
    the location counter at which the name was met -/
theorem place2_eq_met2 {ι} (b : Backend ι) (T : Syms) (M : Mem) :
    ∀ (prog : List (Stmt ι)) (a : Nat), PadFreeAtNames b T M prog a → place2 b T M prog a = met2 b T M prog a
  | [], a, _ => by simp [place2, met2]
  | .label n :: r, a, h => by
      obtain ⟨hc, hr⟩ := h
      simp only [place2, met2, hc, place2_eq_met2 b T M r a hr]
  | .func n :: r, a, h => by
      obtain ⟨hc, hr⟩ := h
      simp only [place2, met2, hc, place2_eq_met2 b T M r a hr]
  | .emit i :: r, a, h => by
      simp only [PadFreeAtNames] at h; simp only [place2, met2]; exact place2_eq_met2 b T M r _ h
  | .data bs :: r, a, h => by
      simp only [PadFreeAtNames] at h; simp only [place2, met2]; exact place2_eq_met2 b T M r _ h
  | .org x :: r, a, h => by
      simp only [PadFreeAtNames] at h; simp only [place2, met2]; exact place2_eq_met2 b T M r _ h

theorem codeAt_of_no_pad {ι} (b : Backend ι) (hp : ∀ a, b.pad a = 0) :
    ∀ (r : List (Stmt ι)) (a : Nat), codeAt b r a = a
  | [], a => by simp [codeAt]
  | .label _ :: r, a => by simp only [codeAt]; exact codeAt_of_no_pad b hp r a
  | .func _ :: r, a => by simp only [codeAt]; exact codeAt_of_no_pad b hp r a
  | .emit _ :: _, a => by simp [codeAt, hp a]
  | .data _ :: _, a => by simp [codeAt]
  | .org _ :: _, a => by simp [codeAt]

/-- a back end that never pads satisfies the side condition of `label_is_placement` on every program -/
theorem padFree_of_no_pad {ι} (b : Backend ι) (hp : ∀ a, b.pad a = 0) (T : Syms) (M : Mem) :
    ∀ (prog : List (Stmt ι)) (a : Nat), PadFreeAtNames b T M prog a
  | [], a => by simp [PadFreeAtNames]
  | .label _ :: r, a => ⟨codeAt_of_no_pad b hp r a, padFree_of_no_pad b hp T M r a⟩
  | .func _ :: r, a => ⟨codeAt_of_no_pad b hp r a, padFree_of_no_pad b hp T M r a⟩
  | .emit _ :: r, a => by simp only [PadFreeAtNames]; exact padFree_of_no_pad b hp T M r _
  | .data _ :: r, a => by simp only [PadFreeAtNames]; exact padFree_of_no_pad b hp T M r _
  | .org _ :: r, a => by simp only [PadFreeAtNames]; exact padFree_of_no_pad b hp T M r _

/-- **moved_label_is_error.**  Contrapositive: if pass 2 would meet some name (`name:` or `.func name`) at
    another location counter than the one pass 1 bound it to, pass 2 rejects the program. -/
theorem moved_label_is_error {ι} (b : Backend ι) (prog : List (Stmt ι)) (a0 : Nat) (m0 : Mem) (s1 : St1)
    (h1 : pass1 b prog { addr := a0, syms := [], mem := m0 } = some s1)
    (hmoved : met2 b s1.syms s1.mem prog a0 ≠ s1.syms) :
    pass2 b s1.syms s1.mem prog a0 = none := by
  cases h2 : pass2 b s1.syms s1.mem prog a0 with
  | none => rfl
  | some placed =>
      have e1 := accepted_labels_stable b prog a0 m0 s1 placed h1 h2
      have e2 := pass2_eq_met2 b s1.syms s1.mem prog a0 placed h2
      exact absurd (e2.trans e1) hmoved

theorem labels_stable_aux {ι} (b : Backend ι) (hst : ∀ i, SizeStable b i) (T : Syms) (M : Mem) :
    ∀ (prog : List (Stmt ι)) (s s1 : St1), pass1 b prog s = some s1 →
      (∀ n v, lookup s1.syms n = some v → lookup T n = some v) →
      Intact b M prog s.addr s.syms →
      ∃ placed, pass2 b T M prog s.addr = some placed ∧ s1.syms = s.syms ++ placed
  | [], s, s1, h, _, _ => by simp [pass1] at h; exact ⟨[], by simp [pass2], by rw [← h]; simp⟩
  | .label n :: r, s, s1, h, hT, hI => by
      simp only [pass1] at h
      split at h
      · cases h
      · rename_i hnone
        have hnone' : lookup s.syms n = none := by simpa using hnone
        obtain ⟨u, hu⟩ := pass1_ext b r _ s1 h
        have hb : lookup s1.syms n = some s.addr := by
          rw [hu]; exact lookup_bound s.syms u n s.addr hnone'
        have hTn := hT n s.addr hb
        obtain ⟨pl, hp, he⟩ := labels_stable_aux b hst T M r _ s1 h hT hI
        refine ⟨(n, s.addr) :: pl, ?_, by rw [he]; simp⟩
        simp only at hp
        simp [pass2, appendLocked, hTn, hp]
  | .func n :: r, s, s1, h, hT, hI => by
      simp only [pass1] at h
      split at h
      · cases h
      · rename_i hnone
        have hnone' : lookup s.syms n = none := by simpa using hnone
        obtain ⟨u, hu⟩ := pass1_ext b r _ s1 h
        have hb : lookup s1.syms n = some s.addr := by
          rw [hu]; exact lookup_bound s.syms u n s.addr hnone'
        have hTn := hT n s.addr hb
        obtain ⟨pl, hp, he⟩ := labels_stable_aux b hst T M r _ s1 h hT hI
        refine ⟨(n, s.addr) :: pl, ?_, by rw [he]; simp⟩
        simp only at hp
        simp [pass2, appendLocked, hTn, hp]
  | .emit i :: r, s, s1, h, hT, hI => by
      simp only [pass1] at h
      obtain ⟨hflag, hI'⟩ := hI
      obtain ⟨u, hu⟩ := pass1_ext b r _ s1 h
      have hsub : Sub (lookup s.syms) (lookup T) := by
        intro n v hv
        apply hT
        have : s1.syms = s.syms ++ u := hu
        rw [this]; exact lookup_append _ _ _ _ hv
      have hsz := hst i (lookup s.syms) (lookup T) (s.addr + b.pad s.addr) hsub
      obtain ⟨pl, hp, he⟩ := labels_stable_aux b hst T M r _ s1 h hT hI'
      exact ⟨pl, by simp only [pass2, hflag, hsz]; exact hp, he⟩
  | .data bs :: r, s, s1, h, hT, hI => by
      simp only [pass1] at h
      obtain ⟨pl, hp, he⟩ := labels_stable_aux b hst T M r _ s1 h hT hI
      exact ⟨pl, by simp only [pass2]; exact hp, he⟩
  | .org a :: r, s, s1, h, hT, hI => by
      simp only [pass1] at h
      obtain ⟨pl, hp, he⟩ := labels_stable_aux b hst T M r _ s1 h hT hI
      exact ⟨pl, by simp only [pass2]; exact hp, he⟩

/-- **labels_stable.**  If every instruction of the back end is size-stable, then every program that pass 1
    accepts and whose flag bytes survive pass 1 (`Intact`) is ACCEPTED by pass 2, which meets the names
    in the same order at exactly the addresses pass 1 bound them to.  (With `accepted_labels_stable`:
    size-stable back ends are never rejected by the moved-label check; others are never miscompiled.) -/
theorem labels_stable {ι} (b : Backend ι) (hst : ∀ i, SizeStable b i) (prog : List (Stmt ι))
    (a0 : Nat) (m0 : Mem) (s1 : St1)
    (h1 : pass1 b prog { addr := a0, syms := [], mem := m0 } = some s1)
    (hI : Intact b s1.mem prog a0 []) :
    pass2 b s1.syms s1.mem prog a0 = some s1.syms := by
  obtain ⟨pl, hp, he⟩ := labels_stable_aux b hst s1.syms s1.mem prog _ s1 h1 (fun _ _ h => h) hI
  have : s1.syms = pl := by simpa using he
  simp only at hp
  rw [hp, this]

/-- **label_is_placement.**  The address bound to a name (`name:` or `.func name`) is the address at which the
    code or data following it is placed in pass 2 — for every accepted program of every back end, provided the
    back end pads nothing between a name and the instruction that follows it (`PadFreeAtNames`; every back end
    with `pad = 0` satisfies it: `label_is_placement_no_pad`).  The side condition is necessary:
    `pad_breaks_placement`. -/
theorem label_is_placement {ι} (b : Backend ι) (prog : List (Stmt ι))
    (a0 : Nat) (m0 : Mem) (s1 : St1) (placed : List (String × Nat))
    (h1 : pass1 b prog { addr := a0, syms := [], mem := m0 } = some s1)
    (h2 : pass2 b s1.syms s1.mem prog a0 = some placed)
    (hpad : PadFreeAtNames b s1.syms s1.mem prog a0) :
    place2 b s1.syms s1.mem prog a0 = s1.syms := by
  rw [place2_eq_met2 b _ _ prog a0 hpad, pass2_eq_met2 b _ _ prog a0 placed h2]
  exact accepted_labels_stable b prog a0 m0 s1 placed h1 h2

/-- **label_is_placement_no_pad.**  For a back end that never pads (all of them except asm/msp430.cpp and
    asm/avr8.cpp in the tree as it is) the address bound to a name is where the following bytes go, for every
    accepted program. -/
theorem label_is_placement_no_pad {ι} (b : Backend ι) (hp : ∀ a, b.pad a = 0) (prog : List (Stmt ι))
    (a0 : Nat) (m0 : Mem) (s1 : St1) (placed : List (String × Nat))
    (h1 : pass1 b prog { addr := a0, syms := [], mem := m0 } = some s1)
    (h2 : pass2 b s1.syms s1.mem prog a0 = some placed) :
    place2 b s1.syms s1.mem prog a0 = s1.syms :=
  label_is_placement b prog a0 m0 s1 placed h1 h2 (padFree_of_no_pad b hp _ _ prog a0)

/-- **pad_breaks_placement.**  The side condition of `label_is_placement` is necessary, for every back end:
    wherever the back end pads (`pad a ≠ 0`), the two-statement program `n: instruction` at `a` is accepted by
    both passes — the name is met at `a` in both, nothing "moves" — yet the instruction is placed at
    `a + pad a ≠ a`.  (C02-m2 and the MSP430/AVR8 behaviour.) -/
theorem pad_breaks_placement {ι} (b : Backend ι) (i : ι) (n : String) (a : Nat) (m0 : Mem) (hp : b.pad a ≠ 0) :
    ∃ s1, pass1 b [.label n, .emit i] { addr := a, syms := [], mem := m0 } = some s1 ∧
      s1.syms = [(n, a)] ∧
      pass2 b s1.syms s1.mem [.label n, .emit i] a = some [(n, a)] ∧
      place2 b s1.syms s1.mem [.label n, .emit i] a = [(n, a + b.pad a)] ∧
      place2 b s1.syms s1.mem [.label n, .emit i] a ≠ s1.syms := by
  refine ⟨_, rfl, ?_⟩
  refine ⟨by simp, ?_, ?_, ?_⟩
  · simp [pass2, appendLocked, lookup]
  · simp [place2, codeAt]
  · simp only [place2, codeAt]
    intro h
    have : a + b.pad a = a := by simpa using h
    omega

/-- data directives as a back end: the size is the number of bytes in both passes -/
def dataBackend : Backend (List Nat) where
  size1 bs _ _ := (bs.length, none)
  size2 bs _ _ _ := bs.length

/-- **data_size_stable.** -/
theorem data_size_stable (bs : List Nat) : SizeStable dataBackend bs := by
  intro _ _ _ _; rfl

theorem eval_sub (o : Opd) (known final : String → Option Nat) (h : Sub known final) (v : Nat)
    (hv : o.eval known = some v) : o.eval final = some v := by
  cases o with
  | const c => simpa [Opd.eval] using hv
  | sym n => exact h n v hv

/-- **flag_idiom_size_stable.**  The pass-1 flag idiom (reserve the long form and leave flag 1 when the
    operand is unknown; otherwise decide by value and leave nothing) is size-stable for every
    `fits` predicate and every pair of sizes. -/
theorem flag_idiom_size_stable (fits : Nat → Bool) (short long : Nat) (o : Opd) :
    SizeStable (flagIdiom fits short long) o := by
  intro known final addr hsub
  simp only [flagIdiom]
  cases hk : o.eval known with
  | none => simp
  | some v =>
      have := eval_sub o known final hsub v hk
      simp [this]

/-- **msp430_cg_size_stable.**  `op.w #imm, Rn` of asm/msp430.cpp: constant generator vs extension word. -/
theorem msp430_cg_size_stable (o : Opd) : SizeStable msp430Imm o :=
  flag_idiom_size_stable msp430Cg 2 4 o

/-- the MSP430 instance end to end: any program of immediates, data and labels whose flag bytes are intact -/
theorem msp430_labels_stable (prog : List (Stmt Opd)) (a0 : Nat) (m0 : Mem) (s1 : St1)
    (h1 : pass1 msp430Imm prog { addr := a0, syms := [], mem := m0 } = some s1)
    (hI : Intact msp430Imm s1.mem prog a0 []) :
    pass2 msp430Imm s1.syms s1.mem prog a0 = some s1.syms :=
  labels_stable msp430Imm msp430_cg_size_stable prog a0 m0 s1 h1 hI

/-- both passes of a program from address `a0` and an empty memory:
    (symbol table, verdict and placements of pass 2, placements of the unchecked walk) -/
def both {ι} (b : Backend ι) (prog : List (Stmt ι)) (a0 : Nat) :
    Option (Syms × Option (List (String × Nat)) × List (String × Nat)) :=
  match pass1 b prog { addr := a0, syms := [], mem := fun _ => 0 } with
  | some s1 => some (s1.syms, pass2 b s1.syms s1.mem prog a0, place2 b s1.syms s1.mem prog a0)
  | none => none

-- non-vacuity: `mov #fwd, r5; after: … .org 2; fwd:` — forward reference to a value the constant
-- generator could produce: 4 bytes in both passes, `after` stays at 0x8004, pass 2 accepts
example : both msp430Imm [.emit (.sym "fwd"), .label "after", .org 2, .label "fwd"] 0x8000 =
    some ([("after", 0x8004), ("fwd", 2)], some [("after", 0x8004), ("fwd", 2)], [("after", 0x8004), ("fwd", 2)]) := by
  decide

/-- **unstable_is_rejected.**  A back end without the flag (it re-decides in pass 2 from the final value)
    would place `after` at 0x8002 while it is bound to 0x8004: pass 2 rejects the program instead of
    emitting it (before dd028e1 this was a silent miscompile). -/
theorem unstable_is_rejected :
    both (naive msp430Cg 2 4) [.emit (.sym "fwd"), .label "after", .org 2, .label "fwd"] 0x8000 =
      some ([("after", 0x8004), ("fwd", 2)], none, [("after", 0x8002), ("fwd", 2)]) := by decide

/-- **value_changed_sizes_differ.**  The flag idiom is size-stable only if a symbol known in pass 1 keeps
    its value (`Sub`).  When pass 1 sees a global `x = 2` and pass 2 resolves `x` to a local label defined
    later (0x8004), the reserved and the emitted size differ — the mechanism behind the former finding
    `forward-local-shadows-global`; such programs are now rejected by `moved_label_is_error`. -/
theorem value_changed_sizes_differ :
    let known : String → Option Nat := fun n => if n = "x" then some 2 else none
    let final : String → Option Nat := fun n => if n = "x" then some 0x8004 else none
    (msp430Imm.size1 (.sym "x") known 0x8000).1 = 2 ∧
    msp430Imm.size2 (.sym "x") final 0x8000 (((msp430Imm.size1 (.sym "x") known 0x8000).2).getD 0) = 4 := by
  decide

/-- **flag_overwritten_is_rejected.**  The side condition `Intact` of `labels_stable` is necessary for
    acceptance: a `.db 0` placed (through `.org`) over the first byte of an earlier instruction erases its
    pass-1 flag, pass 2 takes the short form, `after` would be placed at 2 while bound to 4 — rejected. -/
theorem flag_overwritten_is_rejected :
    both msp430Imm [.emit (.sym "fwd"), .label "after", .org 0, .data [0], .org 2, .label "fwd"] 0 =
      some ([("after", 4), ("fwd", 2)], none, [("after", 2), ("fwd", 2)]) := by decide

/-- **func_moved_is_rejected.**  The check covers names bound by `.func`: `.func first / lda table,x / .func second`
    with `table` a forward reference to a small value, on a back end that re-decides the size in pass 2 (6809
    indexed, TMS340 jruc): pass 1 binds `second` to 0x1004, pass 2 would meet it at 0x1002 — rejected, although
    no plain `name:` stands behind the instruction (C02-m1 removes exactly this). -/
theorem func_moved_is_rejected :
    both (naive msp430Cg 2 4) [.func "first", .emit (.sym "table"), .func "second", .org 2, .label "table"] 0x1000 =
      some ([("first", 0x1000), ("second", 0x1004), ("table", 2)], none,
            [("first", 0x1000), ("second", 0x1002), ("table", 2)]) := by decide

-- non-vacuity of `accepted_labels_stable` / `label_is_placement` with `.func` names: accepted, placed = table
example : both (flagIdiom msp430Cg 2 4) [.func "first", .emit (.sym "table"), .func "second", .data [7], .org 2, .label "table"] 0x1000 =
    some ([("first", 0x1000), ("second", 0x1004), ("table", 2)], some [("first", 0x1000), ("second", 0x1004), ("table", 2)],
          [("first", 0x1000), ("second", 0x1004), ("table", 2)]) := by decide

/-- **msp430_pad_counterexample** (genuine defect left in the code, known finding `msp430-pad-behind-label`).
    `.org 0x1000 / .db 1 / lab: / mov.w #0x1234, r5` on the MSP430 model: both passes accept and agree
    (`lab` = 0x1001 in both), but the instruction is placed at 0x1002 behind the pad byte. -/
theorem msp430_pad_counterexample :
    both msp430Imm [.data [1], .label "lab", .emit (.const 0x1234), .label "end"] 0x1000 =
      some ([("lab", 0x1001), ("end", 0x1006)], some [("lab", 0x1001), ("end", 0x1006)],
            [("lab", 0x1002), ("end", 0x1006)]) := by decide

/-- **avr8_skip_counterexample** (genuine defect left in the code, known finding `avr8-skip-behind-label`).
    Byte counters: `.db 1 / lab: / nop` from byte 0x200: `lab` is bound at byte counter 0x201 (word 0x100, the
    word that holds the data byte), the nop is placed at byte 0x202 (word 0x101). -/
theorem avr8_skip_counterexample :
    both avr8Word [.data [1], .label "lab", .emit (), .label "end"] 0x200 =
      some ([("lab", 0x201), ("end", 0x204)], some [("lab", 0x201), ("end", 0x204)],
            [("lab", 0x202), ("end", 0x204)]) := by decide

-- the MSP430 model at even counters pads nothing: the side condition of `label_is_placement` holds there
example : PadFreeAtNames msp430Imm [] (fun _ => 0) [.label "a", .emit (.const 5), .label "b", .emit (.sym "a")] 0x8000 := by
  simp [PadFreeAtNames, codeAt, msp430Imm, flagIdiom, Opd.eval, msp430Cg]

end NakenVerif.TwoPass
