/-
  C06 — operand values are encoded exactly or rejected.  Per-CPU theorems (RV32I, namespace NakenVerif.Riscv):
    rv32i_encode_rejects_unfit, rv32i_encode_injective_mod_field, rv32i_encode_injective_imm12,
    rv32i_encode_exact_field
  MSP430 16-bit core (NakenVerif.Msp430.AsmRange): msp430_encode_rejects_unfit (every mnemonic and alias),
  msp430_encode_injective_mod_field, msp430_encode_injective_imm16, msp430_encode_exact_field, msp430_jump_range,
  table_alias_rows, table_jump_rows
-/
import NakenVerif.Riscv.Props
import NakenVerif.Msp430.Fixpoint
