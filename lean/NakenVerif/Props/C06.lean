/-
  C06 — operand values are encoded exactly or rejected.  Per-CPU theorems (RV32I, namespace NakenVerif.Riscv):
    rv32i_encode_rejects_unfit, rv32i_encode_injective_mod_field, rv32i_encode_injective_imm12,
    rv32i_encode_exact_field
-/
import NakenVerif.Riscv.Props
