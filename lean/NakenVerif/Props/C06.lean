/-
  C06 — operand values are encoded exactly or rejected.  Per-CPU theorems (RV32I, namespace NakenVerif.Riscv):
    rv32i_encode_rejects_unfit, rv32i_encode_injective_mod_field, rv32i_encode_injective_imm12,
    rv32i_encode_exact_field
  MSP430 16-bit core (NakenVerif.Msp430.AsmRange): msp430_encode_rejects_unfit (every mnemonic and alias),
  msp430_encode_injective_mod_field, msp430_encode_injective_imm16, msp430_encode_exact_field, msp430_jump_range,
  table_alias_rows, table_jump_rows
  MOS 6502 / 65C02 (NakenVerif.M6502.AsmRange): m6502_encode_rejects_unfit, m6502_imm_range, m6502_addr_range,
  m6502_zp_only_range, m6502_zp_form_only_range, m6502_branch_range, m6502_bbr_range, m6502_encode_injective_mod_field,
  m6502_encode_injective_imm8, m6502_encode_injective_addr, m6502_encode_injective_branch, m6502_encode_exact_field
-/
import NakenVerif.Riscv.Props
import NakenVerif.Msp430.Fixpoint
import NakenVerif.M6502.Fixpoint
