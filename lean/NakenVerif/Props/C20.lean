/-
  Property C20: linked object code is placed once, its calls bound to the final addresses.

  Implementation model: `Link/ElfImpl.lean` (imports_obj.cpp), `Link/ArImpl.lean` (imports_ar.cpp, Linker.cpp),
  `Link/LinkImpl.lean` (tokens_get discovery, AsmContext::link in both passes, link_function_mips).
  Specification: `Link/Spec.lean` (reachability from the program's references, consecutive placement,
  R_MIPS_26).  `Link/Abs.lean` maps what the readers return to the specification's object view.

  The theorems quantify over every reader behaviour (`Env`), hence over all byte strings given as .o / .a
  files, over every source (`Prog`: its tokens, symbols, end addresses, references), every byte order and every
  amount of fuel; nothing bounds the number of functions, call depth, cycles, sizes or addresses.
  Only statements and non-vacuity examples live here; proofs are in `Link/Proofs*.lean`.
-/
import NakenVerif.Link.ProofsProps
import NakenVerif.Link.ProofsUniverse
import NakenVerif.Link.ProofsNoFault
import NakenVerif.Link.ProofsElfSound
import NakenVerif.Link.Examples

namespace NakenVerif.Link.C20
open NakenVerif.Link

/-- the specification's view of the imported files, as the readers present them -/
abbrev objs (env : Env) (cfg : Cfg) : Spec.Objs := objsOf env cfg.bigEndian

/-! ## 1. placed once, exactly the referenced functions -/

/-- A successful link queues every function at most once (however often it is referenced, also on cycles and
self calls), the queued functions are exactly those reachable from the program's references, and pass 2
writes exactly one run of bytes per queued function. -/
theorem link_places_reachable_once {env : Env} {cfg : Cfg} {p : Prog} {fuel : Nat} {o : Out}
    (h : linkAll env cfg p fuel = .ok o) :
    o.list.Nodup ∧ (∀ n, n ∈ o.list ↔ Spec.Reach (objs env cfg) p.idents n) ∧ o.runs.length = o.list.length := by
  have s := linkAll_sound h
  refine ⟨s.nodup, s.reach, ?_⟩
  have := s.placed.length_eq
  rw [← this, ← List.length_map (f := (·.1)), layout_names]

/-- Functions that are not referenced are not included: no run, no symbol. -/
theorem unreferenced_not_included {env : Env} {cfg : Cfg} {p : Prog} {fuel : Nat} {o : Out}
    (h : linkAll env cfg p fuel = .ok o) (n : Name) (hn : ¬ Spec.Reach (objs env cfg) p.idents n) :
    n ∉ o.list ∧ Syms.lookup o.syms n = Syms.lookup p.syms n := by
  have s := linkAll_sound h
  have hnl : n ∉ o.list := fun hm => hn ((s.reach n).mp hm)
  refine ⟨hnl, ?_⟩
  rw [s.syms, Syms.lookup_append, Syms.lookup_none_of_not_mem (Spec.layout (sizeOf env) o.list p.end1) n
    (by rw [layout_names]; exact hnl)]
  cases Syms.lookup p.syms n <;> rfl

/-! ## 2. placed at the address recorded for its symbol -/

/-- The symbol table after the link is the program's own followed by one entry per placed function; the
functions follow each other from the address the source ended at (each occupying its size rounded up to whole
words); looking a placed name up yields that address, and pass 2 wrote its bytes exactly there. -/
theorem link_address_recorded {env : Env} {cfg : Cfg} {p : Prog} {fuel : Nat} {o : Out}
    (h : linkAll env cfg p fuel = .ok o) :
    o.syms = p.syms ++ Spec.layout (sizeOf env) o.list p.end1 ∧
    (∀ i n, o.list[i]? = some n → ∃ f a bytes, PlacedAt env cfg p o i n f a bytes) ∧
    (∀ n ∈ o.list, Syms.lookup p.syms n = none) := by
  have s := linkAll_sound h
  exact ⟨s.syms, fun i n hi => placed_at s hi, s.fresh⟩

/-- Exactly once in the image: the runs written by pass 2 start where the source ended (in both passes) and
follow each other without gap or overlap, one per placed function. -/
theorem link_regions_consecutive {env : Env} {cfg : Cfg} {p : Prog} {fuel : Nat} {o : Out}
    (h : linkAll env cfg p fuel = .ok o) :
    (∀ a b, o.runs[0]? = some (a, b) → a = p.end1 ∧ a = p.end2) ∧
    ∀ i a b a' b', o.runs[i]? = some (a, b) → o.runs[i + 1]? = some (a', b') → a' = a + BitVec.ofNat 32 b.length :=
  runs_consecutive (linkAll_sound h)

/-! ## 3. bytes preserved -/

/-- The bytes written for a placed function are those of the object file in every word that carries no call
relocation (the last word of a function whose size is not a multiple of 4 is completed with zeros), and their
number is the size rounded up to whole words. -/
theorem link_bytes_preserved {env : Env} {cfg : Cfg} {p : Prog} {fuel : Nat} {o : Out}
    (h : linkAll env cfg p fuel = .ok o) {i : Nat} {n : Name} (hi : o.list[i]? = some n) :
    ∃ f a bytes, env.find n = .found f ∧ o.runs[i]? = some (a, bytes) ∧
      bytes.length = 4 * Spec.words f.code.length ∧
      ∀ j, j < Spec.words f.code.length → (∀ e ∈ (fnOf env cfg.bigEndian f).calls, e.1 ≠ 4 * j) →
        (bytes.drop (4 * j)).take 4 =
          [f.code.getD (4 * j) 0, f.code.getD (4 * j + 1) 0, f.code.getD (4 * j + 2) 0, f.code.getD (4 * j + 3) 0] := by
  obtain ⟨f, a, bytes, pl⟩ := placed_at (linkAll_sound h) hi
  exact ⟨f, a, bytes, pl.found, pl.run, (placed_bytes_preserved pl).1, (placed_bytes_preserved pl).2⟩

/-- The whole run is the specification's `relocated` bytes of the function under the final symbol table. -/
theorem link_bytes_are_relocated {env : Env} {cfg : Cfg} {p : Prog} {fuel : Nat} {o : Out}
    (h : linkAll env cfg p fuel = .ok o) {i : Nat} {n : Name} (hi : o.list[i]? = some n) :
    ∃ f a bytes, env.find n = .found f ∧ o.runs[i]? = some (a, bytes) ∧ Syms.lookup o.syms n = some a ∧
      Spec.relocated cfg.bigEndian (Syms.lookup o.syms) (fnOf env cfg.bigEndian f) (Spec.words f.code.length) 0 =
        some bytes := by
  obtain ⟨f, a, bytes, pl⟩ := placed_at (linkAll_sound h) hi
  exact ⟨f, a, bytes, pl.found, pl.run, pl.recorded, pl.bytes⟩

/-! ## 4. every call relocation bound to the final address -/

/-- Every call relocation `(off, g)` of a placed function: `g` is placed too (at `ag`, the address recorded for
its symbol, a multiple of 4), and the word written at `off` is the object file's word with the R_MIPS_26 field
set to `ag >> 2` and the opcode bits untouched. -/
theorem jal_bound_to_final {env : Env} {cfg : Cfg} {p : Prog} {fuel : Nat} {o : Out}
    (h : linkAll env cfg p fuel = .ok o) {i : Nat} {n : Name} (hi : o.list[i]? = some n) :
    ∃ f a bytes, env.find n = .found f ∧ o.runs[i]? = some (a, bytes) ∧
      ∀ off g, (off, g) ∈ (fnOf env cfg.bigEndian f).calls →
        ∃ ig fg ag bg, PlacedAt env cfg p o ig g fg ag bg ∧
          (bytes.drop off).take 4 = Spec.putWord cfg.bigEndian (Spec.setTarget
            (Spec.getWord cfg.bigEndian (f.code.getD off 0) (f.code.getD (off + 1) 0) (f.code.getD (off + 2) 0)
              (f.code.getD (off + 3) 0)) ag) := by
  have s := linkAll_sound h
  obtain ⟨f, a, bytes, pl⟩ := placed_at s hi
  exact ⟨f, a, bytes, pl.found, pl.run, fun off g hc => placed_call_bound s pl hc⟩

/-- what the patched field means: opcode kept, field = bits 27..2 of the target, and a jump executed in the
target's 256 MiB region lands on the (word aligned) target -/
theorem r_mips_26 (w a : BitVec 32) :
    (Spec.setTarget w a).extractLsb' 26 6 = w.extractLsb' 26 6 ∧
    (Spec.setTarget w a).extractLsb' 0 26 = a.extractLsb' 2 26 ∧
    (a &&& 3 = 0 → Spec.targetOf (Spec.setTarget w a) a = a) :=
  ⟨setTarget_opcode w a, setTarget_field w a, setTarget_reaches w a⟩

/-! ## 5. errors -/

/-- An unresolved symbol is an error: when a referenced function calls a symbol that no imported file
defines, the link does not succeed (for any fuel). -/
theorem unresolved_is_error {env : Env} {cfg : Cfg} {p : Prog} {fuel : Nat} {o : Out}
    (hu : Spec.Unresolved (objs env cfg) p.idents) : linkAll env cfg p fuel ≠ .ok o :=
  unresolved_not_ok hu

/-- A reference of the source itself that neither the source nor the imports define is an error. -/
theorem program_reference_unresolved_is_error {env : Env} {cfg : Cfg} {p : Prog} {fuel : Nat} {o : Out}
    (h : linkAll env cfg p fuel = .ok o) : ∀ r ∈ p.refs, (Syms.lookup o.syms r).isSome :=
  (linkAll_sound h).refs

/-- An unsupported object file is an error before anything is assembled: a file whose `verify` fails makes
`addFiles` (main()'s loop over the arguments) stop with "Not a supported file". -/
theorem unsupported_object_is_error (fileName : Name) (data : Bytes) (isAr : Bool) (rest : List (Name × Bytes))
    (acc : List Import) (hk : importKind fileName = some isAr)
    (hv : (Import.mk isAr data).verify = some false) :
    ∀ imports, addFiles ((fileName, data) :: rest) acc ≠ .ok imports := by
  intro imports
  rw [addFiles]
  simp only [hk, hv]
  intro h; cases h

/-- `imports_obj_verify` accepts only 32-bit little-endian ELF files of at least a header's length. -/
theorem verify_accepts_only_elf32_le (v : View) (h : Elf.verify v = some true) :
    52 ≤ v.size ∧ v.u8 0 = some 0x7f ∧ v.u8 1 = some 0x45 ∧ v.u8 2 = some 0x4c ∧ v.u8 3 = some 0x46 ∧
    v.u8 4 = some 1 ∧ v.u8 5 = some 1 :=
  Elf.verify_ident_facts v h

/-- For every byte string given as .o / .a file, every source and every amount of fuel: no reader of the
model ever reads outside `[buffer, buffer + file_size)` (the outcome `fault` does not occur), neither while the
files are added (`verify`) nor during discovery, the two link passes and the relocation lookups. -/
theorem readers_never_read_outside (files : List (Name × Bytes)) (imports : List Import) (cfg : Cfg) (p : Prog)
    (fuel : Nat) :
    (match addFiles files [] with | .fault => False | _ => True) ∧ linkAll (envOf imports) cfg p fuel ≠ .fault :=
  ⟨addFiles_ne_fault files [], linkAll_ne_fault (envOf_noFault imports) cfg p fuel⟩

/-! ## 5b. what the readers' answers mean in the file (ELF gABI reading; soundness) -/

/-- A hit of `imports_obj_find_code_from_symbol` is an entry of a SHT_SYMTAB section whose name, read in the
SHT_STRTAB section called `.strtab`, is the requested symbol, whose `st_size` is not 0 and whose `st_shndx` is the
index of a (non-NOBITS) section called `.text`; the function lies inside that section and the reported file offset is
the section's `sh_offset + st_value`: "its bytes are those of the object file". -/
theorem found_function_is_text_symbol {v : View} {sym : Name} {c : Elf.Code}
    (h : Elf.findCode v sym = some (some c)) :
    ∃ (hd : Elf.Hdr) (no ns : Nat) (symtab strtab : Elf.Tab) (textIdx textTy textOff textSize q : Nat),
      Elf.WF v hd no ns ∧
      (∃ j, Elf.SecIs v hd no j Elf.SHT_SYMTAB symtab.off symtab.size none) ∧
      (∃ j, Elf.SecIs v hd no j Elf.SHT_STRTAB strtab.off strtab.size (some Elf.dotStrtab)) ∧
      textTy ≠ Elf.SHT_NOBITS ∧ Elf.SecIs v hd no textIdx textTy textOff textSize (some Elf.dotText) ∧
      Elf.EntryIs v symtab strtab q sym c.functionOffset c.functionSize textIdx ∧
      c.functionSize ≠ 0 ∧ c.functionOffset + c.functionSize ≤ textSize ∧ c.fileOffset = textOff + c.functionOffset :=
  Elf.findCode_sound h

/-- A name returned by `imports_obj_find_name_from_offset` for offset `fo` is the name of the symbol
(`r_info >> 8`) of an entry of the SHT_REL section called `.rel.text` whose `r_offset` is `fo`; for an unnamed symbol
it is what the "local offset" lookup returns (known finding `section-symbol-call-misbound`). -/
theorem call_name_is_relocation_symbol {v : View} {fo lo : Nat} {g : Name}
    (h : Elf.nameAt v fo lo = some (some g)) :
    ∃ (hd : Elf.Hdr) (no ns : Nat) (symtab strtab reltab : Elf.Tab) (q : Nat),
      Elf.WF v hd no ns ∧
      (∃ j, Elf.SecIs v hd no j Elf.SHT_SYMTAB symtab.off symtab.size none) ∧
      (∃ j, Elf.SecIs v hd no j Elf.SHT_STRTAB strtab.off strtab.size (some Elf.dotStrtab)) ∧
      (∃ j, Elf.SecIs v hd no j Elf.SHT_REL reltab.off reltab.size (some Elf.dotRelText)) ∧
      Elf.RelIs v symtab strtab reltab q fo lo g :=
  Elf.nameAt_sound h

/-! ## 6. termination of the closure computation -/

/-- For all files (any bytes), every configuration and every source, the protocol does not run out of fuel
when given the total size of the files plus the number of the source's tokens plus one: the transitive
closure over call relocations (cycles, diamonds, self calls included) is computed in boundedly many steps. -/
theorem link_terminates (imports : List Import) (cfg : Cfg) (p : Prog) (fuel : Nat)
    (hf : fuelBound imports p.idents ≤ fuel) : linkAll (envOf imports) cfg p fuel ≠ .fuel :=
  linkAll_envOf_ne_fuel imports cfg p fuel hf

/-! ## Non-vacuity: a real ELF32 object through the readers -/

open Examples

def nm (s : List Nat) : Name := s.map UInt8.ofNat
/-- `main: jal f ; nop` at 0x1000, tokens main, jal, f, nop -/
def exProg : Prog :=
  { idents := [nm [109, 97, 105, 110], nm [106, 97, 108], nm [102], nm [110, 111, 112]],
    syms := [(nm [109, 97, 105, 110], 0x1000#32)], end1 := 0x1008#32, end2 := 0x1008#32, refs := [nm [102]] }
def exCfg : Cfg := { linkFn := .mips, bigEndian := false }

/-- exObj defines f (calls g), g, and h (never referenced): f and g are placed once behind the program, f's
jal carries 0x1010 >> 2, h is absent. -/
example : linkAll (envOf [{ isAr := false, data := exObj }]) exCfg exProg 500 = .ok
    { p1list := [nm [102]], list := [nm [102], nm [103]],
      syms := [(nm [109, 97, 105, 110], 0x1000#32), (nm [102], 0x1008#32), (nm [103], 0x1010#32)],
      endAddr := 0x1018#32,
      runs := [(0x1008#32, [4, 4, 0, 12, 8, 0, 224, 3]), (0x1010#32, [8, 0, 224, 3, 7, 0, 2, 36])] } := by
  decide +kernel

/-- exUnres: f calls g, which nothing defines: an error of link() in pass 1. -/
example : linkAll (envOf [{ isAr := false, data := exUnres }]) exCfg exProg 500 = .error .link1 := by
  decide +kernel

/-- 64-bit and big-endian containers are refused when the file is added. -/
example : (Import.mk false ex64).verify = some false ∧ (Import.mk false exBE).verify = some false ∧
    (Import.mk false exObj).verify = some true := by decide +kernel

/-! ## Known findings (defects left in the code): counterexamples on concrete objects -/

/-- exJ: `f: j g` carries an R_MIPS_26 relocation against `g` (a tail call).  The linker only looks at `jal`
words: the link succeeds, g is not even placed, and the `j` keeps the object file's field (0), i.e. jumps to
address 0.  (known finding `j-relocation-ignored`) -/
theorem j_relocation_ignored_counterexample :
    linkAll (envOf [{ isAr := false, data := exJ }]) exCfg exProg 500 = .ok
      { p1list := [nm [102]], list := [nm [102]],
        syms := [(nm [109, 97, 105, 110], 0x1000#32), (nm [102], 0x1008#32)],
        endAddr := 0x1010#32,
        runs := [(0x1008#32, [0, 0, 0, 8, 0, 0, 0, 0])] } := by
  decide +kernel

/-- exSec: `f: jal .text+8` calls the static function `s` through a relocation against the (unnamed) section
symbol.  The reader resolves the unnamed symbol "by local offset" `opcode & 0x03000000 = 0` to the first
global symbol at offset 0, which is `f` itself: the call is bound to `f` (0x1008), not to `s`.
(known finding `section-symbol-call-misbound`) -/
theorem section_symbol_call_counterexample :
    Elf.nameAt (View.ofBytes exSec) 0 0 = some (some (nm [102])) ∧
    linkAll (envOf [{ isAr := false, data := exSec }]) exCfg exProg 500 = .ok
      { p1list := [nm [102]], list := [nm [102]],
        syms := [(nm [109, 97, 105, 110], 0x1000#32), (nm [102], 0x1008#32)],
        endAddr := 0x1010#32,
        runs := [(0x1008#32, [2, 4, 0, 12, 0, 0, 0, 0])] } := by
  decide +kernel

end NakenVerif.Link.C20
