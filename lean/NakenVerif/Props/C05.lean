/-
C05 — data/location directives place exactly the specified bytes at the right address.

Part 1 (shared with C03 and C19): the paged `Memory` refines a partial map.
Part 2: the directive model against the documented denotation.
Only property theorems and their non-vacuity examples live here; lemmas are in `Memory/Proofs.lean`,
`Core/DirectivesProofs.lean`.
-/
import NakenVerif.Memory.Proofs
import NakenVerif.Core.DirectivesDenotation

namespace NakenVerif.Memory
open Spec

/-! ## Part 1: Memory -/

/-- the real operation behind each abstract one -/
def applyOp (m : Memory) : Op → Memory
  | .w8 a d => write8 m a d
  | .wd a d l => write m a d l
  | .wg a l => writeDebug m a l

/-- a sequence of operations on a freshly constructed `Memory` -/
def runOps (ops : List Op) : Memory := ops.foldl applyOp Memory.init

/-- the refinement relation between a paged memory and an abstract image -/
structure Refines (m : Memory) (s : Image) : Prop where
  cells : ∀ a, abs m a = s.cells a
  lines : ∀ a, absDebug m a = s.lines a
  low : m.lowAddress = s.low
  high : m.highAddress = s.high

theorem refines_init : Refines Memory.init Image.empty :=
  ⟨fun _ => rfl, fun _ => rfl, rfl, rfl⟩

theorem refines_step (m : Memory) (s : Image) (h : Refines m s) (op : Op) : Refines (applyOp m op) (s.apply op) := by
  cases op with
  | w8 a d =>
    refine ⟨fun x => ?_, fun x => ?_, ?_, ?_⟩
    · simp only [applyOp, Image.apply, Image.store, abs_write8, h.cells]
    · simp only [applyOp, Image.apply, Image.store, absDebug_write8, h.lines]
    · simp only [applyOp, Image.apply, Image.store, write8_low, h.low, umin, GT.gt]
    · simp only [applyOp, Image.apply, Image.store, write8_high, h.high, umax]
  | wd a d l =>
    refine ⟨fun x => ?_, fun x => ?_, ?_, ?_⟩
    · simp only [applyOp, Image.apply, Image.store, Image.mark, abs_write, h.cells]
    · simp only [applyOp, Image.apply, Image.store, Image.mark, absDebug_write, h.lines]
    · simp only [applyOp, Image.apply, Image.store, Image.mark, write_low, h.low, umin, GT.gt]
    · simp only [applyOp, Image.apply, Image.store, Image.mark, write_high, h.high, umax]
  | wg a l =>
    refine ⟨fun x => ?_, fun x => ?_, ?_, ?_⟩
    · simp only [applyOp, Image.apply, Image.mark, abs_writeDebug, h.cells]
    · simp only [applyOp, Image.apply, Image.mark, absDebug_writeDebug, h.lines]
    · simp only [applyOp, Image.apply, Image.mark, writeDebug_low, h.low]
    · simp only [applyOp, Image.apply, Image.mark, writeDebug_high, h.high]

theorem refines_foldl (ops : List Op) (m : Memory) (s : Image) (h : Refines m s) :
    Refines (ops.foldl applyOp m) (ops.foldl Image.apply s) := by
  induction ops generalizing m s with
  | nil => exact h
  | cons op ops ih => exact ih _ _ (refines_step m s h op)

/-- **memory_refines_map.**  After ANY sequence of `write8` / `write` / `write_debug` operations on a fresh `Memory`
(any addresses, any order, any number of pages) the paged structure is the abstract image: the cell map, the marker
map, `read8` = stored byte or 0, `read_debug` = stored marker or -1, `low_address`/`high_address` = the image bounds. -/
theorem memory_refines_map (ops : List Op) :
    let m := runOps ops
    let s := Spec.run ops
    (∀ a, abs m a = s.cells a) ∧ (∀ a, read8 m a = (s.cells a).getD 0) ∧
    (∀ a, absDebug m a = s.lines a) ∧ (∀ a, readDebug m a = (s.lines a).getD (-1)) ∧
    m.lowAddress = s.low ∧ m.highAddress = s.high := by
  have h := refines_foldl ops Memory.init Image.empty refines_init
  refine ⟨h.cells, fun a => ?_, h.lines, fun a => ?_, h.low, h.high⟩
  · rw [read8_abs]; exact congrArg (·.getD 0) (h.cells a)
  · rw [readDebug_absDebug]; exact congrArg (·.getD (-1)) (h.lines a)

example : read8 (runOps [.w8 0xffff0000#32 7#8, .wd 0xffffffff#32 9#8 (-2), .w8 0xffff0000#32 8#8]) 0xffff0000#32 = 8#8 := by
  rw [(memory_refines_map _).2.1]; decide

/-- the abstract image is what its name says: a cell holds the byte of the last store to it … -/
theorem spec_cells_lastStore (ops : List Op) (a : BitVec 32) : (Spec.run ops).cells a = lastStore a ops := by
  suffices h : ∀ (s : Image), (ops.foldl Image.apply s).cells a =
      match lastStore a ops with | some d => some d | none => s.cells a by
    have := h Image.empty
    rw [Spec.run, this]; cases lastStore a ops <;> rfl
  induction ops with
  | nil => intro s; rfl
  | cons op ops ih =>
    intro s
    rw [List.foldl_cons, ih]
    cases hl : lastStore a ops with
    | some d => simp only [lastStore, hl]
    | none =>
      cases op with
      | w8 a' d =>
        by_cases e : a = a'
        · subst e; simp [lastStore, hl, Image.apply, Image.store]
        · simp [lastStore, hl, Image.apply, Image.store, e]
      | wd a' d l =>
        by_cases e : a = a'
        · subst e; simp [lastStore, hl, Image.apply, Image.store, Image.mark]
        · simp [lastStore, hl, Image.apply, Image.store, Image.mark, e]
      | wg a' l => simp [lastStore, hl, Image.apply, Image.mark]

/-- … `low` is a lower bound of the addresses that received a byte and `high` an upper bound … -/
theorem spec_low_high_bounds (ops : List Op) :
    ∀ a ∈ written ops, (Spec.run ops).low ≤ a ∧ a ≤ (Spec.run ops).high := by
  suffices h : ∀ (s : Image) (a : BitVec 32), (a ∈ written ops ∨ (s.low ≤ a ∧ a ≤ s.high)) →
      (ops.foldl Image.apply s).low ≤ a ∧ a ≤ (ops.foldl Image.apply s).high from
    fun a ha => h Image.empty a (Or.inl ha)
  induction ops with
  | nil =>
    intro s a h
    rcases h with h | h
    · cases h
    · exact h
  | cons op ops ih =>
    intro s a h
    rw [List.foldl_cons]
    apply ih
    cases op with
    | w8 a' d =>
      simp only [written, List.mem_cons] at h
      simp only [Image.apply, Image.store, umin, umax]
      rcases h with (h | h) | h
      · subst h; right; constructor <;> split <;> bv_omega
      · left; exact h
      · right; obtain ⟨h1, h2⟩ := h; constructor <;> split <;> bv_omega
    | wd a' d l =>
      simp only [written, List.mem_cons] at h
      simp only [Image.apply, Image.store, Image.mark, umin, umax]
      rcases h with (h | h) | h
      · subst h; right; constructor <;> split <;> bv_omega
      · left; exact h
      · right; obtain ⟨h1, h2⟩ := h; constructor <;> split <;> bv_omega
    | wg a' l =>
      simp only [written] at h
      simp only [Image.apply, Image.mark]
      exact h

theorem spec_low_high_in_or_same (ops : List Op) (s : Image) :
    ((ops.foldl Image.apply s).low ∈ written ops ∨ (ops.foldl Image.apply s).low = s.low) ∧
    ((ops.foldl Image.apply s).high ∈ written ops ∨ (ops.foldl Image.apply s).high = s.high) := by
  induction ops generalizing s with
  | nil => exact ⟨Or.inr rfl, Or.inr rfl⟩
  | cons op ops ih =>
    rw [List.foldl_cons]
    obtain ⟨h1, h2⟩ := ih (s.apply op)
    cases op with
    | w8 a' d =>
      simp only [written, List.mem_cons]
      constructor
      · rcases h1 with h | h
        · exact Or.inl (Or.inr h)
        · rw [h]; simp only [Image.apply, Image.store, umin]; split
          · exact Or.inl (Or.inl rfl)
          · exact Or.inr rfl
      · rcases h2 with h | h
        · exact Or.inl (Or.inr h)
        · rw [h]; simp only [Image.apply, Image.store, umax]; split
          · exact Or.inl (Or.inl rfl)
          · exact Or.inr rfl
    | wd a' d l =>
      simp only [written, List.mem_cons]
      constructor
      · rcases h1 with h | h
        · exact Or.inl (Or.inr h)
        · rw [h]; simp only [Image.apply, Image.store, Image.mark, umin]; split
          · exact Or.inl (Or.inl rfl)
          · exact Or.inr rfl
      · rcases h2 with h | h
        · exact Or.inl (Or.inr h)
        · rw [h]; simp only [Image.apply, Image.store, Image.mark, umax]; split
          · exact Or.inl (Or.inl rfl)
          · exact Or.inr rfl
    | wg a' l =>
      simp only [written]
      exact ⟨h1, h2⟩

/-- … and both are attained (so they are the minimum and the maximum) as soon as one byte was stored -/
theorem spec_low_high_attained (ops : List Op) (h : written ops ≠ []) :
    (Spec.run ops).low ∈ written ops ∧ (Spec.run ops).high ∈ written ops := by
  obtain ⟨a, ha⟩ := List.exists_mem_of_ne_nil _ h
  obtain ⟨hb1, hb2⟩ := spec_low_high_bounds ops a ha
  obtain ⟨h1, h2⟩ := spec_low_high_in_or_same ops Image.empty
  constructor
  · rcases h1 with h1 | h1
    · exact h1
    · have e : (Spec.run ops).low = 0xffffffff#32 := h1
      have : a = (Spec.run ops).low := by rw [e] at hb1 ⊢; bv_omega
      rw [← this]; exact ha
  · rcases h2 with h2 | h2
    · exact h2
    · have e : (Spec.run ops).high = 0#32 := h2
      have : a = (Spec.run ops).high := by rw [e] at hb2 ⊢; bv_omega
      rw [← this]; exact ha

/-- `Memory::write` / `write8` / `write_debug` need no fuel: the page loop stops for ANY 32-bit address and any page
list, including addresses in the last page `0xffff0000` (the page made for the address passes the 64-bit page test) -/
theorem write_needs_no_fuel (a : BitVec 32) (f : Page → Page) (ps : List Page) :
    ∃ ps', modifyPage a f ps = some ps' ∧ ps'.length ≤ ps.length + 1 := by
  obtain ⟨ps', h⟩ := modifyPage_isSome a f ps
  exact ⟨ps', h, modifyPage_length a f ps ps' h⟩

example : ∃ ps', modifyPage 0xffffffff#32 (fun p => p.setData 0xffffffff#32 1#8) [] = some ps' :=
  (write_needs_no_fuel _ _ _).imp fun _ h => h.1

/-- every offset used to index `bin[]` / `debug_line[]` is below `PAGE_SIZE` -/
theorem page_offset_in_bounds (p : Page) (a : BitVec 32) (h : p.contains a = true) :
    (a - p.address).toNat < Generated.pageSize := by
  have := offset_in_page p a h
  rw [pageSize32_val] at this
  show (a - p.address).toNat < 65536
  exact this

/-- write then read at the same address returns the byte; every other address is unchanged (frame) — for ANY memory,
any page list -/
theorem write_then_read (m : Memory) (a x : BitVec 32) (d : BitVec 8) (line : BitVec 32) :
    read8 (write m a d line) x = (if x = a then d else read8 m x) ∧
    read8 (write8 m a d) x = (if x = a then d else read8 m x) ∧
    readDebug (write m a d line) x = (if x = a then line else readDebug m x) ∧
    read8 (writeDebug m a line) x = read8 m x :=
  ⟨read8_write m a d line x, read8_write8 m a d x, readDebug_write m a d line x, read8_writeDebug m a line x⟩

example : read8 (write Memory.init 0xffff0000#32 0xab#8 (-2)) 0xffff0000#32 = 0xab#8 := by
  rw [(write_then_read _ _ _ _ _).1]; rfl

/-- 16- and 32-bit round trips in both byte orders, including the wrap-around of `address + 1` at 2^32 -/
theorem read_write_roundtrip (m : Memory) (a : BitVec 32) (v16 : BitVec 16) (v32 : BitVec 32) :
    read16 (write16 m a v16) a = v16 ∧ read32 (write32 m a v32) a = v32 :=
  ⟨read16_write16 m a v16, read32_write32 m a v32⟩

example : read16 (write16 { Memory.init with bigEndian := true } 0xffffffff#32 0x1234#16) 0xffffffff#32 = 0x1234#16 :=
  (read_write_roundtrip _ _ _ 0).1

/-- what `write16` stores where, per byte order (so a swapped byte order is not a round trip artefact) -/
theorem write16_layout (m : Memory) (a : BitVec 32) (v : BitVec 16) :
    read8 (write16 m a v) a = (if m.bigEndian then (v >>> 8).setWidth 8 else v.setWidth 8) :=
  read8_write16_lo m a v

end NakenVerif.Memory

/-! ## Part 2: directives -/

namespace NakenVerif.Core.Directives
open NakenVerif.Memory

/-- **bytes are placed exactly.**  Whatever byte list a directive hands to `memory_write_inc`, the image afterwards is the
image before with exactly those bytes at the counter's addresses in order, nothing else changed, and the counter
behind them (as long as they end inside the address space). -/
theorem bytes_placed_exactly (st : St) (s : Spec.State) (bs : List Byte) (h : Rel st s)
    (hfit : s.loc + bs.length ≤ 4294967296) : Rel (writeBytes st bs) (Spec.emit s bs) :=
  writeBytes_refines bs st s h hfit

/-- **directive_denotation.**  One pass over ANY directive list (`.org`, `.db`/`.dc8`/`.ascii`/`.asciiz` with numbers and
strings, `.dw`, `.dl`, `.dq`, `.resb`/`.resw`, `.align`/`.align_bytes`, `.data_fill`, `.binfile`, endian switches, labels,
`$` and label operands): if the documents give the program a meaning `s'` (`Spec.place … = .ok s'`: every intermediate
counter ≤ 2^32, all values in their documented ranges), the model's pass succeeds and its final state is `s'`:
same counter (mod 2^32), image = `s'.cells` — which `Spec.emit` builds from the image before by storing exactly the
directives' bytes at the counter (see `emit_frame`: nothing else is written) —, same byte order, same symbols.
Hypothesis that states what is NOT covered:
* `CleanDirective`: every string is read to its documented meaning (holds for all strings without a backslash,
  `cleanString_of_plain`; fails exactly for the finding `string-backslash-zero`; escapes are otherwise tied by the
  correspondence stream only).
`st.pass = 1` is the reading that defines labels (backward references only), `st.pass = 2` the reading with all labels
known; that pass 2 sees the labels of pass 1 at the same addresses, and overwrites the image of pass 1 cell by cell, is
the two-pass composition of C02 (not in this copy). -/
theorem directive_denotation {bpa : Nat} (ds : List Directive) (st : St) (s s' : Spec.State)
    (hclean : ∀ d ∈ ds, CleanDirective d) (hrel : RelFull bpa st s)
    (hspec : Spec.place bpa (decide (st.pass = 1)) s ds = .ok s') :
    ∃ st', runPass st ds = .ok st' ∧
      (∀ a : BitVec 32, Memory.abs st'.memory a = s'.cells a.toNat) ∧
      st'.address.toNat = s'.loc % 4294967296 ∧ st'.memory.bigEndian = s'.big ∧
      (∀ n, lookup st'.symbols n = (Spec.find s'.syms n).map (BitVec.ofNat 32)) := by
  obtain ⟨st', e, r, _⟩ := place_ok ds st s s' hclean hrel hspec
  exact ⟨st', e, r.cells, r.addr, r.big, r.syms⟩

/-- the empty image and the start of a pass are related -/
theorem relFull_init (cfg : Cfg) (bpa : Nat) (hb : cfg.bpa.toNat = bpa) (hp : 0 < bpa) :
    RelFull bpa (St.init cfg) { loc := 0, big := cfg.bigEndian, cells := fun _ => none, syms := [] } :=
  { addr := rfl, cells := fun _ => rfl, big := rfl, bpaEq := hb, bpaPos := hp, syms := fun _ => rfl,
    good := fun _ h => (by cases h), pass := Or.inl rfl }

example : ∃ st', runPass (St.init ⟨false, 1⟩) [.binfile [1, 2], .resb (.lit 3), .label "a"] = .ok st' ∧
    st'.address.toNat = 5 ∧ lookup st'.symbols "a" = some 5#32 := by
  obtain ⟨st', e, _, ha, _, hsy⟩ := directive_denotation (bpa := 1) [.binfile [1, 2], .resb (.lit 3), .label "a"]
    (St.init ⟨false, 1⟩) _
    { loc := 5, big := false
      cells := (Spec.emit { loc := 0, big := false, cells := fun _ => none, syms := [] } [1, 2]).cells
      syms := [("a", 5)] }
    (by intro d hd; simp at hd; rcases hd with rfl | rfl | rfl <;> trivial)
    (relFull_init ⟨false, 1⟩ 1 rfl (by decide))
    rfl
  exact ⟨st', e, ha, by rw [hsy "a"]; rfl⟩

/-- **frame.**  The documented image changes only where bytes are placed: `Spec.emit` leaves every cell outside
`[loc, loc + length)` as it was, and no other part of `Spec.step` touches `cells`. -/
theorem placement_frame (s : Spec.State) (bs : List Byte) (x : Nat) (h : x < s.loc ∨ s.loc + bs.length ≤ x) :
    (Spec.emit s bs).cells x = s.cells x := emit_frame s bs x h

/-- **db_range.**  In either pass a `.db` value (any 64-bit value) is accepted exactly when it is in -128..255, and then the
byte `value mod 256` is stored at the counter. -/
theorem db_range (st : St) (v : BitVec 64) :
    dbNum st (.lit v) =
      if -128 ≤ v.toInt ∧ v.toInt ≤ 255 then .ok (writeInc st (BitVec.ofInt 8 v.toInt)) else .error .error := by
  simp only [dbNum, evalData, evalOperand, ofInt8_toInt]
  by_cases h : -128 ≤ v.toInt ∧ v.toInt ≤ 255
  · rw [if_neg (by omega), if_pos h]
  · rw [if_pos (by omega), if_neg h]

example : dbNum { St.init ⟨false, 1⟩ with pass := 2 } (.lit 0xffffffff#64) = .error .error := by
  rw [db_range, if_neg (by decide)]

/-- **dw_range.**  `.dw`: accepted exactly in -32768..65535, two bytes of `value mod 65536` in the selected byte order. -/
theorem dw_range (st : St) (v : BitVec 64) :
    dc16Item st (.lit v) =
      if -32768 ≤ v.toInt ∧ v.toInt ≤ 65535 then .ok (writeBytes st (Spec.word st.memory.bigEndian 2 v.toInt))
      else .error .error := by
  simp only [dc16Item, evalData, evalOperand, bytes16_word]
  by_cases h : -32768 ≤ v.toInt ∧ v.toInt ≤ 65535
  · rw [if_neg (by omega), if_pos h]
  · rw [if_pos (by omega), if_neg h]

example : dc16Item { St.init ⟨true, 1⟩ with pass := 2 } (.lit 65536) = .error .error := by
  rw [dw_range, if_neg (by decide)]

/-- 64-bit values outside -2^31 .. 2^32-1 are rejected by every directive that takes an `int`
(`.org`, `.resb`, `.align`, `.data_fill`; since 6e974ee) -/
theorem wide_values_rejected (st : St) (v : BitVec 64) (h : v.toInt < -2147483648 ∨ v.toInt > 4294967295) :
    evalInt st (.lit v) = none := by
  simp only [evalInt, evalOperand]
  rw [if_pos h]

/-- **dl_wraps.**  `.dl`/`.dc32`/`.dd` never reject a value: the four bytes of `value mod 2^32` in the selected byte
order (the documented `word`) go to the counter. -/
theorem dl_wraps (st : St) (v : BitVec 64) :
    dc32Item st (.lit v) = .ok (writeBytes st (Spec.word st.memory.bigEndian 4 v.toInt)) := by
  simp only [dc32Item, evalOperand, bytes32_word]

/-- **dq_wraps.**  `.dq`/`.dc64`: the eight bytes of the 64-bit value in the selected byte order. -/
theorem dq_wraps (st : St) (v : BitVec 64) :
    dc64Item st (.lit v) = .ok (writeBytes st (Spec.word st.memory.bigEndian 8 v.toInt)) := by
  simp only [dc64Item, evalOperand, bytes64_word]

example : Spec.word true 4 (-2) = [0xff#8, 0xff#8, 0xff#8, 0xfe#8] := by decide

/-- **dollar_is_next_address.**  For EVERY counter (all 2^32 byte addresses) and every bytes-per-address, `$` is the
counter divided by the bytes per address, as a non-negative number. -/
theorem dollar_is_next_address (st : St) :
    (dollar st).toInt = (st.address.toNat / st.bpa.toNat : Nat) := by
  unfold dollar
  have hq : (st.address / st.bpa).toNat = st.address.toNat / st.bpa.toNat := BitVec.toNat_udiv
  have hlt := (st.address / st.bpa).isLt
  rw [BitVec.toInt_eq_toNat_cond]
  simp only [BitVec.toNat_setWidth]
  rw [← hq, Nat.mod_eq_of_lt (by omega), if_pos (by omega)]

example : dollar { St.init ⟨false, 2⟩ with address := 0x80000000#32 } = 0x40000000#64 := by decide

/-- **label_is_next_address.**  A label defined in pass 1 gets the counter divided by the bytes per address, for EVERY
counter; nothing is stored and the counter does not move. -/
theorem label_is_next_address (st st' : St) (name : String) (hp : st.pass = 1) (hd : defineLabel st name = .ok st') :
    ∃ a, lookup st'.symbols name = some a ∧ a.toNat = st.address.toNat / st.bpa.toNat ∧ st'.memory = st.memory ∧
      st'.address = st.address := by
  unfold defineLabel at hd
  rw [if_neg (by omega)] at hd
  split at hd
  · simp at hd
  · rename_i hnew
    simp only [Except.ok.injEq] at hd
    subst hd
    refine ⟨st.address / st.bpa, ?_, BitVec.toNat_udiv, rfl, rfl⟩
    have hn : lookup st.symbols name = none := by
      cases hl : lookup st.symbols name with
      | none => rfl
      | some x => simp [hl] at hnew
    rw [lookup_append, hn]
    simp

example : ∃ st', defineLabel { St.init ⟨false, 2⟩ with address := 0x80000000#32 } "a" = .ok st' ∧
    lookup st'.symbols "a" = some 0x40000000#32 := ⟨_, rfl, by decide⟩

/-- **label_reference.**  A reference to a label evaluates to the label's value as a non-negative number, for EVERY
32-bit value (21f30ba: labels are printed `%u`). -/
theorem label_reference (st : St) (name : String) (a : BitVec 32) (h : lookup st.symbols name = some a) :
    ∃ v, evalOperand st (.sym name) = some v ∧ v.toInt = a.toNat := by
  refine ⟨a.zeroExtend 64, by simp [evalOperand, h], ?_⟩
  have := a.isLt
  rw [BitVec.toInt_eq_toNat_cond]
  simp only [BitVec.toNat_setWidth]
  rw [Nat.mod_eq_of_lt (by omega), if_pos (by omega)]

example : evalOperand { St.init ⟨false, 1⟩ with symbols := [("a", 0x80000000#32)] } (.sym "a") =
    some 0x80000000#64 := by decide

/-- the loop of `.align` ends for every start address and every argument -/
theorem align_terminates (st : St) (num : BitVec 32) : parseAlign st num ≠ .error .hang := by
  unfold parseAlign
  obtain ⟨r, h⟩ := alignLoop_terminates st.address (num - 1)
  split
  · simp
  · split
    · simp
    · rw [h]; simp

/-- **align_result_aligned.**  For EVERY accepted argument: it is a power of two in 1..1024, the new counter is the
next multiple of it at or after the old counter (mod 2^32), nothing is stored, no symbol changes. -/
theorem align_result_aligned (st st' : St) (num : BitVec 32) (h : parseAlign st num = .ok st') :
    num.toNat ∈ [1, 2, 4, 8, 16, 32, 64, 128, 256, 512, 1024] ∧
    st'.address.toNat = ((st.address.toNat + num.toNat - 1) / num.toNat * num.toNat) % 4294967296 ∧
    st'.address.toNat % num.toNat = 0 ∧ st'.memory = st.memory ∧ st'.symbols = st.symbols := by
  unfold parseAlign at h
  split at h
  · simp at h
  · rename_i h1
    split at h
    · simp at h
    · rename_i h2
      have hp : num &&& (num - 1) = 0 := by
        by_cases c : num &&& (num - 1) = 0
        · exact c
        · exact absurd (Or.inr c) h2
      have hlo : 1 ≤ num.toInt := by
        by_cases c : num.toInt < 1
        · exact absurd (Or.inl c) h2
        · omega
      have hz : num ≠ 0 := by intro c; subst c; simp at hlo
      have hmem : num.toNat ∈ [1, 2, 4, 8, 16, 32, 64, 128, 256, 512, 1024] := by
        have hn : num.toNat ≤ 1024 := by
          rw [BitVec.toInt_eq_toNat_cond] at h1 hlo
          have := num.isLt
          split at h1 <;> omega
        apply isPow2_cases _ hn
        have : (num &&& (num - 1)).toNat = 0 := by rw [hp]; rfl
        rw [BitVec.toNat_and, BitVec.toNat_sub] at this
        have h1' : (1 : BitVec 32).toNat = 1 := rfl
        have hpos : 0 < num.toNat := by
          rcases Nat.eq_zero_or_pos num.toNat with c | c
          · exact absurd (BitVec.eq_of_toNat_eq (by simpa using c)) hz
          · exact c
        have hsub : (4294967296 - 1 + num.toNat) % 4294967296 = num.toNat - 1 := by have := num.isLt; omega
        rw [h1'] at this
        simp only [Nat.reducePow] at this
        rw [hsub] at this
        simp [Spec.isPow2, this]; omega
      split at h
      · rename_i r hr
        simp only [Except.ok.injEq] at h
        subst h
        have hc := alignLoop_closed _ hp hz _ _ _ hr
        have hnum : num = BitVec.ofNat 32 num.toNat := by simp
        have hnat := closed_toNat st.address num.toNat hmem
        rw [← hnum] at hnat
        refine ⟨hmem, ?_, ?_, rfl, rfl⟩
        · show r.toNat = _
          rw [hc, hnat]
        · show r.toNat % num.toNat = 0
          rw [hc, hnat]
          simp only [List.mem_cons, List.mem_nil_iff, or_false] at hmem
          rcases hmem with e|e|e|e|e|e|e|e|e|e|e <;> rw [e] <;> omega
      · simp at h

example : ∃ st', parseAlign { St.init ⟨false, 1⟩ with address := 5#32 } 4#32 = .ok st' ∧ st'.address = 8#32 := by
  refine ⟨{ St.init ⟨false, 1⟩ with address := 8#32 }, ?_, rfl⟩
  simp [parseAlign, alignFuel, alignLoop]

/-- **align_rejects_non_power_of_two.**  0, negative arguments, arguments above 1024 and everything that is not a power
of two are errors (nothing is aligned "approximately"). -/
theorem align_rejects_non_power_of_two (st : St) (num : BitVec 32)
    (h : num.toInt < 1 ∨ num.toInt > 1024 ∨ num &&& (num - 1) ≠ 0) : parseAlign st num = .error .error := by
  unfold parseAlign
  by_cases h1 : num.toInt > 1024
  · rw [if_pos h1]
  · rw [if_neg h1]
    rcases h with c | c | c
    · rw [if_pos (Or.inl c)]
    · exact absurd c h1
    · rw [if_pos (Or.inr c)]

example : parseAlign (St.init ⟨false, 1⟩) 3#32 = .error .error :=
  align_rejects_non_power_of_two _ _ (Or.inr (Or.inr (by decide)))

/-- `.resb n` / `.resw n` advance the counter by `n` / `2 n` bytes (not scaled by bytes-per-address, as documented:
"reserve {count} bytes") and store nothing -/
theorem resb_advances_without_writing (st st' : St) (o : Operand) :
    (step st (.resb o) = .ok st' → ∃ n, evalInt st o = some n ∧ st'.address = st.address + n ∧
      st'.memory = st.memory) ∧
    (step st (.resw o) = .ok st' → ∃ n, evalInt st o = some n ∧ st'.address = st.address + n * 2 ∧
      st'.memory = st.memory) := by
  constructor
  · intro h
    simp only [step] at h
    split at h
    · simp at h
    · rename_i n hn
      simp only [Except.ok.injEq] at h
      subst h
      exact ⟨n, hn, by simp, rfl⟩
  · intro h
    simp only [step] at h
    split at h
    · simp at h
    · rename_i n hn
      simp only [Except.ok.injEq] at h
      subst h
      exact ⟨n, hn, rfl, rfl⟩

example : ∃ st', step (St.init ⟨false, 2⟩) (.resw (.lit 3)) = .ok st' ∧ st'.address = 6 := ⟨_, rfl, rfl⟩

/-- the string "\\\\0" (escaped backslash, then the digit 0) is emitted as one NUL byte instead of the two characters
(finding string-backslash-zero) -/
theorem string_counterexample :
    dbString ((lexQuoted [0x5c, 0x5c, 0x30]).getD []) = [0x00#8] ∧
    Spec.unescape [0x5c, 0x5c, 0x30] = some [0x5c#8, 0x30#8] := by
  constructor
  · simp [lexQuoted, dbString, escapeOf]
  · simp [Spec.unescape]

/-- the string "$" is a string (e8a3255) -/
theorem string_dollar (z : Bool) (st : St) : dbItem z st (.str [0x24]) =
    .ok (if z then writeInc (writeBytes st [0x24]) 0 else writeBytes st [0x24]) := by
  simp [dbItem, lexQuoted, dbString, Generated.tokenLen]

end NakenVerif.Core.Directives
