import NakenVerif.Props.C03
import NakenVerif.FileIO.ProofsUf2Read
import NakenVerif.FileIO.ProofsTiTxt
import NakenVerif.FileIO.ProofsAmiga
/-
C03 — the loaders `read_uf2` and `read_ti_txt` of naken_util.
-/
namespace NakenVerif.C03
open NakenVerif.FileIO

/-- **read_uf2 refines the UF2 description.**  Whatever file the format description accepts (every block's three magic
numbers, payload size ≤ 476, blockNo < numBlocks; "not main flash" blocks skipped), `read_uf2` returns 0 and stores
exactly the described bytes at the described addresses, in file order — for every file, not only naken_asm's. -/
theorem uf2_read_refines_spec (file : List Byte) (cells : List (Nat × Byte)) (h : Uf2Spec.decode file = some cells) :
    Uf2ReadImpl.read file = { ret := 0, writes := cells } :=
  Uf2ReadProofs.read_of_decode file cells h

/-- **UF2 loader round trip.**  `read_uf2` applied to the file `write_uf2` wrote stores the bytes of `[low, high]` (gaps as
zero) at their addresses — and, the two known findings, the 256 bytes 0xEF of the extra block at 0x10ffff00 and the zero
padding of the last 256-byte payload. -/
theorem uf2_read_write (img : Image) (h : img.WF) :
    Uf2ReadImpl.read (Uf2Impl.write img) =
      { ret := 0,
        writes := cellsAt 0x10ffff00 (List.replicate 256 0xef) ++
                  Uf2Spec.cellsMod img.low 0 (Uf2Spec.uf2Padded (img.cells.map (fun c => c.getD 0))) } :=
  uf2_read_refines_spec _ _ (uf2_roundtrip img h)

/-- **read_ti_txt loads a TI-TXT file exactly** (TI-TXT has no writer in naken_asm; the file is produced by the encoder
written from the format description).  Sections with addresses of `w` hexadecimal digits, any data. -/
theorem ti_txt_read_encode (w : Nat) (hw : 0 < w) (runs : List (Nat × List Byte))
    (h : ∀ r ∈ runs, r.1 < 16 ^ w ∧ r.1 + r.2.length < 4294967296) :
    TiTxtImpl.read (TiTxtSpec.encode w runs) =
      { ret := 0, writes := TiTxtProofs.cellsOf runs, low := TiTxtProofs.loOf 0xffffffff runs,
        high := TiTxtProofs.hiOf 0 runs } :=
  TiTxtProofs.read_encode w hw runs h

/-- `low_address` / `high_address` after a section of `n > 0` bytes at `a`: the minimum with `a`, the maximum with the
last address -/
theorem ti_txt_low_high (st sp a n : Nat) (hn : 0 < n) :
    TiTxtProofs.updLo st a n = min st a ∧ TiTxtProofs.updHi sp a n = max sp (a + n - 1) := by
  induction n generalizing st sp a with
  | zero => omega
  | succ n ih =>
    cases n with
    | zero => simp only [TiTxtProofs.updLo, TiTxtProofs.updHi]; constructor <;> split <;> omega
    | succ m =>
      obtain ⟨i1, i2⟩ := ih (if a < st then a else st) (if a > sp then a else sp) (a + 1) (by omega)
      rw [TiTxtProofs.updLo, TiTxtProofs.updHi, i1, i2]
      constructor <;> split <;> omega

/-- **Amiga hunk.**  Decoding the written load file per the AmigaDOS hunk format (header table, hunk_code with its
size in longwords ≤ the table entry, hunk_end, nothing after it): one hunk whose content is exactly the bytes of
`[low, high]` (hunk files are relocatable: the address is not carried) followed by 0..3 zero bytes up to a whole longword.
(`+ 3`: `(length + 3) / 4` is computed in `uint32_t`.) -/
theorem amiga_roundtrip (img : Image) (h : img.WF) (hne : img.cells ≠ []) (h3 : img.cells.length + 3 < 4294967296) :
    AmigaSpec.decode (AmigaImpl.write img) =
      some [img.cells.map (fun c => c.getD 0) ++ List.replicate ((4 - img.cells.length % 4) % 4) 0] :=
  AmigaProofs.decode_write img h hne h3

/-! ### non-vacuity -/

example : TiTxtSpec.encode 4 [(0xf800, [0x31, 0x40]), (0xfffe, [0x00, 0xf8])] = "@F800\n31 40 \n@FFFE\n00 F8 \nq\n".toList := by
  decide
example : TiTxtImpl.read "@F800\n31 40 \n@FFFE\n00 F8 \nq\n".toList =
    { ret := 0, writes := [(0xf800, 0x31), (0xf801, 0x40), (0xfffe, 0), (0xffff, 0xf8)], low := 0xf800, high := 0xffff } := by
  decide
example : (Uf2ReadImpl.read (Uf2Impl.write { low := 0x10, cells := [some 1, none, some 3] })).writes.length = 512 := by
  rw [uf2_read_write _ (by decide)]; decide +kernel

example : AmigaSpec.decode (AmigaImpl.write { low := 0x1000, cells := [some 0x4e, some 0x75, none, some 1, some 2] }) =
    some [[0x4e, 0x75, 0, 1, 2, 0, 0, 0]] := by
  rw [amiga_roundtrip _ (by decide) (by decide) (by decide)]; rfl

end NakenVerif.C03
