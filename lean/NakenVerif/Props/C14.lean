/-
  C14 -- the MSP430 simulator executes every instruction as the architecture defines.

  `sim_refines_arch`: one iteration of the loop of `SimulateMsp430::run` (model
  `Sim.step`, tied to the code by the exhaustive `sim` correspondence stream) changes registers
  (PC, SP, SR included) and memory exactly as `SimArch.step` (written from SLAU049/SLAU144 ch. 3)
  for every state in which the guides define the instruction (`SimArch.Defined`).
-/
import NakenVerif.Msp430.SimProofs

namespace NakenVerif.C14
open NakenVerif.Msp430.Sim NakenVerif.Msp430.SimArch NakenVerif.Msp430.SimProofs
set_option linter.unusedSimpArgs false

theorem exec_refines (bio : BitVec 32) (c : Core) (w : BitVec 16)
    (hd : definedW c.regs c.mem w = true) :
    ∃ e, exec bio c w = some e ∧ e.illegal = false ∧
      e.core.regs = (execW c.regs c.mem w).regs ∧ e.core.mem = (execW c.regs c.mem w).mem := by
  unfold exec execW
  unfold definedW at hd
  by_cases hj : w.extractLsb' 13 3 = (1 : BitVec 3)
  · -- jumps
    have h1 : ¬ (w &&& 0xfc00 = 0x1000) := by bv_decide
    have h2 : w &&& 0xe000 = 0x2000 := by bv_decide
    simp only [h1, h2, hj, if_true, if_false]
    exact ⟨_, rfl, rfl, jump_regs c w, rfl⟩
  · by_cases h2 : w.extractLsb' 10 6 = (0b000100 : BitVec 6)
    · -- single operand
      have h1 : w &&& 0xfc00 = 0x1000 := by bv_decide
      simp only [h1, hj, h2, if_true, if_false] at hd ⊢
      unfold oneOperandExe formatII
      unfold definedII at hd
      rw [idx_lo]
      have hcases : w.extractLsb' 7 3 = (0 : BitVec 3) ∨ w.extractLsb' 7 3 = (1 : BitVec 3) ∨
          w.extractLsb' 7 3 = (2 : BitVec 3) ∨ w.extractLsb' 7 3 = (3 : BitVec 3) ∨
          w.extractLsb' 7 3 = (4 : BitVec 3) ∨ w.extractLsb' 7 3 = (5 : BitVec 3) ∨
          w.extractLsb' 7 3 = (6 : BitVec 3) ∨ w.extractLsb' 7 3 = (7 : BitVec 3) := by bv_decide
      rcases hcases with h | h | h | h | h | h | h | h
      · rw [h] at hd ⊢
        simp only [BitVec.reduceEq, reduceIte]
        have := oneOp_rrc bio c _ _ _ hd
        exact ⟨_, rfl, rfl, this.1, this.2⟩
      · rw [h] at hd ⊢
        simp only [BitVec.reduceEq, reduceIte]
        have := oneOp_swpb bio c _ _ _ hd
        exact ⟨_, rfl, rfl, this.1, this.2⟩
      · rw [h] at hd ⊢
        simp only [BitVec.reduceEq, reduceIte]
        have := oneOp_rra bio c _ _ _ hd
        exact ⟨_, rfl, rfl, this.1, this.2⟩
      · rw [h] at hd ⊢
        simp only [BitVec.reduceEq, reduceIte]
        have := oneOp_sxt bio c _ _ _ hd
        exact ⟨_, rfl, rfl, this.1, this.2⟩
      · rw [h] at hd ⊢
        unfold definedIIx at hd
        simp only [BitVec.reduceEq, reduceIte] at hd ⊢
        simp only [Bool.decide_and, Bool.and_eq_true, decide_eq_true_eq, SP] at hd
        have := oneOp_push bio c (w.extractLsb' 0 4) (w.extractLsb' 4 2) (decide (w.extractLsb' 6 1 = 1)) hd.2.1
        exact ⟨_, rfl, rfl, this.1, this.2⟩
      · rw [h] at hd ⊢
        unfold definedIIx at hd
        simp only [BitVec.reduceEq, reduceIte] at hd ⊢
        simp only [Bool.decide_and, Bool.and_eq_true, decide_eq_true_eq, Bool.not_eq_true', decide_eq_false_iff_not,
          SP] at hd
        have hbw : decide (w.extractLsb' 6 1 = 1) = false := by simpa using hd.1
        rw [hbw]
        have := oneOp_call bio c (w.extractLsb' 0 4) (w.extractLsb' 4 2) hd.2.1
        exact ⟨_, rfl, rfl, this.1, this.2⟩
      · rw [h]
        simp only [BitVec.reduceEq, reduceIte]
        have := reti_refines c (decide (w.extractLsb' 6 1 = 1)) (w.extractLsb' 4 2) (w.extractLsb' 0 4)
        exact ⟨_, rfl, rfl, this.1, this.2⟩
      · rw [h] at hd
        unfold definedIIx at hd
        simp only [BitVec.reduceEq, reduceIte] at hd
        exact absurd hd (by simp)
    · -- double operand
      have h1 : ¬ (w &&& 0xfc00 = 0x1000) := by bv_decide
      have h3 : ¬ (w &&& 0xe000 = 0x2000) := by bv_decide
      simp only [h1, h3, hj, h2, if_true, if_false] at hd ⊢
      unfold twoOperandExe formatI
      unfold definedI at hd
      rw [idx_hi, idx_lo]
      have := twoOp_refines bio { c with ncc := if w = 0x4130 then c.ncc - 1 else c.ncc }
        (w.extractLsb' 12 4) (w.extractLsb' 8 4) (w.extractLsb' 0 4) (w.extractLsb' 4 2)
        (decide (w.extractLsb' 7 1 = 1)) (decide (w.extractLsb' 6 1 = 1)) hd
      exact ⟨_, rfl, this.1, this.2.1, this.2.2⟩

/-- **C14, single step.**  For every simulator state whose instruction the guides define (`Defined`:
    all 27 core instructions, every addressing-mode combination, byte and word, constant generators,
    auto-increment, PC/SP/SR operands; the exclusions U1-U10 are listed in SimArch.lean), a step that
    returns (`.ok`; the only alternative is `exit` through `break_io`, see `step_ok_or_exit`) is not
    reported as illegal and leaves exactly the registers (PC, SP, SR included) and the memory of the
    architecture's step.  No instruction class is excluded. -/
theorem sim_refines_arch (s : SimState) (hd : Defined s.regs s.mem) :
    ∀ o, Msp430.Sim.step s = .ok o → o.illegal = false ∧
      o.state.regs = (Msp430.SimArch.step s.regs s.mem).regs ∧ o.state.mem = (Msp430.SimArch.step s.regs s.mem).mem := by
  intro o ho
  unfold Defined defined at hd
  simp only [Bool.decide_and, Bool.and_eq_true, decide_eq_true_eq] at hd
  have hx := exec_refines s.breakIo
    { regs := setReg s.regs 0 (getReg s.regs 0 + 2), mem := s.mem, ncc := s.nestedCallCount, writes := [], brk := none }
    (fetch s) hd.2
  obtain ⟨e, he, hi, hr, hm⟩ := hx
  unfold Msp430.Sim.step at ho
  simp only [he] at ho
  split at ho
  · exact absurd ho (by simp)
  · injection ho with ho
    subst ho
    exact ⟨hi, hr, hm⟩

/-- the step returns for every defined instruction unless `break_io` is hit -/
theorem step_ok_or_exit (s : SimState) (hd : Defined s.regs s.mem) :
    (∃ o, Msp430.Sim.step s = .ok o) ∨ (∃ st, Msp430.Sim.step s = .exit st) := by
  unfold Defined defined at hd
  simp only [Bool.decide_and, Bool.and_eq_true, decide_eq_true_eq] at hd
  obtain ⟨e, he, _⟩ := exec_refines s.breakIo
    { regs := setReg s.regs 0 (getReg s.regs 0 + 2), mem := s.mem, ncc := s.nestedCallCount, writes := [], brk := none }
    (fetch s) hd.2
  unfold Msp430.Sim.step
  simp only [he]
  split
  · exact Or.inr ⟨_, rfl⟩
  · exact Or.inl ⟨_, rfl⟩


/-! ### Non-vacuity: `add r5, r6` with both operands 0x8000 (carry, overflow and zero at once) -/

def addState : SimState :=
  { regs := setReg (setReg (setReg 0 0 0xf000) 5 0x8000) 6 0x8000,
    mem := fun a => if a = 0xf000 then 0x06 else if a = 0xf001 then 0x55 else 0,
    cycleCount := 0, nestedCallCount := 0, breakIo := 0xffffffff }

example : Defined addState.regs addState.mem := by unfold Defined; decide
example : getReg (Msp430.SimArch.step addState.regs addState.mem).regs 2 = 0x0103 ∧
    getReg (Msp430.SimArch.step addState.regs addState.mem).regs 6 = 0 := by decide

/-! ### Non-vacuity, SP special cases: `push sp`, `push 2(sp)`, `push @sp`, `push @sp+` are defined states
    (U8 no longer excludes them) and the architecture evaluates the source AFTER "SP - 2 -> SP" -/

/-- SP = 0x0400, word 0x1111 at 0x03fe (the slot to be written), 0x2222 at 0x0400 (top of stack), instruction `w`
    followed by the extension word 0x0002 -/
def pushSpState (w : BitVec 16) : SimState :=
  { regs := setReg (setReg 0 0 0xf000) 1 0x0400,
    mem := fun a => if a = 0xf000 then w.extractLsb' 0 8 else if a = 0xf001 then w.extractLsb' 8 8
                    else if a = 0xf002 then 0x02
                    else if a = 0x03fe then 0x11 else if a = 0x03ff then 0x11
                    else if a = 0x0400 then 0x22 else if a = 0x0401 then 0x22 else 0,
    cycleCount := 0, nestedCallCount := 0, breakIo := 0xffffffff }

def tosAfter (w : BitVec 16) : BitVec 16 × BitVec 16 :=
  let st := Msp430.SimArch.step (pushSpState w).regs (pushSpState w).mem
  (getReg st.regs 1, rd16 st.mem (getReg st.regs 1))

example : Defined (pushSpState 0x1201).regs (pushSpState 0x1201).mem := by unfold Defined; decide
example : Defined (pushSpState 0x1211).regs (pushSpState 0x1211).mem := by unfold Defined; decide
example : Defined (pushSpState 0x1221).regs (pushSpState 0x1221).mem := by unfold Defined; decide
example : Defined (pushSpState 0x1231).regs (pushSpState 0x1231).mem := by unfold Defined; decide
/-- `push sp` stores the decremented SP -/
example : tosAfter 0x1201 = (0x03fe, 0x03fe) := by decide
/-- `push 2(sp)`: the index is applied to the decremented SP: the old top of stack -/
example : tosAfter 0x1211 = (0x03fe, 0x2222) := by decide
/-- `push @sp` reads the slot that is being written -/
example : tosAfter 0x1221 = (0x03fe, 0x1111) := by decide
/-- `push @sp+`: SP is back at 0x0400 and the word there is the one read at 0x03fe -/
example : tosAfter 0x1231 = (0x0400, 0x1111) := by decide

/-! ### The `-run` loop -/

/-- two_operand_exe leaves `nested_call_count` alone -/
theorem twoOp_ncc (bio : BitVec 32) (c : Core) (o sr dr : BitVec 4) (as : BitVec 2) (ad bw : Bool) :
    (twoOp bio c o sr dr as ad bw).core.ncc = c.ncc := by
  have hp : ∀ (c : Core) ea ri isReg bw data, (putData bio c ea ri isReg bw data).ncc = c.ncc := by
    intro c ea ri isReg bw data
    unfold putData ramWrite8 ramWrite16
    cases isReg <;> cases bw <;> simp only [if_true, if_false, Bool.false_eq_true] <;> split <;> rfl
  unfold twoOp
  simp only [apply_ite Exe.core, apply_ite Core.ncc, hp, ite_self]

/-- **C14, run loop.**  In auto-run mode (`naken_util -run`) the loop ends at the step that leaves the
    call depth negative, and the state it reports (registers, `cycle_count`) is the state of exactly
    that step. -/
theorem run_returns_at_final_ret (fuel : Nat) (mc : Option Int) (s : SimState) (o : StepOut) (cyc : Int)
    (hs : Msp430.Sim.step s = .ok o) (hn : o.state.nestedCallCount < 0) :
    run (fuel + 1) mc s cyc = (.finalRet, o.state) := by
  unfold run
  simp only [hs, hn, if_true]

/-- executing `ret` (0x4130 = `mov @SP+, PC`) lowers the call depth by one, so a `ret` at depth 0
    is the final one -/
theorem ret_lowers_depth (s : SimState) (o : StepOut) (hf : fetch s = 0x4130)
    (hs : Msp430.Sim.step s = .ok o) : o.state.nestedCallCount = s.nestedCallCount - 1 := by
  unfold Msp430.Sim.step at hs
  simp only [hf] at hs
  unfold exec twoOperandExe at hs
  simp (config := { decide := true }) only [idx_hi, idx_lo, if_true, if_false] at hs
  split at hs
  · exact absurd hs (by simp)
  · injection hs with hs
    subst hs
    simp only [twoOp_ncc]

/-- a write to the `break_io` address ends the run with the low byte written as exit status:
    `mov.b #5, &0` with `-break_io 0` -/
def breakState : SimState :=
  { regs := setReg 0 0 0xf000,
    mem := fun a => if a = 0xf000 then 0xf2 else if a = 0xf001 then 0x40 else if a = 0xf002 then 0x05
                    else if a = 0xf004 then 0x00 else 0,        -- 40f2 0005 0000 : mov.b #5, &0x0000
    cycleCount := 0, nestedCallCount := 0, breakIo := 0 }

theorem break_io_exits_with_value :
    (match Msp430.Sim.step breakState with | .exit st => some st | _ => none) = some 5 := by decide

end NakenVerif.C14
