import NakenVerif.Expr.Impl
import NakenVerif.Expr.Literal
