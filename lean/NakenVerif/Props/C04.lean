/-
  Property C04: integer constant expressions.

  The evaluator model (`Expr/Impl.lean`, an operator-precedence stack machine mirroring
  core/eval_expression.cpp) is proved correct against the tree specification
  (`Expr/Spec.lean`), safe on every input, and the literal conversion model
  (`Expr/Literal.lean`) is proved to give positional values.
  Only statements and non-vacuity examples live here; proofs are in `Expr/Proofs*`.
-/
import NakenVerif.Expr.Impl
import NakenVerif.Expr.Literal
import NakenVerif.Expr.Proofs

namespace NakenVerif.Expr

open NakenVerif.Generated (BinOp)

/-! ## 1–2. tables -/

/-- the regenerated precedence table is the conventional one -/
theorem prec_conventional (o : BinOp) : prec o = specLevel o := prec_eq_specLevel o

example : prec .mul < prec .add ∧ prec .add < prec .shl ∧ prec .shl < prec .and ∧
    prec .and < prec .xor ∧ prec .xor < prec .or := by decide

/-- the operators are 64-bit two's-complement, division/modulo by zero have no value -/
theorem applyOp_spec (o : BinOp) (a b : BitVec 64) : applyOp o a b = specOp o a b :=
  applyOp_eq_specOp o a b

example : applyOp .div (-7) 2 = some (-3) ∧ applyOp .mod (-7) 2 = some (-1) ∧
    applyOp .div 1 0 = none ∧ applyOp .shr (-8) 1 = some (-4) := by decide

/-! ## 3. main theorem -/

/-- Evaluating the conventional notation of ANY tree yields the tree's value and leaves
    exactly `rest` unread; a tree without value is rejected with `.err`. -/
theorem eval_render (e : E) (rest : List Tok) (h : Terminator rest) :
    eval (e.render ++ rest) =
      match e.eval with
      | some v => .ok (v, rest)
      | none => .err :=
  eval_render_main e rest h

-- 1 | 2 + 3 * 4 = 15
example : eval ((E.bin .or (.num 1) (.bin .add (.num 2) (.bin .mul (.num 3) (.num 4)))).render
    ++ [.eol]) = .ok (15, [.eol]) := by eval_model

-- (1 + 2) * -(3 - 5) , then `,` : left operand needs parentheses, unary minus on a parenthesis
example : eval ((E.bin .mul (.bin .add (.num 1) (.num 2))
    (.neg (.bin .sub (.num 3) (.num 5)))).render ++ [.sep 0, .num 9]) = .ok (6, [.sep 0, .num 9]) := by
  eval_model

-- 10 - (4 - 3) = 9 (right operand of equal level keeps its parentheses), stops before `)`
example : eval ((E.bin .sub (.num 10) (.bin .sub (.num 4) (.num 3))).render ++ [.rparen, .eol])
    = .ok (9, [.rparen, .eol]) := by eval_model

-- 8 / (2 - 2) has no value and is rejected
example : (E.bin .div (.num 8) (.bin .sub (.num 2) (.num 2))).eval = none ∧
    eval ((E.bin .div (.num 8) (.bin .sub (.num 2) (.num 2))).render ++ [.eol]) = .err := by
  constructor
  · decide
  · eval_model

/-! ## 4. no fault on ANY token list -/

/-- the value stack never exceeds `varStackLen`, the operator stack never exceeds
    `operStackLen`, and nothing is popped from an empty stack -/
theorem run_no_fault (fuel : Nat) (isParen : Bool) (ts : List Tok) :
    run fuel isParen ts ≠ .fault :=
  run_no_fault_main fuel isParen ts

theorem unary_no_fault (fuel : Nat) (ts : List Tok) : unary fuel ts ≠ .fault :=
  unary_no_fault_main fuel ts

theorem eval_no_fault (ts : List Tok) : eval ts ≠ .fault :=
  run_no_fault_main _ _ ts

-- the deepest legal operator nesting fills both stacks exactly (7 values, 6 operators)
example : eval [.num 1, .op .or, .num 2, .op .xor, .num 3, .op .and, .num 4, .op .shl, .num 1,
    .op .add, .num 2, .op .mul, .num 3, .eol] = .ok (3, [.eol]) := by eval_model

-- `.fault` is a real outcome of the helper functions, so the theorem says something
example : execTop { vals := [1], ops := [.add] } = .fault := by decide
example : pushVal { vals := [1, 2, 3, 4, 5, 6, 7], ops := [] } 8 = .fault := by decide

/-! ## 5. fuel -/

theorem eval_no_fuel (ts : List Tok) : eval ts ≠ .fuel := eval_no_fuel_main ts

example : run 3 false [.num 1, .op .add, .num 2, .eol] = .fuel := by eval_model

/-! ## 6. malformed input is rejected -/

theorem trailing_operator_rejected (e : E) (o : BinOp) (rest : List Tok) (h : Terminator rest) :
    eval (e.render ++ .op o :: rest) = .err :=
  trailing_operator_main e o rest h

example : eval ((E.bin .add (.num 1) (.num 2)).render ++ .op .sub :: [.eol]) = .err := by
  eval_model

theorem unclosed_paren_rejected (e : E) :
    eval (.lparen :: e.render ++ [.eol]) = .err ∧ eval (.lparen :: e.render ++ []) = .err := by
  constructor
  · exact unclosed_paren_main e [.eol] (Or.inr ⟨[], rfl⟩)
  · exact unclosed_paren_main e [] (Or.inl rfl)

example : eval (.lparen :: (E.bin .add (.num 1) (.num 2)).render ++ [.eol]) = .err := by
  eval_model

theorem empty_rejected :
    eval [] = .err ∧ eval [.eol] = .err ∧ eval [.lparen, .rparen, .eol] = .err := by
  refine ⟨?_, ?_, ?_⟩ <;> eval_model

theorem adjacent_operands_rejected (e : E) (v : BitVec 64) (rest : List Tok) :
    eval (e.render ++ .num v :: rest) = .err :=
  adjacent_operands_main e v rest

example : eval ((E.bin .mul (.num 1) (.num 2)).render ++ .num 3 :: [.eol]) = .err := by
  eval_model

theorem lone_unary_rejected : eval [.tilde, .eol] = .err ∧ eval [.op .sub, .eol] = .err := by
  constructor <;> eval_model

/-- eval_expression(AsmContext*, int*): the 32-bit result is the 64-bit value exactly —
    read as a signed or as an unsigned number — or the expression is rejected; it is
    never a silently truncated value (the "narrowing" half of property C06). -/
theorem eval32_exact (ts : List Tok) (w : BitVec 32) (r : List Tok) (h : eval32 ts = .ok (w, r)) :
    ∃ v : BitVec 64, eval ts = .ok (v, r) ∧ (v.toInt = w.toInt ∨ v.toInt = (w.toNat : Int)) := by
  unfold eval32 at h
  split at h
  · rename_i v r' hv
    split at h
    · rename_i hf
      simp only [Res.ok.injEq, Prod.mk.injEq] at h
      obtain ⟨hw, hr⟩ := h
      subst hr
      refine ⟨v, hv, ?_⟩
      simp only [fits32, decide_eq_true_eq] at hf
      subst hw
      have h1 : (BitVec.truncate 32 v).toNat = v.toNat % 2 ^ 32 := by simp
      have hvn : v.toNat < 2 ^ 64 := v.isLt
      rw [BitVec.toInt_eq_toNat_cond] at hf ⊢
      rw [BitVec.toInt_eq_toNat_cond, h1]
      split at hf <;> split <;> omega
    · simp at h
  all_goals simp at h

/-- a value that fits neither as signed nor as unsigned 32-bit number is rejected -/
theorem eval32_rejects_unfit (ts : List Tok) (v : BitVec 64) (r : List Tok)
    (h : eval ts = .ok (v, r)) (hu : v.toInt < -2147483648 ∨ 4294967295 < v.toInt) :
    eval32 ts = .err := by
  unfold eval32
  rw [h]
  have : fits32 v = false := by
    simp only [fits32, decide_eq_false_iff_not]
    omega
  simp [this]

example : eval32 [.num 0x1_0000_0005, .eol] = .err := by eval_model
example : eval32 [.num 0xffff_ffff, .eol] = .ok (0xffff_ffff, [.eol]) := by eval_model

end NakenVerif.Expr

/-! ## 8. literals -/

namespace NakenVerif.Expr.Literal

section Literals

-- `positional base digits` (most significant first), the digit predicates `isDecDigit`,
-- `isOctDigit`, `isBinDigit`, `isHexDigit`, the digit worth `digitVal` and
-- `digits cs := (cs.filter (· ≠ '_')).map digitVal` are defined in `Expr/LiteralSpec.lean`.

example : positional 10 [1, 2, 3] = 123 ∧ positional 16 [1, 15] = 31 := by decide
example : digitVal '7' = 7 ∧ digitVal 'a' = 10 ∧ digitVal 'F' = 15 := by decide

/-- decimal literal, no separators, value below 2^64 -/
theorem literal_decimal (np : Bool) (ds : List Char) (hne : ds ≠ [])
    (hd : ∀ c ∈ ds, isDecDigit c = true) (h0 : ds.head? ≠ some '0' ∨ ds = ['0'])
    (hv : positional 10 (ds.map digitVal) < 2 ^ 64) :
    convert np ds = .number (BitVec.ofNat 64 (positional 10 (ds.map digitVal))) :=
  convert_decimal np ds hne hd h0 hv

example : convert false ['6', '5', '5', '3', '6'] = .number 65536 := by decide

/-- decimal literal with `_` separators after the first digit -/
theorem literal_decimal_sep (np : Bool) (d0 : Char) (ds : List Char)
    (hd0 : isDecDigit d0 = true) (hnz : d0 ≠ '0')
    (hd : ∀ c ∈ ds, isDecDigit c = true ∨ c = '_')
    (hv : positional 10 (digits (d0 :: ds)) < 2 ^ 64) :
    convert np (d0 :: ds) = .number (BitVec.ofNat 64 (positional 10 (digits (d0 :: ds)))) :=
  convert_decimal_sep np d0 ds hd0 hnz hd hv

example : convert true ['1', '_', '0', '0', '0'] = .number 1000 := by decide

/-- `0x…` hexadecimal literal (value modulo 2^64) -/
theorem literal_hex_prefix (np : Bool) (hs : List Char) (hh : ∀ c ∈ hs, isHexDigit c = true) :
    convert np ('0' :: 'x' :: hs) =
      .number (BitVec.ofNat 64 (positional 16 (hs.map digitVal))) :=
  convert_hex_prefix np hs hh

theorem literal_hex_prefix_sep (np : Bool) (hs : List Char)
    (hh : ∀ c ∈ hs, isHexDigit c = true ∨ c = '_') :
    convert np ('0' :: 'x' :: hs) = .number (BitVec.ofNat 64 (positional 16 (digits hs))) :=
  convert_hex_prefix_sep np hs hh

example : convert false ['0', 'x', 'f', 'F', '_', '1', '0'] = .number 0xff10 := by decide

/-- `0b…` binary literal (value modulo 2^64) -/
theorem literal_bin_prefix (np : Bool) (bs : List Char) (hb : ∀ c ∈ bs, isBinDigit c = true) :
    convert np ('0' :: 'b' :: bs) =
      .number (BitVec.ofNat 64 (positional 2 (bs.map digitVal))) :=
  convert_bin_prefix np bs hb

theorem literal_bin_prefix_sep (np : Bool) (bs : List Char)
    (hb : ∀ c ∈ bs, isBinDigit c = true ∨ c = '_') :
    convert np ('0' :: 'b' :: bs) = .number (BitVec.ofNat 64 (positional 2 (digits bs))) :=
  convert_bin_prefix_sep np bs hb

example : convert true ['0', 'b', '1', '0', '1', '_', '1'] = .number 11 := by decide

/-- leading `0` followed by at least one octal digit: octal -/
theorem literal_octal_leading_zero (np : Bool) (os : List Char) (hne : os ≠ [])
    (ho : ∀ c ∈ os, isOctDigit c = true) :
    convert np ('0' :: os) = .number (BitVec.ofNat 64 (positional 8 (os.map digitVal))) :=
  convert_octal np os hne ho

theorem literal_octal_leading_zero_sep (np : Bool) (os : List Char)
    (ho : ∀ c ∈ os, isOctDigit c = true ∨ c = '_') (hne : digits os ≠ []) :
    convert np ('0' :: os) = .number (BitVec.ofNat 64 (positional 8 (digits os))) :=
  convert_octal_sep np os ho hne

example : convert false ['0', '1', '7', '_', '7'] = .number 127 := by decide

/-- `…h` postfix (CPUs that accept number postfixes): hexadecimal.  The literal must start
    with a decimal digit and must not start with `0b` (that is read as a binary prefix). -/
theorem literal_hex_postfix (c0 : Char) (body : List Char) (pc : Char)
    (hpc : pc = 'h' ∨ pc = 'H') (hc0 : isDecDigit c0 = true)
    (hh : ∀ c ∈ body, isHexDigit c = true) (hnb : c0 = '0' → body.head? ≠ some 'b') :
    convert false (c0 :: body ++ [pc]) =
      .number (BitVec.ofNat 64 (positional 16 ((c0 :: body).map digitVal))) := by
  apply convert_hex_postfix c0 body pc hpc hc0 hh
  intro r
  by_cases h : c0 = '0'
  · left; intro hb; exact hnb h (by rw [hb]; rfl)
  · exact Or.inr h

example : convert false ['0', 'f', 'F', 'h'] = .number 255 := by decide
-- the excluded shape really is different: `0b1h` is not a number at all
example : convert false ['0', 'b', '1', 'h'] = .word := by decide

/-- `…q` postfix: octal -/
theorem literal_oct_postfix (c0 : Char) (body : List Char) (pc : Char)
    (hpc : pc = 'q' ∨ pc = 'Q') (ho : ∀ c ∈ c0 :: body, isOctDigit c = true) :
    convert false (c0 :: body ++ [pc]) =
      .number (BitVec.ofNat 64 (positional 8 ((c0 :: body).map digitVal))) :=
  convert_oct_postfix c0 body pc hpc ho

example : convert false ['1', '7', '7', 'q'] = .number 127 := by decide

/-- `…b` postfix: binary (every CPU) -/
theorem literal_bin_postfix (np : Bool) (c0 : Char) (body : List Char) (pc : Char)
    (hpc : pc = 'b' ∨ pc = 'B') (hb : ∀ c ∈ c0 :: body, isBinDigit c = true) :
    convert np (c0 :: body ++ [pc]) =
      .number (BitVec.ofNat 64 (positional 2 ((c0 :: body).map digitVal))) :=
  convert_bin_postfix np c0 body pc hpc hb

example : convert true ['1', '0', '1', '1', 'b'] = .number 11 := by decide

end Literals

end NakenVerif.Expr.Literal
