/-
  C08 — disassembly is total, local and tiles any range.
  CPU-independent part: NakenVerif.Common.Walk (namespace NakenVerif.Walk): walk_tiles, machine_eq_walk,
  walk_terminates_bound, walkCont_tiles and the counterexamples for lengths 0 / -1 and for a range that ends at
  the top of the address space.  Per-CPU theorems (RV32I): rv32i_len_bounds, rv32i_decode_local,
  rv32i_text_fits, rv32i_walk_tiles.
-/
import NakenVerif.Common.Walk
import NakenVerif.Riscv.Props
namespace NakenVerif.Walk

/-- non-vacuity: a concrete tiling (lengths 4, 2, 2, 4 …) -/
example : walk (fun a => if a % 8 == 0 then 4 else 2) 0x1000 0x100b = [0x1000, 0x1004, 0x1006, 0x1008] := by
  decide +kernel

end NakenVerif.Walk
