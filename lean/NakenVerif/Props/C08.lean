/-
  C08 — disassembly is total, local and tiles any range.
  CPU-independent part: NakenVerif.Common.Walk (namespace NakenVerif.Walk): walk_tiles, machine_eq_walk,
  walk_terminates_bound, walkCont_tiles and the counterexamples for lengths 0 / -1 and for a range that ends at
  the top of the address space.  Per-CPU theorems (RV32I): rv32i_len_bounds, rv32i_decode_local,
  rv32i_text_fits, rv32i_walk_tiles.
  MSP430 (NakenVerif.Msp430.DisProps, DisLocal): msp430_len_bounds, msp430_decode_local, msp430_text_fits,
  msp430_walk_tiles, msp430_walk_tiles_disasm, table_dis_types, table_instr_short
  MOS 6502 / 65C02 (NakenVerif.M6502.DisProps): m6502_len_bounds, m6502_decode_local, m6502_text_fits,
  m6502_walk_tiles, m6502_walk_tiles_disasm, table_len_consistent, table_names_short
-/
import NakenVerif.Common.Walk
import NakenVerif.Riscv.Props
import NakenVerif.Msp430.Fixpoint
import NakenVerif.M6502.Fixpoint
namespace NakenVerif.Walk

/-- non-vacuity: a concrete tiling (lengths 4, 2, 2, 4 …) -/
example : walk (fun a => if a % 8 == 0 then 4 else 2) 0x1000 0x100b = [0x1000, 0x1004, 0x1006, 0x1008] := by
  decide +kernel

end NakenVerif.Walk
