import NakenVerif.Props.C03
import NakenVerif.FileIO.ProofsElfLoads
import NakenVerif.FileIO.ProofsElfReadFinal
/-
C03 — ELF.  `ElfImpl.write` mirrors write_elf.cpp (ELF32 / ELF64 by CPU, byte order of the Memory, one `.text`
section = the bytes of `[low, high]`, `.shstrtab`, `.strtab`, `.symtab`, `.comment`, ARM's `.ARM.attributes`, the
program header of images with an entry point, the patched e_shoff / e_shnum / e_shstrndx); `ElfSpec.decode` is a
decoder written from the System V gABI; `ElfReadImpl.read` mirrors read_elf.cpp.

Hypotheses (`ElfProofs.Ok`): `Image.WF` (32-bit addresses, `high ≠ 0xffffffff`), symbol names are C strings (no NUL),
symbol values are `uint32_t`, the written file is shorter than 4 GiB (`struct _shdr` keeps offsets and sizes in
`uint32_t`).  Nothing else is bounded: any number of cells, gaps, symbols; any CPU type and alignment; both byte orders.
-/
namespace NakenVerif.C03
open NakenVerif.FileIO ElfProofs ElfReadProofs

/-- `memory->read8` of every address of `[low, high]`, gaps as 0: what an ELF section can carry -/
theorem textBytes_cells (img : Image) : cellsAt img.low (ElfImpl.textBytes img) = filled img.low img.cells :=
  cellsAt_write _ _

/-- **ELF write → decode.**  Decoding the written file according to the gABI (which rejects a wrong e_ehsize /
e_shentsize / e_phentsize, a section header table or a section outside the file, e_shstrndx out of range, a bad
string table or name index, a symbol table with wrong entry size / link / sh_info / section index, an unterminated
SHF_STRINGS section) yields: the class and byte order chosen for the CPU, its e_machine, the entry point (0 when none
was given), exactly the bytes of `[low, high]` at exactly their addresses (unwritten cells as 0: ELF describes one
contiguous range) and exactly the exported symbols with their values — for every image, symbol list and CPU. -/
theorem elf_write_decode (img : Image) (syms : List ElfImpl.Sym) (cfg : ElfImpl.Config) (h : Ok img syms cfg) :
    ElfSpec.decode (ElfImpl.write img syms cfg) =
      some { cls := (ElfImpl.hdrOf cfg).cls, big := img.bigEndian, machine := (ElfImpl.hdrOf cfg).machine % 65536,
             entry := if img.entry = 0xffffffff then 0 else img.entry,
             cells := filled img.low img.cells, symbols := syms } := by
  rw [decode_write img syms cfg h, textBytes_cells]
  simp [ElfImpl.eEntry, ElfImpl.hasEntry]

/-- **Header fields.**  e_shnum is the number of section headers actually written, the section header table is
exactly the end of the file (e_shoff + e_shnum * e_shentsize = file length), e_shstrndx = 2 names a section inside
the table, every section lies inside the file and every sh_name inside `.shstrtab`. -/
theorem elf_header_fields (img : Image) (syms : List ElfImpl.Sym) (cfg : ElfImpl.Config) (h : Ok img syms cfg) :
    ∃ e secs, ElfSpec.parseEhdr (ElfImpl.write img syms cfg) = some e ∧
      ElfSpec.parseShdrs e.big e.cls e.shnum ((ElfImpl.write img syms cfg).drop e.shoff) = some secs ∧
      e.shnum = (ElfImpl.shdrs img syms cfg).length ∧
      e.shoff + e.shnum * e.shentsize = (ElfImpl.write img syms cfg).length ∧
      e.shstrndx = 2 ∧ e.shstrndx < e.shnum ∧
      e.ehsize = (if e.cls = 1 then 52 else 64) ∧ e.shentsize = (if e.cls = 1 then 40 else 64) ∧
      secs.all (ElfSpec.sectionInFile (ElfImpl.write img syms cfg).length) = true ∧
      secs.all (fun s => decide (s.name < ElfImpl.shstrSize img cfg)) = true := by
  refine ⟨hdrE img syms cfg, secsOf img syms cfg, parse_write img syms cfg h, parseShdrs_write img syms cfg h, ?_⟩
  obtain ⟨k1, _, _, _, _, k6, _⟩ := conds_write img syms cfg
  have hl := shtab_length img syms cfg
  have hf := (shoff_facts img syms cfg).2
  have hsn := ElfProofs.shnum_eq cfg
  have hss : ElfImpl.shstrSize img cfg = (shstrBytesOf (ElfImpl.isArm cfg)).length := by
    rw [(shstr_facts img syms cfg).2.2, shstrBytes_eq]
  have hc := is32_iff cfg
  refine ⟨(shdrs_length img syms cfg).symm, ?_, rfl, ?_, rfl, rfl, k1, ?_⟩
  · simp only [hdrE]
    rw [← hf, hl]
    cases h32 : ElfImpl.is32 cfg <;> simp [h32] at hc ⊢ <;> simp [hc]
  · simp only [hdrE]; rw [hsn]; split <;> omega
  · rw [hss]; exact k6

/-- **Program header.**  For an image with an entry point the PT_LOAD segment maps exactly the bytes of `[low, high]`
(file offset 4096, where `.text` lies) to `low`; without an entry point no program header is written. -/
theorem elf_load_segment (img : Image) (syms : List ElfImpl.Sym) (cfg : ElfImpl.Config) (h : Ok img syms cfg)
    (hne : img.cells ≠ []) :
    ElfSpec.decodeLoads (ElfImpl.write img syms cfg) =
      some (if img.entry = 0xffffffff then [] else [(img.low, img.cells.map (fun c => c.getD 0))]) :=
  decodeLoads_write img syms cfg h hne

theorem writesAt_filled (a : Nat) (cs : List (Option Byte)) (i : Nat) (h : a + i + cs.length ≤ 4294967296) :
    ElfReadImpl.writesAt a i (cs.map (fun c => c.getD 0)) = filled (a + i) cs := by
  induction cs generalizing i with
  | nil => rfl
  | cons c cs ih =>
    simp only [List.length_cons] at h
    have hm : (a + i) % 4294967296 = a + i := Nat.mod_eq_of_lt (by omega)
    cases c <;> simp only [List.map_cons, ElfReadImpl.writesAt, filled, hm] <;>
      rw [ih (i + 1) (by omega)] <;> rfl

/-- **Loader round trip.**  `read_elf` (naken_util) applied to the file `write_elf` wrote returns 0, stores with `write8`
exactly the bytes of `[low, high]` at their addresses (nothing else), sets low/high to the image's, takes the byte order
from EI_DATA, the CPU from e_machine and appends exactly the exported symbols with their values.  `NamesFit`: names of
at most 254 characters, which is what `Symbols::append` admits. -/
theorem elf_read_write (img : Image) (syms : List ElfImpl.Sym) (cfg : ElfImpl.Config) (h : Ok img syms cfg)
    (hn : NamesFit syms) (hne : img.cells ≠ []) :
    ElfReadImpl.read (ElfImpl.write img syms cfg) =
      { ret := 0, writes := filled img.low img.cells, low := img.low, high := img.high, big := img.bigEndian,
        cpuType := (ElfReadImpl.machineCpu ((ElfImpl.hdrOf cfg).machine % 65536)).getD 0, syms := syms } := by
  rw [read_write img syms cfg h hn]
  have hw := h.wf.1
  have hpos : 0 < img.cells.length := List.length_pos_iff.mpr hne
  have e1 : ElfReadImpl.writesAt img.low 0 (ElfImpl.textBytes img) = filled img.low img.cells := by
    have := writesAt_filled img.low img.cells 0 (by omega)
    simpa [ElfImpl.textBytes] using this
  have e2 : stopOf img = img.high := by unfold stopOf Image.high; omega
  rw [e1, e2]

/-- the e_machine values of the CPUs naken_util knows come back as the same CPU type (the table of `write_elf_header`
composed with the switch of `read_elf`); MSP430X is loaded as MSP430, the Emotion Engine as MIPS32, ARM64 and the CPUs
without an e_machine as CPU type 0 -/
theorem elf_machine_roundtrip :
    ∀ t ∈ [Generated.CpuType.msp430, Generated.CpuType.m68000, Generated.CpuType.m68hc08, Generated.CpuType.i8051,
           Generated.CpuType.arm, Generated.CpuType.avr8, Generated.CpuType.cell, Generated.CpuType.dspic,
           Generated.CpuType.ebpf, Generated.CpuType.epiphany, Generated.CpuType.mips32, Generated.CpuType.powerpc,
           Generated.CpuType.riscv, Generated.CpuType.stm8, Generated.CpuType.xtensa, Generated.CpuType.z80],
      ∀ a ∈ [1, 2, 4, 8],
        (ElfReadImpl.machineCpu ((ElfImpl.cpuHdr t a).machine % 65536)).getD 0 = t := by
  decide +kernel

/-! ### non-vacuity -/

def elfDemo : Image := { low := 0x100, cells := [some 1, none, some 3], entry := 0x101, bigEndian := true }
def elfSyms : List ElfImpl.Sym := [(ElfImpl.str "main", 0x100), (ElfImpl.str "b", 0x102)]
def elfCfg : ElfImpl.Config := { cpuType := Generated.CpuType.arm, alignment := 4, filename := ElfImpl.str "x.asm" }

theorem elfDemo_ok : Ok elfDemo elfSyms elfCfg :=
  ⟨by decide, by decide, by decide, by decide +kernel⟩

example : ElfSpec.decode (ElfImpl.write elfDemo elfSyms elfCfg) =
    some { cls := 1, big := true, machine := 40, entry := 0x101, cells := [(0x100, 1), (0x101, 0), (0x102, 3)],
           symbols := elfSyms } := by
  rw [elf_write_decode _ _ _ elfDemo_ok]; decide +kernel
example : (ElfReadImpl.read (ElfImpl.write elfDemo elfSyms elfCfg)).syms = elfSyms := by
  rw [elf_read_write _ _ _ elfDemo_ok (by unfold NamesFit; decide) (by decide)]
example : (ElfImpl.write elfDemo elfSyms elfCfg).length = 4656 := by decide +kernel
/-- the decoder is not a rubber stamp: a section header count one too high (the former AVR8 defect) is rejected -/
example : ElfSpec.decode (ElfImpl.overwrite (ElfImpl.write elfDemo elfSyms elfCfg) 48 [0, 8]) = none := by
  decide +kernel
/-- ... and so is a symbol table whose sh_info is the former `count + 2` (here 4 + ... ≠ 4: use 5) -/
example : ElfSpec.decode (ElfImpl.overwrite (ElfImpl.write elfDemo elfSyms elfCfg)
    (ElfImpl.shoff elfDemo elfSyms elfCfg + 3 * 40 + 28) [0, 0, 0, 5]) = none := by
  decide +kernel

end NakenVerif.C03
