/-
  C17 — naken_util never crashes, hangs or corrupts memory on any file or command.

  Readers (models of /repo/fileio/read_*.cpp as fixed, over EVERY byte string):
    read_uf2_total, read_elf_total, read_macho_total, read_amiga_total, read_ti_txt_total  — the model returns a
      result (loaded or rejected), never `Fault.index` (array index outside its capacity) and never
      `Fault.outOfFuel` (a loop running longer than its bound, which is linear in the file length);
    read_hex_total, read_srec_total, read_wdc_total — the fuel `length + 1` of the C03 models never runs out;
    read_bin_linear, get_string_in_bounds.
  Command layer (models of /repo/core/UtilContext.cpp as fixed, over EVERY argument string / range):
    get_num_in_bounds, get_address_in_bounds, get_range_total, write_total, print8/16/32_total, disasm_walk_total,
    command_table_unambiguous.
  Counterexamples on the code before the fixes / on behaviour left in the code:
    read_uf2_unchecked_counterexample, write_unfixed_counterexample, print16_unguarded_counterexample,
    walk_unguarded_counterexample, range_walk_top_counterexample (known finding: the per-CPU disasm_range loops).
-/
import NakenVerif.Safe.ProofsUf2
import NakenVerif.Safe.ProofsAmiga
import NakenVerif.Safe.ProofsElf
import NakenVerif.Safe.ProofsMacho
import NakenVerif.Safe.ProofsText
import NakenVerif.Safe.ProofsCmd
import NakenVerif.Safe.ProofsCmdLoops
import NakenVerif.Safe.TiTxt
import NakenVerif.FileIO.BinImpl
import NakenVerif.Generated.UtilTable
import NakenVerif.Generated.UtilCommands
import NakenVerif.Generated.Limits

namespace NakenVerif.C17
open NakenVerif.Safe NakenVerif.FileIO

/-! ### Readers -/

/-- `read_uf2` on every byte string: a result, i.e. `uf2_block.data[476]` (capacity re-emitted from `sizeof`) is
never indexed out of range and the block loop makes exactly `ceil(size / 512)` rounds (structural). -/
theorem read_uf2_total (f : Bytes) : ∃ r, Uf2.read f Generated.uf2DataCap = .ok r :=
  Uf2.read_total f _

/-- the model's block layout is the code's: 8 words + data + 1 word = `sizeof(Uf2Block)` = one 512 byte step -/
theorem uf2_block_layout : 32 + Generated.uf2DataCap + 4 = Generated.uf2BlockSize ∧ Generated.uf2BlockSize = 512 := by
  decide

/-- one block claiming 477 bytes: the reader as it was before the fix indexes `data[476]` -/
def uf2Witness : Bytes :=
  #[0x55, 0x46, 0x32, 0x0a, 0x57, 0x51, 0x5d, 0x9e, 0, 0x20, 0, 0, 0, 0x10, 0, 0, 0xdd, 0x01, 0, 0,
    0, 0, 0, 0, 1, 0, 0, 0, 0, 0, 0, 0] ++ Array.replicate 476 0xaa ++ #[0x30, 0x6f, 0xb1, 0x0a]

theorem read_uf2_unchecked_counterexample : faultOf (Uf2.readUnchecked uf2Witness 476) = some .index := by
  decide +kernel

/-- non-vacuity: the fixed reader rejects that file (return value -1), and loads a block of 476 bytes -/
example : (Uf2.read uf2Witness 476).toOption.map (·.ret) = some (-1) := by decide +kernel
example : (Uf2.read (uf2Witness.set! 16 0xdc) 476).toOption.map (fun r => (r.ret, r.mem.writes.length)) = some (0, 476) := by
  decide +kernel

/-- `read_elf` on every byte string and every file system seek limit: a result — `name[256]` (128 before proposed fix C03-14) is never indexed
out of range, the section copy loop and the symbol loop end within `size + 2` rounds each, the two section
table walks make `max 0 e_shnum <= 65535` rounds. -/
theorem read_elf_total (maxOff : Nat) (f : Bytes) : ∃ r, Elf.read maxOff f 256 = .ok r :=
  Elf.read_total maxOff f 256 (by omega)

/-- `read_macho` on every byte string: a result — all four loops (load commands, sections, text bytes,
symbols) end within `size + 2` rounds each, `name[128]` stays in bounds. -/
theorem read_macho_total (maxOff : Nat) (f : Bytes) : ∃ r, Macho.read maxOff f 128 = .ok r :=
  Macho.read_total maxOff f 128 (by omega)

/-- `read_amiga` on every byte string: a result — the hunk loop, the name loop, the table loop and the code loop
end within `size + 2` rounds each. -/
theorem read_amiga_total (f : Bytes) : ∃ r, Amiga.read f = .ok r := Amiga.read_total f

/-- `read_ti_txt` on every byte string: a result; the model is structurally recursive in the characters (one
round per character and one for `EOF`), it has no array, and it stores at most one byte per character. -/
theorem read_ti_txt_total (f : Bytes) : ∃ r, TiTxt.read f = .ok r ∧ r.ret = 0 := ⟨_, rfl, rfl⟩

theorem tiLoop_writes (s : List UInt8) : ∀ (isAddr : Bool) (value len : Nat) (st : TiTxt.St),
    (TiTxt.loop s isAddr value len st).mem.writes.length ≤ st.mem.writes.length + s.length + 1 := by
  induction s with
  | nil =>
    intro isAddr value len st
    unfold TiTxt.loop TiTxt.apply Mem.write8
    split <;> (try split) <;> simp
  | cons c s ih =>
    intro isAddr value len st
    unfold TiTxt.loop
    have happ : ∀ st', (TiTxt.apply isAddr value st').mem.writes.length ≤ st'.mem.writes.length + 1 := by
      intro st'; unfold TiTxt.apply Mem.write8; split <;> simp
    repeat' split
    all_goals first
      | (simp only [List.length_cons]; omega)
      | (have := ih isAddr value len st; simp only [List.length_cons]; omega)
      | (have := ih true value len st; simp only [List.length_cons]; omega)
      | (rename_i d _; have := ih isAddr ((value * 16 + d) % 4294967296) (len + 1) st; simp only [List.length_cons]; omega)
      | (have := ih false 0 0 (TiTxt.apply isAddr value st); have := happ st; simp only [List.length_cons]; omega)

/-- `read_ti_txt` stores at most `size + 1` bytes -/
theorem read_ti_txt_linear (f : Bytes) (r : Loaded) (h : TiTxt.read f = .ok r) : r.mem.writes.length ≤ f.size + 1 := by
  unfold TiTxt.read at h
  simp only [Except.ok.injEq] at h
  subst h
  have := tiLoop_writes f.toList false 0 0 {}
  simpa using this

/-- `read_hex`: any fuel above the file length gives the result of `readHex` (which uses `length + 1`), so the
record loop of the C03 model never consumes its last unit of fuel: at most `length + 1` rounds. -/
theorem read_hex_total (file : List Char) (fuel : Nat) (h : file.length < fuel) :
    ReadImpl.readHexLoop fuel file {} = ReadImpl.readHex file := ReadImpl.readHex_fuel file fuel h

theorem read_srec_total (file : List Char) (fuel : Nat) (h : file.length < fuel) :
    ReadImpl.readSrecLoop fuel file {} = ReadImpl.readSrec file := ReadImpl.readSrec_fuel file fuel h

theorem read_wdc_total (s : List Byte) (f1 f2 lo hi : Nat) (acc : List (Nat × Byte)) (h1 : s.length < f1) (h2 : s.length < f2) :
    WdcImpl.readLoop f1 s lo hi acc = WdcImpl.readLoop f2 s lo hi acc := WdcImpl.readLoop_fuel f1 f2 s lo hi acc h1 h2

/-- `read_bin`: one `write8` per byte of the file -/
theorem read_bin_linear (file : List Byte) (start : Nat) : (BinImpl.read file start).1.length = file.length := by
  unfold BinImpl.read
  simp only [List.length_map]
  induction file generalizing start with
  | nil => rfl
  | cons b bs ih => simp only [cellsAt, List.length_cons]; rw [ih]

/-- `FileIo::get_string_at_offset(name, sizeof(name), offset)` with a buffer of 2 bytes or more: in bounds and
NUL terminated inside the buffer for every file, stream position and offset -/
theorem get_string_in_bounds (maxOff : Nat) (f : Bytes) (cap : Nat) (hcap : 2 ≤ cap) (p : FPos) (off : BitVec 64) :
    ∃ s, getStringAtOffset maxOff f cap cap p off = .ok s ∧ s.length < cap :=
  getStringAtOffset_ok maxOff f cap hcap p off

/-- non-vacuity: a length parameter of 1 (never equal to `ptr + 1`) does run out of the buffer -/
example : faultOf (getStringAtOffset 100 #[65, 66, 67, 68] 3 1 {} 0#64) = some .index := by decide +kernel

/-- non-vacuity of the readers: small well-formed files load -/
example : (TiTxt.read "@10\n01 02\nq".toUTF8.data).toOption.map (fun r => (r.ret, r.mem.low, r.mem.high, r.mem.writes)) =
    some (0, 16, 17, [(17, 2), (16, 1)]) := by decide +kernel
example : (Amiga.read #[0, 0, 3, 0xf3, 0, 0, 0, 0, 0, 0, 0, 1, 0, 0, 0, 0, 0, 0, 0, 0, 0, 0, 0, 1,
    0, 0, 3, 0xe9, 0, 0, 0, 1, 0x4e, 0x75, 0x4e, 0x71]).toOption.map (fun r => (r.ret, r.mem.writes.length)) = some (0, 4) := by
  decide +kernel
/-- a hunk file that ends without a code hunk is rejected (before the fix the loop never ended) -/
example : (Amiga.read #[0, 0, 3, 0xf3, 0, 0, 0, 0, 0, 0, 0, 1, 0, 0, 0, 0, 0, 0, 0, 0, 0, 0, 0, 8,
    0, 0, 3, 0xf1, 1, 2, 3, 4]).toOption.map (·.ret) = some (-1) := by decide +kernel

/-! ### Command layer -/

/-- `get_num` on every string and every start offset inside it: no character is read past the NUL, and a
returned pointer lies inside the string, strictly behind the start (so callers that loop make progress) -/
theorem get_num_in_bounds (s : Bytes) (token : Nat) (h : token ≤ s.size) :
    ∃ r, Cmd.getNum true s token = .ok r ∧ ∀ j m, r = some (j, m) → token < j ∧ j ≤ s.size :=
  Cmd.getNum_ok s token h

theorem get_address_in_bounds (lookup : List UInt8 → Option Nat) (bpa : Nat) (s : Bytes) (token : Nat) (h : token ≤ s.size) :
    ∃ r, Cmd.getAddress true lookup bpa s token = .ok r ∧ ∀ j, r.1 = some j → token ≤ j ∧ j ≤ s.size :=
  Cmd.getAddress_ok lookup bpa s token h

theorem get_range_total (lookup : List UInt8 → Option Nat) (bpa high : Nat) (s : Bytes) :
    ∃ r, Cmd.getRange true lookup bpa high s = .ok r := Cmd.getRange_total lookup bpa high s

/-- `write` / `write16` / `write32` with any argument string: no null or out-of-string pointer, the loop ends -/
theorem write_total (lookup : List UInt8 → Option Nat) (bpa mask step : Nat) (s : Bytes) :
    ∃ r, Cmd.write true lookup bpa mask step s = .ok r := Cmd.write_total lookup bpa mask step s

/-- `write 0 -h` before the fix: `get_hex` returns the pointer it was given, the loop never ends -/
theorem write_unfixed_counterexample :
    faultOf (Cmd.write false (fun _ => none) 1 0 1 "0 -h".toUTF8.data) = some .outOfFuel := by decide +kernel

example : (Cmd.write true (fun _ => none) 1 0 1 "0 -h".toUTF8.data).toOption.map
    (fun | .wrote c _ _ => c | _ => 99) = some 0 := by decide +kernel
example : (Cmd.write true (fun _ => none) 1 0 1 "0x10 1 0x22 51 -1".toUTF8.data).toOption.map
    (fun | .wrote c a w => (c, a, w) | _ => (0, 0, [])) = some (4, 16, [(19, 4294967295), (18, 51), (17, 34), (16, 1)]) := by
  decide +kernel

/-- `print <range>` for every `(start, end)` and every `bytes_per_address`: `chars[20]` in bounds, the loop ends -/
theorem print8_total (bpa start stop : Nat) : ∃ r, Cmd.print 20 1 1 15 0 bpa false start stop = .ok r :=
  Cmd.print8_total bpa start stop
theorem print16_total (alignMask bpa start stop : Nat) :
    ∃ r, Cmd.print 20 2 2 15 alignMask bpa true start stop = .ok r := Cmd.print16_total alignMask bpa start stop
theorem print32_total (alignMask bpa start stop : Nat) :
    ∃ r, Cmd.print 20 4 2 7 alignMask bpa true start stop = .ok r := Cmd.print32_total alignMask bpa start stop

/-- `print16 0xfffffffe-0xffffffff` before the fix: `start += 2` wraps to 0, the loop never ends -/
theorem print16_unguarded_counterexample :
    faultOf (Cmd.print 20 2 2 15 0 1 false 0xfffffffe 0xffffffff) = some .outOfFuel := by decide +kernel

example : (Cmd.print 20 2 2 15 0 1 true 0xfffffffe 0xffffffff).toOption.map (fun o => o.map (·.items)) = some (some 1) := by
  decide +kernel

/-- the page walk of `disasm` without a range ends for every `(start, end)`; `pageSize` is the regenerated PAGE_SIZE -/
theorem disasm_walk_total (inUse : Nat → Bool) (start stop : Nat) (h : start < 4294967296) :
    ∃ r, Cmd.walk inUse Generated.pageSize true start stop = .ok r :=
  Cmd.walk_total inUse start stop h

/-- before the fix the walk wraps around at the page `0xffff0000` (shown on a 2-page address space model: the
loop structure does not depend on the page size) -/
theorem walk_unguarded_counterexample :
    faultOf (Cmd.walk (fun _ => true) 2147483648 false 0x80000000 0xffffffff) = some .outOfFuel := by decide +kernel

/-- the command table has no two rows with the same name (so the first match of `is_command_valid` is the only one),
`quit` and `exit` exist and take no argument -/
theorem command_table_unambiguous :
    (Generated.utilCommands.map (·.1)).Nodup ∧
    ("quit", false, false) ∈ Generated.utilCommands ∧ ("exit", false, false) ∈ Generated.utilCommands := by
  decide

/-! ### Left in the code (known finding): the per-CPU `disasm_range` loops

`while (start <= end)` with `uint32_t start, end`: for `end = 0xffffffff` the guard is true for every value of
`start`, so a range that reaches the top of the address space never ends (55 `disasm/*.cpp` files; the MSP430
one uses `int` and ends). -/
theorem range_walk_top_counterexample : ∀ start : BitVec 32, start ≤ 0xffffffff#32 := by
  intro start; bv_omega

end NakenVerif.C17
