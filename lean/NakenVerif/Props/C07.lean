/-
  C07 — decode -> encode -> decode is a fixpoint over all machine words.  Per-CPU theorems (RV32I):
    rv32i_decode_encode_decode, table_rt_rows, table_fence_rows, branch_zero_alias_counterexample
-/
import NakenVerif.Riscv.RoundTrip
