/-
  C07 — decode -> encode -> decode is a fixpoint over all machine words.  Per-CPU theorems (RV32I):
    rv32i_decode_encode_decode, table_rt_rows, table_fence_rows, branch_zero_alias_counterexample
  MSP430 16-bit core (NakenVerif.Msp430.RoundTrip, DisSound): msp430_decode_encode_decode,
  msp430_text_rejected_classes, arch_reading, table_no_shadow, table_core_rows, table_core_names, table_dis_kinds
  MOS 6502 / 65C02 (NakenVerif.M6502.RoundTrip): m6502_decode_encode_decode, m6502_text_rejected_classes,
  table_rt_rows, table_matches_arch
-/
import NakenVerif.Riscv.RoundTrip
import NakenVerif.Msp430.Fixpoint
import NakenVerif.M6502.Fixpoint
