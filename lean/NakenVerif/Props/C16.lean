/-
  Property C16 — naken_asm never crashes, hangs or corrupts memory, whatever the source text.

  What is proved here is about the implementation model of the reader (tokens.cpp), of the macro
  buffers (Macros.cpp) and of the nesting counters; every C array is a bounded buffer whose
  out-of-range index is the outcome `fault`, every capacity is regenerated from the sources.
  Theorems quantify over every source text (`src`), every macro table (`env`), every buffer
  length passed by a caller (`cfg.len ≥ 1`), every amount of fuel and every number of calls.

  What only the running program can show (signals, the heap, wall-clock time, the 66 CPU back
  ends, the writers) is not claimed here; see notes/C16.md.
-/
import NakenVerif.Reader.GetProofs
import NakenVerif.Reader.Nest

namespace NakenVerif.C16

open NakenVerif.Reader NakenVerif.Generated

/-! ### (a) the reader: tokens_get_char / tokens_unget_char / tokens_get / tokens_push -/

/-- a sequence of `k` calls of tokens_get (each with its own buffer of `cfg.len` bytes);
    `some f` = a call faulted -/
def readTokens (cfg : Cfg) (env : MacroEnv) (fuel n : Nat) : Nat → RState → Option Fault
  | 0, _ => none
  | k + 1, r =>
    match tokensGet cfg env fuel n r with
    | .fault f => some f
    | .tok _ _ r' => readTokens cfg env fuel n k r'
    | .exit => none
    | .fuel => none

/-- No source text, macro table or number of calls makes the reader index outside `token[]`,
    `unget[]`, `unget_stack[]`, `macros.stack[]`, `params[]`, `params_ptr[]` or the parameter
    arena. -/
theorem reader_never_faults (cfg : Cfg) (hl : 1 ≤ cfg.len) (env : MacroEnv) (fuel n : Nat) :
    ∀ (k : Nat) (src : List Nat), readTokens cfg env fuel n k (RState.init src) = none := by
  have h : ∀ (k : Nat) (r : RState), Rest r → readTokens cfg env fuel n k r = none := by
    intro k
    induction k with
    | zero => intro r _; rfl
    | succ k ih =>
      intro r hr
      unfold readTokens
      have := tokensGet_ok cfg env fuel hl n r hr
      cases hg : tokensGet cfg env fuel n r with
      | fault f => simp only [hg, GotOk] at this
      | tok tt text r' => simp only [hg, GotOk] at this; exact ih r' this.1
      | exit => rfl
      | fuel => rfl
  intro k src
  exact h k _ (Rest_init src)

example : readTokens { len := 8 } (fun _ => none) 1000 10 5
    (RState.init [97, 98, 99, 100, 101, 102, 103, 104, 105, 106, 32, 49, 46, 120, 10]) = none := by
  decide +kernel

/-- one call, from any state the reader can be in between two calls -/
theorem tokens_get_never_faults (cfg : Cfg) (hl : 1 ≤ cfg.len) (env : MacroEnv) (fuel n : Nat)
    (r : RState) (hr : Rest r) (f : Fault) : tokensGet cfg env fuel n r ≠ .fault f := by
  have := tokensGet_ok cfg env fuel hl n r hr
  intro h
  simp only [h, GotOk] at this

/-- A token that is delivered is shorter than the buffer it was written to (the terminating NUL
    fits), the reader is again at rest, and the token can be pushed back. -/
theorem token_fits_buffer (cfg : Cfg) (hl : 1 ≤ cfg.len) (hp : cfg.len ≤ pushbackLen) (env : MacroEnv)
    (fuel n : Nat) (r : RState) (hr : Rest r) (tt : TType) (text : List Nat) (r' : RState)
    (h : tokensGet cfg env fuel n r = .tok tt text r') :
    text.length < cfg.len ∧ Rest r' ∧ tokensPush text = none := by
  have := tokensGet_ok cfg env fuel hl n r hr
  simp only [h, GotOk] at this
  exact ⟨this.2, this.1, tokensPush_ok cfg text this.2 hp⟩

example : (match tokensGet { len := 512 } (fun _ => none) 100 3 (RState.init [97, 98, 32]) with
    | .tok tt text _ => decide (tt = .string ∧ text = [97, 98])
    | _ => false) = true := by decide +kernel

/-- `unget[512]` is never close to full: between calls at most MAX_NESTED_MACROS + 2 characters
    are in it (one hidden per active macro, two visible). -/
theorem unget_bounded (r : RState) (h : Rest r) :
    r.unget.length ≤ maxNestedMacros + 2 ∧ maxNestedMacros + 2 < ungetLen := by
  have := h.rinv.unget_le
  have := h.ab
  exact ⟨by omega, by decide⟩

/-- `unget_stack[129]` / `macros.stack[128]`: the marks are one more than the active macros, and
    there are never more than MAX_NESTED_MACROS of those. -/
theorem unget_stack_bounded (r : RState) (h : Rest r) :
    r.marks.length = r.stack.length + 1 ∧ r.stack.length ≤ maxNestedMacros ∧
    r.marks.length ≤ ungetStackLen ∧ r.stack.length ≤ macroStackLen := by
  have h1 := h.rinv.marks_len
  have h2 := h.rinv.stack_len
  have hc := caps_fit
  exact ⟨h1, h2, by omega, by omega⟩

/-- The 129th nested macro is an error ("defines heap stack exhausted", error_count + 1), not a
    129th entry of the stacks. -/
theorem macro_nesting_too_deep_is_error (r : RState) (f : Frame) (h : r.stack.length = maxNestedMacros) :
    enterMacro r f = .ok (false, { r with errors := r.errors + 1 }) := by
  simp [enterMacro, pushDefine, h]

example : enterMacro { (RState.init []) with stack := List.replicate 128 ⟨[], none⟩ } ⟨[65], none⟩ =
    .ok (false, { (RState.init []) with stack := List.replicate 128 ⟨[], none⟩, errors := 1 }) :=
  macro_nesting_too_deep_is_error _ _ (by decide +kernel)

/-- A token that has reached `len - 2` characters ends there with the diagnostic
    "Token too long" (error_count + 1); nothing is written beyond it. -/
theorem token_too_long_is_error (cfg : Cfg) (s : TState) (hpc : s.pc = .main)
    (h : s.tok.length + 2 ≥ cfg.len) :
    tokStep cfg s = .done { r := { s.r with errors := s.r.errors + 1 }, tok := s.tok, tt := s.tt,
                            kind := .brk, exited := false, reads := s.reads } := by
  simp [tokStep, hpc, h, TState.brk]

/-- an identifier of 600 characters read into a buffer of 512: error, 510 characters kept -/
example : (match tokLoop { len := 512 } 2000 (RState.init (List.replicate 600 97)) with
    | .done raw => decide (raw.r.errors = 1 ∧ raw.tok.length = 510)
    | _ => false) = true := by decide +kernel

/-! ### termination of the reader -/

/-- tokens_get_char consumes: a delivered character (anything but EOF) strictly decreases the
    number of characters the reader can still deliver; a call never increases it. -/
theorem get_char_consumes (r : RState) (h : RInv r) :
    getChar r = .exit1 ∨ ∃ c r', getChar r = .ok (c, r') ∧ avail r' ≤ avail r ∧ (c ≠ EOFc → avail r' < avail r) := by
  rcases getChar_spec h with he | ⟨c, r', hg, hp⟩
  · exact Or.inl he
  · exact Or.inr ⟨c, r', hg, hp.avail_le, hp.avail_lt⟩

/-- The accumulation loop of tokens_get stops: every pass decreases the measure
    3 * (characters available) + 3 * (room left in the buffer) + (weight of the inner loop), so
    a token is complete after at most 3 * avail + 3 * len + 2 passes — linear in what is left of
    the input. -/
theorem token_loop_terminates (cfg : Cfg) (hl : 1 ≤ cfg.len) (r : RState) (hr : Rest r) (fuel : Nat)
    (hf : 3 * avail r + 3 * cfg.len < fuel) : tokLoop cfg fuel r ≠ .fuel := by
  unfold tokLoop
  apply run_terminates (tokStep_ok cfg) (tokStep_decreases cfg) fuel _ (tinv_start cfg r hr.rinv hr.ab hl)
  simp only [tokMeasure, TState.start, List.length_nil, pcWeight_main]
  omega

example : tokLoop { len := 16 } (3 * 4 + 3 * 16 + 1) (RState.init [47, 42, 42, 47]) ≠ .fuel :=
  token_loop_terminates _ (by decide) _ (Rest_init _) _ (by decide)

/-- Without a character of the source in between, macro entries cannot follow each other for
    ever: each pass of the loop of tokens_get that is followed by another one decreases
    `budget`, which starts below (source length + 1) * (MAX_MACRO_EXPANSIONS + 2).
    Partial: `PassOk` is proved for tokens_get_char (`GetPost.src_prog`) and holds trivially for
    tokens_unget_char; that the whole accumulation loop, being composed of these two, satisfies
    it is by inspection, not by a Lean proof. -/
theorem expansion_budget_partial (src expand src' expand' : Nat) (he : expand ≤ maxMacroExpansions)
    (hp : Nest.PassOk src expand src' expand') (hgo : ¬ (expand' + 1 > maxMacroExpansions)) :
    Nest.budget src' (expand' + 1) < Nest.budget src expand :=
  Nest.budget_decreases src expand src' expand' he hp hgo

example : Nest.budget 10 1 < Nest.budget 10 0 :=
  expansion_budget_partial 10 0 10 0 (by decide) (Or.inr ⟨rfl, rfl⟩) (by decide)

/-! ### (b) macro definition and expansion buffers -/

/-- macros_parse_token never writes outside `name[128]`, whatever follows `.define` / `.macro`. -/
theorem macro_name_never_faults (isDefine : Bool) (fuel : Nat) (r : RState) (hr : Rest r) (f : Fault) :
    parseName isDefine fuel r ≠ .fault f :=
  run_no_fault (nameStep_ok isDefine) fuel _ ⟨hr.rinv, hr.ab, by show 0 + 1 < mpNameArg; decide⟩ f

example : (match parseName true 500 (RState.init (List.replicate 300 97)) with
    | .done res => decide (res.name.length = 127)
    | _ => false) = true := by decide +kernel

/-- one more parameter name never overruns `params[1024]`; too many or too long names are errors -/
theorem macro_params_never_fault (params : List Nat) (count : Nat) (tok : List Nat) (f : Fault) :
    addParam params count tok ≠ .fault f := addParam_no_fault params count tok f

theorem macro_params_too_long_is_error (params : List Nat) (count : Nat) (tok : List Nat)
    (h : params.length + tok.length + 2 > mpParamsCheck) : addParam params count tok = .error :=
  addParam_too_long params count tok h

example : addParam (List.replicate 1000 97) 3 (List.replicate 30 98) = .error := by decide +kernel

/-- The body loop of macros_parse never writes outside `macro[MAX_MACRO_LEN]`, for every
    character stream, parameter list and kind of definition; a finished body leaves room for the
    closing blank and NUL. -/
theorem macro_body_never_faults (isDefine : Bool) (params : List Nat) (fuel : Nat) (r : RState)
    (hr : RInv r) :
    (∀ f, parseBody isDefine params fuel r ≠ .fault f) ∧
    (∀ res, parseBody isDefine params fuel r = .done res → res.how = .body → finishBody res ≠ none) := by
  have hinv : BInv { r := r, pc := .body, buf := [], nameTest := none, inWord := false } :=
    ⟨hr, by show 0 + mpMacroSlack ≤ maxMacroLen; decide, (fun nt h => by cases h), (fun _ => rfl),
      (fun l h => by cases h)⟩
  refine ⟨fun f => run_no_fault (bodyStep_ok isDefine params) fuel _ hinv f, ?_⟩
  intro res hres hhow
  have hp := run_done_post (bodyStep_ok isDefine params) fuel _ hinv res hres
  have := hp.room hhow
  simp [finishBody, this]

/-- the store that makes the body reach MAX_MACRO_LEN - 2 characters ends the definition with the
    diagnostic "macro longer than ..." -/
theorem macro_body_too_long_is_error (t : BState) (ch : Ch)
    (hnb : ¬ (ch = 42 ∧ t.buf.length > 0 ∧ t.buf.getLast? = some 47))
    (hfit : t.buf.length < mpMacroLen) (hlong : t.buf.length + 1 + mpMacroSlack ≥ maxMacroLen) :
    bodyPut t ch = .done { r := t.r, buf := t.buf ++ [toByte ch], wptr := t.buf.length + 1, how := .error } := by
  simp [bodyPut, hnb, bput, hfit, BState.fin, hlong]

/-- a .define of 3000 characters: error, nothing written past macro[1023] -/
example : (match parseBody true [] 4000 (RState.init (List.replicate 3000 49)) with
    | .done res => decide (res.how = .error ∧ res.buf.length = 1022)
    | _ => false) = true := by decide +kernel

/-- Reading the arguments of an invocation never writes outside `params[1024]` / `params_ptr[256]`,
    and substituting them never writes outside the parameter arena. -/
theorem macro_args_never_fault (fuel : Nat) (r : RState) (hr : RInv r) (define : List Nat) (pc : Nat) :
    (∀ f, expArgs fuel r ≠ .fault f) ∧
    (∀ res, expArgs fuel r = .done res → ∀ f, expFinish res define pc ≠ .fault f) := by
  refine ⟨fun f => run_no_fault (expStep_ok (above r)) fuel _ (einv_start r hr) f, ?_⟩
  intro res hres f
  have hp := run_done_post (expStep_ok (above r)) fuel _ (einv_start r hr) res hres
  exact expFinish_no_fault (above r) res define pc hp f

/-- arguments that fill `params[]` to within 3 bytes, or a 256th argument, end the invocation
    with the diagnostic "Macro parameters too long" -/
theorem macro_args_too_long_is_error (s : EState) (ch : Ch) (h13 : ch ≠ 13)
    (h : s.params.length + exParamsSlack ≥ exParamsLen ∨ s.ptrs.length - 1 ≥ exCountMax) :
    argsBody s ch = .done { r := s.r, params := s.params, ptrs := s.ptrs, how := .error } := by
  simp [argsBody, h13, h, EState.fin]

/-- 1400 characters of arguments: error -/
example : (match expArgs 3000 (RState.init (40 :: List.replicate 1400 49)) with
    | .done res => decide (res.how = .error ∧ res.params.length = 1021)
    | _ => false) = true := by decide +kernel

/-! ### (c) nesting counters -/

/-- However `.if`, `.include` and `.repeat` are combined, AsmContext::assemble() is never active
    more than 2 + MAX_NESTED_IFS + 32 times. -/
theorem assemble_depth_bounded (es : List Nest.Ev) :
    ∀ t ∈ Nest.runEvents Nest.St.init es, t.frames ≤ 2 + maxNestedIfs + includeDepthMax :=
  Nest.frames_bounded es

example : (Nest.runEvents Nest.St.init (List.replicate 500 Nest.Ev.ifTaken)).length = 129 := by
  decide +kernel
/-- the same through the SECOND recursion site (`.if 0` / `.else`), and for any mixture of the two -/
example : (Nest.runEvents Nest.St.init (List.replicate 500 Nest.Ev.ifElse)).length = 129 := by
  decide +kernel
example : (Nest.runEvents Nest.St.init
    ((List.replicate 100 [Nest.Ev.ifTaken, Nest.Ev.ifElse, Nest.Ev.ifSkipped]).flatten)).length = 192 := by
  decide +kernel
example : Nest.maxFrames Nest.St.init (List.replicate 50000 Nest.Ev.ifElse) = 129 := by decide +kernel

/-- the (MAX_NESTED_IFS + 1)-th open conditional is an error whichever way it would be entered: taken branch,
    `.else` branch of a false condition, or a false condition that is only skipped -/
theorem too_many_conditionals_is_error (s : Nest.St) (h : s.ifs = maxNestedIfs) :
    Nest.step s .ifTaken = none ∧ Nest.step s .ifElse = none ∧ Nest.step s .ifSkipped = none :=
  Nest.too_many_ifs_is_error s h

theorem too_many_includes_is_error (s : Nest.St) (h : s.incs = includeDepthMax) :
    Nest.step s .incOpen = none := Nest.too_many_includes_is_error s h

/-- the frame counter of eval_expression never exceeds MAX_EXPRESSION_DEPTH, for every sequence
    of calls and returns -/
theorem expression_depth_bounded (es : List Nest.XEv) :
    ∀ t ∈ Nest.xrun 0 es, t ≤ maxExpressionDepth :=
  Nest.xrun_bounded es 0 (by decide)

example : (Nest.xrun 0 (List.replicate 2000 Nest.XEv.enter)).getLast? = some 512 := by decide +kernel

theorem ifdef_parens_bounded (p p' : Nat) (h : p ≤ maxIfdefParens) (hs : Nest.pstep p = some p') :
    p' ≤ maxIfdefParens := Nest.pstep_bounded p p' h hs

/-! ### exit status -/

/-- main() returns EXIT_SUCCESS or EXIT_FAILURE -/
theorem exit_status_01 (errorFlag : Int) : Nest.mainStatus errorFlag = 0 ∨ Nest.mainStatus errorFlag = 1 :=
  Nest.mainStatus_01 errorFlag

example : Nest.mainStatus (-1) = 1 := by decide

end NakenVerif.C16
