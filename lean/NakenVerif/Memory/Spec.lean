/-
Specification of the memory image: a partial map from 32-bit addresses to bytes (plus the per-address marker
that `Memory::write` / `write_debug` record), and the bounds `low`/`high` = minimum / maximum of the addresses
that received a byte.  Written from the role the image plays in the property statements (C03, C05, C19), not
from Memory.cpp: there are no pages here.
-/
namespace NakenVerif.Memory.Spec

/-- the state-changing operations of the image -/
inductive Op where
  /-- store a byte (`write8`) -/
  | w8 (a : BitVec 32) (d : BitVec 8)
  /-- store a byte and its marker (`write`) -/
  | wd (a : BitVec 32) (d : BitVec 8) (line : BitVec 32)
  /-- store a marker only (`write_debug`) -/
  | wg (a : BitVec 32) (line : BitVec 32)
  deriving Repr, DecidableEq

structure Image where
  cells : BitVec 32 → Option (BitVec 8)
  lines : BitVec 32 → Option (BitVec 32)
  low : BitVec 32
  high : BitVec 32

def umin (x y : BitVec 32) : BitVec 32 := if y < x then y else x
def umax (x y : BitVec 32) : BitVec 32 := if x < y then y else x

/-- nothing stored yet: `low` is the largest address, `high` the smallest, so that the first store sets both -/
def Image.empty : Image :=
  { cells := fun _ => none, lines := fun _ => none, low := 0xffffffff#32, high := 0#32 }

def Image.store (s : Image) (a : BitVec 32) (d : BitVec 8) : Image :=
  { s with cells := fun x => if x = a then some d else s.cells x, low := umin s.low a, high := umax s.high a }

def Image.mark (s : Image) (a : BitVec 32) (line : BitVec 32) : Image :=
  { s with lines := fun x => if x = a then some line else s.lines x }

def Image.apply (s : Image) : Op → Image
  | .w8 a d => s.store a d
  | .wd a d l => (s.store a d).mark a l
  | .wg a l => s.mark a l

def run (ops : List Op) : Image := ops.foldl Image.apply Image.empty

/-- the addresses that received a byte, in order -/
def written : List Op → List (BitVec 32)
  | [] => []
  | .w8 a _ :: ops => a :: written ops
  | .wd a _ _ :: ops => a :: written ops
  | .wg _ _ :: ops => written ops

/-- the byte an address holds after the operations: that of the last store to it -/
def lastStore (a : BitVec 32) : List Op → Option (BitVec 8)
  | [] => none
  | op :: ops =>
    match lastStore a ops with
    | some d => some d
    | none =>
      match op with
      | .w8 a' d => if a = a' then some d else none
      | .wd a' d _ => if a = a' then some d else none
      | .wg _ _ => none

end NakenVerif.Memory.Spec
