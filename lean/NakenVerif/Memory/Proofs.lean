/-
Lemmas about the paged memory model: the write loops always stop, every offset is inside the page arrays,
reads after writes, the frame property, low/high, 16/32-bit round trips.  All hold for an arbitrary page list
(no well-formedness invariant is needed: reads and writes run the same search with the same page test).
-/
import NakenVerif.Memory.Impl
import NakenVerif.Memory.Spec
import Std.Tactic.BVDecide

namespace NakenVerif.Memory
open Std

theorem pageSize32_val : pageSize32 = 65536#32 := rfl
theorem pageSize64_val : pageSize64 = 65536#64 := rfl
theorem dlEmpty_val : dlEmpty = -1 := by decide

/-! ### the page test -/

/-- the page made for an address passes the page test for that address: for EVERY 32-bit address, including the last
page `0xffff0000` (this is where the 64-bit cast of the test is needed) -/
theorem new_contains (a : BitVec 32) : (Page.new a).contains a = true := by
  simp only [Page.contains, Page.new, pageSize32_val, pageSize64_val, Bool.and_eq_true]
  constructor <;> bv_decide

theorem contains_iff (p : Page) (a : BitVec 32) :
    p.contains a = true ↔ p.address ≤ a ∧ a.zeroExtend 64 < p.address.zeroExtend 64 + 65536#64 := by
  unfold Page.contains
  rw [Bool.and_eq_true, decide_eq_true_eq, decide_eq_true_eq, pageSize64_val]

/-- array bound of `bin[offset]` / `debug_line[offset]` -/
theorem offset_in_page (p : Page) (a : BitVec 32) (h : p.contains a = true) : a - p.address < pageSize32 := by
  rw [contains_iff] at h
  obtain ⟨h1, h2⟩ := h
  rw [pageSize32_val]
  generalize p.address = base at h1 h2
  bv_decide

theorem sub_right_inj (x a b : BitVec 32) : x - b = a - b ↔ x = a := by
  constructor
  · intro h; bv_decide
  · intro h; rw [h]

/-! ### the write loop stops -/

theorem modifyPage_isSome (a : BitVec 32) (f : Page → Page) (ps : List Page) :
    ∃ ps', modifyPage a f ps = some ps' := by
  induction ps with
  | nil => exact ⟨[f (Page.new a)], by simp [modifyPage, new_contains]⟩
  | cons p ps ih =>
    obtain ⟨ps', h⟩ := ih
    by_cases hc : p.contains a = true
    · exact ⟨f p :: ps, by simp [modifyPage, hc]⟩
    · exact ⟨p :: ps', by simp [modifyPage, hc, h]⟩

/-- the list of pages grows by at most one page per write -/
theorem modifyPage_length (a : BitVec 32) (f : Page → Page) (ps ps' : List Page)
    (h : modifyPage a f ps = some ps') : ps'.length ≤ ps.length + 1 := by
  induction ps generalizing ps' with
  | nil =>
    simp only [modifyPage, new_contains, if_true, Option.some.injEq] at h
    subst h; simp
  | cons p ps ih =>
    by_cases hc : p.contains a = true
    · simp only [modifyPage, hc, if_true, Option.some.injEq] at h
      subst h; simp
    · obtain ⟨q, hq⟩ := modifyPage_isSome a f ps
      have hc' : p.contains a = false := by simpa using hc
      simp [modifyPage, hc', hq] at h
      subst h
      have := ih q hq
      simp only [List.length_cons]; omega

/-! ### generic read-after-modify -/

/-- a read through the page search with a per-page accessor -/
def readWith {β : Type} (rd : Page → BitVec 32 → β) (dflt : β) (ps : List Page) (x : BitVec 32) : β :=
  match findPage x ps with
  | some p => rd p (x - p.address)
  | none => dflt

theorem readWith_nil {β : Type} (rd : Page → BitVec 32 → β) (dflt : β) (x : BitVec 32) :
    readWith rd dflt [] x = dflt := rfl

theorem readWith_cons {β : Type} (rd : Page → BitVec 32 → β) (dflt : β) (p : Page) (ps : List Page) (x : BitVec 32) :
    readWith rd dflt (p :: ps) x = if p.contains x then rd p (x - p.address) else readWith rd dflt ps x := by
  simp only [readWith, findPage]
  by_cases h : p.contains x = true
  · simp [h]
  · have h' : p.contains x = false := by simpa using h
    simp [h']

theorem contains_congr (p q : Page) (h : q.address = p.address) (x : BitVec 32) : q.contains x = p.contains x := by
  simp [Page.contains, h]

/-- `f` keeps the page address, updates the accessor at the offset of `a` to `v` and nothing else; the accessor of a
fresh page is `dflt`.  Then reading after the modification gives `v` at `a` and the old value elsewhere. -/
theorem readWith_modify {β : Type} (rd : Page → BitVec 32 → β) (dflt v : β) (a : BitVec 32) (f : Page → Page)
    (hf : ∀ p, (f p).address = p.address)
    (hupd : ∀ p off, rd (f p) off = if off = a - p.address then v else rd p off)
    (hnew : ∀ off, rd (Page.new a) off = dflt)
    (ps ps' : List Page) (h : modifyPage a f ps = some ps') (x : BitVec 32) :
    readWith rd dflt ps' x = if x = a then v else readWith rd dflt ps x := by
  induction ps generalizing ps' with
  | nil =>
    simp only [modifyPage, new_contains, if_true, Option.some.injEq] at h
    subst h
    simp only [readWith_cons, readWith_nil, contains_congr _ _ (hf _), hupd, hf, sub_right_inj, hnew]
    by_cases hx : x = a
    · simp [hx, new_contains]
    · simp [hx]
  | cons p ps ih =>
    by_cases hc : p.contains a = true
    · simp only [modifyPage, hc, if_true, Option.some.injEq] at h
      subst h
      simp only [readWith_cons, contains_congr _ _ (hf _), hupd, hf, sub_right_inj]
      by_cases hx : x = a
      · simp [hx, hc]
      · simp [hx]
    · obtain ⟨q, hq⟩ := modifyPage_isSome a f ps
      have hc' : p.contains a = false := by simpa using hc
      simp [modifyPage, hc', hq] at h
      subst h
      simp only [readWith_cons, ih q hq]
      by_cases hx : x = a
      · subst hx; simp [hc']
      · simp [hx]

/-- `f` keeps the page address and does not change the accessor: reads are unchanged -/
theorem readWith_modify_frame {β : Type} (rd : Page → BitVec 32 → β) (dflt : β) (a : BitVec 32) (f : Page → Page)
    (hf : ∀ p, (f p).address = p.address)
    (hsame : ∀ p off, rd (f p) off = rd p off)
    (hnew : ∀ off, rd (Page.new a) off = dflt)
    (ps ps' : List Page) (h : modifyPage a f ps = some ps') (x : BitVec 32) :
    readWith rd dflt ps' x = readWith rd dflt ps x := by
  induction ps generalizing ps' with
  | nil =>
    simp only [modifyPage, new_contains, if_true, Option.some.injEq] at h
    subst h
    simp [readWith_cons, readWith_nil, hsame, hnew]
  | cons p ps ih =>
    by_cases hc : p.contains a = true
    · simp only [modifyPage, hc, if_true, Option.some.injEq] at h
      subst h
      simp only [readWith_cons, contains_congr _ _ (hf _), hsame, hf]
    · obtain ⟨q, hq⟩ := modifyPage_isSome a f ps
      have hc' : p.contains a = false := by simpa using hc
      simp [modifyPage, hc', hq] at h
      subst h
      simp only [readWith_cons, ih q hq]

/-! ### page updates -/

@[simp] theorem touch_address (p : Page) (o : BitVec 32) : (p.touch o).address = p.address := by
  rfl
@[simp] theorem touch_bin (p : Page) (o : BitVec 32) : (p.touch o).bin = p.bin := by
  rfl
@[simp] theorem touch_debugLine (p : Page) (o : BitVec 32) : (p.touch o).debugLine = p.debugLine := by
  rfl
@[simp] theorem setData_address (p : Page) (a : BitVec 32) (d : Byte) : (p.setData a d).address = p.address := by
  simp [Page.setData]
@[simp] theorem setDebug_address (p : Page) (a l : BitVec 32) : (p.setDebug a l).address = p.address := by
  simp [Page.setDebug]
@[simp] theorem setData_bin (p : Page) (a : BitVec 32) (d : Byte) :
    (p.setData a d).bin = p.bin.insert (a - p.address) d := by simp [Page.setData]
@[simp] theorem setData_debugLine (p : Page) (a : BitVec 32) (d : Byte) : (p.setData a d).debugLine = p.debugLine := by
  simp [Page.setData]
@[simp] theorem setDebug_bin (p : Page) (a l : BitVec 32) : (p.setDebug a l).bin = p.bin := by simp [Page.setDebug]
@[simp] theorem setDebug_debugLine (p : Page) (a l : BitVec 32) :
    (p.setDebug a l).debugLine = p.debugLine.insert (a - p.address) l := by simp [Page.setDebug]

theorem getElem?_insert_ite {β : Type} (m : HashMap (BitVec 32) β) (k off : BitVec 32) (v : β) :
    (m.insert k v)[off]? = if off = k then some v else m[off]? := by
  rw [HashMap.getElem?_insert]
  by_cases h : off = k
  · subst h; simp
  · have : (k == off) = false := by rw [beq_eq_false_iff_ne]; exact fun e => h e.symm
    simp [h, this]

theorem new_bin_get (a off : BitVec 32) : (Page.new a).bin[off]? = none := HashMap.getElem?_empty
theorem new_debugLine_get (a off : BitVec 32) : (Page.new a).debugLine[off]? = none := HashMap.getElem?_empty

/-! ### views as `readWith` -/

theorem abs_eq (m : Memory) (x : BitVec 32) : abs m x = readWith (fun p o => p.bin[o]?) none m.pages x := rfl
theorem absDebug_eq (m : Memory) (x : BitVec 32) :
    absDebug m x = readWith (fun p o => p.debugLine[o]?) none m.pages x := rfl
theorem read8_eq (m : Memory) (x : BitVec 32) : read8 m x = readWith (fun p o => p.bin.getD o 0) 0 m.pages x := rfl
theorem readDebug_eq (m : Memory) (x : BitVec 32) :
    readDebug m x = readWith (fun p o => p.debugLine.getD o dlEmpty) (-1) m.pages x := rfl

/-- `read8` is the abstract cell, 0 where nothing was stored -/
theorem read8_abs (m : Memory) (x : BitVec 32) : read8 m x = (abs m x).getD 0 := by
  unfold read8 abs
  split <;> simp [HashMap.getD_eq_getD_getElem?]

/-- `read_debug` is the abstract marker, -1 (`DL_EMPTY`) where nothing was stored -/
theorem readDebug_absDebug (m : Memory) (x : BitVec 32) : readDebug m x = (absDebug m x).getD (-1) := by
  unfold readDebug absDebug
  split <;> simp [HashMap.getD_eq_getD_getElem?, dlEmpty_val]

/-! ### write8 / write / write_debug -/

theorem write8_pages (m : Memory) (a : BitVec 32) (d : Byte) :
    ∃ ps, modifyPage a (fun p => p.setData a d) m.pages = some ps ∧ write8 m a d = { m.bump a with pages := ps } := by
  obtain ⟨ps, h⟩ := modifyPage_isSome a (fun p => p.setData a d) m.pages
  exact ⟨ps, h, by simp [write8, h, Memory.bump]⟩

theorem write_pages (m : Memory) (a : BitVec 32) (d : Byte) (l : BitVec 32) :
    ∃ ps, modifyPage a (fun p => (p.setData a d).setDebug a l) m.pages = some ps ∧
      write m a d l = { m.bump a with pages := ps } := by
  obtain ⟨ps, h⟩ := modifyPage_isSome a (fun p => (p.setData a d).setDebug a l) m.pages
  exact ⟨ps, h, by simp [write, h, Memory.bump]⟩

theorem writeDebug_pages (m : Memory) (a l : BitVec 32) :
    ∃ ps, modifyPage a (fun p => p.setDebug a l) m.pages = some ps ∧ writeDebug m a l = { m with pages := ps } := by
  obtain ⟨ps, h⟩ := modifyPage_isSome a (fun p => p.setDebug a l) m.pages
  exact ⟨ps, h, by simp [writeDebug, h]⟩

theorem abs_write8 (m : Memory) (a : BitVec 32) (d : Byte) (x : BitVec 32) :
    abs (write8 m a d) x = if x = a then some d else abs m x := by
  obtain ⟨ps, h, e⟩ := write8_pages m a d
  rw [e, abs_eq, abs_eq]
  refine readWith_modify _ none (some d) a _ (by simp) ?_ (new_bin_get a) m.pages ps h x
  intro p off
  simp only [setData_bin, getElem?_insert_ite]

theorem absDebug_write8 (m : Memory) (a : BitVec 32) (d : Byte) (x : BitVec 32) :
    absDebug (write8 m a d) x = absDebug m x := by
  obtain ⟨ps, h, e⟩ := write8_pages m a d
  rw [e, absDebug_eq, absDebug_eq]
  exact readWith_modify_frame _ none a _ (by simp) (by simp) (new_debugLine_get a) m.pages ps h x

theorem abs_write (m : Memory) (a : BitVec 32) (d : Byte) (l : BitVec 32) (x : BitVec 32) :
    abs (write m a d l) x = if x = a then some d else abs m x := by
  obtain ⟨ps, h, e⟩ := write_pages m a d l
  rw [e, abs_eq, abs_eq]
  refine readWith_modify _ none (some d) a _ (by simp) ?_ (new_bin_get a) m.pages ps h x
  intro p off
  simp only [setDebug_bin, setData_bin, getElem?_insert_ite]

theorem absDebug_write (m : Memory) (a : BitVec 32) (d : Byte) (l : BitVec 32) (x : BitVec 32) :
    absDebug (write m a d l) x = if x = a then some l else absDebug m x := by
  obtain ⟨ps, h, e⟩ := write_pages m a d l
  rw [e, absDebug_eq, absDebug_eq]
  refine readWith_modify _ none (some l) a _ (by simp) ?_ (new_debugLine_get a) m.pages ps h x
  intro p off
  simp only [setDebug_debugLine, setData_debugLine, setData_address, getElem?_insert_ite]

theorem abs_writeDebug (m : Memory) (a l : BitVec 32) (x : BitVec 32) : abs (writeDebug m a l) x = abs m x := by
  obtain ⟨ps, h, e⟩ := writeDebug_pages m a l
  rw [e, abs_eq, abs_eq]
  exact readWith_modify_frame _ none a _ (by simp) (by simp) (new_bin_get a) m.pages ps h x

theorem absDebug_writeDebug (m : Memory) (a l : BitVec 32) (x : BitVec 32) :
    absDebug (writeDebug m a l) x = if x = a then some l else absDebug m x := by
  obtain ⟨ps, h, e⟩ := writeDebug_pages m a l
  rw [e, absDebug_eq, absDebug_eq]
  refine readWith_modify _ none (some l) a _ (by simp) ?_ (new_debugLine_get a) m.pages ps h x
  intro p off
  simp only [setDebug_debugLine, getElem?_insert_ite]

/-! ### read8 after writes, frame -/

theorem read8_write8 (m : Memory) (a : BitVec 32) (d : Byte) (x : BitVec 32) :
    read8 (write8 m a d) x = if x = a then d else read8 m x := by
  rw [read8_abs, read8_abs, abs_write8]; split <;> simp

theorem read8_write (m : Memory) (a : BitVec 32) (d : Byte) (l : BitVec 32) (x : BitVec 32) :
    read8 (write m a d l) x = if x = a then d else read8 m x := by
  rw [read8_abs, read8_abs, abs_write]; split <;> simp

theorem read8_writeDebug (m : Memory) (a l : BitVec 32) (x : BitVec 32) : read8 (writeDebug m a l) x = read8 m x := by
  rw [read8_abs, read8_abs, abs_writeDebug]

theorem readDebug_write (m : Memory) (a : BitVec 32) (d : Byte) (l : BitVec 32) (x : BitVec 32) :
    readDebug (write m a d l) x = if x = a then l else readDebug m x := by
  rw [readDebug_absDebug, readDebug_absDebug, absDebug_write]; split <;> simp

theorem readDebug_write8 (m : Memory) (a : BitVec 32) (d : Byte) (x : BitVec 32) :
    readDebug (write8 m a d) x = readDebug m x := by
  rw [readDebug_absDebug, readDebug_absDebug, absDebug_write8]

theorem readDebug_writeDebug (m : Memory) (a l : BitVec 32) (x : BitVec 32) :
    readDebug (writeDebug m a l) x = if x = a then l else readDebug m x := by
  rw [readDebug_absDebug, readDebug_absDebug, absDebug_writeDebug]; split <;> simp

/-! ### low / high / endian -/

theorem write8_low (m : Memory) (a : BitVec 32) (d : Byte) :
    (write8 m a d).lowAddress = if m.lowAddress > a then a else m.lowAddress := by
  obtain ⟨ps, _, e⟩ := write8_pages m a d; rw [e]; rfl
theorem write8_high (m : Memory) (a : BitVec 32) (d : Byte) :
    (write8 m a d).highAddress = if m.highAddress < a then a else m.highAddress := by
  obtain ⟨ps, _, e⟩ := write8_pages m a d; rw [e]; rfl
theorem write_low (m : Memory) (a : BitVec 32) (d : Byte) (l : BitVec 32) :
    (write m a d l).lowAddress = if m.lowAddress > a then a else m.lowAddress := by
  obtain ⟨ps, _, e⟩ := write_pages m a d l; rw [e]; rfl
theorem write_high (m : Memory) (a : BitVec 32) (d : Byte) (l : BitVec 32) :
    (write m a d l).highAddress = if m.highAddress < a then a else m.highAddress := by
  obtain ⟨ps, _, e⟩ := write_pages m a d l; rw [e]; rfl
theorem writeDebug_low (m : Memory) (a l : BitVec 32) : (writeDebug m a l).lowAddress = m.lowAddress := by
  obtain ⟨ps, _, e⟩ := writeDebug_pages m a l; rw [e]
theorem writeDebug_high (m : Memory) (a l : BitVec 32) : (writeDebug m a l).highAddress = m.highAddress := by
  obtain ⟨ps, _, e⟩ := writeDebug_pages m a l; rw [e]
@[simp] theorem write8_endian (m : Memory) (a : BitVec 32) (d : Byte) : (write8 m a d).bigEndian = m.bigEndian := by
  obtain ⟨ps, _, e⟩ := write8_pages m a d; rw [e]; rfl
@[simp] theorem write_endian (m : Memory) (a : BitVec 32) (d : Byte) (l : BitVec 32) :
    (write m a d l).bigEndian = m.bigEndian := by
  obtain ⟨ps, _, e⟩ := write_pages m a d l; rw [e]; rfl
@[simp] theorem writeDebug_endian (m : Memory) (a l : BitVec 32) : (writeDebug m a l).bigEndian = m.bigEndian := by
  obtain ⟨ps, _, e⟩ := writeDebug_pages m a l; rw [e]

/-! ### 16/32-bit accesses -/

theorem add_zero' (a : BitVec 32) : a + 0 = a := by simp

/-- `read16 ∘ write16` in both byte orders; `address + 1` wraps at 2^32 in both, so this also covers `a = 0xffffffff` -/
theorem read16_write16 (m : Memory) (a : BitVec 32) (v : BitVec 16) : read16 (write16 m a v) a = v := by
  have h2 : a ≠ a + 1 := by bv_decide
  unfold read16 write16
  cases hb : m.bigEndian <;>
    simp only [hb, Bool.not_false, Bool.not_true, if_true, if_false, write8_endian, read8_write8, h2,
      Bool.false_eq_true] <;>
    bv_decide

theorem read32_write32 (m : Memory) (a : BitVec 32) (v : BitVec 32) : read32 (write32 m a v) a = v := by
  have h01 : a ≠ a + 1 := by bv_decide
  have h02 : a ≠ a + 2 := by bv_decide
  have h03 : a ≠ a + 3 := by bv_decide
  have h12 : a + 1 ≠ a + 2 := by bv_decide
  have h13 : a + 1 ≠ a + 3 := by bv_decide
  have h23 : a + 2 ≠ a + 3 := by bv_decide
  unfold read32 write32
  cases hb : m.bigEndian <;>
    simp only [hb, Bool.not_false, Bool.not_true, if_true, if_false, write8_endian, read8_write8, h01, h02, h03, h12,
      h13, h23, Bool.false_eq_true] <;>
    bv_decide

/-- frame of `write16`: only `a` and `a + 1` change -/
theorem read8_write16_frame (m : Memory) (a : BitVec 32) (v : BitVec 16) (x : BitVec 32) (h0 : x ≠ a) (h1 : x ≠ a + 1) :
    read8 (write16 m a v) x = read8 m x := by
  unfold write16
  cases hb : m.bigEndian <;>
    simp only [Bool.not_false, Bool.not_true, if_true, if_false, read8_write8, add_zero', h0, h1,
      Bool.false_eq_true]

/-- frame of `write32`: only `a .. a + 3` change -/
theorem read8_write32_frame (m : Memory) (a : BitVec 32) (v : BitVec 32) (x : BitVec 32)
    (h0 : x ≠ a) (h1 : x ≠ a + 1) (h2 : x ≠ a + 2) (h3 : x ≠ a + 3) :
    read8 (write32 m a v) x = read8 m x := by
  unfold write32
  cases hb : m.bigEndian <;>
    simp only [Bool.not_false, Bool.not_true, if_true, if_false, read8_write8, add_zero', h0, h1, h2, h3,
      Bool.false_eq_true]

/-- the bytes `write16` stores, per byte order -/
theorem read8_write16_lo (m : Memory) (a : BitVec 32) (v : BitVec 16) :
    read8 (write16 m a v) a = if m.bigEndian then (v >>> 8).setWidth 8 else v.setWidth 8 := by
  have h2 : a ≠ a + 1 := by bv_decide
  unfold write16
  cases hb : m.bigEndian <;>
    simp only [Bool.not_false, Bool.not_true, if_true, if_false, read8_write8, h2, Bool.false_eq_true] <;>
    bv_decide

end NakenVerif.Memory
