/-
Implementation model of core/Memory.cpp + core/MemoryPage.h (the sparse paged image).

Mirrors the C++ statement by statement:
* `MemoryPage(address)`: `this->address = (address / PAGE_SIZE) * PAGE_SIZE` in `uint32_t`, `offset_min = PAGE_SIZE`,
  `offset_max = 0`, `bin` all 0, `debug_line` all -1.  The two arrays are finite maps from the offset; an absent key
  stands for the `memset` value (0 resp. -1).  That every offset used is below PAGE_SIZE is theorem `offset_in_page`.
* the page test `address >= page->address && address < (uint64_t)page->address + PAGE_SIZE` with its 64-bit cast;
* `Memory::read8/16/32`, `write8/16/32`, `read_debug`, `write_debug`, `write` and the low/high bookkeeping.

The page list is a `List` in the order of the C linked list (new pages are appended at the end).
The C loops `while (page != nullptr) { if (test) break; if (page->next == nullptr) page->next = new ...; page = page->next; }`
walk the list and test a freshly appended page with the same page test; if that test failed the C loop would append pages
forever.  `modifyPage` returns `none` exactly in that case, and `modifyPage_isSome` (Proofs) shows it never happens.
-/
import Std.Data.HashMap
import NakenVerif.Generated.Limits
import NakenVerif.Generated.MemoryConsts

namespace NakenVerif.Memory
open Std

abbrev Addr := BitVec 32
abbrev Byte := BitVec 8

/-- `PAGE_SIZE` as `uint32_t` -/
def pageSize32 : BitVec 32 := BitVec.ofNat 32 Generated.pageSize
/-- `PAGE_SIZE` in the 64-bit comparison -/
def pageSize64 : BitVec 64 := BitVec.ofNat 64 Generated.pageSize
/-- `DL_EMPTY` as a C `int` -/
def dlEmpty : BitVec 32 := BitVec.ofInt 32 Generated.dlEmpty
/-- `DL_DATA` as a C `int` -/
def dlData : BitVec 32 := BitVec.ofInt 32 Generated.dlData

structure Page where
  address : BitVec 32
  offsetMin : BitVec 32
  offsetMax : BitVec 32
  /-- `uint8_t bin[PAGE_SIZE]`, absent = 0 -/
  bin : HashMap (BitVec 32) Byte
  /-- `int debug_line[PAGE_SIZE]`, absent = -1 -/
  debugLine : HashMap (BitVec 32) (BitVec 32)

/-- `MemoryPage::MemoryPage(uint32_t address)` -/
def Page.new (address : BitVec 32) : Page :=
  { address := (address / pageSize32) * pageSize32
    offsetMin := pageSize32
    offsetMax := 0
    bin := ∅
    debugLine := ∅ }

/-- `address >= page->address && address < (uint64_t)page->address + PAGE_SIZE` -/
def Page.contains (p : Page) (a : BitVec 32) : Bool :=
  decide (p.address ≤ a) && decide (a.zeroExtend 64 < p.address.zeroExtend 64 + pageSize64)

/-- the `offset_min` / `offset_max` update shared by `set_data` and `set_debug` -/
def Page.touch (p : Page) (offset : BitVec 32) : Page :=
  { p with
    offsetMin := if offset < p.offsetMin then offset else p.offsetMin
    offsetMax := if offset > p.offsetMax then offset else p.offsetMax }

/-- `MemoryPage::set_data` -/
def Page.setData (p : Page) (a : BitVec 32) (d : Byte) : Page :=
  match p with
  | { address, offsetMin, offsetMax, bin, debugLine } =>
    let offset := a - address
    { address
      offsetMin := if offset < offsetMin then offset else offsetMin
      offsetMax := if offset > offsetMax then offset else offsetMax
      bin := bin.insert offset d
      debugLine }

/-- `MemoryPage::set_debug` -/
def Page.setDebug (p : Page) (a : BitVec 32) (line : BitVec 32) : Page :=
  match p with
  | { address, offsetMin, offsetMax, bin, debugLine } =>
    let offset := a - address
    { address
      offsetMin := if offset < offsetMin then offset else offsetMin
      offsetMax := if offset > offsetMax then offset else offsetMax
      bin
      debugLine := debugLine.insert offset line }

structure Memory where
  pages : List Page
  lowAddress : BitVec 32
  highAddress : BitVec 32
  /-- `endian == ENDIAN_BIG` -/
  bigEndian : Bool

/-- `Memory::Memory()` -/
def Memory.init : Memory :=
  { pages := []
    lowAddress := BitVec.ofNat 32 Generated.memoryInitLow
    highAddress := BitVec.ofNat 32 Generated.memoryInitHigh
    bigEndian := Generated.memoryInitEndian == Generated.endianBig }

/-- the read loops: first page of the list that passes the page test -/
def findPage (a : BitVec 32) : List Page → Option Page
  | [] => none
  | p :: ps => if p.contains a then some p else findPage a ps

/-- the write loops: apply `f` to the first page that passes the page test, appending `new MemoryPage(address)` when
the end of the list is reached.  `none`: the appended page fails the test, i.e. the C loop never ends. -/
def modifyPage (a : BitVec 32) (f : Page → Page) : List Page → Option (List Page)
  | [] =>
    let p := Page.new a
    if p.contains a then some [f p] else none
  | p :: ps =>
    if p.contains a then some (f p :: ps)
    else match modifyPage a f ps with
      | some ps' => some (p :: ps')
      | none => none

/-- `Memory::read8` -/
def read8 (m : Memory) (a : BitVec 32) : Byte :=
  match findPage a m.pages with
  | some p => p.bin.getD (a - p.address) 0
  | none => 0

/-- `Memory::read_debug` -/
def readDebug (m : Memory) (a : BitVec 32) : BitVec 32 :=
  match findPage a m.pages with
  | some p => p.debugLine.getD (a - p.address) dlEmpty
  | none => -1

/-- `if (low_address > address) low_address = address; if (high_address < address) high_address = address;` -/
def Memory.bump (m : Memory) (a : BitVec 32) : Memory :=
  { m with
    lowAddress := if m.lowAddress > a then a else m.lowAddress
    highAddress := if m.highAddress < a then a else m.highAddress }

/-- `Memory::write8`.  (The structure is taken apart so that the compiled driver updates the page list in place; the
`none` branch is unreachable by `modifyPage_isSome`.) -/
def write8 (m : Memory) (a : BitVec 32) (d : Byte) : Memory :=
  match m with
  | { pages, lowAddress, highAddress, bigEndian } =>
    match modifyPage a (fun p => p.setData a d) pages with
    | some ps =>
      { pages := ps
        lowAddress := if lowAddress > a then a else lowAddress
        highAddress := if highAddress < a then a else highAddress
        bigEndian }
    | none => { pages := [], lowAddress, highAddress, bigEndian }

/-- `Memory::write_debug` (does not touch low/high) -/
def writeDebug (m : Memory) (a : BitVec 32) (line : BitVec 32) : Memory :=
  match m with
  | { pages, lowAddress, highAddress, bigEndian } =>
    match modifyPage a (fun p => p.setDebug a line) pages with
    | some ps => { pages := ps, lowAddress, highAddress, bigEndian }
    | none => { pages := [], lowAddress, highAddress, bigEndian }

/-- `Memory::write(address, data, line)` -/
def write (m : Memory) (a : BitVec 32) (d : Byte) (line : BitVec 32) : Memory :=
  match m with
  | { pages, lowAddress, highAddress, bigEndian } =>
    match modifyPage a (fun p => (p.setData a d).setDebug a line) pages with
    | some ps =>
      { pages := ps
        lowAddress := if lowAddress > a then a else lowAddress
        highAddress := if highAddress < a then a else highAddress
        bigEndian }
    | none => { pages := [], lowAddress, highAddress, bigEndian }

/-- `Memory::read16` (the `int` expression truncated to `uint16_t`) -/
def read16 (m : Memory) (a : BitVec 32) : BitVec 16 :=
  if !m.bigEndian then
    (read8 m a).zeroExtend 16 ||| ((read8 m (a + 1)).zeroExtend 16 <<< 8)
  else
    ((read8 m a).zeroExtend 16 <<< 8) ||| (read8 m (a + 1)).zeroExtend 16

/-- `Memory::read32` -/
def read32 (m : Memory) (a : BitVec 32) : BitVec 32 :=
  if !m.bigEndian then
    (read8 m a).zeroExtend 32 ||| ((read8 m (a + 1)).zeroExtend 32 <<< 8) |||
      ((read8 m (a + 2)).zeroExtend 32 <<< 16) ||| ((read8 m (a + 3)).zeroExtend 32 <<< 24)
  else
    ((read8 m a).zeroExtend 32 <<< 24) ||| ((read8 m (a + 1)).zeroExtend 32 <<< 16) |||
      ((read8 m (a + 2)).zeroExtend 32 <<< 8) ||| (read8 m (a + 3)).zeroExtend 32

/-- `Memory::write16` -/
def write16 (m : Memory) (a : BitVec 32) (d : BitVec 16) : Memory :=
  if !m.bigEndian then
    write8 (write8 m (a + 0) ((d &&& 0xff).setWidth 8)) (a + 1) ((d >>> 8).setWidth 8)
  else
    write8 (write8 m (a + 0) ((d >>> 8).setWidth 8)) (a + 1) ((d &&& 0xff).setWidth 8)

/-- `Memory::write32` -/
def write32 (m : Memory) (a : BitVec 32) (d : BitVec 32) : Memory :=
  if !m.bigEndian then
    write8 (write8 (write8 (write8 m (a + 0) ((d &&& 0xff).setWidth 8)) (a + 1) (((d >>> 8) &&& 0xff).setWidth 8))
      (a + 2) (((d >>> 16) &&& 0xff).setWidth 8)) (a + 3) (((d >>> 24) &&& 0xff).setWidth 8)
  else
    write8 (write8 (write8 (write8 m (a + 0) (((d >>> 24) &&& 0xff).setWidth 8)) (a + 1) (((d >>> 16) &&& 0xff).setWidth 8))
      (a + 2) (((d >>> 8) &&& 0xff).setWidth 8)) (a + 3) ((d &&& 0xff).setWidth 8)

/-- the abstraction used by the specification: the cell holding address `a`, if a byte was stored there -/
def abs (m : Memory) (a : BitVec 32) : Option Byte :=
  match findPage a m.pages with
  | some p => p.bin[a - p.address]?
  | none => none

/-- debug-line view: the marker stored for address `a`, if any -/
def absDebug (m : Memory) (a : BitVec 32) : Option (BitVec 32) :=
  match findPage a m.pages with
  | some p => p.debugLine[a - p.address]?
  | none => none

end NakenVerif.Memory
