/-
  The argument collector of macros_expand_params refines the call syntax of
  `Spec.scanArgs`, and the resulting statement about entering a macro.
-/
import NakenVerif.Macro.Proofs
import NakenVerif.Macro.Spec

namespace NakenVerif.Macro

open NakenVerif.Generated NakenVerif.Macro

theorem Prog.runA_bind {α β : Type} (p : Prog α) (f : α → Prog β) :
    ∀ l, (p.bind f).runA l = (f (p.runA l).1).runA (p.runA l).2 := by
  induction p with
  | ret a => intro l; rfl
  | get k ih => intro l; simp only [Prog.bind, Prog.runA]; exact ih _ _
  | unget c k ih => intro l; simp only [Prog.bind, Prog.runA]; exact ih _
  | alloc t b k ih => intro l; simp only [Prog.bind, Prog.runA]; exact ih _ _
  | push t a k ih => intro l; simp only [Prog.bind, Prog.runA]; exact ih _ _

/-- blanks and tabs -/
def isBlankCh (c : Ch) : Bool := c = ch ' ' || c = 9

theorem skipBlanks_runA (b : List Ch) (hb : ∀ x ∈ b, isBlankCh x = true) (c : Ch) (hc : isBlankCh c = false)
    (l : List Ch) : ∀ n, n > b.length → (skipBlanks n).runA (b ++ c :: l) = (c, l) := by
  induction b with
  | nil =>
    intro n hn
    cases n with
    | zero => simp at hn
    | succ n =>
      simp only [isBlankCh, Bool.or_eq_false_iff, decide_eq_false_iff_not] at hc
      simp [skipBlanks, Prog.runA, Prog.getA, hc.1, hc.2]
  | cons x b ih =>
    intro n hn
    cases n with
    | zero => simp at hn
    | succ n =>
      have hx := hb x (by simp)
      simp only [isBlankCh, Bool.or_eq_true, decide_eq_true_eq] at hx
      have hrec := ih (fun y hy => hb y (by simp [hy])) n (by simpa using hn)
      simp only [skipBlanks, Prog.runA, Prog.getA, List.cons_append]
      simp only [hx, if_true]
      exact hrec

/-- the collector state seen without its capacity counter -/
def ArgSt.rel (s : ArgSt) (t : Spec.ArgScan) : Prop :=
  s.done = t.done ∧ s.cur = t.cur ∧ s.inStr = t.inStr ∧ s.inTick = t.inTick ∧ s.parens = t.depth ∧ t.depth < 256

/-- one character: the collector does what the call syntax says, as long as its buffers have room -/
theorem argStep_scanStep (s : ArgSt) (t : Spec.ArgScan) (c : Ch) (hr : s.rel t)
    (hp : s.ptr + 3 < 1024) (hd : s.done.length < 255) :
    match Spec.scanStep t c with
    | .skip => argStep s c = .skip
    | .bad => True
    | .done a => argStep s c = .done a
    | .cont t' => ∃ s', argStep s c = .cont s' ∧ s'.rel t' ∧ s'.ptr = s.ptr + 1 ∧ s'.done.length ≤ s.done.length + 1
    | .esc t' => ∃ s', argStep s c = .esc s' ∧ s'.rel t' ∧ s'.ptr = s.ptr + 1 ∧ s'.done = s.done := by
  obtain ⟨sd, sc, sp, sis, sit, spar⟩ := s
  obtain ⟨td, tc, tis, tit, tdep⟩ := t
  obtain ⟨h1, h2, h3, h4, h5, h6⟩ := hr
  simp only at h1 h2 h3 h4 h5 h6 hp hd
  subst h1 h2 h3 h4 h5
  have hcap : ¬ (sp + 3 ≥ 1024 ∨ sd.length ≥ 255) := by omega
  simp only [argStep, Spec.scanStep, hcap, if_false]
  generalize (if c = 9 then ch ' ' else c) = cc
  generalize hs : (if cc = ch '"' ∧ (!sit) = true then !sis else sis) = is'
  generalize ht : (if cc = ch '\'' ∧ (!is') = true then !sit else sit) = it'
  by_cases c1 : cc = 13
  · simp [c1]
  simp only [c1, if_false]
  by_cases c2 : cc = ch ' ' ∧ sc = []
  · simp [c2]
  simp only [c2, if_false]
  by_cases c3 : cc = ch '\\' ∧ (sis = true ∨ sit = true)
  · simp only [c3, if_true]
    exact ⟨_, rfl, ⟨rfl, rfl, rfl, rfl, rfl, h6⟩, rfl, rfl⟩
  simp only [c3, if_false]
  clear hs ht c1 c2 c3
  by_cases d5 : spar = 0
  · subst d5
    by_cases d1 : cc = ch ')'
    · subst d1
      cases is' <;> cases it' <;> simp [ch, EOFc, ArgSt.rel]
    · by_cases d2 : cc = 10 ∨ cc = EOFc
      · simp [d1, d2]
      · by_cases d3 : cc = ch ','
        · subst d3
          cases is' <;> cases it' <;> simp [ch, EOFc, ArgSt.rel]
        · by_cases d4 : cc = ch '('
          · subst d4
            cases is' <;> cases it' <;> simp [ch, EOFc, ArgSt.rel]
          · simp [d1, d2, d3, d4, ArgSt.rel]
  · by_cases d1 : cc = ch ')'
    · subst d1
      cases is' <;> cases it' <;> simp [ch, EOFc, ArgSt.rel, d5] <;> omega
    · by_cases d2 : cc = 10 ∨ cc = EOFc
      · simp [d1, d2]
      · by_cases d3 : cc = ch ','
        · subst d3
          cases is' <;> cases it' <;> simp [ch, EOFc, ArgSt.rel, d5] <;> omega
        · by_cases d4 : cc = ch '('
          · subst d4
            by_cases d6 : spar + 1 < 256
            · cases is' <;> cases it' <;> simp [ch, EOFc, ArgSt.rel, d5, d6] <;> omega
            · cases is' <;> cases it' <;> simp [ch, EOFc, ArgSt.rel, d5, d6] <;> omega
          · simp [d1, d2, d3, d4, ArgSt.rel]
            omega

theorem scanStep_done {s : Spec.ArgScan} {c : Ch} {a : List (List Ch)} (h : Spec.scanStep s c = .done a) :
    a.length = s.done.length + 1 := by
  obtain ⟨sd, sc, sis, sit, sdep⟩ := s
  simp only [Spec.scanStep] at h
  generalize (if c = 9 then ch ' ' else c) = cc at h
  generalize (if cc = ch '"' ∧ (!sit) = true then !sis else sis) = is' at h
  generalize (if cc = ch '\'' ∧ (!is') = true then !sit else sit) = it' at h
  repeat' split at h
  all_goals first | (cases h; simp) | cases h

theorem scanStep_cont {s s' : Spec.ArgScan} {c : Ch} (h : Spec.scanStep s c = .cont s') :
    s.done.length ≤ s'.done.length := by
  obtain ⟨sd, sc, sis, sit, sdep⟩ := s
  simp only [Spec.scanStep] at h
  generalize (if c = 9 then ch ' ' else c) = cc at h
  generalize (if cc = ch '"' ∧ (!sit) = true then !sis else sis) = is' at h
  generalize (if cc = ch '\'' ∧ (!is') = true then !sit else sit) = it' at h
  repeat' split at h
  all_goals first | (cases h; simp) | cases h

theorem scanStep_esc {s s' : Spec.ArgScan} {c : Ch} (h : Spec.scanStep s c = .esc s') :
    s'.done = s.done := by
  obtain ⟨sd, sc, sis, sit, sdep⟩ := s
  simp only [Spec.scanStep] at h
  generalize (if c = 9 then ch ' ' else c) = cc at h
  generalize (if cc = ch '"' ∧ (!sit) = true then !sis else sis) = is' at h
  generalize (if cc = ch '\'' ∧ (!is') = true then !sit else sit) = it' at h
  repeat' split at h
  all_goals first | (cases h; rfl) | cases h

theorem scanArgs_rest_lt : ∀ (t : Spec.ArgScan) (l : List Ch) (a : List (List Ch)) (r : List Ch),
    Spec.scanArgs t l = some (a, r) → r.length < l.length ∧ t.done.length + 1 ≤ a.length := by
  intro t l
  fun_induction Spec.scanArgs t l with
  | case1 s => intro a r h; simp at h
  | case2 s c rest hstep ih =>
    intro a r h
    have := ih a r h
    simp only [List.length_cons]
    omega
  | case3 s c rest hstep => intro a r h; simp at h
  | case4 s c rest args hstep =>
    intro a r h
    simp only [Option.some.injEq, Prod.mk.injEq] at h
    obtain ⟨h1, h2⟩ := h
    subst h1 h2
    have := scanStep_done hstep
    refine ⟨by simp, by omega⟩
  | case5 s c rest s' hstep ih =>
    intro a r h
    have := ih a r h
    have hd := scanStep_cont hstep
    simp only [List.length_cons]
    omega
  | case6 s c s' hstep => intro a r h; simp at h
  | case7 s c s' hstep c2 rest' ih =>
    intro a r h
    have := ih a r h
    have hd := scanStep_esc hstep
    simp only [List.length_cons]
    simp only at this
    rw [hd] at this
    omega

/-- **The argument loop refines the call syntax.**  If the text after the opening
    parenthesis is a call in the sense of `Spec.scanArgs`, with at most 255 arguments
    and its characters (closing parenthesis included) fitting the 1021 usable bytes
    of `params[]`, the loop returns exactly these arguments and leaves the rest. -/
theorem argLoop_scanArgs : ∀ (t : Spec.ArgScan) (l : List Ch) (a : List (List Ch)) (r : List Ch),
    Spec.scanArgs t l = some (a, r) → ∀ (s : ArgSt) (n : Nat), s.rel t →
      s.ptr + (l.length - r.length) + 2 < 1024 → a.length ≤ 255 → n > l.length - r.length →
      (argLoop n s).runA l = (ArgsRes.ok a, r) := by
  intro t l
  fun_induction Spec.scanArgs t l with
  | case1 s => intro a r h; simp at h
  | case2 t c rest hstep ih =>
    intro a r h s n hr hp ha hn
    have hlt := scanArgs_rest_lt t rest a r h
    have hst := argStep_scanStep s t c hr (by simp only [List.length_cons] at hp; omega) (by rw [hr.1]; omega)
    rw [hstep] at hst
    cases n with
    | zero => simp at hn
    | succ n =>
      simp only [argLoop, Prog.runA, Prog.getA, hst]
      exact ih a r h s n hr (by simp only [List.length_cons] at hp; omega) ha (by simp only [List.length_cons] at hn; omega)
  | case3 t c rest hstep => intro a r h; simp at h
  | case4 t c rest args hstep =>
    intro a r h s n hr hp ha hn
    simp only [Option.some.injEq, Prod.mk.injEq] at h
    obtain ⟨h1, h2⟩ := h
    subst h1 h2
    have hd := scanStep_done hstep
    have hst := argStep_scanStep s t c hr (by simp only [List.length_cons] at hp; omega) (by rw [hr.1]; omega)
    rw [hstep] at hst
    cases n with
    | zero => simp at hn
    | succ n => simp only [argLoop, Prog.runA, Prog.getA, hst]
  | case5 t c rest t' hstep ih =>
    intro a r h s n hr hp ha hn
    have hlt := scanArgs_rest_lt t' rest a r h
    have hd := scanStep_cont hstep
    have hst := argStep_scanStep s t c hr (by simp only [List.length_cons] at hp; omega) (by rw [hr.1]; omega)
    rw [hstep] at hst
    obtain ⟨s', hs', hr', hp', _⟩ := hst
    cases n with
    | zero => simp at hn
    | succ n =>
      simp only [argLoop, Prog.runA, Prog.getA, hs']
      exact ih a r h s' n hr' (by simp only [List.length_cons] at hp; omega) ha (by simp only [List.length_cons] at hn; omega)
  | case6 t c t' hstep => intro a r h; simp at h
  | case7 t c t' hstep c2 rest' ih =>
    intro a r h s n hr hp ha hn
    have hlt := scanArgs_rest_lt _ rest' a r h
    have hde := scanStep_esc hstep
    have hst := argStep_scanStep s t c hr (by simp only [List.length_cons] at hp; omega)
      (by rw [hr.1]; have := hlt.2; simp only at this; rw [hde] at this; omega)
    rw [hstep] at hst
    obtain ⟨s', hs', hr', hp', _⟩ := hst
    cases n with
    | zero => simp at hn
    | succ n =>
      simp only [argLoop, Prog.runA, Prog.getA, hs']
      refine ih a r h { s' with cur := c2 :: s'.cur, ptr := s'.ptr + 1 } n ?_ ?_ ha ?_
      · obtain ⟨r1, r2, r3, r4, r5, r6⟩ := hr'
        exact ⟨r1, by simp [r2], r3, r4, r5, r6⟩
      · simp only [List.length_cons] at hp ⊢
        omega
      · simp only [List.length_cons] at hn
        omega

/-- entering a macro with parameters, on the character stream: the call text is consumed
    and replaced by the expansion -/
theorem enterMacro_runA (d : MacroDef) (hpar : d.params ≠ 0) (b l1 rest : List Ch)
    (args : List (List Ch)) (text : List Ch) (n : Nat)
    (hb : ∀ x ∈ b, isBlankCh x = true)
    (hscan : Spec.scanArgs {} l1 = some (args, rest))
    (hlen : (l1.length - rest.length) + 2 < 1024)
    (hcnt : args.length = d.params) (h255 : args.length ≤ 255)
    (hexp : expandText args d.text = (text, false))
    (hn1 : n > b.length) (hn2 : n > l1.length - rest.length) :
    (enterMacro n d).runA (b ++ ch '(' :: l1) = (EnterRes.entered, normText text ++ rest) := by
  have hskip := skipBlanks_runA b hb (ch '(') (by decide) l1 n hn1
  have harg := argLoop_scanArgs {} l1 args rest hscan {} n
    ⟨rfl, rfl, rfl, rfl, rfl, by decide⟩ (by simpa using hlen) h255 hn2
  unfold enterMacro
  rw [if_neg hpar]
  rw [Prog.runA_bind]
  unfold expandParams
  rw [Prog.runA_bind, hskip]
  simp only [ne_eq, not_true_eq_false, if_false]
  rw [Prog.runA_bind, harg]
  simp only [hcnt, ne_eq, not_true_eq_false, if_false, hexp, Prog.runA, Bool.false_eq_true, if_true]

/-- entering a macro without parameters (`.define NAME text`, `NAME equ text`, `.macro NAME`) -/
theorem enterMacro_runA_zero (d : MacroDef) (hpar : d.params = 0) (l : List Ch) (n : Nat) :
    (enterMacro n d).runA l = (EnterRes.entered, normText d.text ++ l) := by
  unfold enterMacro
  rw [if_pos hpar]
  simp [Prog.runA]

end NakenVerif.Macro
