/-
  The statement loop of AsmContext::assemble (core/AsmContext.cpp) and the part of
  parse_directives (core/directives.cpp) that defines macros, as far as the
  reader-exposing command `mexp` exercises it: labels, `.define`/`#define`,
  `.macro`, `.equ`/`.def`, `NAME equ VALUE`, `.include`, `end`, and statements,
  whose tokens are recorded instead of being handed to a CPU back end (the
  harness installs a recording `parse_instruction`).

  One statement is a reader program (`stmt`); `.include` suspends it so that the
  caller (`assemble`, on the concrete reader) can switch the file, as
  include_parse (core/directives_include.cpp) does with `tokens.in`.
-/
import NakenVerif.Macro.Define
import NakenVerif.Generated.CpuList

namespace NakenVerif.Macro

open NakenVerif.Generated NakenVerif.Macro

/-- a recorded item: token type code and text; -2 = statement word, -3 = end of statement -/
abbrev Item := Int × List Ch

structure AsmSt where
  env : Env := {}
  errCount : Nat := 0          -- error_count
  errFlag : Bool := false      -- error
  out : List Item := []        -- reversed
  deriving Repr

def AsmSt.add (st : AsmSt) (a : Acc) : AsmSt :=
  { st with errCount := st.errCount + a.errs, errFlag := st.errFlag || a.flag }

def AsmSt.addTok (st : AsmSt) (t : Tok) : AsmSt := st.add (({} : Acc).add t)

inductive StmtRes where
  | cont (st : AsmSt)
  | done (ret : Int) (st : AsmSt)            -- assemble() returns `ret`
  | incl (name : List Ch) (st : AsmSt)       -- `.include`: the caller switches files
  | stop (s : Stop) (st : AsmSt)             -- exit(1) / out of fuel
  | unmodelled (st : AsmSt)                  -- a directive outside this model
  deriving Repr

def str (s : String) : List Ch := s.toList.map fun c => (c.toNat : Int)

/-- words that AsmContext::directive() handles itself -/
def dataWords : List (List Ch) :=
  ["org", "db", "dc8", "ascii", "asciiz", "dw", "dc16", "dl", "dc32", "dd", "dc64", "dq",
   "varuint", "varuint32", "resb", "resw"].map str

/-- directive names that parse_directives() knows and this model does not follow -/
def otherDirectives : List (List Ch) :=
  ["ifdef", "ifndef", "if", "endif", "else", "repeat", "endr", "binfile", "code", "bss", "msp430_cpu4",
   "pragma", "device", "set", "export", "entry_point", "align", "align_bits", "align_bytes", "scope", "ends",
   "func", "endf", "low_address", "high_address", "big_endian", "little_endian", "list", "data_fill", "end"].map str

/-- `.name` selects a CPU (strcasecmp over cpu_list) -/
def isCpuName (name : List Ch) : Bool :=
  cpuList.any fun c => str c.name.toLower = name.map lowerC

/-- the recording parse_instruction: tokens up to the end of the line -/
def recLoop (env : Env) : Nat → Tok → AsmSt → Prog StmtRes
  | 0, _, st => .ret (.stop .fuel st)
  | n + 1, t, st =>
    if t.fatal then .ret (.stop .fatal st)
    else if t.fuel then .ret (.stop .fuel st)
    else if t.ty = .eol ∨ t.ty = .eof then .ret (.cont { st with out := (-3, []) :: st.out })
    else
      let st := { st with out := (t.ty.code, cstr t.text) :: st.out }
      (tokensGet env n).bind fun t' => recLoop env n t' (st.addTok t')

def defResult (st : AsmSt) (r : DefRes) : StmtRes :=
  let st := st.add r.acc
  match r.stop with
  | some s => .stop s st
  | none =>
    if r.ret ≠ 0 then .done (-1) st
    else .cont { st with env := st.env.addDef r.def? }

/-- parse_directives() -/
def directive (n : Nat) (st : AsmSt) : Prog StmtRes :=
  (tokensGet st.env n).bind fun t =>
    let st := st.addTok t
    if t.fatal then .ret (.stop .fatal st)
    else if t.fuel then .ret (.stop .fuel st)
    else if t.ty = .eof then .ret (.done (-1) st)                             -- "Missing directive"
    else
      let name := cstr t.text
      if name = str "define" then (macrosParse st.env true n).bind fun r => .ret (defResult st r)
      else if name = str "macro" then (macrosParse st.env false n).bind fun r => .ret (defResult st r)
      else if name = str "equ" ∨ name = str "def" then (parseEqu st.env n).bind fun r => .ret (defResult st r)
      else if name = str "include" then
        (tokensGet st.env n).bind fun f =>
          let st := st.addTok f
          if f.fatal then .ret (.stop .fatal st)
          else if f.fuel then .ret (.stop .fuel st)
          else .ret (.incl (cstr f.text) st)
      else if otherDirectives.contains name ∨ dataWords.contains name ∨ isCpuName name then .ret (.unmodelled st)
      else .ret (.done (-1) st)                                               -- "Unknown directive"

/-- one pass of the `while (true)` loop of AsmContext::assemble -/
def stmt (n : Nat) (st : AsmSt) : Prog StmtRes :=
  if st.errCount > 0 then .ret (.done (-1) st)
  else
    (tokensGet st.env n).bind fun t =>
      let st := st.addTok t
      if t.fatal then .ret (.stop .fatal st)
      else if t.fuel then .ret (.stop .fuel st)
      else if t.ty = .eof then .ret (.done (if st.errFlag then -1 else 0) st)
      else if t.ty = .eol then .ret (.cont st)
      else if t.ty = .label then
        let name := cstr t.text
        if (lookupDef st.env.defs name).isSome then .ret (.done (-1) st)        -- already defined (macro)
        else if (lookupSym st.env.syms name).isSome then .ret (.done (-1) st)   -- already defined (label)
        else if name.length + 1 > 255 then .ret (.done (-1) st)
        else .ret (.cont { st with env := { st.env with syms := st.env.syms ++ [(name, [ch '0'])] } })
      else if t.ty = .pound ∨ cstr t.text = [ch '.'] then directive n st
      else if t.ty = .string then
        let word := cstr t.text
        if dataWords.contains word then .ret (.unmodelled st)
        else if word = str "end" then .ret (.done (if st.errFlag then -1 else 0) st)
        else
          (tokensGet st.env n).bind fun t2 =>
            let st := st.addTok t2
            if t2.fatal then .ret (.stop .fatal st)
            else if t2.fuel then .ret (.stop .fuel st)
            else if cstr t2.text = str "equ" then
              (equLine st.env word n).bind fun r => .ret (defResult st r)
            else if cstr t2.text = [] then
              -- tokens_push() of an empty token leaves the push-back slot empty: the back end
              -- reads the next token from the stream
              (tokensGet st.env n).bind fun t3 =>
                recLoop st.env n t3 ({ st with out := (-2, word) :: st.out }.addTok t3)
            else recLoop st.env n t2 { st with out := (-2, word) :: st.out }
      else .ret (.done (-1) st)                                                 -- unexpected token

/-- outcome of assemble() -/
inductive AsmEnd where
  | ret (code : Int)
  | stop (s : Stop)
  | unmodelled
  deriving Repr, DecidableEq

/-- AsmContext::assemble() on the concrete reader; `files` are the files `.include` can open,
    `depth` the static nesting counter of include_parse -/
def assemble (files : List (List Ch × List Ch)) : Nat → Nat → AsmSt → Reader → AsmEnd × AsmSt × Reader
  | 0, _, st, r => (.stop .fuel, st, r)
  | n + 1, depth, st, r =>
    match (stmt n st).run r with
    | (.cont st', r') => assemble files n depth st' r'
    | (.done code st', r') => (.ret code, st', r')
    | (.stop s st', r') => (.stop s, st', r')
    | (.unmodelled st', r') => (.unmodelled, st', r')
    | (.incl name st', r') =>
      if depth ≥ 32 then (.ret (-1), st', r')                                   -- "Includes nested too deep"
      else
        match files.lookup name with
        | none => (.ret (-1), st', r')                                          -- "Cannot open include file"
        | some content =>
          match assemble files n (depth + 1) st' { r' with file := content } with
          | (.ret code, st'', r'') =>
            if code ≠ 0 then (.ret (-1), st'', { r'' with file := r'.file })
            else assemble files n depth st'' { r'' with file := r'.file }
          | other => other

end NakenVerif.Macro
