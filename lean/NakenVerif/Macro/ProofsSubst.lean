/-
  Part 2: expanding the stored form of a plain text gives the word-wise
  substitution of the specification.
-/
import NakenVerif.Macro.ProofsBody

namespace NakenVerif.Macro

open NakenVerif.Generated NakenVerif.Macro

theorem expandText_lit (args : List (List Ch)) (c : Ch) (hc : c ≠ 1) (X : List Ch) :
    expandText args (c :: X) = (c :: (expandText args X).1, (expandText args X).2) := by
  rw [expandText.eq_def]
  simp only [hc, if_false]

theorem expandText_ref (args : List (List Ch)) (i : Nat) (h1 : 1 ≤ i) (h2 : i ≤ args.length) (X : List Ch) :
    expandText args (1 :: (i : Int) :: X) =
      (normText (args.getD (i - 1) []) ++ (expandText args X).1, (expandText args X).2) := by
  have hv : ¬ ((i : Int) - 1 < 0 ∨ (i : Int) - 1 ≥ args.length) := by omega
  have ht : ((i : Int) - 1).toNat = i - 1 := by omega
  rw [expandText.eq_def]
  simp only [if_true, hv, if_false, ht]

/-- `M` is a complete stored prefix whose expansion is `out` -/
def Closed (args : List (List Ch)) (M out : List Ch) : Prop :=
  ∀ X, expandText args (M ++ X) = (out ++ (expandText args X).1, (expandText args X).2)

theorem Closed_nil (args : List (List Ch)) : Closed args [] [] := by
  intro X; simp

theorem Closed_lit {args : List (List Ch)} {M out : List Ch} (h : Closed args M out) (c : Ch) (hc : c ≠ 1) :
    Closed args (M ++ [c]) (out ++ [c]) := by
  intro X
  have := h (c :: X)
  rw [expandText_lit args c hc X] at this
  simpa [List.append_assoc] using this

theorem Closed_word {args : List (List Ch)} : ∀ (W M out : List Ch), Closed args M out → (∀ x ∈ W, x ≠ 1) →
    Closed args (M ++ W) (out ++ W) := by
  intro W
  induction W with
  | nil => intro M out h _; simpa using h
  | cons c W ih =>
    intro M out h hw
    have h1 := Closed_lit h c (hw c (by simp))
    have h2 := ih (M ++ [c]) (out ++ [c]) h1 (fun x hx => hw x (by simp [hx]))
    simpa [List.append_assoc] using h2

theorem Closed_ref {args : List (List Ch)} {M out : List Ch} (h : Closed args M out) (i : Nat)
    (h1 : 1 ≤ i) (h2 : i ≤ args.length) :
    Closed args (M ++ [1, (i : Int)]) (out ++ normText (args.getD (i - 1) [])) := by
  intro X
  have := h (1 :: (i : Int) :: X)
  rw [expandText_ref args i h1 h2 X] at this
  simpa [List.append_assoc] using this

theorem wordCh_ne_one {x : Ch} (h : Spec.isWordCh x = true) : x ≠ 1 := by
  intro h1
  subst h1
  revert h
  decide

/-- get_param_index against the specification's lookup -/
theorem paramIndex_lookup (w : List Ch) : ∀ (ps as : List (List Ch)), as.length = ps.length →
    (paramIndex ps w = 0 → Spec.lookupArg ps as w = none) ∧
    (∀ k, paramIndex ps w = k + 1 → Spec.lookupArg ps as w = some (as.getD k []) ∧ k < ps.length) := by
  intro ps
  induction ps with
  | nil =>
    intro as _
    simp [paramIndex, Spec.lookupArg]
  | cons p ps ih =>
    intro as hl
    cases as with
    | nil => simp at hl
    | cons a as =>
      simp only [List.length_cons, Nat.add_right_cancel_iff] at hl
      obtain ⟨ih0, ihk⟩ := ih as hl
      simp only [paramIndex, Spec.lookupArg]
      by_cases hp : p = w
      · simp [hp]
      · simp only [hp, if_false]
        cases hq : paramIndex ps w with
        | zero => simp [ih0 hq]
        | succ j =>
          obtain ⟨e1, e2⟩ := ihk j hq
          simp only [Nat.add_eq_zero_iff, Nat.succ_ne_zero, and_false, false_imp_iff, true_and]
          intro k hk
          have : k = j + 1 := by omega
          subst this
          simp [e1, e2]

theorem lookup_none_of_not_mem (w : List Ch) : ∀ (ps as : List (List Ch)), (∀ p ∈ ps, p ≠ w) →
    Spec.lookupArg ps as w = none := by
  intro ps
  induction ps with
  | nil => intro as _; simp [Spec.lookupArg]
  | cons p ps ih =>
    intro as h
    cases as with
    | nil => simp [Spec.lookupArg]
    | cons a as =>
      have hp : p ≠ w := h p (by simp)
      simp only [Spec.lookupArg, hp, if_false]
      exact ih as (fun q hq => h q (by simp [hq]))

/-- the loop state against the specification's scan: `W` is the word being read, `out`
    the expansion of everything before it -/
def SubInv (args : List (List Ch)) (st : BodySt) (W out : List Ch) : Prop :=
  ∃ M, st.mac = M ++ W ∧ Closed args M out ∧ (∀ x ∈ W, Spec.isWordCh x = true) ∧
    (W = [] → st.nameTest = none ∧ st.inWord = false) ∧
    (∀ c0 t, W = c0 :: t → st.inWord = true ∧
      st.nameTest = (if isLetter c0 = true ∨ c0 = ch '_' then some M.length else none))

theorem isWordCh_eq (c : Ch) : Spec.isWordCh c = (isLetter c || isDigit c || decide (c = ch '_')) := rfl

/-- the end of a word: what the parameter-name test leaves is the stored form of the flushed word -/
theorem nameStep_flush (ps args : List (List Ch)) (hlen : args.length = ps.length)
    (hid : ∀ p ∈ ps, Spec.IsIdent p) (st : BodySt) (W out : List Ch) (c : Ch)
    (hinv : SubInv args st W out) (hc : Spec.isWordCh c = false) :
    Closed args (nameStep ps st c).1 (out ++ Spec.flushWord ps (args.map normText) W) ∧
      (nameStep ps st c).2 = none := by
  obtain ⟨M, hmac, hcl, hw, hnil, hcons⟩ := hinv
  have hc' : (isLetter c || isDigit c || decide (c = ch '_')) = false := by rw [← isWordCh_eq]; exact hc
  have hnl : (isLetter c || decide (c = ch '_')) = false := by
    simp only [Bool.or_eq_false_iff] at hc' ⊢
    exact ⟨hc'.1.1, hc'.2⟩
  have hlen' : (args.map normText).length = ps.length := by simp [hlen]
  cases W with
  | nil =>
    obtain ⟨hn, _⟩ := hnil rfl
    have hflush : Spec.flushWord ps (args.map normText) [] = [] := by
      unfold Spec.flushWord
      rw [lookup_none_of_not_mem [] ps _ (by
        intro p hp he
        have := hid p hp
        rw [he] at this
        exact this)]
      rfl
    simp only [nameStep, hn, hnl, Bool.false_and, Bool.false_eq_true, if_false, hflush, List.append_nil]
    simp only [List.append_nil] at hmac
    exact ⟨by rw [hmac]; exact hcl, trivial⟩
  | cons c0 t =>
    obtain ⟨hin, hnt⟩ := hcons c0 t rfl
    have hwne : ∀ x ∈ c0 :: t, x ≠ 1 := fun x hx => wordCh_ne_one (hw x hx)
    by_cases hstart : isLetter c0 = true ∨ c0 = ch '_'
    · -- the word was being tested as a parameter name
      rw [if_pos hstart] at hnt
      have hdrop : st.mac.drop M.length = c0 :: t := by rw [hmac]; simp
      have htake : st.mac.take M.length = M := by rw [hmac]; simp
      simp only [nameStep, hnt, hc', Bool.not_false, if_true, hdrop, htake]
      obtain ⟨h0, hk⟩ := paramIndex_lookup (c0 :: t) ps (args.map normText) hlen'
      cases hq : paramIndex ps (c0 :: t) with
      | zero =>
        simp only [ne_eq, not_true_eq_false, if_false]
        refine ⟨?_, trivial⟩
        unfold Spec.flushWord
        rw [h0 hq, hmac]
        exact Closed_word _ _ _ hcl hwne
      | succ k =>
        obtain ⟨e1, e2⟩ := hk k hq
        simp only [ne_eq, Nat.succ_ne_zero, not_false_eq_true, if_true]
        refine ⟨?_, trivial⟩
        unfold Spec.flushWord
        rw [e1]
        have := Closed_ref hcl (k + 1) (by omega) (by omega)
        simp only [Nat.add_sub_cancel] at this
        have hget : (args.map normText).getD k [] = normText (args.getD k []) := by
          simp only [List.getD_eq_getElem?_getD, List.getElem?_map]
          cases args[k]? <;> simp [normText, cstr]
        rw [hget]
        have hcast : ((k + 1 : Nat) : Int) = (k : Int) + 1 := by omega
        rw [hcast] at this
        exact this
    · -- a word that starts with a digit is not a parameter
      rw [if_neg hstart] at hnt
      have hflush : Spec.flushWord ps (args.map normText) (c0 :: t) = c0 :: t := by
        unfold Spec.flushWord
        rw [lookup_none_of_not_mem (c0 :: t) ps _ (by
          intro p hp he
          have := hid p hp
          rw [he] at this
          exact hstart this.1)]
        rfl
      simp only [nameStep, hnt, hnl, Bool.false_and, Bool.false_eq_true, if_false, hflush]
      refine ⟨?_, trivial⟩
      rw [hmac]
      exact Closed_word _ _ _ hcl hwne

theorem encStep_word (ps args : List (List Ch)) (st : BodySt) (W out : List Ch) (c : Ch)
    (hinv : SubInv args st W out) (hc : Spec.isWordCh c = true) :
    SubInv args (encStep ps st c) (W ++ [c]) out := by
  obtain ⟨M, hmac, hcl, hw, hnil, hcons⟩ := hinv
  have hc' : (isLetter c || isDigit c || decide (c = ch '_')) = true := by rw [← isWordCh_eq]; exact hc
  refine ⟨M, ?_, hcl, ?_, ?_, ?_⟩
  · -- the text: nothing is flushed inside a word
    simp only [encStep, nameStep]
    cases hn : st.nameTest with
    | none => simp [hmac, List.append_assoc]
    | some nt => simp [hc', hmac, List.append_assoc]
  · intro x hx
    rcases List.mem_append.mp hx with h | h
    · exact hw x h
    · simp only [List.mem_singleton] at h; subst h; exact hc
  · intro h; simp at h
  · intro c0 t hWt
    refine ⟨by simp [encStep, hc'], ?_⟩
    cases W with
    | nil =>
      simp only [List.nil_append, List.cons.injEq] at hWt
      obtain ⟨h1, _⟩ := hWt
      subst h1
      obtain ⟨hn, hin⟩ := hnil rfl
      simp only [List.append_nil] at hmac
      simp only [encStep, nameStep, hn, hin, Bool.not_false, Bool.and_true, hmac]
      by_cases hl : isLetter c = true ∨ c = ch '_'
      · rw [if_pos hl, if_pos (by simpa using hl)]
      · rw [if_neg hl, if_neg (by simpa using hl)]
    | cons d W' =>
      simp only [List.cons_append, List.cons.injEq] at hWt
      obtain ⟨h1, _⟩ := hWt
      subst h1
      obtain ⟨hin, hnt⟩ := hcons d W' rfl
      simp only [encStep, nameStep]
      by_cases hl : isLetter d = true ∨ d = ch '_'
      · rw [if_pos hl] at hnt ⊢
        simp [hnt, hc']
      · rw [if_neg hl] at hnt ⊢
        simp [hnt, hin]

theorem encStep_nonword (ps args : List (List Ch)) (hlen : args.length = ps.length)
    (hid : ∀ p ∈ ps, Spec.IsIdent p) (st : BodySt) (W out : List Ch) (c : Ch)
    (hinv : SubInv args st W out) (hc : Spec.isWordCh c = false) (h1 : c ≠ 1) :
    SubInv args (encStep ps st c) [] (out ++ Spec.flushWord ps (args.map normText) W ++ [c]) := by
  obtain ⟨hcl, hnone⟩ := nameStep_flush ps args hlen hid st W out c hinv hc
  have hc' : (isLetter c || isDigit c || decide (c = ch '_')) = false := by rw [← isWordCh_eq]; exact hc
  refine ⟨(nameStep ps st c).1 ++ [c], by simp [encStep], Closed_lit hcl c h1, by simp, ?_, ?_⟩
  · intro _
    exact ⟨by simp [encStep, hnone], by simp [encStep, hc']⟩
  · intro c0 t h; simp at h

/-- expanding the stored form gives the substituted text -/
theorem fold_subst (ps args : List (List Ch)) (hlen : args.length = ps.length)
    (hid : ∀ p ∈ ps, Spec.IsIdent p) : ∀ (cs : List Ch) (st : BodySt) (W out : List Ch),
    SubInv args st W out → (∀ c ∈ cs, c ≠ 1) →
    expandText args (encFinish ps (cs.foldl (encStep ps) st)) =
      (out ++ Spec.substGo ps (args.map normText) W.reverse cs ++ [ch ' '], false) := by
  intro cs
  induction cs with
  | nil =>
    intro st W out hinv _
    obtain ⟨hcl, _⟩ := nameStep_flush ps args hlen hid st W out 10 hinv (by decide)
    simp only [List.foldl_nil, encFinish, Spec.substGo, List.reverse_reverse]
    have := hcl [ch ' ']
    rw [this]
    rw [expandText_lit args (ch ' ') (by decide) []]
    simp [expandText]
  | cons c cs ih =>
    intro st W out hinv hne
    have hc1 : c ≠ 1 := hne c (by simp)
    have hrest : ∀ x ∈ cs, x ≠ 1 := fun x hx => hne x (by simp [hx])
    simp only [List.foldl_cons, Spec.substGo]
    by_cases hw : Spec.isWordCh c = true
    · rw [if_pos hw]
      have := ih (encStep ps st c) (W ++ [c]) out (encStep_word ps args st W out c hinv hw) hrest
      simpa using this
    · rw [if_neg hw]
      have hw' : Spec.isWordCh c = false := by simpa using hw
      have := ih (encStep ps st c) [] _ (encStep_nonword ps args hlen hid st W out c hinv hw' hc1) hrest
      simpa [List.append_assoc] using this

/-! ### what macros_strip / macros_append do to such a text: nothing -/

theorem cstr_id (t : List Ch) (h : ∀ x ∈ t, OKc x) : cstr t = t := by
  induction t with
  | nil => rfl
  | cons c t ih =>
    have hc := (h c (by simp)).1
    have : ¬ c = 0 := by omega
    simp only [cstr, this, if_false]
    rw [ih (fun x hx => h x (by simp [hx]))]

theorem macrosStrip_id (t : List Ch) (h : ∀ x ∈ t, OKc x) : macrosStrip t = t := by
  induction t with
  | nil => rfl
  | cons c t ih =>
    obtain ⟨_, _, h1, h2⟩ := h c (by simp)
    simp only [macrosStrip, h1, h2, if_false, false_and]
    rw [ih (fun x hx => h x (by simp [hx]))]

theorem normText_id (t : List Ch) (h : ∀ x ∈ t, OKc x) : normText t = t := by
  unfold normText
  have hm : t.map byteOf = t := by
    induction t with
    | nil => rfl
    | cons c t ih =>
      obtain ⟨h1, h2, _, _⟩ := h c (by simp)
      have : byteOf c = c := by unfold byteOf; omega
      simp only [List.map_cons, this]
      rw [ih (fun x hx => h x (by simp [hx]))]
  rw [hm]
  exact cstr_id t h

theorem foldl_inv (ps : List (List Ch)) (hps : ps.length < 47) : ∀ (cs : List Ch) (st : BodySt),
    BodyInv st → Spec.plain cs → BodyInv (cs.foldl (encStep ps) st) := by
  intro cs
  induction cs with
  | nil => intro st h _; exact h
  | cons c cs ih =>
    intro st h hp
    simp only [List.foldl_cons]
    exact ih _ (encStep_inv ps hps st c h (hp c (by simp))).1 (fun x hx => hp x (by simp [hx]))

theorem encFinish_ok (ps : List (List Ch)) (hps : ps.length < 47) (st : BodySt) (h : BodyInv st) :
    ∀ x ∈ encFinish ps st, OKc x := by
  intro x hx
  simp only [encFinish] at hx
  rcases List.mem_append.mp hx with h1 | h1
  · exact (nameStep_facts ps hps st 10 h).1 x h1
  · simp only [List.mem_singleton] at h1
    subst h1
    unfold OKc ch
    decide

/-- **A plain `.define` text is stored as its word-wise substitution.**
    For parameter names `ps` (identifiers, fewer than 47), a plain text `body` that does
    not start with a blank, and any arguments: macros_parse's loop stores a text `enc`
    that macros_strip and macros_append keep as it is, and whose expansion with `args`
    is `body` with every parameter word replaced by its argument, plus the separating blank. -/
theorem define_text_subst (ps args : List (List Ch)) (hlen : args.length = ps.length)
    (hid : ∀ p ∈ ps, Spec.IsIdent p) (hps : ps.length < 47)
    (body rest : List Ch) (hplain : Spec.plain body) (hfirst : body.head? ≠ some (ch ' '))
    (hsize : 2 * body.length + 4 < maxMacroLen) (n : Nat) (hn : n > body.length) :
    ∃ enc, (bodyLoop true ps n {}).runA (body ++ 10 :: rest) = (BodyRes.ok enc, rest) ∧
      normText (macrosStrip (cstr enc)) = enc ∧
      expandText args enc = (Spec.substWords ps (args.map normText) body ++ [ch ' '], false) := by
  have hI0 : BodyInv ({} : BodySt) := ⟨by simp, by simp⟩
  refine ⟨encFinish ps (body.foldl (encStep ps) {}), ?_, ?_, ?_⟩
  · exact bodyLoop_plain ps hps rest body {} n hI0 hplain (Or.inr hfirst) (by simpa using hsize) hn
  · have hok := encFinish_ok ps hps _ (foldl_inv ps hps body {} hI0 hplain)
    rw [cstr_id _ hok, macrosStrip_id _ hok, normText_id _ hok]
  · have hinv0 : SubInv args ({} : BodySt) [] [] :=
      ⟨[], rfl, Closed_nil args, by simp, fun _ => ⟨rfl, rfl⟩, by intro c0 t h; simp at h⟩
    have := fold_subst ps args hlen hid body {} [] [] hinv0 (by
      intro c hc
      have := (plainCh_facts (hplain c hc)).1
      omega)
    simpa [Spec.substWords] using this

end NakenVerif.Macro
