/-
  Definition side of the mac machinery as reader programs:
  macros_parse_token, macros_parse (with check_endm, macros_strip,
  macros_strip_comment), macros_append (core/Macros.cpp), the `NAME equ VALUE`
  loop of AsmContext::assemble (core/AsmContext.cpp), parse_equ
  (core/directives.cpp: `.equ NAME = VALUE`, `.def`), and the statement loop of
  AsmContext::assemble as far as the reader-exposing command `mexp` needs it.

  Model of the code AS FIXED by the `fix:` commits of this property:
  parameter names are matched at word starts only (`inWord`), every expansion
  is released from the parameter arena, `equ` values are stored with a trailing
  blank like `.define` values, `.endm` is recognised at the start of the text.
-/
import NakenVerif.Macro.Lexer
import NakenVerif.Generated.MacroConsts

namespace NakenVerif.Macro

open NakenVerif.Generated NakenVerif.Macro

/-- macros_strip(): cut at the first `;` or `//` -/
def macrosStrip : List Ch → List Ch
  | [] => []
  | c :: cs =>
    if c = ch ';' then []
    else if c = ch '/' ∧ cs.head? = some (ch '/') then []
    else c :: macrosStrip cs

/-- macros_strip_comment(): skip to the end of a `/* */` comment -/
def stripComment : Nat → Ch → Prog Unit
  | 0, _ => .ret ()
  | n + 1, last =>
    .get fun c0 =>
      let c := if c0 = 9 then ch ' ' else c0
      if c = EOFc then .ret ()
      else if c = ch '/' ∧ last = ch '*' then .ret ()
      else stripComment n c

/-- walk back from `p` while `cond (mac[p])` and `p > 0` -/
def walkBack (mac : List Ch) (cond : Ch → Bool) : Nat → Nat
  | 0 => 0
  | p + 1 => if cond (mac.getD (p + 1) 0) then walkBack mac cond p else p + 1

def isBlank (c : Ch) : Bool := c = ch ' ' || c = 9
def isBlankNl (c : Ch) : Bool := c = 10 || c = ch ' ' || c = 9

/-- check_endm(macro, ptr) with ptr = macro.length: the text without the `.endm` line -/
def checkEndm (mac : List Ch) : Option (List Ch) :=
  if mac.length = 0 then none
  else
    let p := walkBack mac isBlank (mac.length - 1)
    let p := walkBack mac (fun c => !isBlankNl c) p
    -- step over the white space in front of the word, if there is any
    let p := if isBlankNl (mac.getD p 0) then p + 1 else p
    if ((mac.drop p).take 5).map lowerC = [ch '.', ch 'e', ch 'n', ch 'd', ch 'm'] then
      some (mac.take p)
    else none

/-- get_param_index(): 1-based position of `name` in the parameter list, 0 if absent -/
def paramIndex : List (List Ch) → List Ch → Nat
  | [], _ => 0
  | p :: ps, name => if p = name then 1 else
      match paramIndex ps name with
      | 0 => 0
      | k + 1 => k + 2

def trimSpaces (mac : List Ch) : List Ch :=
  (mac.reverse.dropWhile (· = ch ' ')).reverse

/-- macros_append() on the mac table; `none` = rejected (the callers ignore that) -/
def macrosAppend (env : Env) (name value : List Ch) (pc : Nat) : Option MacroDef :=
  if (lookupDef env.defs name).isSome ∨ (lookupSym env.syms name).isSome then none
  else if name.length + 1 > 127 then none
  else if name.length + 1 + (normText value).length + 1 + macroDataHeader > macrosHeapSize then none
  else some { name := name, params := pc % 256, text := normText value }

def Env.addDef (env : Env) (d : Option MacroDef) : Env :=
  match d with
  | none => env
  | some d => { env with defs := env.defs ++ [d] }

/-- macros_parse_token(): (result, name) -/
def parseNameParen : Nat → List Ch → Prog (Int × List Ch)
  | 0, name => .ret (0, name)
  | n + 1, name =>
    .get fun c0 =>
      let c := if c0 = 9 then ch ' ' else c0
      if c = ch ' ' then parseNameParen n name
      else if c = ch '(' then .ret (1, name)
      else .unget c (.ret (0, name))

def parseName (isDefine : Bool) : Nat → List Ch → Prog (Int × List Ch)
  | 0, name => .ret (0, name)
  | n + 1, name =>
    .get fun c0 =>
      let c1 := sext8 c0                       -- `char ch`
      let c := if c1 = 9 then ch ' ' else c1
      if c = ch ' ' then
        if name = [] then parseName isDefine n name
        else if isDefine then .ret (0, name)
        else parseNameParen n name
      else if isLetter c ∨ c = ch '_' then
        if (name ++ [c]).length = 127 then .ret (0, name ++ [c]) else parseName isDefine n (name ++ [c])
      else if isDigit c then
        if name = [] then .ret (-1, name)                                   -- "Bad mac name"
        else if (name ++ [c]).length = 127 then .ret (0, name ++ [c]) else parseName isDefine n (name ++ [c])
      else if c = ch '(' then .ret (1, name)
      else .unget c (.ret (0, name))

/-- accumulated side effects of a sequence of tokens_get calls -/
structure Acc where
  errs : Nat := 0
  flag : Bool := false
  deriving Repr

def Acc.add (a : Acc) (t : Tok) : Acc := { errs := a.errs + t.errs, flag := a.flag || t.flag }

inductive Stop where
  | fatal    -- exit(1)
  | fuel
  deriving Repr, DecidableEq

/-- result of macros_parse / parse_equ / the equ loop -/
structure DefRes where
  ret : Int                       -- 0 or -1
  def? : Option MacroDef := none  -- entry added by macros_append
  acc : Acc := {}
  stop : Option Stop := none
  deriving Repr

/-- the parameter list of `.mac name(a, b)`: (ok, names) -/
def paramLoop (env : Env) : Nat → List (List Ch) → Nat → Acc → Prog (Bool × List (List Ch) × Acc × Option Stop)
  | 0, ps, _, acc => .ret (false, ps, acc, some .fuel)
  | n + 1, ps, ptr, acc =>
    (tokensGet env n).bind fun t =>
      let acc := acc.add t
      if t.fatal then .ret (false, ps, acc, some .fatal)
      else if t.fuel then .ret (false, ps, acc, some .fuel)
      else if t.ty ≠ .string then .ret (false, ps, acc, none)               -- "Expected a param name"
      else if ps.length + 1 > 255 then .ret (false, ps, acc, none)
      else
        let name := cstr t.text
        if ptr + name.length + 2 > 1024 then .ret (false, ps, acc, none)
        else
          (tokensGet env n).bind fun t2 =>
            let acc := acc.add t2
            if t2.fatal then .ret (false, ps, acc, some .fatal)
            else if t2.fuel then .ret (false, ps, acc, some .fuel)
            else if cstr t2.text = [ch ')'] then .ret (true, ps ++ [name], acc, none)
            else if cstr t2.text ≠ [ch ','] then .ret (false, ps, acc, none) -- "Expected ',' or ')'"
            else paramLoop env n (ps ++ [name]) (ptr + name.length + 1) acc

/-- skip to the end of the line inside macros_parse (tabs are turned into blanks first) -/
def skipLineTab : Nat → Prog Ch
  | 0 => .ret EOFc
  | n + 1 => .get fun c => if c = 10 ∨ c = EOFc then .ret c else skipLineTab n

/-- after a `\` in a .define: the next character that is not a carriage return -/
def skipCr : Nat → Prog Ch
  | 0 => .ret EOFc
  | n + 1 => .get fun c => if c = 13 then skipCr n else .ret c

structure BodySt where
  mac : List Ch := []
  nameTest : Option Nat := none
  inWord : Bool := false
  deriving Repr

/-- the parameter-name test at the top of the loop: a name starts at a word start, and when
    the word ends it is replaced by (0x01, index) if it is a parameter -/
def nameStep (params : List (List Ch)) (st : BodySt) (c : Ch) : List Ch × Option Nat :=
  match st.nameTest with
  | none =>
    (st.mac, if (isLetter c || c = ch '_') && !st.inWord then some st.mac.length else none)
  | some nt =>
    if !(isLetter c || isDigit c || c = ch '_') then
      (if paramIndex params (st.mac.drop nt) ≠ 0 then
         st.mac.take nt ++ [1, (paramIndex params (st.mac.drop nt) : Int)] else st.mac, none)
    else (st.mac, some nt)

inductive BodyRes where
  | ok (text : List Ch)     -- the text handed to macros_strip / macros_append
  | err                     -- an error was printed, -1 returned
  | fuel
  deriving Repr, DecidableEq

/-- the `while (true)` loop of macros_parse that collects the text -/
def bodyLoop (isDefine : Bool) (params : List (List Ch)) : Nat → BodySt → Prog BodyRes
  | 0, _ => .ret .fuel
  | n + 1, st =>
    .get fun c0 =>
      let c := if c0 = 9 then ch ' ' else c0
      let isWord := isLetter c || isDigit c || c = ch '_'
      let mac := (nameStep params st c).1
      let st1 : BodySt := { mac := mac, nameTest := (nameStep params st c).2, inWord := isWord }
      -- the rest of the pass, with the character possibly replaced by the end of a comment line
      let rest (mac : List Ch) (c : Ch) : Prog BodyRes :=
        let st2 : BodySt := { st1 with mac := mac }
        if c = 13 then bodyLoop isDefine params n st2
        else if c = ch ' ' ∧ mac.length = 0 then bodyLoop isDefine params n st2
        else if c = ch '\\' ∧ isDefine then
          (skipCr n).bind fun c2 =>
            if c2 ≠ 10 then .ret .err                                       -- "Expected end-of_line"
            else bodyLoop isDefine params n st2
        else
          let append : Prog BodyRes :=
            if c = ch '*' ∧ mac.getLast? = some (ch '/') then
              (stripComment n 0).bind fun _ => bodyLoop isDefine params n { st2 with mac := mac.dropLast }
            else if (mac ++ [c]).length + 2 ≥ maxMacroLen then .ret .err   -- "mac longer than"
            else bodyLoop isDefine params n { st2 with mac := mac ++ [c] }
          if c = 10 ∨ c = EOFc then
            if isDefine then .ret (.ok (mac ++ [ch ' ']))
            else
              match checkEndm mac with
              | some text => .ret (.ok text)
              | none => append
          else append
      if c = ch ';' ∨ (c = ch '/' ∧ mac.getLast? = some (ch '/')) then
        let mac := if mac.getLast? = some (ch '/') then mac.dropLast else mac
        (skipLineTab n).bind fun c' => rest (trimSpaces mac) c'
      else rest mac c

/-- macros_parse() -/
def macrosParse (env : Env) (isDefine : Bool) (n : Nat) : Prog DefRes :=
  (parseName isDefine n []).bind fun (parens, name) =>
    if parens = -1 then .ret { ret := -1 }
    else
      let withParams (ps : List (List Ch)) (acc : Acc) : Prog DefRes :=
        let body (acc : Acc) : Prog DefRes :=
          (bodyLoop isDefine ps n {}).bind fun r =>
            match r with
            | .fuel => .ret { ret := -1, acc := acc, stop := some .fuel }
            | .err => .ret { ret := -1, acc := acc }
            | .ok text =>
              .ret { ret := 0, def? := macrosAppend env name (macrosStrip (cstr text)) ps.length, acc := acc }
        if isDefine then body acc
        else
          (tokensGet env n).bind fun t =>
            let acc := acc.add t
            if t.fatal then .ret { ret := -1, acc := acc, stop := some .fatal }
            else if t.fuel then .ret { ret := -1, acc := acc, stop := some .fuel }
            else if t.ty ≠ .eol then .ret { ret := -1, acc := acc }          -- unexpected token
            else body acc
      if parens ≠ 0 then
        (paramLoop env n [] 0 {}).bind fun (ok, ps, acc, stop) =>
          match stop with
          | some s => .ret { ret := -1, acc := acc, stop := some s }
          | none => if !ok then .ret { ret := -1, acc := acc } else withParams ps acc
      else withParams [] {}

/-- the `NAME equ VALUE` loop of AsmContext::assemble -/
def equLoop : Nat → List Ch → Prog (Option (List Ch))
  | 0, _ => .ret none
  | n + 1, tok =>
    .get fun c0 =>
      if c0 = EOFc ∨ c0 = 10 then .unget c0 (.ret (some tok))
      else
        let c := if c0 = 9 then ch ' ' else c0
        if c = ch '*' ∧ tok.getLast? = some (ch '/') then
          (stripComment n 0).bind fun _ => equLoop n tok.dropLast
        else if (tok ++ [c]).length = tokenLen - 1 then .ret none            -- "token overflow": return -1
        else equLoop n (tok ++ [c])

def equLine (env : Env) (name : List Ch) (n : Nat) : Prog DefRes :=
  (equLoop n []).bind fun r =>
    match r with
    | none => .ret { ret := -1 }
    | some text => .ret { ret := 0, def? := macrosAppend env name (macrosStrip (cstr text) ++ [ch ' ']) 0 }

/-- parse_equ(): `.equ NAME = VALUE` -/
def parseEqu (env : Env) (n : Nat) : Prog DefRes :=
  (tokensGet { env with ignoreSymbols := true } n).bind fun t1 =>
    let acc : Acc := ({} : Acc).add t1
    if t1.fatal then .ret { ret := -1, acc := acc, stop := some .fatal }
    else if t1.fuel then .ret { ret := -1, acc := acc, stop := some .fuel }
    else if t1.ty = .eol ∨ t1.ty = .eof then .ret { ret := -1, acc := acc }
    else
      (tokensGet env n).bind fun t2 =>
        let acc := acc.add t2
        if t2.fatal then .ret { ret := -1, acc := acc, stop := some .fatal }
        else if t2.fuel then .ret { ret := -1, acc := acc, stop := some .fuel }
        else if cstr t2.text ≠ [ch '='] then .ret { ret := -1, acc := acc }
        else
          (tokensGet env n).bind fun t3 =>
            let acc := acc.add t3
            if t3.fatal then .ret { ret := -1, acc := acc, stop := some .fatal }
            else if t3.fuel then .ret { ret := -1, acc := acc, stop := some .fuel }
            else
              (tokensGet env n).bind fun t4 =>
                let acc := acc.add t4
                if t4.fatal then .ret { ret := -1, acc := acc, stop := some .fatal }
                else if t4.fuel then .ret { ret := -1, acc := acc, stop := some .fuel }
                else if t4.ty ≠ .eol ∧ t4.ty ≠ .eof then .ret { ret := -1, acc := acc }
                else .ret { ret := 0, def? := macrosAppend env (cstr t1.text) (cstr t3.text ++ [ch ' ']) 0, acc := acc }

end NakenVerif.Macro
