/-
  macros_parse stores a plain `.define` text in a form whose expansion is the
  word-wise substitution of the specification.
  Part 1: on plain text the loop of macros_parse is a fold of `encStep`.
-/
import NakenVerif.Macro.ProofsLocal

namespace NakenVerif.Macro

open NakenVerif.Generated NakenVerif.Macro

/-- one plain character: parameter-name test, then the character is appended -/
def encStep (ps : List (List Ch)) (st : BodySt) (c : Ch) : BodySt :=
  { mac := (nameStep ps st c).1 ++ [c], nameTest := (nameStep ps st c).2,
    inWord := isLetter c || isDigit c || c = ch '_' }

/-- the end of the line: last parameter-name test, then the separating blank -/
def encFinish (ps : List (List Ch)) (st : BodySt) : List Ch := (nameStep ps st 10).1 ++ [ch ' ']

theorem plainCh_facts {c : Ch} (h : Spec.plainCh c = true) :
    32 ≤ c ∧ c ≤ 255 ∧ c ≠ ch ';' ∧ c ≠ ch '/' ∧ c ≠ ch '\\' := by
  simp only [Spec.plainCh, Bool.and_eq_true, decide_eq_true_eq, bne_iff_ne, ne_eq] at h
  exact ⟨h.1.1.1.1, h.1.1.1.2, h.1.1.2, h.1.2, h.2⟩

theorem bodyLoop_plain_step (ps : List (List Ch)) (n : Nat) (st : BodySt) (c : Ch) (l : List Ch)
    (hc : Spec.plainCh c = true)
    (hblank : ¬ (c = ch ' ' ∧ (nameStep ps st c).1.length = 0))
    (hlen : ((nameStep ps st c).1 ++ [c]).length + 2 < maxMacroLen)
    (hslash : (nameStep ps st c).1.getLast? ≠ some (ch '/')) :
    (bodyLoop true ps (n + 1) st).runA (c :: l) = (bodyLoop true ps n (encStep ps st c)).runA l := by
  obtain ⟨h32, h255, hsemi, hsl, hbs⟩ := plainCh_facts hc
  have h9 : ¬ c = 9 := by omega
  have h13 : ¬ c = 13 := by omega
  have h10 : ¬ (c = 10 ∨ c = EOFc) := by unfold EOFc; omega
  have hcom : ¬ (c = ch ';' ∨ c = ch '/' ∧ (nameStep ps st c).1.getLast? = some (ch '/')) := by
    intro h
    rcases h with h | h
    · exact hsemi h
    · exact hsl h.1
  have hstar : ¬ (c = ch '*' ∧ (nameStep ps st c).1.getLast? = some (ch '/')) := fun h => hslash h.2
  have hlen' : ¬ ((nameStep ps st c).1 ++ [c]).length + 2 ≥ maxMacroLen := by omega
  simp only [bodyLoop, Prog.runA, Prog.getA, h9, if_false, hcom, h13, hblank, hbs, h10, hstar, hlen', encStep, false_and, and_true]

theorem bodyLoop_newline (ps : List (List Ch)) (n : Nat) (st : BodySt) (l : List Ch) :
    (bodyLoop true ps (n + 1) st).runA (10 :: l) = (BodyRes.ok (encFinish ps st), l) := by
  simp [bodyLoop, Prog.runA, Prog.getA, ch, encFinish]

/-! ### the fold -/

theorem paramIndex_le (ps : List (List Ch)) (w : List Ch) : paramIndex ps w ≤ ps.length := by
  induction ps with
  | nil => simp [paramIndex]
  | cons p ps ih =>
    simp only [paramIndex]
    split
    · simp
    · split
      · simp
      · rename_i k hk
        rw [hk] at ih
        simp only [List.length_cons]
        omega

/-- a stored character that macros_strip and the C string leave alone -/
def OKc (x : Ch) : Prop := 1 ≤ x ∧ x ≤ 255 ∧ x ≠ ch ';' ∧ x ≠ ch '/'

/-- invariant of the loop on plain text -/
def BodyInv (st : BodySt) : Prop :=
  (∀ x ∈ st.mac, OKc x) ∧ (∀ nt, st.nameTest = some nt → nt < st.mac.length)

theorem OKc_of_plain {c : Ch} (h : Spec.plainCh c = true) : OKc c := by
  obtain ⟨h32, h255, hsemi, hsl, _⟩ := plainCh_facts h
  exact ⟨by omega, h255, hsemi, hsl⟩

theorem nameStep_facts (ps : List (List Ch)) (hps : ps.length < 47) (st : BodySt) (c : Ch) (hI : BodyInv st) :
    (∀ x ∈ (nameStep ps st c).1, OKc x) ∧ (nameStep ps st c).1.length ≤ st.mac.length + 1 ∧
    (∀ k, (nameStep ps st c).2 = some k → k ≤ (nameStep ps st c).1.length) ∧
    (st.mac ≠ [] → (nameStep ps st c).1 ≠ []) := by
  obtain ⟨hok, hnt⟩ := hI
  unfold nameStep
  cases hn : st.nameTest with
  | none =>
    simp only
    refine ⟨hok, by omega, ?_, fun h => h⟩
    intro k hk
    split at hk
    · cases hk; exact Nat.le_refl _
    · cases hk
  | some nt =>
    have hlt := hnt nt hn
    simp only
    by_cases hw : (!(isLetter c || isDigit c || decide (c = ch '_'))) = true
    · rw [if_pos hw]
      by_cases hidx : paramIndex ps (st.mac.drop nt) ≠ 0
      · rw [if_pos hidx]
        have hle := paramIndex_le ps (st.mac.drop nt)
        refine ⟨?_, ?_, ?_, ?_⟩
        · intro x hx
          rcases List.mem_append.mp hx with h | h
          · exact hok x (List.mem_of_mem_take h)
          · simp only [List.mem_cons, List.not_mem_nil, or_false] at h
            rcases h with h | h
            · subst h; unfold OKc ch; decide
            · subst h
              refine ⟨by omega, by omega, ?_, ?_⟩
              · unfold ch; simp; omega
              · unfold ch; simp; omega
        · simp only [List.length_append, List.length_take, List.length_cons, List.length_nil]
          omega
        · intro k hk; cases hk
        · intro _; simp
      · rw [if_neg hidx]
        refine ⟨hok, by simp, ?_, fun h => h⟩
        intro k hk; cases hk
    · rw [if_neg hw]
      refine ⟨hok, by simp, ?_, fun h => h⟩
      intro k hk
      simp only [Option.some.injEq] at hk
      simp only
      omega

theorem encStep_inv (ps : List (List Ch)) (hps : ps.length < 47) (st : BodySt) (c : Ch) (hI : BodyInv st)
    (hc : Spec.plainCh c = true) : BodyInv (encStep ps st c) ∧
      (encStep ps st c).mac.length ≤ st.mac.length + 2 ∧ (encStep ps st c).mac ≠ [] := by
  obtain ⟨f1, f2, f3, _⟩ := nameStep_facts ps hps st c hI
  refine ⟨⟨?_, ?_⟩, ?_, by simp [encStep]⟩
  · intro x hx
    simp only [encStep] at hx
    rcases List.mem_append.mp hx with h | h
    · exact f1 x h
    · simp only [List.mem_singleton] at h
      subst h
      exact OKc_of_plain hc
  · intro nt h
    simp only [encStep] at h ⊢
    have := f3 nt h
    simp only [List.length_append, List.length_cons, List.length_nil]
    omega
  · simp only [encStep, List.length_append, List.length_cons, List.length_nil]
    omega

theorem getLast_ne_slash_of_OK (m : List Ch) (h : ∀ x ∈ m, OKc x) : m.getLast? ≠ some (ch '/') := by
  intro hl
  exact (h _ (List.mem_of_getLast? hl)).2.2.2 rfl

/-- on plain text the loop of macros_parse (for a `.define`) is the fold of `encStep` -/
theorem bodyLoop_plain (ps : List (List Ch)) (hps : ps.length < 47) (rest : List Ch) :
    ∀ (cs : List Ch) (st : BodySt) (n : Nat), BodyInv st → Spec.plain cs →
      (st.mac ≠ [] ∨ cs.head? ≠ some (ch ' ')) →
      st.mac.length + 2 * cs.length + 4 < maxMacroLen → n > cs.length →
      (bodyLoop true ps n st).runA (cs ++ 10 :: rest) =
        (BodyRes.ok (encFinish ps (cs.foldl (encStep ps) st)), rest) := by
  intro cs
  induction cs with
  | nil =>
    intro st n _ _ _ _ hn
    cases n with
    | zero => simp at hn
    | succ n => simpa using bodyLoop_newline ps n st rest
  | cons c cs ih =>
    intro st n hI hpl hfirst hlen hn
    cases n with
    | zero => simp at hn
    | succ n =>
      have hc := hpl c (by simp)
      obtain ⟨f1, f2, f3, f4⟩ := nameStep_facts ps hps st c hI
      obtain ⟨i1, i2, i3⟩ := encStep_inv ps hps st c hI hc
      have hblank : ¬ (c = ch ' ' ∧ (nameStep ps st c).1.length = 0) := by
        intro h
        rcases hfirst with h1 | h1
        · exact f4 h1 (List.length_eq_zero_iff.mp h.2)
        · apply h1; simp [h.1]
      simp only [List.cons_append, List.foldl_cons]
      rw [bodyLoop_plain_step ps n st c _ hc hblank
        (by simp only [List.length_append, List.length_cons, List.length_nil, List.length_cons] at hlen ⊢; omega)
        (getLast_ne_slash_of_OK _ f1)]
      exact ih (encStep ps st c) n i1 (fun x hx => hpl x (by simp [hx])) (Or.inl i3)
        (by simp only [List.length_cons] at hlen; omega) (by simpa using hn)

end NakenVerif.Macro
