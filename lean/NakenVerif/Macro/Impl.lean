/-
  Character-level implementation model of the reader of naken_asm
  (core/tokens.cpp: tokens_get_char, tokens_unget_char; core/Macros.cpp:
  macros_get_char, macros_push_define, the arena part of macros_expand_params).

  State of the C code                          | here
  ---------------------------------------------+-------------------------------------------
  char unget[512], unget_ptr                   | `unget` (top first), capacity `ungetLen`
  unget_stack[129], unget_stack_ptr            | `Frame.mark` of every frame
  macros.stack[128], stack_ptr (text pointers) | `Frame.text` = characters not read yet
  def_param_stack_ptr[129], .._count           | `arena` = [ptr[count], …, ptr[1]]
  FILE *in (or token_buffer)                   | `file` (bytes not read yet)

  `unget_stack_ptr` and `macros.stack_ptr` are one list of frames: the code
  increments them together (tokens_get: macros_push_define, then
  `unget_stack[++unget_stack_ptr] = unget_ptr`, nothing in between) and
  decrements them together (macros_get_char), and resets both in
  AsmContext::init().

  Characters are C `int`s (`Ch := Int`, EOF = -1).  `unget[]` is an array of
  `char`: what is read back is the sign-extended low byte (`sext8`), so an
  ungot byte 0xff and an ungot EOF are both read back as -1.  Macro text is
  read through `(uint8_t)`, so its characters are 1..255.

  Everything that reads characters (tokens_get, macros_parse, the argument
  collector of macros_expand_params, the `equ` loop of AsmContext::assemble)
  is written once as a `Prog`, a tree of reader operations.  `Prog.run`
  executes it on the concrete `Reader`, `Prog.runA` on a plain character
  list; `Proofs.lean` shows that the two agree (`Prog.run_refines`).

  Capacity events (`Event`) are recorded in the ghost field `ev` (sticky,
  first event wins).  They never change what the model computes; theorems are
  stated for runs in which none occurred.
-/
import NakenVerif.Generated.Limits

namespace NakenVerif.Macro

open NakenVerif.Generated

/-- a C `int` holding a character or EOF -/
scoped notation "Ch" => Int

/-- EOF of <stdio.h>, CHAR_EOF of Macros.h -/
def EOFc : Ch := -1

/-- value of `(int)(char)c` -/
def sext8 (c : Ch) : Ch := (c + 128) % 256 - 128

/-- value of `(uint8_t)c` -/
def byteOf (c : Ch) : Ch := c % 256

/-- C string held in a char array: ends at the first NUL -/
def cstr : List Ch → List Ch
  | [] => []
  | c :: cs => if c = 0 then [] else c :: cstr cs

structure Frame where
  mark : Nat            -- unget_stack[k]: value of unget_ptr when the macro was entered
  text : List Ch        -- rest of macros.stack[k-1] (NUL = end of list)
  arena : Bool          -- the text lives in def_param_stack_data (released when exhausted)
  deriving Repr, DecidableEq

inductive Event where
  | ungetOverflow       -- tokens_unget_char wrote unget[512] (undefined behaviour in C)
  | nested              -- MAX_NESTED_MACROS texts / arena levels: the code reports an error
  | arenaFull           -- def_param_stack_data exhausted: the code calls exit(1)
  | arenaUnderflow      -- def_param_stack_count < 0: exit(1) (unreachable, kept for totality)
  | eofBelowMark        -- a character read back as -1 went below a macro's mark: macros_get_char's
                        -- caller takes it for CHAR_EOF and drops it
  deriving Repr, DecidableEq

structure Reader where
  unget : List Ch := []
  frames : List Frame := []
  file : List Ch := []
  arena : List Nat := []
  ev : Option Event := none
  deriving Repr

def Reader.note (r : Reader) (e : Event) : Reader :=
  match r.ev with
  | none => { r with ev := some e }
  | some _ => r

/-- text as it sits in a `char` array and is read back through `(uint8_t)`:
    bytes 1..255 up to the first NUL -/
def normText (t : List Ch) : List Ch := cstr (t.map byteOf)

def topMark : List Frame → Nat
  | [] => 0
  | f :: _ => f.mark

/-- the `do … while (ch == '\r')` around getc() -/
def fileGet : List Ch → Ch × List Ch
  | [] => (EOFc, [])
  | c :: cs => if c = 13 then fileGet cs else (c, cs)

/-- macros_get_char(): the `while (true)` loop, one frame per pass.
    Returns the character, the unget buffer, the frames, the arena and whether
    `def_param_stack_count` went below zero. -/
def macrosGetChar (unget : List Ch) (arena : List Nat) :
    List Frame → Ch × List Ch × List Frame × List Nat × Bool
  | [] => (EOFc, unget, [], arena, false)
  | f :: fs =>
    match f.text with
    | c :: t => (c, unget, { f with text := t } :: fs, arena, false)
    | [] =>
      -- NUL: drop the #define stack by one level
      let under := f.arena && arena.isEmpty
      let arena' := if f.arena then arena.tail else arena
      if unget.length > topMark fs then
        (unget.headD 0, unget.tail, fs, arena', under)
      else
        let (c, u, fr, a, un) := macrosGetChar unget arena' fs
        (c, u, fr, a, under || un)

/-- tokens_get_char() after macros_get_char() returned `ch`: CHAR_EOF means
    "no macro text", look at the unget buffer once more, then read the file -/
def getCharAfter (ch : Ch) (r1 : Reader) : Ch × Reader :=
  if ch = EOFc then
    if r1.unget.length > topMark r1.frames then
      (r1.unget.headD 0, { r1 with unget := r1.unget.tail })
    else
      ((fileGet r1.file).1, { r1 with file := (fileGet r1.file).2 })
  else (ch, r1)

/-- tokens_get_char() -/
def getChar (r : Reader) : Ch × Reader :=
  if r.unget.length > topMark r.frames then
    (r.unget.headD 0, { r with unget := r.unget.tail })
  else
    let res := macrosGetChar r.unget r.arena r.frames
    let r1 : Reader := { r with unget := res.2.1, frames := res.2.2.1, arena := res.2.2.2.1 }
    getCharAfter res.1 (if res.2.2.2.2 then r1.note .arenaUnderflow else r1)

/-- tokens_unget_char(): `unget[unget_ptr++] = ch` (no bound test in the code) -/
def ungetChar (c : Ch) (r : Reader) : Reader :=
  let r := if r.unget.length ≥ ungetLen then r.note .ungetOverflow else r
  { r with unget := sext8 c :: r.unget }

/-- macros_push_define() followed by `unget_stack[++unget_stack_ptr] = unget_ptr` -/
def pushDefine (text : List Ch) (arena : Bool) (r : Reader) : Bool × Reader :=
  if r.frames.length ≥ maxNestedMacros then (false, r.note .nested)
  else
    let top := r.unget.take (r.unget.length - topMark r.frames)
    let r := if top.any (· == EOFc) then r.note .eofBelowMark else r
    (true, { r with frames := { mark := r.unget.length, text := normText text, arena := arena } :: r.frames })

inductive AllocRes where
  | ok        -- expansion written, def_param_stack_count incremented
  | nested    -- "Macros nested too deep"
  | bad       -- "Bad parameter reference in macro"
  | exit      -- print_error_internal + exit(1)
  deriving Repr, DecidableEq

/-- second half of macros_expand_params(): write the expansion `text` into
    def_param_stack_data.  `bad`: the walk over the definition stopped at a bad
    parameter reference after having produced `text`. -/
def arenaAlloc (text : List Ch) (bad : Bool) (r : Reader) : AllocRes × Reader :=
  if r.arena.length ≥ maxNestedMacros then (.nested, r.note .nested)
  else if r.arena.headD 0 ≥ paramStackLen then (.exit, r.note .arenaFull)
  else if text.length > 0 ∧ r.arena.headD 0 + text.length ≥ paramStackLen then (.exit, r.note .arenaFull)
  else if bad then (.bad, r)
  else (.ok, { r with arena := (r.arena.headD 0 + text.length + 1) :: r.arena })

/-- a program over the reader -/
inductive Prog (α : Type) where
  | ret : α → Prog α
  | get : (Ch → Prog α) → Prog α
  | unget : Ch → Prog α → Prog α
  | alloc : List Ch → Bool → (AllocRes → Prog α) → Prog α
  | push : List Ch → Bool → (Bool → Prog α) → Prog α

namespace Prog

def bind {α β : Type} : Prog α → (α → Prog β) → Prog β
  | .ret a, f => f a
  | .get k, f => .get fun c => (k c).bind f
  | .unget c k, f => .unget c (k.bind f)
  | .alloc t b k, f => .alloc t b fun r => (k r).bind f
  | .push t a k, f => .push t a fun ok => (k ok).bind f

instance : Monad Prog where
  pure := .ret
  bind := bind

def getc : Prog Ch := .get .ret
def ungetc (c : Ch) : Prog Unit := .unget c (.ret ())
def allocText (t : List Ch) (bad : Bool) : Prog AllocRes := .alloc t bad .ret
def pushText (t : List Ch) (arena : Bool) : Prog Bool := .push t arena .ret

/-- execution on the concrete reader -/
def run {α : Type} : Prog α → Reader → α × Reader
  | .ret a, r => (a, r)
  | .get k, r => let (c, r') := getChar r; (k c).run r'
  | .unget c k, r => k.run (ungetChar c r)
  | .alloc t b k, r => let (res, r') := arenaAlloc t b r; (k res).run r'
  | .push t a k, r => let (ok, r') := pushDefine t a r; (k ok).run r'

/-- reading a plain character list -/
def getA : List Ch → Ch × List Ch
  | [] => (EOFc, [])
  | c :: l => (c, l)

/-- execution on the character stream alone (no capacities) -/
def runA {α : Type} : Prog α → List Ch → α × List Ch
  | .ret a, l => (a, l)
  | .get k, l => (k (getA l).1).runA (getA l).2
  | .unget c k, l => k.runA (sext8 c :: l)
  | .alloc _ bad k, l => (k (if bad then .bad else .ok)).runA l
  | .push t _ k, l => (k true).runA (normText t ++ l)

end Prog

end NakenVerif.Macro
