/-
  Locality of reader programs (a program that does not read past the end of a text
  behaves the same when more text follows) and what it means for `.include`;
  the stored form of a plain `equ` value.
-/
import NakenVerif.Macro.ProofsArgs
import NakenVerif.Macro.Define

namespace NakenVerif.Macro

open NakenVerif.Generated NakenVerif.Macro

/-- execution on a character list that fails when the program reads past its end -/
def Prog.runN {α : Type} : Prog α → List Ch → Option (α × List Ch)
  | .ret a, l => some (a, l)
  | .get _, [] => none
  | .get k, c :: l => (k c).runN l
  | .unget c k, l => k.runN (sext8 c :: l)
  | .alloc _ bad k, l => (k (if bad then .bad else .ok)).runN l
  | .push t _ k, l => (k true).runN (normText t ++ l)

theorem Prog.runN_append {α : Type} (p : Prog α) :
    ∀ (l : List Ch) (a : α) (l' : List Ch), p.runN l = some (a, l') →
      ∀ rest, p.runA (l ++ rest) = (a, l' ++ rest) := by
  induction p with
  | ret a =>
    intro l b l' h rest
    simp only [Prog.runN, Option.some.injEq, Prod.mk.injEq] at h
    simp [Prog.runA, h.1, h.2]
  | get k ih =>
    intro l b l' h rest
    cases l with
    | nil => simp [Prog.runN] at h
    | cons c l2 =>
      simp only [Prog.runN] at h
      simp only [Prog.runA, List.cons_append, Prog.getA]
      exact ih c l2 b l' h rest
  | unget c k ih =>
    intro l b l' h rest
    simp only [Prog.runN] at h
    simp only [Prog.runA]
    have := ih (sext8 c :: l) b l' h rest
    simpa using this
  | alloc t bad k ih =>
    intro l b l' h rest
    simp only [Prog.runN] at h
    simp only [Prog.runA]
    exact ih _ l b l' h rest
  | push t a k ih =>
    intro l b l' h rest
    simp only [Prog.runN] at h
    simp only [Prog.runA]
    have := ih true (normText t ++ l) b l' h rest
    simpa [List.append_assoc] using this

theorem fileStream_append (a b : List Ch) : fileStream (a ++ b) = fileStream a ++ fileStream b := by
  simp [fileStream]

theorem streamF_file (u : List Ch) (fs : List Frame) (file : List Ch) :
    streamF u fs file = streamF u fs [] ++ fileStream file := by
  induction fs generalizing u with
  | nil => simp [streamF, fileStream]
  | cons f fs ih =>
    simp only [streamF]
    rw [ih]
    simp [List.append_assoc]

/-- restoring the outer file after the included one was read to its end -/
theorem stream_restore_file (r : Reader) (h : stream r = []) (outer : List Ch) :
    stream { r with file := outer } = fileStream outer := by
  unfold stream at h ⊢
  rw [streamF_file] at h
  have h1 : streamF r.unget r.frames [] = [] := (List.append_eq_nil_iff.mp h).1
  simp only
  rw [streamF_file, h1]
  rfl

theorem WF_file (file : List Ch) : WF { file := file } := ⟨rfl, trivial⟩

theorem stream_file (file : List Ch) : stream { file := file } = fileStream file := by
  simp [stream, streamF]

/-! ### the stored form of a plain equ value -/

theorem sext8_nl : sext8 10 = 10 := by decide

theorem plain_getLast_ne_slash (t : List Ch) (h : Spec.plain t) : t.getLast? ≠ some (ch '/') := by
  intro hl
  have hm : ch '/' ∈ t := List.mem_of_getLast? hl
  have := h _ hm
  revert this
  decide

theorem equLoop_plain (rest : List Ch) : ∀ (v tok : List Ch) (n : Nat), Spec.plain v → Spec.plain tok →
    (tok ++ v).length + 1 < tokenLen → n > v.length →
    (equLoop n tok).runA (v ++ 10 :: rest) = (some (tok ++ v), 10 :: rest) := by
  intro v
  induction v with
  | nil =>
    intro tok n _ _ _ hn
    cases n with
    | zero => simp at hn
    | succ n =>
      simp only [equLoop, List.nil_append, Prog.runA, Prog.getA, List.append_nil, or_true, if_true, sext8_nl]
  | cons c v ih =>
    intro tok n hv ht hlen hn
    cases n with
    | zero => simp at hn
    | succ n =>
      have hc := hv c (by simp)
      have hc' : (32 ≤ c ∧ c ≤ 255) ∧ c ≠ ch ';' ∧ c ≠ ch '/' ∧ c ≠ ch '\\' := by
        simpa [Spec.plainCh, and_assoc] using hc
      have h1 : ¬ (c = EOFc ∨ c = 10) := by
        unfold EOFc
        omega
      have h2 : ¬ c = 9 := by omega
      have h3 : ¬ (c = ch '*' ∧ tok.getLast? = some (ch '/')) := fun h => plain_getLast_ne_slash tok ht h.2
      have h4 : ¬ (tok ++ [c]).length = tokenLen - 1 := by
        simp only [List.length_append, List.length_cons, List.length_nil] at hlen ⊢
        unfold tokenLen at hlen ⊢
        omega
      simp only [equLoop, List.cons_append, Prog.runA, Prog.getA]
      simp only [h1, h2, if_false, h3, h4]
      have := ih (tok ++ [c]) n (fun x hx => hv x (by simp [hx]))
        (by
          intro x hx
          rcases List.mem_append.mp hx with h | h
          · exact ht x h
          · simp only [List.mem_singleton] at h
            subst h
            exact hc)
        (by simpa [List.append_assoc] using hlen) (by simpa using hn)
      simpa [List.append_assoc] using this

end NakenVerif.Macro
