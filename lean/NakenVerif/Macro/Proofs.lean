/-
  The character stream of a reader state and the refinement
  "every reader program sees only the stream".
-/
import NakenVerif.Macro.Impl

namespace NakenVerif.Macro

open NakenVerif.Generated NakenVerif.Macro

/-- what getc() delivers: the file without carriage returns -/
def fileStream (f : List Ch) : List Ch := f.filter (· ≠ 13)

/-- characters that successive tokens_get_char() calls return, for the unget
    buffer `u`, the macro frames and the file (appendix A.4 of DESIGN.md):
    ungot characters above the top mark, rest of the innermost text, then the
    same for the next frame, down to the file. -/
def streamF : List Ch → List Frame → List Ch → List Ch
  | u, [], file => u ++ fileStream file
  | u, f :: fs, file =>
      u.take (u.length - f.mark) ++ (f.text ++ streamF (u.drop (u.length - f.mark)) fs file)

def stream (r : Reader) : List Ch := streamF r.unget r.frames r.file

/-- marks are within the unget buffer and descending, nothing that reads back as
    -1 lies below a mark or inside a macro text -/
def WFF : List Ch → List Frame → Prop
  | _, [] => True
  | u, f :: fs =>
      f.mark ≤ u.length ∧ (∀ c ∈ f.text, c ≠ EOFc) ∧
      (∀ c ∈ u.drop (u.length - f.mark), c ≠ EOFc) ∧ WFF (u.drop (u.length - f.mark)) fs

def WF (r : Reader) : Prop := r.ev = none ∧ WFF r.unget r.frames

theorem WFF_topMark_le {u : List Ch} {fs : List Frame} (h : WFF u fs) : topMark fs ≤ u.length := by
  cases fs with
  | nil => simp [topMark]
  | cons f fs => exact h.1

theorem fileGet_stream (f : List Ch) :
    Prog.getA (fileStream f) = ((fileGet f).1, fileStream (fileGet f).2) := by
  induction f with
  | nil => simp [fileStream, fileGet, Prog.getA]
  | cons c cs ih =>
    unfold fileGet
    by_cases h : c = 13
    · simp only [h, if_true]
      rw [← ih]
      simp [fileStream]
    · simp only [h, if_false]
      simp [fileStream, h, Prog.getA]

theorem note_ev_ne (r : Reader) (e : Event) : (r.note e).ev ≠ none := by
  unfold Reader.note
  cases h : r.ev <;> simp [h]

theorem note_of_ev_none {r : Reader} {e : Event} (h : (r.note e).ev = none) : False :=
  note_ev_ne r e h

/-- a character above the top mark is the head of the stream -/
theorem streamF_pop (file : List Ch) (x : Ch) (u' : List Ch) (fs : List Frame)
    (hwf : WFF (x :: u') fs) (hgt : (x :: u').length > topMark fs) :
    streamF (x :: u') fs file = x :: streamF u' fs file ∧ WFF u' fs := by
  cases fs with
  | nil => simp [streamF, WFF]
  | cons g gs =>
    obtain ⟨gm, gt, gb, gr⟩ := hwf
    simp only [topMark, List.length_cons] at hgt
    have e1 : u'.length + 1 - g.mark = (u'.length - g.mark) + 1 := by omega
    simp only [List.length_cons, e1, List.drop_succ_cons] at gb gr
    refine ⟨?_, by omega, gt, gb, gr⟩
    simp [streamF, e1]

/-- macros_get_char on a state whose top segment is empty -/
theorem macrosGetChar_stream (file : List Ch) (arena : List Nat) :
    ∀ (fs : List Frame) (u : List Ch), WFF u fs → u.length ≤ topMark fs →
      (((macrosGetChar u arena fs).1 = EOFc ∧ (macrosGetChar u arena fs).2.1 = [] ∧
          (macrosGetChar u arena fs).2.2.1 = [] ∧ streamF u fs file = fileStream file) ∨
       ((macrosGetChar u arena fs).1 ≠ EOFc ∧
          streamF u fs file =
            (macrosGetChar u arena fs).1 ::
              streamF (macrosGetChar u arena fs).2.1 (macrosGetChar u arena fs).2.2.1 file ∧
          WFF (macrosGetChar u arena fs).2.1 (macrosGetChar u arena fs).2.2.1)) := by
  intro fs
  induction fs generalizing arena with
  | nil =>
    intro u _ hle
    have hu : u = [] := by
      cases u with
      | nil => rfl
      | cons a t => simp [topMark] at hle
    left
    simp [macrosGetChar, hu, streamF]
  | cons f fs ih =>
    intro u hwf hle
    obtain ⟨hm, htext, hbelow, hrest⟩ := hwf
    have hlen : u.length = f.mark := by
      simp only [topMark] at hle
      omega
    have hz : u.length - f.mark = 0 := by omega
    cases ht : f.text with
    | cons c t =>
      right
      have hc : c ≠ EOFc := htext c (by simp [ht])
      simp only [macrosGetChar, ht]
      refine ⟨hc, ?_, ?_⟩
      · simp [streamF, ht, hz]
      · refine ⟨hm, ?_, hbelow, hrest⟩
        intro x hx
        exact htext x (by simp [ht, hx])
    | nil =>
      simp only [hz, List.drop_zero] at hbelow hrest
      by_cases hgt : u.length > topMark fs
      · -- an ungot character waits above the outer mark
        right
        cases hu : u with
        | nil => simp [hu] at hgt
        | cons x u' =>
          have hx : x ≠ EOFc := hbelow x (by simp [hu])
          simp only [macrosGetChar, ht]
          rw [hu] at hgt hrest
          rw [if_pos hgt]
          simp only [List.headD_cons, List.tail_cons]
          have hp := streamF_pop file x u' fs hrest hgt
          refine ⟨hx, ?_, hp.2⟩
          have hz' : (x :: u').length - f.mark = 0 := by rw [← hu]; exact hz
          simp only [streamF, ht, hz', List.take_zero, List.nil_append, List.drop_zero]
          exact hp.1
      · have hle' : u.length ≤ topMark fs := by omega
        have := ih (if f.arena then arena.tail else arena) u hrest hle'
        simp only [macrosGetChar, ht]
        rw [if_neg hgt]
        simp only [streamF, ht, hz, List.take_zero, List.nil_append, List.drop_zero]
        exact this

theorem getCharAfter_ev (ch : Ch) (r1 : Reader) : (getCharAfter ch r1).2.ev = r1.ev := by
  unfold getCharAfter
  split
  · split <;> rfl
  · rfl

/-- tokens_get_char() returns the head of the stream -/
theorem getChar_stream (r : Reader) (h : WF r) (hev : (getChar r).2.ev = none) :
    WF (getChar r).2 ∧ ((getChar r).1, stream (getChar r).2) = Prog.getA (stream r) := by
  obtain ⟨hev0, hwf⟩ := h
  unfold getChar at hev ⊢
  by_cases hgt : r.unget.length > topMark r.frames
  · simp only [hgt, if_true] at hev ⊢
    cases hu : r.unget with
    | nil => simp [hu] at hgt
    | cons x u' =>
      simp only [List.headD_cons, List.tail_cons]
      rw [hu] at hwf hgt
      have hp := streamF_pop r.file x u' r.frames hwf hgt
      refine ⟨⟨hev0, hp.2⟩, ?_⟩
      simp only [stream, hu, hp.1, Prog.getA]
  · simp only [hgt, if_false] at hev ⊢
    have hle : r.unget.length ≤ topMark r.frames := by omega
    have key := macrosGetChar_stream r.file r.arena r.frames r.unget hwf hle
    generalize macrosGetChar r.unget r.arena r.frames = res at key hev ⊢
    obtain ⟨c, u, fr, a, under⟩ := res
    simp only at key hev ⊢
    have hunder : under = false := by
      cases under with
      | false => rfl
      | true =>
        exfalso
        simp only [if_true] at hev
        rw [getCharAfter_ev] at hev
        exact note_of_ev_none hev
    subst hunder
    simp only [Bool.false_eq_true, if_false] at hev ⊢
    rcases key with ⟨hc, hu, hfr, hs⟩ | ⟨hc, hs, hw⟩
    · subst hc hu hfr
      simp only [getCharAfter, if_true, List.length_nil, topMark, Nat.lt_irrefl, if_false, gt_iff_lt]
      refine ⟨⟨hev0, by simp [WFF]⟩, ?_⟩
      simp only [stream, hs]
      rw [fileStream_get_eq]
    · simp only [getCharAfter, hc, if_false]
      refine ⟨⟨hev0, hw⟩, ?_⟩
      simp [stream, hs, Prog.getA]
where
  fileStream_get_eq {f : List Ch} :
      ((fileGet f).1, streamF [] [] (fileGet f).2) = Prog.getA (fileStream f) := by
    rw [fileGet_stream]
    simp [streamF]

/-! ### the other primitives -/

theorem note_ev_mono {r : Reader} {e : Event} (h : r.ev ≠ none) : (r.note e).ev ≠ none := by
  unfold Reader.note
  cases hr : r.ev with
  | none => exact absurd hr h
  | some x => simp [hr]

theorem ungetChar_stream (c : Ch) (r : Reader) (h : WF r) (hev : (ungetChar c r).ev = none) :
    WF (ungetChar c r) ∧ stream (ungetChar c r) = sext8 c :: stream r := by
  obtain ⟨hev0, hwf⟩ := h
  unfold ungetChar at hev ⊢
  by_cases hov : r.unget.length ≥ ungetLen
  · simp only [hov, if_true] at hev
    exact absurd hev (note_ev_ne r _)
  · simp only [hov, if_false] at hev ⊢
    cases hf : r.frames with
    | nil => exact ⟨⟨hev0, by simp [WFF]⟩, by simp [stream, hf, streamF]⟩
    | cons g gs =>
      rw [hf] at hwf
      obtain ⟨gm, gt, gb, gr⟩ := hwf
      have e1 : r.unget.length + 1 - g.mark = (r.unget.length - g.mark) + 1 := by omega
      refine ⟨⟨hev0, ?_⟩, ?_⟩
      · simp only [WFF, List.length_cons, e1, List.drop_succ_cons]
        exact ⟨by omega, gt, gb, gr⟩
      · simp [stream, hf, streamF, e1]

theorem normText_ne_eof (t : List Ch) : ∀ c ∈ normText t, c ≠ EOFc := by
  unfold normText
  induction t with
  | nil => simp [cstr]
  | cons a t ih =>
    intro c hc
    simp only [List.map_cons, cstr] at hc
    split at hc
    · simp at hc
    · rcases List.mem_cons.mp hc with h | h
      · subst h
        intro he
        have : (0 : Int) ≤ a % 256 := Int.emod_nonneg a (by decide)
        simp only [byteOf, EOFc] at he
        omega
      · exact ih c h

theorem pushDefine_stream (t : List Ch) (a : Bool) (r : Reader) (h : WF r)
    (hev : (pushDefine t a r).2.ev = none) :
    (pushDefine t a r).1 = true ∧ WF (pushDefine t a r).2 ∧
      stream (pushDefine t a r).2 = normText t ++ stream r := by
  obtain ⟨hev0, hwf⟩ := h
  unfold pushDefine at hev ⊢
  by_cases hn : r.frames.length ≥ maxNestedMacros
  · simp only [hn, if_true] at hev
    exact absurd hev (note_ev_ne r _)
  · simp only [hn, if_false] at hev ⊢
    by_cases hany : (r.unget.take (r.unget.length - topMark r.frames)).any (· == EOFc) = true
    · simp only [hany, if_true] at hev
      exact absurd hev (note_ev_ne r _)
    · simp only [hany] at hev ⊢
      simp only [Bool.false_eq_true, if_false] at hev ⊢
      refine ⟨trivial, ⟨hev0, ?_⟩, ?_⟩
      · refine ⟨Nat.le_refl _, normText_ne_eof t, ?_, ?_⟩
        · simp only [Nat.sub_self, List.drop_zero]
          intro c hc
          -- c is above or below the old top mark
          have hsplit : r.unget = r.unget.take (r.unget.length - topMark r.frames) ++
              r.unget.drop (r.unget.length - topMark r.frames) := (List.take_append_drop _ _).symm
          rw [hsplit] at hc
          rcases List.mem_append.mp hc with h1 | h2
          · intro hce
            apply hany
            simp only [List.any_eq_true]
            exact ⟨c, h1, by simp [hce]⟩
          · cases hf : r.frames with
            | nil => simp [hf, topMark] at h2
            | cons g gs =>
              rw [hf] at hwf h2
              exact hwf.2.2.1 c h2
        · simpa using hwf
      · simp [stream, streamF]

theorem arenaAlloc_stream (t : List Ch) (bad : Bool) (r : Reader) (h : WF r)
    (hev : (arenaAlloc t bad r).2.ev = none) :
    (arenaAlloc t bad r).1 = (if bad then AllocRes.bad else AllocRes.ok) ∧
      WF (arenaAlloc t bad r).2 ∧ stream (arenaAlloc t bad r).2 = stream r := by
  obtain ⟨hev0, hwf⟩ := h
  unfold arenaAlloc at hev ⊢
  by_cases h1 : r.arena.length ≥ maxNestedMacros
  · simp only [h1, if_true] at hev
    exact absurd hev (note_ev_ne r _)
  · by_cases h2 : r.arena.headD 0 ≥ paramStackLen
    · simp only [h1, h2, if_true, if_false] at hev
      exact absurd hev (note_ev_ne r _)
    · by_cases h3 : t.length > 0 ∧ r.arena.headD 0 + t.length ≥ paramStackLen
      · simp only [h1, h2, h3, if_true, if_false] at hev
        exact absurd hev (note_ev_ne r _)
      · simp only [h1, h2, h3, if_false]
        cases bad with
        | true => exact ⟨rfl, ⟨hev0, hwf⟩, rfl⟩
        | false => exact ⟨rfl, ⟨hev0, hwf⟩, rfl⟩

/-! ### events are sticky -/

theorem getChar_ev_mono (r : Reader) (h : r.ev ≠ none) : (getChar r).2.ev ≠ none := by
  unfold getChar
  split
  · exact h
  · simp only [getCharAfter_ev]
    split
    · exact note_ev_mono h
    · exact h

theorem ungetChar_ev_mono (c : Ch) (r : Reader) (h : r.ev ≠ none) : (ungetChar c r).ev ≠ none := by
  unfold ungetChar
  split
  · exact note_ev_mono h
  · exact h

theorem pushDefine_ev_mono (t : List Ch) (a : Bool) (r : Reader) (h : r.ev ≠ none) :
    (pushDefine t a r).2.ev ≠ none := by
  unfold pushDefine
  split
  · exact note_ev_mono h
  · simp only
    split
    · exact note_ev_mono h
    · exact h

theorem arenaAlloc_ev_mono (t : List Ch) (b : Bool) (r : Reader) (h : r.ev ≠ none) :
    (arenaAlloc t b r).2.ev ≠ none := by
  unfold arenaAlloc
  split
  · exact note_ev_mono h
  · split
    · exact note_ev_mono h
    · split
      · exact note_ev_mono h
      · split <;> exact h

theorem Prog.run_ev_mono {α : Type} (p : Prog α) : ∀ r : Reader, r.ev ≠ none → (p.run r).2.ev ≠ none := by
  induction p with
  | ret a => intro r h; exact h
  | get k ih =>
    intro r h
    simp only [Prog.run]
    exact ih _ _ (getChar_ev_mono r h)
  | unget c k ih =>
    intro r h
    simp only [Prog.run]
    exact ih _ (ungetChar_ev_mono c r h)
  | alloc t b k ih =>
    intro r h
    simp only [Prog.run]
    exact ih _ _ (arenaAlloc_ev_mono t b r h)
  | push t a k ih =>
    intro r h
    simp only [Prog.run]
    exact ih _ _ (pushDefine_ev_mono t a r h)

/-- **Refinement.**  A reader program run on a well-formed concrete reader, with
    no capacity event up to its end, returns what the same program returns on
    the character stream of that reader, and leaves a well-formed reader whose
    stream is the rest of that character stream. -/
theorem Prog.run_refines {α : Type} (p : Prog α) :
    ∀ r : Reader, WF r → (p.run r).2.ev = none →
      (p.run r).1 = (p.runA (stream r)).1 ∧ WF (p.run r).2 ∧
        stream (p.run r).2 = (p.runA (stream r)).2 := by
  induction p with
  | ret a => intro r h _; exact ⟨rfl, h, rfl⟩
  | get k ih =>
    intro r h hev
    simp only [Prog.run] at hev ⊢
    have h1 : (getChar r).2.ev = none := by
      apply Classical.byContradiction
      intro hne
      exact Prog.run_ev_mono _ _ hne hev
    obtain ⟨hw, heq⟩ := getChar_stream r h h1
    have := ih (getChar r).1 (getChar r).2 hw hev
    simp only [Prog.runA]
    rw [← heq]
    exact this
  | unget c k ih =>
    intro r h hev
    simp only [Prog.run] at hev ⊢
    have h1 : (ungetChar c r).ev = none := by
      apply Classical.byContradiction
      intro hne
      exact Prog.run_ev_mono _ _ hne hev
    obtain ⟨hw, heq⟩ := ungetChar_stream c r h h1
    have := ih (ungetChar c r) hw hev
    simp only [Prog.runA]
    rw [← heq]
    exact this
  | alloc t b k ih =>
    intro r h hev
    simp only [Prog.run] at hev ⊢
    have h1 : (arenaAlloc t b r).2.ev = none := by
      apply Classical.byContradiction
      intro hne
      exact Prog.run_ev_mono _ _ hne hev
    obtain ⟨hres, hw, heq⟩ := arenaAlloc_stream t b r h h1
    have := ih (arenaAlloc t b r).1 (arenaAlloc t b r).2 hw hev
    simp only [Prog.runA]
    rw [← heq, ← hres]
    exact this
  | push t a k ih =>
    intro r h hev
    simp only [Prog.run] at hev ⊢
    have h1 : (pushDefine t a r).2.ev = none := by
      apply Classical.byContradiction
      intro hne
      exact Prog.run_ev_mono _ _ hne hev
    obtain ⟨hres, hw, heq⟩ := pushDefine_stream t a r h h1
    have := ih (pushDefine t a r).1 (pushDefine t a r).2 hw hev
    simp only [Prog.runA]
    rw [← heq, ← hres]
    exact this

end NakenVerif.Macro
