/-
  The copy loop of parse_repeat() (core/directives.cpp): after the body of
  `.repeat count` was assembled once into [address_start, address_end), the block is
  copied `count - 1` times, byte by byte, to the addresses that follow
  (`memory_read(r)`, then `memory_write_inc` / `add_bin8`, which write at
  `address++`, keeping the data/code kind of the byte).

  The memory image is a map from addresses to (byte, kind); that the paged
  `Memory` class implements such a map is property C05 (`memory_refines_map`).
  Addresses are `uint32_t`.
-/
namespace NakenVerif.Macro.Repeat

/-- (byte, kind) at every address; kind = the debug_line class (data / code) -/
abbrev Mem := Nat → Nat × Nat

structure St where
  mem : Mem
  address : Nat          -- asm_context->address

def wrap32 (n : Nat) : Nat := n % 2 ^ 32

/-- `data = memory_read(r); kind = read_debug(r); memory.write(address++, data, kind)` -/
def copyByte (s : St) (r : Nat) : St :=
  { mem := fun a => if a = s.address then s.mem r else s.mem a, address := wrap32 (s.address + 1) }

/-- `for (r = address_start; r < address_end; r++)`: `k` bytes from `r` -/
def copyRange (s : St) (r : Nat) : Nat → St
  | 0 => s
  | k + 1 => copyRange (copyByte s r) (wrap32 (r + 1)) k

/-- `for (n = 0; n < count - 1; n++)` -/
def copies (s : St) (start len : Nat) : Nat → St
  | 0 => s
  | k + 1 => copies (copyRange s start len) start len k

/-- the loops of parse_repeat after the nested assemble() returned 3 (`.endr`):
    `start` = address_start, the current address is address_end -/
def repeatCopy (s : St) (start count : Nat) : St :=
  if s.address < start then s          -- `r < address_end` is false at once
  else copies s start (s.address - start) (count - 1)

theorem copyRange_spec : ∀ (k : Nat) (s : St) (r : Nat), r + k ≤ s.address → s.address + k < 2 ^ 32 →
    (copyRange s r k).address = s.address + k ∧
    (∀ i, i < k → (copyRange s r k).mem (s.address + i) = s.mem (r + i)) ∧
    (∀ a, a < s.address ∨ a ≥ s.address + k → (copyRange s r k).mem a = s.mem a) := by
  intro k
  induction k with
  | zero => intro s r _ _; simp [copyRange]
  | succ k ih =>
    intro s r h1 h2
    have hw1 : wrap32 (r + 1) = r + 1 := by unfold wrap32; omega
    have hw2 : wrap32 (s.address + 1) = s.address + 1 := by unfold wrap32; omega
    have hs1 : (copyByte s r).address = s.address + 1 := by simp [copyByte, hw2]
    obtain ⟨ha, hcopy, hout⟩ := ih (copyByte s r) (r + 1) (by rw [hs1]; omega) (by rw [hs1]; omega)
    simp only [copyRange, hw1]
    refine ⟨by rw [ha, hs1]; omega, ?_, ?_⟩
    · intro i hi
      cases i with
      | zero =>
        have := hout s.address (Or.inl (by rw [hs1]; omega))
        simp only [Nat.add_zero]
        rw [this]
        simp [copyByte]
      | succ i =>
        have := hcopy i (by omega)
        rw [hs1] at this
        have e : s.address + (i + 1) = s.address + 1 + i := by omega
        rw [e, this]
        have hne : r + 1 + i ≠ s.address := by omega
        simp only [copyByte, hne, if_false]
        congr 1
        omega
    · intro a ha'
      have := hout a (by rw [hs1]; omega)
      rw [this]
      have hne : a ≠ s.address := by omega
      simp [copyByte, hne]

theorem copies_spec (start len : Nat) (orig : Mem) : ∀ (k : Nat) (s : St) (j : Nat),
    s.address = start + (j + 1) * len → start + (j + 1 + k) * len < 2 ^ 32 →
    (∀ m i, m ≤ j → i < len → s.mem (start + m * len + i) = orig (start + i)) →
    (copies s start len k).address = start + (j + 1 + k) * len ∧
    (∀ m i, m ≤ j + k → i < len → (copies s start len k).mem (start + m * len + i) = orig (start + i)) ∧
    (∀ a, a < s.address ∨ a ≥ start + (j + 1 + k) * len → (copies s start len k).mem a = s.mem a) := by
  intro k
  induction k with
  | zero =>
    intro s j ha _ hm
    simp only [copies, Nat.add_zero]
    exact ⟨ha, hm, fun _ _ => trivial⟩
  | succ k ih =>
    intro s j ha hfit hm
    have e1 : (j + 1 + (k + 1)) * len = (j + 1) * len + len + k * len := by
      rw [Nat.add_mul, Nat.add_mul k 1 len]; omega
    have hge : start + len ≤ s.address := by
      rw [ha, Nat.add_mul]; omega
    obtain ⟨ca, ccopy, cout⟩ := copyRange_spec len s start (by omega) (by rw [ha]; omega)
    have ha2 : (copyRange s start len).address = start + (j + 1 + 1) * len := by
      rw [ca, ha, Nat.add_mul (j + 1) 1 len]; omega
    have e2 : (j + 1 + 1 + k) * len = (j + 1 + (k + 1)) * len := by congr 1; omega
    have hm2 : ∀ m i, m ≤ j + 1 → i < len →
        (copyRange s start len).mem (start + m * len + i) = orig (start + i) := by
      intro m i hmj hi
      by_cases hlast : m = j + 1
      · subst hlast
        have := ccopy i hi
        rw [ha] at this
        rw [this]
        have := hm 0 i (by omega) hi
        simpa using this
      · have hml : m ≤ j := by omega
        have hlt : start + m * len + i < s.address := by
          rw [ha]
          have : m * len + len ≤ (j + 1) * len := by
            have : (m + 1) * len ≤ (j + 1) * len := Nat.mul_le_mul_right len (by omega)
            rw [Nat.add_mul] at this; omega
          omega
        rw [cout _ (Or.inl hlt)]
        exact hm m i hml hi
    obtain ⟨ra, rcopy, rout⟩ := ih (copyRange s start len) (j + 1) ha2 (by rw [e2]; exact hfit) hm2
    simp only [copies]
    refine ⟨by rw [ra, e2], ?_, ?_⟩
    · intro m i hmj hi
      exact rcopy m i (by omega) hi
    · intro a ha'
      rw [e2] at rout
      have h1 := rout a (by
        rcases ha' with h | h
        · left; rw [ca]; omega
        · right; exact h)
      rw [h1]
      apply cout
      rcases ha' with h | h
      · left; exact h
      · right
        rw [ha, e1] at *
        omega

end NakenVerif.Macro.Repeat
