/-
  tokens_get() of core/tokens.cpp and the first half of macros_expand_params()
  (core/Macros.cpp) as reader programs.

  `lexLoop` is the `while (true)` loop of tokens_get, `finish`/`tokensGet` the
  post-processing after it, including the macro lookup that pushes a definition
  and re-enters tokens_get.  The two token push-back slots (tokens_push) are not
  part of this model: they only hold tokens that were already produced.
  `len` is TOKENLEN; `parsing_ifdef` = 0 and `linker` = NULL throughout.
-/
import NakenVerif.Macro.Impl

namespace NakenVerif.Macro

open NakenVerif.Generated NakenVerif.Macro

/-- character constant -/
def ch (c : Char) : Ch := c.toNat

inductive TokType where
  | eof | eol | number | float | pound | label | string | symbol | quoted | ticked | equality | dollar
  deriving Repr, DecidableEq

def TokType.code : TokType → Int
  | .eof => -1 | .eol => 0 | .number => 1 | .float => 2 | .pound => 3 | .label => 4 | .string => 5
  | .symbol => 6 | .quoted => 7 | .ticked => 8 | .equality => 9 | .dollar => 10

structure MacroDef where
  name : List Ch
  params : Nat          -- MacroData.param_count (uint8_t)
  text : List Ch        -- value: bytes up to the NUL
  deriving Repr, DecidableEq

/-- what tokens_get reads besides the characters -/
structure Env where
  canTick : Bool := false          -- can_tick_end_string
  dots : Bool := false             -- strings_have_dots
  slashes : Bool := false          -- strings_have_slashes
  dollarHex : Bool := false        -- is_dollar_hex
  noDots : Bool := false           -- numbers_dont_have_dots
  noPostfix : Bool := false        -- ignore_number_postfix
  ignoreSymbols : Bool := false    -- ignore_symbols
  dollar : List Ch := [48]         -- text printed for `$`: (uint32_t)address / bytes_per_address
  syms : List (List Ch × List Ch) := []   -- symbol name ↦ text printed for it
  defs : List MacroDef := []
  deriving Repr

def isLetter (c : Ch) : Bool := (ch 'a' ≤ c && c ≤ ch 'z') || (ch 'A' ≤ c && c ≤ ch 'Z')
def isDigit (c : Ch) : Bool := ch '0' ≤ c && c ≤ ch '9'
def isHexDigit (c : Ch) : Bool :=
  isDigit c || (ch 'a' ≤ c && c ≤ ch 'f') || (ch 'A' ≤ c && c ≤ ch 'F')

def lowerC (c : Ch) : Ch := if ch 'A' ≤ c ∧ c ≤ ch 'Z' then c + 32 else c

/-- macros_lookup(): first entry with that name -/
def lookupDef : List MacroDef → List Ch → Option MacroDef
  | [], _ => none
  | d :: ds, n => if d.name = n then some d else lookupDef ds n

def lookupSym : List (List Ch × List Ch) → List Ch → Option (List Ch)
  | [], _ => none
  | (k, v) :: rest, n => if k = n then some v else lookupSym rest n

/-- decimal text of an integer (`%d`, `%u`, `%PRId64`) -/
def decText (v : Int) : List Ch := (toString v).toList.map fun c => (c.toNat : Int)

/-- signed reading of a uint64_t -/
def toS64 (n : Nat) : Int := if n % 2 ^ 64 ≥ 2 ^ 63 then (n % 2 ^ 64 : Nat) - (2 ^ 64 : Nat) else (n % 2 ^ 64 : Nat)

/-- tokens_hex_string_to_int -/
def hexStr (prefixed : Bool) : List Ch → Nat → Option Nat
  | [], n => some n
  | c :: cs, n =>
    if c = ch 'h' ∨ c = ch 'H' then (if prefixed then none else some n)
    else if isDigit c then hexStr prefixed cs ((n * 16 + (c - ch '0').toNat) % 2 ^ 64)
    else if ch 'a' ≤ c ∧ c ≤ ch 'f' then hexStr prefixed cs ((n * 16 + (c - ch 'a').toNat + 10) % 2 ^ 64)
    else if ch 'A' ≤ c ∧ c ≤ ch 'F' then hexStr prefixed cs ((n * 16 + (c - ch 'A').toNat + 10) % 2 ^ 64)
    else if c = ch '_' then hexStr prefixed cs n
    else none

/-- tokens_octal_string_to_int -/
def octStr : List Ch → Nat → Option Nat
  | [], n => some n
  | c :: cs, n =>
    if c = ch 'q' ∨ c = ch 'Q' then some n
    else if ch '0' ≤ c ∧ c ≤ ch '7' then octStr cs ((n * 8 + (c - ch '0').toNat) % 2 ^ 64)
    else if c = ch '_' then octStr cs n
    else none

/-- tokens_binary_string_to_int -/
def binStr (prefixed : Bool) : List Ch → Nat → Option Nat
  | [], n => some n
  | c :: cs, n =>
    if c = ch 'b' ∨ c = ch 'B' then (if prefixed then none else some n)
    else if c = ch '0' then binStr prefixed cs ((n * 2) % 2 ^ 64)
    else if c = ch '1' then binStr prefixed cs ((n * 2 + 1) % 2 ^ 64)
    else if c = ch '_' then binStr prefixed cs n
    else none

/-- token_is_not_number(token, ptr) -/
def tokenIsNotNumber (tok : List Ch) : Bool :=
  match tok with
  | c0 :: c1 :: _ =>
    if c0 ≠ ch '0' then true
    else if c1 = ch 'x' ∨ c1 = ch 'b' ∨ c1 = ch 'q' then false else true
  | _ => true

/-- how the character loop was left -/
inductive How where
  | brk      -- `break`: the token is post-processed
  | ret      -- `return`: the token is handed out as it is
  | fuel     -- model only: out of fuel
  deriving Repr, DecidableEq

structure Raw where
  tok : List Ch
  ty : TokType
  errs : Nat          -- error_count increments
  how : How
  deriving Repr

/-- `while (true) { ch = get; if (ch == '\n' || ch == EOF) break; }` -/
def skipLine : Nat → Prog Unit
  | 0 => .ret ()
  | n + 1 => .get fun c => if c = 10 ∨ c = EOFc then .ret () else skipLine n

/-- process_escape() -/
def processEscape (zero : Bool) : Prog Ch :=
  .get fun c =>
    if c = ch 'n' then .ret 10
    else if c = ch 'r' then .ret 13
    else if c = ch 't' then .ret 9
    else if c = ch '"' then .ret (ch '"')
    else if c = ch '\\' then .ret (ch '\\')
    else if c = ch '\'' then .ret (ch '\'')
    else if c = ch '0' ∧ zero then .ret 0
    else .unget c (.ret (ch '\\'))

/-- the loop after an opening `"` -/
def quotedLoop (len : Nat) : Nat → List Ch → Nat → Prog Raw
  | 0, tok, errs => .ret ⟨tok, .quoted, errs, .fuel⟩
  | n + 1, tok, errs =>
    .get fun c =>
      if c = ch '"' then .ret ⟨tok, .quoted, errs, .brk⟩
      else
        (if c = ch '\\' then processEscape false else .ret c).bind fun c' =>
          if (tok ++ [c']).length + 1 ≥ len then .ret ⟨tok ++ [c'], .quoted, errs + 1, .brk⟩
          else quotedLoop len n (tok ++ [c']) errs

/-- the loop after an opening `'` -/
def tickedLoop : Nat → List Ch → Nat → Prog Raw
  | 0, tok, errs => .ret ⟨tok, .ticked, errs, .fuel⟩
  | n + 1, tok, errs =>
    .get fun c =>
      if tok.length > 1 then .ret ⟨tok, .ticked, errs + 1, .brk⟩
      else if c = ch '\'' then .ret ⟨tok, .ticked, errs, .brk⟩
      else
        (if c = ch '\\' then processEscape true else .ret c).bind fun c' =>
          tickedLoop n (tok ++ [c']) errs

/-- inside `/* … */`: `true` = closed, `false` = EOF -/
def blockComment : Nat → Prog Bool
  | 0 => .ret false
  | n + 1 =>
    .get fun c =>
      if c = EOFc then .ret false
      else if c = 10 then blockComment n
      else if c = ch '*' then
        .get fun c2 => if c2 = ch '/' then .ret true else .unget c2 (blockComment n)
      else blockComment n

/-- first character of a TOKEN_SYMBOL (`ptr == 0`, none of the other classes) -/
def symbolStart (again : List Ch → TokType → Nat → Prog Raw) (n : Nat) (errs : Nat) (c : Ch) : Prog Raw :=
  if c = ch '/' then
    .get fun c2 =>
      if c2 = ch '*' then
        (blockComment n).bind fun closed =>
          if closed then again [] .symbol errs
          else .ret ⟨[], .eof, errs + 1, .ret⟩          -- "Unterminated comment"
      else if c2 = ch '/' then
        (skipLine n).bind fun _ => .ret ⟨[10], .eol, errs, .ret⟩
      else .unget c2 (.ret ⟨[c], .symbol, errs, .brk⟩)
  else if c = ch '>' ∨ c = ch '<' ∨ c = ch '=' then
    .get fun c1 =>
      if c1 = c then .ret ⟨[c, c], if c = ch '=' then .equality else .symbol, errs, .brk⟩
      else if c1 = ch '=' then .ret ⟨[c, c1], .equality, errs, .brk⟩
      else .unget c1 (.ret ⟨[c], if c ≠ ch '=' then .equality else .symbol, errs, .brk⟩)
  else if c = ch '&' ∨ c = ch '|' then
    .get fun c1 =>
      if c1 = c then .ret ⟨[c, c], .symbol, errs, .brk⟩
      else .unget c1 (.ret ⟨[c], .symbol, errs, .brk⟩)
  else .ret ⟨[c], .symbol, errs, .brk⟩

/-- one pass of the loop after the character was read and the `$` prefix handled -/
def lexBody (env : Env) (again : List Ch → TokType → Nat → Prog Raw) (n : Nat)
    (tok : List Ch) (ty : TokType) (errs : Nat) (c : Ch) : Prog Raw :=
  if c = ch ';' then
    if tok.length ≠ 0 then .unget c (.ret ⟨tok, ty, errs, .brk⟩)
    else (skipLine n).bind fun _ => .ret ⟨[10], .eol, errs, .ret⟩
  else if c = ch '\'' ∧ env.canTick ∧ ty = .string then .ret ⟨tok ++ [c], ty, errs, .brk⟩
  else if c = ch '.' ∧ tok.length ≠ 0 ∧ ty = .string ∧ env.dots ∧ tokenIsNotNumber tok then
    again (tok ++ [c]) ty errs
  else if c = ch '/' ∧ tok.length ≠ 0 ∧ ty = .string ∧ env.slashes then again (tok ++ [c]) ty errs
  else if c = ch '"' then quotedLoop tokenLen n tok errs
  else if c = ch '\'' then tickedLoop n tok errs
  else if c = 10 ∨ c = ch ' ' ∨ c = 9 ∨ c = EOFc then
    if c = 10 then
      if tok.length = 0 then .ret ⟨[10], .eol, errs, .ret⟩
      else .unget c (.ret ⟨tok, ty, errs, .brk⟩)
    else if tok.length = 0 then
      if c = EOFc then .ret ⟨tok, ty, errs, .brk⟩ else again tok ty errs
    else .ret ⟨tok, ty, errs, .brk⟩
  else if c = ch '#' then .ret ⟨tok ++ [c], .pound, errs, .brk⟩
  else if tok.length = 0 ∧ c = ch '$' then again [c] (if env.dollarHex then .dollar else .string) errs
  else if c = ch ':' ∧ ty = .string then .ret ⟨tok, .label, errs, .brk⟩
  else if ty = .number ∧ c = ch '_' then again tok ty errs
  else if isLetter c ∨ c = ch '_' then
    if tok.length = 0 then again [c] .string errs
    else if ty = .number then again (tok ++ [c]) .string errs
    else if ty = .float then .unget c (.ret ⟨tok, ty, errs, .brk⟩)
    else again (tok ++ [c]) ty errs
  else if isDigit c then again (tok ++ [c]) (if tok.length = 0 then .number else ty) errs
  else if c = ch '.' ∧ ty = .number then
    if env.noDots then .unget c (.ret ⟨tok, ty, errs, .brk⟩)
    else again (tok ++ [c]) .float errs
  else if tok.length = 0 then symbolStart again n errs c
  else .unget c (.ret ⟨tok, ty, errs, .brk⟩)

/-- the `while (true)` loop of tokens_get -/
def lexLoop (env : Env) : Nat → List Ch → TokType → Nat → Prog Raw
  | 0, tok, ty, errs => .ret ⟨tok, ty, errs, .fuel⟩
  | n + 1, tok, ty, errs =>
    if tok.length + 2 ≥ tokenLen then .ret ⟨tok, ty, errs + 1, .brk⟩      -- "Token too long"
    else
      .get fun c =>
        if ty = .dollar then
          if isHexDigit c then lexBody env (lexLoop env n) n [ch '0', ch 'x'] .string errs c
          else if !isLetter c then .unget c (.ret ⟨tok, ty, errs, .brk⟩)
          else lexBody env (lexLoop env n) n tok .string errs c
        else lexBody env (lexLoop env n) n tok ty errs c

/-- result of tokens_get -/
structure Tok where
  ty : TokType
  text : List Ch
  errs : Nat := 0          -- error_count increments
  flag : Bool := false     -- asm_context->error was set
  fatal : Bool := false    -- exit(1) was called
  fuel : Bool := false     -- model only
  deriving Repr

/-! ### macros_expand_params -/

/-- outcome of the argument collector -/
inductive ArgsRes where
  | ok (args : List (List Ch))
  | fail                      -- an error was printed, `error = 1`, NULL returned
  | fuel
  deriving Repr

/-- skip blanks and tabs in front of `(` -/
def skipBlanks : Nat → Prog Ch
  | 0 => .ret EOFc
  | n + 1 => .get fun c => if c = ch ' ' ∨ c = 9 then skipBlanks n else .ret c

structure ArgSt where
  done : List (List Ch) := []    -- finished arguments, last first
  cur : List Ch := []            -- current argument, reversed
  ptr : Nat := 0                 -- index into params[1024]
  inStr : Bool := false
  inTick : Bool := false
  parens : Nat := 0              -- open_parens (uint8_t)
  deriving Repr

/-- what one character does to the argument collector -/
inductive ArgAct where
  | skip                         -- the character is dropped
  | fail                         -- an error is printed, NULL returned
  | esc (s : ArgSt)              -- backslash inside a literal: the next character is stored unseen
  | cont (s : ArgSt)
  | done (args : List (List Ch)) -- the closing parenthesis
  deriving Repr

/-- one pass of the argument loop of macros_expand_params, after the character was read -/
def argStep (s : ArgSt) (c0 : Ch) : ArgAct :=
  let c := if c0 = 9 then ch ' ' else c0
  if c = 13 then .skip
  else if s.ptr + 3 ≥ 1024 ∨ s.done.length ≥ 255 then .fail               -- "Macro parameters too long"
  else if c = ch ' ' ∧ s.cur = [] then .skip                               -- blanks after '(' and ','
  else if c = ch '\\' ∧ (s.inStr ∨ s.inTick) then .esc { s with cur := c :: s.cur, ptr := s.ptr + 1 }
  else
    let inStr := if c = ch '"' ∧ !s.inTick then !s.inStr else s.inStr
    let inTick := if c = ch '\'' ∧ !inStr then !s.inTick else s.inTick
    if c = ch ')' ∧ !inStr ∧ !inTick ∧ s.parens = 0 then .done ((s.cur.reverse :: s.done).reverse)
    else if c = 10 ∨ c = EOFc then .fail                                   -- "Macro expects ')'"
    else if c = ch ',' ∧ !inStr ∧ !inTick ∧ s.parens = 0 then
      .cont { s with done := s.cur.reverse :: s.done, cur := [], ptr := s.ptr + 1,
                     inStr := inStr, inTick := inTick }
    else
      let parens :=
        if c = ch '(' ∧ !inStr ∧ !inTick then (s.parens + 1) % 256
        else if c = ch ')' ∧ !inStr ∧ !inTick then (s.parens + 255) % 256
        else s.parens
      .cont { s with cur := c :: s.cur, ptr := s.ptr + 1, inStr := inStr, inTick := inTick,
                     parens := parens }

/-- the argument loop of macros_expand_params (after the opening parenthesis) -/
def argLoop : Nat → ArgSt → Prog ArgsRes
  | 0, _ => .ret .fuel
  | n + 1, s =>
    .get fun c0 =>
      match argStep s c0 with
      | .skip => argLoop n s
      | .fail => .ret .fail
      | .esc s' => .get fun c2 => argLoop n { s' with cur := c2 :: s'.cur, ptr := s'.ptr + 1 }
      | .cont s' => argLoop n s'
      | .done args => .ret (.ok args)

/-- the walk over the definition: `(text, bad)`; `bad` = stopped at a bad parameter reference -/
def expandText (args : List (List Ch)) : List Ch → List Ch × Bool
  | [] => ([], false)
  | c :: rest =>
    if c = 1 then
      match rest with
      | [] => ([], true)                       -- the index byte is the NUL
      | i :: rest' =>
        if i - 1 < 0 ∨ i - 1 ≥ args.length then ([], true)
        else (normText (args.getD (i - 1).toNat []) ++ (expandText args rest').1, (expandText args rest').2)
    else (c :: (expandText args rest).1, (expandText args rest).2)

inductive ExpRes where
  | ok (text : List Ch)
  | fail
  | exit
  | fuel
  deriving Repr

/-- macros_expand_params() -/
def expandParams (n : Nat) (define : List Ch) (paramCount : Nat) : Prog ExpRes :=
  (skipBlanks n).bind fun c =>
    if c ≠ ch '(' then .ret .fail                                          -- "Macro expects params"
    else
      (argLoop n {}).bind fun r =>
        match r with
        | .fuel => .ret .fuel
        | .fail => .ret .fail
        | .ok args =>
          if args.length ≠ paramCount then .ret .fail
          else
            let (text, bad) := expandText args define
            .alloc text bad fun res =>
              match res with
              | .ok => .ret (.ok text)
              | .exit => .ret .exit
              | _ => .ret .fail

/-- outcome of entering a macro -/
inductive EnterRes where
  | entered      -- text pushed, mark set
  | pushFail     -- macros_push_define failed: error_count++
  | fail         -- macros_expand_params returned NULL: error = 1
  | exit
  | fuel
  deriving Repr, DecidableEq

/-- the macro branch of tokens_get up to the recursive call: macros_expand_params (when the
    macro has parameters), macros_push_define, `unget_stack[++unget_stack_ptr] = unget_ptr` -/
def enterMacro (n : Nat) (d : MacroDef) : Prog EnterRes :=
  if d.params = 0 then .push d.text false fun ok => .ret (if ok then .entered else .pushFail)
  else
    (expandParams n d.text d.params).bind fun r =>
      match r with
      | .ok text => .push text true fun ok => .ret (if ok then .entered else .pushFail)
      | .fail => .ret .fail
      | .exit => .ret .exit
      | .fuel => .ret .fuel

/-! ### post-processing of tokens_get -/

/-- the last test of tokens_get: a number with a leading 0 is octal -/
def octalFix (ty : TokType) (tok : List Ch) : List Ch :=
  match ty, tok with
  | .number, c0 :: c1 :: _ =>
    if c0 = ch '0' ∧ c1 ≠ 0 then
      match octStr tok 0 with
      | some v => decText (toS64 v)
      | none => tok
    else tok
  | _, _ => tok

/-- the number notations of a TOKEN_STRING (the else-if chain after the macro test) -/
def stringNumber (env : Env) (tok : List Ch) : TokType × List Ch :=
  let last := lowerC (tok.getLast?.getD 0)
  match tok with
  | c0 :: rest =>
    let c1 := rest.headD 0
    if c0 = ch '0' ∧ c1 = ch 'x' then
      match hexStr true (tok.drop 2) 0 with
      | some v => (.number, decText (toS64 v))
      | none => (.string, tok)
    else if c0 = ch '0' ∧ c1 = ch 'b' then
      match binStr true (tok.drop 2) 0 with
      | some v => (.number, decText (toS64 v))
      | none => (.string, tok)
    else if isDigit c0 ∧ last = ch 'h' ∧ !env.noPostfix then
      match hexStr false tok 0 with
      | some v => (.number, decText (toS64 v))
      | none => (.string, tok)
    else if (ch '0' ≤ c0 ∧ c0 ≤ ch '7') ∧ last = ch 'q' ∧ !env.noPostfix then
      match octStr tok 0 with
      | some v => (.number, decText (toS64 v))
      | none => (.string, tok)
    else if (c0 = ch '0' ∨ c0 = ch '1') ∧ last = ch 'b' then
      match binStr false tok 0 with
      | some v => (.number, decText (toS64 v))
      | none => (.string, tok)
    else (.string, tok)
  | [] => (.string, tok)

/-- the part of tokens_get between the loop and the TOKEN_STRING lookups -/
def afterLoop (env : Env) (raw : Raw) : Prog (TokType × List Ch) :=
  let step1 : Prog (TokType × List Ch) :=
    if raw.ty = .float ∧ raw.tok.getLast? = some (ch '.') then
      .unget (ch '.') (.ret (.number, raw.tok.dropLast))
    else .ret (raw.ty, raw.tok)
  step1.bind fun (ty, tok) =>
    let (ty, tok) :=
      match ty, tok with
      | .ticked, [c] => (TokType.number, decText (sext8 c))
      | _, _ => (ty, tok)
    let (ty, tok) :=
      if ty ≠ .quoted ∧ tok = [ch '$'] then (TokType.number, env.dollar) else (ty, tok)
    .ret (ty, tok)

/-- tokens_get(); the first number bounds the depth of the recursion through macro
    expansions (the code has no bound: `A equ A` recurses until the C stack is gone),
    the second the characters read by one loop -/
def tokensGetD (env : Env) : Nat → Nat → Prog Tok
  | 0, _ => .ret { ty := .eof, text := [], fuel := true }
  | dep + 1, n =>
    (lexLoop env n [] .eof 0).bind fun raw =>
      match raw.how with
      | .fuel => .ret { ty := .eof, text := [], fuel := true }
      | .ret => .ret { ty := raw.ty, text := raw.tok, errs := raw.errs }
      | .brk =>
        (afterLoop env raw).bind fun (ty, tok) =>
          if ty ≠ .string then .ret { ty := ty, text := octalFix ty tok, errs := raw.errs }
          else
            match (if env.ignoreSymbols then none else lookupSym env.syms tok) with
            | some v => .ret { ty := .number, text := octalFix .number v, errs := raw.errs }
            | none =>
              match lookupDef env.defs tok with
              | some d =>
                (enterMacro n d).bind fun e =>
                  match e with
                  | .entered =>
                    (tokensGetD env dep n).bind fun t =>
                      .ret { t with text := octalFix t.ty t.text, errs := t.errs + raw.errs }
                  | .pushFail => .ret { ty := .eof, text := tok, errs := raw.errs + 1 }
                  | .fail => .ret { ty := .eof, text := tok, errs := raw.errs, flag := true }
                  | .exit => .ret { ty := .eof, text := tok, errs := raw.errs, fatal := true }
                  | .fuel => .ret { ty := .eof, text := tok, errs := raw.errs, fuel := true }
              | none =>
                let (ty', tok') := stringNumber env tok
                .ret { ty := ty', text := octalFix ty' tok', errs := raw.errs }

/-- depth of macro re-entry the model follows before it answers `fuel` -/
def expFuel : Nat := 3000

def tokensGet (env : Env) (n : Nat) : Prog Tok := tokensGetD env expFuel n

end NakenVerif.Macro
