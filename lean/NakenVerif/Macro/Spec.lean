/-
  Specification of macro use as textual substitution, written from the property
  statement and docs/directives.md / docs/examples.md (`.define`, `.macro NAME(a,b)`,
  `NAME equ VALUE`), not from Macros.cpp:

  * `substWords`  — the hand expansion of a macro text: every maximal word
    (letters, digits, `_`) that is a parameter name is replaced by the argument
    text; everything else is copied.
  * `scanArgs`    — the call syntax `NAME(arg, arg, …)`: arguments are separated
    by commas that are outside string literals, character literals and
    parentheses; blanks after `(` and after a separating comma do not belong to
    the argument; a tab counts as a blank; the list ends at the matching `)`.
    Parentheses may nest at most 255 deep.
  * `plain`       — text without `;`, `/`, backslash, line ends, tabs and control
    bytes: the text whose stored form is the text itself.
-/
import NakenVerif.Macro.Lexer

namespace NakenVerif.Macro.Spec

open NakenVerif.Macro

def isWordCh (c : Ch) : Bool := isLetter c || isDigit c || c = ch '_'

/-- argument bound to the word `w`, if `w` is a parameter name (first match) -/
def lookupArg : List (List Ch) → List (List Ch) → List Ch → Option (List Ch)
  | p :: ps, a :: as, w => if p = w then some a else lookupArg ps as w
  | _, _, _ => none

def flushWord (ps as : List (List Ch)) (w : List Ch) : List Ch := (lookupArg ps as w).getD w

/-- textual substitution; the first argument is the word being read (reversed) -/
def substGo (ps as : List (List Ch)) : List Ch → List Ch → List Ch
  | w, [] => flushWord ps as w.reverse
  | w, c :: cs =>
    if isWordCh c then substGo ps as (c :: w) cs
    else flushWord ps as w.reverse ++ c :: substGo ps as [] cs

def substWords (ps as : List (List Ch)) (text : List Ch) : List Ch := substGo ps as [] text

/-- a parameter name: a word that starts with a letter or `_` -/
def IsIdent (p : List Ch) : Prop :=
  match p with
  | [] => False
  | c :: cs => (isLetter c ∨ c = ch '_') ∧ ∀ x ∈ c :: cs, isWordCh x

/-! ### call syntax -/

structure ArgScan where
  done : List (List Ch) := []   -- finished arguments, last first
  cur : List Ch := []           -- current argument, reversed
  inStr : Bool := false
  inTick : Bool := false
  depth : Nat := 0
  deriving Repr

inductive ScanAct where
  | skip
  | bad
  | esc (s : ArgScan)
  | cont (s : ArgScan)
  | done (args : List (List Ch))

def scanStep (s : ArgScan) (c0 : Ch) : ScanAct :=
  let c := if c0 = 9 then ch ' ' else c0
  if c = 13 then .skip                                              -- carriage returns are not text
  else if c = ch ' ' ∧ s.cur = [] then .skip
  else if c = ch '\\' ∧ (s.inStr ∨ s.inTick) then .esc { s with cur := c :: s.cur }
  else
    let inStr := if c = ch '"' ∧ !s.inTick then !s.inStr else s.inStr
    let inTick := if c = ch '\'' ∧ !inStr then !s.inTick else s.inTick
    let outside := !inStr ∧ !inTick
    if c = ch ')' ∧ outside ∧ s.depth = 0 then .done ((s.cur.reverse :: s.done).reverse)
    else if c = 10 ∨ c = EOFc then .bad                               -- a call does not span lines
    else if c = ch ',' ∧ outside ∧ s.depth = 0 then
      .cont { s with done := s.cur.reverse :: s.done, cur := [], inStr := inStr, inTick := inTick }
    else if c = ch '(' ∧ outside then
      if s.depth + 1 < 256 then .cont { s with cur := c :: s.cur, inStr := inStr, inTick := inTick, depth := s.depth + 1 }
      else .bad
    else if c = ch ')' ∧ outside then
      .cont { s with cur := c :: s.cur, inStr := inStr, inTick := inTick, depth := s.depth - 1 }
    else .cont { s with cur := c :: s.cur, inStr := inStr, inTick := inTick }

/-- arguments of a call and the text after its closing parenthesis; the input starts
    after the opening parenthesis -/
def scanArgs : ArgScan → List Ch → Option (List (List Ch) × List Ch)
  | _, [] => none
  | s, c :: rest =>
    match scanStep s c with
    | .skip => scanArgs s rest
    | .bad => none
    | .done args => some (args, rest)
    | .cont s' => scanArgs s' rest
    | .esc s' =>
      match rest with
      | [] => none
      | c2 :: rest' => scanArgs { s' with cur := c2 :: s'.cur } rest'

/-- a call `( args )` in front of `rest`: blanks, the opening parenthesis, the arguments -/
def callArgs (l : List Ch) : Option (List (List Ch) × List Ch) :=
  match l.dropWhile (fun c => c = ch ' ' || c = 9) with
  | c :: l' => if c = ch '(' then scanArgs {} l' else none
  | [] => none

/-! ### plain text -/

/-- a character that macros_parse / the equ loop store as it is (no comment can start
    without `;` or `/`, no continuation without `\`) -/
def plainCh (c : Ch) : Bool :=
  (32 ≤ c && c ≤ 255) && c != ch ';' && c != ch '/' && c != ch '\\'

def plain (t : List Ch) : Prop := ∀ c ∈ t, plainCh c = true

end NakenVerif.Macro.Spec
