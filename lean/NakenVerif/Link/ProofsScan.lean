import NakenVerif.Link.Abs
/-
Lemmas about `search`, `discover` and the pass-1 scan of `link_function_mips`.
-/
namespace NakenVerif.Link

/-- `list'` is `list` with new, pairwise different, findable names satisfying `S` appended -/
def Ext (env : Env) (S : Name → Prop) (list list' : List Name) : Prop :=
  ∃ added, list' = list ++ added ∧ (∀ g ∈ added, Findable env g ∧ S g) ∧ (list.Nodup → list'.Nodup)

theorem Ext.refl {env : Env} {S : Name → Prop} (list : List Name) : Ext env S list list :=
  ⟨[], by simp, by simp, id⟩

theorem Ext.trans {env : Env} {S : Name → Prop} {a b c : List Name} (h1 : Ext env S a b) (h2 : Ext env S b c) :
    Ext env S a c := by
  obtain ⟨x, rfl, hx, nx⟩ := h1
  obtain ⟨y, rfl, hy, ny⟩ := h2
  refine ⟨x ++ y, by simp, ?_, fun h => ny (nx h)⟩
  intro g hg
  rcases List.mem_append.mp hg with h | h
  · exact hx g h
  · exact hy g h

theorem Ext.mono {env : Env} {S T : Name → Prop} {a b : List Name} (h : Ext env S a b) (hst : ∀ g, S g → T g) :
    Ext env T a b := by
  obtain ⟨x, rfl, hx, nx⟩ := h
  exact ⟨x, rfl, fun g hg => ⟨(hx g hg).1, hst g (hx g hg).2⟩, nx⟩

theorem Ext.subset {env : Env} {S : Name → Prop} {a b : List Name} (h : Ext env S a b) : ∀ g ∈ a, g ∈ b := by
  obtain ⟨x, rfl, _, _⟩ := h
  intro g hg; exact List.mem_append_left _ hg

theorem Ext.mem {env : Env} {S : Name → Prop} {a b : List Name} (h : Ext env S a b) :
    ∀ g ∈ b, g ∈ a ∨ (Findable env g ∧ S g) := by
  obtain ⟨x, rfl, hx, _⟩ := h
  intro g hg
  rcases List.mem_append.mp hg with h | h
  · exact Or.inl h
  · exact Or.inr (hx g h)

theorem Ext.prefix {env : Env} {S : Name → Prop} {a b : List Name} (h : Ext env S a b) : a <+: b := by
  obtain ⟨x, rfl, _, _⟩ := h
  exact List.prefix_append _ _

/-- `search`: the answer is 1 exactly when the name ends up in the list; the list grows by at most that name -/
theorem search_ok {env : Env} {list list' : List Name} {g : Name} {b : Bool}
    (h : search env list g = .ok (b, list')) :
    Ext env (· = g) list list' ∧ (b = true ↔ g ∈ list') ∧ (b = false → ¬ Findable env g) := by
  unfold search at h
  split at h
  · rename_i hm
    cases h
    exact ⟨Ext.refl _, by simp [hm], by simp⟩
  · rename_i hm
    split at h
    · rename_i f hf
      cases h
      refine ⟨⟨[g], rfl, ?_, ?_⟩, by simp, by simp⟩
      · intro x hx; simp at hx; subst hx; exact ⟨⟨f, hf⟩, rfl⟩
      · intro hn
        rw [List.nodup_append]
        refine ⟨hn, by simp, ?_⟩
        intro a ha b hb; simp at hb; subst hb; intro hab; subst hab; exact hm ha
    · rename_i hf
      cases h
      refine ⟨Ext.refl _, by simp [hm], ?_⟩
      intro _ ⟨f, hf'⟩; rw [hf] at hf'; cases hf'
    · cases h

/-- pass-1 discovery: the list afterwards holds exactly the findable tokens, each once -/
theorem discover_ok {env : Env} : ∀ (ts list list' : List Name), discover env ts list = .ok list' →
    Ext env (· ∈ ts) list list' ∧ (∀ t ∈ ts, Findable env t → t ∈ list')
  | [], list, list', h => by
    simp [discover] at h; subst h; exact ⟨Ext.refl _, by simp⟩
  | t :: ts, list, list', h => by
    unfold discover at h
    split at h
    · rename_i b l1 hs
      have ⟨e1, hb, hnf⟩ := search_ok hs
      have ⟨e2, hall⟩ := discover_ok ts l1 list' h
      refine ⟨Ext.trans (e1.mono ?_) (e2.mono ?_), ?_⟩
      · intro g hg; subst hg; exact List.mem_cons_self
      · intro g hg; exact List.mem_cons_of_mem _ hg
      · intro x hx hf
        rcases List.mem_cons.mp hx with rfl | hx
        · cases b with
          | true => exact e2.subset _ (hb.mp rfl)
          | false => exact absurd hf (hnf rfl)
        · exact hall x hx hf
    all_goals cases h

/-- pass-1 scan of a function that succeeds: the list grows by findable call targets of the function,
and every call target of the scanned words is in the list afterwards -/
theorem scan1_ok {env : Env} {cfg : Cfg} {f : Found} : ∀ (k n : Nat) (list list' : List Name),
    scan1 env cfg f k n list = .ok list' →
    Ext env (fun g => ∃ off, (off, g) ∈ callsFrom env cfg.bigEndian f k n) list list' ∧
    (∀ off g, (off, g) ∈ callsFrom env cfg.bigEndian f k n → g ∈ list')
  | 0, n, list, list', h => by
    simp [scan1] at h; subst h; exact ⟨Ext.refl _, by simp [callsFrom]⟩
  | k + 1, n, list, list', h => by
    unfold scan1 at h
    simp only at h
    split at h
    · rename_i hj
      split at h
      · cases h
      · cases h
      · rename_i g hg
        split at h
        · rename_i l1 hs
          have ⟨e1, hb, _⟩ := search_ok hs
          have ⟨e2, hall⟩ := scan1_ok k (n + 4) l1 list' h
          have hc : callsFrom env cfg.bigEndian f (k + 1) n = (n, g) :: callsFrom env cfg.bigEndian f k (n + 4) := by
            rw [callsFrom]; simp only [hj, ↓reduceIte, hg]
          rw [hc]
          refine ⟨Ext.trans (e1.mono ?_) (e2.mono ?_), ?_⟩
          · intro x hx; subst hx; exact ⟨n, List.mem_cons_self⟩
          · intro x ⟨off, hx⟩; exact ⟨off, List.mem_cons_of_mem _ hx⟩
          · intro off x hx
            rcases List.mem_cons.mp hx with hx | hx
            · cases hx; exact e2.subset _ (hb.mp rfl)
            · exact hall off x hx
        all_goals cases h
    · rename_i hj
      have ⟨e2, hall⟩ := scan1_ok k (n + 4) list list' h
      have hc : callsFrom env cfg.bigEndian f (k + 1) n = callsFrom env cfg.bigEndian f k (n + 4) := by
        rw [callsFrom]; simp only [hj, Bool.false_eq_true, ↓reduceIte]
      rw [hc]
      exact ⟨e2, hall⟩

end NakenVerif.Link
