import NakenVerif.Link.ElfImpl
/-
The ELF reader never reads outside `[buffer, buffer + file_size)`: in the model, no function of
`Link/ElfImpl.lean` returns the fault outcome `none`, for any byte string (part 1: basic reads, strings,
`verify`).
-/
namespace NakenVerif.Link

theorem View.u8_some {v : View} (hv : v.Valid) {i : Nat} (h : i < v.size) : ∃ c, v.u8 i = some c := by
  unfold View.u8
  have : v.base + i < v.a.size := by unfold View.Valid at hv; omega
  simp [h, this]

theorem View.u16le_some {v : View} (hv : v.Valid) {i : Nat} (h : i + 1 < v.size) : ∃ x, v.u16le i = some x := by
  obtain ⟨a, ha⟩ := View.u8_some hv (show i < v.size by omega)
  obtain ⟨b, hb⟩ := View.u8_some hv h
  simp [View.u16le, ha, hb]

theorem View.u32le_some {v : View} (hv : v.Valid) {i : Nat} (h : i + 3 < v.size) : ∃ x, v.u32le i = some x := by
  obtain ⟨a, ha⟩ := View.u8_some hv (show i < v.size by omega)
  obtain ⟨b, hb⟩ := View.u8_some hv (show i + 1 < v.size by omega)
  obtain ⟨c, hc⟩ := View.u8_some hv (show i + 2 < v.size by omega)
  obtain ⟨d, hd⟩ := View.u8_some hv h
  simp [View.u32le, ha, hb, hc, hd]

/-- a NUL at or after `off` inside the view: `strcmp` stops before the end of the view -/
theorem View.cstrEq_some {v : View} (hv : v.Valid) : ∀ (lit : Name) (off z : Nat), off ≤ z → z < v.size →
    v.u8 z = some 0 → ∃ b, v.cstrEq off lit = some b
  | [], off, z, hle, hz, _ => by
    obtain ⟨c, hc⟩ := View.u8_some hv (show off < v.size by omega)
    simp [View.cstrEq, hc]
  | x :: xs, off, z, hle, hz, h0 => by
    obtain ⟨c, hc⟩ := View.u8_some hv (show off < v.size by omega)
    rw [View.cstrEq]
    simp only [hc, Option.bind_eq_bind, Option.bind_some]
    split
    · exact ⟨_, rfl⟩
    · split
      · exact ⟨_, rfl⟩
      · rename_i hne
        have : off ≠ z := by
          intro e; subst e; rw [hc] at h0; simp at h0; exact hne h0
        exact View.cstrEq_some hv xs (off + 1) z (by omega) hz h0

/-- reading a C string that has its NUL inside the view does not fault -/
theorem View.cstr_some {v : View} (hv : v.Valid) : ∀ (fuel off z : Nat), off ≤ z → z < v.size →
    v.u8 z = some 0 → z - off < fuel → ∃ nm, v.cstr fuel off = some nm
  | 0, off, z, _, _, _, hf => by omega
  | fuel + 1, off, z, hle, hz, h0, hf => by
    obtain ⟨c, hc⟩ := View.u8_some hv (show off < v.size by omega)
    rw [View.cstr]
    simp only [hc, Option.bind_eq_bind, Option.bind_some]
    split
    · exact ⟨_, rfl⟩
    · rename_i hne
      have : off ≠ z := by
        intro e; subst e; rw [hc] at h0; simp at h0; subst h0; simp at hne
      obtain ⟨r, hr⟩ := View.cstr_some hv fuel (off + 1) z (by omega) hz h0 (by omega)
      simp [hr]

theorem View.slice_some {v : View} (hv : v.Valid) : ∀ (n off : Nat), off + n ≤ v.size → ∃ l, v.slice off n = some l ∧ l.length = n
  | 0, off, _ => ⟨[], rfl, rfl⟩
  | n + 1, off, h => by
    obtain ⟨c, hc⟩ := View.u8_some hv (show off < v.size by omega)
    obtain ⟨l, hl, hn⟩ := View.slice_some hv n (off + 1) (by omega)
    exact ⟨UInt8.ofNat c :: l, by simp [View.slice, hc, hl], by simp [hn]⟩

namespace Elf

/-- what `verifySections` checked for section `n` -/
def SecOK (v : View) (h : Hdr) (namesSize n : Nat) : Prop :=
  ∃ nm ty off sz, v.u32le (h.shoff + n * h.shentsize) = some nm ∧
    v.u32le (h.shoff + n * h.shentsize + 4) = some ty ∧
    v.u32le (h.shoff + n * h.shentsize + 16) = some off ∧
    v.u32le (h.shoff + n * h.shentsize + 20) = some sz ∧
    nm < namesSize ∧ (ty = SHT_NOBITS ∨ (off ≤ v.size ∧ sz ≤ v.size - off))

/-- the header facts `verifyTables` established -/
structure HdrOK (v : View) (h : Hdr) : Prop where
  ent : 40 ≤ h.shentsize
  off : h.shoff ≤ v.size
  tab : h.shnum * h.shentsize ≤ v.size - h.shoff
  idx : h.shstrndx < h.shnum

theorem HdrOK.sec_in {v : View} {h : Hdr} (ok : HdrOK v h) {n : Nat} (hn : n < h.shnum) :
    h.shoff + n * h.shentsize + 40 ≤ v.size := by
  have h1 : (n + 1) * h.shentsize ≤ h.shnum * h.shentsize := Nat.mul_le_mul_right _ hn
  have h2 : (n + 1) * h.shentsize = n * h.shentsize + h.shentsize := by rw [Nat.add_mul, Nat.one_mul]
  have := ok.ent; have := ok.off; have := ok.tab
  omega

theorem verifySections_some {v : View} (hv : v.Valid) {h : Hdr} (ok : HdrOK v h) (ns : Nat) :
    ∀ (k n : Nat), n + k ≤ h.shnum → ∃ b, verifySections v h ns k n = some b
  | 0, n, _ => ⟨true, rfl⟩
  | k + 1, n, hle => by
    have hin := ok.sec_in (show n < h.shnum by omega)
    obtain ⟨a, ha⟩ := View.u32le_some hv (show h.shoff + n * h.shentsize + 3 < v.size by omega)
    obtain ⟨b, hb⟩ := View.u32le_some hv (show h.shoff + n * h.shentsize + 4 + 3 < v.size by omega)
    obtain ⟨c, hc⟩ := View.u32le_some hv (show h.shoff + n * h.shentsize + 16 + 3 < v.size by omega)
    obtain ⟨d, hd⟩ := View.u32le_some hv (show h.shoff + n * h.shentsize + 20 + 3 < v.size by omega)
    obtain ⟨r, hr⟩ := verifySections_some hv ok ns k (n + 1) (by omega)
    rw [verifySections]
    simp only [ha, hb, hc, hd, Option.bind_eq_bind, Option.bind_some, Option.pure_def, hr]
    split
    · exact ⟨_, rfl⟩
    · split
      · exact ⟨_, rfl⟩
      · split
        · exact ⟨_, rfl⟩
        · exact ⟨_, rfl⟩

theorem verifySections_ok {v : View} {h : Hdr} (ns : Nat) :
    ∀ (k n : Nat), verifySections v h ns k n = some true → ∀ j, n ≤ j → j < n + k → SecOK v h ns j
  | 0, n, _, j, h1, h2 => by omega
  | k + 1, n, hver, j, h1, h2 => by
    rw [verifySections] at hver
    simp only [Option.bind_eq_bind, Option.bind_eq_some_iff, Option.pure_def] at hver
    obtain ⟨nm, hnm, ty, hty, off, hoff, sz, hsz, hrest⟩ := hver
    split at hrest
    · cases hrest
    · rename_i hname
      have tail : verifySections v h ns k (n + 1) = some true → (ty = SHT_NOBITS ∨ (off ≤ v.size ∧ sz ≤ v.size - off)) →
          SecOK v h ns j := by
        intro hr hex
        rcases Nat.eq_or_lt_of_le h1 with e | e
        · subst e
          exact ⟨nm, ty, off, sz, hnm, hty, hoff, hsz, by omega, hex⟩
        · exact verifySections_ok ns k (n + 1) hr j (by omega) (by omega)
      split at hrest
      · rename_i hnb
        exact tail hrest (Or.inl hnb)
      · split at hrest
        · cases hrest
        · rename_i hext
          exact tail hrest (Or.inr (by omega))

end Elf
end NakenVerif.Link
