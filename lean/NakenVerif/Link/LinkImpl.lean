import NakenVerif.Link.ArImpl
/-
Transcription of the link protocol of naken_asm, as it is after the `fix:` commits of C20:

* pass 1 of the source: `tokens_get()` (core/tokens.cpp) calls `Linker::search_code_from_symbol(token)` for
  every string token that `symbols.lookup` does not know (`discover`);
* `AsmContext::link()` (core/AsmContext.cpp) in pass 1 and in pass 2;
* `link_function_mips()` (asm/mips.cpp);
* `Symbols::append` / `Symbols::lookup` at global scope (the scopes of the source are closed when link() runs).

The import readers are abstracted into an `Env` (`envOf` builds it from the files' bytes), so that the
theorems about the link loop hold for every reader behaviour, in particular for every byte string.
-/
namespace NakenVerif.Link

/-- three-valued lookup result: the C function's hit, its miss (-1 / NULL / nullptr), or a fault of the reader -/
inductive Look (α : Type) where
  | found (a : α)
  | missing
  | fault

def Look.ofOpt {α : Type} : Option (Option α) → Look α
  | some (some a) => .found a
  | some none => .missing
  | none => .fault

/-- the imports as the linker sees them -/
structure Env where
  /-- `Linker::get_code_from_symbol` (and the search inside `search_code_from_symbol`) -/
  find : Name → Look Found
  /-- `imports_obj_find_name_from_offset(obj_file, obj_size, function_offset, local_offset)` -/
  nameAt : View → Nat → Nat → Look Name

def envOf (imports : List Import) : Env where
  find := fun s => Look.ofOpt (findAll imports s)
  nameAt := fun v off loc => Look.ofOpt (Elf.nameAt v off loc)

/-- which function `asm_context->link_function` points to -/
inductive LinkFn where
  | mips         -- link_function_mips
  | unsupported  -- link_not_supported / link_function_msp430: return -1
  | null         -- no CPU directive: the pointer was never set
  deriving DecidableEq, Repr

structure Cfg where
  linkFn : LinkFn
  /-- `asm_context->memory.endian == ENDIAN_BIG` -/
  bigEndian : Bool
  deriving Repr

abbrev Addr := BitVec 32
/-- the global-scope part of the symbol table, in table order -/
abbrev Syms := List (Name × Addr)

def Syms.lookup (syms : Syms) (n : Name) : Option Addr := (syms.find? (fun e => e.1 == n)).map (·.2)

inductive Outcome (α : Type) where
  | ok (a : α)
  | error        -- the C function returned -1 (a diagnostic is printed, naken_asm exits with status 1)
  | fault        -- a reader read outside its file
  | fuel
  deriving Repr

/-- `Linker::search_code_from_symbol(symbol)`: (return value = 1?, list afterwards) -/
def search (env : Env) (list : List Name) (sym : Name) : Outcome (Bool × List Name) :=
  if sym ∈ list then .ok (true, list)
  else match env.find sym with
    | .found _ => .ok (true, list ++ [sym])
    | .missing => .ok (false, list)
    | .fault => .fault

/-- pass 1 of the source: the string tokens that `symbols.lookup` did not find, in reading order -/
def discover (env : Env) : List Name → List Name → Outcome (List Name)
  | [], list => .ok list
  | t :: ts, list =>
    match search env list t with
    | .ok (_, list') => discover env ts list'
    | .error => .error
    | .fault => .fault
    | .fuel => .fuel

/-! ### link_function_mips -/

/-- `word[0..3]` of the loop body: bytes `n .. n+3` of the function, zeros after its end -/
def wordBytes (code : List UInt8) (n : Nat) : List UInt8 :=
  [code.getD n 0, code.getD (n + 1) 0, code.getD (n + 2) 0, code.getD (n + 3) 0]

def opcodeOf (big : Bool) (w : List UInt8) : BitVec 32 :=
  let b (i : Nat) : BitVec 32 := (w.getD i 0).toBitVec.setWidth 32
  if big then b 3 ||| (b 2 <<< 8) ||| (b 1 <<< 16) ||| (b 0 <<< 24)
  else b 0 ||| (b 1 <<< 8) ||| (b 2 <<< 16) ||| (b 3 <<< 24)

/-- the four `memory_write_inc` calls of `add_bin32` -/
def bytesOf (big : Bool) (op : BitVec 32) : List UInt8 :=
  let b (k : Nat) : UInt8 := UInt8.ofBitVec (((op >>> k) &&& 0xff).setWidth 8)
  if big then [b 24, b 16, b 8, b 0] else [b 0, b 8, b 16, b 24]

def isJal (op : BitVec 32) : Bool := (op &&& 0xfc000000) == 0x0c000000

/-- `opcode = opcode & 0xfc000000; opcode |= (address >> 2) & 0x03ffffff;` -/
def patch (op : BitVec 32) (address : BitVec 32) : BitVec 32 :=
  (op &&& 0xfc000000) ||| ((address >>> 2) &&& 0x03ffffff)

/-- pass 1: the loop over the words; `k` words left, `n` = byte offset.  Returns the needed-symbol list.
(`add_bin32` only advances `address` by 4 or writes bytes that pass 2 overwrites.) -/
def scan1 (env : Env) (cfg : Cfg) (f : Found) : Nat → Nat → List Name → Outcome (List Name)
  | 0, _, list => .ok list
  | k + 1, n, list =>
    let op := opcodeOf cfg.bigEndian (wordBytes f.code n)
    if isJal op then
      match env.nameAt f.obj (f.functionOffset + n) (op &&& 0x03000000).toNat with
      | .fault => .fault
      | .missing => .error                       -- "Couldn't find symbol name from offset."
      | .found g =>
        match search env list g with
        | .ok (true, list') => scan1 env cfg f k (n + 4) list'
        | .ok (false, _) => .error                -- "Symbol not found"
        | .error => .error
        | .fault => .fault
        | .fuel => .fuel
    else scan1 env cfg f k (n + 4) list

/-- pass 2: the loop over the words; returns the bytes written (in order, from `address` upwards) -/
def scan2 (env : Env) (cfg : Cfg) (syms : Syms) (f : Found) : Nat → Nat → Outcome (List UInt8)
  | 0, _ => .ok []
  | k + 1, n =>
    let op := opcodeOf cfg.bigEndian (wordBytes f.code n)
    let emit (op' : BitVec 32) : Outcome (List UInt8) :=
      match scan2 env cfg syms f k (n + 4) with
      | .ok rest => .ok (bytesOf cfg.bigEndian op' ++ rest)
      | .error => .error
      | .fault => .fault
      | .fuel => .fuel
    if isJal op then
      match env.nameAt f.obj (f.functionOffset + n) (op &&& 0x03000000).toNat with
      | .fault => .fault
      | .missing => .error
      | .found g =>
        match syms.lookup g with
        | none => .error                          -- "Symbol not found"
        | some a => emit (patch op a)
    else emit op

/-- number of iterations of `for (n = 0; n < size; n = n + 4)` -/
def wordCount (size : Nat) : Nat := (size + 3) / 4

/-! ### AsmContext::link -/

/-- `(asm_context->address & 0x3) != 0` at the top of link_function_mips: "Imported code would start at ..." -/
def misaligned (a : Addr) : Bool := (a &&& 3) != 0

structure St1 where
  list : List Name
  syms : Syms
  addr : Addr
  deriving Repr

/-- `Symbols::append(name, address)` before `lock()`: 0 or -1 -/
def appendSym (syms : Syms) (n : Name) (a : Addr) : Option Syms :=
  if (syms.lookup n).isSome then none                 -- "Label already defined"
  else if n.length + 1 > 255 then none                -- "Label is too big"
  else some (syms ++ [(n, a)])

/-- `AsmContext::link()` in pass 1, from `index` on.  `fuel` bounds the iterations
(`Link/ProofsTermination.lean`: a bound that depends only on the imports and the tokens always suffices). -/
def link1 (env : Env) (cfg : Cfg) : Nat → Nat → St1 → Outcome St1
  | 0, _, _ => .fuel
  | fuel + 1, index, st =>
    match st.list[index]? with
    | none => .ok st
    | some sym =>
      if cfg.linkFn = .null then .error else
      let addr := st.addr
      match appendSym st.syms sym addr with
      | none => .error
      | some syms =>
        match env.find sym with
        | .fault => .fault
        | .missing =>
          -- code == nullptr, function_size == 0: the link function has nothing to copy
          if cfg.linkFn = .mips ∧ !misaligned addr then link1 env cfg fuel (index + 1) { st with syms, addr }
          else .error
        | .found f =>
          if cfg.linkFn ≠ .mips ∨ misaligned addr then .error else
          match scan1 env cfg f (wordCount f.code.length) 0 st.list with
          | .ok list' =>
            link1 env cfg fuel (index + 1)
              { list := list', syms, addr := addr + BitVec.ofNat 32 (4 * wordCount f.code.length) }
          | .error => .error
          | .fault => .fault
          | .fuel => .fuel

/-- `Symbols::append(name, address)` after `lock()` (the entry is a label: `flag_rw == false`, scope 0) -/
def appendLocked (syms : Syms) (n : Name) (a : Addr) : Bool :=
  match syms.lookup n with
  | some a0 => a0 == a                                 -- "Label moved between passes" otherwise
  | none => true

/-- `AsmContext::link()` in pass 2: structural over the (now fixed) needed-symbol list.
Returns the address at the end and the write runs `(start address, bytes)` in order. -/
def link2 (env : Env) (cfg : Cfg) (syms : Syms) : List Name → Addr → Outcome (Addr × List (Addr × List UInt8))
  | [], addr => .ok (addr, [])
  | sym :: rest, addr0 =>
    if cfg.linkFn = .null then .error else
    let addr := addr0
    if !appendLocked syms sym addr then .error else
    match env.find sym with
    | .fault => .fault
    | .missing =>
      if cfg.linkFn = .mips ∧ !misaligned addr then link2 env cfg syms rest addr else .error
    | .found f =>
      if cfg.linkFn ≠ .mips ∨ misaligned addr then .error else
      match scan2 env cfg syms f (wordCount f.code.length) 0 with
      | .ok bytes =>
        (match link2 env cfg syms rest (addr + BitVec.ofNat 32 bytes.length) with
         | .ok (e, runs) => .ok (e, (addr, bytes) :: runs)
         | .error => .error
         | .fault => .fault
         | .fuel => .fuel)
      | .error => .error
      | .fault => .fault
      | .fuel => .fuel

/-- what the rest of naken_asm contributes to a link (everything the link protocol reads from it) -/
structure Prog where
  /-- string tokens of the source that `symbols.lookup` does not know when they are read in pass 1 -/
  idents : List Name
  /-- global symbol table at the end of pass 1 of the source -/
  syms : Syms
  /-- `asm_context->address` at the end of pass 1 / pass 2 of the source -/
  end1 : Addr
  end2 : Addr
  /-- names the source needs resolved in pass 2 (operands of its instructions and directives) -/
  refs : List Name

structure Out where
  p1list : List Name
  list : List Name
  syms : Syms
  endAddr : Addr
  runs : List (Addr × List UInt8)
  deriving Repr, DecidableEq

inductive Stage where
  | link1 | pass2 | link2
  deriving Repr, DecidableEq

inductive Result where
  | ok (o : Out)
  | error (s : Stage)
  | fault
  | fuel
  deriving Repr, DecidableEq

/-- the whole protocol for one source and one set of imports: pass-1 discovery, link() of pass 1,
the source's pass 2 (fails when one of its references is still unknown), link() of pass 2 -/
def linkAll (env : Env) (cfg : Cfg) (p : Prog) (fuel : Nat) : Result :=
  match discover env p.idents [] with
  | .error => .error .link1
  | .fault => .fault
  | .fuel => .fuel
  | .ok l0 =>
    match link1 env cfg fuel 0 { list := l0, syms := p.syms, addr := p.end1 } with
    | .error => .error .link1
    | .fault => .fault
    | .fuel => .fuel
    | .ok st =>
      if p.refs.any (fun r => (st.syms.lookup r).isNone) then .error .pass2 else
      match link2 env cfg st.syms st.list p.end2 with
      | .error => .error .link2
      | .fault => .fault
      | .fuel => .fuel
      | .ok (e, runs) => .ok { p1list := l0, list := st.list, syms := st.syms, endAddr := e, runs }

end NakenVerif.Link
