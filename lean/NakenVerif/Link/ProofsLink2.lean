import NakenVerif.Link.ProofsWords
import NakenVerif.Link.ProofsLink1
/-
Pass 2: `scan2` writes the bytes the specification demands (`Spec.relocated`), `link2` places the functions
where pass 1 recorded them.
-/
namespace NakenVerif.Link

theorem callsFrom_ge (env : Env) (big : Bool) (f : Found) : ∀ (k n : Nat) (e : Nat × Name),
    e ∈ callsFrom env big f k n → n ≤ e.1
  | 0, n, e, h => by rw [callsFrom] at h; cases h
  | k + 1, n, e, h => by
    rw [callsFrom] at h
    split at h
    · split at h
      · rcases List.mem_cons.mp h with h | h
        · subst h; exact Nat.le_refl _
        · have := callsFrom_ge env big f k (n + 4) e h; omega
      · have := callsFrom_ge env big f k (n + 4) e h; omega
    · have := callsFrom_ge env big f k (n + 4) e h; omega

theorem find?_none_of_lt (l : List (Nat × Name)) (n : Nat) (h : ∀ e ∈ l, e.1 < n) :
    l.find? (fun e => e.1 == n) = none := by
  rw [List.find?_eq_none]
  intro e he hen
  have := h e he
  simp at hen; omega

theorem find?_none_of_gt (l : List (Nat × Name)) (n : Nat) (h : ∀ e ∈ l, n < e.1) :
    l.find? (fun e => e.1 == n) = none := by
  rw [List.find?_eq_none]
  intro e he hen
  have := h e he
  simp at hen; omega

theorem relocated_congr_calls (big : Bool) (addrOf : Name → Option Spec.Addr) (code : List UInt8)
    (c1 c2 : List (Nat × Name)) : ∀ (k off : Nat),
    (∀ o, off ≤ o → c1.find? (fun e => e.1 == o) = c2.find? (fun e => e.1 == o)) →
    Spec.relocated big addrOf { code := code, calls := c1 } k off =
      Spec.relocated big addrOf { code := code, calls := c2 } k off
  | 0, off, _ => by simp [Spec.relocated]
  | k + 1, off, h => by
    rw [Spec.relocated, Spec.relocated]
    simp only
    rw [h off (Nat.le_refl _), relocated_congr_calls big addrOf code c1 c2 k (off + 4) (fun o ho => h o (by omega))]

/-- pass-2 scan of a function: the bytes written are the specified ones -/
theorem scan2_ok {env : Env} {cfg : Cfg} {syms : Syms} {f : Found} : ∀ (k n : Nat) (bytes : List UInt8),
    scan2 env cfg syms f k n = .ok bytes →
    ∀ pre : List (Nat × Name), (∀ e ∈ pre, e.1 < n) →
    Spec.relocated cfg.bigEndian (Syms.lookup syms)
      { code := f.code, calls := pre ++ callsFrom env cfg.bigEndian f k n } k n = some bytes
  | 0, n, bytes, h, pre, _ => by
    simp [scan2] at h; subst h; simp [Spec.relocated]
  | k + 1, n, bytes, h, pre, hpre => by
    unfold scan2 at h
    simp only at h
    have hw : opcodeOf cfg.bigEndian (wordBytes f.code n) =
        Spec.getWord cfg.bigEndian (f.code.getD (n + 0) 0) (f.code.getD (n + 1) 0) (f.code.getD (n + 2) 0)
          (f.code.getD (n + 3) 0) := by
      simp only [wordBytes, Nat.add_zero]; exact opcodeOf_eq_getWord _ _ _ _ _
    split at h
    · rename_i hj
      split at h
      · cases h
      · cases h
      · rename_i g hg
        split at h
        · cases h
        · rename_i a ha
          split at h
          · rename_i rest hrest
            cases h
            have hc : callsFrom env cfg.bigEndian f (k + 1) n = (n, g) :: callsFrom env cfg.bigEndian f k (n + 4) := by
              rw [callsFrom]; simp only [hj, ↓reduceIte, hg]
            have ih := scan2_ok k (n + 4) rest hrest (pre ++ [(n, g)]) (by
              intro e he
              rcases List.mem_append.mp he with h | h
              · have := hpre e h; omega
              · simp at h; subst h; simp)
            rw [Spec.relocated]
            simp only
            rw [hc, List.find?_append, find?_none_of_lt pre n hpre]
            simp only [Option.none_or, List.find?_cons_of_pos, beq_self_eq_true]
            rw [List.append_assoc, List.singleton_append] at ih
            rw [ih, ha]
            simp only [Option.map_some, ← hw, ← patch_eq_setTarget, ← bytesOf_eq_putWord]
          all_goals cases h
    · rename_i hj
      split at h
      · rename_i rest hrest
        cases h
        have hc : callsFrom env cfg.bigEndian f (k + 1) n = callsFrom env cfg.bigEndian f k (n + 4) := by
          rw [callsFrom]; simp only [hj, Bool.false_eq_true, ↓reduceIte]
        have ih := scan2_ok k (n + 4) rest hrest pre (by intro e he; have := hpre e he; omega)
        rw [Spec.relocated]
        simp only
        rw [hc, List.find?_append, find?_none_of_lt pre n hpre,
          find?_none_of_gt _ n (fun e he => by have := callsFrom_ge env cfg.bigEndian f k (n + 4) e he; omega)]
        simp only [Option.none_or]
        rw [ih]
        simp only [← hw, ← bytesOf_eq_putWord]
      all_goals cases h

theorem relocated_length (big : Bool) (addrOf : Name → Option Spec.Addr) (fn : Spec.Fn) :
    ∀ (k off : Nat) (bytes : List UInt8), Spec.relocated big addrOf fn k off = some bytes → bytes.length = 4 * k
  | 0, off, bytes, h => by simp [Spec.relocated] at h; subst h; rfl
  | k + 1, off, bytes, h => by
    rw [Spec.relocated] at h
    simp only at h
    split at h
    · rename_i w' rest hw hr
      cases h
      have := relocated_length big addrOf fn k (off + 4) rest hr
      have hp : (Spec.putWord big w').length = 4 := by cases big <;> simp [Spec.putWord]
      rw [List.length_append, hp, this]; omega
    · cases h

/-- the two lists have the same length and are related position by position -/
inductive All2 {α β : Type} (R : α → β → Prop) : List α → List β → Prop where
  | nil : All2 R [] []
  | cons {a : α} {b : β} {as : List α} {bs : List β} : R a b → All2 R as bs → All2 R (a :: as) (b :: bs)

theorem All2.length_eq {α β : Type} {R : α → β → Prop} : ∀ {xs : List α} {ys : List β}, All2 R xs ys →
    xs.length = ys.length
  | _, _, .nil => rfl
  | _, _, .cons _ h => by simp [h.length_eq]

theorem All2.get {α β : Type} {R : α → β → Prop} : ∀ {xs : List α} {ys : List β}, All2 R xs ys →
    ∀ (i : Nat) (x : α), xs[i]? = some x → ∃ y, ys[i]? = some y ∧ R x y
  | _, _, .nil, i, x, h => by simp at h
  | _, _, .cons r h, 0, x, hx => by simp at hx; subst hx; exact ⟨_, by simp, r⟩
  | _, _, .cons r h, i + 1, x, hx => by simp at hx; simpa using h.get i x hx

/-- what pass 2 established for one placed function -/
def PlacedOK (env : Env) (big : Bool) (syms : Syms) (na : Name × Addr) (run : Addr × List UInt8) : Prop :=
  run.1 = na.2 ∧ misaligned na.2 = false ∧
  ∃ f, env.find na.1 = .found f ∧
    Spec.relocated big (Syms.lookup syms) (fnOf env big f) (Spec.words f.code.length) 0 = some run.2

/-- `link2` returning 0: every function is written at the address pass 1 recorded, with the specified bytes -/
theorem link2_ok {env : Env} {cfg : Cfg} {syms : Syms} : ∀ (names : List Name) (a2 a1 e : Addr)
    (runs : List (Addr × List UInt8)), link2 env cfg syms names a2 = .ok (e, runs) →
    (∀ n ∈ names, Findable env n) →
    (∀ x ∈ Spec.layout (sizeOf env) names a1, Syms.lookup syms x.1 = some x.2) →
    All2 (PlacedOK env cfg.bigEndian syms) (Spec.layout (sizeOf env) names a1) runs ∧
    (names ≠ [] → a1 = a2)
  | [], a2, a1, e, runs, h, _, _ => by
    simp [link2] at h
    obtain ⟨_, rfl⟩ := h
    exact ⟨by simp only [Spec.layout]; exact .nil, by simp⟩
  | n :: ns, a2, a1, e, runs, h, hfind, hlook => by
    unfold link2 at h
    split at h
    · cases h
    · simp only at h
      split at h
      · cases h
      · rename_i hlocked
        have hl := hlook (n, a1) (by simp [Spec.layout])
        have ha : a1 = a2 := by
          simp only [appendLocked, hl, Bool.not_eq_true] at hlocked
          simpa using hlocked
        split at h
        · cases h
        · rename_i hmiss
          have ⟨f, hf⟩ := hfind n List.mem_cons_self
          rw [hf] at hmiss; cases hmiss
        · rename_i f hf
          split at h
          · cases h
          · rename_i hcond
            have hal : misaligned a2 = false := by
              cases hk : misaligned a2 <;> simp_all
            split at h
            · rename_i bytes hscan
              split at h
              · rename_i e' runs' hrest
                cases h
                have hrel := scan2_ok _ _ _ hscan [] (by simp)
                simp only [List.nil_append] at hrel
                have hlen := relocated_length _ _ _ _ _ _ hrel
                have ih := link2_ok ns _
                  (a1 + BitVec.ofNat 32 (4 * Spec.words (sizeOf env n))) _ _ hrest
                  (fun m hm => hfind m (List.mem_cons_of_mem _ hm))
                  (fun x hx => hlook x (by simp [Spec.layout]; exact Or.inr hx))
                refine ⟨?_, fun _ => ha⟩
                simp only [Spec.layout]
                refine All2.cons ?_ ih.1
                refine ⟨ha.symm, ha ▸ hal, f, hf, ?_⟩
                exact hrel
              all_goals cases h
            all_goals cases h

end NakenVerif.Link
