import NakenVerif.Link.ProofsBounds4
/-
The link protocol over readers that do not fault does not fault.
-/
namespace NakenVerif.Link

theorem search_ne_fault {env : Env} (nf : NoFault env) (list : List Name) (g : Name) : search env list g ≠ .fault := by
  unfold search; split
  · simp
  · split
    · simp
    · simp
    · rename_i h; exact absurd h (nf.find g)

theorem discover_ne_fault {env : Env} (nf : NoFault env) : ∀ (ts list : List Name), discover env ts list ≠ .fault
  | [], list => by simp [discover]
  | t :: ts, list => by
    unfold discover
    split
    · exact discover_ne_fault nf ts _
    · simp
    · rename_i h; exact absurd h (search_ne_fault nf list t)
    · simp

theorem scan1_ne_fault {env : Env} (nf : NoFault env) (cfg : Cfg) {sym : Name} {f : Found}
    (hf : env.find sym = .found f) : ∀ (k n : Nat) (list : List Name), scan1 env cfg f k n list ≠ .fault
  | 0, n, list => by simp [scan1]
  | k + 1, n, list => by
    unfold scan1
    simp only
    split
    · split
      · rename_i h; exact absurd h (nf.nameAt sym f hf _ _)
      · simp
      · rename_i g _
        split
        · exact scan1_ne_fault nf cfg hf k (n + 4) _
        · simp
        · simp
        · rename_i h; exact absurd h (search_ne_fault nf list g)
        · simp
    · exact scan1_ne_fault nf cfg hf k (n + 4) _

theorem scan2_ne_fault {env : Env} (nf : NoFault env) (cfg : Cfg) (syms : Syms) {sym : Name} {f : Found}
    (hf : env.find sym = .found f) : ∀ (k n : Nat), scan2 env cfg syms f k n ≠ .fault
  | 0, n => by simp [scan2]
  | k + 1, n => by
    have ih := scan2_ne_fault nf cfg syms hf k (n + 4)
    unfold scan2
    simp only
    split
    · split
      · rename_i h; exact absurd h (nf.nameAt sym f hf _ _)
      · simp
      · split
        · simp
        · split <;> simp_all
    · split <;> simp_all

theorem link1_ne_fault {env : Env} (nf : NoFault env) (cfg : Cfg) : ∀ (fuel index : Nat) (st : St1),
    link1 env cfg fuel index st ≠ .fault
  | 0, index, st => by simp [link1]
  | fuel + 1, index, st => by
    unfold link1
    split
    · simp
    · rename_i sym _
      split
      · simp
      · simp only
        split
        · simp
        · split
          · rename_i h; exact absurd h (nf.find sym)
          · split
            · exact link1_ne_fault nf cfg fuel _ _
            · simp
          · rename_i f hf
            split
            · simp
            · split
              · exact link1_ne_fault nf cfg fuel _ _
              · simp
              · rename_i h; exact absurd h (scan1_ne_fault nf cfg hf _ _ _)
              · simp

theorem link2_ne_fault {env : Env} (nf : NoFault env) (cfg : Cfg) (syms : Syms) : ∀ (names : List Name) (a : Addr),
    link2 env cfg syms names a ≠ .fault
  | [], a => by simp [link2]
  | n :: ns, a => by
    unfold link2
    split
    · simp
    · simp only
      split
      · simp
      · split
        · rename_i h; exact absurd h (nf.find n)
        · split
          · exact link2_ne_fault nf cfg syms ns a
          · simp
        · rename_i f hf
          split
          · simp
          · split
            · rename_i bytes _
              have ih := link2_ne_fault nf cfg syms ns (a + BitVec.ofNat 32 bytes.length)
              split <;> simp_all
            · simp
            · rename_i h; exact absurd h (scan2_ne_fault nf cfg syms hf _ _)
            · simp

theorem linkAll_ne_fault {env : Env} (nf : NoFault env) (cfg : Cfg) (p : Prog) (fuel : Nat) :
    linkAll env cfg p fuel ≠ .fault := by
  unfold linkAll
  split
  · simp
  · rename_i h; exact absurd h (discover_ne_fault nf _ _)
  · simp
  · split
    · simp
    · rename_i h; exact absurd h (link1_ne_fault nf cfg _ _ _)
    · simp
    · split
      · simp
      · split
        · simp
        · rename_i h; exact absurd h (link2_ne_fault nf cfg _ _ _)
        · simp
        · simp

end NakenVerif.Link
