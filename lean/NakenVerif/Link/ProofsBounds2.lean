import NakenVerif.Link.ProofsBounds
/-
Part 2: `verify` and what it establishes; the section loops.
-/
namespace NakenVerif.Link.Elf
open NakenVerif.Link

/-- everything `verify v = some true` established -/
structure WF (v : View) (h : Hdr) (no ns : Nat) : Prop where
  size : 52 ≤ v.size
  hdr : readHdr v = some h
  ok : HdrOK v h
  namesOff : v.u32le (h.shoff + h.shstrndx * h.shentsize + 16) = some no
  namesSize : v.u32le (h.shoff + h.shstrndx * h.shentsize + 20) = some ns
  namesIn : no ≤ v.size ∧ ns ≤ v.size - no ∧ 0 < ns
  namesNul : v.u8 (no + ns - 1) = some 0
  secs : ∀ j, j < h.shnum → SecOK v h ns j

theorem readHdr_some {v : View} (hv : v.Valid) (hs : 52 ≤ v.size) : ∃ h, readHdr v = some h := by
  obtain ⟨a, ha⟩ := View.u32le_some hv (show 32 + 3 < v.size by omega)
  obtain ⟨b, hb⟩ := View.u16le_some hv (show 46 + 1 < v.size by omega)
  obtain ⟨c, hc⟩ := View.u16le_some hv (show 48 + 1 < v.size by omega)
  obtain ⟨d, hd⟩ := View.u16le_some hv (show 50 + 1 < v.size by omega)
  simp [readHdr, ha, hb, hc, hd]

theorem verifyIdent_some {v : View} (hv : v.Valid) : ∃ b, verifyIdent v = some b := by
  unfold verifyIdent
  split
  · exact ⟨_, rfl⟩
  · rename_i hs
    obtain ⟨b0, h0⟩ := View.u8_some hv (show 0 < v.size by omega)
    obtain ⟨b1, h1⟩ := View.u8_some hv (show 1 < v.size by omega)
    obtain ⟨b2, h2⟩ := View.u8_some hv (show 2 < v.size by omega)
    obtain ⟨b3, h3⟩ := View.u8_some hv (show 3 < v.size by omega)
    obtain ⟨b4, h4⟩ := View.u8_some hv (show 4 < v.size by omega)
    obtain ⟨b5, h5⟩ := View.u8_some hv (show 5 < v.size by omega)
    simp only [h0, h1, h2, h3, h4, h5, Option.bind_eq_bind, Option.bind_some, Option.pure_def]
    repeat (first | exact ⟨_, rfl⟩ | split)

theorem verifyIdent_true {v : View} (h : verifyIdent v = some true) : 52 ≤ v.size := by
  unfold verifyIdent at h
  split at h
  · simp at h
  · omega

theorem verifyTables_some {v : View} (hv : v.Valid) (hs : 52 ≤ v.size) : ∃ b, verifyTables v = some b := by
  obtain ⟨h, hh⟩ := readHdr_some hv hs
  unfold verifyTables
  simp only [hh, Option.bind_eq_bind, Option.bind_some, Option.pure_def]
  split
  · exact ⟨_, rfl⟩
  · rename_i h1
    split
    · exact ⟨_, rfl⟩
    · rename_i h2
      split
      · exact ⟨_, rfl⟩
      · rename_i h3
        have ok : HdrOK v h := ⟨by omega, by omega, by omega, by omega⟩
        have hin := ok.sec_in (show h.shstrndx < h.shnum by omega)
        obtain ⟨no, hno⟩ := View.u32le_some hv (show h.shoff + h.shstrndx * h.shentsize + 16 + 3 < v.size by omega)
        obtain ⟨ns, hns⟩ := View.u32le_some hv (show h.shoff + h.shstrndx * h.shentsize + 20 + 3 < v.size by omega)
        simp only [hno, hns, Option.bind_some]
        split
        · exact ⟨_, rfl⟩
        · rename_i h4
          split
          · exact ⟨_, rfl⟩
          · rename_i h5
            obtain ⟨l, hl⟩ := View.u8_some hv (show no + ns - 1 < v.size by omega)
            simp only [hl, Option.bind_some]
            split
            · exact ⟨_, rfl⟩
            · exact verifySections_some hv ok ns _ _ (by omega)

/-- `imports_obj_verify` never reads outside the file -/
theorem verify_some {v : View} (hv : v.Valid) : ∃ b, verify v = some b := by
  unfold verify
  obtain ⟨b, hb⟩ := verifyIdent_some hv
  simp only [hb, Option.bind_eq_bind, Option.bind_some, Option.pure_def]
  cases b with
  | false => exact ⟨_, rfl⟩
  | true => exact verifyTables_some hv (verifyIdent_true hb)

theorem verify_true {v : View} (hver : verify v = some true) : ∃ h no ns, WF v h no ns := by
  unfold verify at hver
  simp only [Option.bind_eq_bind, Option.bind_eq_some_iff, Option.pure_def] at hver
  obtain ⟨b, hb, hver⟩ := hver
  cases b with
  | false => simp at hver
  | true =>
    simp only [Bool.not_true, Bool.false_eq_true, ↓reduceIte] at hver
    have hs := verifyIdent_true hb
    unfold verifyTables at hver
    simp only [Option.bind_eq_bind, Option.bind_eq_some_iff, Option.pure_def] at hver
    obtain ⟨h, hh, hver⟩ := hver
    split at hver
    · simp at hver
    · rename_i h1
      split at hver
      · simp at hver
      · rename_i h2
        split at hver
        · simp at hver
        · rename_i h3
          simp only [Option.bind_eq_some_iff] at hver
          obtain ⟨no, hno, ns, hns, hver⟩ := hver
          split at hver
          · simp at hver
          · rename_i h4
            split at hver
            · simp at hver
            · rename_i h5
              simp only [Option.bind_eq_some_iff] at hver
              obtain ⟨l, hl, hver⟩ := hver
              split at hver
              · simp at hver
              · rename_i h6
                have hl0 : l = 0 := by omega
                subst hl0
                refine ⟨h, no, ns, ⟨hs, hh, ⟨by omega, by omega, by omega, by omega⟩, hno, hns, by omega, hl, ?_⟩⟩
                intro j hj
                exact verifySections_ok ns _ _ hver j (Nat.zero_le _) (by omega)

theorem guard_some {x : Option Nat} {k : Nat} {rest : Option Bool}
    (h : (x.bind fun b => if b = k then rest else some false) = some true) : x = some k ∧ rest = some true := by
  cases x with
  | none => simp at h
  | some b =>
    simp only [Option.bind_some] at h
    split at h
    · rename_i e; exact ⟨by rw [e], h⟩
    · cases h

theorem verify_ident_facts (v : View) (h : verify v = some true) :
    52 ≤ v.size ∧ v.u8 0 = some 0x7f ∧ v.u8 1 = some 0x45 ∧ v.u8 2 = some 0x4c ∧ v.u8 3 = some 0x46 ∧
    v.u8 4 = some 1 ∧ v.u8 5 = some 1 := by
  unfold verify at h
  cases hi : verifyIdent v with
  | none => simp [hi] at h
  | some ok =>
    cases ok with
    | false => simp [hi] at h
    | true =>
      clear h
      unfold verifyIdent at hi
      split at hi
      · simp at hi
      · rename_i hs
        simp only [Option.bind_eq_bind, Option.pure_def, ne_eq, ite_not] at hi
        obtain ⟨h0, hi⟩ := guard_some hi
        obtain ⟨h1, hi⟩ := guard_some hi
        obtain ⟨h2, hi⟩ := guard_some hi
        obtain ⟨h3, hi⟩ := guard_some hi
        cases h4 : v.u8 4 <;> simp only [h4, Option.bind_none, Option.bind_some] at hi
        · cases hi
        cases h5 : v.u8 5 <;> simp only [h5, Option.bind_none, Option.bind_some] at hi
        · cases hi
        split at hi
        · cases hi
        · rename_i e
          refine ⟨by omega, h0, h1, h2, h3, ?_, ?_⟩
          · congr; omega
          · congr; omega


/-- the tables collected by a section loop lie inside the file; `.strtab` ends with a NUL -/
structure SecsOK (v : View) (s : Secs) : Prop where
  symtab : ∀ t, s.symtab = some t → t.off + t.size ≤ v.size
  strtab : ∀ t, s.strtab = some t → t.off + t.size ≤ v.size ∧ 0 < t.size ∧ v.u8 (t.off + t.size - 1) = some 0
  reltab : s.reltab.off + s.reltab.size ≤ v.size
  text : s.textOff + s.textSize ≤ v.size

theorem SecsOK.init (v : View) : SecsOK v {} where
  symtab := fun t h => by cases h
  strtab := fun t h => by cases h
  reltab := by simp
  text := by simp

theorem WF.name_cmp {v : View} {h : Hdr} {no ns : Nat} (wf : WF v h no ns) (hv : v.Valid) {nm : Nat}
    (hnm : nm < ns) (lit : Name) : ∃ b, v.cstrEq (no + nm) lit = some b :=
  View.cstrEq_some hv lit (no + nm) (no + ns - 1) (by omega) (by have := wf.namesIn; omega) wf.namesNul

theorem guardedEq_true {v : View} {c : Bool} {off : Nat} {lit : Name} (h : guardedEq v c off lit = some true) :
    c = true := by
  unfold guardedEq at h
  cases c <;> simp_all

theorem WF.guarded {v : View} {h : Hdr} {no ns : Nat} (wf : WF v h no ns) (hv : v.Valid) {nm : Nat}
    (hnm : nm < ns) (c : Bool) (lit : Name) : ∃ b, guardedEq v c (no + nm) lit = some b := by
  unfold guardedEq
  cases c
  · exact ⟨_, rfl⟩
  · exact wf.name_cmp hv hnm lit

theorem codeSections_some {v : View} {h : Hdr} {no ns : Nat} (wf : WF v h no ns) (hv : v.Valid) :
    ∀ (k i : Nat) (s : Secs), i + k ≤ h.shnum → SecsOK v s →
      ∃ r, codeSections v h no k i s = some r ∧ ∀ s', r = some s' → SecsOK v s'
  | 0, i, s, _, hs => ⟨some s, rfl, fun s' e => by cases e; exact hs⟩
  | k + 1, i, s, hle, hs => by
    obtain ⟨nm, ty, off, sz, hnm, hty, hoff, hsz, hlt, hext⟩ := wf.secs i (by omega)
    rw [codeSections]
    simp only [hnm, hty, hoff, hsz, Option.bind_eq_bind, Option.bind_some, Option.pure_def]
    split
    · rename_i hsym
      have hne : ty ≠ SHT_NOBITS := by rw [hsym]; decide
      have hin : off ≤ v.size ∧ sz ≤ v.size - off := by rcases hext with e | e; exact absurd e hne; exact e
      exact codeSections_some wf hv k (i + 1) _ (by omega)
        ⟨by intro t ht; simp at ht; subst ht; simp; omega, hs.strtab, hs.reltab, hs.text⟩
    · obtain ⟨b1, hb1⟩ := wf.guarded hv hlt (ty == SHT_STRTAB) dotStrtab
      simp only [hb1, Option.bind_some]
      cases b1 with
      | true =>
        simp only [↓reduceIte]
        have hst : ty = SHT_STRTAB := by simpa using guardedEq_true hb1
        have hne : ty ≠ SHT_NOBITS := by rw [hst]; decide
        have hin : off ≤ v.size ∧ sz ≤ v.size - off := by rcases hext with e | e; exact absurd e hne; exact e
        split
        · exact ⟨none, rfl, fun s' e => by cases e⟩
        · rename_i hsz0
          obtain ⟨l, hl⟩ := View.u8_some hv (show off + sz - 1 < v.size by omega)
          simp only [hl, Option.bind_some]
          split
          · exact ⟨none, rfl, fun s' e => by cases e⟩
          · rename_i hl0
            have : l = 0 := by omega
            subst this
            exact codeSections_some wf hv k (i + 1) _ (by omega)
              ⟨hs.symtab, by intro t ht; simp at ht; subst ht; simp; exact ⟨by omega, by omega, hl⟩, hs.reltab, hs.text⟩
      | false =>
        simp only [Bool.false_eq_true, ↓reduceIte]
        obtain ⟨b2, hb2⟩ := wf.guarded hv hlt (ty != SHT_NOBITS) dotText
        simp only [hb2, Option.bind_some]
        cases b2 with
        | true =>
          simp only [↓reduceIte]
          have hne : ty ≠ SHT_NOBITS := by simpa using guardedEq_true hb2
          have hin : off ≤ v.size ∧ sz ≤ v.size - off := by rcases hext with e | e; exact absurd e hne; exact e
          exact codeSections_some wf hv k (i + 1) _ (by omega)
            ⟨hs.symtab, hs.strtab, hs.reltab, by simp; omega⟩
        | false =>
          simp only [Bool.false_eq_true, ↓reduceIte]
          exact codeSections_some wf hv k (i + 1) s (by omega) hs

theorem nameSections_some {v : View} {h : Hdr} {no ns : Nat} (wf : WF v h no ns) (hv : v.Valid) :
    ∀ (k i : Nat) (s : Secs), i + k ≤ h.shnum → SecsOK v s →
      ∃ r, nameSections v h no k i s = some r ∧ ∀ s', r = some s' → SecsOK v s'
  | 0, i, s, _, hs => ⟨some s, rfl, fun s' e => by cases e; exact hs⟩
  | k + 1, i, s, hle, hs => by
    obtain ⟨nm, ty, off, sz, hnm, hty, hoff, hsz, hlt, hext⟩ := wf.secs i (by omega)
    rw [nameSections]
    simp only [hnm, hty, hoff, hsz, Option.bind_eq_bind, Option.bind_some, Option.pure_def]
    split
    · rename_i hsym
      have hne : ty ≠ SHT_NOBITS := by rw [hsym]; decide
      have hin : off ≤ v.size ∧ sz ≤ v.size - off := by rcases hext with e | e; exact absurd e hne; exact e
      exact nameSections_some wf hv k (i + 1) _ (by omega)
        ⟨by intro t ht; simp at ht; subst ht; simp; omega, hs.strtab, hs.reltab, hs.text⟩
    · obtain ⟨b1, hb1⟩ := wf.guarded hv hlt (ty == SHT_STRTAB) dotStrtab
      simp only [hb1, Option.bind_some]
      cases b1 with
      | true =>
        simp only [↓reduceIte]
        have hst : ty = SHT_STRTAB := by simpa using guardedEq_true hb1
        have hne : ty ≠ SHT_NOBITS := by rw [hst]; decide
        have hin : off ≤ v.size ∧ sz ≤ v.size - off := by rcases hext with e | e; exact absurd e hne; exact e
        split
        · exact ⟨none, rfl, fun s' e => by cases e⟩
        · rename_i hsz0
          obtain ⟨l, hl⟩ := View.u8_some hv (show off + sz - 1 < v.size by omega)
          simp only [hl, Option.bind_some]
          split
          · exact ⟨none, rfl, fun s' e => by cases e⟩
          · rename_i hl0
            have : l = 0 := by omega
            subst this
            exact nameSections_some wf hv k (i + 1) _ (by omega)
              ⟨hs.symtab, by intro t ht; simp at ht; subst ht; simp; exact ⟨by omega, by omega, hl⟩, hs.reltab, hs.text⟩
      | false =>
        simp only [Bool.false_eq_true, ↓reduceIte]
        obtain ⟨b2, hb2⟩ := wf.guarded hv hlt (ty == SHT_REL) dotRelText
        simp only [hb2, Option.bind_some]
        cases b2 with
        | true =>
          simp only [↓reduceIte]
          have hrel : ty = SHT_REL := by simpa using guardedEq_true hb2
          have hne : ty ≠ SHT_NOBITS := by rw [hrel]; decide
          have hin : off ≤ v.size ∧ sz ≤ v.size - off := by rcases hext with e | e; exact absurd e hne; exact e
          exact nameSections_some wf hv k (i + 1) _ (by omega)
            ⟨hs.symtab, hs.strtab, by simp; omega, hs.text⟩
        | false =>
          simp only [Bool.false_eq_true, ↓reduceIte]
          exact nameSections_some wf hv k (i + 1) s (by omega) hs

end NakenVerif.Link.Elf
