import Std.Tactic.BVDecide
import NakenVerif.Link.LinkImpl
import NakenVerif.Link.Spec
/-
Bit-level lemmas: the word (de)serialisation and the jal patch of the implementation model are the
byte orders and the R_MIPS_26 field update of the specification.
-/
namespace NakenVerif.Link

theorem opcodeOf_eq_getWord (big : Bool) (c0 c1 c2 c3 : UInt8) :
    opcodeOf big [c0, c1, c2, c3] = Spec.getWord big c0 c1 c2 c3 := by
  cases big <;> simp only [opcodeOf, Spec.getWord, List.getD_cons_zero, List.getD_cons_succ] <;>
    (generalize c0.toBitVec = x0; generalize c1.toBitVec = x1; generalize c2.toBitVec = x2
     generalize c3.toBitVec = x3; simp; bv_decide)

theorem bytesOf_eq_putWord (big : Bool) (w : BitVec 32) : bytesOf big w = Spec.putWord big w := by
  cases big <;> simp only [bytesOf, Spec.putWord] <;> simp <;> (refine ⟨?_, ?_, ?_, ?_⟩ <;> bv_decide)

theorem patch_eq_setTarget (w : BitVec 32) (a : BitVec 32) : patch w a = Spec.setTarget w a := by
  simp only [patch, Spec.setTarget]; bv_decide

end NakenVerif.Link
