import NakenVerif.Link.ProofsSpec
/-
The property-level consequences of `linkAll_sound`, per placed function.
-/
namespace NakenVerif.Link

theorem callsFrom_succ (env : Env) (big : Bool) (f : Found) (k n : Nat) :
    (∃ g, callsFrom env big f (k + 1) n = (n, g) :: callsFrom env big f k (n + 4)) ∨
    callsFrom env big f (k + 1) n = callsFrom env big f k (n + 4) := by
  rw [callsFrom]
  split
  · split
    · rename_i g _; exact Or.inl ⟨g, rfl⟩
    · exact Or.inr rfl
  · exact Or.inr rfl

/-- offsets of `callsFrom` are `n + 4 j`, `j < k`, strictly increasing: an entry is the first with its offset -/
theorem callsFrom_find (env : Env) (big : Bool) (f : Found) : ∀ (k n : Nat) (off : Nat) (g : Name),
    (off, g) ∈ callsFrom env big f k n →
    (callsFrom env big f k n).find? (fun e => e.1 == off) = some (off, g) ∧ ∃ j, j < k ∧ off = n + 4 * j
  | 0, n, off, g, h => by rw [callsFrom] at h; cases h
  | k + 1, n, off, g, h => by
    have tail : (off, g) ∈ callsFrom env big f k (n + 4) →
        (callsFrom env big f k (n + 4)).find? (fun e => e.1 == off) = some (off, g) ∧
        ∃ j, j < k + 1 ∧ off = n + 4 * j := by
      intro h'
      have ⟨h1, j, hj, hoff⟩ := callsFrom_find env big f k (n + 4) off g h'
      exact ⟨h1, j + 1, by omega, by omega⟩
    rcases callsFrom_succ env big f k n with ⟨g', hc⟩ | hc
    · rw [hc] at h ⊢
      rcases List.mem_cons.mp h with h | h
      · cases h
        exact ⟨by simp, 0, by omega, by omega⟩
      · have ⟨h1, j, hj, hoff⟩ := tail h
        have hge := callsFrom_ge env big f k (n + 4) (off, g) h
        refine ⟨?_, j, hj, hoff⟩
        rw [List.find?_cons_of_neg]
        · exact h1
        · simp only [beq_iff_eq]; simp only at hge; omega
    · rw [hc] at h ⊢
      exact tail h

/-- facts about the `i`-th placed function of a successful link -/
structure PlacedAt (env : Env) (cfg : Cfg) (p : Prog) (o : Out) (i : Nat) (n : Name) (f : Found)
    (a : Addr) (bytes : List UInt8) : Prop where
  found : env.find n = .found f
  run : o.runs[i]? = some (a, bytes)
  recorded : Syms.lookup o.syms n = some a
  inLayout : (Spec.layout (sizeOf env) o.list p.end1)[i]? = some (n, a)
  aligned : a &&& 3 = 0
  bytes : Spec.relocated cfg.bigEndian (Syms.lookup o.syms) (fnOf env cfg.bigEndian f)
    (Spec.words f.code.length) 0 = some bytes

theorem layout_get (size : Name → Nat) : ∀ (xs : List Name) (a : Addr) (i : Nat) (n : Name),
    xs[i]? = some n → ∃ b, (Spec.layout size xs a)[i]? = some (n, b)
  | [], a, i, n, h => by simp at h
  | x :: xs, a, 0, n, h => by simp at h; subst h; exact ⟨a, by simp [Spec.layout]⟩
  | x :: xs, a, i + 1, n, h => by
    simp at h
    obtain ⟨b, hb⟩ := layout_get size xs _ i n h
    exact ⟨b, by simpa [Spec.layout] using hb⟩

/-- every entry of the final needed-symbol list was placed -/
theorem placed_at {env : Env} {cfg : Cfg} {p : Prog} {o : Out} (s : Sound env cfg p o) {i : Nat} {n : Name}
    (h : o.list[i]? = some n) : ∃ f a bytes, PlacedAt env cfg p o i n f a bytes := by
  obtain ⟨a, ha⟩ := layout_get (sizeOf env) o.list p.end1 i n h
  obtain ⟨run, hrun, hp⟩ := s.placed.get i (n, a) ha
  obtain ⟨h1, h2, f, hf, hb⟩ := hp
  refine ⟨f, a, run.2, hf, ?_, ?_, ha, ?_, hb⟩
  · rw [hrun]; simp only at h1; rw [← h1]
  · exact s.lookup (n, a) (List.mem_of_getElem? ha)
  · simp only [misaligned, bne_eq_false_iff_eq] at h2; exact h2

/-- bytes of the object file are preserved in every word without a call relocation -/
theorem placed_bytes_preserved {env : Env} {cfg : Cfg} {p : Prog} {o : Out} {i : Nat} {n : Name} {f : Found}
    {a : Addr} {bytes : List UInt8} (pl : PlacedAt env cfg p o i n f a bytes) :
    bytes.length = 4 * Spec.words f.code.length ∧
    ∀ j, j < Spec.words f.code.length → (∀ e ∈ (fnOf env cfg.bigEndian f).calls, e.1 ≠ 4 * j) →
      (bytes.drop (4 * j)).take 4 =
        [f.code.getD (4 * j) 0, f.code.getD (4 * j + 1) 0, f.code.getD (4 * j + 2) 0, f.code.getD (4 * j + 3) 0] := by
  refine ⟨relocated_length _ _ _ _ _ _ pl.bytes, ?_⟩
  intro j hj hno
  have hw := relocated_word _ _ _ _ _ _ pl.bytes j hj
  rw [hw, Spec.wordAt]
  simp only [Nat.zero_add, Nat.add_zero]
  have : (fnOf env cfg.bigEndian f).calls.find? (fun e => e.1 == 4 * j) = none := by
    rw [List.find?_eq_none]
    intro e he hen
    simp at hen
    exact hno e he hen
  rw [this]
  simp only [fnOf]
  exact putWord_getWord _ _ _ _ _

/-- every call relocation of a placed function is bound to the final address of the symbol it names:
that symbol is placed too, the word keeps its opcode bits and carries `address >> 2`, and the address is a
multiple of 4, so the call reaches it -/
theorem placed_call_bound {env : Env} {cfg : Cfg} {p : Prog} {o : Out} (s : Sound env cfg p o)
    {i : Nat} {n : Name} {f : Found} {a : Addr} {bytes : List UInt8} (pl : PlacedAt env cfg p o i n f a bytes)
    {off : Nat} {g : Name} (hc : (off, g) ∈ (fnOf env cfg.bigEndian f).calls) :
    ∃ (ig : Nat) (fg : Found) (ag : Addr) (bg : List UInt8), PlacedAt env cfg p o ig g fg ag bg ∧
      (bytes.drop off).take 4 = Spec.putWord cfg.bigEndian (Spec.setTarget
        (Spec.getWord cfg.bigEndian (f.code.getD off 0) (f.code.getD (off + 1) 0) (f.code.getD (off + 2) 0)
          (f.code.getD (off + 3) 0)) ag) := by
  have hn : n ∈ o.list := by
    have := pl.inLayout
    have hm : (n, a) ∈ Spec.layout (sizeOf env) o.list p.end1 := List.mem_of_getElem? this
    have : n ∈ (Spec.layout (sizeOf env) o.list p.end1).map (·.1) := List.mem_map.mpr ⟨_, hm, rfl⟩
    rwa [layout_names] at this
  have hg : g ∈ o.list := s.closed n hn f pl.found off g hc
  obtain ⟨ig, _, hig⟩ := mem_iff_getElem?' hg
  obtain ⟨fg, ag, bg, plg⟩ := placed_at s hig
  refine ⟨ig, fg, ag, bg, plg, ?_⟩
  have hc' : (off, g) ∈ callsFrom env cfg.bigEndian f (wordCount f.code.length) 0 := hc
  have ⟨hfind, j, hj, hoff⟩ := callsFrom_find env cfg.bigEndian f (wordCount f.code.length) 0 off g hc'
  simp only [Nat.zero_add] at hoff
  have hw := relocated_word _ _ _ _ _ _ pl.bytes j (by simpa [wordCount_eq_words] using hj)
  simp only [Nat.zero_add] at hw
  rw [← hoff] at hw
  rw [hw, Spec.wordAt]
  simp only [Nat.add_zero]
  have : (fnOf env cfg.bigEndian f).calls.find? (fun e => e.1 == off) = some (off, g) := hfind
  rw [this]
  simp only [plg.recorded, fnOf]

/-- a referenced function that calls a symbol no import defines makes the link fail -/
theorem unresolved_not_ok {env : Env} {cfg : Cfg} {p : Prog} {fuel : Nat} {o : Out}
    (hu : Spec.Unresolved (objsOf env cfg.bigEndian) p.idents) : linkAll env cfg p fuel ≠ .ok o := by
  intro h
  have s := linkAll_sound h
  obtain ⟨f, fn, off, g, hr, hfn, hc, hnone⟩ := hu
  have hf : f ∈ o.list := (s.reach f).mpr hr
  obtain ⟨ff, hff⟩ := s.findable f hf
  rw [objsOf_found hff] at hfn
  cases hfn
  have hg : g ∈ o.list := s.closed f hf ff hff off g hc
  have : (objsOf env cfg.bigEndian g).isSome := objsOf_isSome.mpr (s.findable g hg)
  rw [hnone] at this
  cases this

end NakenVerif.Link

namespace NakenVerif.Link

theorem layout_succ (size : Name → Nat) : ∀ (xs : List Name) (a0 : Addr) (i : Nat) (n n' : Name) (a a' : Addr),
    (Spec.layout size xs a0)[i]? = some (n, a) → (Spec.layout size xs a0)[i + 1]? = some (n', a') →
    a' = a + BitVec.ofNat 32 (4 * Spec.words (size n))
  | [], a0, i, n, n', a, a', h, _ => by simp [Spec.layout] at h
  | x :: xs, a0, 0, n, n', a, a', h, h' => by
    simp only [Spec.layout, List.getElem?_cons_zero, Option.some.injEq, Prod.mk.injEq] at h
    obtain ⟨rfl, rfl⟩ := h
    simp only [Spec.layout, Nat.zero_add, List.getElem?_cons_succ] at h'
    cases xs with
    | nil => simp [Spec.layout] at h'
    | cons y ys =>
      simp only [Spec.layout, List.getElem?_cons_zero, Option.some.injEq, Prod.mk.injEq] at h'
      exact h'.2.symm
  | x :: xs, a0, i + 1, n, n', a, a', h, h' => by
    simp only [Spec.layout, List.getElem?_cons_succ] at h h'
    exact layout_succ size xs _ i n n' a a' h h'

theorem layout_zero (size : Name → Nat) (xs : List Name) (a0 : Addr) (n : Name) (a : Addr)
    (h : (Spec.layout size xs a0)[0]? = some (n, a)) : a = a0 := by
  cases xs with
  | nil => simp [Spec.layout] at h
  | cons y ys => simp [Spec.layout] at h; exact h.2.symm

/-- the runs written by pass 2 follow each other without gap or overlap, starting where the source ended -/
theorem runs_consecutive {env : Env} {cfg : Cfg} {p : Prog} {o : Out} (s : Sound env cfg p o) :
    (∀ a b, o.runs[0]? = some (a, b) → a = p.end1 ∧ a = p.end2) ∧
    ∀ i a b a' b', o.runs[i]? = some (a, b) → o.runs[i + 1]? = some (a', b') → a' = a + BitVec.ofNat 32 b.length := by
  have hlen : o.runs.length = o.list.length := by
    have := s.placed.length_eq
    rw [← this, ← List.length_map (f := (·.1)), layout_names]
  have getName : ∀ (i : Nat) (r : Addr × List UInt8), o.runs[i]? = some r → ∃ n, o.list[i]? = some n := by
    intro i r hr
    have hi : i < o.runs.length := by
      rcases Nat.lt_or_ge i o.runs.length with h | h
      · exact h
      · rw [List.getElem?_eq_none h] at hr; cases hr
    exact ⟨o.list[i]'(by omega), by simp [show i < o.list.length by omega]⟩
  constructor
  · intro a b h0
    obtain ⟨n, hn⟩ := getName 0 _ h0
    obtain ⟨f, a1, b1, pl⟩ := placed_at s hn
    rw [pl.run] at h0; cases h0
    have := layout_zero _ _ _ _ _ pl.inLayout
    have hne : o.list ≠ [] := by intro e; rw [e] at hn; simp at hn
    exact ⟨this, this.trans (s.ends hne)⟩
  · intro i a b a' b' h1 h2
    obtain ⟨n, hn⟩ := getName i _ h1
    obtain ⟨n', hn'⟩ := getName (i + 1) _ h2
    obtain ⟨f, a1, b1, pl⟩ := placed_at s hn
    obtain ⟨f', a2, b2, pl'⟩ := placed_at s hn'
    rw [pl.run] at h1; cases h1
    rw [pl'.run] at h2; cases h2
    have := layout_succ _ _ _ _ _ _ _ _ pl.inLayout pl'.inLayout
    rw [this, sizeOf_found pl.found, (placed_bytes_preserved pl).1]

end NakenVerif.Link
