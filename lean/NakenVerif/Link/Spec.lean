import NakenVerif.Link.Bytes
/-
Specification of linking, written from the statement of property C20 and from the public documents it
rests on: the ELF gABI (a function is the `st_size` bytes at `st_value` of its section; a relocation entry
names an offset and a symbol) and the MIPS psABI (R_MIPS_26: the low 26 bits of the word receive
`target >> 2`, the opcode bits are not touched).  Nothing here refers to the implementation model.

  "every function of those files that the program (or another imported function) references is appended
   to the image exactly once at the address recorded for its symbol, its bytes are those of the object
   file, and each call relocation in it targets the final address of the symbol it names; an unresolved
   symbol or an unsupported object file is an error, and functions that are not referenced are not included."
-/
namespace NakenVerif.Link.Spec
open NakenVerif.Link

abbrev Addr := BitVec 32

/-- a function of the imported files as the property sees it -/
structure Fn where
  /-- its bytes in the object file -/
  code : List UInt8
  /-- its call relocations: (byte offset from the start of the function, symbol named) -/
  calls : List (Nat × Name)

/-- "the function of those files" with a given name -/
abbrev Objs := Name → Option Fn

/-- referenced by the program or by another imported function that is itself referenced -/
inductive Reach (objs : Objs) (roots : List Name) : Name → Prop where
  | root {r : Name} : r ∈ roots → (objs r).isSome → Reach objs roots r
  | call {f g : Name} {fn : Fn} {off : Nat} :
      Reach objs roots f → objs f = some fn → (off, g) ∈ fn.calls → (objs g).isSome → Reach objs roots g

/-- a referenced function calls a symbol that no imported file defines -/
def Unresolved (objs : Objs) (roots : List Name) : Prop :=
  ∃ f fn off g, Reach objs roots f ∧ objs f = some fn ∧ (off, g) ∈ fn.calls ∧ objs g = none

/-- the instruction word formed by four bytes in the image's byte order -/
def getWord (big : Bool) (c0 c1 c2 c3 : UInt8) : BitVec 32 :=
  if big then c0.toBitVec ++ c1.toBitVec ++ c2.toBitVec ++ c3.toBitVec
  else c3.toBitVec ++ c2.toBitVec ++ c1.toBitVec ++ c0.toBitVec

/-- the four bytes of an instruction word in the image's byte order -/
def putWord (big : Bool) (w : BitVec 32) : List UInt8 :=
  let b (k : Nat) : UInt8 := UInt8.ofBitVec (w.extractLsb' k 8)
  if big then [b 24, b 16, b 8, b 0] else [b 0, b 8, b 16, b 24]

/-- R_MIPS_26: opcode bits 31..26 kept, bits 25..0 := bits 27..2 of the target address -/
def setTarget (w : BitVec 32) (target : BitVec 32) : BitVec 32 :=
  w.extractLsb' 26 6 ++ target.extractLsb' 2 26

/-- the jump target a word with this field reaches from a place in the same 256 MiB region -/
def targetOf (w : BitVec 32) (region : BitVec 32) : BitVec 32 :=
  region.extractLsb' 28 4 ++ w.extractLsb' 0 26 ++ (0 : BitVec 2)

/-- the bytes a placed function must have in the image: those of the object file, each word that
carries a call relocation re-targeted to the final address of the symbol it names; the last word of a
function whose size is not a multiple of 4 is completed with zeros (the next function starts on a word
boundary).  `none`: a named symbol has no address. -/
def relocated (big : Bool) (addrOf : Name → Option Addr) (fn : Fn) : Nat → Nat → Option (List UInt8)
  | 0, _ => some []
  | k + 1, off =>
    let c (i : Nat) : UInt8 := fn.code.getD (off + i) 0
    let w := getWord big (c 0) (c 1) (c 2) (c 3)
    let w' : Option (BitVec 32) :=
      match fn.calls.find? (fun e => e.1 == off) with
      | some (_, g) => (addrOf g).map (setTarget w)
      | none => some w
    match w', relocated big addrOf fn k (off + 4) with
    | some w', some rest => some (putWord big w' ++ rest)
    | _, _ => none

/-- number of words a function of `n` bytes occupies -/
def words (n : Nat) : Nat := (n + 3) / 4

/-- consecutive placement: each function starts where the previous one ended -/
def layout (size : Name → Nat) : List Name → Addr → List (Name × Addr)
  | [], _ => []
  | n :: ns, a => (n, a) :: layout size ns (a + BitVec.ofNat 32 (4 * words (size n)))

end NakenVerif.Link.Spec
