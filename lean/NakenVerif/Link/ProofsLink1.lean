import NakenVerif.Link.ProofsScan
/-
The invariant of `AsmContext::link()` in pass 1 (`link1`) and what holds when it returns 0.
-/
namespace NakenVerif.Link

/-- the address after the last function of a consecutive placement -/
def layoutEnd (size : Name → Nat) : List Name → Addr → Addr
  | [], a => a
  | n :: ns, a => layoutEnd size ns (a + BitVec.ofNat 32 (4 * Spec.words (size n)))

theorem layout_append (size : Name → Nat) : ∀ (xs : List Name) (x : Name) (a : Addr),
    Spec.layout size (xs ++ [x]) a = Spec.layout size xs a ++ [(x, layoutEnd size xs a)]
  | [], x, a => by simp [Spec.layout, layoutEnd]
  | y :: ys, x, a => by simp [Spec.layout, layoutEnd, layout_append size ys x]

theorem layoutEnd_append (size : Name → Nat) : ∀ (xs : List Name) (x : Name) (a : Addr),
    layoutEnd size (xs ++ [x]) a = layoutEnd size xs a + BitVec.ofNat 32 (4 * Spec.words (size x))
  | [], x, a => by simp [layoutEnd]
  | y :: ys, x, a => by simp [layoutEnd, layoutEnd_append size ys x]

theorem layout_names (size : Name → Nat) : ∀ (xs : List Name) (a : Addr),
    (Spec.layout size xs a).map (·.1) = xs
  | [], a => by simp [Spec.layout]
  | y :: ys, a => by simp [Spec.layout, layout_names size ys]

theorem Syms.lookup_append (a b : Syms) (n : Name) :
    Syms.lookup (a ++ b) n = (Syms.lookup a n).or (Syms.lookup b n) := by
  unfold Syms.lookup
  rw [List.find?_append]
  cases List.find? (fun e => e.1 == n) a <;> simp

theorem Syms.lookup_none_of_not_mem (s : Syms) (n : Name) (h : n ∉ s.map (·.1)) : Syms.lookup s n = none := by
  unfold Syms.lookup
  rw [Option.map_eq_none_iff, List.find?_eq_none]
  intro e he hen
  apply h
  simp at hen
  exact List.mem_map.mpr ⟨e, he, hen⟩

theorem Syms.lookup_single (n : Name) (a : Addr) : Syms.lookup [(n, a)] n = some a := by
  simp [Syms.lookup]

theorem wordCount_eq_words (n : Nat) : wordCount n = Spec.words n := rfl

structure Inv1 (env : Env) (big : Bool) (roots : List Name) (psyms : Syms) (end1 : Addr)
    (index : Nat) (st : St1) : Prop where
  nodup : st.list.Nodup
  findable : ∀ n ∈ st.list, Findable env n
  reach : ∀ n ∈ st.list, Spec.Reach (objsOf env big) roots n
  roots : ∀ r ∈ roots, Findable env r → r ∈ st.list
  closed : ∀ i n, i < index → st.list[i]? = some n → ∀ f, env.find n = .found f →
    ∀ off g, (off, g) ∈ (fnOf env big f).calls → g ∈ st.list
  le : index ≤ st.list.length
  syms : st.syms = psyms ++ Spec.layout (sizeOf env) (st.list.take index) end1
  addr : st.addr = layoutEnd (sizeOf env) (st.list.take index) end1
  fresh : ∀ n ∈ st.list.take index, Syms.lookup psyms n = none
  aligned : ∀ e ∈ Spec.layout (sizeOf env) (st.list.take index) end1, e.2 &&& 3 = 0

theorem sizeOf_found {env : Env} {n : Name} {f : Found} (h : env.find n = .found f) :
    sizeOf env n = f.code.length := by simp [sizeOf, h]

theorem appendSym_ok {syms syms' : Syms} {n : Name} {a : Addr} (h : appendSym syms n a = some syms') :
    syms' = syms ++ [(n, a)] ∧ Syms.lookup syms n = none ∧ n.length + 1 ≤ 255 := by
  unfold appendSym at h
  split at h
  · cases h
  · rename_i h1
    split at h
    · cases h
    · rename_i h2
      cases h
      refine ⟨rfl, ?_, by omega⟩
      cases hl : Syms.lookup syms n <;> simp_all

/-- one successful iteration of the loop keeps the invariant -/
theorem inv1_step {env : Env} {cfg : Cfg} {roots : List Name} {psyms : Syms} {end1 : Addr}
    {index : Nat} {st : St1} {sym : Name} {syms' : Syms} {f : Found} {list' : List Name}
    (inv : Inv1 env cfg.bigEndian roots psyms end1 index st)
    (hsym : st.list[index]? = some sym)
    (happ : appendSym st.syms sym st.addr = some syms')
    (hf : env.find sym = .found f)
    (hal : misaligned st.addr = false)
    (hscan : scan1 env cfg f (wordCount f.code.length) 0 st.list = .ok list') :
    Inv1 env cfg.bigEndian roots psyms end1 (index + 1)
      { list := list', syms := syms', addr := st.addr + BitVec.ofNat 32 (4 * wordCount f.code.length) } := by
  have ⟨ext, hall⟩ := scan1_ok _ _ _ _ hscan
  have ⟨hs', hnone, _⟩ := appendSym_ok happ
  have hlt : index < st.list.length := by
    rcases Nat.lt_or_ge index st.list.length with h | h
    · exact h
    · rw [List.getElem?_eq_none h] at hsym; cases hsym
  have hmem : sym ∈ st.list := List.mem_of_getElem? hsym
  obtain ⟨added, hl', hadd, hnd⟩ := ext
  have htake : list'.take (index + 1) = st.list.take index ++ [sym] := by
    rw [hl', List.take_append_of_le_length (by omega), List.take_add_one, hsym]; rfl
  have hget : ∀ i, i < st.list.length → list'[i]? = st.list[i]? := by
    intro i hi; rw [hl', List.getElem?_append_left hi]
  have hreachSym := inv.reach sym hmem
  refine
    { nodup := hnd inv.nodup
      findable := ?_, reach := ?_, roots := ?_, closed := ?_, le := ?_, syms := ?_, addr := ?_, fresh := ?_,
      aligned := ?_ }
  · intro n hn
    rw [hl'] at hn
    rcases List.mem_append.mp hn with h | h
    · exact inv.findable n h
    · exact (hadd n h).1
  · intro n hn
    rw [hl'] at hn
    rcases List.mem_append.mp hn with h | h
    · exact inv.reach n h
    · obtain ⟨hfn, off, hoff⟩ := hadd n h
      exact Spec.Reach.call hreachSym (objsOf_found hf) (by simpa [fnOf] using hoff) (objsOf_isSome.mpr hfn)
  · intro r hr hfr
    rw [hl']; exact List.mem_append_left _ (inv.roots r hr hfr)
  · intro i n hi hin f' hf' off g hg
    rcases Nat.lt_succ_iff_lt_or_eq.mp hi with h | h
    · have : st.list[i]? = some n := by rw [← hget i (by omega)]; exact hin
      rw [hl']; exact List.mem_append_left _ (inv.closed i n h this f' hf' off g hg)
    · subst h
      have : st.list[i]? = some n := by rw [← hget i hlt]; exact hin
      rw [hsym] at this; cases this
      rw [hf] at hf'; cases hf'
      exact hall off g (by simpa [fnOf] using hg)
  · show index + 1 ≤ list'.length
    rw [hl', List.length_append]; omega
  · show syms' = psyms ++ Spec.layout (sizeOf env) (list'.take (index + 1)) end1
    rw [htake, layout_append, hs', inv.syms, inv.addr, List.append_assoc]
  · show st.addr + _ = layoutEnd (sizeOf env) (list'.take (index + 1)) end1
    rw [htake, layoutEnd_append, inv.addr, sizeOf_found hf, wordCount_eq_words]
  · intro n hn
    rw [htake] at hn
    rcases List.mem_append.mp hn with h | h
    · exact inv.fresh n h
    · simp at h; subst h
      rw [inv.syms, Syms.lookup_append] at hnone
      cases hp : Syms.lookup psyms n with
      | none => rfl
      | some v => rw [hp] at hnone; simp at hnone
  · intro e he
    rw [htake, layout_append] at he
    rcases List.mem_append.mp he with h | h
    · exact inv.aligned e h
    · simp at h; subst h
      simp only [misaligned, bne_eq_false_iff_eq] at hal
      rw [← inv.addr]; simpa using hal

/-- `link1` returning 0: the invariant holds with every list entry processed -/
theorem link1_inv {env : Env} {cfg : Cfg} {roots : List Name} {psyms : Syms} {end1 : Addr} :
    ∀ (fuel index : Nat) (st st' : St1), link1 env cfg fuel index st = .ok st' →
      Inv1 env cfg.bigEndian roots psyms end1 index st →
      Inv1 env cfg.bigEndian roots psyms end1 st'.list.length st'
  | 0, _, _, _, h, _ => by simp [link1] at h
  | fuel + 1, index, st, st', h, inv => by
    unfold link1 at h
    split at h
    · rename_i hnone
      cases h
      have : st.list.length = index := by
        have := List.getElem?_eq_none_iff.mp hnone
        have := inv.le
        omega
      exact this ▸ inv
    · rename_i sym hsym
      split at h
      · cases h
      · simp only at h
        split at h
        · cases h
        · rename_i syms' happ
          split at h
          · cases h
          · rename_i hmiss
            have ⟨f, hf⟩ := inv.findable sym (List.mem_of_getElem? hsym)
            rw [hf] at hmiss; cases hmiss
          · rename_i f hf
            split at h
            · cases h
            · rename_i hcond
              have hal : misaligned st.addr = false := by
                cases hk : misaligned st.addr <;> simp_all
              split at h
              · rename_i list' hscan
                exact link1_inv fuel (index + 1) _ st' h (inv1_step inv hsym happ hf hal hscan)
              all_goals cases h

end NakenVerif.Link
