/-
Byte-string view used by the import readers of /repo/core (imports_obj.cpp, imports_ar.cpp).

The C code passes `(const uint8_t *buffer, int file_size)` pairs around; an archive member is the pair
`(buffer + ptr + 60, size)` inside the archive's buffer.  `View` is that pair: an array, a base offset and a
size.  Every read is checked against `size` (and the array): a read the C code would perform outside of
`[buffer, buffer + file_size)` is the outcome `none` (*fault*), never a silent default, so that "the readers
never read outside the file" is a theorem about the model (`Link/ProofsBounds.lean`).
-/
namespace NakenVerif.Link

abbrev Bytes := Array UInt8
/-- a C string without its terminating NUL -/
abbrev Name := List UInt8

structure View where
  a : Bytes
  base : Nat
  size : Nat

namespace View

def ofBytes (a : Bytes) : View := { a := a, base := 0, size := a.size }

/-- `(buffer + off, size)` -/
def sub (v : View) (off size : Nat) : View := { a := v.a, base := v.base + off, size := size }

/-- the view lies inside its array (true of a whole file; of an archive member after the member check) -/
def Valid (v : View) : Prop := v.base + v.size ≤ v.a.size

def u8 (v : View) (i : Nat) : Option Nat :=
  if i < v.size then (v.a[v.base + i]?).map (·.toNat) else none

/-- `get_int16_le(buffer + i)` -/
def u16le (v : View) (i : Nat) : Option Nat := do
  let b0 ← v.u8 i
  let b1 ← v.u8 (i + 1)
  pure (b0 + 256 * b1)

/-- `get_int32_le(buffer + i)` read as the `uint32_t` it is stored into -/
def u32le (v : View) (i : Nat) : Option Nat := do
  let b0 ← v.u8 i
  let b1 ← v.u8 (i + 1)
  let b2 ← v.u8 (i + 2)
  let b3 ← v.u8 (i + 3)
  pure (b0 + 256 * b1 + 65536 * b2 + 16777216 * b3)

/-- `strcmp((char *)(buffer + off), lit) == 0`: bytes are read up to the first difference or the NUL
(a `Name` stands for the C string up to its first zero byte, if it has one) -/
def cstrEq (v : View) : Nat → Name → Option Bool
  | off, [] => do
    let c ← v.u8 off
    pure (c == 0)
  | off, x :: xs => do
    let c ← v.u8 off
    if c ≠ x.toNat then pure false else if c = 0 then pure true else cstrEq v (off + 1) xs

/-- the C string at `buffer + off` (what a returned `const char *` denotes); `fuel` bounds the scan -/
def cstr (v : View) : Nat → Nat → Option Name
  | 0, _ => none
  | fuel + 1, off => do
    let c ← v.u8 off
    if c == 0 then pure [] else do
      let rest ← cstr v fuel (off + 1)
      pure (UInt8.ofNat c :: rest)

/-- `n` bytes starting at `off` -/
def slice (v : View) (off : Nat) : Nat → Option (List UInt8)
  | 0 => some []
  | n + 1 => do
    let c ← v.u8 off
    let rest ← slice v (off + 1) n
    pure (UInt8.ofNat c :: rest)

end View

def nameOfString (s : String) : Name := s.toUTF8.toList

end NakenVerif.Link
