import NakenVerif.Link.ProofsBounds2
/-
Part 3: the table walks, `findCode` and `nameAt` never fault; the code `findCode` reports lies in the file.
-/
namespace NakenVerif.Link.Elf
open NakenVerif.Link

/-- a string table inside the file that ends with a NUL -/
def StrOK (v : View) (t : Tab) : Prop := t.off + t.size ≤ v.size ∧ 0 < t.size ∧ v.u8 (t.off + t.size - 1) = some 0

theorem StrOK.cmp {v : View} {t : Tab} (ok : StrOK v t) (hv : v.Valid) {n : Nat} (hn : n < t.size) (lit : Name) :
    ∃ b, v.cstrEq (t.off + n) lit = some b :=
  View.cstrEq_some hv lit (t.off + n) (t.off + t.size - 1) (by omega) (by have := ok.1; omega) ok.2.2

theorem StrOK.str {v : View} {t : Tab} (ok : StrOK v t) (hv : v.Valid) {n : Nat} (hn : n < t.size) :
    ∃ nm, v.cstr v.size (t.off + n) = some nm :=
  View.cstr_some hv v.size (t.off + n) (t.off + t.size - 1) (by omega) (by have := ok.1; omega) ok.2.2
    (by have := ok.1; omega)

theorem lookupByName_some {v : View} (hv : v.Valid) {symtab strtab : Tab} (hsym : symtab.off + symtab.size ≤ v.size)
    (hstr : StrOK v strtab) (sym : Name) (ti : Option Nat) :
    ∀ (k ptr : Nat), ∃ r, lookupByName v symtab strtab sym ti k ptr = some r
  | 0, ptr => ⟨none, rfl⟩
  | k + 1, ptr => by
    rw [lookupByName]
    split
    · rename_i hp
      obtain ⟨a, ha⟩ := View.u32le_some hv (show symtab.off + ptr + 3 < v.size by omega)
      obtain ⟨b, hb⟩ := View.u32le_some hv (show symtab.off + ptr + 8 + 3 < v.size by omega)
      obtain ⟨c, hc⟩ := View.u16le_some hv (show symtab.off + ptr + 14 + 1 < v.size by omega)
      obtain ⟨d, hd⟩ := View.u32le_some hv (show symtab.off + ptr + 4 + 3 < v.size by omega)
      obtain ⟨r, hr⟩ := lookupByName_some hv hsym hstr sym ti k (ptr + 16)
      simp only [ha, hb, hc, hd, hr, Option.bind_eq_bind, Option.bind_some, Option.pure_def]
      split
      · have hlt : (if a ≥ strtab.size then 0 else a) < strtab.size := by
          split
          · exact hstr.2.1
          · omega
        obtain ⟨e, he⟩ := hstr.cmp hv hlt sym
        simp only [he, Option.bind_some]
        cases e <;> simp
      · exact ⟨_, rfl⟩
    · exact ⟨none, rfl⟩

theorem lookupByLocalOffset_some {v : View} (hv : v.Valid) {symtab strtab : Tab}
    (hsym : symtab.off + symtab.size ≤ v.size) (hstr : StrOK v strtab) (offset : Nat) :
    ∀ (k ptr : Nat), ∃ r, lookupByLocalOffset v symtab strtab offset k ptr = some r
  | 0, ptr => ⟨none, rfl⟩
  | k + 1, ptr => by
    rw [lookupByLocalOffset]
    split
    · rename_i hp
      obtain ⟨a, ha⟩ := View.u32le_some hv (show symtab.off + ptr + 3 < v.size by omega)
      obtain ⟨b, hb⟩ := View.u32le_some hv (show symtab.off + ptr + 4 + 3 < v.size by omega)
      obtain ⟨c, hc⟩ := View.u8_some hv (show symtab.off + ptr + 12 < v.size by omega)
      obtain ⟨r, hr⟩ := lookupByLocalOffset_some hv hsym hstr offset k (ptr + 16)
      simp only [ha, hb, hc, hr, Option.bind_eq_bind, Option.bind_some, Option.pure_def]
      split
      · have hlt : (if a ≥ strtab.size then 0 else a) < strtab.size := by
          split
          · exact hstr.2.1
          · omega
        obtain ⟨nm, hnm⟩ := hstr.str hv hlt
        simp [hnm]
      · exact ⟨_, rfl⟩
    · exact ⟨none, rfl⟩

theorem lookupByOffset_some {v : View} (hv : v.Valid) {symtab strtab reltab : Tab}
    (hsym : symtab.off + symtab.size ≤ v.size) (hstr : StrOK v strtab) (hrel : reltab.off + reltab.size ≤ v.size)
    (fo lo : Nat) : ∀ (k ptr : Nat), ∃ r, lookupByOffset v symtab strtab reltab fo lo k ptr = some r
  | 0, ptr => ⟨none, rfl⟩
  | k + 1, ptr => by
    rw [lookupByOffset]
    split
    · rename_i hp
      obtain ⟨a, ha⟩ := View.u32le_some hv (show reltab.off + ptr + 3 < v.size by omega)
      obtain ⟨b, hb⟩ := View.u32le_some hv (show reltab.off + ptr + 4 + 3 < v.size by omega)
      obtain ⟨r, hr⟩ := lookupByOffset_some hv hsym hstr hrel fo lo k (ptr + 8)
      simp only [ha, hb, hr, Option.bind_eq_bind, Option.bind_some, Option.pure_def]
      split
      · split
        · rename_i hs
          obtain ⟨c, hc⟩ := View.u32le_some hv (show symtab.off + b / 256 * 16 + 3 < v.size by omega)
          simp only [hc, Option.bind_some]
          split
          · rename_i hlt
            obtain ⟨d, hd⟩ := View.u8_some hv (show strtab.off + c < v.size by have := hstr.1; omega)
            simp only [hd, Option.bind_some]
            split
            · obtain ⟨nm, hnm⟩ := hstr.str hv hlt
              simp [hnm]
            · exact lookupByLocalOffset_some hv hsym hstr lo _ _
          · exact ⟨_, rfl⟩
        · exact ⟨_, rfl⟩
      · exact ⟨_, rfl⟩
    · exact ⟨none, rfl⟩

/-- `imports_obj_find_code_from_symbol` never reads outside the file, and the function it reports lies
inside the file -/
theorem findCode_some {v : View} (hv : v.Valid) (sym : Name) :
    ∃ r, findCode v sym = some r ∧ ∀ c, r = some c → c.fileOffset + c.functionSize ≤ v.size := by
  obtain ⟨b, hb⟩ := verify_some hv
  unfold findCode
  simp only [hb, Option.bind_eq_bind, Option.bind_some, Option.pure_def]
  cases b with
  | false => exact ⟨none, by simp, fun c e => by cases e⟩
  | true =>
    obtain ⟨h, no, ns, wf⟩ := verify_true hb
    simp only [Bool.not_true, Bool.false_eq_true, ↓reduceIte, wf.hdr, Option.bind_some, wf.namesOff]
    obtain ⟨r, hr, hok⟩ := codeSections_some wf hv h.shnum 0 {} (by omega) (SecsOK.init v)
    simp only [hr, Option.bind_some]
    cases r with
    | none => exact ⟨none, rfl, fun c e => by cases e⟩
    | some s =>
      have sok := hok s rfl
      simp only
      cases hsym : s.symtab with
      | none => exact ⟨none, rfl, fun c e => by cases e⟩
      | some symtab =>
        cases hstr : s.strtab with
        | none => exact ⟨none, rfl, fun c e => by cases e⟩
        | some strtab =>
          simp only
          obtain ⟨q, hq⟩ := lookupByName_some hv (sok.symtab _ hsym) (sok.strtab _ hstr) sym s.textIndex
            (symtab.size / 16 + 1) 0
          simp only [hq, Option.bind_some]
          cases q with
          | none => exact ⟨none, rfl, fun c e => by cases e⟩
          | some pr =>
            obtain ⟨offset, size⟩ := pr
            simp only
            split
            · exact ⟨none, rfl, fun c e => by cases e⟩
            · rename_i hin
              refine ⟨_, rfl, ?_⟩
              intro c e
              cases e
              have := sok.text
              simp only
              omega

/-- `imports_obj_find_name_from_offset` never reads outside the file -/
theorem nameAt_some {v : View} (hv : v.Valid) (fo lo : Nat) : ∃ r, nameAt v fo lo = some r := by
  obtain ⟨b, hb⟩ := verify_some hv
  unfold nameAt
  simp only [hb, Option.bind_eq_bind, Option.bind_some, Option.pure_def]
  cases b with
  | false => exact ⟨none, by simp⟩
  | true =>
    obtain ⟨h, no, ns, wf⟩ := verify_true hb
    simp only [Bool.not_true, Bool.false_eq_true, ↓reduceIte, wf.hdr, Option.bind_some, wf.namesOff]
    obtain ⟨r, hr, hok⟩ := nameSections_some wf hv h.shnum 0 {} (by omega) (SecsOK.init v)
    simp only [hr, Option.bind_some]
    cases r with
    | none => exact ⟨none, rfl⟩
    | some s =>
      have sok := hok s rfl
      simp only
      cases hsym : s.symtab with
      | none => exact ⟨none, rfl⟩
      | some symtab =>
        cases hstr : s.strtab with
        | none => exact ⟨none, rfl⟩
        | some strtab =>
          simp only
          exact lookupByOffset_some hv (sok.symtab _ hsym) (sok.strtab _ hstr) sok.reltab fo lo _ _

end NakenVerif.Link.Elf
