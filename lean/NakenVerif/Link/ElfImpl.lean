import NakenVerif.Link.Bytes
/-
Transcription of /repo/core/imports_obj.cpp (ELF32 little-endian relocatable reader), statement by
statement, as it is after the `fix:` commits of C20 (bounds checks in imports_obj_verify, unsigned offsets,
st_shndx, function extent).

Results are `Option _`: `none` is a *fault* (a read outside `[buffer, buffer + file_size)`); the inner
value is what the C function returns (`-1` / `NULL` = inner `none`).  All offsets are `Nat`: after
`verify` every offset the C code keeps in an `int` is at most the file size, so no `int` is negative and
no 32-bit arithmetic wraps (`Link/ProofsBounds.lean`).
-/
namespace NakenVerif.Link.Elf
open NakenVerif.Link

def SHT_SYMTAB : Nat := 2
def SHT_STRTAB : Nat := 3
def SHT_NOBITS : Nat := 8
def SHT_REL : Nat := 9

def dotStrtab : Name := nameOfString ".strtab"
def dotText : Name := nameOfString ".text"
def dotRelText : Name := nameOfString ".rel.text"

/-- header fields the readers use: e_shoff, e_shentsize, e_shnum, e_shstrndx -/
structure Hdr where
  shoff : Nat
  shentsize : Nat
  shnum : Nat
  shstrndx : Nat

def readHdr (v : View) : Option Hdr := do
  let shoff ← v.u32le 32
  let shentsize ← v.u16le 46
  let shnum ← v.u16le 48
  let shstrndx ← v.u16le 50
  pure { shoff, shentsize, shnum, shstrndx }

/-- the `for (n = 0; n < e_shnum; n++)` loop of imports_obj_verify; `k` = sections still to check -/
def verifySections (v : View) (h : Hdr) (namesSize : Nat) : Nat → Nat → Option Bool
  | 0, _ => some true
  | k + 1, n => do
    let sec := h.shoff + n * h.shentsize
    let shName ← v.u32le sec
    let shType ← v.u32le (sec + 4)
    let shOffset ← v.u32le (sec + 16)
    let shSize ← v.u32le (sec + 20)
    if shName ≥ namesSize then pure false
    else if shType = SHT_NOBITS then verifySections v h namesSize k (n + 1)
    else if shOffset > v.size ∨ shSize > v.size - shOffset then pure false
    else verifySections v h namesSize k (n + 1)

/-- first part of imports_obj_verify: length, magic, class and byte order -/
def verifyIdent (v : View) : Option Bool := do
  if v.size < 52 then pure false else
  let b0 ← v.u8 0
  if b0 ≠ 0x7f then pure false else
  let b1 ← v.u8 1
  if b1 ≠ 0x45 then pure false else
  let b2 ← v.u8 2
  if b2 ≠ 0x4c then pure false else
  let b3 ← v.u8 3
  if b3 ≠ 0x46 then pure false else
  let cls ← v.u8 4
  let dat ← v.u8 5
  if cls ≠ 1 ∨ dat ≠ 1 then pure false else pure true

/-- second part: section header table, section name table, every section's extent -/
def verifyTables (v : View) : Option Bool := do
  let h ← readHdr v
  if h.shentsize < 40 then pure false else
  if h.shoff > v.size ∨ h.shnum * h.shentsize > v.size - h.shoff then pure false else
  if h.shstrndx ≥ h.shnum then pure false else
  let names := h.shoff + h.shstrndx * h.shentsize
  let namesOffset ← v.u32le (names + 16)
  let namesSize ← v.u32le (names + 20)
  if namesOffset > v.size ∨ namesSize > v.size - namesOffset then pure false else
  if namesSize = 0 then pure false else
  let last ← v.u8 (namesOffset + namesSize - 1)
  if last ≠ 0 then pure false else
  verifySections v h namesSize h.shnum 0

/-- `imports_obj_verify(buffer, file_size) == 0` -/
def verify (v : View) : Option Bool := do
  let ok ← verifyIdent v
  if !ok then pure false else verifyTables v

/-- a table the section loop found: `buffer + sh_offset`, `sh_size` -/
structure Tab where
  off : Nat
  size : Nat
  deriving Repr, DecidableEq

/-- `imports_obj_symbol_table_lookup_by_name`: `(st_value, st_size)` of the first entry with that name, a
non-zero size and `st_shndx == text_index`.  `k` = loop iterations left (`symtab.size / 16 + 1` suffices). -/
def lookupByName (v : View) (symtab strtab : Tab) (sym : Name) (textIndex : Option Nat) :
    Nat → Nat → Option (Option (Nat × Nat))
  | 0, _ => some none
  | k + 1, ptr =>
    if ptr + 16 ≤ symtab.size then do
      let e := symtab.off + ptr
      let stName0 ← v.u32le e
      let stSize ← v.u32le (e + 8)
      let stName := if stName0 ≥ strtab.size then 0 else stName0
      let stShndx ← v.u16le (e + 14)
      if stSize ≠ 0 ∧ some stShndx = textIndex then do
        let eq ← v.cstrEq (strtab.off + stName) sym
        if eq then do
          let stValue ← v.u32le (e + 4)
          pure (some (stValue, stSize))
        else lookupByName v symtab strtab sym textIndex k (ptr + 16)
      else lookupByName v symtab strtab sym textIndex k (ptr + 16)
    else some none

/-- `imports_obj_symbol_table_lookup_by_local_offset`: name of the first entry with `st_value == offset` and
binding `STB_GLOBAL` (`st_info >> 4 == 1`) -/
def lookupByLocalOffset (v : View) (symtab strtab : Tab) (offset : Nat) :
    Nat → Nat → Option (Option Name)
  | 0, _ => some none
  | k + 1, ptr =>
    if ptr + 16 ≤ symtab.size then do
      let e := symtab.off + ptr
      let stName0 ← v.u32le e
      let stValue ← v.u32le (e + 4)
      let stInfo ← v.u8 (e + 12)
      let stName := if stName0 ≥ strtab.size then 0 else stName0
      if offset = stValue ∧ stInfo / 16 = 1 then do
        let nm ← v.cstr v.size (strtab.off + stName)
        pure (some nm)
      else lookupByLocalOffset v symtab strtab offset k (ptr + 16)
    else some none

/-- `imports_obj_symbol_table_lookup_by_offset`: the name of the symbol of the first relocation of the
table with `r_offset == function_offset` (whatever its type) whose symbol index and name offset are inside
their tables; an unnamed symbol is looked up "by local offset". -/
def lookupByOffset (v : View) (symtab strtab reltab : Tab) (functionOffset localOffset : Nat) :
    Nat → Nat → Option (Option Name)
  | 0, _ => some none
  | k + 1, ptr =>
    if ptr + 8 ≤ reltab.size then do
      let e := reltab.off + ptr
      let rOffset ← v.u32le e
      let rInfo ← v.u32le (e + 4)
      if rOffset = functionOffset then
        let rSym := rInfo / 256 * 16
        if rSym + 16 ≤ symtab.size then do
          let symbol ← v.u32le (symtab.off + rSym)
          if symbol < strtab.size then do
            let c ← v.u8 (strtab.off + symbol)
            if c ≠ 0 then do
              let nm ← v.cstr v.size (strtab.off + symbol)
              pure (some nm)
            else lookupByLocalOffset v symtab strtab localOffset (symtab.size / 16 + 1) 0
          else lookupByOffset v symtab strtab reltab functionOffset localOffset k (ptr + 8)
        else lookupByOffset v symtab strtab reltab functionOffset localOffset k (ptr + 8)
      else lookupByOffset v symtab strtab reltab functionOffset localOffset k (ptr + 8)
    else some none

/-- `cond && strcmp(name, lit) == 0`: the comparison is only made when `cond` holds -/
def guardedEq (v : View) (cond : Bool) (off : Nat) (lit : Name) : Option Bool :=
  if cond then v.cstrEq off lit else some false

/-- what the section loops collect -/
structure Secs where
  symtab : Option Tab := none
  strtab : Option Tab := none
  reltab : Tab := { off := 0, size := 0 }
  textOff : Nat := 0
  textSize : Nat := 0
  textIndex : Option Nat := none
  deriving Repr, DecidableEq

/-- section loop of `imports_obj_find_code_from_symbol`.  Inner `none`: `return -1` (unterminated .strtab). -/
def codeSections (v : View) (h : Hdr) (namesOffset : Nat) : Nat → Nat → Secs → Option (Option Secs)
  | 0, _, s => some (some s)
  | k + 1, i, s => do
    let sec := h.shoff + i * h.shentsize
    let shName ← v.u32le sec
    let shType ← v.u32le (sec + 4)
    let shSize ← v.u32le (sec + 20)
    let shOffset ← v.u32le (sec + 16)
    if shType = SHT_SYMTAB then
      codeSections v h namesOffset k (i + 1) { s with symtab := some { off := shOffset, size := shSize } }
    else do
      let isStrtab ← guardedEq v (shType == SHT_STRTAB) (namesOffset + shName) dotStrtab
      if isStrtab then
        if shSize = 0 then pure none else do
          let last ← v.u8 (shOffset + shSize - 1)
          if last ≠ 0 then pure none
          else codeSections v h namesOffset k (i + 1) { s with strtab := some { off := shOffset, size := shSize } }
      else do
        let isText ← guardedEq v (shType != SHT_NOBITS) (namesOffset + shName) dotText
        if isText then
          codeSections v h namesOffset k (i + 1) { s with textOff := shOffset, textSize := shSize, textIndex := some i }
        else codeSections v h namesOffset k (i + 1) s

/-- result of `imports_obj_find_code_from_symbol` when it returns 0 -/
structure Code where
  functionOffset : Nat
  functionSize : Nat
  fileOffset : Nat
  deriving Repr, DecidableEq

/-- `imports_obj_find_code_from_symbol(buffer, file_size, symbol, ...)` -/
def findCode (v : View) (sym : Name) : Option (Option Code) := do
  let ok ← verify v
  if !ok then pure none else
  let h ← readHdr v
  let namesOffset ← v.u32le (h.shoff + h.shstrndx * h.shentsize + 16)
  let secs ← codeSections v h namesOffset h.shnum 0 {}
  match secs with
  | none => pure none
  | some s =>
    match s.symtab, s.strtab with
    | some symtab, some strtab => do
      let r ← lookupByName v symtab strtab sym s.textIndex (symtab.size / 16 + 1) 0
      match r with
      | none => pure none
      | some (offset, size) =>
        if offset > s.textSize ∨ size > s.textSize - offset then pure none
        else pure (some { functionOffset := offset, functionSize := size, fileOffset := s.textOff + offset })
    | _, _ => pure none

/-- section loop of `imports_obj_find_name_from_offset`.  Inner `none`: `return NULL`. -/
def nameSections (v : View) (h : Hdr) (namesOffset : Nat) : Nat → Nat → Secs → Option (Option Secs)
  | 0, _, s => some (some s)
  | k + 1, i, s => do
    let sec := h.shoff + i * h.shentsize
    let shName ← v.u32le sec
    let shType ← v.u32le (sec + 4)
    let shSize ← v.u32le (sec + 20)
    let shOffset ← v.u32le (sec + 16)
    if shType = SHT_SYMTAB then
      nameSections v h namesOffset k (i + 1) { s with symtab := some { off := shOffset, size := shSize } }
    else do
      let isStrtab ← guardedEq v (shType == SHT_STRTAB) (namesOffset + shName) dotStrtab
      if isStrtab then
        if shSize = 0 then pure none else do
          let last ← v.u8 (shOffset + shSize - 1)
          if last ≠ 0 then pure none
          else nameSections v h namesOffset k (i + 1) { s with strtab := some { off := shOffset, size := shSize } }
      else do
        let isRel ← guardedEq v (shType == SHT_REL) (namesOffset + shName) dotRelText
        if isRel then
          nameSections v h namesOffset k (i + 1) { s with reltab := { off := shOffset, size := shSize } }
        else nameSections v h namesOffset k (i + 1) s

/-- `imports_obj_find_name_from_offset(buffer, file_size, function_offset, local_offset)` -/
def nameAt (v : View) (functionOffset localOffset : Nat) : Option (Option Name) := do
  let ok ← verify v
  if !ok then pure none else
  let h ← readHdr v
  let namesOffset ← v.u32le (h.shoff + h.shstrndx * h.shentsize + 16)
  let secs ← nameSections v h namesOffset h.shnum 0 {}
  match secs with
  | none => pure none
  | some s =>
    match s.symtab, s.strtab with
    | some symtab, some strtab =>
      lookupByOffset v symtab strtab s.reltab functionOffset localOffset (s.reltab.size / 8 + 1) 0
    | _, _ => pure none

end NakenVerif.Link.Elf
