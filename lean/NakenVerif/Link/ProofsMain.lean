import NakenVerif.Link.ProofsLink2
/-
The whole protocol (`linkAll`) returning success: everything the property demands, in one statement.
-/
namespace NakenVerif.Link

theorem Syms.lookup_of_mem_nodup : ∀ (l : Syms) (x : Name × Addr), (l.map (·.1)).Nodup → x ∈ l →
    Syms.lookup l x.1 = some x.2
  | [], x, _, h => by cases h
  | y :: ys, x, hn, h => by
    rw [List.map_cons, List.nodup_cons] at hn
    rcases List.mem_cons.mp h with h | h
    · subst h; simp [Syms.lookup]
    · have hne : (y.1 == x.1) = false := by
        apply beq_false_of_ne
        intro he
        exact hn.1 (he ▸ List.mem_map.mpr ⟨x, h, rfl⟩)
      have ih := Syms.lookup_of_mem_nodup ys x hn.2 h
      simp only [Syms.lookup] at ih ⊢
      rw [List.find?_cons_of_neg (by simpa using hne)]
      exact ih

theorem mem_iff_getElem?' {α : Type} {l : List α} {a : α} (h : a ∈ l) : ∃ i, i < l.length ∧ l[i]? = some a := by
  obtain ⟨i, hi, rfl⟩ := List.mem_iff_getElem.mp h
  exact ⟨i, hi, by simp [hi]⟩

/-- everything `linkAll` guarantees when it reports success -/
structure Sound (env : Env) (cfg : Cfg) (p : Prog) (o : Out) : Prop where
  /-- no function is queued (hence placed) twice -/
  nodup : o.list.Nodup
  /-- the placed functions are exactly the referenced ones -/
  reach : ∀ n, n ∈ o.list ↔ Spec.Reach (objsOf env cfg.bigEndian) p.idents n
  findable : ∀ n ∈ o.list, Findable env n
  /-- the symbol table is the source's symbols followed by one entry per placed function, consecutive
  from the address the source ended at -/
  syms : o.syms = p.syms ++ Spec.layout (sizeOf env) o.list p.end1
  /-- no placed name collides with a symbol of the source -/
  fresh : ∀ n ∈ o.list, Syms.lookup p.syms n = none
  /-- looking a placed name up gives the address it was placed at -/
  lookup : ∀ x ∈ Spec.layout (sizeOf env) o.list p.end1, Syms.lookup o.syms x.1 = some x.2
  /-- pass 2 wrote, for every placed function in order, the specified bytes at the recorded address -/
  placed : All2 (PlacedOK env cfg.bigEndian o.syms) (Spec.layout (sizeOf env) o.list p.end1) o.runs
  /-- every call relocation of a placed function names a placed function -/
  closed : ∀ n ∈ o.list, ∀ f, env.find n = .found f → ∀ off g, (off, g) ∈ (fnOf env cfg.bigEndian f).calls → g ∈ o.list
  /-- both passes of the source ended at the same address (when anything was linked) -/
  ends : o.list ≠ [] → p.end1 = p.end2
  /-- the source's own references all resolved -/
  refs : ∀ r ∈ p.refs, (Syms.lookup o.syms r).isSome

theorem linkAll_sound {env : Env} {cfg : Cfg} {p : Prog} {fuel : Nat} {o : Out}
    (h : linkAll env cfg p fuel = .ok o) : Sound env cfg p o := by
  unfold linkAll at h
  split at h
  · cases h
  · cases h
  · cases h
  · rename_i l0 hd
    split at h
    · cases h
    · cases h
    · cases h
    · rename_i st h1
      split at h
      · cases h
      · rename_i hrefs
        split at h
        · cases h
        · cases h
        · cases h
        · rename_i e runs h2
          cases h
          have ⟨ext0, hroots⟩ := discover_ok _ _ _ hd
          obtain ⟨added, hl0, hadd, hnd⟩ := ext0
          simp only [List.nil_append] at hl0
          have inv0 : Inv1 env cfg.bigEndian p.idents p.syms p.end1 0 { list := l0, syms := p.syms, addr := p.end1 } :=
            { nodup := hnd List.nodup_nil
              findable := fun n hn => (hadd n (hl0 ▸ hn)).1
              reach := fun n hn =>
                Spec.Reach.root (hadd n (hl0 ▸ hn)).2 (objsOf_isSome.mpr (hadd n (hl0 ▸ hn)).1)
              roots := hroots
              closed := fun i n hi => by omega
              le := Nat.zero_le _
              syms := by simp [Spec.layout]
              addr := by simp [layoutEnd]
              fresh := by simp
              aligned := by simp [Spec.layout] }
          have inv := link1_inv _ _ _ _ h1 inv0
          have htake : st.list.take st.list.length = st.list := List.take_length
          have hsyms : st.syms = p.syms ++ Spec.layout (sizeOf env) st.list p.end1 := by
            have := inv.syms; rwa [htake] at this
          have hfresh : ∀ n ∈ st.list, Syms.lookup p.syms n = none := by
            have := inv.fresh; rwa [htake] at this
          have hlookup : ∀ x ∈ Spec.layout (sizeOf env) st.list p.end1, Syms.lookup st.syms x.1 = some x.2 := by
            intro x hx
            have hxn : x.1 ∈ st.list := by
              have : x.1 ∈ (Spec.layout (sizeOf env) st.list p.end1).map (·.1) := List.mem_map.mpr ⟨x, hx, rfl⟩
              rwa [layout_names] at this
            rw [hsyms, Syms.lookup_append, hfresh x.1 hxn]
            simp only [Option.none_or]
            exact Syms.lookup_of_mem_nodup _ x (by rw [layout_names]; exact inv.nodup) hx
          have ⟨hplaced, hends⟩ := link2_ok st.list p.end2 p.end1 e runs h2 inv.findable hlookup
          have hclosed : ∀ n ∈ st.list, ∀ f, env.find n = .found f → ∀ off g,
              (off, g) ∈ (fnOf env cfg.bigEndian f).calls → g ∈ st.list := by
            intro n hn f hf off g hg
            obtain ⟨i, hi, hin⟩ := mem_iff_getElem?' hn
            exact inv.closed i n hi hin f hf off g hg
          refine
            { nodup := inv.nodup, reach := ?_, findable := inv.findable, syms := hsyms, fresh := hfresh,
              lookup := hlookup, placed := hplaced, closed := hclosed, ends := hends, refs := ?_ }
          · intro n
            constructor
            · exact inv.reach n
            · intro hr
              induction hr with
              | root hr hs => exact inv.roots _ hr (objsOf_isSome.mp hs)
              | call _ hfn hc _ ih =>
                rename_i f' g' fn' off'
                obtain ⟨ff, hff⟩ := inv.findable _ ih
                rw [objsOf_found hff] at hfn
                cases hfn
                exact hclosed _ ih ff hff _ _ hc
          · intro r hr
            have := hrefs
            simp only [List.any_eq_true, not_exists, not_and, Bool.not_eq_true] at this
            have := this r hr
            cases hl : Syms.lookup st.syms r <;> simp_all

end NakenVerif.Link
